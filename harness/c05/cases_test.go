package c05

import (
	"fmt"
	"math/big"
	"testing"

	"pgregory.net/rapid"

	"github.com/bronlabs/bron-crypto/pkg/mpc"
	"github.com/bronlabs/bron-crypto/pkg/mpc/sharing"
	"github.com/bronlabs/bron-crypto/pkg/mpc/sharing/vss/feldman"
	"github.com/bronlabs/bron-crypto/pkg/mpc/sharing/vss/pedersen"
	"verif/harness/vlib"
	"verif/harness/vlib/policy"
)

// ---- driver glue ------------------------------------------------------------------------------

func runRapid(t *testing.T, test string, base int, body func(s suite, t *rapid.T, c *cfg) caseInfo) {
	vlib.Check(t, base, func(rt *rapid.T) {
		c, s := drawCfg(rt)
		info := body(s, rt, c)
		record(test, s, c, info)
	})
}

func record(test string, s suite, c *cfg, info caseInfo) {
	// NT rule: (scheme, family, canonical policy, group, alteration kind, k, holder-has-several-rows);
	// every negative case and every k >= 2 case is non-trivial.
	desc := vlib.Desc(c.scheme, c.pol.Family, c.pol.String(), s.name(), info.kind, c.k, info.multi)
	nt := info.neg || c.k >= 2
	classes := []string{
		"scheme=" + c.scheme, "family=" + c.pol.Family, "group=" + s.name(), "kind=" + info.kind,
		fmt.Sprintf("k=%d", c.k), "ids=" + c.regime, fmt.Sprintf("several-rows=%v", info.multi),
		fmt.Sprintf("ideal-policy=%v", c.pol.Ideal()), fmt.Sprintf("n=%d", c.pol.N), fmt.Sprintf("negative=%v", info.neg),
	}
	if c.zeroLast {
		classes = append(classes, "with-zero-dealing")
	}
	for _, sc := range c.secrets {
		classes = append(classes, "secret="+sc)
	}
	classes = append(classes, info.classes...)
	vlib.Case(test, desc, nt, classes...)
	if info.sample != nil {
		info.sample["cfg"] = c.String()
		info.sample["group"] = s.name()
		vlib.Sample(test+"/"+info.kind, info.sample)
	}
}

// drawQualified draws a qualified set of holders; must (>= 0) forces that holder into it.
func drawQualified(t *rapid.T, p *policy.Policy, must int) uint64 {
	var sets []uint64
	all := p.QualifiedSets()
	if rapid.IntRange(0, 3).Draw(t, "anyQualifiedSet") != 0 {
		all = p.MinimalQualified() // mostly minimal sets: fewer Verify calls per case
	}
	for pass := 0; pass < 2 && len(sets) == 0; pass++ {
		for _, s := range all {
			if must < 0 || s&(1<<uint(must)) != 0 {
				sets = append(sets, s)
			}
		}
		all = p.QualifiedSets() // the holder is in no minimal set: take any qualified set with it
	}
	if len(sets) == 0 {
		t.Fatalf("harness: policy %s has no qualified set containing holder %d", p, must)
	}
	return rapid.SampledFrom(sets).Draw(t, "qualifiedSet")
}

func unknownID(ids []uint64, seed uint64) sharing.ID {
	x := seed
	for {
		ok := x != 0
		for _, v := range ids {
			if v == x {
				ok = false
			}
		}
		if ok {
			return sharing.ID(x)
		}
		x++
	}
}

// ---- 1. altered shares --------------------------------------------------------------------------

func TestShareAlteration(t *testing.T) {
	runRapid(t, "ShareAlteration", 700, func(s suite, rt *rapid.T, c *cfg) caseInfo { return s.shareCase(rt, c) })
}

var shareKinds = []string{
	"coord+1", "coord-rand", "coord-zero", "coord-neg", "len-1", "len+1-zero", "len+1-rand", "len+1-dup",
	"id-other-value", "id-other-value", "id-other-own", "id-unknown", "rebuild-same",
}
var shareKindsMulti = []string{"swap-coords", "swap-coords", "swap-coords", "drop-first", "drop-first", "coord+1", "coord-rand", "coord-zero"}
var shareKindsCombined = []string{"cross-dealing", "cross-dealing"}
var shareKindsPedersen = []string{"blind+1", "blind-rand", "blind-zero", "blind-neg", "swap-secret-blinding", "both+1", "blind-len-1", "secret-len+1",
	"blind+1", "blind-rand", "blind-zero", "swap-secret-blinding", "both+1", "blind-len+1", "blind-len+1"}

func (e *env[E, S]) shareCase(t *rapid.T, c *cfg) caseInfo {
	w := newWorld(t, e, c)
	tg := w.targets()
	ti := drawTarget(t, len(w.deals))
	dl := tg[ti]
	w.baseline(t, dl, false)
	n := c.pol.N
	h := rapid.IntRange(0, n-1).Draw(t, "holder")
	if multi := w.multiRowHolders(); len(multi) > 0 && rapid.Bool().Draw(t, "preferSeveralRows") {
		h = rapid.SampledFrom(multi).Draw(t, "holderWithSeveralRows")
	}
	base := w.honest(dl, h)
	nr := len(base.sec)

	kinds := append([]string(nil), shareKinds...)
	if nr > 1 {
		kinds = append(kinds, shareKindsMulti...)
	}
	if len(tg) > 1 {
		kinds = append(kinds, shareKindsCombined...)
	}
	if c.scheme == schemePedersen {
		kinds = append(kinds, shareKindsPedersen...)
	}
	kind := rapid.SampledFrom(kinds).Draw(t, "alteration")
	altSeed := rapid.Uint64().Draw(t, "altSeed")
	i := rapid.IntRange(0, nr-1).Draw(t, "coord")
	o := (h + 1 + rapid.IntRange(0, n-2).Draw(t, "other")) % n
	q := e.q
	one := big.NewInt(1)

	cd := cand{id: base.id, sec: vecCopy(base.sec)}
	ped := c.scheme == schemePedersen
	if ped {
		cd.blind = vecCopy(base.blind)
	}
	neg := func(x *big.Int) *big.Int { return new(big.Int).Mod(new(big.Int).Neg(x), q) }
	switch kind {
	case "coord+1":
		cd.sec[i] = addMod(cd.sec[i], one, q)
	case "coord-rand":
		cd.sec[i] = randBig(altSeed, "coord", q)
	case "coord-zero":
		cd.sec[i] = new(big.Int)
	case "coord-neg":
		cd.sec[i] = neg(cd.sec[i])
	case "swap-coords":
		i2 := (i + 1) % nr
		cd.sec[i], cd.sec[i2] = cd.sec[i2], cd.sec[i]
		if ped {
			cd.blind[i], cd.blind[i2] = cd.blind[i2], cd.blind[i]
		}
	case "len-1":
		cd.sec = cd.sec[:nr-1]
		if ped {
			cd.blind = cd.blind[:nr-1]
		}
	case "drop-first":
		cd.sec = cd.sec[1:]
		if ped {
			cd.blind = cd.blind[1:]
		}
	case "len+1-zero", "len+1-rand", "len+1-dup":
		var x, y *big.Int
		switch kind {
		case "len+1-zero":
			x, y = new(big.Int), new(big.Int)
		case "len+1-rand":
			x, y = randBig(altSeed, "ext", q), randBig(altSeed, "extb", q)
		default:
			x = new(big.Int).Set(cd.sec[nr-1])
			if ped {
				y = new(big.Int).Set(cd.blind[nr-1])
			}
		}
		cd.sec = append(cd.sec, x)
		if ped {
			cd.blind = append(cd.blind, y)
		}
	case "id-other-value":
		cd.id = w.id(o) // holder h's value presented under holder o's identity
	case "id-other-own":
		cd = w.honest(dl, o) // holder o's own value, rebuilt from integers, under o's identity
	case "id-unknown":
		cd.id = unknownID(c.ids, altSeed)
	case "rebuild-same":
	case "cross-dealing":
		// the share of another dealing / of the combination, presented against this vector
		ot := (ti + 1 + rapid.IntRange(0, len(tg)-2).Draw(t, "otherTarget")) % len(tg)
		cd = w.honest(tg[ot], h)
	case "blind+1":
		cd.blind[i] = addMod(cd.blind[i], one, q)
	case "blind-rand":
		cd.blind[i] = randBig(altSeed, "blind", q)
	case "blind-zero":
		cd.blind[i] = new(big.Int)
	case "blind-neg":
		cd.blind[i] = neg(cd.blind[i])
	case "swap-secret-blinding":
		cd.sec, cd.blind = cd.blind, cd.sec
	case "both+1":
		cd.sec[i] = addMod(cd.sec[i], one, q)
		cd.blind[i] = addMod(cd.blind[i], one, q)
	case "blind-len-1":
		cd.blind = cd.blind[:nr-1]
	case "secret-len+1":
		cd.sec = append(cd.sec, new(big.Int))
	case "blind-len+1":
		cd.blind = append(cd.blind, randBig(altSeed, "extb", q))
	default:
		panic("kind " + kind)
	}

	want := w.matches(cd, dl)
	what := fmt.Sprintf("alteration %q of holder %d (ID %d, rows %v) against %s", kind, h, c.ids[h], w.holderRows[h], dl.label)
	built := w.present(t, what, cd, dl.vv, want)

	// ReconstructAndVerify over a qualified set containing the holder: error iff the share is not the dealer's
	reconClass := "recon=skipped"
	if cd.id == base.id {
		set := drawQualified(t, c.pol, h)
		sec, err, ok := w.reconstructAndVerify(t, dl, dl.vv, set, h, &cd)
		switch {
		case !ok:
			reconClass = "recon=unbuildable"
		case want && (err != nil || sec.Cmp(dl.rg[0]) != 0):
			t.Fatalf("%s: ReconstructAndVerify over qualified set %v with the dealer's shares gave (%v, %v), want secret %s [%s %s]", what, policy.Members(set), sec, err, dl.rg[0].Text(16), e.nm, c)
		case !want && err == nil:
			t.Fatalf("%s: ReconstructAndVerify over qualified set %v ACCEPTED an altered share (returned %s)\n candidate %s [%s %s]", what, policy.Members(set), sec.Text(16), cd, e.nm, c)
		case want:
			reconClass = "recon=secret"
		default:
			reconClass = "recon=rejected"
		}
	}

	info := caseInfo{kind: kind, multi: nr > 1, neg: !want, classes: []string{
		fmt.Sprintf("expected-accept=%v", want), "target=" + targetClass(ti, len(w.deals)), reconClass,
	}}
	if built != "" {
		info.classes = append(info.classes, "share-"+built)
	}
	info.sample = map[string]any{"holder": h, "rows": w.holderRows[h], "target": dl.label, "candidate": cd.String(), "accept": want}
	return info
}

// drawTarget picks the (vector, shares) pair under test: one of the k dealings or, half of the
// time when k >= 2, their combination (index k).
func drawTarget(t *rapid.T, k int) int {
	if k >= 2 && rapid.Bool().Draw(t, "targetCombined") {
		return k
	}
	return rapid.IntRange(0, k-1).Draw(t, "target")
}

func (w *world[E, S]) multiRowHolders() []int {
	var out []int
	for h, rows := range w.holderRows {
		if len(rows) > 1 {
			out = append(out, h)
		}
	}
	return out
}

func targetClass(ti, k int) string {
	if ti >= k {
		return "combined"
	}
	return "single-dealing"
}

// ---- 2. altered verification-vector entries --------------------------------------------------------

func TestVectorEntryAlteration(t *testing.T) {
	runRapid(t, "VectorEntryAlteration", 450, func(s suite, rt *rapid.T, c *cfg) caseInfo { return s.vectorCase(rt, c) })
}

func (e *env[E, S]) vectorCase(t *rapid.T, c *cfg) caseInfo {
	w := newWorld(t, e, c)
	tg := w.targets()
	ti := drawTarget(t, len(w.deals))
	dl := tg[ti]
	j := rapid.IntRange(0, w.d-1).Draw(t, "column")
	kind := rapid.SampledFrom([]string{"random", "random", "identity", "other-entry", "plus-G", "neg", "double"}).Draw(t, "replacement")
	altSeed := rapid.Uint64().Draw(t, "altSeed")
	pts := w.entries(t, dl.vv)
	old := pts[j]
	var np E
	switch kind {
	case "random":
		np = w.randPoint(altSeed, "entry")
	case "identity":
		np = e.group.OpIdentity()
	case "other-entry":
		j2 := (j + 1 + rapid.IntRange(0, w.d-2).Draw(t, "otherColumn")) % w.d
		np = pts[j2]
	case "plus-G":
		np = old.Op(e.group.Generator())
	case "neg":
		np = old.OpInv()
	case "double":
		np = old.Op(old)
	}
	changed := !np.Equal(old)
	pts[j] = np
	vv2, err := w.newVV(t, pts, true)
	if err != nil {
		t.Fatalf("NewVerificationVector refused a vector of the right length D=%d: %v [%s %s]", w.d, err, e.nm, c)
	}

	indep, dep := 0, 0
	for h := range w.holderRows {
		affected := changed && w.depends(h, j)
		if affected {
			dep++
		} else {
			indep++
		}
		what := fmt.Sprintf("vector entry %d replaced (%s, changed=%v); holder %d rows %v have coefficients %v in that column", j, kind, changed, h, w.holderRows[h], w.coeffs(h, j))
		// mpc.NewBaseShard (which recomputes all public shares) for the first holder of each kind only
		shardToo := (affected && dep == 1) || (!affected && indep == 1)
		w.presentLibWith(t, what, dl, h, vv2, !affected, shardToo)
	}

	// ReconstructAndVerify with the altered vector: error iff some member's share depends on the entry
	set := drawQualified(t, c.pol, -1)
	wantErr := false
	for _, h := range policy.Members(set) {
		if changed && w.depends(h, j) {
			wantErr = true
		}
	}
	sec, rerr, _ := w.reconstructAndVerify(t, dl, vv2, set, -1, nil)
	if wantErr && rerr == nil {
		t.Fatalf("ReconstructAndVerify over %v ACCEPTED shares against a vector whose entry %d was replaced (%s) although a member depends on it [%s %s]", policy.Members(set), j, kind, e.nm, c)
	}
	if !wantErr && (rerr != nil || sec.Cmp(dl.rg[0]) != 0) {
		t.Fatalf("ReconstructAndVerify over %v gave (%v, %v) against a vector altered only in entry %d on which no member depends; want secret %s [%s %s]", policy.Members(set), sec, rerr, j, dl.rg[0].Text(16), e.nm, c)
	}

	if c.scheme == schemeFeldman {
		var ldf *feldman.LiftedDealerFunc[E, S]
		vlib.NoPanic(t, "feldman.NewLiftedDealerFunc", func() { ldf, err = feldman.NewLiftedDealerFunc(vv2, w.msp) })
		if err != nil {
			t.Fatalf("NewLiftedDealerFunc refused a vector of the right length: %v [%s %s]", err, e.nm, c)
		}
		if !ldf.LiftedSecret().Value().Equal(pts[0]) {
			t.Fatalf("LiftedSecret of the (altered) vector is not its first entry [%s %s]", e.nm, c)
		}
	}

	info := caseInfo{kind: "entry-" + kind, multi: !c.pol.Ideal(), neg: dep > 0, classes: []string{
		fmt.Sprintf("changed=%v", changed), fmt.Sprintf("has-dependent-holder=%v", dep > 0), fmt.Sprintf("has-independent-holder=%v", indep > 0),
		fmt.Sprintf("both-directions=%v", dep > 0 && indep > 0), "target=" + targetClass(ti, len(w.deals)),
		fmt.Sprintf("column0=%v", j == 0), fmt.Sprintf("recon-rejected=%v", wantErr),
	}}
	info.sample = map[string]any{"column": j, "target": dl.label, "dependent": dep, "independent": indep, "changed": changed}
	return info
}

func (w *world[E, S]) coeffs(h, j int) []string {
	var out []string
	for _, rho := range w.holderRows[h] {
		out = append(out, w.m[rho][j].Text(16))
	}
	return out
}

// ---- 3. verification vectors of the wrong length ------------------------------------------------------

func TestVectorLength(t *testing.T) {
	runRapid(t, "VectorLength", 300, func(s suite, rt *rapid.T, c *cfg) caseInfo { return s.lengthCase(rt, c) })
}

var lengthKinds = []string{"trunc-last", "trunc-first", "single", "ext-identity", "ext-identity", "ext-random", "ext-identity-front", "ext-2-identity", "double"}

func (w *world[E, S]) resize(kind string, pts []E, seed uint64) []E {
	id := w.e.group.OpIdentity()
	cp := append([]E(nil), pts...)
	switch kind {
	case "trunc-last":
		return cp[:len(cp)-1]
	case "trunc-first":
		return cp[1:]
	case "single":
		return cp[:1]
	case "ext-identity":
		return append(cp, id)
	case "ext-random":
		return append(cp, w.randPoint(seed, "ext"))
	case "ext-identity-front":
		return append([]E{id}, cp...)
	case "ext-2-identity":
		return append(cp, id, id)
	case "double":
		return append(cp, pts...)
	}
	panic("length kind " + kind)
}

// wrongLength checks that a vector whose length differs from D is accepted nowhere. Returns class labels.
func (w *world[E, S]) wrongLength(t tb, dl *dealing[E, S], kind string, pts2 []E, opToo bool) []string {
	e, c := w.e, w.c
	what := fmt.Sprintf("vector of length %d (%s) for an MSP with D=%d columns", len(pts2), kind, w.d)
	if len(pts2) == w.d {
		t.Fatalf("harness: %s has the right length", what)
	}
	if vvA, err := w.newVV(t, pts2, true); err == nil || vvA != nil && err == nil {
		t.Fatalf("feldman.NewVerificationVector(%s, msp) ACCEPTED it [%s %s]", what, e.nm, c)
	}
	vvN, err := w.newVV(t, pts2, false)
	if err != nil {
		return []string{"nil-msp-constructor=refused"}
	}
	classes := []string{"nil-msp-constructor=accepted"}
	type namedVV struct {
		how string
		vv  *vvec[E, S]
	}
	vvs := []namedVV{{"built with nil MSP", vvN}}

	// the same vector as it would arrive from the wire
	if data, err := vvN.MarshalCBOR(); err == nil {
		var dec vvec[E, S]
		var uerr error
		vlib.NoPanic(t, "VerificationVector.UnmarshalCBOR", func() { uerr = dec.UnmarshalCBOR(data) })
		if uerr == nil {
			vvs = append(vvs, namedVV{"decoded from CBOR", &dec})
			classes = append(classes, "wire=decoded")
		} else {
			classes = append(classes, "wire=refused")
		}
	}
	for _, nv := range vvs {
		how, vv := nv.how, nv.vv
		for h := range w.holderRows {
			w.presentLib(t, what+" "+how, dl, h, vv, false)
		}
		var lerr error
		vlib.NoPanic(t, "feldman.NewLiftedDealerFunc", func() { _, lerr = feldman.NewLiftedDealerFunc(vv, w.msp) })
		if lerr == nil {
			t.Fatalf("feldman.NewLiftedDealerFunc ACCEPTED a %s (%s) [%s %s]", what, how, e.nm, c)
		}
		vlib.NoPanic(t, "pedersen.NewLiftedDealerFunc", func() { _, lerr = pedersen.NewLiftedDealerFunc(vv, w.msp) })
		if lerr == nil {
			t.Fatalf("pedersen.NewLiftedDealerFunc ACCEPTED a %s (%s) [%s %s]", what, how, e.nm, c)
		}
		vlib.NoPanic(t, "mpc.NewBasePublicMaterial", func() { _, lerr = mpc.NewBasePublicMaterial(w.msp, vv) })
		if lerr == nil {
			t.Fatalf("mpc.NewBasePublicMaterial ACCEPTED a %s (%s) [%s %s]", what, how, e.nm, c)
		}
		if _, rerr, _ := w.reconstructAndVerify(t, dl, vv, c.pol.Full(), -1, nil); rerr == nil {
			t.Fatalf("ReconstructAndVerify over all holders ACCEPTED a %s (%s) [%s %s]", what, how, e.nm, c)
		}
	}
	if opToo {
		// combining with a vector of another length: an error, or a result that verifies nothing
		for dir := 0; dir < 2; dir++ {
			var res *vvec[E, S]
			var oerr error
			vlib.NoPanic(t, "VerificationVector.Op (different lengths)", func() {
				if dir == 0 {
					res, oerr = dl.vv.Op(vvN)
				} else {
					res, oerr = vvN.Op(dl.vv)
				}
			})
			if oerr != nil {
				classes = append(classes, "op-mismatch=error")
				continue
			}
			classes = append(classes, "op-mismatch=result")
			for h := range w.holderRows {
				w.presentLib(t, "result of Op with a "+what, dl, h, res, false)
			}
		}
	}
	return classes
}

func (e *env[E, S]) lengthCase(t *rapid.T, c *cfg) caseInfo {
	w := newWorld(t, e, c)
	tg := w.targets()
	ti := drawTarget(t, len(w.deals))
	dl := tg[ti]
	kind := rapid.SampledFrom(lengthKinds).Draw(t, "length")
	altSeed := rapid.Uint64().Draw(t, "altSeed")
	pts := w.entries(t, dl.vv)
	pts2 := w.resize(kind, pts, altSeed)
	if kind == "single" && w.d == 1 {
		t.Fatalf("harness: MSP with a single column [%s]", c)
	}
	classes := w.wrongLength(t, dl, kind, pts2, true)
	classes = append(classes, "target="+targetClass(ti, len(w.deals)), fmt.Sprintf("D=%d", w.d))
	return caseInfo{kind: "length-" + kind, multi: !c.pol.Ideal(), neg: true, classes: classes,
		sample: map[string]any{"D": w.d, "length": len(pts2), "target": dl.label}}
}

// ---- 4. reconstruction, in the exponent, shards --------------------------------------------------------

func TestReconstruction(t *testing.T) {
	runRapid(t, "Reconstruction", 250, func(s suite, rt *rapid.T, c *cfg) caseInfo { return s.reconCase(rt, c) })
}

func (e *env[E, S]) reconCase(t *rapid.T, c *cfg) caseInfo {
	w := newWorld(t, e, c)
	tg := w.targets()
	ti := drawTarget(t, len(w.deals))
	dl := tg[ti]
	if w.comb != nil {
		w.checkCommitted(t, w.comb)
	}
	set := drawQualified(t, c.pol, -1)
	members := policy.Members(set)
	secret := dl.rg[0]

	sec, err, _ := w.reconstructAndVerify(t, dl, dl.vv, set, -1, nil)
	if err != nil || sec.Cmp(secret) != 0 {
		t.Fatalf("ReconstructAndVerify(%s, shares of qualified %v) = (%v, %v), want %s [%s %s]", dl.label, members, sec, err, secret.Text(16), e.nm, c)
	}

	// one member presents an altered share
	a := rapid.SampledFrom(members).Draw(t, "alteredMember")
	akind := rapid.SampledFrom([]string{"coord+1", "coord-rand", "coord-zero", "other-dealing"}).Draw(t, "alteration")
	if akind == "other-dealing" && len(tg) == 1 {
		akind = "coord+1"
	}
	cd := w.honest(dl, a)
	i := rapid.IntRange(0, len(cd.sec)-1).Draw(t, "coord")
	switch akind {
	case "coord+1":
		cd.sec[i] = addMod(cd.sec[i], big.NewInt(1), e.q)
	case "coord-rand":
		cd.sec[i] = randBig(rapid.Uint64().Draw(t, "altSeed"), "coord", e.q)
	case "coord-zero":
		cd.sec[i] = new(big.Int)
	case "other-dealing":
		ot := (ti + 1 + rapid.IntRange(0, len(tg)-2).Draw(t, "otherTarget")) % len(tg)
		cd = w.honest(tg[ot], a)
	}
	want := w.matches(cd, dl)
	sec2, err2, ok := w.reconstructAndVerify(t, dl, dl.vv, set, a, &cd)
	if ok && !want && err2 == nil {
		t.Fatalf("ReconstructAndVerify(%s, qualified %v) ACCEPTED member %d's altered share (%s), returned %s\n candidate %s [%s %s]", dl.label, members, a, akind, sec2.Text(16), cd, e.nm, c)
	}
	if ok && want && (err2 != nil || sec2.Cmp(secret) != 0) {
		t.Fatalf("ReconstructAndVerify(%s, qualified %v) with an unchanged candidate gave (%v,%v) [%s %s]", dl.label, members, sec2, err2, e.nm, c)
	}

	pts := w.entries(t, dl.vv)
	classes := []string{"target=" + targetClass(ti, len(w.deals)), fmt.Sprintf("set-size=%d", len(members)), fmt.Sprintf("altered-accept=%v", want)}
	if c.scheme == schemeFeldman {
		g := e.group.Generator()
		liftedSecret := e.group.ScalarBaseOp(w.fe(secret))
		if !pts[0].Equal(liftedSecret) {
			t.Fatalf("first vector entry of %s is not [secret]G [%s %s]", dl.label, e.nm, c)
		}
		var ldf *feldman.LiftedDealerFunc[E, S]
		vlib.NoPanic(t, "feldman.NewLiftedDealerFunc", func() { ldf, err = feldman.NewLiftedDealerFunc(dl.vv, w.msp) })
		if err != nil {
			t.Fatalf("NewLiftedDealerFunc(%s): %v [%s %s]", dl.label, err, e.nm, c)
		}
		if !ldf.LiftedSecret().Value().Equal(pts[0]) {
			t.Fatalf("LiftedSecret of %s is not the first vector entry [%s %s]", dl.label, e.nm, c)
		}
		var pm *mpc.BasePublicMaterial[E, S]
		vlib.NoPanic(t, "mpc.NewBasePublicMaterial", func() { pm, err = mpc.NewBasePublicMaterial(w.msp, dl.vv) })
		if err != nil {
			t.Fatalf("NewBasePublicMaterial(%s): %v [%s %s]", dl.label, err, e.nm, c)
		}
		if !pm.PublicKeyValue().Equal(pts[0]) {
			t.Fatalf("BasePublicMaterial.PublicKeyValue of %s is not the first vector entry [%s %s]", dl.label, e.nm, c)
		}
		var public, lifted []*feldman.LiftedShare[E, S]
		for h := range w.holderRows {
			id := w.id(h)
			pub, err := ldf.ShareOf(id)
			if err != nil {
				t.Fatalf("LiftedDealerFunc.ShareOf(%d): %v [%s %s]", id, err, e.nm, c)
			}
			man, err := feldman.LiftShare(dl.fshares[id], g)
			if err != nil {
				t.Fatalf("LiftShare(%d): %v [%s %s]", id, err, e.nm, c)
			}
			if !pub.Equal(man) {
				t.Fatalf("public share of holder %d derived from the vector differs from the lift of its share [%s %s]", h, e.nm, c)
			}
			pks, ok := pm.PublicKeyShares().Get(id)
			if !ok || !pks.Equal(man) {
				t.Fatalf("BasePublicMaterial.PublicKeyShares[%d] differs from the lift of the holder's share [%s %s]", id, e.nm, c)
			}
			if set&(1<<uint(h)) != 0 {
				public = append(public, pub)
				lifted = append(lifted, man)
			}
		}
		// order of presentation must not matter: reverse one of the two lists
		for l, r := 0, len(lifted)-1; l < r; l, r = l+1, r-1 {
			lifted[l], lifted[r] = lifted[r], lifted[l]
		}
		for li, shares := range [][]*feldman.LiftedShare[E, S]{public, lifted} {
			name := []string{"public", "lifted"}[li]
			var rec *feldman.LiftedSecret[E, S]
			vlib.NoPanic(t, "ReconstructInTheExponent", func() { rec, err = w.fs.ReconstructInTheExponent(shares...) })
			if err != nil {
				t.Fatalf("ReconstructInTheExponent(%s shares of qualified %v): %v [%s %s]", name, members, err, e.nm, c)
			}
			if !rec.Value().Equal(pts[0]) {
				t.Fatalf("ReconstructInTheExponent(%s shares of qualified %v) is not the committed public value V[0] [%s %s]", name, members, e.nm, c)
			}
		}
		classes = append(classes, "in-the-exponent")
	} else {
		var pldf *pedersen.LiftedDealerFunc[E, S]
		vlib.NoPanic(t, "pedersen.NewLiftedDealerFunc", func() { pldf, err = pedersen.NewLiftedDealerFunc(dl.vv, w.msp) })
		if err != nil {
			t.Fatalf("pedersen.NewLiftedDealerFunc(%s): %v [%s %s]", dl.label, err, e.nm, c)
		}
		for h := range w.holderRows {
			id := w.id(h)
			pub, err := pldf.ShareOf(id)
			if err != nil {
				t.Fatalf("pedersen LiftedDealerFunc.ShareOf(%d): %v [%s %s]", id, err, e.nm, c)
			}
			man, err := pedersen.LiftShare(dl.pshares[id], w.key)
			if err != nil {
				t.Fatalf("pedersen.LiftShare(%d): %v [%s %s]", id, err, e.nm, c)
			}
			if !pub.Equal(man) {
				t.Fatalf("pedersen: commitment vector of holder %d derived from the vector differs from the commitments to its share [%s %s]", h, e.nm, c)
			}
		}
	}
	return caseInfo{kind: "recon-" + akind, multi: len(w.holderRows[a]) > 1, neg: !want, classes: classes,
		sample: map[string]any{"set": members, "altered": a, "target": dl.label}}
}
