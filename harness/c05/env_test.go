package c05

import (
	"fmt"
	"math/big"
	"sort"
	"strings"

	"pgregory.net/rapid"

	"github.com/bronlabs/bron-crypto/pkg/base/algebra"
	"github.com/bronlabs/bron-crypto/pkg/base/curves/edwards25519"
	"github.com/bronlabs/bron-crypto/pkg/base/curves/k256"
	"github.com/bronlabs/bron-crypto/pkg/base/curves/p256"
	"github.com/bronlabs/bron-crypto/pkg/base/curves/pairable/bls12381"
	"github.com/bronlabs/bron-crypto/pkg/base/curves/pasta"
	"github.com/bronlabs/bron-crypto/pkg/base/mat"
	pedcom "github.com/bronlabs/bron-crypto/pkg/commitments/pedersencom"
	"github.com/bronlabs/bron-crypto/pkg/mpc"
	"github.com/bronlabs/bron-crypto/pkg/mpc/sharing"
	"github.com/bronlabs/bron-crypto/pkg/mpc/sharing/scheme/kw"
	"github.com/bronlabs/bron-crypto/pkg/mpc/sharing/scheme/kw/msp"
	"github.com/bronlabs/bron-crypto/pkg/mpc/sharing/vss/feldman"
	"github.com/bronlabs/bron-crypto/pkg/mpc/sharing/vss/pedersen"
	"verif/harness/vlib"
	"verif/harness/vlib/lx"
	"verif/harness/vlib/policy"
)

// ---- configuration of one case --------------------------------------------------------------

const (
	schemeFeldman  = "feldman"
	schemePedersen = "pedersen"
)

// cfg is everything that determines the dealings of one case. All fields are rapid draws (or
// enumeration indices in the small-scope test).
type cfg struct {
	scheme   string
	pol      *policy.Policy
	ids      []uint64 // holder index -> shareholder ID
	regime   string
	seed     uint64   // dealer seed (vlib.NewPRNG)
	k        int      // number of dealings that are combined
	zeroLast bool     // the last of k >= 2 dealings is the all-zero dealing (identity vector, zero shares)
	secrets  []string // per dealing: "zero" "one" "q-1" "rand" "dealrandom"
}

func (c *cfg) String() string {
	return fmt.Sprintf("scheme=%s policy=%s ids=%v(%s) seed=%d k=%d zeroLast=%v secrets=%v",
		c.scheme, c.pol, c.ids, c.regime, c.seed, c.k, c.zeroLast, c.secrets)
}

// caseInfo is what a case body reports back for the statistics.
type caseInfo struct {
	kind    string // alteration kind
	multi   bool   // the holder under test owns several MSP rows (or: the policy is non-ideal, for all-holder cases)
	neg     bool   // the case contained at least one expected rejection
	classes []string
	sample  map[string]any
}

// suite is one group on which the generic case bodies run.
type suite interface {
	name() string
	order() *big.Int
	shareCase(t *rapid.T, c *cfg) caseInfo
	vectorCase(t *rapid.T, c *cfg) caseInfo
	lengthCase(t *rapid.T, c *cfg) caseInfo
	reconCase(t *rapid.T, c *cfg) caseInfo
	smallScope(t tb, c *cfg) (checks int, info caseInfo)
}

// tb is the part of *rapid.T / *testing.T the helpers need.
type tb = vlib.Fataler

type env[E algebra.PrimeGroupElement[E, S], S algebra.PrimeFieldElement[S]] struct {
	nm    string
	group algebra.PrimeGroup[E, S]
	field algebra.PrimeField[S]
	q     *big.Int
}

func newEnv[E algebra.PrimeGroupElement[E, S], S algebra.PrimeFieldElement[S]](nm string, g algebra.PrimeGroup[E, S]) *env[E, S] {
	f := algebra.StructureMustBeAs[algebra.PrimeField[S]](g.ScalarStructure())
	return &env[E, S]{nm: nm, group: g, field: f, q: lx.Order(f)}
}

func (e *env[E, S]) name() string    { return e.nm }
func (e *env[E, S]) order() *big.Int { return e.q }

var suites = []suite{
	newEnv("k256", k256.NewCurve()),
	newEnv("p256", p256.NewCurve()),
	newEnv("ed25519-prime", edwards25519.NewPrimeSubGroup()),
	newEnv("pallas", pasta.NewPallasCurve()),
	newEnv("bls12381-g1", bls12381.NewG1()),
	newEnv("bls12381-g2", bls12381.NewG2()),
}

// groupWeights: the generic code paths are the same for every group; the slow pure-Go pairing
// groups are drawn less often so that the case budget goes into structures and alterations.
var groupWeights = []string{
	"k256", "k256", "k256", "k256", "p256", "p256", "p256", "ed25519-prime", "ed25519-prime", "ed25519-prime",
	"pallas", "pallas", "pallas", "bls12381-g1", "bls12381-g1", "bls12381-g2",
}
var slowGroups = map[string]bool{"bls12381-g1": true, "bls12381-g2": true}

func suiteByName(nm string) suite {
	for _, s := range suites {
		if s.name() == nm {
			return s
		}
	}
	panic("no suite " + nm)
}

// drawCfg draws the group and the configuration of the dealings.
func drawCfg(t *rapid.T) (*cfg, suite) {
	s := suiteByName(rapid.SampledFrom(groupWeights).Draw(t, "group"))
	slow := slowGroups[s.name()]
	c := &cfg{}
	c.scheme = rapid.SampledFrom([]string{schemeFeldman, schemePedersen}).Draw(t, "scheme")
	maxN := 5
	if slow && !vlib.Thorough() {
		maxN = 4 // pure-Go BLS12-381 scalar multiplications cost milliseconds; a Verify does rows x D of them
	}
	// low-weight tail of larger structures: the library imposes no limit on the number of holders or
	// on the span-programme dimensions (Verify is rows x D scalar multiplications, no algorithm
	// switch), the small range above is a budget choice only. Fast groups only.
	if !slow && rapid.IntRange(1, 20).Draw(t, "moreHolders") == 20 {
		maxN = rapid.SampledFrom([]int{7, 9, 12}).Draw(t, "maxNBig")
	}
	for {
		// families weighted towards the structures with several rows per holder and zero coefficients
		fam := rapid.SampledFrom([]string{policy.CNF, policy.CNF, policy.CNF, policy.Gate, policy.Gate, policy.Gate,
			policy.Hier, policy.Hier, policy.Threshold, policy.Threshold, policy.Unanimity}).Draw(t, "familyWeighted")
		c.pol = policy.Draw(t, policy.Opts{MaxN: maxN, Families: []string{fam}})
		if c.pol.Family == policy.Hier && policy.TassaVerdict(c.pol, ordinalIDs(c.pol.N), s.order()) != 1 {
			// only reachable in the larger-structure tail: a top threshold that Tassa's bound refuses
			// even under ordinal IDs (the fallback below) - outside the documented domain
			vlib.Class("Generator", "redraw:hier-outside-tassa-bound")
			continue
		}
		if everyHolderHasRows(c.pol) {
			break
		}
		// a CNF policy in which some holder lies in every maximal unqualified set: that holder is
		// in no minimal qualified set and the library gives it no MSP row, hence no share
		vlib.Class("Generator", "redraw:holder-without-rows")
	}
	c.regime = rapid.SampledFrom([]string{policy.Ordinal, policy.Sparse, policy.Large}).Draw(t, "regime")
	c.ids = policy.DrawIDs(t, c.pol, c.regime)
	if c.pol.Family == policy.Hier && c.regime != policy.Ordinal && policy.TassaVerdict(c.pol, c.ids, s.order()) != 1 {
		// outside the documented domain of the hierarchical construction: not this property's subject
		c.ids = ordinalIDs(c.pol.N)
		c.regime = "ordinal(fallback)"
	}
	c.seed = rapid.Uint64().Draw(t, "dealerSeed")
	c.k = rapid.SampledFrom([]int{1, 1, 2, 2, 3, 4}).Draw(t, "k")
	if slow && c.k > 2 && !vlib.Thorough() {
		c.k = 2
	}
	// "any number of combined dealings": occasionally 5..9 (the library folds the vectors pairwise,
	// there is no limit; the usual 1..4 is a budget choice). Fast groups only.
	if !slow && rapid.IntRange(1, 16).Draw(t, "manyDealings") == 16 {
		c.k = rapid.SampledFrom([]int{5, 6, 7, 9}).Draw(t, "kBig")
	}
	if c.k >= 2 {
		c.zeroLast = rapid.IntRange(0, 7).Draw(t, "zeroLast") == 0
	}
	for d := 0; d < c.k; d++ {
		c.secrets = append(c.secrets, rapid.SampledFrom([]string{"rand", "rand", "dealrandom", "zero", "one", "q-1"}).Draw(t, fmt.Sprintf("secret%d", d)))
	}
	return c, s
}

func everyHolderHasRows(p *policy.Policy) bool {
	for h := 0; h < p.N; h++ {
		if p.Rows(h) == 0 {
			return false
		}
	}
	return true
}

func ordinalIDs(n int) []uint64 {
	ids := make([]uint64, n)
	for i := range ids {
		ids[i] = uint64(i + 1)
	}
	return ids
}

// ---- math/big helpers -----------------------------------------------------------------------

// randBig expands (seed, label) into an integer in [0, q).
func randBig(seed uint64, label string, q *big.Int) *big.Int {
	var buf [64]byte
	_, _ = vlib.NewPRNG(seed, label).Read(buf[:])
	return new(big.Int).Mod(new(big.Int).SetBytes(buf[:]), q)
}

func addMod(a, b, q *big.Int) *big.Int { return new(big.Int).Mod(new(big.Int).Add(a, b), q) }

func vecEq(a, b []*big.Int) bool {
	if len(a) != len(b) {
		return false
	}
	for i := range a {
		if a[i].Cmp(b[i]) != 0 {
			return false
		}
	}
	return true
}

func vecCopy(a []*big.Int) []*big.Int {
	out := make([]*big.Int, len(a))
	for i, v := range a {
		out[i] = new(big.Int).Set(v)
	}
	return out
}

func vecStr(a []*big.Int) string {
	if a == nil {
		return "-"
	}
	parts := make([]string, len(a))
	for i, v := range a {
		parts[i] = v.Text(16)
	}
	return "[" + strings.Join(parts, ",") + "]"
}

// ---- the world of one case: schemes, MSP model, dealings --------------------------------------

type vvec[E algebra.PrimeGroupElement[E, S], S algebra.PrimeFieldElement[S]] = feldman.VerificationVector[E, S]

// dealing is one dealing (or the combination of several): the public vector, the shares as
// library objects, and the committed column(s) as integers - the model of "the dealer's
// committed sharing".
type dealing[E algebra.PrimeGroupElement[E, S], S algebra.PrimeFieldElement[S]] struct {
	label   string
	vv      *vvec[E, S]
	rg, rh  []*big.Int // committed column(s); rh only for Pedersen
	fshares map[sharing.ID]*kw.Share[S]
	pshares map[sharing.ID]*pedersen.Share[S]
}

type world[E algebra.PrimeGroupElement[E, S], S algebra.PrimeFieldElement[S]] struct {
	e   *env[E, S]
	c   *cfg
	msp *msp.MSP[S]
	// independent model of the span programme, read entry by entry
	m          [][]*big.Int // rows x d
	d, nrows   int
	holderRows [][]int // holder index -> ascending row indices
	fs         *feldman.Scheme[E, S]
	ps         *pedersen.Scheme[E, S]
	key        *pedcom.CommitmentKey[E, S]
	deals      []*dealing[E, S] // the k dealings
	comb       *dealing[E, S]   // their combination (nil when k == 1)
}

func (w *world[E, S]) fe(x *big.Int) S { return lx.FE(w.e.field, x) }

func (w *world[E, S]) fes(xs []*big.Int) []S {
	out := make([]S, len(xs))
	for i, x := range xs {
		out[i] = w.fe(x)
	}
	return out
}

// targets lists every (vector, shares) pair of the case: each dealing and the combination.
func (w *world[E, S]) targets() []*dealing[E, S] {
	out := append([]*dealing[E, S](nil), w.deals...)
	if w.comb != nil {
		out = append(out, w.comb)
	}
	return out
}

func (w *world[E, S]) id(h int) sharing.ID { return sharing.ID(w.c.ids[h]) }

func (w *world[E, S]) holderOf(id sharing.ID) int {
	for h, v := range w.c.ids {
		if sharing.ID(v) == id {
			return h
		}
	}
	return -1
}

// lambda is the share the committed column r assigns to holder h: (M_rho . r) for the rows rho
// of h in ascending order (math/big only).
func (w *world[E, S]) lambda(r []*big.Int, h int) []*big.Int {
	out := make([]*big.Int, 0, len(w.holderRows[h]))
	for _, rho := range w.holderRows[h] {
		acc := new(big.Int)
		for j := 0; j < w.d; j++ {
			acc.Add(acc, new(big.Int).Mul(w.m[rho][j], r[j]))
		}
		out = append(out, acc.Mod(acc, w.e.q))
	}
	return out
}

// depends reports whether the share of holder h depends on column j of the vector: some row
// of h has a non-zero coefficient there.
func (w *world[E, S]) depends(h, j int) bool {
	for _, rho := range w.holderRows[h] {
		if w.m[rho][j].Sign() != 0 {
			return true
		}
	}
	return false
}

func newWorld[E algebra.PrimeGroupElement[E, S], S algebra.PrimeFieldElement[S]](t tb, e *env[E, S], c *cfg) *world[E, S] {
	t.Helper()
	w := &world[E, S]{e: e, c: c}
	ac, err := policy.Build(c.pol, c.ids)
	if err != nil {
		t.Fatalf("harness: policy.Build(%s, %v): %v", c.pol, c.ids, err)
	}
	switch c.scheme {
	case schemeFeldman:
		w.fs, err = feldman.NewScheme(e.group, ac)
		if err != nil {
			t.Fatalf("feldman.NewScheme [%s %s]: %v", e.nm, c, err)
		}
		w.msp = w.fs.MSP()
	case schemePedersen:
		w.key, err = pedcom.SampleCommitmentKey(e.group, vlib.NewPRNG(c.seed, "pedersen-key"))
		if err != nil {
			t.Fatalf("SampleCommitmentKey [%s]: %v", e.nm, err)
		}
		w.ps, err = pedersen.NewScheme(w.key, ac)
		if err != nil {
			t.Fatalf("pedersen.NewScheme [%s %s]: %v", e.nm, c, err)
		}
		// the Pedersen scheme does not expose its MSP; the Feldman scheme over the same
		// structure induces the same one (checked below through the dealer function's MSP)
		fsAux, err := feldman.NewScheme(e.group, ac)
		if err != nil {
			t.Fatalf("feldman.NewScheme (aux) [%s %s]: %v", e.nm, c, err)
		}
		w.msp = fsAux.MSP()
	default:
		panic("scheme")
	}
	w.readMSP(t)
	for d := 0; d < c.k; d++ {
		if c.zeroLast && d == c.k-1 {
			w.deals = append(w.deals, w.zeroDealing(t, d))
		} else {
			w.deals = append(w.deals, w.deal(t, d))
		}
	}
	if c.k >= 2 {
		w.comb = w.combine(t)
	}
	return w
}

func (w *world[E, S]) readMSP(t tb) {
	t.Helper()
	mm := w.msp.Matrix()
	w.nrows, w.d = mm.Dimensions()
	if int(w.msp.D()) != w.d || int(w.msp.Size()) != w.nrows {
		t.Fatalf("MSP reports D=%d Size=%d but its matrix is %dx%d [%s]", w.msp.D(), w.msp.Size(), w.nrows, w.d, w.c)
	}
	w.m = make([][]*big.Int, w.nrows)
	for i := range w.m {
		w.m[i] = make([]*big.Int, w.d)
		for j := range w.m[i] {
			v, err := mm.Get(i, j)
			if err != nil {
				t.Fatalf("MSP matrix Get(%d,%d): %v", i, j, err)
			}
			w.m[i][j] = lx.Big(v)
		}
	}
	w.holderRows = make([][]int, w.c.pol.N)
	seen := 0
	for h := range w.holderRows {
		set, ok := w.msp.HoldersToRows().Get(w.id(h))
		if !ok {
			t.Fatalf("holder %d (ID %d) owns no MSP row [%s]", h, w.c.ids[h], w.c)
		}
		rows := append([]int(nil), set.List()...)
		sort.Ints(rows)
		w.holderRows[h] = rows
		seen += len(rows)
	}
	if seen != w.nrows {
		t.Fatalf("MSP has %d rows but the %d holders own %d [%s]", w.nrows, w.c.pol.N, seen, w.c)
	}
}

func (w *world[E, S]) column(t tb, m *mat.Matrix[S], what string) []*big.Int {
	t.Helper()
	r, cc := m.Dimensions()
	if cc != 1 || r != w.d {
		t.Fatalf("%s is %dx%d, want %dx1 [%s]", what, r, cc, w.d, w.c)
	}
	out := make([]*big.Int, r)
	for i := range out {
		v, err := m.Get(i, 0)
		if err != nil {
			t.Fatalf("%s Get(%d,0): %v", what, i, err)
		}
		out[i] = lx.Big(v)
	}
	return out
}

func (w *world[E, S]) secretValue(class string, d int) *big.Int {
	switch class {
	case "zero":
		return new(big.Int)
	case "one":
		return big.NewInt(1)
	case "q-1":
		return new(big.Int).Sub(w.e.q, big.NewInt(1))
	default:
		return randBig(w.c.seed, fmt.Sprintf("secret%d", d), w.e.q)
	}
}

func bigShare[S algebra.PrimeFieldElement[S]](vals []S) []*big.Int {
	out := make([]*big.Int, len(vals))
	for i, v := range vals {
		out[i] = lx.Big(v)
	}
	return out
}

// deal runs dealing number d of the library and records the committed column(s). It also
// checks what the oracle relies on: the vector is the documented lift of the column, the
// first entry of the column is the secret, and the dealt shares are M.r.
func (w *world[E, S]) deal(t tb, d int) *dealing[E, S] {
	t.Helper()
	label := fmt.Sprintf("deal%d", d)
	prng := vlib.NewPRNG(w.c.seed, label)
	class := w.c.secrets[d]
	out := &dealing[E, S]{label: label}
	var secret *big.Int
	switch w.c.scheme {
	case schemeFeldman:
		var do *feldman.DealerOutput[E, S]
		var df *feldman.DealerFunc[S]
		var err error
		if class == "dealrandom" {
			var sec *kw.Secret[S]
			do, sec, df, err = w.fs.DealRandomAndRevealDealerFunc(prng)
			if err == nil {
				secret = lx.Big(sec.Value())
			}
		} else {
			secret = w.secretValue(class, d)
			do, df, err = w.fs.DealAndRevealDealerFunc(kw.NewSecret(w.fe(secret)), prng)
		}
		if err != nil {
			t.Fatalf("feldman deal %s failed: %v [%s %s]", label, err, w.e.nm, w.c)
		}
		out.vv = do.VerificationMaterial()
		out.rg = w.column(t, df.RandomColumn(), "random column")
		out.fshares = map[sharing.ID]*kw.Share[S]{}
		for h := range w.holderRows {
			sh, ok := do.Shares().Get(w.id(h))
			if !ok {
				t.Fatalf("feldman deal %s: no share for holder ID %d [%s]", label, w.c.ids[h], w.c)
			}
			out.fshares[w.id(h)] = sh
		}
		if do.Shares().Size() != len(w.holderRows) {
			t.Fatalf("feldman deal %s: %d shares for %d holders [%s]", label, do.Shares().Size(), len(w.holderRows), w.c)
		}
	case schemePedersen:
		var do *pedersen.DealerOutput[E, S]
		var df *pedersen.DealerFunc[S]
		var err error
		if class == "dealrandom" {
			var sec *kw.Secret[S]
			do, sec, df, err = w.ps.DealRandomAndRevealDealerFunc(prng)
			if err == nil {
				secret = lx.Big(sec.Value())
			}
		} else {
			secret = w.secretValue(class, d)
			do, df, err = w.ps.DealAndRevealDealerFunc(kw.NewSecret(w.fe(secret)), prng)
		}
		if err != nil {
			t.Fatalf("pedersen deal %s failed: %v [%s %s]", label, err, w.e.nm, w.c)
		}
		if !df.G().MSP().Equal(w.msp) || !df.H().MSP().Equal(w.msp) {
			t.Fatalf("harness: the Pedersen scheme's MSP differs from the Feldman scheme's over the same structure [%s]", w.c)
		}
		out.vv = do.VerificationMaterial()
		out.rg = w.column(t, df.G().RandomColumn(), "secret random column")
		out.rh = w.column(t, df.H().RandomColumn(), "blinding random column")
		out.pshares = map[sharing.ID]*pedersen.Share[S]{}
		for h := range w.holderRows {
			sh, ok := do.Shares().Get(w.id(h))
			if !ok {
				t.Fatalf("pedersen deal %s: no share for holder ID %d [%s]", label, w.c.ids[h], w.c)
			}
			out.pshares[w.id(h)] = sh
		}
		if do.Shares().Size() != len(w.holderRows) {
			t.Fatalf("pedersen deal %s: %d shares for %d holders [%s]", label, do.Shares().Size(), len(w.holderRows), w.c)
		}
	}
	if out.rg[0].Cmp(secret) != 0 {
		t.Fatalf("%s %s: first entry of the random column %s is not the secret %s [%s %s]", w.c.scheme, label, out.rg[0].Text(16), secret.Text(16), w.e.nm, w.c)
	}
	w.checkCommitted(t, out)
	return out
}

// checkCommitted: V_j = [rg_j]G (+ [rh_j]H) and the library's shares equal M.r.
func (w *world[E, S]) checkCommitted(t tb, dl *dealing[E, S]) {
	t.Helper()
	pts := w.entries(t, dl.vv)
	if len(pts) != w.d {
		t.Fatalf("%s %s: verification vector has %d entries, MSP has %d columns [%s %s]", w.c.scheme, dl.label, len(pts), w.d, w.e.nm, w.c)
	}
	for j, p := range pts {
		var want E
		if w.c.scheme == schemeFeldman {
			want = w.e.group.ScalarBaseOp(w.fe(dl.rg[j]))
		} else {
			want = w.key.G().ScalarOp(w.fe(dl.rg[j])).Op(w.key.H().ScalarOp(w.fe(dl.rh[j])))
		}
		if !p.Equal(want) {
			t.Fatalf("%s %s: verification vector entry %d is not the commitment to entry %d of the dealer's column [%s %s]", w.c.scheme, dl.label, j, j, w.e.nm, w.c)
		}
	}
	for h := range w.holderRows {
		lg := w.lambda(dl.rg, h)
		if w.c.scheme == schemeFeldman {
			if got := bigShare(dl.fshares[w.id(h)].Value()); !vecEq(got, lg) {
				t.Fatalf("feldman %s: share of holder %d (ID %d) is %s, M_i.r is %s [%s %s]", dl.label, h, w.c.ids[h], vecStr(got), vecStr(lg), w.e.nm, w.c)
			}
		} else {
			sh := dl.pshares[w.id(h)]
			lh := w.lambda(dl.rh, h)
			gotB := make([]*big.Int, len(sh.Blinding()))
			for i, b := range sh.Blinding() {
				gotB[i] = lx.Big(b.Value())
			}
			if got := bigShare(sh.Value()); !vecEq(got, lg) || !vecEq(gotB, lh) {
				t.Fatalf("pedersen %s: share of holder %d (ID %d) is %s/%s, M_i.r is %s/%s [%s %s]", dl.label, h, w.c.ids[h], vecStr(got), vecStr(gotB), vecStr(lg), vecStr(lh), w.e.nm, w.c)
			}
		}
	}
}

// zeroDealing is the dealing of the zero column: identity vector, zero shares.
func (w *world[E, S]) zeroDealing(t tb, d int) *dealing[E, S] {
	t.Helper()
	out := &dealing[E, S]{label: fmt.Sprintf("deal%d(zero)", d)}
	pts := make([]E, w.d)
	out.rg = make([]*big.Int, w.d)
	for j := range pts {
		pts[j] = w.e.group.OpIdentity()
		out.rg[j] = new(big.Int)
	}
	vv, err := w.newVV(t, pts, true)
	if err != nil {
		t.Fatalf("NewVerificationVector(identity vector of length D=%d, msp): %v [%s %s]", w.d, err, w.e.nm, w.c)
	}
	out.vv = vv
	if w.c.scheme == schemePedersen {
		out.rh = vecCopy(out.rg)
		out.pshares = map[sharing.ID]*pedersen.Share[S]{}
	} else {
		out.fshares = map[sharing.ID]*kw.Share[S]{}
	}
	for h, rows := range w.holderRows {
		z := make([]*big.Int, len(rows))
		for i := range z {
			z[i] = new(big.Int)
		}
		ks, err := kw.NewShare(w.id(h), w.fes(z)...)
		if err != nil {
			t.Fatalf("kw.NewShare(zero share): %v", err)
		}
		if w.c.scheme == schemeFeldman {
			out.fshares[w.id(h)] = ks
			continue
		}
		kb, _ := kw.NewShare(w.id(h), w.fes(z)...)
		ps, err := pedersen.NewShare(w.id(h), ks, kb)
		if err != nil {
			t.Fatalf("pedersen.NewShare(zero share): %v", err)
		}
		out.pshares[w.id(h)] = ps
	}
	return out
}

// combine folds the k dealings with VerificationVector.Op and Share.Add; the model adds the
// committed columns.
func (w *world[E, S]) combine(t tb) *dealing[E, S] {
	t.Helper()
	out := &dealing[E, S]{label: fmt.Sprintf("combined(%d)", len(w.deals))}
	out.vv = w.deals[0].vv
	out.rg = vecCopy(w.deals[0].rg)
	if w.c.scheme == schemePedersen {
		out.rh = vecCopy(w.deals[0].rh)
	}
	for _, dl := range w.deals[1:] {
		var err error
		prev := out.vv
		vlib.NoPanic(t, "VerificationVector.Op", func() { out.vv, err = prev.Op(dl.vv) })
		if err != nil {
			t.Fatalf("VerificationVector.Op of two dealings over the same MSP failed: %v [%s %s]", err, w.e.nm, w.c)
		}
		for j := range out.rg {
			out.rg[j] = addMod(out.rg[j], dl.rg[j], w.e.q)
			if out.rh != nil {
				out.rh[j] = addMod(out.rh[j], dl.rh[j], w.e.q)
			}
		}
	}
	if n, cc := out.vv.Value().Dimensions(); n != w.d || cc != 1 {
		t.Fatalf("combined verification vector is %dx%d, want %dx1 [%s %s]", n, cc, w.d, w.e.nm, w.c)
	}
	if w.c.scheme == schemeFeldman {
		out.fshares = map[sharing.ID]*kw.Share[S]{}
	} else {
		out.pshares = map[sharing.ID]*pedersen.Share[S]{}
	}
	for h := range w.holderRows {
		id := w.id(h)
		if w.c.scheme == schemeFeldman {
			acc := w.deals[0].fshares[id]
			for _, dl := range w.deals[1:] {
				prev := acc
				vlib.NoPanic(t, "kw.Share.Add", func() { acc = prev.Add(dl.fshares[id]) })
			}
			out.fshares[id] = acc
		} else {
			acc := w.deals[0].pshares[id]
			for _, dl := range w.deals[1:] {
				prev := acc
				vlib.NoPanic(t, "pedersen.Share.Add", func() { acc = prev.Add(dl.pshares[id]) })
			}
			out.pshares[id] = acc
		}
	}
	return out
}

// ---- verification vectors as lists of points -------------------------------------------------

func (w *world[E, S]) entries(t tb, vv *vvec[E, S]) []E {
	t.Helper()
	n, cc := vv.Value().Dimensions()
	if cc != 1 {
		t.Fatalf("verification vector has %d columns", cc)
	}
	out := make([]E, n)
	for j := range out {
		p, err := vv.Value().Get(j, 0)
		if err != nil {
			t.Fatalf("verification vector Get(%d,0): %v", j, err)
		}
		out[j] = p
	}
	return out
}

// newVV builds a verification vector from points; withMSP selects the length-checking
// constructor call (MSP given) or the deserialisation-style one (nil MSP).
func (w *world[E, S]) newVV(t tb, pts []E, withMSP bool) (*vvec[E, S], error) {
	t.Helper()
	mod, err := mat.NewModuleValuedMatrixModule(uint(len(pts)), 1, algebra.StructureMustBeAs[algebra.FiniteModule[E, S]](w.e.group))
	if err != nil {
		t.Fatalf("harness: NewModuleValuedMatrixModule(%d,1): %v", len(pts), err)
	}
	col, err := mod.NewRowMajor(pts...)
	if err != nil {
		t.Fatalf("harness: NewRowMajor(%d points): %v", len(pts), err)
	}
	var m *msp.MSP[S]
	if withMSP {
		m = w.msp
	}
	var vv *vvec[E, S]
	vlib.NoPanic(t, "feldman.NewVerificationVector", func() { vv, err = feldman.NewVerificationVector(col, m) })
	return vv, err
}

func (w *world[E, S]) randPoint(seed uint64, label string) E {
	x := randBig(seed, label, w.e.q)
	if x.Sign() == 0 {
		x.SetInt64(1)
	}
	return w.e.group.ScalarBaseOp(w.fe(x))
}

// ---- candidates and verifiers ----------------------------------------------------------------

// cand is a share as presented to a verifier: an identity and value vector(s).
type cand struct {
	id    sharing.ID
	sec   []*big.Int
	blind []*big.Int // Pedersen only
}

func (c cand) String() string {
	return fmt.Sprintf("id=%d value=%s blinding=%s", c.id, vecStr(c.sec), vecStr(c.blind))
}

// honest is the candidate the committed column(s) of dl assign to holder h.
func (w *world[E, S]) honest(dl *dealing[E, S], h int) cand {
	c := cand{id: w.id(h), sec: w.lambda(dl.rg, h)}
	if w.c.scheme == schemePedersen {
		c.blind = w.lambda(dl.rh, h)
	}
	return c
}

// matches is the oracle: a candidate is to be accepted against the vector of dl iff its
// identity is a holder's and its value equals what the committed column(s) assign to that holder.
func (w *world[E, S]) matches(c cand, dl *dealing[E, S]) bool {
	h := w.holderOf(c.id)
	if h < 0 {
		return false
	}
	if !vecEq(c.sec, w.lambda(dl.rg, h)) {
		return false
	}
	if w.c.scheme == schemePedersen && !vecEq(c.blind, w.lambda(dl.rh, h)) {
		return false
	}
	return true
}

// present builds the library share of a candidate and runs every verifier on it against vv.
// want says whether acceptance is expected. Returns "unbuildable" when the library's share
// constructors already refuse the candidate (a rejection), else "".
func (w *world[E, S]) present(t tb, what string, c cand, vv *vvec[E, S], want bool) string {
	t.Helper()
	fail := func(verifier string, err error) {
		t.Helper()
		verdict := "ACCEPTED (nil error)"
		if err != nil {
			verdict = "REJECTED: " + err.Error()
		}
		t.Fatalf("%s: %s %s; expected accept=%v\n candidate %s\n group=%s %s", what, verifier, verdict, want, c, w.e.nm, w.c)
	}
	if w.c.scheme == schemeFeldman {
		var sh *kw.Share[S]
		var err error
		if len(c.sec) > 0 {
			sh, err = kw.NewShare(c.id, w.fes(c.sec)...)
		} else {
			sh, err = kw.NewShare[S](c.id)
		}
		if err != nil {
			if want {
				fail("kw.NewShare", err)
			}
			return "unbuildable"
		}
		w.verifyFeldman(t, sh, vv, want, true, fail)
		return ""
	}
	var ks, kb *kw.Share[S]
	var err error
	if len(c.sec) > 0 {
		ks, err = kw.NewShare(c.id, w.fes(c.sec)...)
	} else {
		ks, err = kw.NewShare[S](c.id)
	}
	if err == nil {
		if len(c.blind) > 0 {
			kb, err = kw.NewShare(c.id, w.fes(c.blind)...)
		} else {
			kb, err = kw.NewShare[S](c.id)
		}
	}
	var ps *pedersen.Share[S]
	if err == nil {
		ps, err = pedersen.NewShare(c.id, ks, kb)
	}
	if err != nil {
		if want {
			fail("pedersen.NewShare", err)
		}
		return "unbuildable"
	}
	w.verifyPedersen(t, ps, vv, want, fail)
	return ""
}

func (w *world[E, S]) verifyFeldman(t tb, sh *kw.Share[S], vv *vvec[E, S], want, shardToo bool, fail func(string, error)) {
	t.Helper()
	var err error
	vlib.NoPanic(t, "feldman.Scheme.Verify", func() { err = w.fs.Verify(sh, vv) })
	if (err == nil) != want {
		fail("feldman.Scheme.Verify", err)
	}
	if !shardToo {
		return
	}
	var shard *mpc.BaseShard[E, S]
	vlib.NoPanic(t, "mpc.NewBaseShard", func() { shard, err = mpc.NewBaseShard(sh, vv, w.msp) })
	if (err == nil) != want {
		fail("mpc.NewBaseShard", err)
	}
	if err == nil && (shard == nil || !shard.Share().Equal(sh) || !shard.VerificationVector().Equal(vv)) {
		t.Fatalf("mpc.NewBaseShard accepted the share but the shard does not carry it [%s %s]", w.e.nm, w.c)
	}
}

func (w *world[E, S]) verifyPedersen(t tb, ps *pedersen.Share[S], vv *vvec[E, S], want bool, fail func(string, error)) {
	t.Helper()
	var err error
	vlib.NoPanic(t, "pedersen.Scheme.Verify", func() { err = w.ps.Verify(ps, vv) })
	if (err == nil) != want {
		fail("pedersen.Scheme.Verify", err)
	}
}

// presentLib runs the verifiers on the library's own share object of holder h in dl.
func (w *world[E, S]) presentLib(t tb, what string, dl *dealing[E, S], h int, vv *vvec[E, S], want bool) {
	t.Helper()
	w.presentLibWith(t, what, dl, h, vv, want, true)
}

// presentLibWith: shard=false runs only the scheme's Verify (not mpc.NewBaseShard, which
// recomputes every holder's public share).
func (w *world[E, S]) presentLibWith(t tb, what string, dl *dealing[E, S], h int, vv *vvec[E, S], want, shard bool) {
	t.Helper()
	fail := func(verifier string, err error) {
		t.Helper()
		verdict := "ACCEPTED (nil error)"
		if err != nil {
			verdict = "REJECTED: " + err.Error()
		}
		t.Fatalf("%s: %s %s; expected accept=%v\n holder %d (ID %d, rows %v) share of %s\n group=%s %s", what, verifier, verdict, want, h, w.c.ids[h], w.holderRows[h], dl.label, w.e.nm, w.c)
	}
	if w.c.scheme == schemeFeldman {
		w.verifyFeldman(t, dl.fshares[w.id(h)], vv, want, shard, fail)
	} else {
		w.verifyPedersen(t, dl.pshares[w.id(h)], vv, want, fail)
	}
}

// baseline: every holder's unaltered share is accepted against the vector of dl and - when
// dealings were combined - the Add-combined shares against the Op-combined vector; the
// combined share is what the summed columns assign. all=true does it for every dealing of the
// case (the rapid tests draw dl among the dealings, so every dealing is covered across cases).
func (w *world[E, S]) baseline(t tb, dl *dealing[E, S], all bool) {
	t.Helper()
	var tgs []*dealing[E, S]
	if all {
		tgs = w.targets()
	} else {
		tgs = []*dealing[E, S]{dl}
		if w.comb != nil && dl != w.comb {
			tgs = append(tgs, w.comb)
		}
	}
	for _, d := range tgs {
		for h := range w.holderRows {
			w.presentLibWith(t, "unaltered share against its own vector ("+d.label+")", d, h, d.vv, true, false)
		}
	}
	if w.comb != nil {
		w.checkCommitted(t, w.comb)
	}
}

// reconstructAndVerify calls the scheme's ReconstructAndVerify with the library shares of the
// holders in set (a mask), optionally replacing holder alt's share by the candidate c.
func (w *world[E, S]) reconstructAndVerify(t tb, dl *dealing[E, S], vv *vvec[E, S], set uint64, alt int, c *cand) (*big.Int, error, bool) {
	t.Helper()
	var sec *kw.Secret[S]
	var err error
	if w.c.scheme == schemeFeldman {
		var shares []*kw.Share[S]
		for _, h := range policy.Members(set) {
			sh := dl.fshares[w.id(h)]
			if c != nil && h == alt {
				if len(c.sec) == 0 {
					return nil, nil, false
				}
				sh, err = kw.NewShare(c.id, w.fes(c.sec)...)
				if err != nil {
					return nil, nil, false
				}
			}
			shares = append(shares, sh)
		}
		vlib.NoPanic(t, "feldman.ReconstructAndVerify", func() { sec, err = w.fs.ReconstructAndVerify(vv, shares...) })
	} else {
		var shares []*pedersen.Share[S]
		for _, h := range policy.Members(set) {
			sh := dl.pshares[w.id(h)]
			if c != nil && h == alt {
				if len(c.sec) == 0 || len(c.blind) == 0 {
					return nil, nil, false
				}
				ks, e1 := kw.NewShare(c.id, w.fes(c.sec)...)
				kb, e2 := kw.NewShare(c.id, w.fes(c.blind)...)
				if e1 != nil || e2 != nil {
					return nil, nil, false
				}
				sh, err = pedersen.NewShare(c.id, ks, kb)
				if err != nil {
					return nil, nil, false
				}
			}
			shares = append(shares, sh)
		}
		vlib.NoPanic(t, "pedersen.ReconstructAndVerify", func() { sec, err = w.ps.ReconstructAndVerify(vv, shares...) })
	}
	if err != nil {
		return nil, err, true
	}
	if sec == nil {
		t.Fatalf("ReconstructAndVerify returned neither a secret nor an error [%s %s]", w.e.nm, w.c)
	}
	return lx.Big(sec.Value()), nil, true
}
