package c05

import (
	"fmt"
	"math/big"
	"testing"

	"verif/harness/vlib"
	"verif/harness/vlib/policy"
)

// Small scope, enumerated completely: every policy of the enumerators below x {Feldman, Pedersen}
// x k in {1, 2} on k256, and inside each (for k = 2 against the combined vector): EVERY holder x EVERY coordinate of its share
// (secret and blinding) changed, every length change by one, every other holder's identity,
// EVERY entry of the verification vector replaced (random point and identity) judged for every
// holder in both directions, and the vector shortened / extended by the identity.

func smallPolicies() []*policy.Policy {
	var out []*policy.Policy
	out = append(out, policy.AllThresholds(4)...)
	out = append(out, policy.AllCNF(2)...)
	out = append(out, policy.AllCNF(3)...)
	out = append(out, policy.AllHier(2)...)
	out = append(out, policy.AllHier(3)...)
	out = append(out, policy.AllGates(2, 4)...)
	out = append(out, policy.AllGates(3, 4)...)
	var keep []*policy.Policy
	for _, p := range out {
		if everyHolderHasRows(p) { // drops CNF policies with a holder in every maximal unqualified set (no MSP row, no share)
			keep = append(keep, p)
		}
	}
	return keep
}

func TestSmallScopeExhaustive(t *testing.T) {
	const test = "SmallScopeExhaustive"
	pols := smallPolicies()
	s := suiteByName("k256")
	item := 0
	total := 0
	for pi, p := range pols {
		for _, scheme := range []string{schemeFeldman, schemePedersen} {
			for k := 1; k <= 2; k++ {
				item++
				if !vlib.Mine(int(uint32(item) * 2654435761 >> 12)) { // scatter: consecutive items differ only in (scheme, k)
					continue
				}
				c := &cfg{scheme: scheme, pol: p, ids: ordinalIDs(p.N), regime: policy.Ordinal,
					seed: vlib.Seed()*1_000_003 + uint64(pi), k: k}
				for d := 0; d < k; d++ {
					c.secrets = append(c.secrets, "rand")
				}
				checks, info := s.smallScope(t, c)
				total += checks
				record(test, s, c, info)
			}
		}
	}
	if _, n := vlib.Shard(); n == 1 || vlib.Mine(0) {
		vlib.Exhaustive(fmt.Sprintf("k256, %d policies (thresholds n<=4, all CNF n<=3, hierarchical n<=3, gate trees n<=3 with <=4 leaves) x {feldman,pedersen} x k in {1,2}: every holder x every share coordinate (+1, zero), length -1/+1, every other identity, every vector entry (random point, identity) judged for every holder, vector length -1/+1", len(pols)))
	}
	t.Logf("small scope: %d verifier verdicts checked in this shard", total)
}

func (e *env[E, S]) smallScope(t tb, c *cfg) (int, caseInfo) {
	w := newWorld(t, e, c)
	w.baseline(t, nil, true)
	checks := 0
	one := big.NewInt(1)
	ped := c.scheme == schemePedersen
	negs := 0
	// k = 1: the dealing; k = 2: the combination (its parts are dealings like the k = 1 one; the
	// baseline above has verified every holder against each of them)
	target := w.deals[0]
	if w.comb != nil {
		target = w.comb
	}
	for _, dl := range []*dealing[E, S]{target} {
		// shares
		for h := range w.holderRows {
			base := w.honest(dl, h)
			try := func(kind string, mut func(cd *cand)) {
				cd := cand{id: base.id, sec: vecCopy(base.sec)}
				if ped {
					cd.blind = vecCopy(base.blind)
				}
				mut(&cd)
				want := w.matches(cd, dl)
				if !want {
					negs++
				}
				w.present(t, fmt.Sprintf("small scope: %s of holder %d (rows %v) against %s", kind, h, w.holderRows[h], dl.label), cd, dl.vv, want)
				checks++
			}
			for i := range base.sec {
				try(fmt.Sprintf("coordinate %d +1", i), func(cd *cand) { cd.sec[i] = addMod(cd.sec[i], one, e.q) })
				try(fmt.Sprintf("coordinate %d zero", i), func(cd *cand) { cd.sec[i] = new(big.Int) })
				if ped {
					try(fmt.Sprintf("blinding %d +1", i), func(cd *cand) { cd.blind[i] = addMod(cd.blind[i], one, e.q) })
					try(fmt.Sprintf("blinding %d zero", i), func(cd *cand) { cd.blind[i] = new(big.Int) })
				}
			}
			try("length -1", func(cd *cand) {
				cd.sec = cd.sec[:len(cd.sec)-1]
				if ped {
					cd.blind = cd.blind[:len(cd.blind)-1]
				}
			})
			try("length +1 (zero)", func(cd *cand) {
				cd.sec = append(cd.sec, new(big.Int))
				if ped {
					cd.blind = append(cd.blind, new(big.Int))
				}
			})
			for o := range w.holderRows {
				if o != h {
					try(fmt.Sprintf("identity of holder %d", o), func(cd *cand) { cd.id = w.id(o) })
				}
			}
			try("rebuilt unchanged", func(cd *cand) {})
		}
		// vector entries
		pts := w.entries(t, dl.vv)
		for j := 0; j < w.d; j++ {
			for _, kind := range []string{"random", "identity"} {
				np := e.group.OpIdentity()
				if kind == "random" {
					np = w.randPoint(c.seed, fmt.Sprintf("small-entry-%s-%d", dl.label, j))
				}
				changed := !np.Equal(pts[j])
				alt := append([]E(nil), pts...)
				alt[j] = np
				vv2, err := w.newVV(t, alt, true)
				if err != nil {
					t.Fatalf("NewVerificationVector refused a vector of the right length: %v [%s %s]", err, e.nm, c)
				}
				for h := range w.holderRows {
					affected := changed && w.depends(h, j)
					if affected {
						negs++
					}
					w.presentLibWith(t, fmt.Sprintf("small scope: vector entry %d replaced by %s (changed=%v), holder %d coefficients %v", j, kind, changed, h, w.coeffs(h, j)), dl, h, vv2, !affected, kind == "random" && h == j%len(w.holderRows))
					checks++
				}
			}
		}
		// vector length
		for _, kind := range []string{"trunc-last", "ext-identity"} {
			w.wrongLength(t, dl, kind, w.resize(kind, pts, c.seed), false)
			checks += len(w.holderRows)
			negs++
		}
	}
	return checks, caseInfo{kind: "exhaustive", multi: !c.pol.Ideal(), neg: negs > 0}
}
