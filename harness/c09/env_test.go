package c09

// Shared machinery of the C09 harness: the "transport" (every protocol message goes through
// serde.MarshalCBOR -> bytes -> serde.UnmarshalCBOR, optionally with ONE field of the decoded
// message altered and re-encoded), type-erased runners for the five protocols, generators for
// choice vectors and multiplication inputs, and the correlation oracle.

import (
	"bytes"
	"crypto/sha256"
	"crypto/sha3"
	"crypto/sha512"
	"fmt"
	"hash"
	"io"
	"math/big"
	"sync"

	"pgregory.net/rapid"

	"github.com/bronlabs/bron-crypto/pkg/base"
	"github.com/bronlabs/bron-crypto/pkg/base/algebra"
	"github.com/bronlabs/bron-crypto/pkg/base/curves"
	"github.com/bronlabs/bron-crypto/pkg/base/curves/edwards25519"
	"github.com/bronlabs/bron-crypto/pkg/base/curves/k256"
	"github.com/bronlabs/bron-crypto/pkg/base/curves/p256"
	"github.com/bronlabs/bron-crypto/pkg/base/curves/pairable/bls12381"
	"github.com/bronlabs/bron-crypto/pkg/base/curves/pasta"
	"github.com/bronlabs/bron-crypto/pkg/base/serde"
	rvole_bbot "github.com/bronlabs/bron-crypto/pkg/mpc/rvole/bbot"
	rvole_softspoken "github.com/bronlabs/bron-crypto/pkg/mpc/rvole/softspoken"
	"github.com/bronlabs/bron-crypto/pkg/mpc/session"
	"github.com/bronlabs/bron-crypto/pkg/ot"
	"github.com/bronlabs/bron-crypto/pkg/ot/base/ecbbot"
	"github.com/bronlabs/bron-crypto/pkg/ot/base/vsot"
	"github.com/bronlabs/bron-crypto/pkg/ot/extension/softspoken"
	"github.com/bronlabs/errs-go/errs"
	"verif/harness/vlib"
	"verif/harness/vlib/lx"
	"verif/harness/vlib/proto"
)

// TB is the part of *testing.T / *rapid.T the helpers use.
type TB interface {
	Fatalf(format string, args ...any)
	Helper()
}

const (
	id1 proto.ID = 1
	id2 proto.ID = 2
)

func ctxPair(t TB, seed uint64, label string) (*session.Context, *session.Context) {
	t.Helper()
	m, err := proto.Contexts([]proto.ID{id1, id2}, seed, "c09/"+label)
	if err != nil {
		t.Fatalf("harness: building session contexts: %v", err)
	}
	return m[id1], m[id2]
}

// ---- transport ------------------------------------------------------------------------------

// deliver encodes m, optionally alters ONE field of the decoded message (alter != nil), re-encodes
// and returns what the recipient decodes. An alteration that leaves the canonical encoding
// unchanged is a harness bug (every alteration is constructed to be semantic).
func deliver[T any](t TB, what string, m T, alter func(T)) T {
	t.Helper()
	b, err := serde.MarshalCBOR(m)
	if err != nil {
		t.Fatalf("%s: MarshalCBOR of an honestly produced message failed: %v", what, err)
	}
	if alter != nil {
		m1, err := serde.UnmarshalCBOR[T](b)
		if err != nil {
			t.Fatalf("%s: UnmarshalCBOR of an honestly produced message failed: %v", what, err)
		}
		alter(m1)
		b2, err := serde.MarshalCBOR(m1)
		if err != nil {
			t.Fatalf("harness: %s: re-encoding the altered message failed: %v", what, err)
		}
		if bytes.Equal(b, b2) {
			t.Fatalf("harness: %s: the alteration did not change the encoded message", what)
		}
		b = b2
	}
	out, err := serde.UnmarshalCBOR[T](b)
	if err != nil {
		if alter != nil {
			t.Fatalf("harness: %s: the altered message does not decode: %v", what, err)
		}
		t.Fatalf("%s: UnmarshalCBOR of an honestly produced message failed: %v", what, err)
	}
	return out
}

// ---- bits -----------------------------------------------------------------------------------

// bitOf reads choice bit i of a packed vector: bit (i mod 8) of byte i/8, least significant first
// ("little-endian packed bits", ot.PackedBits).
func bitOf(v []byte, i int) byte { return (v[i/8] >> (uint(i) % 8)) & 1 }

func flipBit(b []byte, pos, bit int) {
	b[mod(pos, len(b))] ^= 1 << (uint(bit) % 8)
}

func mod(a, n int) int {
	a %= n
	if a < 0 {
		a += n
	}
	return a
}

// genChoices draws a packed choice vector of nbits bits and names its class.
func genChoices(t *rapid.T, name string, nbits int) ([]byte, string) {
	n := nbits / 8
	class := rapid.SampledFrom([]string{"all0", "all1", "alt01", "alt10", "one1", "one0", "drawn", "drawn", "drawn", "drawn"}).Draw(t, name+"Class")
	v := make([]byte, n)
	switch class {
	case "all0":
	case "all1":
		for i := range v {
			v[i] = 0xff
		}
	case "alt01": // bit 0 = 0, bit 1 = 1, ...
		for i := range v {
			v[i] = 0xaa
		}
	case "alt10":
		for i := range v {
			v[i] = 0x55
		}
	case "one1":
		k := rapid.IntRange(0, nbits-1).Draw(t, name+"At")
		v[k/8] |= 1 << (uint(k) % 8)
	case "one0":
		for i := range v {
			v[i] = 0xff
		}
		k := rapid.IntRange(0, nbits-1).Draw(t, name+"At")
		v[k/8] &^= 1 << (uint(k) % 8)
	default:
		v = rapid.SliceOfN(rapid.Byte(), n, n).Draw(t, name+"Bytes")
		all0, all1 := true, true
		for _, b := range v {
			all0 = all0 && b == 0
			all1 = all1 && b == 0xff
		}
		if all0 {
			class = "all0"
		} else if all1 {
			class = "all1"
		}
	}
	return v, class
}

func allEqual(class string) bool { return class == "all0" || class == "all1" }

// ---- hashes ---------------------------------------------------------------------------------

type hashAlg struct {
	name string
	mk   func() hash.Hash
	size int
}

var hashAlgs = []hashAlg{
	{"sha256", sha256.New, 32},
	{"sha512", sha512.New, 64},
	{"sha3-256", func() hash.Hash { return sha3.New256() }, 32},
}

func genHash(t *rapid.T) hashAlg {
	return hashAlgs[rapid.SampledFrom([]int{0, 0, 0, 1, 2}).Draw(t, "hash")]
}

// ---- type-erased outputs --------------------------------------------------------------------

// otOut is what the oracle reads from one completed OT: the messages as byte strings.
type otOut struct {
	SXi, SL, RXi, RL int // Inferred* of the two output structures
	S                [][2][][]byte
	RC               []byte
	R                [][][]byte
}

type otFault struct {
	field string // protocol specific, see the runners
	idx   int    // instance / row index (taken modulo the length)
	pos   int    // byte position (modulo the length)
	bit   int
	kind  string // how a group element is replaced
}

func (f *otFault) String() string {
	if f == nil {
		return "none"
	}
	return fmt.Sprintf("%s[%d] byte %d bit %d %s", f.field, f.idx, f.pos, f.bit, f.kind)
}

type otParams struct {
	xi, l   int
	choices []byte
	seed    uint64
	hash    hashAlg
	fault   *otFault
	// extension only: the base-OT outputs (roles are reversed: the extension's receiver holds
	// the base sender's pairs)
	seedsS *vsot.SenderOutput
	seedsR *vsot.ReceiverOutput
}

type otRun struct {
	out       *otOut
	bitsS     *vsot.SenderOutput   // byte-string form of the outputs (usable as extension seeds)
	bitsR     *vsot.ReceiverOutput //
	failRound int                  // 0: completed
	err       error
}

func errClass(err error) string {
	switch {
	case err == nil:
		return "err=nil"
	case errs.Is(err, base.ErrAbort):
		return "err=ABORT"
	default:
		return "err=other"
	}
}

// checkOT is the correlation oracle for one completed OT.
func checkOT(t TB, what string, xi, l int, choices []byte, msgLen int, o *otOut) {
	t.Helper()
	if o.SXi != xi || o.RXi != xi || o.SL != l || o.RL != l {
		t.Fatalf("%s: output sizes: sender InferredXi/L = %d/%d, receiver = %d/%d, configured %d/%d", what, o.SXi, o.SL, o.RXi, o.RL, xi, l)
	}
	if len(o.S) != xi || len(o.R) != xi || len(o.RC)*8 != xi {
		t.Fatalf("%s: output lengths: %d sender pairs, %d receiver rows, %d choice bytes for xi=%d", what, len(o.S), len(o.R), len(o.RC), xi)
	}
	if !bytes.Equal(o.RC, choices) {
		t.Fatalf("%s: receiver output choices %x differ from its input %x", what, o.RC, choices)
	}
	for j := 0; j < xi; j++ {
		c := bitOf(choices, j)
		if len(o.S[j][0]) != l || len(o.S[j][1]) != l || len(o.R[j]) != l {
			t.Fatalf("%s: instance %d has %d/%d sender blocks and %d receiver blocks, L=%d", what, j, len(o.S[j][0]), len(o.S[j][1]), len(o.R[j]), l)
		}
		for b := 0; b < l; b++ {
			m0, m1, r := o.S[j][0][b], o.S[j][1][b], o.R[j][b]
			if msgLen > 0 && (len(m0) != msgLen || len(m1) != msgLen || len(r) != msgLen) {
				t.Fatalf("%s: instance %d block %d: message lengths %d/%d/%d, expected %d", what, j, b, len(m0), len(m1), len(r), msgLen)
			}
			if len(r) == 0 {
				t.Fatalf("%s: instance %d block %d: empty receiver message", what, j, b)
			}
			if !bytes.Equal(r, o.S[j][c][b]) {
				t.Fatalf("%s: instance %d block %d choice %d: receiver has %x, sender's selected message is %x (other %x)", what, j, b, c, r, o.S[j][c][b], o.S[j][1-c][b])
			}
			if bytes.Equal(m0, m1) {
				t.Fatalf("%s: instance %d block %d: the two sender messages are equal (%x)", what, j, b, m0)
			}
		}
	}
}

// ---- scalar field orders (typed in from SEC 2, FIPS 186-4, RFC 8032, the Pasta and BLS12-381 specifications)

func hexBig(s string) *big.Int {
	v, ok := new(big.Int).SetString(s, 16)
	if !ok {
		panic("bad hex " + s)
	}
	return v
}

var orders = map[string]*big.Int{
	"k256":       hexBig("fffffffffffffffffffffffffffffffebaaedce6af48a03bbfd25e8cd0364141"),
	"p256":       hexBig("ffffffff00000000ffffffffffffffffbce6faada7179e84f3b9cac2fc632551"),
	"ed25519":    hexBig("1000000000000000000000000000000014def9dea2f79cd65812631a5cf5d3ed"),
	"pallas":     hexBig("40000000000000000000000000000000224698fc0994a8dd8c46eb2100000001"),
	"bls12381g1": hexBig("73eda753299d7d483339d80809a1d80553bda402fffe5bfeffffffff00000001"),
}

// ---- multiplication ------------------------------------------------------------------------

type rvFault struct {
	field string // ATilde, Eta, Mu, OtX, OtT, OtU
	j, i  int    // ATilde[j][i]; Eta[i]; OtT[j] / OtU[j]
	pos   int    // byte position for Mu / OtX / OtT / OtU
	bit   int
	kind  string // scalar alteration: plus1, neg, zero, copy
}

func (f *rvFault) String() string {
	if f == nil {
		return "none"
	}
	return fmt.Sprintf("%s j=%d i=%d byte %d bit %d %s", f.field, f.j, f.i, f.pos, f.bit, f.kind)
}

type rvParams struct {
	l      int
	a      []*big.Int
	beta   []byte // Bob's choice vector, served to the library as the first read of Bob's random source
	seed   uint64
	hash   hashAlg
	seedsS *vsot.SenderOutput   // softspoken variant: Bob's
	seedsR *vsot.ReceiverOutput // softspoken variant: Alice's
	fault  *rvFault
}

type rvRun struct {
	b         *big.Int
	c, d      []*big.Int
	xi, rho   int // dimensions of Alice's last message
	failRound int
	err       error
}

// scripted serves a fixed byte string to the FIRST read and a PRNG stream afterwards. Both Bob
// implementations sample their choice vector beta with the first read of their random source
// (io.ReadFull of xi/8 bytes); this is how the harness puts beta under the generator's control.
type scripted struct {
	mu     sync.Mutex
	script []byte
	used   bool
	exact  bool
	rest   io.Reader
}

func (s *scripted) Read(p []byte) (int, error) {
	s.mu.Lock()
	if !s.used {
		s.used = true
		s.exact = len(p) == len(s.script)
		if s.exact {
			copy(p, s.script)
			s.mu.Unlock()
			return len(p), nil
		}
	}
	s.mu.Unlock()
	return s.rest.Read(p)
}

func (s *scripted) check(t TB) {
	t.Helper()
	s.mu.Lock()
	defer s.mu.Unlock()
	if !s.used || !s.exact {
		t.Fatalf("harness assumption broken: Bob's first read of its random source is not the %d-byte choice vector (used=%v)", len(s.script), s.used)
	}
}

// alterScalar returns a field element different from v.
func alterScalar[S algebra.PrimeFieldElement[S]](f algebra.PrimeField[S], v S, kind string, other S) S {
	switch kind {
	case "neg":
		if !v.IsZero() {
			return v.Neg()
		}
	case "zero":
		if !v.IsZero() {
			return f.Zero()
		}
	case "copy":
		if !other.Equal(v) {
			return other
		}
	}
	return v.Add(f.One())
}

// alterCheckValues applies a fault to the (ATilde, Eta, Mu) triple of Alice's last message.
func alterCheckValues[S algebra.PrimeFieldElement[S]](f algebra.PrimeField[S], flt *rvFault, aTilde [][]S, eta []S, mu []byte) {
	switch flt.field {
	case "ATilde":
		j, i := mod(flt.j, len(aTilde)), mod(flt.i, len(aTilde[0]))
		other := aTilde[(j+1)%len(aTilde)][i]
		aTilde[j][i] = alterScalar(f, aTilde[j][i], flt.kind, other)
	case "Eta":
		k := mod(flt.i, len(eta))
		eta[k] = alterScalar(f, eta[k], flt.kind, eta[(k+1)%len(eta)])
	case "Mu":
		flipBit(mu, flt.pos, flt.bit)
	default:
		panic("unknown fault field " + flt.field)
	}
}

func alterExtension(flt *rvFault, m *softspoken.Round1P2P) {
	switch flt.field {
	case "OtX":
		flipBit(m.ChallengeResponse.X[:], flt.pos, flt.bit)
	case "OtT":
		flipBit(m.ChallengeResponse.T[mod(flt.j, softspoken.Kappa)][:], flt.pos, flt.bit)
	case "OtU":
		flipBit(m.U[mod(flt.j, softspoken.Kappa)], flt.pos, flt.bit)
	default:
		panic("unknown fault field " + flt.field)
	}
}

func bigs[S algebra.PrimeFieldElement[S]](v []S) []*big.Int {
	out := make([]*big.Int, len(v))
	for i, e := range v {
		out[i] = lx.Big(e)
	}
	return out
}

// checkProduct is the multiplication oracle: c[i] + d[i] == a[i]*b (mod q) on math/big.
func checkProduct(t TB, what string, q *big.Int, a []*big.Int, r *rvRun) {
	t.Helper()
	if len(r.c) != len(a) || len(r.d) != len(a) {
		t.Fatalf("%s: %d inputs, %d / %d outputs", what, len(a), len(r.c), len(r.d))
	}
	if r.b.Cmp(q) >= 0 {
		t.Fatalf("%s: b = %x is not reduced", what, r.b)
	}
	for i := range a {
		sum := new(big.Int).Add(r.c[i], r.d[i])
		sum.Mod(sum, q)
		prod := new(big.Int).Mul(a[i], r.b)
		prod.Mod(prod, q)
		if sum.Cmp(prod) != 0 {
			t.Fatalf("%s: component %d: c+d = %x but a*b = %x (a=%x b=%x c=%x d=%x)", what, i, sum, prod, a[i], r.b, r.c[i], r.d[i])
		}
	}
}

// genInputs draws Alice's input vector; every entry from {0, 1, q-1, 2, drawn}.
func genInputs(t *rapid.T, q *big.Int, l int) ([]*big.Int, string) {
	a := make([]*big.Int, l)
	class := ""
	for i := range a {
		k := rapid.SampledFrom([]string{"0", "1", "q-1", "2", "drawn", "drawn", "drawn"}).Draw(t, fmt.Sprintf("a%dClass", i))
		switch k {
		case "0":
			a[i] = big.NewInt(0)
		case "1":
			a[i] = big.NewInt(1)
		case "2":
			a[i] = big.NewInt(2)
		case "q-1":
			a[i] = new(big.Int).Sub(q, big.NewInt(1))
		default:
			raw := rapid.SliceOfN(rapid.Byte(), 40, 40).Draw(t, fmt.Sprintf("a%d", i))
			a[i] = new(big.Int).Mod(new(big.Int).SetBytes(raw), q)
		}
		if i > 0 {
			class += ","
		}
		class += k
	}
	return a, class
}

// ---- generic runners ------------------------------------------------------------------------

type groupOps struct {
	name      string
	order     *big.Int
	elemBits  int
	libOrder  *big.Int
	ecbbot    func(t TB, p otParams) *otRun
	rvoleBbot func(t TB, p rvParams) *rvRun
}

type curveOps struct {
	name     string
	order    *big.Int
	elemBits int
	vsot     func(t TB, p otParams) *otRun
	rvoleSS  func(t TB, p rvParams) *rvRun
}

func mkGroup[G algebra.PrimeGroupElement[G, S], S algebra.PrimeFieldElement[S]](name string, g algebra.PrimeGroup[G, S]) *groupOps {
	f := algebra.StructureMustBeAs[algebra.PrimeField[S]](g.ScalarStructure())
	return &groupOps{
		name: name, order: orders[name], elemBits: f.ElementSize() * 8, libOrder: lx.Order(f),
		ecbbot:    func(t TB, p otParams) *otRun { return runECBBOT(t, g, p) },
		rvoleBbot: func(t TB, p rvParams) *rvRun { return runRvoleBbot(t, g, f, p) },
	}
}

func mkCurve[P curves.Point[P, B, S], B algebra.FieldElement[B], S algebra.PrimeFieldElement[S]](name string, c curves.Curve[P, B, S]) *curveOps {
	f := c.ScalarField()
	return &curveOps{
		name: name, order: orders[name], elemBits: f.ElementSize() * 8,
		vsot:    func(t TB, p otParams) *otRun { return runVSOT(t, c, p) },
		rvoleSS: func(t TB, p rvParams) *rvRun { return runRvoleSS(t, c, f, p) },
	}
}

var groups = []*groupOps{
	mkGroup("k256", k256.NewCurve()),
	mkGroup("p256", p256.NewCurve()),
	mkGroup("ed25519", edwards25519.NewPrimeSubGroup()),
	mkGroup("pallas", pasta.NewPallasCurve()),
	mkGroup("bls12381g1", bls12381.NewG1()),
}

var curveList = []*curveOps{
	mkCurve("k256", k256.NewCurve()),
	mkCurve("p256", p256.NewCurve()),
	mkCurve("pallas", pasta.NewPallasCurve()),
}

func groupByName(name string) *groupOps {
	for _, g := range groups {
		if g.name == name {
			return g
		}
	}
	panic("unknown group " + name)
}

func curveByName(name string) *curveOps {
	for _, c := range curveList {
		if c.name == name {
			return c
		}
	}
	panic("unknown curve " + name)
}

// runECBBOT drives the three rounds of the batched base OT. There is no fault mode: the protocol
// has no consistency check of its own.
func runECBBOT[G algebra.PrimeGroupElement[G, S], S algebra.PrimeFieldElement[S]](t TB, g algebra.PrimeGroup[G, S], p otParams) *otRun {
	t.Helper()
	suite, err := ecbbot.NewSuite(p.xi, p.l, g)
	if err != nil {
		t.Fatalf("ecbbot.NewSuite(%d,%d): %v", p.xi, p.l, err)
	}
	cS, cR := ctxPair(t, p.seed, "ecbbot")
	snd, err := ecbbot.NewSender(cS, suite, vlib.NewPRNG(p.seed, "c09/ecbbot/sender"))
	if err != nil {
		t.Fatalf("ecbbot.NewSender: %v", err)
	}
	rcv, err := ecbbot.NewReceiver(cR, suite, vlib.NewPRNG(p.seed, "c09/ecbbot/receiver"))
	if err != nil {
		t.Fatalf("ecbbot.NewReceiver: %v", err)
	}
	r1, err := snd.Round1()
	if err != nil {
		t.Fatalf("ecbbot sender round 1: %v", err)
	}
	choices := append([]byte(nil), p.choices...)
	r2, rOut, err := rcv.Round2(deliver(t, "ecbbot r1", r1, nil), choices)
	if err != nil {
		t.Fatalf("ecbbot receiver round 2: %v", err)
	}
	sOut, err := snd.Round3(deliver(t, "ecbbot r2", r2, nil))
	if err != nil {
		t.Fatalf("ecbbot sender round 3: %v", err)
	}
	o := &otOut{SXi: sOut.InferredXi(), SL: sOut.InferredL(), RXi: rOut.InferredXi(), RL: rOut.InferredL(), RC: rOut.Choices}
	for _, pair := range sOut.Messages {
		var e [2][][]byte
		for c := 0; c < 2; c++ {
			for _, m := range pair[c] {
				e[c] = append(e[c], m.Bytes())
			}
		}
		o.S = append(o.S, e)
	}
	for _, row := range rOut.Messages {
		var e [][]byte
		for _, m := range row {
			e = append(e, m.Bytes())
		}
		o.R = append(o.R, e)
	}
	run := &otRun{out: o}
	// the byte-string form used by callers to seed the extension
	key := make([]byte, 32)
	_, _ = io.ReadFull(vlib.NewPRNG(p.seed, "c09/ecbbot/otkey"), key)
	if run.bitsS, err = sOut.ToBitsOutput(32, key); err != nil {
		t.Fatalf("SenderOutput.ToBitsOutput: %v", err)
	}
	if run.bitsR, err = rOut.ToBitsOutput(32, key); err != nil {
		t.Fatalf("ReceiverOutput.ToBitsOutput: %v", err)
	}
	return run
}

func eraseBytesOT(sMsgs [][2][][]byte, rc []byte, rMsgs [][][]byte, sxi, sl, rxi, rl int) *otOut {
	return &otOut{SXi: sxi, SL: sl, RXi: rxi, RL: rl, S: sMsgs, RC: rc, R: rMsgs}
}

// runVSOT drives the six rounds of VSOT. Fault fields: BigB, Proof (round 1 message), Xi (round 3),
// RhoPrime (round 4), Rho0Digest, Rho1Digest (round 5).
func runVSOT[P curves.Point[P, B, S], B algebra.FieldElement[B], S algebra.PrimeFieldElement[S]](t TB, c curves.Curve[P, B, S], p otParams) *otRun {
	t.Helper()
	suite, err := vsot.NewSuite(p.xi, p.l, c, p.hash.mk)
	if err != nil {
		t.Fatalf("vsot.NewSuite(%d,%d): %v", p.xi, p.l, err)
	}
	cS, cR := ctxPair(t, p.seed, "vsot")
	snd, err := vsot.NewSender(cS, suite, vlib.NewPRNG(p.seed, "c09/vsot/sender"))
	if err != nil {
		t.Fatalf("vsot.NewSender: %v", err)
	}
	rcv, err := vsot.NewReceiver(cR, suite, vlib.NewPRNG(p.seed, "c09/vsot/receiver"))
	if err != nil {
		t.Fatalf("vsot.NewReceiver: %v", err)
	}
	f := p.fault
	run := &otRun{}
	applied := false
	// stop reports an error of a round: before the alteration it is a failure of an honest
	// prefix, after it it is the detection.
	stop := func(round int, err error) *otRun {
		if !applied {
			t.Fatalf("vsot round %d failed on honest messages: %v", round, err)
		}
		run.failRound, run.err = round, err
		return run
	}
	is := func(fields ...string) bool {
		if f == nil {
			return false
		}
		for _, x := range fields {
			if f.field == x {
				applied = true
				return true
			}
		}
		return false
	}

	r1, err := snd.Round1()
	if err != nil {
		return stop(1, err)
	}
	var alter1 func(*vsot.Round1P2P[P, B, S])
	if is("BigB", "Proof") {
		alter1 = func(m *vsot.Round1P2P[P, B, S]) {
			if f.field == "Proof" {
				flipBit(m.Proof, f.pos, f.bit)
				return
			}
			switch f.kind {
			case "double":
				m.BigB = m.BigB.Add(m.BigB)
			case "neg":
				m.BigB = m.BigB.Neg()
			default:
				m.BigB = m.BigB.Add(c.Generator())
			}
		}
	}
	choices := append([]byte(nil), p.choices...)
	r2, rOut, err := rcv.Round2(deliver(t, "vsot r1", r1, alter1), choices)
	if err != nil {
		return stop(2, err)
	}
	r3, sOut, err := snd.Round3(deliver(t, "vsot r2", r2, nil))
	if err != nil {
		return stop(3, err)
	}
	var alter3 func(*vsot.Round3P2P[P, B, S])
	if is("Xi") {
		alter3 = func(m *vsot.Round3P2P[P, B, S]) { flipBit(m.Xi[mod(f.idx, len(m.Xi))], f.pos, f.bit) }
	}
	r4, err := rcv.Round4(deliver(t, "vsot r3", r3, alter3))
	if err != nil {
		return stop(4, err)
	}
	var alter4 func(*vsot.Round4P2P[P, B, S])
	if is("RhoPrime") {
		alter4 = func(m *vsot.Round4P2P[P, B, S]) { flipBit(m.RhoPrime[mod(f.idx, len(m.RhoPrime))], f.pos, f.bit) }
	}
	r5, err := snd.Round5(deliver(t, "vsot r4", r4, alter4))
	if err != nil {
		return stop(5, err)
	}
	var alter5 func(*vsot.Round5P2P[P, B, S])
	if is("Rho0Digest", "Rho1Digest") {
		alter5 = func(m *vsot.Round5P2P[P, B, S]) {
			if f.field == "Rho0Digest" {
				flipBit(m.Rho0Digest[mod(f.idx, len(m.Rho0Digest))], f.pos, f.bit)
			} else {
				flipBit(m.Rho1Digest[mod(f.idx, len(m.Rho1Digest))], f.pos, f.bit)
			}
		}
	}
	if err := rcv.Round6(deliver(t, "vsot r5", r5, alter5)); err != nil {
		return stop(6, err)
	}
	if f != nil && !applied {
		t.Fatalf("harness: unknown vsot fault field %q", f.field)
	}
	run.out = eraseBytesOT(sOut.Messages, rOut.Choices, rOut.Messages, sOut.InferredXi(), sOut.InferredL(), rOut.InferredXi(), rOut.InferredL())
	run.bitsS, run.bitsR = sOut, rOut
	return run
}

// runSoftspoken drives the two rounds of the extension. Fault fields: X, T, U.
func runSoftspoken(t TB, p otParams) *otRun {
	t.Helper()
	suite, err := softspoken.NewSuite(p.xi, p.l, p.hash.mk)
	if err != nil {
		t.Fatalf("softspoken.NewSuite(%d,%d): %v", p.xi, p.l, err)
	}
	cR, cS := ctxPair(t, p.seed, "softspoken")
	rcv, err := softspoken.NewReceiver(cR, p.seedsS, suite, vlib.NewPRNG(p.seed, "c09/softspoken/receiver"))
	if err != nil {
		t.Fatalf("softspoken.NewReceiver: %v", err)
	}
	snd, err := softspoken.NewSender(cS, p.seedsR, suite, vlib.NewPRNG(p.seed, "c09/softspoken/sender"))
	if err != nil {
		t.Fatalf("softspoken.NewSender: %v", err)
	}
	choices := append([]byte(nil), p.choices...)
	r1, rOut, err := rcv.Round1(choices)
	if err != nil {
		t.Fatalf("softspoken receiver round 1: %v", err)
	}
	var alter func(*softspoken.Round1P2P)
	if f := p.fault; f != nil {
		alter = func(m *softspoken.Round1P2P) {
			alterExtension(&rvFault{field: "Ot" + f.field, j: f.idx, pos: f.pos, bit: f.bit}, m)
		}
	}
	run := &otRun{}
	sOut, err := snd.Round2(deliver(t, "softspoken r1", r1, alter))
	if err != nil {
		if p.fault == nil {
			t.Fatalf("softspoken sender round 2 failed on an honest message: %v", err)
		}
		run.failRound, run.err = 2, err
		return run
	}
	run.out = eraseBytesOT(sOut.Messages, rOut.Choices, rOut.Messages, sOut.InferredXi(), sOut.InferredL(), rOut.InferredXi(), rOut.InferredL())
	if sOut.InferredMessageBytesLen() != p.hash.size || rOut.InferredMessageBytesLen() != p.hash.size {
		t.Fatalf("softspoken: InferredMessageBytesLen %d / %d, hash size %d", sOut.InferredMessageBytesLen(), rOut.InferredMessageBytesLen(), p.hash.size)
	}
	return run
}

// constructSeeds builds base-OT outputs that satisfy the base-OT correlation by construction:
// 128 pairs of distinct random strings and, for the holder of delta, the one its bit selects.
func constructSeeds(delta []byte, msgLen int, seed uint64) (*vsot.SenderOutput, *vsot.ReceiverOutput) {
	prng := vlib.NewPRNG(seed, "c09/constructed-seeds")
	s := &vsot.SenderOutput{SenderOutput: ot.SenderOutput[[]byte]{Messages: make([][2][][]byte, softspoken.Kappa)}}
	r := &vsot.ReceiverOutput{ReceiverOutput: ot.ReceiverOutput[[]byte]{Choices: append([]byte(nil), delta...), Messages: make([][][]byte, softspoken.Kappa)}}
	for i := 0; i < softspoken.Kappa; i++ {
		m0, m1 := make([]byte, msgLen), make([]byte, msgLen)
		_, _ = io.ReadFull(prng, m0)
		for {
			_, _ = io.ReadFull(prng, m1)
			if !bytes.Equal(m0, m1) {
				break
			}
		}
		s.Messages[i][0] = [][]byte{m0}
		s.Messages[i][1] = [][]byte{m1}
		sel := m0
		if bitOf(delta, i) == 1 {
			sel = m1
		}
		r.Messages[i] = [][]byte{append([]byte(nil), sel...)}
	}
	return s, r
}

// runRvoleBbot drives the four rounds of the base-OT multiplication.
func runRvoleBbot[G algebra.PrimeGroupElement[G, S], S algebra.PrimeFieldElement[S]](t TB, g algebra.PrimeGroup[G, S], f algebra.PrimeField[S], p rvParams) *rvRun {
	t.Helper()
	suite, err := rvole_bbot.NewSuite(p.l, g)
	if err != nil {
		t.Fatalf("rvole_bbot.NewSuite(%d): %v", p.l, err)
	}
	cA, cB := ctxPair(t, p.seed, "rvole-bbot")
	alice, err := rvole_bbot.NewAlice(cA, suite, vlib.NewPRNG(p.seed, "c09/rvole-bbot/alice"))
	if err != nil {
		t.Fatalf("rvole_bbot.NewAlice: %v", err)
	}
	src := &scripted{script: p.beta, rest: vlib.NewPRNG(p.seed, "c09/rvole-bbot/bob")}
	bob, err := rvole_bbot.NewBob(cB, suite, src)
	if err != nil {
		t.Fatalf("rvole_bbot.NewBob: %v", err)
	}
	r1, err := alice.Round1()
	if err != nil {
		t.Fatalf("rvole_bbot Alice.Round1: %v", err)
	}
	r2, b, err := bob.Round2(deliver(t, "rvole-bbot r1", r1, nil))
	if err != nil {
		t.Fatalf("rvole_bbot Bob.Round2: %v", err)
	}
	src.check(t)
	a := make([]S, len(p.a))
	for i, v := range p.a {
		a[i] = lx.FE(f, v)
	}
	r3, c, err := alice.Round3(deliver(t, "rvole-bbot r2", r2, nil), a)
	if err != nil {
		t.Fatalf("rvole_bbot Alice.Round3: %v", err)
	}
	run := &rvRun{b: lx.Big(b), c: bigs(c), xi: len(r3.ATilde), rho: len(r3.Eta)}
	var alter func(*rvole_bbot.Round3P2P[G, S])
	if p.fault != nil {
		alter = func(m *rvole_bbot.Round3P2P[G, S]) { alterCheckValues(f, p.fault, m.ATilde, m.Eta, m.Mu) }
	}
	d, err := bob.Round4(deliver(t, "rvole-bbot r3", r3, alter))
	if err != nil {
		if p.fault == nil {
			t.Fatalf("rvole_bbot Bob.Round4 failed on an honest message: %v", err)
		}
		run.failRound, run.err = 4, err
		return run
	}
	run.d = bigs(d)
	return run
}

// runRvoleSS drives the three rounds of the extension-based multiplication.
func runRvoleSS[P curves.Point[P, B, S], B algebra.FieldElement[B], S algebra.PrimeFieldElement[S]](t TB, cv curves.Curve[P, B, S], f algebra.PrimeField[S], p rvParams) *rvRun {
	t.Helper()
	suite, err := rvole_softspoken.NewSuite(p.l, cv, p.hash.mk)
	if err != nil {
		t.Fatalf("rvole_softspoken.NewSuite(%d): %v", p.l, err)
	}
	cA, cB := ctxPair(t, p.seed, "rvole-ss")
	alice, err := rvole_softspoken.NewAlice(cA, suite, p.seedsR, vlib.NewPRNG(p.seed, "c09/rvole-ss/alice"))
	if err != nil {
		t.Fatalf("rvole_softspoken.NewAlice: %v", err)
	}
	src := &scripted{script: p.beta, rest: vlib.NewPRNG(p.seed, "c09/rvole-ss/bob")}
	bob, err := rvole_softspoken.NewBob(cB, suite, p.seedsS, src)
	if err != nil {
		t.Fatalf("rvole_softspoken.NewBob: %v", err)
	}
	r1, b, err := bob.Round1()
	if err != nil {
		t.Fatalf("rvole_softspoken Bob.Round1: %v", err)
	}
	src.check(t)
	a := make([]S, len(p.a))
	for i, v := range p.a {
		a[i] = lx.FE(f, v)
	}
	run := &rvRun{b: lx.Big(b)}
	otFault := p.fault != nil && len(p.fault.field) > 2 && p.fault.field[:2] == "Ot"
	var alter1 func(*rvole_softspoken.Round1P2P[P, B, S])
	if otFault {
		alter1 = func(m *rvole_softspoken.Round1P2P[P, B, S]) { alterExtension(p.fault, m.OtR1) }
	}
	r2, c, err := alice.Round2(deliver(t, "rvole-ss r1", r1, alter1), a)
	if err != nil {
		if !otFault {
			t.Fatalf("rvole_softspoken Alice.Round2 failed on an honest message: %v", err)
		}
		run.failRound, run.err = 2, err
		return run
	}
	run.c, run.xi, run.rho = bigs(c), len(r2.ATilde), len(r2.Eta)
	var alter2 func(*rvole_softspoken.Round2P2P[P, B, S])
	if p.fault != nil && !otFault {
		alter2 = func(m *rvole_softspoken.Round2P2P[P, B, S]) { alterCheckValues(f, p.fault, m.ATilde, m.Eta, m.Mu) }
	}
	d, err := bob.Round3(deliver(t, "rvole-ss r2", r2, alter2))
	if err != nil {
		if p.fault == nil || otFault {
			t.Fatalf("rvole_softspoken Bob.Round3 failed on an honest message: %v", err)
		}
		run.failRound, run.err = 3, err
		return run
	}
	run.d = bigs(d)
	return run
}
