package c09

import (
	"bytes"
	"fmt"
	"testing"

	"pgregory.net/rapid"

	"github.com/bronlabs/bron-crypto/pkg/ot"
	"verif/harness/vlib"
)

// The bit-packing helpers of pkg/ot carry the choice bits and the extension's transpose. Their
// contracts (doc comments): PackedBits is "a byte vector of little-endian packed bits";
// TransposePackedBits: "if we were to unpack the bits, input[i][j] == output[j][i]"; Repeat:
// "v = [0,1,0,1], n = 2 -> [0,0,1,1,0,0,1,1]". The reference works on unpacked []uint8.

func refUnpack(b []byte) []uint8 {
	out := make([]uint8, len(b)*8)
	for i := range out {
		out[i] = bitOf(b, i)
	}
	return out
}

// TestBitsTranspose: drawn r x c bit matrices (r a multiple of 8; shapes that take the 64x64 block
// path and shapes that take the bit-by-bit path), content classes {drawn, single 1, single 0,
// one row, one column}; the result must be the c x r matrix with out[j][i] == in[i][j].
func TestBitsTranspose(t *testing.T) {
	const test = "BitsTranspose"
	vlib.Check(t, 320, func(t *rapid.T) {
		rows := 8 * rapid.SampledFrom([]int{1, 2, 3, 7, 8, 8, 9, 16, 16, 16, 24}).Draw(t, "rowsOver8")
		colBytes := rapid.SampledFrom([]int{1, 2, 3, 7, 8, 8, 9, 16, 24, 32, 33}).Draw(t, "colBytes")
		if rapid.IntRange(1, 16).Draw(t, "bigMatrix") == 16 {
			// TransposePackedBits has no size limit (64x64 block path when rows % 64 == 0 and every
			// row has a multiple of 8 bytes, bit-by-bit path otherwise); the extension transposes
			// 128 x (xi*L) matrices with xi*L in the thousands: a few shapes of that size
			rows = 8 * rapid.SampledFrom([]int{16, 32, 33, 64, 65}).Draw(t, "rowsOver8Big")
			colBytes = rapid.SampledFrom([]int{64, 65, 128, 512, 513}).Draw(t, "colBytesBig")
		}
		class := rapid.SampledFrom([]string{"drawn", "drawn", "drawn", "one1", "one0", "row", "col"}).Draw(t, "content")
		m := make([][]byte, rows)
		pi, pj := rapid.IntRange(0, rows-1).Draw(t, "pi"), rapid.IntRange(0, colBytes*8-1).Draw(t, "pj")
		for i := range m {
			switch class {
			case "drawn":
				if colBytes >= 64 { // large shapes: one drawn seed per row instead of hundreds of byte draws
					m[i] = make([]byte, colBytes)
					_, _ = vlib.NewPRNG(rapid.Uint64().Draw(t, fmt.Sprintf("rowSeed%d", i)), "c09/transpose").Read(m[i])
				} else {
					m[i] = rapid.SliceOfN(rapid.Byte(), colBytes, colBytes).Draw(t, fmt.Sprintf("row%d", i))
				}
			default:
				m[i] = make([]byte, colBytes)
				if class == "one0" {
					for k := range m[i] {
						m[i][k] = 0xff
					}
				}
			}
		}
		switch class {
		case "one1":
			m[pi][pj/8] |= 1 << (uint(pj) % 8)
		case "one0":
			m[pi][pj/8] &^= 1 << (uint(pj) % 8)
		case "row":
			for k := range m[pi] {
				m[pi][k] = 0xff
			}
		case "col":
			for i := range m {
				m[i][pj/8] |= 1 << (uint(pj) % 8)
			}
		}
		in := make([][]byte, rows)
		for i := range m {
			in[i] = append([]byte(nil), m[i]...)
		}
		out, err := ot.TransposePackedBits(in)
		if err != nil {
			t.Fatalf("TransposePackedBits(%d x %d bits): %v", rows, colBytes*8, err)
		}
		for i := range m {
			if !bytes.Equal(in[i], m[i]) {
				t.Fatalf("TransposePackedBits modified its input row %d", i)
			}
		}
		if len(out) != colBytes*8 {
			t.Fatalf("TransposePackedBits(%d x %d bits) returned %d rows", rows, colBytes*8, len(out))
		}
		for j := range out {
			if len(out[j])*8 != rows {
				t.Fatalf("TransposePackedBits(%d x %d bits): output row %d has %d bits", rows, colBytes*8, j, len(out[j])*8)
			}
			for i := 0; i < rows; i++ {
				if bitOf(out[j], i) != bitOf(m[i], j) {
					t.Fatalf("TransposePackedBits(%d x %d bits, %s at %d,%d): out[%d][%d]=%d but in[%d][%d]=%d", rows, colBytes*8, class, pi, pj, j, i, bitOf(out[j], i), i, j, bitOf(m[i], j))
				}
			}
		}
		path := "bitwise"
		if rows%64 == 0 && colBytes%8 == 0 {
			path = "block64"
		}
		vlib.Case(test, vlib.Desc("transpose", rows, colBytes*8, class), true, "path="+path, "content="+class)
	})
}

// TestBitsPack: Pack / Unpack / Get / Repeat against the unpacked reference (binary inputs only:
// the doc comment and the code disagree on what Pack does with a non-binary entry).
func TestBitsPack(t *testing.T) {
	const test = "BitsPack"
	vlib.Check(t, 320, func(t *rapid.T) {
		n := 8 * rapid.IntRange(1, 24).Draw(t, "bytes")
		bits := make([]uint8, n)
		raw := rapid.SliceOfN(rapid.Byte(), n/8, n/8).Draw(t, "raw")
		for i := range bits {
			bits[i] = bitOf(raw, i)
		}
		p, err := ot.Pack(bits)
		if err != nil {
			t.Fatalf("Pack(%v): %v", bits, err)
		}
		if !bytes.Equal(p, raw) {
			t.Fatalf("Pack(%v) = %x, little-endian packing gives %x", bits, []byte(p), raw)
		}
		if p.BitLen() != n {
			t.Fatalf("BitLen = %d for %d bits", p.BitLen(), n)
		}
		un := p.Unpack()
		if !bytes.Equal(un, bits) {
			t.Fatalf("Unpack(Pack(%v)) = %v", bits, un)
		}
		for i := range bits {
			if p.Get(uint(i)) != bits[i] {
				t.Fatalf("Get(%d) = %d on %x, expected %d", i, p.Get(uint(i)), raw, bits[i])
			}
		}
		k := rapid.IntRange(1, 5).Draw(t, "repeat")
		rep := ot.PackedBits(append([]byte(nil), raw...)).Repeat(k)
		want := make([]uint8, 0, n*k)
		for _, b := range bits {
			for r := 0; r < k; r++ {
				want = append(want, b)
			}
		}
		if !bytes.Equal(refUnpack(rep), want) {
			t.Fatalf("PackedBits(%x).Repeat(%d) = %x, expected every bit %d times in place", raw, k, []byte(rep), k)
		}
		vlib.Case(test, vlib.Desc("pack", n, k), true, fmt.Sprintf("repeat=%d", k))
	})
}
