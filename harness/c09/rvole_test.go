package c09

import (
	"fmt"
	"testing"

	"pgregory.net/rapid"

	"verif/harness/vlib"
)

// Dimensions of the multiplication protocols (participant.go): the scalar field has kappa bits;
// the base-OT variant runs xi = kappa + 2*80 OTs, the extension variant xi = kappa + 256; both use
// rho = ceil(kappa/128) check columns. They are recomputed here only to size Bob's scripted choice
// vector; the runners read the actual dimensions from Alice's message and the scripted source
// verifies that the library asked for exactly that many bytes.
func xiBbot(elemBits int) int { return elemBits + 160 }
func xiSS(elemBits int) int   { return elemBits + 256 }

// pickRow returns an index j >= start (cyclically) with beta_j == want, or start if there is none.
func pickRow(beta []byte, start int, want byte) int {
	n := len(beta) * 8
	for k := 0; k < n; k++ {
		j := (start + k) % n
		if bitOf(beta, j) == want {
			return j
		}
	}
	return start % n
}

// bigVectorLen: the multiplication's vector length l is only required to be positive by both
// NewSuite constructors; one case in 12 uses 4..16 components instead of 1..3. The base-OT variant
// runs xi ~ 400 elliptic-curve OTs of l+2 blocks each (about 10 s per case in the quick tier), so
// it is capped at l = 5 there (cap); the extension variant goes to 16.
func bigVectorLen(t *rapid.T, l, cap int) int {
	if rapid.IntRange(1, 12).Draw(t, "longVector") == 12 {
		return min(cap, rapid.SampledFrom([]int{4, 5, 8, 9, 16}).Draw(t, "lBig"))
	}
	return l
}

// TestRVOLESoftspoken: drawn (curve, hash, l, input vector a with entries from {0,1,q-1,2,drawn},
// Bob's choice vector beta {all-0, all-1, alternating, single, drawn}, seeds kind, seed); three
// rounds through CBOR; oracle: c[i]+d[i] == a[i]*b mod q on math/big, b as output by Bob.Round1;
// b == 0 when beta is all-zero (b = sum beta_j g_j).
func TestRVOLESoftspoken(t *testing.T) {
	const test = "RVOLESoftspoken"
	vlib.Check(t, 48, func(t *rapid.T) {
		c := genCurve(t)
		h := genHash(t)
		l := bigVectorLen(t, rapid.IntRange(1, 3).Draw(t, "l"), 16)
		a, ac := genInputs(t, c.order, l)
		xi := xiSS(c.elemBits)
		beta, bc := genChoices(t, "beta", xi)
		sp := genSeeds(t, 1)
		seed := rapid.Uint64().Draw(t, "seed")
		run := c.rvoleSS(t, rvParams{l: l, a: a, beta: beta, seed: seed, hash: h, seedsS: sp.s, seedsR: sp.r})
		what := fmt.Sprintf("rvole-softspoken %s %s l=%d a=%x beta=%x seeds=%s delta=%x seed=%d", c.name, h.name, l, a, beta, sp.class, sp.delta, seed)
		if run.xi != xi {
			t.Fatalf("harness: %s: the protocol ran %d OTs, expected %d", what, run.xi, xi)
		}
		checkProduct(t, what, c.order, a, run)
		if bc == "all0" && run.b.Sign() != 0 {
			t.Fatalf("%s: beta is all-zero but b = %x", what, run.b)
		}
		vlib.Case(test, vlib.Desc("rvole-softspoken", xi, l, c.name, bc, "none"), !allEqual(bc) || l > 1,
			"curve="+c.name, "hash="+h.name, fmt.Sprintf("l=%d", l), "beta="+bc, "seeds="+sp.kind, "a="+ac)
		vlib.Sample("rvole-softspoken", map[string]any{"curve": c.name, "l": l, "a": fmt.Sprintf("%x", a), "beta": fmt.Sprintf("%x", beta), "seeds": sp.class, "seed": seed})
	})
}

// TestRVOLEBbot: the same over the base-OT variant (groups k256, p256, ed25519, pallas).
func TestRVOLEBbot(t *testing.T) {
	const test = "RVOLEBbot"
	vlib.Check(t, 24, func(t *rapid.T) {
		g := groupByName(rapid.SampledFrom([]string{"k256", "k256", "k256", "p256", "p256", "ed25519", "pallas"}).Draw(t, "group"))
		l := bigVectorLen(t, rapid.IntRange(1, 3).Draw(t, "l"), 5)
		a, ac := genInputs(t, g.order, l)
		xi := xiBbot(g.elemBits)
		beta, bc := genChoices(t, "beta", xi)
		seed := rapid.Uint64().Draw(t, "seed")
		run := g.rvoleBbot(t, rvParams{l: l, a: a, beta: beta, seed: seed})
		what := fmt.Sprintf("rvole-bbot %s l=%d a=%x beta=%x seed=%d", g.name, l, a, beta, seed)
		if run.xi != xi {
			t.Fatalf("harness: %s: the protocol ran %d OTs, expected %d", what, run.xi, xi)
		}
		checkProduct(t, what, g.order, a, run)
		if bc == "all0" && run.b.Sign() != 0 {
			t.Fatalf("%s: beta is all-zero but b = %x", what, run.b)
		}
		vlib.Case(test, vlib.Desc("rvole-bbot", xi, l, g.name, bc, "none"), !allEqual(bc) || l > 1,
			"group="+g.name, fmt.Sprintf("l=%d", l), "beta="+bc, "a="+ac)
		vlib.Sample("rvole-bbot", map[string]any{"group": g.name, "l": l, "a": fmt.Sprintf("%x", a), "beta": fmt.Sprintf("%x", beta), "seed": seed})
	})
}

// genRvoleFault draws one alteration of Alice's last message: ATilde[j][i] with j chosen by the
// value of beta_j (0: the row does not enter Bob's d, it is bound only through the transcript /
// theta; 1: it does) and i in the payload columns (< l) or the check columns (>= l); Eta[k]; one
// bit of Mu; with withOT also one bit of the inner extension message (X, T[i], U[i]).
func genRvoleFault(t *rapid.T, l, rho int, beta []byte, withOT bool) (*rvFault, string) {
	fields := []string{"ATilde", "ATilde", "ATilde", "ATilde", "Eta", "Eta", "Mu", "Mu"}
	if withOT {
		fields = append(fields, "OtX", "OtT", "OtU")
	}
	f := &rvFault{
		field: rapid.SampledFrom(fields).Draw(t, "field"),
		kind:  rapid.SampledFrom([]string{"plus1", "neg", "zero", "copy"}).Draw(t, "kind"),
		pos:   rapid.IntRange(0, 4095).Draw(t, "pos"),
		bit:   rapid.IntRange(0, 7).Draw(t, "bit"),
	}
	class := f.field
	switch f.field {
	case "ATilde":
		want := byte(rapid.IntRange(0, 1).Draw(t, "betaJ"))
		f.j = pickRow(beta, rapid.IntRange(0, len(beta)*8-1).Draw(t, "rowStart"), want)
		if rapid.Bool().Draw(t, "checkColumn") {
			f.i = l + rapid.IntRange(0, rho-1).Draw(t, "col")
			class += "/check-col"
		} else {
			f.i = rapid.IntRange(0, l-1).Draw(t, "col")
			class += "/payload-col"
		}
		class += fmt.Sprintf("/beta_j=%d/%s", bitOf(beta, f.j), f.kind)
	case "Eta":
		f.i = rapid.IntRange(0, rho-1).Draw(t, "k")
		class += "/" + f.kind
	case "Mu", "OtX":
	default:
		f.j = rapid.IntRange(0, 127).Draw(t, "row")
	}
	return f, class
}

func rvoleFaultCase(t *rapid.T, test, proto string, withOT bool, elemBits, xi int, name string,
	run func(p rvParams) *rvRun, mkSeeds func() *seedSpec) {
	l := rapid.IntRange(1, 3).Draw(t, "l")
	rho := (elemBits + 127) / 128
	beta, bc := genChoices(t, "beta", xi)
	f, fclass := genRvoleFault(t, l, rho, beta, withOT)
	// Eta enters Bob's check only through rows with beta_j = 1; with beta all-zero (b = 0,
	// probability 2^-xi for an honest Bob) nothing Alice sends can matter and Eta is unbound.
	// That single vector is excluded for Eta alterations.
	if f.field == "Eta" && bc == "all0" {
		beta[0] |= 1
		bc = "one1"
	}
	p := rvParams{l: l, beta: beta, seed: rapid.Uint64().Draw(t, "seed"), hash: genHash(t), fault: f}
	p.a, _ = genInputs(t, orders[name], l)
	sc := "-"
	if mkSeeds != nil {
		sp := mkSeeds()
		p.seedsS, p.seedsR = sp.s, sp.r
		sc = sp.kind
	}
	what := fmt.Sprintf("%s %s l=%d a=%x beta=%x seed=%d seeds=%s fault %v", proto, name, l, p.a, beta, p.seed, sc, f)
	var r *rvRun
	vlib.NoPanic(t, what, func() { r = run(p) })
	if r.failRound == 0 {
		t.Fatalf("%s: the protocol completed although %s was altered (c=%x d=%x)", what, fclass, r.c, r.d)
	}
	vlib.Case(test, vlib.Desc(proto, xi, l, name, bc, fclass), true,
		"field="+fclass, "curve="+name, fmt.Sprintf("l=%d", l), "beta="+bc, errClass(r.err), fmt.Sprintf("detected-in-round=%d", r.failRound))
	vlib.Sample(proto+"-fault", map[string]any{"curve": name, "l": l, "beta": fmt.Sprintf("%x", beta), "fault": f.String(), "round": r.failRound, "err": r.err.Error()})
}

// TestRVOLESoftspokenFaults: one field of Alice's check message (or of Bob's inner extension
// message) altered; the consuming round (Bob.Round3, resp. Alice.Round2) must return an error.
func TestRVOLESoftspokenFaults(t *testing.T) {
	const test = "RVOLESoftspokenFaults"
	vlib.Check(t, 112, func(t *rapid.T) {
		c := genCurve(t)
		rvoleFaultCase(t, test, "rvole-softspoken", true, c.elemBits, xiSS(c.elemBits), c.name,
			func(p rvParams) *rvRun { return c.rvoleSS(t, p) },
			func() *seedSpec { return genSeeds(t, 0) })
	})
}

// TestRVOLEBbotFaults: the same for the base-OT variant (Bob.Round4 must return an error).
func TestRVOLEBbotFaults(t *testing.T) {
	const test = "RVOLEBbotFaults"
	vlib.Check(t, 16, func(t *rapid.T) {
		g := groupByName(rapid.SampledFrom([]string{"k256", "k256", "p256"}).Draw(t, "group"))
		rvoleFaultCase(t, test, "rvole-bbot", false, g.elemBits, xiBbot(g.elemBits), g.name,
			func(p rvParams) *rvRun { return g.rvoleBbot(t, p) }, nil)
	})
}
