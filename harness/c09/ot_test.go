package c09

import (
	"fmt"
	"testing"

	"pgregory.net/rapid"

	"github.com/bronlabs/bron-crypto/pkg/ot/base/vsot"
	"github.com/bronlabs/bron-crypto/pkg/ot/extension/softspoken"
	"verif/harness/vlib"
)

// TestOrders guards the typed-in scalar field orders against the library's (a mismatch is a
// harness problem, not a C09 violation, but it must not go unnoticed).
func TestOrders(t *testing.T) {
	for _, g := range groups {
		if g.order == nil || g.order.Cmp(g.libOrder) != 0 {
			t.Fatalf("harness: typed-in order of %s is %x, the library says %x", g.name, g.order, g.libOrder)
		}
	}
}

func genGroup(t *rapid.T) *groupOps {
	return groupByName(rapid.SampledFrom([]string{"k256", "k256", "k256", "p256", "p256", "p256", "ed25519", "ed25519", "pallas", "bls12381g1"}).Draw(t, "group"))
}

func genCurve(t *rapid.T) *curveOps {
	return curveByName(rapid.SampledFrom([]string{"k256", "k256", "k256", "p256", "p256", "p256", "pallas"}).Draw(t, "curve"))
}

// ---- ecbbot --------------------------------------------------------------------------------

// TestECBBOT: drawn (group, xi, L, choice vector, seed); three rounds through CBOR; oracle checkOT
// on the scalars' byte encodings.
func TestECBBOT(t *testing.T) {
	const test = "ECBBOT"
	vlib.Check(t, 64, func(t *rapid.T) {
		g := genGroup(t)
		xis := []int{8, 8, 16, 16, 24, 32, 64, 128}
		if vlib.Thorough() {
			xis = append(xis, 256)
		}
		xi := rapid.SampledFrom(xis).Draw(t, "xi")
		l := rapid.IntRange(1, 4).Draw(t, "L")
		if g.name == "bls12381g1" && xi > 16 {
			xi = 16
		}
		if xi*l > 256 && !vlib.Thorough() {
			l = 256 / xi
		}
		if g.name != "bls12381g1" {
			xi, l = bigBaseOTSize(t, xi, l)
		}
		choices, cc := genChoices(t, "choices", xi)
		seed := rapid.Uint64().Draw(t, "seed")
		run := g.ecbbot(t, otParams{xi: xi, l: l, choices: choices, seed: seed})
		what := fmt.Sprintf("ecbbot %s xi=%d L=%d choices=%x seed=%d", g.name, xi, l, choices, seed)
		checkOT(t, what, xi, l, choices, g.elemBits/8, run.out)
		// the byte-string form keeps the correlation (it is what seeds the extension)
		bo := eraseBytesOT(run.bitsS.Messages, run.bitsR.Choices, run.bitsR.Messages, run.bitsS.InferredXi(), run.bitsS.InferredL(), run.bitsR.InferredXi(), run.bitsR.InferredL())
		checkOT(t, what+" ToBitsOutput", xi, l, choices, 32, bo)
		vlib.Case(test, vlib.Desc("ecbbot", xi, l, g.name, cc, "none"), !allEqual(cc) || l > 1,
			"group="+g.name, fmt.Sprintf("xi=%d", xi), fmt.Sprintf("L=%d", l), "choices="+cc)
		vlib.Sample("ecbbot", map[string]any{"group": g.name, "xi": xi, "L": l, "choices": fmt.Sprintf("%x", choices), "seed": seed})
	})
}

// ---- vsot ----------------------------------------------------------------------------------

// TestVSOT: drawn (curve, hash, xi, L, choice vector, seed); six rounds through CBOR; checkOT.
func TestVSOT(t *testing.T) {
	const test = "VSOT"
	vlib.Check(t, 64, func(t *rapid.T) {
		c := genCurve(t)
		h := genHash(t)
		xis := []int{8, 8, 16, 16, 24, 32, 64, 128}
		if vlib.Thorough() {
			xis = append(xis, 256)
		}
		xi := rapid.SampledFrom(xis).Draw(t, "xi")
		l := rapid.IntRange(1, 4).Draw(t, "L")
		if xi*l > 256 && !vlib.Thorough() {
			l = 256 / xi
		}
		xi, l = bigBaseOTSize(t, xi, l)
		choices, cc := genChoices(t, "choices", xi)
		seed := rapid.Uint64().Draw(t, "seed")
		run := c.vsot(t, otParams{xi: xi, l: l, choices: choices, seed: seed, hash: h})
		what := fmt.Sprintf("vsot %s %s xi=%d L=%d choices=%x seed=%d", c.name, h.name, xi, l, choices, seed)
		checkOT(t, what, xi, l, choices, h.size, run.out)
		if run.bitsS.InferredMessageBytesLen() != h.size || run.bitsR.InferredMessageBytesLen() != h.size {
			t.Fatalf("%s: InferredMessageBytesLen %d / %d, hash size %d", what, run.bitsS.InferredMessageBytesLen(), run.bitsR.InferredMessageBytesLen(), h.size)
		}
		vlib.Case(test, vlib.Desc("vsot", xi, l, c.name, cc, "none"), !allEqual(cc) || l > 1,
			"curve="+c.name, "hash="+h.name, fmt.Sprintf("xi=%d", xi), fmt.Sprintf("L=%d", l), "choices="+cc)
		vlib.Sample("vsot", map[string]any{"curve": c.name, "hash": h.name, "xi": xi, "L": l, "choices": fmt.Sprintf("%x", choices), "seed": seed})
	})
}

// consumingRound is the round whose input carries the field.
var vsotConsumingRound = map[string]int{"BigB": 2, "Proof": 2, "Xi": 4, "RhoPrime": 5, "Rho0Digest": 6, "Rho1Digest": 6}

// TestVSOTFaults: one verification value of one VSOT message altered (bit flip in a digest / the
// proof, B replaced by another valid point); the run must stop with an error in the round that
// consumes the value or in a later one, never complete, never panic.
func TestVSOTFaults(t *testing.T) {
	const test = "VSOTFaults"
	vlib.Check(t, 112, func(t *rapid.T) {
		c := genCurve(t)
		h := genHash(t)
		xi := rapid.SampledFrom([]int{8, 8, 16}).Draw(t, "xi")
		l := rapid.IntRange(1, 3).Draw(t, "L")
		choices, cc := genChoices(t, "choices", xi)
		seed := rapid.Uint64().Draw(t, "seed")
		f := &otFault{
			field: rapid.SampledFrom([]string{"Xi", "Xi", "RhoPrime", "RhoPrime", "Rho0Digest", "Rho1Digest", "Rho0Digest", "Rho1Digest", "BigB", "BigB", "Proof"}).Draw(t, "field"),
			idx:   rapid.IntRange(0, xi*l-1).Draw(t, "idx"),
			pos:   rapid.IntRange(0, 255).Draw(t, "pos"),
			bit:   rapid.IntRange(0, 7).Draw(t, "bit"),
			kind:  rapid.SampledFrom([]string{"plusG", "double", "neg"}).Draw(t, "kind"),
		}
		omega := bitOf(choices, f.idx/l)
		fclass := f.field
		switch f.field {
		case "BigB":
			fclass += "/" + f.kind
		case "Proof":
		default:
			fclass += fmt.Sprintf("/omega=%d", omega)
		}
		var run *otRun
		what := fmt.Sprintf("vsot %s %s xi=%d L=%d choices=%x seed=%d fault %v", c.name, h.name, xi, l, choices, seed, f)
		vlib.NoPanic(t, what, func() {
			run = c.vsot(t, otParams{xi: xi, l: l, choices: choices, seed: seed, hash: h, fault: f})
		})
		if run.failRound == 0 {
			t.Fatalf("%s: the protocol completed although %s was altered", what, fclass)
		}
		if run.failRound < vsotConsumingRound[f.field] {
			t.Fatalf("harness: %s: error in round %d before the altered value is consumed: %v", what, run.failRound, run.err)
		}
		vlib.Case(test, vlib.Desc("vsot", xi, l, c.name, cc, fclass), true,
			"curve="+c.name, "field="+fclass, fmt.Sprintf("field=%s detected-in-round=%d", f.field, run.failRound), errClass(run.err), "choices="+cc)
		vlib.Sample("vsot-fault", map[string]any{"curve": c.name, "xi": xi, "L": l, "fault": f.String(), "round": run.failRound, "err": run.err.Error()})
	})
}

// ---- extension -----------------------------------------------------------------------------

// genDelta draws the base-OT choice vector (the extension sender's Delta). The all-zero vector is
// outside the domain: it is sampled uniformly by the protocols that run the base OT and, being the
// correlation offset, all-zero makes the two sender messages equal by construction.
func genDelta(t *rapid.T) ([]byte, string) {
	d, class := genChoices(t, "delta", softspoken.Kappa)
	if class == "all0" {
		d[0] |= 1
		class = "one1"
	}
	return d, class
}

type seedSpec struct {
	kind  string // constructed, real-ecbbot, real-vsot
	class string // for the evidence
	s     *vsot.SenderOutput
	r     *vsot.ReceiverOutput
	delta []byte
}

// genSeeds draws how the 128 base OTs were obtained: constructed strings (16/32/64 bytes) or a
// real base-OT run (ecbbot + ToBitsOutput, or VSOT) driven through CBOR and checked by checkOT.
func genSeeds(t *rapid.T, realWeight int) *seedSpec {
	kinds := []string{"constructed", "constructed", "constructed", "constructed", "constructed", "constructed", "constructed", "constructed"}
	for i := 0; i < realWeight; i++ {
		kinds = append(kinds, "real-ecbbot", "real-vsot")
	}
	kind := rapid.SampledFrom(kinds).Draw(t, "seedKind")
	delta, dc := genDelta(t)
	seed := rapid.Uint64().Draw(t, "baseSeed")
	sp := &seedSpec{kind: kind, delta: delta}
	switch kind {
	case "constructed":
		n := rapid.SampledFrom([]int{16, 32, 32, 64}).Draw(t, "seedLen")
		sp.s, sp.r = constructSeeds(delta, n, seed)
		sp.class = fmt.Sprintf("constructed/%dB/delta=%s", n, dc)
	case "real-ecbbot":
		g := groupByName(rapid.SampledFrom([]string{"k256", "p256", "ed25519"}).Draw(t, "baseGroup"))
		run := g.ecbbot(t, otParams{xi: softspoken.Kappa, l: 1, choices: delta, seed: seed})
		checkOT(t, fmt.Sprintf("base ecbbot %s delta=%x seed=%d", g.name, delta, seed), softspoken.Kappa, 1, delta, g.elemBits/8, run.out)
		sp.s, sp.r = run.bitsS, run.bitsR
		sp.class = "real-ecbbot/" + g.name + "/delta=" + dc
	default:
		c := curveByName(rapid.SampledFrom([]string{"k256", "p256"}).Draw(t, "baseCurve"))
		h := genHash(t)
		run := c.vsot(t, otParams{xi: softspoken.Kappa, l: 1, choices: delta, seed: seed, hash: h})
		checkOT(t, fmt.Sprintf("base vsot %s delta=%x seed=%d", c.name, delta, seed), softspoken.Kappa, 1, delta, h.size, run.out)
		sp.s, sp.r = run.bitsS, run.bitsR
		sp.class = "real-vsot/" + c.name + "/" + h.name + "/delta=" + dc
	}
	return sp
}

func gcd(a, b int) int {
	for b != 0 {
		a, b = b, a%b
	}
	return a
}

// bigBaseOTSize: one case in 16 replaces the drawn (xi, L) of a base OT by a size outside the
// usual quick-tier box (xi <= 128, L <= 4, xi*L <= 256). ot.NewDefaultSuite accepts every
// xi, L > 0 (the harness needs xi to be a multiple of 8: choices are packed bytes); 256 / 264
// instances exceed one byte of instance index, L = 5..33 exceeds the 1..4 blocks. xi*L <= 528
// keeps such a case at about twice the cost of the largest usual one.
func bigBaseOTSize(t *rapid.T, xi, l int) (int, int) {
	if rapid.IntRange(1, 16).Draw(t, "bigBaseOT") != 16 {
		return xi, l
	}
	s := rapid.SampledFrom([][2]int{{256, 1}, {256, 2}, {264, 1}, {264, 2}, {136, 3}, {8, 5}, {8, 16}, {8, 33}, {16, 17}, {24, 9}}).Draw(t, "bigXiL")
	return s[0], s[1]
}

// genExtensionSize draws (xi, L) with xi a multiple of 8 and xi*L a multiple of 128 (what
// softspoken.NewSuite allows).
func genExtensionSize(t *rapid.T, maxEta int) (int, int) {
	ks := []int{1, 1, 2, 2, 3, 4, 8, 16, 16, 16, 17, 32, 64}
	xi := 8 * rapid.SampledFrom(ks).Draw(t, "xiOver8")
	if rapid.IntRange(1, 16).Draw(t, "bigExtension") == 16 {
		// softspoken.NewSuite only asks for xi % 8 == 0 and xi*L % 128 == 0, there is no upper limit;
		// the extension is symmetric-key work (128 x xi*L bits), so 1024 / 1032 / 2048 instances and
		// xi*L up to 16512 bits stay cheap. The usual draw stops at xi = 512, xi*L = 4096.
		xi = 8 * rapid.SampledFrom([]int{128, 129, 256}).Draw(t, "xiOver8Big")
		maxEta = max(maxEta, 16512)
	}
	l0 := 128 / gcd(xi, 128)
	m := rapid.IntRange(1, 3).Draw(t, "Lmult")
	for m > 1 && xi*l0*m > maxEta {
		m--
	}
	return xi, l0 * m
}

// TestSoftSpoken: drawn ((xi, L), hash, seeds kind, Delta, choice vector, seed); two rounds through
// CBOR; checkOT.
func TestSoftSpoken(t *testing.T) {
	const test = "SoftSpoken"
	vlib.Check(t, 128, func(t *rapid.T) {
		maxEta := 4096
		if vlib.Thorough() {
			maxEta = 16384
		}
		xi, l := genExtensionSize(t, maxEta)
		h := genHash(t)
		sp := genSeeds(t, 1)
		choices, cc := genChoices(t, "choices", xi)
		seed := rapid.Uint64().Draw(t, "seed")
		run := runSoftspoken(t, otParams{xi: xi, l: l, choices: choices, seed: seed, hash: h, seedsS: sp.s, seedsR: sp.r})
		what := fmt.Sprintf("softspoken xi=%d L=%d %s seeds=%s delta=%x choices=%x seed=%d", xi, l, h.name, sp.class, sp.delta, choices, seed)
		checkOT(t, what, xi, l, choices, h.size, run.out)
		vlib.Case(test, vlib.Desc("softspoken", xi, l, sp.kind, cc, "none"), !allEqual(cc) || l > 1,
			"seeds="+sp.kind, "hash="+h.name, fmt.Sprintf("xi=%d", xi), fmt.Sprintf("L=%d", l), "choices="+cc, "seedclass="+sp.class)
		vlib.Sample("softspoken", map[string]any{"xi": xi, "L": l, "hash": h.name, "seeds": sp.class, "delta": fmt.Sprintf("%x", sp.delta), "choices": fmt.Sprintf("%x", choices), "seed": seed})
	})
}

func extensionFaultCase(t TB, xi, l int, h hashAlg, sp *seedSpec, choices []byte, seed uint64, f *otFault) *otRun {
	var run *otRun
	what := fmt.Sprintf("softspoken xi=%d L=%d %s seeds=%s delta=%x choices=%x seed=%d fault %v", xi, l, h.name, sp.class, sp.delta, choices, seed, f)
	vlib.NoPanic(t, what, func() {
		run = runSoftspoken(t, otParams{xi: xi, l: l, choices: choices, seed: seed, hash: h, seedsS: sp.s, seedsR: sp.r, fault: f})
	})
	if run.failRound == 0 {
		t.Fatalf("%s: the sender accepted the altered message and produced outputs", what)
	}
	return run
}

// TestSoftSpokenFaults: one field of the receiver's message altered by a bit flip - the challenge
// response X, one T[i], or one byte of one U[i] (payload region or the sigma check bits; U feeds
// the Fiat-Shamir challenge and, for Delta_i = 1, the sender's correlation). Sender.Round2 must
// return an error.
func TestSoftSpokenFaults(t *testing.T) {
	const test = "SoftSpokenFaults"
	vlib.Check(t, 176, func(t *rapid.T) {
		sizes := [][2]int{{8, 16}, {16, 8}, {128, 1}, {64, 2}, {128, 2}, {24, 16}, {256, 1}}
		sz := rapid.SampledFrom(sizes).Draw(t, "size")
		xi, l := sz[0], sz[1]
		h := genHash(t)
		realW := 0
		if rapid.IntRange(0, 15).Draw(t, "realSeeds") == 0 {
			realW = 100
		}
		sp := genSeeds(t, realW)
		choices, cc := genChoices(t, "choices", xi)
		seed := rapid.Uint64().Draw(t, "seed")
		etaBytes := xi * l / 8
		f := &otFault{
			field: rapid.SampledFrom([]string{"X", "T", "T", "U", "U"}).Draw(t, "field"),
			idx:   rapid.IntRange(0, softspoken.Kappa-1).Draw(t, "row"),
			bit:   rapid.IntRange(0, 7).Draw(t, "bit"),
		}
		fclass := f.field
		switch f.field {
		case "X":
			f.pos = rapid.IntRange(0, softspoken.SigmaBytes-1).Draw(t, "pos")
		case "T":
			f.pos = rapid.IntRange(0, softspoken.SigmaBytes-1).Draw(t, "pos")
			fclass += fmt.Sprintf("/delta_i=%d", bitOf(sp.delta, f.idx))
		case "U":
			if rapid.Bool().Draw(t, "tail") {
				f.pos = etaBytes + rapid.IntRange(0, softspoken.SigmaBytes-1).Draw(t, "pos")
				fclass += "/check-bits"
			} else {
				f.pos = rapid.IntRange(0, etaBytes-1).Draw(t, "pos")
				fclass += "/payload"
			}
			fclass += fmt.Sprintf("/delta_i=%d", bitOf(sp.delta, f.idx))
		}
		run := extensionFaultCase(t, xi, l, h, sp, choices, seed, f)
		vlib.Case(test, vlib.Desc("softspoken", xi, l, sp.kind, cc, fclass), true,
			"field="+fclass, "seeds="+sp.kind, fmt.Sprintf("size=%dx%d", xi, l), errClass(run.err), "choices="+cc)
		vlib.Sample("softspoken-fault", map[string]any{"xi": xi, "L": l, "seeds": sp.class, "fault": f.String(), "err": run.err.Error()})
	})
}

// TestSoftSpokenFaultsEveryT enumerates the rows of the challenge response: T[i] for i in a
// stratified sample (quick) or all 128 rows (thorough), each with Delta_i = 0 and Delta_i = 1,
// plus X for every byte position.
func TestSoftSpokenFaultsEveryT(t *testing.T) {
	const test = "SoftSpokenFaultsEveryT"
	rows := []int{0, 1, 2, 7, 8, 9, 15, 16, 31, 32, 33, 63, 64, 65, 95, 96, 119, 120, 126, 127}
	if vlib.Thorough() {
		rows = rows[:0]
		for i := 0; i < softspoken.Kappa; i++ {
			rows = append(rows, i)
		}
	}
	item := 0
	h := hashAlgs[0]
	for _, i := range rows {
		for d := byte(0); d < 2; d++ {
			item++
			if !vlib.Mine(item) {
				continue
			}
			seed := vlib.Seed()*1000003 + uint64(item)
			delta := make([]byte, softspoken.Kappa/8)
			_, _ = vlib.NewPRNG(seed, "c09/everyT/delta").Read(delta)
			delta[i/8] &^= 1 << (uint(i) % 8)
			delta[i/8] |= d << (uint(i) % 8)
			delta[((i+1)%softspoken.Kappa)/8] |= 1 << (uint(i+1) % 8) // never all-zero
			sp := &seedSpec{kind: "constructed", class: "constructed/32B", delta: delta}
			sp.s, sp.r = constructSeeds(delta, 32, seed)
			xi, l := 8, 16
			if i%2 == 1 {
				xi, l = 128, 1
			}
			choices := make([]byte, xi/8)
			_, _ = vlib.NewPRNG(seed, "c09/everyT/choices").Read(choices)
			f := &otFault{field: "T", idx: i, pos: (i*7 + int(d)) % softspoken.SigmaBytes, bit: (i + 3*int(d)) % 8}
			run := extensionFaultCase(t, xi, l, h, sp, choices, seed, f)
			vlib.Case(test, vlib.Desc("softspoken", xi, l, "constructed", "drawn", fmt.Sprintf("T[%d]/delta_i=%d", i, d)), true,
				fmt.Sprintf("field=T/delta_i=%d", d), errClass(run.err))
		}
	}
	for pos := 0; pos < softspoken.SigmaBytes; pos++ {
		item++
		if !vlib.Mine(item) {
			continue
		}
		seed := vlib.Seed()*1000003 + uint64(item)
		delta := make([]byte, softspoken.Kappa/8)
		_, _ = vlib.NewPRNG(seed, "c09/everyT/delta").Read(delta)
		delta[0] |= 1
		sp := &seedSpec{kind: "constructed", class: "constructed/32B", delta: delta}
		sp.s, sp.r = constructSeeds(delta, 32, seed)
		choices := make([]byte, 16)
		_, _ = vlib.NewPRNG(seed, "c09/everyT/choices").Read(choices)
		f := &otFault{field: "X", pos: pos, bit: pos % 8}
		run := extensionFaultCase(t, 128, 1, h, sp, choices, seed, f)
		vlib.Case(test, vlib.Desc("softspoken", 128, 1, "constructed", "drawn", fmt.Sprintf("X byte %d", pos)), true, "field=X", errClass(run.err))
	}
	if vlib.Thorough() {
		vlib.Exhaustive("softspoken ChallengeResponse: every T[i], i in 0..127, with Delta_i in {0,1}; every byte of X")
	} else {
		vlib.Exhaustive("softspoken ChallengeResponse: every byte of X (T[i]: stratified sample of 20 rows x Delta_i in {0,1})")
	}
}
