package c14

// Operand pools: per group a list of exceptional elements ("specials") and a list of drawn
// multiples of the generator, each held as a model point and as two library representations of it
// (affine: built by FromAffine, Z = 1; projective: the same value reached through two library
// additions, Z != 1).

import (
	"fmt"
	"math/big"

	"pgregory.net/rapid"

	"verif/harness/vlib"
	"verif/harness/vlib/refcurve"
)

type elem[P any] struct {
	class    string
	ref      refcurve.Point
	aff, prj P
	a        *big.Int // ref = [a]G + [e]T8 when a != nil (discrete logarithm known by construction)
	e        int
	sub      bool // element of the prime-order subgroup
}

type pool[P any] struct {
	sp   []elem[P]
	rnd  []elem[P]
	tors []refcurve.Point // [e]T8, e = 0..7 (full types; else only the neutral element)
}

const poolDrawn = 16

func (g *G[P, F, S]) Prepare(t vlib.Fataler) {
	t.Helper()
	g.once.Do(func() { g.pl, g.perr = g.buildPool() })
	if g.perr != nil {
		t.Fatalf("%s: building the operand pool failed: %v", g.name, g.perr)
	}
}

func (g *G[P, F, S]) buildPool() (*pool[P], error) {
	c := g.ref
	pl := &pool[P]{tors: []refcurve.Point{c.Neutral()}}
	if g.full {
		// a generator of the cyclic 8-torsion and its multiples
		base := c
		if c.Kind == refcurve.Montgomery {
			base = refcurve.Curve25519() // SmallOrderPoints insists on the package's own curve value; the torsion does not depend on G
		}
		ts, orders := base.SmallOrderPoints()
		var t8 refcurve.Point
		for i, o := range orders {
			if o == 8 {
				t8 = ts[i]
				break
			}
		}
		pl.tors = pl.tors[:0]
		acc := c.Neutral()
		for e := 0; e < 8; e++ {
			pl.tors = append(pl.tors, acc)
			acc = c.Add(acc, t8)
		}
		if !c.IsNeutral(acc) {
			return nil, fmt.Errorf("model: 8-torsion generator has wrong order")
		}
	}
	prng := vlib.NewPRNG(vlib.Seed(), "c14/pool/"+g.name)
	drawScalar := func() *big.Int {
		b := make([]byte, c.N.BitLen()/8+16)
		_, _ = prng.Read(b)
		k := new(big.Int).Mod(new(big.Int).SetBytes(b), c.N)
		if k.Sign() == 0 {
			k.SetInt64(5)
		}
		return k
	}
	// the blinding point for the projective representation
	rRef := c.ScalarMul(c.G, drawScalar())
	rLib, err := g.fromRef(rRef)
	if err != nil {
		return nil, fmt.Errorf("FromAffine(%v): %v", rRef, err)
	}
	mk := func(class string, a *big.Int, e int, q refcurve.Point) (elem[P], error) {
		el := elem[P]{class: class, ref: q, a: a, e: e, sub: e == 0}
		if a != nil {
			a = new(big.Int).Mod(a, c.N)
			el.a = a
			if class != "drawn" { // drawn entries are [a]G by construction
				want := c.Add(c.ScalarMul(c.G, a), pl.tors[e])
				if !c.Equal(want, q) {
					return el, fmt.Errorf("model: %s is not [a]G+[e]T", class)
				}
			}
		}
		if !c.IsOnCurve(q) {
			return el, fmt.Errorf("model: %s not on curve", class)
		}
		if el.aff, err = g.fromRef(q); err != nil {
			return el, fmt.Errorf("FromAffine(%s = %v): %v", class, q, err)
		}
		el.prj = el.aff.Add(rLib).Sub(rLib)
		for _, p := range []P{el.aff, el.prj} {
			back, err := g.toRef(p)
			if err != nil {
				return el, fmt.Errorf("%s = %v: reading the library point back: %v", class, q, err)
			}
			if !c.Equal(back, q) {
				return el, fmt.Errorf("%s = %v: library point reads back as %v", class, q, back)
			}
		}
		return el, nil
	}
	for i := 0; i < poolDrawn; i++ {
		a := drawScalar()
		el, err := mk("drawn", a, 0, c.ScalarMul(c.G, a))
		if err != nil {
			return nil, err
		}
		pl.rnd = append(pl.rnd, el)
	}
	n1 := new(big.Int).Sub(c.N, big.NewInt(1))
	a0 := pl.rnd[0].a
	pRef := pl.rnd[0].ref
	type spec struct {
		class string
		a     *big.Int
		e     int
		q     refcurve.Point
	}
	specs := []spec{
		{"id", big.NewInt(0), 0, c.Neutral()},
		{"G", big.NewInt(1), 0, c.G},
		{"-G", n1, 0, c.Neg(c.G)},
		{"2G", big.NewInt(2), 0, c.Double(c.G)},
		{"3G", big.NewInt(3), 0, c.Add(c.Double(c.G), c.G)},
		{"-2G", big.NewInt(-2), 0, c.Neg(c.Double(c.G))},
		{"P", a0, 0, pRef},
		{"-P", new(big.Int).Neg(a0), 0, c.Neg(pRef)},
		{"2P", new(big.Int).Lsh(a0, 1), 0, c.Double(pRef)},
		{"P+G", new(big.Int).Add(a0, big.NewInt(1)), 0, c.Add(pRef, c.G)},
	}
	if c.Kind == refcurve.WeierstrassFp && c.H.Cmp(big.NewInt(1)) == 0 {
		// a point with a zero coordinate, where the curve has one (x = 0 on P-256, y^2 = b)
		if q, ok := c.LiftX(new(big.Int), false); ok {
			specs = append(specs, spec{"x0", nil, 0, q}, spec{"-x0", nil, 0, c.Neg(q)})
		}
	}
	if g.full {
		for e := 1; e < 8; e++ {
			o := 8
			if e%2 == 0 {
				o = 4
			}
			if e == 4 {
				o = 2
			}
			specs = append(specs, spec{fmt.Sprintf("T%d.%d", o, e), big.NewInt(0), e, pl.tors[e]})
		}
		for e := 1; e < 8; e++ {
			specs = append(specs, spec{fmt.Sprintf("P+T%d", e), a0, e, c.Add(pRef, pl.tors[e])})
		}
		specs = append(specs, spec{"-(P+T1)", new(big.Int).Neg(a0), 7, c.Neg(c.Add(pRef, pl.tors[1]))})
		specs = append(specs, spec{"G+T4", big.NewInt(1), 4, c.Add(c.G, pl.tors[4])})
	}
	for _, s := range specs {
		el, err := mk(s.class, s.a, s.e, s.q)
		if err != nil {
			return nil, err
		}
		pl.sp = append(pl.sp, el)
	}
	return pl, nil
}

// opnd is one operand of a case.
type opnd[P any] struct {
	lib   P
	ref   refcurve.Point
	class string
	rep   string
	a     *big.Int
	e     int
	sub   bool
}

func (o opnd[P]) special() bool { return o.class != "drawn" }
func (o opnd[P]) tag() string   { return o.class + "/" + o.rep }

func (g *G[P, F, S]) fromElem(el elem[P], prj bool) opnd[P] {
	o := opnd[P]{lib: el.aff, ref: el.ref, class: el.class, rep: "aff", a: el.a, e: el.e, sub: el.sub}
	if prj {
		o.lib, o.rep = el.prj, "prj"
	}
	return o
}

// uniform draws a nearly uniform value in [0, n) out of single bits: rapid's integer generators
// are deliberately biased towards small values, which starves the classes at the end of a list.
func uniform(t *rapid.T, label string, n int) int {
	bits := 3
	for 1<<(bits-3) < n {
		bits++
	}
	v := 0
	for i, b := range rapid.SliceOfN(rapid.Bool(), bits, bits).Draw(t, label) {
		if b {
			v |= 1 << i
		}
	}
	return v % n
}

// drawOpnd draws an operand: with probability pSpecial% one of the exceptional classes, else a
// drawn multiple of G (one pool entry, or the sum / difference of two entries computed by the
// library next to the model).
func (g *G[P, F, S]) drawOpnd(t *rapid.T, label string, pSpecial int, subOnly bool) opnd[P] {
	pl := g.pl
	prj := rapid.Bool().Draw(t, label+"/prj")
	if uniform(t, label+"/special", 100) < pSpecial {
		for {
			i := uniform(t, label+"/class", len(pl.sp))
			if subOnly && !pl.sp[i].sub {
				continue
			}
			return g.fromElem(pl.sp[i], prj)
		}
	}
	i := uniform(t, label+"/i", len(pl.rnd))
	o := g.fromElem(pl.rnd[i], prj)
	switch uniform(t, label+"/combine", 3) {
	case 1:
		j := uniform(t, label+"/j", len(pl.rnd))
		if j == i {
			break
		}
		o.lib = o.lib.Add(pl.rnd[j].aff)
		o.ref = g.ref.Add(o.ref, pl.rnd[j].ref)
		o.a = new(big.Int).Mod(new(big.Int).Add(o.a, pl.rnd[j].a), g.ref.N)
		o.rep = "sum"
	case 2:
		j := uniform(t, label+"/j", len(pl.rnd))
		if j == i {
			break
		}
		o.lib = o.lib.Sub(pl.rnd[j].prj)
		o.ref = g.ref.Sub(o.ref, pl.rnd[j].ref)
		o.a = new(big.Int).Mod(new(big.Int).Sub(o.a, pl.rnd[j].a), g.ref.N)
		o.rep = "diff"
	}
	return o
}

// expect compares a library point with the model value.
func (g *G[P, F, S]) expect(t vlib.Fataler, what string, got P, want refcurve.Point) {
	t.Helper()
	r, err := g.toRef(got)
	if err != nil {
		t.Fatalf("%s: %s: cannot read the result: %v (model: %v)", g.name, what, err, want)
	}
	if !g.ref.Equal(r, want) {
		t.Fatalf("%s: %s: library %v, model %v", g.name, what, r, want)
	}
	id := g.ref.IsNeutral(want)
	if got.IsOpIdentity() != id || got.IsZero() != id {
		t.Fatalf("%s: %s: IsOpIdentity=%v IsZero=%v, model neutral=%v (%v)", g.name, what, got.IsOpIdentity(), got.IsZero(), id, want)
	}
}
