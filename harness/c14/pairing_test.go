package c14

// BLS12-381: the quadratic extension field of G2 against refcurve.Fp2, the pairing and the target
// group by algebraic laws (no second implementation of the pairing exists in the harness).

import (
	"fmt"
	"math/big"
	"testing"

	"pgregory.net/rapid"

	"github.com/bronlabs/bron-crypto/pkg/base/curves/pairable/bls12381"
	bls12381Impl "github.com/bronlabs/bron-crypto/pkg/base/curves/pairable/bls12381/impl"
	"github.com/bronlabs/bron-crypto/pkg/base/utils/algebrautils"

	"verif/harness/vlib"
	"verif/harness/vlib/refcurve"
)

// ---- F_p^2 ------------------------------------------------------------------------------------

func fp2Elem(t vlib.Fataler, v refcurve.Fp2) *bls12381.BaseFieldElementG2 {
	be := func(x *big.Int) []byte { return x.FillBytes(make([]byte, 48)) }
	v = v.Reduce()
	e, err := bls12381.NewG2BaseField().FromBytes(append(be(v.A), be(v.B)...))
	if err != nil {
		t.Fatalf("Fp2.FromBytes(%v): %v", v, err)
	}
	return e
}

func fp2Is(t vlib.Fataler, what string, got *bls12381.BaseFieldElementG2, want refcurve.Fp2) {
	t.Helper()
	c := got.ComponentsBytes()
	if len(c) != 2 {
		t.Fatalf("Fp2 %s: %d components", what, len(c))
	}
	g := refcurve.Fp2{A: new(big.Int).SetBytes(c[0]), B: new(big.Int).SetBytes(c[1])}
	if g.A.Cmp(refcurve.BLS12381G1().P) >= 0 || g.B.Cmp(refcurve.BLS12381G1().P) >= 0 || !g.Equal(want) {
		t.Fatalf("Fp2 %s: library %v, model %v", what, g, want.Reduce())
	}
}

func drawFp2(t *rapid.T, label string) (refcurve.Fp2, string) {
	p := refcurve.BLS12381G1().P
	comp := func(l string) (*big.Int, string) {
		switch rapid.IntRange(0, 5).Draw(t, l+"/kind") {
		case 0:
			return new(big.Int), "0"
		case 1:
			return big.NewInt(1), "1"
		case 2:
			return new(big.Int).Sub(p, big.NewInt(1)), "p-1"
		case 3:
			return new(big.Int).SetUint64(rapid.Uint64().Draw(t, l+"/small")), "small"
		}
		v := new(big.Int).SetBytes(rapid.SliceOfN(rapid.Byte(), 56, 56).Draw(t, l+"/b"))
		return v.Mod(v, p), "drawn"
	}
	a, ac := comp(label + ".a")
	b, bc := comp(label + ".b")
	return refcurve.NewFp2(a, b), ac + "+" + bc + "u"
}

func TestFp2Ops(t *testing.T) {
	const test = "Fp2Ops"
	vlib.Check(t, 2500, func(t *rapid.T) {
		av, acl := drawFp2(t, "a")
		bv, bcl := drawFp2(t, "b")
		if rapid.IntRange(0, 9).Draw(t, "same") == 0 {
			bv, bcl = av, acl
		}
		a, b := fp2Elem(t, av), fp2Elem(t, bv)
		w := func(op string) string { return fmt.Sprintf("%s(%v, %v)", op, av, bv) }
		fp2Is(t, w("Add"), a.Add(b), av.Add(bv))
		fp2Is(t, w("Sub"), a.Sub(b), av.Sub(bv))
		fp2Is(t, w("Mul"), a.Mul(b), av.Mul(bv))
		fp2Is(t, w("Square"), a.Square(), av.Square())
		fp2Is(t, w("Double"), a.Double(), av.Add(av))
		fp2Is(t, w("Neg"), a.Neg(), av.Neg())
		inv, err := a.TryInv()
		if wi, ok := av.Inv(); ok != (err == nil) {
			t.Fatalf("Fp2 TryInv(%v): err = %v, invertible in the model: %v", av, err, ok)
		} else if ok {
			fp2Is(t, w("TryInv"), inv, wi)
		}
		q, err := a.TryDiv(b)
		if wi, ok := bv.Inv(); ok != (err == nil) {
			t.Fatalf("Fp2 TryDiv(%v, %v): err = %v, divisor invertible in the model: %v", av, bv, err, ok)
		} else if ok {
			fp2Is(t, w("TryDiv"), q, av.Mul(wi))
		}
		if a.IsZero() != av.IsZero() || a.IsOne() != av.Equal(refcurve.Fp2FromInt64(1, 0)) || a.Equal(b) != av.Equal(bv) {
			t.Fatalf("Fp2 predicates on %v, %v: IsZero %v IsOne %v Equal %v", av, bv, a.IsZero(), a.IsOne(), a.Equal(b))
		}
		// Sqrt (low level): ok iff the model finds a root; the root squares back. Elements of the
		// base field (u-coefficient 0) are the catalogued finding KnownFp2Sqrt and are left out here.
		ok := false
		for i, xv := range []refcurve.Fp2{av, av.Square()} {
			if xv.Reduce().B.Sign() == 0 {
				vlib.Excluded(KnownFp2Sqrt)
				continue
			}
			var r bls12381.BaseFieldElementG2
			r.V.SetOne()
			got := r.V.Sqrt(&fp2Elem(t, xv).V) != 0
			_, want := xv.Sqrt()
			if got != want || (i == 1 && !got) {
				t.Fatalf("Fp2 Sqrt(%v): ok = %v, model %v (case %d)", xv, got, want, i)
			}
			if got {
				fp2Is(t, fmt.Sprintf("Sqrt(%v)^2", xv), r.Square(), xv)
			}
			if i == 0 {
				ok = got
			}
		}
		fp2Is(t, w("left operand afterwards"), a, av)
		fp2Is(t, w("right operand afterwards"), b, bv)
		vlib.Case(test, vlib.Desc(acl, bcl, ok), true, "a="+acl, "sqrt-ok="+fmt.Sprint(ok))
	})
}

// KnownFp2Sqrt: QuadraticFieldExtensionImpl.Sqrt (BLS12-381 F_p^2) reports "no root" for every
// element of the base field F_p inside F_p^2 (u-coefficient 0), 0 and 1 included, although each of
// them is a square in F_p^2 (sqrt(-1) = u). Catalogue id proposed to the lead.
const KnownFp2Sqrt = "C14-fp2-sqrt-base-field-elements"

func TestFp2SqrtKnown(t *testing.T) {
	p := refcurve.BLS12381G1().P
	var failing, fine []string
	for i, a0 := range []int64{0, 1, 2, 4, -1, -3} {
		if !vlib.Mine(i) {
			continue
		}
		v := refcurve.NewFp2(new(big.Int).Mod(big.NewInt(a0), p), new(big.Int))
		e := fp2Elem(t, v)
		var r bls12381.BaseFieldElementG2
		ok := r.V.Sqrt(&e.V) != 0
		if _, mok := v.Sqrt(); !mok {
			t.Fatalf("model: %d has no root in Fp2", a0)
		}
		if ok {
			fp2Is(t, fmt.Sprintf("Sqrt(%d)^2", a0), r.Square(), v)
			fine = append(fine, fmt.Sprint(a0))
		} else {
			failing = append(failing, fmt.Sprint(a0))
		}
		vlib.Case("Fp2SqrtKnown", fmt.Sprint(a0), true, "fails="+fmt.Sprint(!ok))
	}
	if len(failing)+len(fine) > 0 {
		vlib.Known(KnownFp2Sqrt, len(failing) > 0, fmt.Sprintf("Fp2.Sqrt(a + 0u) reports no root for a in %v, finds one for a in %v (every element of Fp is a square in Fp2)", failing, fine))
	}
}

// ---- pairing -----------------------------------------------------------------------------------

type gtE = *bls12381.GtElement

func gtExp(x gtE, k *big.Int) gtE { return algebrautils.ScalarMul(x, beNat(k.Bytes())) }

func pairOrFail(t vlib.Fataler, p *bls12381.PointG1, q *bls12381.PointG2) gtE {
	e, err := p.Pair(q)
	if err != nil {
		t.Fatalf("Pair: %v", err)
	}
	return e
}

// drawPQ draws a G1 and a G2 operand (never the identity) with known discrete logarithms.
func drawPQ(t *rapid.T, l string) (opnd[*bls12381.PointG1], opnd[*bls12381.PointG2]) {
	g1, g2 := newBLSG1(), newBLSG2()
	g1.Prepare(t)
	g2.Prepare(t)
	for {
		p := g1.drawOpnd(t, l+"/p", 35, true)
		q := g2.drawOpnd(t, l+"/q", 35, true)
		if p.a != nil && q.a != nil && p.a.Sign() != 0 && q.a.Sign() != 0 {
			return p, q
		}
	}
}

func TestPairing(t *testing.T) {
	const test = "Pairing"
	r := refcurve.BLS12381G1().N
	g1, g2 := newBLSG1(), newBLSG2()
	base := pairOrFail(t, g1.cv.PrimeSubGroupGenerator(), g2.cv.PrimeSubGroupGenerator())
	one := bls12381.NewGt().One()
	if base.IsOne() || base.Equal(one) || base.IsOpIdentity() {
		t.Fatalf("degenerate: e(G1, G2) = 1")
	}
	if !gtExp(base, r).IsOne() {
		t.Fatalf("e(G1, G2)^r != 1")
	}
	vlib.Check(t, 320, func(t *rapid.T) {
		kind := rapid.SampledFrom([]string{"dlog", "dlog", "bilinear", "additive-left", "additive-right", "negation", "multipair", "multipair", "engine", "identity", "order"}).Draw(t, "kind")
		p, q := drawPQ(t, "0")
		e := pairOrFail(t, p.lib, q.lib)
		desc := vlib.Desc(kind, p.class, q.class)
		// every value of the pairing is determined by e(G1, G2): e([a]G1, [b]G2) = e(G1, G2)^(ab)
		ab := new(big.Int).Mod(new(big.Int).Mul(p.a, q.a), r)
		if want := gtExp(base, ab); !e.Equal(want) || !want.Equal(e) {
			t.Fatalf("e(%s, %s) != e(G1,G2)^(ab), a = %v, b = %v", p.tag(), q.tag(), p.a, q.a)
		}
		if e.IsOne() || e.IsOpIdentity() {
			t.Fatalf("degenerate: e(%s, %s) = 1 for non-identity arguments", p.tag(), q.tag())
		}
		if e2, err := q.lib.Pair(p.lib); err != nil || !e2.Equal(e) {
			t.Fatalf("PointG2.Pair(PointG1) differs from PointG1.Pair(PointG2): %v", err)
		}
		switch kind {
		case "dlog":
		case "order":
			if !gtExp(e, r).IsOne() {
				t.Fatalf("e(%s, %s)^r != 1", p.tag(), q.tag())
			}
		case "bilinear":
			sa, ka, acl, _ := g1.drawLibScalar(t, "a")
			sb, kb, bcl, _ := g2.drawLibScalar(t, "b")
			pa, qb := p.lib.ScalarMul(sa), q.lib.ScalarMul(sb)
			want := gtExp(e, new(big.Int).Mod(new(big.Int).Mul(ka, kb), r))
			if pa.IsOpIdentity() || qb.IsOpIdentity() {
				if _, err := pa.Pair(qb); err == nil {
					// accepted: must then be one
					if x, _ := pa.Pair(qb); !x.IsOne() {
						t.Fatalf("pairing with an identity argument is not one")
					}
				}
				if !want.IsOne() {
					t.Fatalf("e(P,Q)^0 is not one")
				}
			} else if got := pairOrFail(t, pa, qb); !got.Equal(want) {
				t.Fatalf("e([a]P, [b]Q) != e(P,Q)^(ab): P = %s, Q = %s, a = %v (%s), b = %v (%s)", p.tag(), q.tag(), ka, acl, kb, bcl)
			}
			desc = vlib.Desc(kind, p.class, q.class, acl, bcl)
		case "additive-left", "additive-right":
			p2, q2 := drawPQ(t, "1")
			if kind == "additive-left" {
				s := p.lib.Add(p2.lib)
				want := e.Mul(pairOrFail(t, p2.lib, q.lib))
				if s.IsOpIdentity() {
					if !want.IsOne() {
						t.Fatalf("e(P,Q)e(-P,Q) != 1")
					}
				} else if got := pairOrFail(t, s, q.lib); !got.Equal(want) {
					t.Fatalf("e(P+P', Q) != e(P,Q)e(P',Q): P = %s %v, P' = %s %v, Q = %s", p.tag(), p.ref, p2.tag(), p2.ref, q.tag())
				}
				desc = vlib.Desc(kind, p.class, p2.class, q.class)
			} else {
				s := q.lib.Add(q2.lib)
				want := e.Mul(pairOrFail(t, p.lib, q2.lib))
				if s.IsOpIdentity() {
					if !want.IsOne() {
						t.Fatalf("e(P,Q)e(P,-Q) != 1")
					}
				} else if got := pairOrFail(t, p.lib, s); !got.Equal(want) {
					t.Fatalf("e(P, Q+Q') != e(P,Q)e(P,Q'): P = %s, Q = %s, Q' = %s", p.tag(), q.tag(), q2.tag())
				}
				desc = vlib.Desc(kind, p.class, q.class, q2.class)
			}
		case "negation":
			inv := e.Inv()
			if !pairOrFail(t, p.lib.Neg(), q.lib).Equal(inv) || !pairOrFail(t, p.lib, q.lib.Neg()).Equal(inv) {
				t.Fatalf("e(-P,Q) / e(P,-Q) != e(P,Q)^-1 for P = %s, Q = %s", p.tag(), q.tag())
			}
			if !pairOrFail(t, p.lib.Neg(), q.lib.Neg()).Equal(e) {
				t.Fatalf("e(-P,-Q) != e(P,Q)")
			}
			if !e.Mul(inv).IsOne() || !e.Div(e).IsOne() || !inv.Inv().Equal(e) || !e.OpInv().Equal(inv) {
				t.Fatalf("GT inverse laws fail on e(%s, %s)", p.tag(), q.tag())
			}
		case "multipair":
			n := rapid.IntRange(1, 4).Draw(t, "n")
			ps := []*bls12381.PointG1{p.lib}
			qs := []*bls12381.PointG2{q.lib}
			prod, prodInv := e, pairOrFail(t, p.lib, q.lib.Neg())
			samePProd := e
			for i := 1; i < n; i++ {
				pi, qi := drawPQ(t, fmt.Sprint(i))
				if rapid.IntRange(0, 4).Draw(t, fmt.Sprint("repeat", i)) == 0 {
					pi, qi = p, q // a repeated pair
				}
				ps, qs = append(ps, pi.lib), append(qs, qi.lib)
				prod = prod.Mul(pairOrFail(t, pi.lib, qi.lib))
				prodInv = prodInv.Mul(pairOrFail(t, pi.lib, qi.lib.Neg()))
				samePProd = samePProd.Mul(pairOrFail(t, p.lib, qi.lib))
			}
			chk := func(what string, got gtE, err error, want gtE) {
				if err != nil || !got.Equal(want) {
					t.Fatalf("%s over %d pairs is not the product of the single pairings (err %v)", what, n, err)
				}
			}
			got, err := bls12381.NewG1().MultiPair(ps, qs)
			chk("G1.MultiPair", got, err, prod)
			got, err = bls12381.NewG2().MultiPair(qs, ps)
			chk("G2.MultiPair", got, err, prod)
			got, err = bls12381.NewG1().MultiPairAndInvertDuals(ps, qs)
			chk("G1.MultiPairAndInvertDuals", got, err, prodInv)
			got, err = bls12381.NewG2().MultiPairAndInvertDuals(qs, ps)
			chk("G2.MultiPairAndInvertDuals", got, err, prodInv) // e(-P, Q) = e(P, -Q)
			got, err = p.lib.MultiPair(qs...)
			chk("PointG1.MultiPair", got, err, samePProd)
			got, err = p.lib.MultiPairAndInvertDuals(qs...)
			chk("PointG1.MultiPairAndInvertDuals", got, err, samePProd.Inv())
			if _, err := bls12381.NewG1().MultiPair(ps, qs[:n-1]); err == nil {
				t.Fatalf("G1.MultiPair accepts vectors of different lengths")
			}
			desc = vlib.Desc(kind, n, p.class, q.class)
		case "engine":
			// e([a]P, Q) e(-P, [a]Q) = 1 through the product engine, and a wrong equation is not 1
			sa, ka, acl, _ := g1.drawLibScalar(t, "a")
			if ka.Sign() == 0 {
				ka, sa = big.NewInt(1), g1.sf.One()
			}
			ppe := bls12381.NewOptimalAtePPE()
			if err := ppe.Add(p.lib.ScalarMul(sa), q.lib); err != nil {
				t.Fatalf("ppe.Add: %v", err)
			}
			if err := ppe.AddAndInvG1(p.lib, q.lib.ScalarMul(sa)); err != nil {
				t.Fatalf("ppe.AddAndInvG1: %v", err)
			}
			if !ppe.Check() || !ppe.Result().IsOne() {
				t.Fatalf("engine: e([a]P,Q) e(-P,[a]Q) != 1 for P = %s, Q = %s, a = %v", p.tag(), q.tag(), ka)
			}
			ppe.Reset()
			if new(big.Int).Add(ka, big.NewInt(1)).Cmp(r) != 0 {
				_ = ppe.Add(p.lib.ScalarMul(sa), q.lib)
				_ = ppe.AddAndInvG2(p.lib, q.lib.ScalarMul(sa).Add(q.lib)) // e(P,Q)^a e(P,Q)^-(a+1) = e(P,Q)^-1
				if ppe.Check() || !ppe.Result().Equal(e.Inv()) {
					t.Fatalf("engine: a false pairing equation checks / wrong product")
				}
			}
			ppe.Reset()
			if !ppe.Result().IsOne() {
				t.Fatalf("engine: empty product is not one")
			}
			desc = vlib.Desc(kind, p.class, q.class, acl)
		case "identity":
			// the public API refuses identity arguments; if it answered, the answer would have to be
			// one. The low-level engine absorbs them.
			id1, id2 := bls12381.NewG1().OpIdentity(), bls12381.NewG2().OpIdentity()
			for _, c := range []struct {
				a *bls12381.PointG1
				b *bls12381.PointG2
			}{{id1, q.lib}, {p.lib, id2}, {id1, id2}, {p.lib.Sub(p.lib), q.lib}} {
				if x, err := c.a.Pair(c.b); err == nil && !x.IsOne() {
					t.Fatalf("pairing with an identity argument is accepted and is not one")
				}
				var eng bls12381Impl.Engine
				eng.AddPair(&c.a.V, &c.b.V)
				if eng.Result().IsOne() != 1 || !eng.Check() {
					t.Fatalf("impl.Engine: pairing with an identity argument is not one")
				}
				eng.AddPair(&p.lib.V, &q.lib.V)
				var res bls12381.GtElement
				res.V.Set(eng.Result())
				if !res.Equal(e) {
					t.Fatalf("impl.Engine: an identity pair changes the product")
				}
			}
		}
		// target-group laws on the values at hand
		x, y := e, gtExp(base, big.NewInt(int64(rapid.IntRange(1, 1000).Draw(t, "y"))))
		if !x.Mul(y).Equal(y.Mul(x)) || !x.Op(y).Equal(x.Mul(y)) || !x.Square().Equal(x.Mul(x)) || !x.Mul(one).Equal(x) || !x.Mul(y).Div(y).Equal(x) {
			t.Fatalf("GT: Mul/Square/Div/One laws fail")
		}
		if !x.Mul(y).Mul(base).Equal(x.Mul(y.Mul(base))) {
			t.Fatalf("GT: Mul is not associative")
		}
		k1 := big.NewInt(int64(rapid.IntRange(0, 1<<30).Draw(t, "k1")))
		k2 := big.NewInt(int64(rapid.IntRange(0, 1<<30).Draw(t, "k2")))
		if !gtExp(x, k1).Mul(gtExp(x, k2)).Equal(gtExp(x, new(big.Int).Add(k1, k2))) || !gtExp(gtExp(x, k1), k2).Equal(gtExp(x, new(big.Int).Mul(k1, k2))) {
			t.Fatalf("GT: exponent laws fail")
		}
		vlib.Case(test, desc, true, "kind="+kind, "p="+p.class, "q="+q.class)
	})
}
