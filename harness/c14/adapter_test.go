package c14

// Adapters between the library's public curve / field types and the independent math/big model
// vlib/refcurve. Everything below converts through byte strings or big.Ints read out of the
// public API (AffineX/AffineY/Bytes, FromAffine/FromBytes); no library arithmetic is used to
// compute an expected value.

import (
	"fmt"
	"math/big"
	"sync"

	"github.com/bronlabs/bron-crypto/pkg/base"
	"github.com/bronlabs/bron-crypto/pkg/base/algebra/crtp"
	"github.com/bronlabs/bron-crypto/pkg/base/curves/curve25519"
	"github.com/bronlabs/bron-crypto/pkg/base/curves/edwards25519"
	edwards25519Impl "github.com/bronlabs/bron-crypto/pkg/base/curves/edwards25519/impl"
	"github.com/bronlabs/bron-crypto/pkg/base/curves/k256"
	"github.com/bronlabs/bron-crypto/pkg/base/curves/p256"
	"github.com/bronlabs/bron-crypto/pkg/base/curves/pairable/bls12381"
	"github.com/bronlabs/bron-crypto/pkg/base/curves/pasta"
	"github.com/bronlabs/bron-crypto/pkg/base/nt/cardinal"

	"verif/harness/vlib"
	"verif/harness/vlib/refcurve"
)

// beNat is an algebra.UnsignedNumeric backed by a big-endian byte string (any length, leading
// zeros allowed) - the scalar type algebrautils.ScalarMul / MultiScalarMul accept.
type beNat []byte

func (b beNat) BytesBE() []byte { return []byte(b) }

// pfE is the method set shared by all prime-field element wrappers (scalars and F_p base fields).
type pfE[E any] interface {
	Add(E) E
	Sub(E) E
	Mul(E) E
	Neg() E
	Square() E
	Double() E
	TryInv() (E, error)
	TryDiv(E) (E, error)
	EuclideanDiv(E) (E, E, error)
	Op(E) E
	OtherOp(E) E
	OpInv() E
	IsZero() bool
	IsOne() bool
	Equal(E) bool
	IsOdd() bool
	IsEven() bool
	IsNegative() bool
	IsPositive() bool
	IsLessThanOrEqual(E) bool
	Bytes() []byte
	BytesBE() []byte
	Cardinal() cardinal.Cardinal
	Clone() E
	String() string
}

// pfF is the method set shared by all prime-field structures.
type pfF[E any] interface {
	Name() string
	FromBytes([]byte) (E, error)
	FromBytesBE([]byte) (E, error)
	FromWideBytes([]byte) (E, error)
	FromBytesBEReduce([]byte) (E, error)
	FromUint64(uint64) E
	FromCardinal(cardinal.Cardinal) (E, error)
	Zero() E
	One() E
	ElementSize() int
	WideElementSize() int
	BitLen() int
	Order() cardinal.Cardinal
	Characteristic() cardinal.Cardinal
	Compare(x, y E) base.Ordering
}

// libPoint is the method set of every public point type.
type libPoint[P, F, S any] interface {
	crtp.MonoidElement[P] // Structure, Bytes, Clone, HashCode, Equal, String, Op, IsOpIdentity
	Add(P) P
	Sub(P) P
	Neg() P
	Double() P
	OpInv() P
	ScalarMul(S) P
	ScalarOp(S) P
	IsZero() bool
	IsTorsionFree() bool
	AffineX() (F, error)
	AffineY() (F, error)
	ClearCofactor() P
}

// libCurve is the method set of every public curve type.
type libCurve[P, F, S any] interface {
	Name() string
	OpIdentity() P
	Zero() P
	PrimeSubGroupGenerator() P
	FromAffine(x, y F) (P, error)
}

// G adapts one public (curve type, point type) pair.
type G[P libPoint[P, F, S], F any, S pfE[S]] struct {
	name string
	ref  *refcurve.Curve
	full bool // the point type admits points outside the prime-order subgroup
	cv   libCurve[P, F, S]
	sf   pfF[S]
	// model coordinates -> library field elements / library coordinates -> checked model point
	feIn  func(q refcurve.Point) (x, y F, err error)
	feOut func(x, y F) (refcurve.Point, error)
	// optional members
	baseMul, baseOp func(S) P
	msm, msop       func([]S, []P) (P, error)
	raw             func(q refcurve.Point) (P, bool) // construction through the exported impl value V, no subgroup check
	alt             func(p P) (refcurve.Point, bool) // read-out through the exported impl value V

	once sync.Once
	pl   *pool[P]
	perr error
}

func (g *G[P, F, S]) Name() string { return g.name }

// fromRef builds the library point with the model point's affine coordinates.
func (g *G[P, F, S]) fromRef(q refcurve.Point) (P, error) {
	var zero P
	if q.Inf {
		return g.cv.OpIdentity(), nil
	}
	if g.ref.Kind == refcurve.Montgomery && q.X.Sign() == 0 {
		// (0,0), the point of order 2: curve25519.FromAffine maps the abscissa 0 to the identity
		// (an encoding matter, C13), so the point is built from its Edwards form.
		if g.raw != nil {
			if p, ok := g.raw(q); ok {
				return p, nil
			}
		}
		return zero, fmt.Errorf("no constructor for (0,0)")
	}
	x, y, err := g.feIn(q)
	if err != nil {
		return zero, err
	}
	return g.cv.FromAffine(x, y)
}

// toRef reads the affine coordinates out of a library point and checks them against the curve
// equation of the model.
func (g *G[P, F, S]) toRef(p P) (refcurve.Point, error) {
	if p.IsOpIdentity() {
		return g.ref.Neutral(), nil
	}
	x, errX := p.AffineX()
	y, errY := p.AffineY()
	if errX != nil || errY != nil {
		if g.alt != nil {
			if q, ok := g.alt(p); ok {
				vlib.Class("adapter", g.name+"/affine-error-fallback")
				return q, nil
			}
		}
		return refcurve.Point{}, fmt.Errorf("AffineX/AffineY failed on a non-identity point: %v / %v", errX, errY)
	}
	return g.feOut(x, y)
}

// scalar builds the library scalar for the integer k through one of the constructors.
// via: 0 FromBytesBE (k < N), 1 FromWideBytes(k + m*N), 2 FromBytesBEReduce(k + m*N),
// 3 FromUint64 (k < 2^64, else 0), 4 FromCardinal(k + m*N), 5 FromBytes (k < N).
func (g *G[P, F, S]) scalar(k *big.Int, via int, m int64) (S, error) {
	return mkElem(g.sf, g.ref.N, k, via, m)
}

const nVia = 6

func mkElem[E any](f pfF[E], mod, k *big.Int, via int, m int64) (E, error) {
	kr := new(big.Int).Mod(k, mod)
	lift := new(big.Int).Add(kr, new(big.Int).Mul(big.NewInt(m), mod))
	switch via {
	case 1:
		w := f.WideElementSize()
		if (lift.BitLen()+7)/8 > w {
			lift = kr
		}
		return f.FromWideBytes(lift.FillBytes(make([]byte, w)))
	case 2:
		return f.FromBytesBEReduce(lift.Bytes())
	case 3:
		if kr.IsUint64() {
			return f.FromUint64(kr.Uint64()), nil
		}
	case 4:
		return f.FromCardinal(cardinal.NewFromBig(lift))
	case 5:
		return f.FromBytes(kr.FillBytes(make([]byte, f.ElementSize())))
	}
	return f.FromBytesBE(kr.FillBytes(make([]byte, f.ElementSize())))
}

func feInt[E pfE[E]](e E) *big.Int { return new(big.Int).SetBytes(e.Bytes()) }

// minaCurve returns a copy of a Pasta model curve whose generator is the MINA one the library
// documents ("this is for MINA, zcash is using different generator", pasta/impl/ep_params.go);
// refcurve carries the Zcash generator (-1, 2). The ordinate is typed in from the Mina
// specification (decimal), not read from the library.
func minaCurve(c *refcurve.Curve, gy string) *refcurve.Curve {
	y, ok := new(big.Int).SetString(gy, 10)
	if !ok {
		panic("bad constant")
	}
	cc := *c
	g, err := cc.FromAffine(big.NewInt(1), y)
	if err != nil {
		panic("Mina generator not on " + c.Name + ": " + err.Error())
	}
	cc.G = g
	if !cc.IsNeutral(cc.ScalarMul(g, cc.N)) {
		panic("Mina generator of " + c.Name + " is not of order N")
	}
	return &cc
}

var (
	refPallas = sync.OnceValue(func() *refcurve.Curve {
		return minaCurve(refcurve.Pallas(), "12418654782883325593414442427049395787963493412651469444558597405572177144507")
	})
	refVesta = sync.OnceValue(func() *refcurve.Curve {
		return minaCurve(refcurve.Vesta(), "11426906929455361843568202299992114520848200991084027513389447476559454104162")
	})
)

// refX is the curve25519 model with the generator the library designates: (9, p - V) where V is
// the RFC 7748 ordinate. The library obtains its Montgomery coordinates from the Edwards ones with
// the other square root of -486664 than RFC 7748 section 4.1, i.e. through the RFC map composed
// with the negation automorphism (u, v) -> (u, -v); reported to the lead as an observation. All
// group operations are compatible with that automorphism, so the model is used with G negated.
var refX = sync.OnceValue(func() *refcurve.Curve {
	cc := *refcurve.Curve25519()
	cc.G = cc.Neg(cc.G)
	return &cc
})

// fpCodec converts coordinates of curves over a prime field (big-endian wrappers).
func fpCodec[F pfE[F]](bf pfF[F], ref *refcurve.Curve) (func(refcurve.Point) (F, F, error), func(F, F) (refcurve.Point, error)) {
	in := func(q refcurve.Point) (x, y F, err error) {
		xb, yb := ref.AffineBytesBE(q)
		if x, err = bf.FromBytes(xb); err != nil {
			return x, y, err
		}
		y, err = bf.FromBytes(yb)
		return x, y, err
	}
	out := func(x, y F) (refcurve.Point, error) { return ref.FromAffineBytesBE(x.Bytes(), y.Bytes()) }
	return in, out
}

type (
	tK256    = G[*k256.Point, *k256.BaseFieldElement, *k256.Scalar]
	tP256    = G[*p256.Point, *p256.BaseFieldElement, *p256.Scalar]
	tPallas  = G[*pasta.PallasPoint, *pasta.PallasBaseFieldElement, *pasta.PallasScalar]
	tVesta   = G[*pasta.VestaPoint, *pasta.VestaBaseFieldElement, *pasta.VestaScalar]
	tEd      = G[*edwards25519.Point, *edwards25519.BaseFieldElement, *edwards25519.Scalar]
	tEdPrime = G[*edwards25519.PrimeSubGroupPoint, *edwards25519.BaseFieldElement, *edwards25519.Scalar]
	tX       = G[*curve25519.Point, *curve25519.BaseFieldElement, *curve25519.Scalar]
	tXPrime  = G[*curve25519.PrimeSubGroupPoint, *curve25519.BaseFieldElement, *curve25519.Scalar]
	tG1      = G[*bls12381.PointG1, *bls12381.BaseFieldElementG1, *bls12381.Scalar]
	tG2      = G[*bls12381.PointG2, *bls12381.BaseFieldElementG2, *bls12381.Scalar]
)

// ---- the table of groups --------------------------------------------------------------------

// groupT is what the tests need from a group, independent of its type parameters.
type groupT interface {
	Name() string
	Ref() *refcurve.Curve
	Full() bool
	groupTests
}

func (g *G[P, F, S]) Ref() *refcurve.Curve { return g.ref }
func (g *G[P, F, S]) Full() bool           { return g.full }

var (
	groupsOnce sync.Once
	groupList  []groupT
)

func groups() []groupT {
	groupsOnce.Do(func() {
		groupList = []groupT{
			newK256(), newP256(), newPallas(), newVesta(),
			newEd25519(), newEd25519Prime(), newCurve25519(), newCurve25519Prime(),
			newBLSG1(), newBLSG2(),
		}
	})
	return groupList
}

var newK256 = sync.OnceValue(func() *tK256 {
	c := k256.NewCurve()
	ref := refcurve.K256()
	in, out := fpCodec(k256.NewBaseField(), ref)
	return &G[*k256.Point, *k256.BaseFieldElement, *k256.Scalar]{
		name: "k256", ref: ref, cv: c, sf: k256.NewScalarField(), feIn: in, feOut: out,
		baseMul: c.ScalarBaseMul, baseOp: c.ScalarBaseOp, msm: c.MultiScalarMul, msop: c.MultiScalarOp,
	}
})

var newP256 = sync.OnceValue(func() *tP256 {
	c := p256.NewCurve()
	ref := refcurve.P256()
	in, out := fpCodec(p256.NewBaseField(), ref)
	return &G[*p256.Point, *p256.BaseFieldElement, *p256.Scalar]{
		name: "p256", ref: ref, cv: c, sf: p256.NewScalarField(), feIn: in, feOut: out,
		baseMul: c.ScalarBaseMul, baseOp: c.ScalarBaseOp, msm: c.MultiScalarMul, msop: c.MultiScalarOp,
	}
})

var newPallas = sync.OnceValue(func() *tPallas {
	c := pasta.NewPallasCurve()
	ref := refPallas()
	in, out := fpCodec(pasta.NewPallasBaseField(), ref)
	return &G[*pasta.PallasPoint, *pasta.PallasBaseFieldElement, *pasta.PallasScalar]{
		name: "pallas", ref: ref, cv: c, sf: pasta.NewPallasScalarField(), feIn: in, feOut: out,
		baseMul: c.ScalarBaseMul, baseOp: c.ScalarBaseOp, msm: c.MultiScalarMul, msop: c.MultiScalarOp,
	}
})

var newVesta = sync.OnceValue(func() *tVesta {
	c := pasta.NewVestaCurve()
	ref := refVesta()
	in, out := fpCodec(pasta.NewVestaBaseField(), ref)
	return &G[*pasta.VestaPoint, *pasta.VestaBaseFieldElement, *pasta.VestaScalar]{
		name: "vesta", ref: ref, cv: c, sf: pasta.NewVestaScalarField(), feIn: in, feOut: out,
		baseMul: c.ScalarBaseMul, baseOp: c.ScalarBaseOp, msm: c.MultiScalarMul, msop: c.MultiScalarOp,
	}
})

var newEd25519 = sync.OnceValue(func() *tEd {
	c := edwards25519.NewCurve()
	ref := refcurve.Ed25519()
	in, out := fpCodec(edwards25519.NewBaseField(), ref)
	return &G[*edwards25519.Point, *edwards25519.BaseFieldElement, *edwards25519.Scalar]{
		name: "ed25519", ref: ref, full: true, cv: c, sf: edwards25519.NewScalarField(), feIn: in, feOut: out,
		msm: c.MultiScalarMul, msop: c.MultiScalarOp,
	}
})

var newEd25519Prime = sync.OnceValue(func() *tEdPrime {
	c := edwards25519.NewPrimeSubGroup()
	ref := refcurve.Ed25519()
	in, out := fpCodec(edwards25519.NewBaseField(), ref)
	return &G[*edwards25519.PrimeSubGroupPoint, *edwards25519.BaseFieldElement, *edwards25519.Scalar]{
		name: "ed25519prime", ref: ref, cv: c, sf: edwards25519.NewScalarField(), feIn: in, feOut: out,
		baseMul: c.ScalarBaseMul, baseOp: c.ScalarBaseOp, msm: c.MultiScalarMul, msop: c.MultiScalarOp,
	}
})

// edToMont reads the Edwards coordinates out of the shared impl value and maps them to curve25519.
func edToMont(v *edwards25519Impl.Point) (refcurve.Point, bool) {
	var x, y edwards25519Impl.Fp
	if v.ToAffine(&x, &y) != 1 {
		return refcurve.Point{}, false
	}
	e, err := refcurve.Ed25519().FromAffineBytesLE(x.Bytes(), y.Bytes())
	if err != nil {
		return refcurve.Point{}, false
	}
	return refcurve.Curve25519().Neg(refcurve.EdwardsToMontgomery(e)), true // the library's sign convention, see refX
}

func montToEd(q refcurve.Point, v *edwards25519Impl.Point) bool {
	e := refcurve.MontgomeryToEdwards(refcurve.Curve25519().Neg(q)) // the library's sign convention, see refX
	xb, yb := refcurve.Ed25519().AffineBytesLE(e)
	var x, y edwards25519Impl.Fp
	if x.SetBytes(xb) != 1 || y.SetBytes(yb) != 1 {
		return false
	}
	return v.SetAffine(&x, &y) == 1
}

var newCurve25519 = sync.OnceValue(func() *tX {
	c := curve25519.NewCurve()
	ref := refX()
	in, out := fpCodec(curve25519.NewBaseField(), ref)
	return &G[*curve25519.Point, *curve25519.BaseFieldElement, *curve25519.Scalar]{
		name: "curve25519", ref: ref, full: true, cv: c, sf: curve25519.NewScalarField(), feIn: in, feOut: out,
		raw: func(q refcurve.Point) (*curve25519.Point, bool) {
			var p curve25519.Point
			return &p, montToEd(q, &p.V)
		},
		alt: func(p *curve25519.Point) (refcurve.Point, bool) { return edToMont(&p.V) },
	}
})

var newCurve25519Prime = sync.OnceValue(func() *tXPrime {
	c := curve25519.NewPrimeSubGroup()
	ref := refX()
	in, out := fpCodec(curve25519.NewBaseField(), ref)
	return &G[*curve25519.PrimeSubGroupPoint, *curve25519.BaseFieldElement, *curve25519.Scalar]{
		name: "curve25519prime", ref: ref, cv: c, sf: curve25519.NewScalarField(), feIn: in, feOut: out,
		baseMul: c.ScalarBaseMul, baseOp: c.ScalarBaseOp,
		alt: func(p *curve25519.PrimeSubGroupPoint) (refcurve.Point, bool) { return edToMont(&p.V) },
	}
})

var newBLSG1 = sync.OnceValue(func() *tG1 {
	c := bls12381.NewG1()
	ref := refcurve.BLS12381G1()
	bf := bls12381.NewG1BaseField()
	in, out := fpCodec(bf, ref)
	return &G[*bls12381.PointG1, *bls12381.BaseFieldElementG1, *bls12381.Scalar]{
		name: "bls12381g1", ref: ref, cv: c, sf: bls12381.NewScalarField(), feIn: in, feOut: out,
		baseMul: c.ScalarBaseMul, baseOp: c.ScalarBaseOp, msm: c.MultiScalarMul, msop: c.MultiScalarOp,
		raw: func(q refcurve.Point) (*bls12381.PointG1, bool) {
			x, y, err := in(q)
			if err != nil {
				return nil, false
			}
			var p bls12381.PointG1
			return &p, p.V.SetAffine(&x.V, &y.V) == 1
		},
	}
})

func g2In(q refcurve.Point) (x, y *bls12381.BaseFieldElementG2, err error) {
	bf := bls12381.NewG2BaseField()
	be := func(v *big.Int) []byte { return v.FillBytes(make([]byte, 48)) }
	qx, qy := q.XFp2(), q.YFp2()
	if x, err = bf.FromBytes(append(be(qx.A), be(qx.B)...)); err != nil {
		return nil, nil, err
	}
	y, err = bf.FromBytes(append(be(qy.A), be(qy.B)...))
	return x, y, err
}

func g2Out(x, y *bls12381.BaseFieldElementG2) (refcurve.Point, error) {
	xc, yc := x.ComponentsBytes(), y.ComponentsBytes()
	if len(xc) != 2 || len(yc) != 2 {
		return refcurve.Point{}, fmt.Errorf("Fp2 element with %d/%d components", len(xc), len(yc))
	}
	return refcurve.BLS12381G2().FromAffineBytesBEFp2(xc[0], xc[1], yc[0], yc[1])
}

var newBLSG2 = sync.OnceValue(func() *tG2 {
	c := bls12381.NewG2()
	return &G[*bls12381.PointG2, *bls12381.BaseFieldElementG2, *bls12381.Scalar]{
		name: "bls12381g2", ref: refcurve.BLS12381G2(), cv: c, sf: bls12381.NewScalarField(), feIn: g2In, feOut: g2Out,
		baseMul: c.ScalarBaseMul, baseOp: c.ScalarBaseOp, msm: c.MultiScalarMul, msop: c.MultiScalarOp,
		raw: func(q refcurve.Point) (*bls12381.PointG2, bool) {
			x, y, err := g2In(q)
			if err != nil {
				return nil, false
			}
			var p bls12381.PointG2
			return &p, p.V.SetAffine(&x.V, &y.V) == 1
		},
	}
})
