package c14

// Second opinions from the Go standard library (P-256: crypto/elliptic, X25519: crypto/ecdh) and
// the library's own crypto/elliptic adapters (k256, pallas, vesta) against the model.

import (
	"bytes"
	"crypto/ecdh"
	"crypto/elliptic"
	"fmt"
	"math/big"
	"testing"

	"pgregory.net/rapid"

	"github.com/bronlabs/bron-crypto/pkg/base/curves/curve25519"
	"github.com/bronlabs/bron-crypto/pkg/base/curves/k256"
	"github.com/bronlabs/bron-crypto/pkg/base/curves/p256"
	"github.com/bronlabs/bron-crypto/pkg/base/curves/pasta"

	"verif/harness/vlib"
	"verif/harness/vlib/refcurve"
)

// xy returns the crypto/elliptic convention of a model point: (0,0) for the point at infinity.
func xy(q refcurve.Point) (*big.Int, *big.Int) {
	if q.Inf {
		return new(big.Int), new(big.Int)
	}
	return new(big.Int).Set(q.X), new(big.Int).Set(q.Y)
}

func sameXY(c *refcurve.Curve, x, y *big.Int, want refcurve.Point) bool {
	wx, wy := xy(want)
	return x.Cmp(wx) == 0 && y.Cmp(wy) == 0
}

// TestP256VsStdlib: the library's P-256 against crypto/elliptic's P-256 (nistec) - a third
// implementation next to the math/big model.
func TestP256VsStdlib(t *testing.T) {
	const test = "P256VsStdlib"
	g := newP256()
	std := elliptic.P256()
	vlib.Check(t, 1500, func(t *rapid.T) {
		g.Prepare(t)
		a := g.drawOpnd(t, "a", 40, false)
		op := rapid.SampledFrom([]string{"add", "add", "double", "scalarmul", "basemul"}).Draw(t, "op")
		var got *p256.Point
		var sx, sy *big.Int
		desc := vlib.Desc(op, a.class)
		nt := a.special() && op != "basemul"
		ax, ay := xy(a.ref)
		switch op {
		case "add":
			b := g.drawOpnd(t, "b", 40, false)
			bx, by := xy(b.ref)
			got = a.lib.Add(b.lib)
			//nolint:staticcheck // the deprecated generic API is the point of the comparison
			sx, sy = std.Add(ax, ay, bx, by)
			desc = vlib.Desc(op, a.class, b.class)
			nt = nt || b.special()
		case "double":
			got = a.lib.Double()
			sx, sy = std.Double(ax, ay)
		case "scalarmul":
			s, kr, cl, _ := g.drawLibScalar(t, "k")
			got = a.lib.ScalarMul(s)
			sx, sy = std.ScalarMult(ax, ay, kr.Bytes())
			desc = vlib.Desc(op, a.class, cl)
			nt = nt || cl != "drawn"
		case "basemul":
			s, kr, cl, _ := g.drawLibScalar(t, "k")
			got = p256.NewCurve().ScalarBaseMul(s)
			sx, sy = std.ScalarBaseMult(kr.Bytes())
			desc = vlib.Desc(op, cl)
			nt = true // the generator is an exceptional operand class
		}
		r, err := g.toRef(got)
		if err != nil {
			t.Fatalf("p256 %s: %v", op, err)
		}
		if !sameXY(g.ref, sx, sy, r) {
			t.Fatalf("p256 %s on %s = %v: library %v, crypto/elliptic (%x, %x)", op, a.tag(), a.ref, r, sx, sy)
		}
		vlib.Case(test, desc, nt, "op="+op, "a="+a.class)
	})
}

// TestX25519VsStdlib: FromClampedBytes(k) * FromCompressed(u), abscissa, against crypto/ecdh and
// the model's RFC 7748 ladder, for u in the prime-order subgroup (a public key; the library reduces
// the clamped scalar modulo the subgroup order, which is X25519 exactly on that subgroup).
func TestX25519VsStdlib(t *testing.T) {
	const test = "X25519VsStdlib"
	vlib.Check(t, 1200, func(t *rapid.T) {
		kb := rapid.SliceOfN(rapid.Byte(), 32, 32).Draw(t, "k")
		kcl := rapid.SampledFrom([]string{"drawn", "drawn", "zeros", "ones", "low"}).Draw(t, "kclass")
		switch kcl {
		case "zeros":
			kb = make([]byte, 32) // clamps to 2^254
		case "ones":
			kb = bytes.Repeat([]byte{0xff}, 32)
		case "low":
			kb = append([]byte{kb[0]}, make([]byte, 31)...)
		}
		ucl := rapid.SampledFrom([]string{"pubkey", "pubkey", "base", "base-multiple-small"}).Draw(t, "uclass")
		var ub []byte
		switch ucl {
		case "base":
			ub = append([]byte{9}, make([]byte, 31)...)
		case "base-multiple-small":
			m := rapid.IntRange(2, 50).Draw(t, "m")
			q := refcurve.Curve25519().ScalarMul(refcurve.Curve25519().G, big.NewInt(int64(m)))
			ub = refcurve.EncodeU(q.X)
		default:
			priv, err := ecdh.X25519().NewPrivateKey(rapid.SliceOfN(rapid.Byte(), 32, 32).Draw(t, "sk"))
			if err != nil {
				t.Fatalf("ecdh: %v", err)
			}
			ub = priv.PublicKey().Bytes()
		}
		// standard library
		priv, err := ecdh.X25519().NewPrivateKey(kb)
		if err != nil {
			t.Fatalf("ecdh.NewPrivateKey: %v", err)
		}
		pub, err := ecdh.X25519().NewPublicKey(ub)
		if err != nil {
			t.Fatalf("ecdh.NewPublicKey: %v", err)
		}
		want, err := priv.ECDH(pub)
		if err != nil {
			t.Fatalf("ecdh.ECDH: %v", err)
		}
		model, err := refcurve.X25519(kb, ub)
		if err != nil || !bytes.Equal(model, want) {
			t.Fatalf("harness: model X25519 %x (%v) differs from crypto/ecdh %x", model, err, want)
		}
		// library
		s, err := curve25519.NewScalarField().FromClampedBytes(kb)
		if err != nil {
			t.Fatalf("FromClampedBytes(%x): %v", kb, err)
		}
		pt, err := curve25519.NewCurve().FromCompressed(ub)
		if err != nil {
			t.Fatalf("curve25519.FromCompressed(%x): %v", ub, err)
		}
		res := pt.ScalarMul(s)
		x, err := res.AffineX()
		if err != nil {
			t.Fatalf("AffineX: %v", err)
		}
		got := x.Bytes()
		for i, j := 0, len(got)-1; i < j; i, j = i+1, j-1 {
			got[i], got[j] = got[j], got[i]
		}
		if !bytes.Equal(got, want) {
			t.Fatalf("X25519(k = %x, u = %x): library %x, crypto/ecdh %x", kb, ub, got, want)
		}
		if c := res.ToCompressed(); !bytes.Equal(c, want) {
			t.Fatalf("X25519(k = %x, u = %x): ToCompressed %x, crypto/ecdh %x", kb, ub, c, want)
		}
		// the prime-subgroup type gives the same
		pp, err := curve25519.NewPrimeSubGroup().FromCompressed(ub)
		if err != nil {
			t.Fatalf("PrimeSubGroup.FromCompressed(%x) refuses a prime-order point: %v", ub, err)
		}
		if c := pp.ScalarMul(s).ToCompressed(); !bytes.Equal(c, want) {
			t.Fatalf("X25519 through the prime-subgroup type: %x, want %x", c, want)
		}
		vlib.Case(test, vlib.Desc(kcl, ucl), kcl != "drawn" || ucl != "pubkey", "k="+kcl, "u="+ucl)
	})
}

// KnownPastaParams: pasta ToElliptic().Params() carries the Zcash generator (-1, 2) while
// ToElliptic().ScalarBaseMult and Curve.Generator() use the MINA generator (1, ...).
const KnownPastaParams = "C14-pasta-elliptic-params-generator"

func TestPastaEllipticParamsKnown(t *testing.T) {
	var bad, good []string
	for i, c := range []struct {
		name string
		ec   elliptic.Curve
	}{{"pallas", pasta.NewPallasCurve().ToElliptic()}, {"vesta", pasta.NewVestaCurve().ToElliptic()}} {
		if !vlib.Mine(i) {
			continue
		}
		x, y := c.ec.ScalarBaseMult([]byte{1})
		pr := c.ec.Params()
		if x.Cmp(pr.Gx) != 0 || y.Cmp(pr.Gy) != 0 {
			bad = append(bad, fmt.Sprintf("%s: ScalarBaseMult(1) = (%x, %x), Params().G = (%x, %x)", c.name, x, y, pr.Gx, pr.Gy))
		} else {
			good = append(good, c.name)
		}
		vlib.Case("PastaEllipticParamsKnown", c.name, true, "curve="+c.name)
	}
	if len(bad)+len(good) > 0 {
		vlib.Known(KnownPastaParams, len(bad) > 0, fmt.Sprintf("ToElliptic(): generator of Params() differs from the one ScalarBaseMult uses: %v; consistent: %v", bad, good))
	}
}

// TestEllipticAdapters: Curve.ToElliptic() of k256 / pallas / vesta (crypto/elliptic interface on
// top of the library's arithmetic) against the model, with the (0,0)-is-infinity convention.
func TestEllipticAdapters(t *testing.T) {
	const test = "EllipticAdapters"
	type ad struct {
		name string
		ec   elliptic.Curve
		g    groupT
		pick func(t *rapid.T, l string) (refcurve.Point, string)
	}
	k, pa, ve := newK256(), newPallas(), newVesta()
	mk := func(name string, ec elliptic.Curve, g groupT, draw func(t *rapid.T, l string) (refcurve.Point, string)) ad {
		return ad{name, ec, g, draw}
	}
	ads := []ad{
		mk("k256", k256.NewCurve().ToElliptic(), k, func(t *rapid.T, l string) (refcurve.Point, string) {
			o := k.drawOpnd(t, l, 40, false)
			return o.ref, o.class
		}),
		mk("pallas", pasta.NewPallasCurve().ToElliptic(), pa, func(t *rapid.T, l string) (refcurve.Point, string) {
			o := pa.drawOpnd(t, l, 40, false)
			return o.ref, o.class
		}),
		mk("vesta", pasta.NewVestaCurve().ToElliptic(), ve, func(t *rapid.T, l string) (refcurve.Point, string) {
			o := ve.drawOpnd(t, l, 40, false)
			return o.ref, o.class
		}),
	}
	vlib.Check(t, 1500, func(t *rapid.T) {
		a := ads[rapid.IntRange(0, len(ads)-1).Draw(t, "curve")]
		a.g.Prepare(t)
		c := a.g.Ref()
		p, pcl := a.pick(t, "p")
		px, py := xy(p)
		op := rapid.SampledFrom([]string{"add", "double", "scalarmult", "basemult", "oncurve", "params"}).Draw(t, "op")
		desc := vlib.Desc(a.name, op, pcl)
		fail := func(what string, x, y *big.Int, want refcurve.Point) {
			t.Fatalf("%s.ToElliptic().%s on %s = %v: (%x, %x), model %v", a.name, what, pcl, p, x, y, want)
		}
		switch op {
		case "add":
			q, qcl := a.pick(t, "q")
			qx, qy := xy(q)
			if x, y := a.ec.Add(px, py, qx, qy); !sameXY(c, x, y, c.Add(p, q)) {
				fail("Add with "+qcl+" "+q.String(), x, y, c.Add(p, q))
			}
			desc = vlib.Desc(a.name, op, pcl, qcl)
		case "double":
			if x, y := a.ec.Double(px, py); !sameXY(c, x, y, c.Double(p)) {
				fail("Double", x, y, c.Double(p))
			}
		case "scalarmult", "basemult":
			kk, kcl := drawScalarInt(t, "k", c.N)
			kb := kk.Bytes()
			if rapid.Bool().Draw(t, "wide") {
				// up to the 64 bytes FromWideBytes takes; reduced modulo the order
				kk = new(big.Int).Add(kk, new(big.Int).Mul(c.N, new(big.Int).SetBytes(rapid.SliceOfN(rapid.Byte(), 1, 30).Draw(t, "m"))))
				kb = kk.FillBytes(make([]byte, 64))
				kcl += "+wide"
			}
			if op == "scalarmult" {
				if x, y := a.ec.ScalarMult(px, py, kb); !sameXY(c, x, y, c.ScalarMul(p, new(big.Int).Mod(kk, c.N))) {
					fail(fmt.Sprintf("ScalarMult(%x)", kb), x, y, c.ScalarMul(p, kk))
				}
			} else {
				if x, y := a.ec.ScalarBaseMult(kb); !sameXY(c, x, y, c.ScalarMul(c.G, new(big.Int).Mod(kk, c.N))) {
					fail(fmt.Sprintf("ScalarBaseMult(%x)", kb), x, y, c.ScalarMul(c.G, kk))
				}
			}
			desc = vlib.Desc(a.name, op, pcl, kcl)
		case "oncurve":
			// a point of the model is on the curve; (x, y+1) is not; (0,0) is documented as not on the curve
			if !p.Inf && !a.ec.IsOnCurve(px, py) {
				t.Fatalf("%s.IsOnCurve(%v) = false", a.name, p)
			}
			if !p.Inf {
				y1 := new(big.Int).Add(py, big.NewInt(1))
				y1.Mod(y1, c.P)
				if a.ec.IsOnCurve(px, y1) {
					t.Fatalf("%s.IsOnCurve(x, y+1) = true for %v", a.name, p)
				}
			}
			if a.ec.IsOnCurve(new(big.Int), new(big.Int)) {
				t.Fatalf("%s.IsOnCurve(0,0) = true", a.name)
			}
		case "params":
			pr := a.ec.Params()
			if pr.P.Cmp(c.P) != 0 || pr.N.Cmp(c.N) != 0 || pr.B.Cmp(c.B) != 0 || pr.BitSize != c.P.BitLen() {
				t.Fatalf("%s.Params() = %+v differs from the specification", a.name, pr)
			}
			// Params().Gx/Gy must be the generator ScalarBaseMult multiplies; on pallas / vesta it is
			// not (catalogued finding KnownPastaParams), so the comparison is made for k256 only.
			if a.name == "k256" {
				if pr.Gx.Cmp(c.G.X) != 0 || pr.Gy.Cmp(c.G.Y) != 0 {
					t.Fatalf("%s.Params() generator (%x, %x) is not the curve generator %v", a.name, pr.Gx, pr.Gy, c.G)
				}
			} else {
				vlib.Excluded(KnownPastaParams)
			}
		}
		vlib.Case(test, desc, true, "curve="+a.name, "op="+op, "p="+pcl)
	})
}
