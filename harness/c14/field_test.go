package c14

// Scalar and base fields against math/big.

import (
	"fmt"
	"math/big"
	"sync"
	"testing"

	"pgregory.net/rapid"

	"github.com/bronlabs/bron-crypto/pkg/base"
	fieldsImpl "github.com/bronlabs/bron-crypto/pkg/base/algebra/impl/fields"
	"github.com/bronlabs/bron-crypto/pkg/base/curves/edwards25519"
	edwards25519Impl "github.com/bronlabs/bron-crypto/pkg/base/curves/edwards25519/impl"
	"github.com/bronlabs/bron-crypto/pkg/base/curves/k256"
	k256Impl "github.com/bronlabs/bron-crypto/pkg/base/curves/k256/impl"
	"github.com/bronlabs/bron-crypto/pkg/base/curves/p256"
	p256Impl "github.com/bronlabs/bron-crypto/pkg/base/curves/p256/impl"
	"github.com/bronlabs/bron-crypto/pkg/base/curves/pairable/bls12381"
	bls12381Impl "github.com/bronlabs/bron-crypto/pkg/base/curves/pairable/bls12381/impl"
	"github.com/bronlabs/bron-crypto/pkg/base/curves/pasta"
	pastaImpl "github.com/bronlabs/bron-crypto/pkg/base/curves/pasta/impl"
	"github.com/bronlabs/bron-crypto/pkg/base/nt/cardinal"

	"verif/harness/vlib"
	"verif/harness/vlib/refcurve"
)

// pfEL: a prime-field element wrapper that also exposes its low-level value (Sqrt and Pow exist
// only there; the public wrappers have no Sqrt / Exp methods).
type pfEL[E, FP any] interface {
	pfE[E]
	Fp() FP
}

// PF adapts one prime field.
type PF[E pfEL[E, FP], FP fieldsImpl.PrimeFieldElementPtr[FP, F], F any] struct {
	name string
	f    pfF[E]
	p    *big.Int
}

type fieldT interface {
	Name() string
	Modulus() *big.Int
	NClasses() int
	ClassName(i int) string
	EnumPair(t *testing.T, i, j int)
	Case(t *rapid.T)
	Sanity(t *testing.T)
}

func (f *PF[E, FP, F]) Name() string      { return f.name }
func (f *PF[E, FP, F]) Modulus() *big.Int { return f.p }

var (
	fieldsOnce sync.Once
	fieldList  []fieldT
)

func primeFields() []fieldT {
	fieldsOnce.Do(func() {
		blsP := refcurve.BLS12381G1().P
		fieldList = []fieldT{
			&PF[*k256.BaseFieldElement, *k256Impl.Fp, k256Impl.Fp]{"k256.Fp", k256.NewBaseField(), refcurve.K256().P},
			&PF[*k256.Scalar, *k256Impl.Fq, k256Impl.Fq]{"k256.Fq", k256.NewScalarField(), refcurve.K256().N},
			&PF[*p256.BaseFieldElement, *p256Impl.Fp, p256Impl.Fp]{"p256.Fp", p256.NewBaseField(), refcurve.P256().P},
			&PF[*p256.Scalar, *p256Impl.Fq, p256Impl.Fq]{"p256.Fq", p256.NewScalarField(), refcurve.P256().N},
			&PF[*edwards25519.BaseFieldElement, *edwards25519Impl.Fp, edwards25519Impl.Fp]{"25519.Fp", edwards25519.NewBaseField(), refcurve.Ed25519().P},
			&PF[*edwards25519.Scalar, *edwards25519Impl.Fq, edwards25519Impl.Fq]{"25519.Fq", edwards25519.NewScalarField(), refcurve.Ed25519().N},
			&PF[*pasta.FpFieldElement, *pastaImpl.Fp, pastaImpl.Fp]{"pasta.Fp", pasta.NewPallasBaseField(), refcurve.Pallas().P},
			&PF[*pasta.FqFieldElement, *pastaImpl.Fq, pastaImpl.Fq]{"pasta.Fq", pasta.NewVestaBaseField(), refcurve.Vesta().P},
			&PF[*bls12381.BaseFieldElementG1, *bls12381Impl.Fp, bls12381Impl.Fp]{"bls12381.Fp", bls12381.NewG1BaseField(), blsP},
			&PF[*bls12381.Scalar, *bls12381Impl.Fq, bls12381Impl.Fq]{"bls12381.Fq", bls12381.NewScalarField(), refcurve.BLS12381G1().N},
		}
	})
	return fieldList
}

func (f *PF[E, FP, F]) elem(t vlib.Fataler, v *big.Int) E {
	e, err := f.f.FromBytes(v.FillBytes(make([]byte, f.f.ElementSize())))
	if err != nil {
		t.Fatalf("%s: FromBytes(%v): %v", f.name, v, err)
	}
	return e
}

func (f *PF[E, FP, F]) is(t vlib.Fataler, what string, got E, want *big.Int) {
	t.Helper()
	g := feInt(got)
	if g.Cmp(want) != 0 {
		t.Fatalf("%s: %s: library %v, math/big %v", f.name, what, g, want)
	}
	if len(got.Bytes()) != f.f.ElementSize() {
		t.Fatalf("%s: %s: Bytes() has length %d, ElementSize %d", f.name, what, len(got.Bytes()), f.f.ElementSize())
	}
}

func (f *PF[E, FP, F]) mod(v *big.Int) *big.Int { return v.Mod(v, f.p) }

var fieldClassNames = []string{"0", "1", "2", "p-1", "p-2", "(p-1)/2", "(p+1)/2", "2^64-1", "2^64", "2^128", "2^(bits-1)", "2^32+977", "3", "p-3"}

func (f *PF[E, FP, F]) NClasses() int          { return len(fieldClassNames) }
func (f *PF[E, FP, F]) ClassName(i int) string { return fieldClassNames[i] }

func (f *PF[E, FP, F]) classValue(i int) *big.Int {
	one := big.NewInt(1)
	v := new(big.Int)
	switch fieldClassNames[i] {
	case "0":
	case "1", "2", "3":
		v.SetString(fieldClassNames[i], 10)
	case "p-1":
		v.Sub(f.p, one)
	case "p-2":
		v.Sub(f.p, big.NewInt(2))
	case "p-3":
		v.Sub(f.p, big.NewInt(3))
	case "(p-1)/2":
		v.Sub(f.p, one).Rsh(v, 1)
	case "(p+1)/2":
		v.Add(f.p, one).Rsh(v, 1)
	case "2^64-1":
		v.Lsh(one, 64).Sub(v, one)
	case "2^64":
		v.Lsh(one, 64)
	case "2^128":
		v.Lsh(one, 128)
	case "2^(bits-1)":
		v.Lsh(one, uint(f.p.BitLen()-1))
	case "2^32+977":
		v.SetUint64(1<<32 + 977)
	}
	return v
}

// binary checks every two-operand operation on (a, b) and every one-operand operation on a.
func (f *PF[E, FP, F]) binary(t vlib.Fataler, av, bv *big.Int) {
	p := f.p
	a, b := f.elem(t, av), f.elem(t, bv)
	w := func(op string) string { return fmt.Sprintf("%s(%v, %v)", op, av, bv) }
	f.is(t, w("Add"), a.Add(b), f.mod(new(big.Int).Add(av, bv)))
	f.is(t, w("Op"), a.Op(b), f.mod(new(big.Int).Add(av, bv)))
	f.is(t, w("Sub"), a.Sub(b), f.mod(new(big.Int).Sub(av, bv)))
	f.is(t, w("Mul"), a.Mul(b), f.mod(new(big.Int).Mul(av, bv)))
	f.is(t, w("OtherOp"), a.OtherOp(b), f.mod(new(big.Int).Mul(av, bv)))
	f.is(t, w("Square"), a.Square(), f.mod(new(big.Int).Mul(av, av)))
	f.is(t, w("Double"), a.Double(), f.mod(new(big.Int).Lsh(av, 1)))
	f.is(t, w("Neg"), a.Neg(), f.mod(new(big.Int).Neg(av)))
	f.is(t, w("OpInv"), a.OpInv(), f.mod(new(big.Int).Neg(av)))
	f.is(t, w("Clone"), a.Clone(), av)
	inv, err := a.TryInv()
	if av.Sign() == 0 {
		if err == nil {
			t.Fatalf("%s: TryInv(0) returned %v and no error", f.name, feInt(inv))
		}
	} else {
		if err != nil {
			t.Fatalf("%s: TryInv(%v): %v", f.name, av, err)
		}
		f.is(t, w("TryInv"), inv, new(big.Int).ModInverse(av, p))
	}
	q, err := a.TryDiv(b)
	q2, rem, err2 := a.EuclideanDiv(b)
	if bv.Sign() == 0 {
		if err == nil || err2 == nil {
			t.Fatalf("%s: division of %v by 0 returned no error (%v, %v)", f.name, av, err, err2)
		}
	} else {
		if err != nil || err2 != nil {
			t.Fatalf("%s: TryDiv / EuclideanDiv(%v, %v): %v / %v", f.name, av, bv, err, err2)
		}
		want := f.mod(new(big.Int).Mul(av, new(big.Int).ModInverse(bv, p)))
		f.is(t, w("TryDiv"), q, want)
		f.is(t, w("EuclideanDiv quotient"), q2, want)
		f.is(t, w("EuclideanDiv remainder"), rem, new(big.Int))
	}
	// predicates
	if a.IsZero() != (av.Sign() == 0) || a.IsOne() != (av.Cmp(big.NewInt(1)) == 0) {
		t.Fatalf("%s: IsZero/IsOne(%v) = %v/%v", f.name, av, a.IsZero(), a.IsOne())
	}
	if a.IsOdd() != (av.Bit(0) == 1) || a.IsEven() == a.IsOdd() {
		t.Fatalf("%s: IsOdd(%v) = %v, IsEven = %v", f.name, av, a.IsOdd(), a.IsEven())
	}
	// sign convention: only what every convention implies - 0 is not negative, of a != 0 and -a
	// exactly one is negative, IsPositive is the complement
	if n, nn := a.IsNegative(), a.Neg().IsNegative(); a.IsPositive() == n || (av.Sign() == 0 && n) || (av.Sign() != 0 && n == nn) {
		t.Fatalf("%s: IsNegative(%v) = %v, IsNegative(-v) = %v, IsPositive = %v", f.name, av, n, nn, a.IsPositive())
	}
	cmp := av.Cmp(bv)
	if a.Equal(b) != (cmp == 0) || b.Equal(a) != (cmp == 0) {
		t.Fatalf("%s: Equal(%v, %v) = %v", f.name, av, bv, a.Equal(b))
	}
	if a.IsLessThanOrEqual(b) != (cmp <= 0) {
		t.Fatalf("%s: IsLessThanOrEqual(%v, %v) = %v", f.name, av, bv, a.IsLessThanOrEqual(b))
	}
	if got := f.f.Compare(a, b); got != base.Ordering(cmp) {
		t.Fatalf("%s: Compare(%v, %v) = %v, want %d", f.name, av, bv, got, cmp)
	}
	if c := a.Cardinal().Big(); c.Cmp(av) != 0 {
		t.Fatalf("%s: Cardinal(%v) = %v", f.name, av, c)
	}
	if a.String() != av.String() {
		t.Fatalf("%s: String(%v) = %q", f.name, av, a.String())
	}
	if string(a.Bytes()) != string(a.BytesBE()) {
		t.Fatalf("%s: Bytes and BytesBE differ on %v", f.name, av)
	}
	// operands unchanged
	f.is(t, w("left operand afterwards"), a, av)
	f.is(t, w("right operand afterwards"), b, bv)
}

// sqrt: the low-level Sqrt reports ok iff the input is 0 or a quadratic residue, and then the
// returned value squares back; which root is returned is not asserted.
func (f *PF[E, FP, F]) sqrt(t vlib.Fataler, av *big.Int) (residue bool) {
	a := f.elem(t, av)
	r := f.f.FromUint64(7) // a value that must not survive as a "root"
	ok := r.Fp().Sqrt(a.Fp()) != 0
	want := av.Sign() == 0 || big.Jacobi(av, f.p) == 1
	if ok != want {
		t.Fatalf("%s: Sqrt(%v) ok = %v, Jacobi symbol %d", f.name, av, ok, big.Jacobi(av, f.p))
	}
	if ok {
		f.is(t, fmt.Sprintf("Sqrt(%v)^2", av), r.Square(), av)
	}
	f.is(t, "Sqrt argument afterwards", a, av)
	// in place: out and in the same element
	a2 := f.elem(t, av)
	if ok2 := a2.Fp().Sqrt(a2.Fp()) != 0; ok2 != want {
		t.Fatalf("%s: in-place Sqrt(%v) ok = %v, want %v", f.name, av, ok2, want)
	} else if ok2 {
		f.is(t, fmt.Sprintf("in-place Sqrt(%v)^2", av), a2.Square(), av)
	}
	return want
}

func (f *PF[E, FP, F]) pow(t vlib.Fataler, av *big.Int, e *big.Int, lead int) {
	a := f.elem(t, av)
	le := e.Bytes()
	for i, j := 0, len(le)-1; i < j; i, j = i+1, j-1 {
		le[i], le[j] = le[j], le[i]
	}
	le = append(le, make([]byte, lead)...) // most significant zero bytes
	r := f.f.Zero()
	fieldsImpl.Pow[FP, F]((*F)(r.Fp()), (*F)(a.Fp()), le)
	f.is(t, fmt.Sprintf("Pow(%v, %v)", av, e), r, new(big.Int).Exp(av, e, f.p))
	f.is(t, "Pow base afterwards", a, av)
}

func (f *PF[E, FP, F]) EnumPair(t *testing.T, i, j int) {
	const test = "FieldEnumPairs"
	av, bv := f.classValue(i), f.classValue(j)
	f.binary(t, av, bv)
	if i == j {
		f.sqrt(t, av)
		f.pow(t, av, bv, 0)
		f.pow(t, av, new(big.Int).Sub(f.p, big.NewInt(1)), 1)
		f.pow(t, av, new(big.Int).Sub(f.p, big.NewInt(2)), 0)
	}
	vlib.Case(test, vlib.Desc(f.name, fieldClassNames[i], fieldClassNames[j]), true, "field="+f.name)
}

func TestFieldEnumPairs(t *testing.T) {
	n := 0
	for _, f := range primeFields() {
		for i := 0; i < f.NClasses(); i++ {
			for j := 0; j < f.NClasses(); j++ {
				if vlib.Mine(n) {
					f.EnumPair(t, i, j)
				}
				n++
			}
		}
	}
	vlib.Exhaustive("C14 field operations (Add Sub Mul Square Double Neg Inv Div EuclideanDiv, predicates, Compare, Cardinal; Sqrt and Pow on the diagonal) on all ordered pairs of 14 boundary classes {0,1,2,3,p-1,p-2,p-3,(p+-1)/2,2^64-1,2^64,2^128,2^(bits-1),2^32+977} of the 10 scalar / base prime fields")
}

// Sanity pins the conventions the adapters rely on: big-endian Bytes, FromUint64, Order.
func (f *PF[E, FP, F]) Sanity(t *testing.T) {
	one := f.f.FromUint64(1)
	b := one.Bytes()
	if len(b) != f.f.ElementSize() || b[len(b)-1] != 1 {
		t.Fatalf("%s: FromUint64(1).Bytes() = %x: not big-endian fixed width", f.name, b)
	}
	if !f.f.One().Equal(one) || !f.f.Zero().IsZero() || !one.IsOne() {
		t.Fatalf("%s: One/Zero inconsistent", f.name)
	}
	if o := f.f.Order().Big(); o.Cmp(f.p) != 0 {
		t.Fatalf("%s: Order() = %v, specification %v", f.name, o, f.p)
	}
	if o := f.f.Characteristic().Big(); o.Cmp(f.p) != 0 {
		t.Fatalf("%s: Characteristic() = %v, specification %v", f.name, o, f.p)
	}
	if f.f.BitLen() != f.p.BitLen() {
		t.Fatalf("%s: BitLen() = %d, modulus has %d bits", f.name, f.f.BitLen(), f.p.BitLen())
	}
	if f.f.ElementSize() != (f.p.BitLen()+7)/8 {
		t.Fatalf("%s: ElementSize() = %d", f.name, f.f.ElementSize())
	}
}

func TestFieldSanity(t *testing.T) {
	for i, f := range primeFields() {
		if vlib.Mine(i) {
			f.Sanity(t)
			vlib.Case("FieldSanity", f.Name(), true, "field="+f.Name())
		}
	}
}

func drawFieldValue(t *rapid.T, label string, f interface {
	NClasses() int
	Modulus() *big.Int
}, classValue func(int) *big.Int) (*big.Int, string) {
	p := f.Modulus()
	switch rapid.IntRange(0, 9).Draw(t, label+"/kind") {
	case 0, 1:
		i := rapid.IntRange(0, f.NClasses()-1).Draw(t, label+"/class")
		return classValue(i), fieldClassNames[i]
	case 2:
		return new(big.Int).SetUint64(rapid.Uint64().Draw(t, label+"/small")), "small"
	case 3:
		// near the modulus
		d := int64(rapid.IntRange(1, 1<<16).Draw(t, label+"/d"))
		return new(big.Int).Sub(p, big.NewInt(d)), "near-p"
	case 4:
		// one limb boundary pattern: 2^(64k) +- 1
		k := rapid.IntRange(1, (p.BitLen()-1)/64).Draw(t, label+"/limb")
		v := new(big.Int).Lsh(big.NewInt(1), uint(64*k))
		if rapid.Bool().Draw(t, label+"/minus") {
			v.Sub(v, big.NewInt(1))
		} else {
			v.Add(v, big.NewInt(1))
		}
		return v.Mod(v, p), "limb-boundary"
	}
	n := (p.BitLen() + 7) / 8
	v := new(big.Int).SetBytes(rapid.SliceOfN(rapid.Byte(), n+8, n+8).Draw(t, label+"/bytes"))
	return v.Mod(v, p), "drawn"
}

func (f *PF[E, FP, F]) Case(t *rapid.T) {
	const test = "FieldOps"
	av, acl := drawFieldValue(t, "a", f, f.classValue)
	op := rapid.SampledFrom([]string{"binary", "binary", "binary", "sqrt", "sqrt-nonresidue", "sqrt-square", "pow", "wide", "reduce", "cardinal", "uint64", "chain"}).Draw(t, "op")
	detail := ""
	switch op {
	case "binary":
		bv, bcl := drawFieldValue(t, "b", f, f.classValue)
		if rapid.IntRange(0, 9).Draw(t, "same") == 0 {
			bv, bcl = av, acl
		}
		f.binary(t, av, bv)
		detail = bcl
	case "sqrt":
		detail = fmt.Sprint("residue=", f.sqrt(t, av))
	case "sqrt-nonresidue":
		// walk to the next non-residue at or after a
		v := new(big.Int).Set(av)
		for v.Sign() == 0 || big.Jacobi(v, f.p) != -1 {
			v.Add(v, big.NewInt(1)).Mod(v, f.p)
		}
		if f.sqrt(t, v) {
			t.Fatalf("harness: %v is a residue", v)
		}
	case "sqrt-square":
		v := f.mod(new(big.Int).Mul(av, av))
		if !f.sqrt(t, v) {
			t.Fatalf("harness: %v^2 is not a residue", av)
		}
	case "pow":
		var e *big.Int
		ecl := rapid.SampledFrom([]string{"0", "1", "2", "p-1", "p-2", "(p-1)/2", "drawn", "wide"}).Draw(t, "exp")
		switch ecl {
		case "0", "1", "2":
			e, _ = new(big.Int).SetString(ecl, 10)
		case "p-1":
			e = new(big.Int).Sub(f.p, big.NewInt(1))
		case "p-2":
			e = new(big.Int).Sub(f.p, big.NewInt(2))
		case "(p-1)/2":
			e = new(big.Int).Rsh(new(big.Int).Sub(f.p, big.NewInt(1)), 1)
		case "drawn":
			e = new(big.Int).SetBytes(rapid.SliceOfN(rapid.Byte(), 1, 40).Draw(t, "e"))
		case "wide":
			e = new(big.Int).SetBytes(rapid.SliceOfN(rapid.Byte(), 41, 80).Draw(t, "e"))
		}
		f.pow(t, av, e, rapid.IntRange(0, 2).Draw(t, "lead"))
		detail = ecl
	case "wide", "reduce", "cardinal":
		// an integer of up to WideElementSize bytes (more for FromBytesBEReduce), in several shapes
		w := f.f.WideElementSize()
		maxLen := w
		if op == "reduce" {
			maxLen = w + 40
		}
		shape := rapid.SampledFrom([]string{"drawn", "drawn", "all-ff", "multiple-of-p", "p*2^k+a", "short", "a", "p", "2^(8w)-1"}).Draw(t, "shape")
		var v *big.Int
		switch shape {
		case "drawn":
			v = new(big.Int).SetBytes(rapid.SliceOfN(rapid.Byte(), maxLen, maxLen).Draw(t, "w"))
		case "all-ff":
			n := rapid.IntRange(1, maxLen).Draw(t, "n")
			v = new(big.Int).Sub(new(big.Int).Lsh(big.NewInt(1), uint(8*n)), big.NewInt(1))
		case "multiple-of-p":
			m := new(big.Int).SetBytes(rapid.SliceOfN(rapid.Byte(), 1, w-f.f.ElementSize()-1).Draw(t, "m"))
			v = m.Mul(m, f.p)
		case "p*2^k+a":
			k := rapid.IntRange(0, 8*(w-f.f.ElementSize())-2).Draw(t, "k")
			v = new(big.Int).Add(new(big.Int).Lsh(f.p, uint(k)), av)
		case "short":
			v = new(big.Int).SetBytes(rapid.SliceOfN(rapid.Byte(), 0, f.f.ElementSize()).Draw(t, "w"))
		case "a":
			v = new(big.Int).Set(av)
		case "p":
			v = new(big.Int).Set(f.p)
		case "2^(8w)-1":
			v = new(big.Int).Sub(new(big.Int).Lsh(big.NewInt(1), uint(8*w)), big.NewInt(1))
		}
		want := new(big.Int).Mod(v, f.p)
		var got E
		var err error
		var in string
		switch op {
		case "wide":
			// exact width or minimal width, both are "up to WideElementSize bytes"
			b := v.Bytes()
			if rapid.Bool().Draw(t, "pad") {
				b = v.FillBytes(make([]byte, w))
			}
			in = fmt.Sprintf("FromWideBytes(%x)", b)
			got, err = f.f.FromWideBytes(b)
		case "reduce":
			b := append(make([]byte, rapid.IntRange(0, 3).Draw(t, "lead")), v.Bytes()...)
			in = fmt.Sprintf("FromBytesBEReduce(%x)", b)
			got, err = f.f.FromBytesBEReduce(b)
		case "cardinal":
			in = fmt.Sprintf("FromCardinal(%v)", v)
			got, err = f.f.FromCardinal(cardinal.NewFromBig(v))
		}
		if err != nil {
			t.Fatalf("%s: %s: %v", f.name, in, err)
		}
		f.is(t, in, got, want)
		detail = shape
	case "uint64":
		u := rapid.Uint64().Draw(t, "u")
		f.is(t, fmt.Sprintf("FromUint64(%d)", u), f.f.FromUint64(u), f.mod(new(big.Int).SetUint64(u)))
	case "chain":
		// a drawn arithmetic expression evaluated on both sides; results feed the next step
		acc, accv := f.elem(t, av), new(big.Int).Set(av)
		n := rapid.IntRange(2, 8).Draw(t, "len")
		for s := 0; s < n; s++ {
			bv, _ := drawFieldValue(t, fmt.Sprintf("b%d", s), f, f.classValue)
			b := f.elem(t, bv)
			switch rapid.IntRange(0, 6).Draw(t, fmt.Sprintf("op%d", s)) {
			case 0:
				acc, accv = acc.Add(b), f.mod(new(big.Int).Add(accv, bv))
			case 1:
				acc, accv = acc.Sub(b), f.mod(new(big.Int).Sub(accv, bv))
			case 2:
				acc, accv = acc.Mul(b), f.mod(new(big.Int).Mul(accv, bv))
			case 3:
				acc, accv = acc.Square(), f.mod(new(big.Int).Mul(accv, accv))
			case 4:
				acc, accv = acc.Neg(), f.mod(new(big.Int).Neg(accv))
			case 5:
				if accv.Sign() != 0 {
					i, err := acc.TryInv()
					if err != nil {
						t.Fatalf("%s: TryInv(%v): %v", f.name, accv, err)
					}
					acc, accv = i, new(big.Int).ModInverse(accv, f.p)
				}
			case 6:
				acc, accv = b.Sub(acc), f.mod(new(big.Int).Sub(bv, accv))
			}
			f.is(t, fmt.Sprintf("chain step %d", s), acc, accv)
		}
	}
	nt := acl != "drawn" || op != "binary"
	vlib.Case(test, vlib.Desc(f.name, op, acl, detail), nt, "field="+f.name, "op="+op, "a="+acl)
}

func TestFieldOps(t *testing.T) {
	vlib.Check(t, 16000, func(t *rapid.T) {
		fs := primeFields()
		fs[uniform(t, "field", len(fs))].Case(t)
	})
}
