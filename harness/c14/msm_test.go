package c14

import (
	"fmt"
	"math/big"
	"strings"
	"testing"

	"pgregory.net/rapid"

	"github.com/bronlabs/bron-crypto/pkg/base/utils/algebrautils"

	"verif/harness/vlib"
	"verif/harness/vlib/refcurve"
)

// Length 0: Curve.MultiScalarMul / MultiScalarOp return the identity (fixed finding
// C14-msm-empty-panics, commit 0c462cf; TestMSMEmpty is its regression test). The generic
// algebrautils.MultiScalarMul is NOT called with length 0: it cannot know the monoid without a
// point and panics by design (documented by the lead, not a finding).

// MSMCase: vectors of length 0, 1, 2, 3, 7, 8, 9, 17, 64, 127..512 (7/8 is the naive/bucket switch of the
// implementation) with repeated points, identity points, zero / one / N-1 scalars.
// Oracle: n <= 3 (and a drawn sixth of the longer ones): refcurve.MultiScalarMul directly;
// longer vectors: every pool point is [a]G + [e]T8 with (a, e) known by construction, so the model
// value is [sum k_i a_i mod N]G + [sum k_i e_i mod 8]T8 - one reference scalar multiplication.
func (g *G[P, F, S]) MSMCase(t *rapid.T) {
	const test = "MultiScalarMul"
	c := g.ref
	// the bucket method's window width is bits.Len(n): the tail of long vectors crosses the
	// widths 8 -> 9 -> 10 (n = 255 / 256 / 257, 511 / 512), where window digits outgrow a byte
	n := rapid.SampledFrom([]int{0, 1, 1, 2, 2, 3, 7, 8, 9, 17, 17, 64, 64, 127, 128, 255, 256, 257, 300, 512}).Draw(t, "n")
	methods := []string{"autils", "autilsNat"}
	if g.msm != nil {
		methods = []string{"MultiScalarMul", "MultiScalarMul", "MultiScalarOp", "autils", "autilsNat"}
	}
	method := rapid.SampledFrom(methods).Draw(t, "method")
	if n == 0 && (method == "autils" || method == "autilsNat") {
		if g.msm == nil {
			n = 1
		} else {
			method = "MultiScalarMul" // the generic routine is not defined on empty input, see above
		}
	}
	shape := rapid.SampledFrom([]string{"mixed", "mixed", "mixed", "all-same-point", "all-zero-scalars", "one-nonzero", "pairs-cancel", "all-identity"}).Draw(t, "shape")
	direct := n <= 3 || (n <= 17 && rapid.IntRange(0, 5).Draw(t, "direct") == 0)

	pts := make([]opnd[P], n)
	ks := make([]*big.Int, n) // the integers the scalars stand for (reduced for library scalars)
	libS := make([]S, n)
	nat := make([]beNat, n)
	hasSpecial, zeros, repeats := false, 0, 0
	seen := map[string]bool{}
	for i := 0; i < n; i++ {
		var o opnd[P]
		for {
			o = g.drawOpnd(t, fmt.Sprintf("p%d", i), 35, false)
			if direct || o.a != nil { // the shortcut needs the discrete logarithm
				break
			}
		}
		switch shape {
		case "all-same-point":
			if i > 0 {
				o = pts[0]
			}
		case "all-identity":
			o = g.fromElem(g.pl.sp[0], i%2 == 1)
		case "pairs-cancel":
			if i%2 == 1 {
				o = pts[i-1]
			}
		}
		pts[i] = o
		hasSpecial = hasSpecial || o.special()
		key := o.ref.String()
		if seen[key] {
			repeats++
		}
		seen[key] = true

		var k *big.Int
		if method == "autilsNat" {
			k, _ = drawScalarInt(t, fmt.Sprintf("k%d", i), c.N)
			if rapid.IntRange(0, 9).Draw(t, fmt.Sprintf("wide%d", i)) == 0 {
				k = new(big.Int).Lsh(k, uint(rapid.IntRange(1, 70).Draw(t, fmt.Sprintf("sh%d", i))))
			}
		} else {
			libS[i], k, _, _ = g.drawLibScalar(t, fmt.Sprintf("k%d", i))
		}
		switch shape {
		case "all-zero-scalars":
			k = new(big.Int)
		case "one-nonzero":
			if i != n/2 {
				k = new(big.Int)
			}
		case "pairs-cancel":
			if i%2 == 1 {
				k = new(big.Int).Mod(new(big.Int).Neg(ks[i-1]), c.N) // [k]P + [N-k]P
				if !pts[i].sub {
					// outside the prime-order subgroup [N]P is not neutral: no cancellation claimed, the model decides
					_ = k
				}
			}
		}
		if shape != "mixed" && method != "autilsNat" {
			s, err := g.scalar(k, 0, 0)
			if err != nil {
				t.Fatalf("%s: FromBytesBE(%v): %v", g.name, k, err)
			}
			libS[i] = s
		}
		ks[i] = k
		if k.Sign() == 0 {
			zeros++
		}
		if method == "autilsNat" {
			lead := 0
			if i%3 == 1 {
				lead = 2 // different byte lengths inside one vector
			}
			nat[i] = beNat(append(make([]byte, lead), k.Bytes()...))
		}
	}

	libP := make([]P, n)
	refP := make([]refcurve.Point, n)
	for i := range pts {
		libP[i], refP[i] = pts[i].lib, pts[i].ref
	}
	var got P
	var err error
	switch method {
	case "MultiScalarMul":
		got, err = g.msm(libS, libP)
	case "MultiScalarOp":
		got, err = g.msop(libS, libP)
	case "autils":
		got = algebrautils.MultiScalarMul(libS, libP)
	case "autilsNat":
		got = algebrautils.MultiScalarMul(nat, libP)
	}
	if err != nil {
		t.Fatalf("%s: %s on %d points: %v", g.name, method, n, err)
	}

	var want refcurve.Point
	if direct {
		want = c.MultiScalarMul(refP, ks)
	}
	known := true
	for _, o := range pts {
		known = known && o.a != nil
	}
	if !direct || (n > 3 && known) {
		sa, se := new(big.Int), new(big.Int)
		for i := range pts {
			sa.Add(sa, new(big.Int).Mul(ks[i], pts[i].a))
			se.Add(se, new(big.Int).Mul(ks[i], big.NewInt(int64(pts[i].e))))
		}
		sa.Mod(sa, c.N)
		short := c.Add(c.ScalarMul(c.G, sa), g.pl.tors[int(new(big.Int).Mod(se, big.NewInt(8)).Int64())])
		if direct && !c.Equal(short, want) {
			t.Fatalf("harness: model shortcut %v differs from the direct model value %v", short, want)
		}
		want = short
	}
	classes := make([]string, 0, n)
	for i, o := range pts {
		if i < 4 {
			classes = append(classes, o.class)
		}
	}
	g.expect(t, fmt.Sprintf("%s, n=%d, shape %s, first points %v, scalars %v", method, n, shape, classes, ks), got, want)
	for i := range pts {
		if i < 3 || i == n-1 {
			g.expect(t, fmt.Sprintf("point %d after %s", i, method), libP[i], refP[i])
		}
	}
	oracle := "shortcut"
	if direct {
		oracle = "direct"
	}
	vlib.Case(test, vlib.Desc(g.name, method, n, shape, strings.Join(classes, ","), zeros > 0, repeats > 0), true,
		"curve="+g.name, "method="+method, "n="+fmt.Sprint(n), "shape="+shape, "oracle="+oracle,
		"zeros="+fmt.Sprint(zeros > 0), "repeats="+fmt.Sprint(repeats > 0), "special="+fmt.Sprint(hasSpecial), "neutral="+fmt.Sprint(c.IsNeutral(want)))
	vlib.Sample("msm", map[string]any{"curve": g.name, "method": method, "n": n, "shape": shape, "result": want.String()})
}

func TestMultiScalarMul(t *testing.T) {
	vlib.Check(t, 2400, func(t *rapid.T) { drawGroup(t).MSMCase(t) })
}

// MSMEmpty: regression test of the fixed finding C14-msm-empty-panics. Empty vectors give the
// identity without an error (nil and empty slices alike); mismatched lengths are an error.
func (g *G[P, F, S]) MSMEmpty(t *testing.T) {
	if g.msm == nil {
		return
	}
	for name, f := range map[string]func() (P, error){
		"MultiScalarMul(empty, empty)": func() (P, error) { return g.msm([]S{}, []P{}) },
		"MultiScalarMul(nil, nil)":     func() (P, error) { return g.msm(nil, nil) },
		"MultiScalarOp(empty, empty)":  func() (P, error) { return g.msop([]S{}, []P{}) },
		"MultiScalarOp(nil, nil)":      func() (P, error) { return g.msop(nil, nil) },
	} {
		var p P
		var err error
		vlib.NoPanic(t, g.name+"."+name, func() { p, err = f() })
		if err != nil {
			t.Fatalf("%s: %s: %v", g.name, name, err)
		}
		g.expect(t, name, p, g.ref.Neutral())
	}
	one := []S{g.sf.One()}
	var err error
	vlib.NoPanic(t, g.name+".MultiScalarMul(1 scalar, 0 points)", func() { _, err = g.msm(one, []P{}) })
	if err == nil {
		t.Fatalf("%s: MultiScalarMul with 1 scalar and 0 points returned no error", g.name)
	}
	vlib.NoPanic(t, g.name+".MultiScalarMul(0 scalars, 1 point)", func() { _, err = g.msm([]S{}, []P{g.cv.PrimeSubGroupGenerator()}) })
	if err == nil {
		t.Fatalf("%s: MultiScalarMul with 0 scalars and 1 point returned no error", g.name)
	}
}

func TestMSMEmpty(t *testing.T) {
	const test = "MSMEmpty"
	for i, g := range groups() {
		if !vlib.Mine(i) {
			continue
		}
		g.Prepare(t)
		g.MSMEmpty(t)
		vlib.Case(test, vlib.Desc(g.Name(), "n=0"), true, "curve="+g.Name())
	}
}

// OutsideSubgroup: BLS12-381 only. The public constructors refuse points of E(F_p) \ G1 and
// E'(F_p^2) \ G2 (C13); the point TYPE can hold them (exported impl value V), and IsTorsionFree -
// on which those constructors rely - must tell them apart. The group law itself is also checked
// on them (the complete formulas are valid on the whole curve).
func (g *G[P, F, S]) OutsideSubgroup(t *testing.T) {
	const test = "OutsideSubgroupBLS"
	if g.raw == nil || g.ref.H.Cmp(big.NewInt(1)) == 0 || g.ref.Kind == refcurve.Montgomery {
		return
	}
	c := g.ref
	start := uint64(0)
	for n := 0; n < 6; n++ {
		q, ok := c.PointOutsideSubgroup(start)
		if !ok {
			t.Fatalf("model: no point outside the subgroup of %s", c.Name)
		}
		if q.X.IsUint64() {
			start = q.X.Uint64() + 1
		} else {
			start += 7
		}
		variants := map[string]refcurve.Point{"Q": q, "-Q": c.Neg(q), "[N]Q": c.ScalarMul(q, c.N), "Q+G": c.Add(q, c.G), "[H]Q": c.ScalarMul(q, c.H)}
		for name, v := range variants {
			if c.IsNeutral(v) {
				continue
			}
			p, ok := g.raw(v)
			if !ok {
				t.Fatalf("%s: V.SetAffine refuses the curve point %v", g.name, v)
			}
			inSub := c.IsInPrimeSubgroup(v)
			if tf := p.IsTorsionFree(); tf != inSub {
				t.Fatalf("%s: IsTorsionFree(%s = %v) = %v, model %v", g.name, name, v, tf, inSub)
			}
			if _, err := g.fromRef(v); (err == nil) != inSub {
				t.Fatalf("%s: FromAffine(%s = %v) error = %v, in subgroup: %v", g.name, name, v, err, inSub)
			}
			g.expect(t, "read-out "+name, p, v)
			g.expect(t, "Double "+name, p.Double(), c.Double(v))
			g.expect(t, "Add(G) "+name, p.Add(g.cv.PrimeSubGroupGenerator()), c.Add(v, c.G))
			g.expect(t, "Sub(self) "+name, p.Sub(p), c.Neutral())
			three, _ := g.scalar(big.NewInt(3), 0, 0)
			g.expect(t, "ScalarMul(3) "+name, p.ScalarMul(three), c.ScalarMul(v, big.NewInt(3)))
			vlib.Case(test, vlib.Desc(g.name, name, n), true, "curve="+g.name, "variant="+name, "insub="+fmt.Sprint(inSub))
		}
	}
}

func TestOutsideSubgroupBLS(t *testing.T) {
	for i, g := range groups() {
		if vlib.Mine(i) {
			g.Prepare(t)
			g.OutsideSubgroup(t)
		}
	}
}
