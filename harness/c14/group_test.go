package c14

// Group law of the public point types against the math/big model: enumerated exceptional pairs
// and triples, drawn straight-line programs, scalar multiplication, multi-scalar multiplication.

import (
	"fmt"
	"math/big"
	"strings"
	"testing"

	"pgregory.net/rapid"

	"github.com/bronlabs/bron-crypto/pkg/base/utils/algebrautils"

	"verif/harness/vlib"
	"verif/harness/vlib/refcurve"
)

// groupTests are the type-independent entry points of the generic test bodies.
type groupTests interface {
	Prepare(t vlib.Fataler)
	NSpecials() int
	SpecialClass(i int) string
	EnumUnary(t *testing.T, i int, prj bool)
	EnumPair(t *testing.T, i, j int, prjA, prjB bool)
	EnumTriple(t *testing.T, i, j, k int, reps int)
	DrawnOps(t *rapid.T)
	ScalarMulCase(t *rapid.T)
	ScalarLaws(t *rapid.T)
	MSMCase(t *rapid.T)
	MSMEmpty(t *testing.T)
	OutsideSubgroup(t *testing.T)
}

func (g *G[P, F, S]) NSpecials() int            { return len(g.pl.sp) }
func (g *G[P, F, S]) SpecialClass(i int) string { return g.pl.sp[i].class }

func drawGroup(t *rapid.T) groupT {
	gs := groups()
	g := gs[uniform(t, "group", len(gs))]
	g.Prepare(t)
	return g
}

// ---- enumerations ------------------------------------------------------------------------------

const (
	testUnary  = "GroupEnumUnary"
	testPair   = "GroupEnumPairs"
	testTriple = "GroupEnumTriples"
)

func (g *G[P, F, S]) EnumUnary(t *testing.T, i int, prj bool) {
	a := g.fromElem(g.pl.sp[i], prj)
	c := g.ref
	what := func(op string) string { return op + "(" + a.tag() + " = " + a.ref.String() + ")" }
	g.expect(t, what("read-out"), a.lib, a.ref)
	g.expect(t, what("Neg"), a.lib.Neg(), c.Neg(a.ref))
	g.expect(t, what("OpInv"), a.lib.OpInv(), c.Neg(a.ref))
	g.expect(t, what("Double"), a.lib.Double(), c.Double(a.ref))
	g.expect(t, what("Clone"), a.lib.Clone(), a.ref)
	g.expect(t, what("Add(self)"), a.lib.Add(a.lib), c.Double(a.ref))
	g.expect(t, what("Sub(self)"), a.lib.Sub(a.lib), c.Neutral())
	g.expect(t, what("Add(Neg)"), a.lib.Add(a.lib.Neg()), c.Neutral())
	g.expect(t, what("Neg.Neg"), a.lib.Neg().Neg(), a.ref)
	if !a.lib.Equal(a.lib) || !a.lib.Equal(a.lib.Clone()) {
		t.Fatalf("%s: %s: Equal is not reflexive", g.name, a.tag())
	}
	wantNegEq := c.Equal(a.ref, c.Neg(a.ref))
	if a.lib.Equal(a.lib.Neg()) != wantNegEq {
		t.Fatalf("%s: %s: Equal(P, -P) = %v, model %v", g.name, what("Equal-neg"), !wantNegEq, wantNegEq)
	}
	if tf := a.lib.IsTorsionFree(); tf != a.sub {
		t.Fatalf("%s: %s: IsTorsionFree = %v, in the prime-order subgroup by construction: %v", g.name, what("IsTorsionFree"), tf, a.sub)
	}
	// the operand itself must not have been modified by any of the calls
	g.expect(t, what("operand afterwards"), a.lib, a.ref)
	vlib.Case(testUnary, vlib.Desc(g.name, a.class, a.rep), true, "curve="+g.name, "class="+a.class, "rep="+a.rep)
}

func (g *G[P, F, S]) EnumPair(t *testing.T, i, j int, prjA, prjB bool) {
	a, b := g.fromElem(g.pl.sp[i], prjA), g.fromElem(g.pl.sp[j], prjB)
	c := g.ref
	what := func(op string) string {
		return fmt.Sprintf("%s(%s = %v, %s = %v)", op, a.tag(), a.ref, b.tag(), b.ref)
	}
	sum := c.Add(a.ref, b.ref)
	g.expect(t, what("Add"), a.lib.Add(b.lib), sum)
	g.expect(t, what("Op"), a.lib.Op(b.lib), sum)
	g.expect(t, what("Sub"), a.lib.Sub(b.lib), c.Sub(a.ref, b.ref))
	eq := c.Equal(a.ref, b.ref)
	if a.lib.Equal(b.lib) != eq || b.lib.Equal(a.lib) != eq {
		t.Fatalf("%s: %s: library %v / %v, model %v", g.name, what("Equal"), a.lib.Equal(b.lib), b.lib.Equal(a.lib), eq)
	}
	// a + b - b = a, with the intermediate value in whatever representation Add produced
	g.expect(t, what("Add.Sub"), a.lib.Add(b.lib).Sub(b.lib), a.ref)
	g.expect(t, what("left operand afterwards"), a.lib, a.ref)
	g.expect(t, what("right operand afterwards"), b.lib, b.ref)
	vlib.Case(testPair, vlib.Desc(g.name, a.class, a.rep, b.class, b.rep), true,
		"curve="+g.name, "eq="+fmt.Sprint(eq), "sum-neutral="+fmt.Sprint(c.IsNeutral(sum)))
}

func (g *G[P, F, S]) EnumTriple(t *testing.T, i, j, k int, reps int) {
	a := g.fromElem(g.pl.sp[i], reps&1 != 0)
	b := g.fromElem(g.pl.sp[j], reps&2 != 0)
	d := g.fromElem(g.pl.sp[k], reps&4 != 0)
	c := g.ref
	what := func(op string) string {
		return fmt.Sprintf("%s with a=%s %v, b=%s %v, c=%s %v", op, a.tag(), a.ref, b.tag(), b.ref, d.tag(), d.ref)
	}
	want := c.Add(c.Add(a.ref, b.ref), d.ref)
	l := a.lib.Add(b.lib).Add(d.lib)
	r := a.lib.Add(b.lib.Add(d.lib))
	g.expect(t, what("(a+b)+c"), l, want)
	g.expect(t, what("a+(b+c)"), r, want)
	if !l.Equal(r) {
		t.Fatalf("%s: %s: Equal is false on two representations of %v", g.name, what("(a+b)+c == a+(b+c)"), want)
	}
	g.expect(t, what("(a-b)+c"), a.lib.Sub(b.lib).Add(d.lib), c.Add(c.Sub(a.ref, b.ref), d.ref))
	vlib.Case(testTriple, vlib.Desc(g.name, a.class, b.class, d.class, reps), true, "curve="+g.name, "neutral="+fmt.Sprint(c.IsNeutral(want)))
}

func TestGroupEnumUnary(t *testing.T) {
	n := 0
	for _, g := range groups() {
		g.Prepare(t)
		for i := 0; i < g.NSpecials(); i++ {
			for _, prj := range []bool{false, true} {
				if vlib.Mine(n) {
					g.EnumUnary(t, i, prj)
				}
				n++
			}
		}
	}
	vlib.Exhaustive("C14 unary operations (Neg, Double, OpInv, Clone, self-add, self-sub, IsTorsionFree, read-out) on every exceptional element class x {affine, projective} representation of every public point type")
}

func TestGroupEnumPairs(t *testing.T) {
	n := 0
	for _, g := range groups() {
		g.Prepare(t)
		for i := 0; i < g.NSpecials(); i++ {
			for j := 0; j < g.NSpecials(); j++ {
				for r := 0; r < 4; r++ {
					if vlib.Mine(n) {
						g.EnumPair(t, i, j, r&1 != 0, r&2 != 0)
					}
					n++
				}
			}
		}
	}
	vlib.Exhaustive("C14 Add/Op/Sub/Equal on all ordered pairs of exceptional element classes (identity, G, -G, 2G, 3G, -2G, P, -P, 2P, P+G, x=0 points, the 7 small-order points and 9 mixed-order points on the full 25519 types) x 4 representation combinations, every public point type")
}

func TestGroupEnumTriples(t *testing.T) {
	n := 0
	for _, g := range groups() {
		g.Prepare(t)
		ns := g.NSpecials()
		// the full-curve types have 28 classes; keep the triple enumeration to those whose index is
		// not one of the seven redundant mixed-order classes P+T2..P+T7 (pairs cover them).
		keep := make([]int, 0, ns)
		for i := 0; i < ns; i++ {
			cl := g.SpecialClass(i)
			if strings.HasPrefix(cl, "P+T") && cl != "P+T1" && cl != "P+T4" {
				continue
			}
			keep = append(keep, i)
		}
		for _, i := range keep {
			for _, j := range keep {
				for _, k := range keep {
					if vlib.Mine(n) {
						g.EnumTriple(t, i, j, k, (i+3*j+5*k)%8)
					}
					n++
				}
			}
		}
	}
	vlib.Exhaustive("C14 associativity (a+b)+c = a+(b+c) = model, (a-b)+c on all ordered triples of exceptional element classes, every public point type")
}

// ---- drawn straight-line programs ----------------------------------------------------------------

func (g *G[P, F, S]) DrawnOps(t *rapid.T) {
	const test = "GroupOpsDrawn"
	c := g.ref
	x := g.drawOpnd(t, "x", 30, false)
	acc, accRef := x.lib, x.ref
	nt := x.special()
	classes := []string{x.class}
	var ops []string
	steps := rapid.IntRange(1, 5).Draw(t, "steps")
	for s := 0; s < steps; s++ {
		op := rapid.SampledFrom([]string{"add", "add", "sub", "radd", "rsub", "neg", "double", "addSelf", "subSelf", "addNeg", "op", "opinv", "eq"}).Draw(t, "op")
		ops = append(ops, op)
		before := accRef
		switch op {
		case "add", "sub", "radd", "rsub", "op", "eq":
			y := g.drawOpnd(t, fmt.Sprintf("y%d", s), 30, false)
			nt = nt || y.special()
			classes = append(classes, y.class)
			switch op {
			case "add":
				acc, accRef = acc.Add(y.lib), c.Add(accRef, y.ref)
			case "op":
				acc, accRef = acc.Op(y.lib), c.Add(accRef, y.ref)
			case "sub":
				acc, accRef = acc.Sub(y.lib), c.Sub(accRef, y.ref)
			case "radd":
				acc, accRef = y.lib.Add(acc), c.Add(y.ref, accRef)
			case "rsub":
				acc, accRef = y.lib.Sub(acc), c.Sub(y.ref, accRef)
			case "eq":
				want := c.Equal(accRef, y.ref)
				if acc.Equal(y.lib) != want || y.lib.Equal(acc) != want {
					t.Fatalf("%s: Equal(%v, %s = %v): library %v, model %v (ops %v)", g.name, accRef, y.tag(), y.ref, acc.Equal(y.lib), want, ops)
				}
			}
			g.expect(t, "operand after "+op, y.lib, y.ref)
		case "neg":
			acc, accRef = acc.Neg(), c.Neg(accRef)
		case "opinv":
			acc, accRef = acc.OpInv(), c.Neg(accRef)
		case "double":
			acc, accRef = acc.Double(), c.Double(accRef)
		case "addSelf":
			acc, accRef = acc.Add(acc), c.Double(accRef)
			nt = true
		case "subSelf":
			acc, accRef = acc.Sub(acc), c.Neutral()
			nt = true
		case "addNeg":
			acc, accRef = acc.Add(acc.Neg()), c.Neutral()
			nt = true
		}
		g.expect(t, fmt.Sprintf("step %d (%s) from %v, program %v on %v", s, op, before, ops, classes), acc, accRef)
	}
	vlib.Case(test, vlib.Desc(g.name, strings.Join(ops, ","), strings.Join(classes, ",")), nt,
		"curve="+g.name, "first="+x.class, "rep="+x.rep, "steps="+fmt.Sprint(steps), "lastop="+ops[len(ops)-1])
}

func TestGroupOpsDrawn(t *testing.T) {
	vlib.Check(t, 16000, func(t *rapid.T) { drawGroup(t).DrawnOps(t) })
}

// ---- scalar multiplication -----------------------------------------------------------------------

// scalarClasses: the integer (possibly >= N: the constructor used must then reduce) and its class.
func drawScalarInt(t *rapid.T, label string, n *big.Int) (*big.Int, string) {
	one := big.NewInt(1)
	bits := n.BitLen()
	scalarClasses := []string{
		"0", "1", "2", "3", "N-1", "N-2", "N", "N+1", "2N-1", "(N-1)/2", "(N+1)/2", "2^k", "2^k-1", "2^k+1",
		"8k", "nibbles", "lowhamming", "small", "drawn", "drawn", "drawn", "drawn", "drawn", "drawn",
	}
	cl := scalarClasses[uniform(t, label+"/class", len(scalarClasses))]
	k := new(big.Int)
	switch cl {
	case "0":
	case "1", "2", "3":
		k.SetString(cl, 10)
	case "N-1":
		k.Sub(n, one)
	case "N-2":
		k.Sub(n, big.NewInt(2))
	case "N":
		k.Set(n)
	case "N+1":
		k.Add(n, one)
	case "2N-1":
		k.Lsh(n, 1).Sub(k, one)
	case "(N-1)/2":
		k.Sub(n, one).Rsh(k, 1)
	case "(N+1)/2":
		k.Add(n, one).Rsh(k, 1)
	case "2^k", "2^k-1", "2^k+1":
		e := rapid.IntRange(1, bits-1).Draw(t, label+"/e")
		k.Lsh(one, uint(e))
		if cl == "2^k-1" {
			k.Sub(k, one)
		} else if cl == "2^k+1" {
			k.Add(k, one)
		}
	case "8k":
		k = new(big.Int).SetBytes(rapid.SliceOfN(rapid.Byte(), 31, 31).Draw(t, label+"/b"))
		k.Lsh(k, 3)
	case "nibbles":
		// every 4-bit window takes one of two drawn values (table indices 0 and 15 included)
		lo := byte(rapid.SampledFrom([]int{0, 1, 8, 15}).Draw(t, label+"/lo"))
		hi := byte(rapid.SampledFrom([]int{0, 1, 7, 15}).Draw(t, label+"/hi"))
		b := make([]byte, (bits+7)/8)
		for i := range b {
			b[i] = hi<<4 | lo
		}
		k.SetBytes(b)
	case "lowhamming":
		for i := 0; i < 3; i++ {
			k.SetBit(k, rapid.IntRange(0, bits-1).Draw(t, label+"/bit"), 1)
		}
	case "small":
		k.SetUint64(rapid.Uint64Range(4, 1<<20).Draw(t, label+"/v"))
	default:
		k = new(big.Int).SetBytes(rapid.SliceOfN(rapid.Byte(), (bits+7)/8+8, (bits+7)/8+8).Draw(t, label+"/b"))
		k.Mod(k, n)
	}
	return k, cl
}

func (g *G[P, F, S]) drawLibScalar(t *rapid.T, label string) (S, *big.Int, string, string) {
	k, cl := drawScalarInt(t, label, g.ref.N)
	via := rapid.IntRange(0, nVia-1).Draw(t, label+"/via")
	if k.Cmp(g.ref.N) >= 0 && (via == 0 || via == 3 || via == 5) {
		via = 1 + rapid.IntRange(0, 1).Draw(t, label+"/via2") // a reducing constructor
	}
	m := int64(0)
	if via == 1 || via == 2 || via == 4 {
		m = int64(rapid.IntRange(0, 3).Draw(t, label+"/m"))
	}
	s, err := g.scalar(k, via, m)
	if err != nil {
		t.Fatalf("%s: scalar constructor %d refused %v (class %s, lift %d): %v", g.name, via, k, cl, m, err)
	}
	kr := new(big.Int).Mod(k, g.ref.N)
	if got := feInt(s); got.Cmp(kr) != 0 {
		t.Fatalf("%s: scalar constructor %d on %v (+%d*N) gives %v, want %v", g.name, via, k, m, got, kr)
	}
	return s, kr, cl, fmt.Sprint("via", via)
}

func (g *G[P, F, S]) ScalarMulCase(t *rapid.T) {
	const test = "ScalarMul"
	c := g.ref
	var x opnd[P]
	if uniform(t, "useG", 100) < 25 {
		x = opnd[P]{lib: g.cv.PrimeSubGroupGenerator(), ref: c.G, class: "generator", rep: "aff", a: big.NewInt(1), sub: true}
	} else {
		x = g.drawOpnd(t, "x", 55, false)
	}
	methods := []string{"ScalarMul", "ScalarMul", "ScalarOp", "autils", "autilsNat", "IsTorsionFree"}
	if x.class == "generator" && g.baseMul != nil {
		methods = []string{"ScalarBaseMul", "ScalarBaseMul", "ScalarBaseOp", "ScalarMul"}
	}
	if g.full {
		methods = append(methods, "ClearCofactor")
	}
	method := rapid.SampledFrom(methods).Draw(t, "method")
	var got P
	var want refcurve.Point
	var kcl, via string
	switch method {
	case "IsTorsionFree":
		wantTF := c.IsInPrimeSubgroup(x.ref)
		if wantTF != x.sub {
			t.Fatalf("model inconsistency on %s", x.tag())
		}
		if tf := x.lib.IsTorsionFree(); tf != wantTF {
			t.Fatalf("%s: IsTorsionFree(%s = %v) = %v, model [N]P neutral: %v", g.name, x.tag(), x.ref, tf, wantTF)
		}
		kcl, via = "N", "-"
		vlib.Case(test, vlib.Desc(g.name, method, x.class), x.special(), "curve="+g.name, "method="+method, "point="+x.class, "torsionfree="+fmt.Sprint(wantTF))
		return
	case "ClearCofactor":
		got, want = x.lib.ClearCofactor(), c.ScalarMul(x.ref, c.H)
		kcl, via = "H", "-"
	case "autilsNat":
		// natural-number exponent, never reduced; leading zero bytes allowed
		k, cl := drawScalarInt(t, "k", c.N)
		if rapid.Bool().Draw(t, "wide") {
			k = new(big.Int).Add(k, new(big.Int).Lsh(big.NewInt(int64(rapid.IntRange(1, 255).Draw(t, "top"))), uint(c.N.BitLen()+rapid.IntRange(0, 40).Draw(t, "shift"))))
			cl += "+wide"
		}
		b := append(make([]byte, rapid.IntRange(0, 2).Draw(t, "lead")), k.Bytes()...)
		got, want = algebrautils.ScalarMul(x.lib, beNat(b)), c.ScalarMul(x.ref, k)
		kcl, via = cl, "nat"
	default:
		s, kr, cl, v := g.drawLibScalar(t, "k")
		kcl, via = cl, v
		want = c.ScalarMul(x.ref, kr)
		switch method {
		case "ScalarMul":
			got = x.lib.ScalarMul(s)
		case "ScalarOp":
			got = x.lib.ScalarOp(s)
		case "ScalarBaseMul":
			got = g.baseMul(s)
		case "ScalarBaseOp":
			got = g.baseOp(s)
		case "autils":
			got = algebrautils.ScalarMul(x.lib, s)
		}
	}
	g.expect(t, fmt.Sprintf("%s(%s = %v, scalar class %s %s)", method, x.tag(), x.ref, kcl, via), got, want)
	g.expect(t, "operand after "+method, x.lib, x.ref)
	// non-trivial unless both the point and the scalar are plain drawn values
	nt := x.special() || (kcl != "drawn" && kcl != "small")
	vlib.Case(test, vlib.Desc(g.name, method, x.class, kcl), nt,
		"curve="+g.name, "method="+method, "point="+x.class, "scalar="+kcl, "via="+via, "neutral="+fmt.Sprint(c.IsNeutral(want)))
	vlib.Sample("scalarmul", map[string]any{"curve": g.name, "method": method, "point": x.tag(), "scalar": kcl, "result": want.String()})
}

func TestScalarMul(t *testing.T) {
	vlib.Check(t, 6400, func(t *rapid.T) { drawGroup(t).ScalarMulCase(t) })
}

// ScalarLaws: second line, relations between library results only (prime-order operands):
// [a]([b]P) = [ab]P, [a]P + [b]P = [a+b]P, [a](P+Q) = [a]P + [a]Q, [-a]P = -[a]P, [a]P = [a-1]P + P.
func (g *G[P, F, S]) ScalarLaws(t *rapid.T) {
	const test = "ScalarLaws"
	p := g.drawOpnd(t, "p", 30, true)
	q := g.drawOpnd(t, "q", 30, true)
	a, _, acl, _ := g.drawLibScalar(t, "a")
	b, _, bcl, _ := g.drawLibScalar(t, "b")
	law := rapid.SampledFrom([]string{"compose", "distribute-scalar", "distribute-point", "negate", "successor"}).Draw(t, "law")
	var l, r P
	switch law {
	case "compose":
		l, r = p.lib.ScalarMul(b).ScalarMul(a), p.lib.ScalarMul(a.Mul(b))
	case "distribute-scalar":
		l, r = p.lib.ScalarMul(a).Add(p.lib.ScalarMul(b)), p.lib.ScalarMul(a.Add(b))
	case "distribute-point":
		l, r = p.lib.Add(q.lib).ScalarMul(a), p.lib.ScalarMul(a).Add(q.lib.ScalarMul(a))
	case "negate":
		l, r = p.lib.ScalarMul(a.Neg()), p.lib.ScalarMul(a).Neg()
	case "successor":
		l, r = p.lib.ScalarMul(a), p.lib.ScalarMul(a.Sub(g.sf.One())).Add(p.lib)
	}
	if !l.Equal(r) || !r.Equal(l) {
		lr, _ := g.toRef(l)
		rr, _ := g.toRef(r)
		t.Fatalf("%s: law %s fails for P = %s %v, Q = %s %v, a = %v (%s), b = %v (%s): %v != %v", g.name, law, p.tag(), p.ref, q.tag(), q.ref, feInt(a), acl, feInt(b), bcl, lr, rr)
	}
	lr, err := g.toRef(l)
	if err != nil || !g.ref.IsOnCurve(lr) {
		t.Fatalf("%s: law %s: result is not a point of the curve: %v %v", g.name, law, lr, err)
	}
	nt := p.special() || (law == "distribute-point" && q.special()) || acl != "drawn" || (bcl != "drawn" && (law == "compose" || law == "distribute-scalar"))
	vlib.Case(test, vlib.Desc(g.name, law, p.class, q.class, acl, bcl), nt, "curve="+g.name, "law="+law, "a="+acl, "p="+p.class)
}

func TestScalarLaws(t *testing.T) {
	vlib.Check(t, 3000, func(t *rapid.T) { drawGroup(t).ScalarLaws(t) })
}
