package c08

import (
	"bytes"
	"encoding/binary"
	"errors"
	"fmt"
	"math/big"
	"strings"

	"github.com/fxamacker/cbor/v2"
	"pgregory.net/rapid"
)

// A structure-preserving CBOR tree. The generic decoding of fxamacker/cbor (into `any`) loses
// the order of map entries, the width of heads and tag nesting; the mutator needs an identity
// re-encoding (checked on every proof: encode(decode(b)) == b) so that exactly ONE edit
// separates the mutated proof from the original. Every produced byte string is checked with
// cbor.Wellformed (fxamacker) before it is handed to the library.

type node struct {
	major byte    // 0..7
	arg   uint64  // value (0,1), length (2,3,4,5: recomputed on encoding), tag number (6), simple value / float bits (7)
	ai    byte    // additional information of the head for major 7 (20..27) — kept verbatim
	wide  byte    // 0: shortest head; 1,2,4,8: head argument forced to that many bytes
	data  []byte  // major 2, 3
	kids  []*node // major 4: items; major 5: k0,v0,k1,v1,...; major 6: the tagged item
	inner *node   // major 2 only: the byte string holds exactly one CBOR container; edits go to inner
}

var errIndef = errors.New("indefinite length item")

func decodeTree(b []byte) (*node, error) {
	n, rest, err := decodeItem(b, 0)
	if err != nil {
		return nil, err
	}
	if len(rest) != 0 {
		return nil, fmt.Errorf("%d trailing bytes", len(rest))
	}
	return n, nil
}

func decodeItem(b []byte, depth int) (*node, []byte, error) {
	if depth > 64 {
		return nil, nil, errors.New("too deep")
	}
	if len(b) == 0 {
		return nil, nil, errors.New("truncated")
	}
	ib := b[0]
	major, ai := ib>>5, ib&0x1f
	b = b[1:]
	var arg uint64
	n := &node{major: major}
	switch {
	case ai < 24:
		arg = uint64(ai)
	case ai == 24:
		if len(b) < 1 {
			return nil, nil, errors.New("truncated")
		}
		arg, b = uint64(b[0]), b[1:]
		if major != 7 && arg < 24 {
			n.wide = 1
		}
	case ai == 25:
		if len(b) < 2 {
			return nil, nil, errors.New("truncated")
		}
		arg, b = uint64(binary.BigEndian.Uint16(b)), b[2:]
		if major != 7 && arg < 1<<8 {
			n.wide = 2
		}
	case ai == 26:
		if len(b) < 4 {
			return nil, nil, errors.New("truncated")
		}
		arg, b = uint64(binary.BigEndian.Uint32(b)), b[4:]
		if major != 7 && arg < 1<<16 {
			n.wide = 4
		}
	case ai == 27:
		if len(b) < 8 {
			return nil, nil, errors.New("truncated")
		}
		arg, b = binary.BigEndian.Uint64(b), b[8:]
		if major != 7 && arg < 1<<32 {
			n.wide = 8
		}
	case ai == 31:
		return nil, nil, errIndef
	default:
		return nil, nil, errors.New("reserved additional information")
	}
	n.arg = arg
	switch major {
	case 0, 1:
	case 2, 3:
		if uint64(len(b)) < arg {
			return nil, nil, errors.New("truncated string")
		}
		n.data = append([]byte(nil), b[:arg]...)
		b = b[arg:]
		if major == 2 && arg >= 2 {
			if in, rest, err := decodeItem(n.data, depth+1); err == nil && len(rest) == 0 && (in.major == 4 || in.major == 5 || in.major == 6) {
				n.inner = in
			}
		}
	case 4, 5:
		cnt := arg
		if major == 5 {
			cnt *= 2
		}
		if cnt > uint64(len(b)) {
			return nil, nil, errors.New("container longer than input")
		}
		for i := uint64(0); i < cnt; i++ {
			k, rest, err := decodeItem(b, depth+1)
			if err != nil {
				return nil, nil, err
			}
			n.kids = append(n.kids, k)
			b = rest
		}
	case 6:
		k, rest, err := decodeItem(b, depth+1)
		if err != nil {
			return nil, nil, err
		}
		n.kids = []*node{k}
		b = rest
	case 7:
		n.ai = ai
	}
	return n, b, nil
}

func putHead(buf *bytes.Buffer, major byte, arg uint64, wide byte) {
	w := wide
	if w == 0 {
		switch {
		case arg < 24:
			buf.WriteByte(major<<5 | byte(arg))
			return
		case arg < 1<<8:
			w = 1
		case arg < 1<<16:
			w = 2
		case arg < 1<<32:
			w = 4
		default:
			w = 8
		}
	}
	switch w {
	case 1:
		buf.WriteByte(major<<5 | 24)
		buf.WriteByte(byte(arg))
	case 2:
		buf.WriteByte(major<<5 | 25)
		_ = binary.Write(buf, binary.BigEndian, uint16(arg))
	case 4:
		buf.WriteByte(major<<5 | 26)
		_ = binary.Write(buf, binary.BigEndian, uint32(arg))
	default:
		buf.WriteByte(major<<5 | 27)
		_ = binary.Write(buf, binary.BigEndian, arg)
	}
}

func (n *node) encodeTo(buf *bytes.Buffer) {
	switch n.major {
	case 0, 1:
		putHead(buf, n.major, n.arg, n.wide)
	case 2, 3:
		d := n.data
		if n.inner != nil {
			d = n.inner.encode()
		}
		putHead(buf, n.major, uint64(len(d)), n.wide)
		buf.Write(d)
	case 4:
		putHead(buf, 4, uint64(len(n.kids)), n.wide)
		for _, k := range n.kids {
			k.encodeTo(buf)
		}
	case 5:
		putHead(buf, 5, uint64(len(n.kids)/2), n.wide)
		for _, k := range n.kids {
			k.encodeTo(buf)
		}
	case 6:
		putHead(buf, 6, n.arg, n.wide)
		n.kids[0].encodeTo(buf)
	case 7:
		switch n.ai {
		case 24:
			buf.WriteByte(7<<5 | 24)
			buf.WriteByte(byte(n.arg))
		case 25:
			buf.WriteByte(7<<5 | 25)
			_ = binary.Write(buf, binary.BigEndian, uint16(n.arg))
		case 26:
			buf.WriteByte(7<<5 | 26)
			_ = binary.Write(buf, binary.BigEndian, uint32(n.arg))
		case 27:
			buf.WriteByte(7<<5 | 27)
			_ = binary.Write(buf, binary.BigEndian, n.arg)
		default:
			buf.WriteByte(7<<5 | n.ai)
		}
	}
}

func (n *node) encode() []byte {
	var buf bytes.Buffer
	n.encodeTo(&buf)
	return buf.Bytes()
}

func (n *node) clone() *node {
	c := *n
	c.data = append([]byte(nil), n.data...)
	c.kids = make([]*node, len(n.kids))
	for i, k := range n.kids {
		c.kids[i] = k.clone()
	}
	if n.inner != nil {
		c.inner = n.inner.clone()
	}
	return &c
}

// ---- enumeration -------------------------------------------------------------------------------

// A site is one place of the tree an operator can act on.
type site struct {
	n      *node
	parent *node // container holding n (nil for the root); for map entries the map node
	idx    int   // index in parent.kids
	path   string
	class  string // path with array indices replaced by *
	isKey  bool
}

func keyString(k *node) string {
	switch k.major {
	case 3:
		return string(k.data)
	case 0:
		return fmt.Sprintf("#%d", k.arg)
	case 1:
		return fmt.Sprintf("#-%d", k.arg+1)
	default:
		return fmt.Sprintf("?%x", k.encode())
	}
}

// walk lists every node with its path: leaves (ints, strings, simple values), keys, containers.
func walk(root *node) []site {
	var out []site
	var rec func(n, parent *node, idx int, path, class string, isKey bool)
	rec = func(n, parent *node, idx int, path, class string, isKey bool) {
		out = append(out, site{n: n, parent: parent, idx: idx, path: path, class: class, isKey: isKey})
		switch n.major {
		case 2:
			if n.inner != nil {
				rec(n.inner, n, -1, path+"<cbor>", class+"<cbor>", false)
			}
		case 4:
			for i, k := range n.kids {
				rec(k, n, i, fmt.Sprintf("%s[%d]", path, i), class+"[*]", false)
			}
		case 5:
			for i := 0; i+1 < len(n.kids); i += 2 {
				ks := keyString(n.kids[i])
				kc := ks
				if n.kids[i].major != 3 {
					kc = "#"
				}
				rec(n.kids[i], n, i, path+"."+ks+"(key)", class+"."+kc+"(key)", true)
				rec(n.kids[i+1], n, i+1, path+"."+ks, class+"."+kc, false)
			}
		case 6:
			rec(n.kids[0], n, 0, fmt.Sprintf("%s<tag%d>", path, n.arg), fmt.Sprintf("%s<tag%d>", class, n.arg), false)
		}
	}
	rec(root, nil, -1, "", "", false)
	return out
}

func (s site) isLeaf() bool {
	if s.isKey {
		return false
	}
	switch s.n.major {
	case 0, 1, 3, 7:
		return true
	case 2:
		return s.n.inner == nil
	}
	return false
}

func leafKind(n *node) string {
	switch n.major {
	case 0, 1:
		return "int"
	case 2:
		return "bstr"
	case 3:
		return "tstr"
	default:
		return "simple"
	}
}

func pick[T any](t *rapid.T, label string, xs []T) T {
	return xs[rapid.IntRange(0, len(xs)-1).Draw(t, label)]
}

// ---- operators -----------------------------------------------------------------------------------

var mutOps = []string{
	"bitflip", "bitflip", "bitflip", "replace", "replace", "swap", "arr-trunc", "arr-extend", "int+1", "int-1",
	// beyond the five classes of DESIGN.md §5 (all are "changes of a decoded value, of the number of components or of the structure",
	// or re-encodings of the same values):
	"bstr-trunc", "bstr-extend", "null", "key-flip", "map-drop", "wide-head", "plus-order",
}

// mutation is the result of applying one operator.
type mutation struct {
	op, class, path string
	bytes           []byte
	identity        bool // the operator happened to rewrite the same bytes (e.g. replace by an equal leaf)
}

// mutate applies ONE drawn operator to the proof; other is another valid proof of the same
// type (may be nil: replace is then not drawn); order is the group order for plus-order (nil: none).
// ok=false: the drawn operator has no site in this proof.
func mutate(t *rapid.T, proof, other []byte, order *big.Int, op string) (mutation, bool, error) {
	root, err := decodeTree(proof)
	if err != nil {
		return mutation{}, false, fmt.Errorf("harness: proof is not decodable by the tree codec: %w", err)
	}
	if !bytes.Equal(root.encode(), proof) {
		return mutation{}, false, errors.New("harness: tree codec does not re-encode the proof identically")
	}
	sites := walk(root)
	filter := func(f func(site) bool) []site {
		var out []site
		for _, s := range sites {
			if f(s) {
				out = append(out, s)
			}
		}
		return out
	}
	m := mutation{op: op}
	done := func(s site) (mutation, bool, error) {
		m.class, m.path = s.class, s.path
		m.bytes = root.encode()
		m.identity = bytes.Equal(m.bytes, proof)
		if err := cbor.Wellformed(m.bytes); err != nil {
			return m, false, fmt.Errorf("harness: mutated proof is not well-formed CBOR (%s at %s): %w", op, s.path, err)
		}
		return m, true, nil
	}
	switch op {
	case "bitflip":
		c := filter(func(s site) bool {
			return s.isLeaf() && (s.n.major <= 1 || (s.n.major == 7 && s.n.ai < 24) || len(s.n.data) > 0)
		})
		if len(c) == 0 {
			return m, false, nil
		}
		s := pick(t, "site", c)
		switch s.n.major {
		case 0, 1:
			s.n.arg ^= 1 << rapid.IntRange(0, 63).Draw(t, "bit")
		case 7: // false/true/null/undefined and unassigned simple values 0..23
			s.n.ai ^= 1 << rapid.IntRange(0, 4).Draw(t, "bit")
			if s.n.ai >= 24 {
				s.n.ai = 20 + s.n.ai%4
			}
		default:
			// bias to the first and last byte (sign / parity / length-carrying positions)
			var i int
			switch rapid.IntRange(0, 4).Draw(t, "where") {
			case 0:
				i = 0
			case 1:
				i = len(s.n.data) - 1
			default:
				i = rapid.IntRange(0, len(s.n.data)-1).Draw(t, "byte")
			}
			s.n.data[i] ^= 1 << rapid.IntRange(0, 7).Draw(t, "bit")
		}
		return done(s)
	case "replace":
		if other == nil {
			return m, false, nil
		}
		oroot, err := decodeTree(other)
		if err != nil {
			return m, false, fmt.Errorf("harness: second proof undecodable: %w", err)
		}
		byPath := map[string]*node{}
		for _, s := range walk(oroot) {
			if s.isLeaf() {
				byPath[s.path] = s.n
			}
		}
		c := filter(func(s site) bool {
			o, ok := byPath[s.path]
			return ok && s.isLeaf() && o.major == s.n.major
		})
		if len(c) == 0 {
			return m, false, nil
		}
		s := pick(t, "site", c)
		o := byPath[s.path]
		s.n.arg, s.n.ai, s.n.data = o.arg, o.ai, append([]byte(nil), o.data...)
		return done(s)
	case "swap":
		c := filter(func(s site) bool { return s.isLeaf() })
		if len(c) < 2 {
			return m, false, nil
		}
		a := pick(t, "site", c)
		var c2 []site
		for _, s := range c {
			if s.n != a.n && leafKind(s.n) == leafKind(a.n) {
				c2 = append(c2, s)
			}
		}
		if len(c2) == 0 {
			return m, false, nil
		}
		b := pick(t, "site2", c2)
		a.n.arg, b.n.arg = b.n.arg, a.n.arg
		a.n.ai, b.n.ai = b.n.ai, a.n.ai
		a.n.data, b.n.data = b.n.data, a.n.data
		a.class = a.class + "<->" + b.class
		return done(a)
	case "arr-trunc", "arr-extend":
		c := filter(func(s site) bool { return s.n.major == 4 && len(s.n.kids) > 0 })
		if len(c) == 0 {
			return m, false, nil
		}
		s := pick(t, "site", c)
		if op == "arr-trunc" {
			s.n.kids = s.n.kids[:len(s.n.kids)-1]
		} else {
			s.n.kids = append(s.n.kids, s.n.kids[len(s.n.kids)-1].clone())
		}
		return done(s)
	case "int+1", "int-1":
		c := filter(func(s site) bool { return s.isLeaf() && s.n.major <= 1 })
		if len(c) == 0 {
			return m, false, nil
		}
		s := pick(t, "site", c)
		// value v = arg (major 0) or -1-arg (major 1)
		up := op == "int+1"
		if s.n.major == 1 {
			up = !up
		}
		switch {
		case up && s.n.arg == ^uint64(0):
			return m, false, nil
		case up:
			s.n.arg++
		case s.n.arg == 0: // crossing between 0 and -1
			s.n.major ^= 1
		default:
			s.n.arg--
		}
		return done(s)
	case "bstr-trunc", "bstr-extend":
		c := filter(func(s site) bool { return s.isLeaf() && s.n.major == 2 && (op == "bstr-extend" || len(s.n.data) > 0) })
		if len(c) == 0 {
			return m, false, nil
		}
		s := pick(t, "site", c)
		front := rapid.Bool().Draw(t, "front")
		switch {
		case op == "bstr-trunc" && front:
			s.n.data = s.n.data[1:]
		case op == "bstr-trunc":
			s.n.data = s.n.data[:len(s.n.data)-1]
		case front:
			s.n.data = append([]byte{0}, s.n.data...)
		default:
			s.n.data = append(s.n.data, 0)
		}
		if front {
			s.class += "(front)"
		}
		return done(s)
	case "null":
		c := filter(func(s site) bool { return s.parent != nil && !s.isKey && s.idx >= 0 })
		if len(c) == 0 {
			return m, false, nil
		}
		s := pick(t, "site", c)
		*s.n = node{major: 7, ai: 22}
		return done(s)
	case "key-flip":
		c := filter(func(s site) bool { return s.isKey && (s.n.major <= 1 || len(s.n.data) > 0) })
		if len(c) == 0 {
			return m, false, nil
		}
		s := pick(t, "site", c)
		if s.n.major <= 1 {
			s.n.arg ^= 1 << rapid.IntRange(0, 7).Draw(t, "bit")
		} else {
			s.n.data[rapid.IntRange(0, len(s.n.data)-1).Draw(t, "byte")] ^= 1 << rapid.IntRange(0, 6).Draw(t, "bit")
		}
		return done(s)
	case "map-drop":
		c := filter(func(s site) bool { return s.isKey })
		if len(c) == 0 {
			return m, false, nil
		}
		s := pick(t, "site", c)
		p := s.parent
		p.kids = append(append([]*node(nil), p.kids[:s.idx]...), p.kids[s.idx+2:]...)
		return done(s)
	case "wide-head":
		c := filter(func(s site) bool { return s.n.major != 7 && s.n.wide == 0 })
		if len(c) == 0 {
			return m, false, nil
		}
		s := pick(t, "site", c)
		arg := s.n.arg
		switch s.n.major {
		case 2, 3:
			arg = uint64(len(s.n.data))
			if s.n.inner != nil {
				arg = uint64(len(s.n.inner.encode()))
			}
		case 4:
			arg = uint64(len(s.n.kids))
		case 5:
			arg = uint64(len(s.n.kids) / 2)
		}
		var ws []byte
		for _, w := range []byte{1, 2, 4, 8} {
			min := map[byte]uint64{1: 24, 2: 1 << 8, 4: 1 << 16, 8: 1 << 32}[w]
			if arg < min {
				ws = append(ws, w)
			}
		}
		if len(ws) == 0 {
			return m, false, nil
		}
		s.n.wide = pick(t, "width", ws)
		s.class = fmt.Sprintf("%s(major%d)", s.class, s.n.major)
		return done(s)
	case "plus-order":
		if order == nil {
			return m, false, nil
		}
		olen := (order.BitLen() + 7) / 8
		c := filter(func(s site) bool { return s.isLeaf() && s.n.major == 2 && len(s.n.data) == olen })
		if len(c) == 0 {
			return m, false, nil
		}
		s := pick(t, "site", c)
		le := rapid.Bool().Draw(t, "little-endian")
		d := append([]byte(nil), s.n.data...)
		if le {
			reverse(d)
		}
		v := new(big.Int).SetBytes(d)
		v.Add(v, order)
		if v.BitLen() > 8*olen {
			// does not fit the fixed width: subtract instead when the value is >= order (never for canonical scalars)
			return m, false, nil
		}
		v.FillBytes(d)
		if le {
			reverse(d)
			s.class += "(le)"
		}
		s.n.data = d
		return done(s)
	}
	return m, false, fmt.Errorf("harness: unknown operator %q", op)
}

func reverse(b []byte) {
	for i, j := 0, len(b)-1; i < j; i, j = i+1, j-1 {
		b[i], b[j] = b[j], b[i]
	}
}

// shortClass trims a path class for histograms.
func shortClass(c string) string {
	if len(c) > 60 {
		c = "..." + c[len(c)-57:]
	}
	return strings.ReplaceAll(c, "|", "/")
}
