package c08

import (
	"bytes"
	"fmt"
	"io"
	"math/big"
	"testing"

	"pgregory.net/rapid"

	"github.com/bronlabs/bron-crypto/pkg/base/algebra"
	"github.com/bronlabs/bron-crypto/pkg/base/curves"
	"github.com/bronlabs/bron-crypto/pkg/base/curves/k256"
	"github.com/bronlabs/bron-crypto/pkg/base/curves/p256"
	"github.com/bronlabs/bron-crypto/pkg/base/serde"
	"github.com/bronlabs/bron-crypto/pkg/encryption/paillier"
	"github.com/bronlabs/bron-crypto/pkg/proofs/paillier/lp"
	"github.com/bronlabs/bron-crypto/pkg/proofs/paillier/lpdl"
	"github.com/bronlabs/bron-crypto/pkg/proofs/paillier/pailliern"
	"verif/harness/vlib"
	"verif/harness/vlib/lx"
)

// The Paillier proofs with their own APIs: pailliern (non-interactive, bound to a session id and a
// transcript), lp and lpdl (interactive, on session contexts).

// ---- pailliern -------------------------------------------------------------------------------------------

func paillierNProve(k *pkey, cs ctxSpec) ([]byte, error) {
	ctx, err := cs.build(proverID)
	if err != nil {
		return nil, err
	}
	pr, err := pailliern.NewProver(ctx.SessionID(), k.sk, ctx.Transcript())
	if err != nil {
		return nil, &stepErr{"pailliern.NewProver", err}
	}
	proof, stmt, err := pr.Prove()
	if err != nil {
		return nil, &stepErr{"pailliern.Prove", err}
	}
	if stmt == nil || !stmt.Equal(k.pk) {
		return nil, &stepErr{"pailliern.Prove", fmt.Errorf("returned statement is not the prover's public key")}
	}
	b, err := serde.MarshalCBOR(proof)
	if err != nil {
		return nil, &stepErr{"MarshalCBOR(proof)", err}
	}
	return b, nil
}

func paillierNCanon(b []byte) ([]byte, *pailliern.Proof, error) {
	p, err := serde.UnmarshalCBOR[*pailliern.Proof](b)
	if err != nil {
		return nil, nil, err
	}
	if p == nil {
		return nil, nil, fmt.Errorf("decoded to nil")
	}
	c, err := serde.MarshalCBOR(p)
	return c, p, err
}

func paillierNVerify(k *pkey, cs ctxSpec, proof []byte) error {
	ctx, err := cs.build(verifierID)
	if err != nil {
		return &stepErr{"harness", err}
	}
	_, p, err := paillierNCanon(proof)
	if err != nil {
		return err
	}
	return pailliern.Verify(ctx.SessionID(), ctx.Transcript(), k.pk, p)
}

func runPaillierN(t *rapid.T, test string, h heavySpec) {
	k := h.key(0)
	cs := drawCtx(t, 0, false)
	var proof []byte
	var err error
	vlib.NoPanic(t, "pailliern prove", func() { proof, err = paillierNProve(k, cs) })
	if err != nil {
		t.Fatalf("COMPLETENESS: pailliern %v: %v", h, err)
	}
	vlib.NoPanic(t, "pailliern verify", func() { err = paillierNVerify(k, cs, proof) })
	if err != nil {
		t.Fatalf("COMPLETENESS: pailliern %v: honest proof rejected in the same session: %v", h, err)
	}
	kind := rapid.SampledFrom([]string{"sid", "tr-extra", "stmt-other", "tamper", "tamper", "tamper"}).Draw(t, "negative")
	group := fmt.Sprintf("N%d-%s", 2*h.Bits, h.PK)
	if kind != "tamper" {
		vs, vk := cs.clone(), k
		switch kind {
		case "sid":
			vs.Seed ^= 1 << rapid.IntRange(0, 63).Draw(t, "seed-bit")
		case "tr-extra":
			vs.Appends = append(vs.Appends, drawAppend(t, "extra"))
		case "stmt-other":
			vk = h.key(1)
		}
		vlib.NoPanic(t, "pailliern verify ("+kind+")", func() { err = paillierNVerify(vk, vs, proof) })
		if err == nil {
			t.Fatalf("BINDING: pailliern %v: proof made in {%v} ACCEPTED under %q ({%v}, key %s)", h, cs, kind, vs, vk.id)
		}
		vlib.Case(test, vlib.Desc("pailliern", "own-ni", "PN", group, kind), true, "proto=pailliern", "negative="+kind)
		return
	}
	op := rapid.SampledFrom(mutOps).Draw(t, "operator")
	m, ok, merr := mutate(t, proof, nil, k.n.Big(), op)
	if merr != nil {
		t.Fatalf("%v", merr)
	}
	if !ok {
		if m, ok, merr = mutate(t, proof, nil, nil, "bitflip"); merr != nil || !ok {
			t.Fatalf("harness: no mutation site (%v)", merr)
		}
	}
	canonO, _, err := paillierNCanon(proof)
	if err != nil {
		t.Fatalf("pailliern: the honest proof does not decode: %v", err)
	}
	canonM, _, derr := paillierNCanon(m.bytes)
	verdict := "reject:value-changed"
	switch {
	case derr != nil:
		verdict = "reject:undecodable"
	case bytes.Equal(canonM, canonO):
		verdict = "accept:same-values"
	}
	var verr error
	msg, stack := catchPanic(func() { verr = paillierNVerify(k, cs, m.bytes) })
	if undecidedLeadingZero(m) && msg == "" {
		// the integer is unchanged, the re-encoding is not (announced length kept): no verdict asserted, see runTamper
		vlib.Case(test, vlib.Desc("pailliern", "own-ni", "PN", group, "tamper:"+m.op, "undecided:leading-zero"), false,
			"op="+m.op, fmt.Sprintf("verdict=undecided:leading-zero:accepted=%v", verr == nil))
		return
	}
	violation := ""
	switch {
	case msg != "":
		violation = "panic"
	case verdict == "accept:same-values" && verr != nil:
		violation = "rejected-same-values"
	case verdict != "accept:same-values" && verr == nil:
		violation = "accepted"
	}
	if m.op == "plus-order" && verdict == "reject:value-changed" && msg == "" {
		// sigma_i + N: an unreduced representative of the same residue mod N (the verifier only uses sigma_i^N mod N):
		// the property's own exemption; both verdicts are allowed, only "no panic" is asserted
		vlib.Case(test, vlib.Desc("pailliern", "own-ni", "PN", group, "tamper:"+m.op, "unreduced-residue"), false,
			"op="+m.op, fmt.Sprintf("verdict=unreduced-residue:accepted=%v", verr == nil))
		return
	}
	if violation != "" {
		if discoverMode() {
			vlib.Class(test, "VIOLATION:"+violation+"=pailliern/"+m.op+":"+shortClass(m.class)+" "+firstLine(msg))
			vlib.Case(test, "violation", false)
			return
		}
		t.Fatalf("TAMPER: pailliern %v: proof mutated by %s at %s (%s): %s %s\noriginal: %x\nmutated:  %x\n%s", h, m.op, m.path, verdict, violation, msg, proof, m.bytes, stack)
	}
	vlib.Case(test, vlib.Desc("pailliern", "own-ni", "PN", group, "tamper:"+m.op, verdict), !m.identity,
		"proto=pailliern", "op="+m.op, "verdict="+verdict, "op/verdict="+m.op+"/"+verdict)
}

// ---- lp ------------------------------------------------------------------------------------------------------

func runLP(t *rapid.T, test string, h heavySpec) {
	k := h.key(0)
	kk := rapid.SampledFrom([]int{2, 8, 40}).Draw(t, "k") // EncryptMany needs at least two
	kind := rapid.SampledFrom([]string{"", "", "wrong-key"}).Draw(t, "negative")
	cs := drawCtx(t, 0, false)
	ctxP, err1 := cs.build(proverID)
	ctxV, err2 := cs.build(verifierID)
	if err1 != nil || err2 != nil {
		t.Fatalf("harness: %v %v", err1, err2)
	}
	sk := k.sk
	if kind == "wrong-key" {
		sk = h.key(1).sk // the prover does not know the factorisation of the verifier's N
	}
	step, err := "", error(nil)
	vlib.NoPanic(t, "lp run", func() {
		step, err = func() (string, error) {
			v, err := lp.NewVerifier(ctxV, kk, k.pk, vlib.NewPRNG(h.Seed, "lp-v"))
			if err != nil {
				return "NewVerifier", err
			}
			p, err := lp.NewProver(ctxP, kk, sk, vlib.NewPRNG(h.Seed, "lp-p"))
			if err != nil {
				return "NewProver", err
			}
			r1, err := v.Round1()
			if err != nil {
				return "Round1", err
			}
			r2, err := p.Round2(r1)
			if err != nil {
				return "Round2", err
			}
			r3, err := v.Round3(r2)
			if err != nil {
				return "Round3", err
			}
			r4, err := p.Round4(r3)
			if err != nil {
				return "Round4", err
			}
			if err := v.Round5(r4); err != nil {
				return "Round5", err
			}
			return "", nil
		}()
	})
	switch {
	case kind == "" && err != nil:
		t.Fatalf("COMPLETENESS: lp %v k=%d failed at %s: %v", h, kk, step, err)
	case kind != "" && err == nil:
		t.Fatalf("lp %v k=%d: a prover holding another key's factorisation was ACCEPTED", h, kk)
	case kind != "" && (step == "NewVerifier" || step == "NewProver"):
		t.Fatalf("lp %v: %s failed: %v", h, step, err)
	}
	if kind == "" {
		kind = "complete"
	}
	vlib.Case(test, vlib.Desc("lp", "own-interactive", "LP", fmt.Sprintf("N%d-%s", 2*h.Bits, h.PK), kind), true, "proto=lp", "negative="+kind, "lp-fails-at="+step)
}

// ---- lpdl ----------------------------------------------------------------------------------------------------

func lpdlRun[P curves.Point[P, B, S], B algebra.FiniteFieldElement[B], S algebra.PrimeFieldElement[S]](
	curve curves.Curve[P, B, S], k *pkey, csP, csV ctxSpec, seed uint64, wrongQ bool,
) (string, error) {
	fld := algebra.StructureMustBeAs[algebra.PrimeField[S]](curve.ScalarStructure())
	q := lx.Order(fld)
	third := new(big.Int).Div(q, big.NewInt(3))
	prng := vlib.NewPRNG(seed, "lpdl")
	buf := make([]byte, 48)
	_, _ = io.ReadFull(prng, buf)
	xb := new(big.Int).Mod(new(big.Int).SetBytes(buf), third)
	xb.Add(xb, third) // q/3 <= x < 2q/3
	x := lx.FE(fld, xb)
	bigQ := curve.ScalarBaseMul(x)
	if wrongQ {
		bigQ = bigQ.Op(curve.Generator())
	}
	pt, err := paillier.NewPlaintextFromNat(natOf(xb), k.n)
	if err != nil {
		return "harness", err
	}
	nonce, err := k.pk.SampleNonce(prng)
	if err != nil {
		return "harness", err
	}
	c, err := k.pk.EncryptWithNonce(pt, nonce)
	if err != nil {
		return "harness", err
	}
	ctxP, err := csP.build(proverID)
	if err != nil {
		return "harness", err
	}
	ctxV, err := csV.build(verifierID)
	if err != nil {
		return "harness", err
	}
	v, err := lpdl.NewVerifier(ctxV, k.pk, bigQ, c, vlib.NewPRNG(seed, "lpdl-v"))
	if err != nil {
		return "NewVerifier", err
	}
	p, err := lpdl.NewProver(ctxP, curve, k.sk, x, nonce, vlib.NewPRNG(seed, "lpdl-p"))
	if err != nil {
		return "NewProver", err
	}
	r1, err := v.Round1()
	if err != nil {
		return "Round1", err
	}
	r2, err := p.Round2(r1)
	if err != nil {
		return "Round2", err
	}
	r3, err := v.Round3(r2)
	if err != nil {
		return "Round3", err
	}
	r4, err := p.Round4(r3)
	if err != nil {
		return "Round4", err
	}
	if err := v.Round5(r4); err != nil {
		return "Round5", err
	}
	return "", nil
}

func runLPDL(t *rapid.T, test string, h heavySpec) {
	k := h.key(0)
	kind := rapid.SampledFrom([]string{"", "sid", "tr-extra", "wrong-Q"}).Draw(t, "negative")
	curveName := rapid.SampledFrom([]string{"k256", "p256"}).Draw(t, "curve")
	cs := drawCtx(t, 0, false)
	vs := cs.clone()
	switch kind {
	case "sid":
		vs.Seed ^= 1 << rapid.IntRange(0, 63).Draw(t, "seed-bit")
	case "tr-extra":
		vs.Appends = append(vs.Appends, drawAppend(t, "extra"))
	}
	var step string
	var err error
	vlib.NoPanic(t, "lpdl run", func() {
		if curveName == "k256" {
			step, err = lpdlRun(k256.NewCurve(), k, cs, vs, h.Seed, kind == "wrong-Q")
		} else {
			step, err = lpdlRun(p256.NewCurve(), k, cs, vs, h.Seed, kind == "wrong-Q")
		}
	})
	switch {
	case step == "harness" || (err != nil && (step == "NewVerifier" || step == "NewProver")):
		t.Fatalf("lpdl %v on %s: %s failed: %v", h, curveName, step, err)
	case kind == "" && err != nil:
		t.Fatalf("COMPLETENESS: lpdl %v on %s failed at %s: %v", h, curveName, step, err)
	case kind != "" && err == nil:
		t.Fatalf("BINDING: lpdl %v on %s: ACCEPTED although prover and verifier differ in %q ({%v} vs {%v})", h, curveName, kind, cs, vs)
	}
	if kind == "" {
		kind = "complete"
	}
	vlib.Case(test, vlib.Desc("lpdl", "own-interactive", "LPDL", curveName, kind), true, "proto=lpdl", "negative="+kind, "lpdl-fails-at="+kind+":"+step)
}

func TestPaillierOwnAPIs(t *testing.T) {
	const test = "PaillierOwnAPIs"
	vlib.Check(t, 40, func(t *rapid.T) {
		h := drawHeavy(t)
		h.Kind = rapid.SampledFrom([]string{"pailliern", "pailliern", "pailliern", "pailliern", "lp", "lp", "lpdl"}).Draw(t, "own-kind")
		switch h.Kind {
		case "pailliern":
			runPaillierN(t, test, h)
		case "lp":
			runLP(t, test, h)
		default:
			runLPDL(t, test, h)
		}
	})
}
