package c08

import (
	"fmt"
	"sort"
	"strings"
	"testing"

	"github.com/bronlabs/bron-crypto/pkg/proofs/sigma/compiler"
	"github.com/bronlabs/bron-crypto/pkg/proofs/sigma/compiler/fiatshamir"
	"github.com/bronlabs/bron-crypto/pkg/proofs/sigma/compiler/fischlin"
	"verif/harness/vlib"
)

// Catalogued findings of C08 (proposed ids; the lead decides on the catalogue). Each rule names
// EXACTLY the inputs that are excluded from TestNITamper / TestHeavy; each finding is observed
// by a TestKnown* regression test through vlib.Known.
const (
	// A component nested inside a commitment / response (below the level whose presence the
	// compilers' UnmarshalCBOR checks) that is CBOR null or missing is dereferenced by Verify.
	knownNilComponent = "C08-nil-component-panic"
	// A direct-power element (Okamoto response, ElGamal statement-shaped commitments) decoded with
	// fewer components than the protocol's arity is indexed out of range by Verify.
	knownArityPanic = "C08-component-count-panic"
)

func matchKnown(in inst, cn compiler.Name, m mutation, violation, panicMsg string) string {
	switch {
	case violation == "panic" && strings.Contains(panicMsg, "nil pointer dereference") && (m.op == "null" || m.op == "map-drop"):
		return knownNilComponent
	case violation == "panic" && strings.Contains(panicMsg, "index out of range") && strings.Contains(m.class, "components") &&
		(m.op == "null" || m.op == "map-drop" || m.op == "arr-trunc"):
		return knownArityPanic
	}
	return ""
}

// TestKnownPanics observes C08-nil-component-panic and C08-component-count-panic: every
// (sub)tree of a few small proofs is replaced by null, and every array is shortened by one, in turn.
func TestKnownPanics(t *testing.T) {
	if k, _ := vlib.Shard(); k != 0 {
		t.Skip("observed by shard 0")
	}
	type probe struct {
		sp spec
		cn compiler.Name
	}
	probes := []probe{
		{spec{Kind: "andc(S,O)", Group: "k256", Seed: 1, WClass: "rnd", Gen: "std", N: 2}, fiatshamir.Name},
		{spec{Kind: "and^n(S)", Group: "k256", Seed: 2, WClass: "rnd", Gen: "std", N: 2}, fiatshamir.Name},
		{spec{Kind: "or^n(S)", Group: "k256", Seed: 3, WClass: "rnd", Gen: "std", N: 2}, fiatshamir.Name},
		{spec{Kind: "orc(S,O)", Group: "k256", Seed: 4, WClass: "rnd", Gen: "std", N: 2}, fiatshamir.Name},
		{spec{Kind: "batch-schnorr", Group: "k256", Seed: 5, WClass: "rnd", Gen: "std", N: 2}, fiatshamir.Name},
		{spec{Kind: "elog", Group: "k256", Seed: 6, WClass: "rnd", Gen: "std", N: 2}, fiatshamir.Name},
		{spec{Kind: "okamoto", Group: "k256", Seed: 7, WClass: "rnd", Gen: "std", N: 2}, fiatshamir.Name},
		{spec{Kind: "elcomop", Group: "k256", Seed: 8, WClass: "rnd", Gen: "std", N: 2}, fiatshamir.Name},
		{spec{Kind: "schnorr", Group: "k256", Seed: 9, WClass: "rnd", Gen: "std", N: 2}, fiatshamir.Name},
		{spec{Kind: "schnorr", Group: "k256", Seed: 10, WClass: "rnd", Gen: "std", N: 2}, fischlin.Name},
		{spec{Kind: "andc(S,O)", Group: "k256", Seed: 11, WClass: "rnd", Gen: "std", N: 2}, fischlin.Name},
	}
	hits := map[string][]string{}
	sites := 0
	for _, pr := range probes {
		in := buildSpec(pr.sp)
		cs := ctxSpec{Seed: pr.sp.Seed}
		proof := proveAndCheck(t, in, pr.cn, cs, pr.sp.Seed, pr.sp.String())
		root, err := decodeTree(proof)
		if err != nil {
			t.Fatalf("harness: %v", err)
		}
		seen := map[string]bool{}
		for i, s := range walk(root) {
			for _, op := range []string{"null", "arr-trunc"} {
				if s.parent == nil || s.isKey || s.idx < 0 || seen[op+s.class] || (op == "arr-trunc" && (s.n.major != 4 || len(s.n.kids) == 0)) {
					continue
				}
				seen[op+s.class] = true
				r2, _ := decodeTree(proof)
				s2 := walk(r2)[i]
				if op == "null" {
					*s2.n = node{major: 7, ai: 22}
				} else {
					s2.n.kids = s2.n.kids[:len(s2.n.kids)-1]
				}
				m := mutation{op: op, class: s.class, path: s.path, bytes: r2.encode()}
				ctxV, _ := cs.build(verifierID)
				sites++
				var verr error
				msg, stack := catchPanic(func() { verr = in.Verify(pr.cn, ctxV, 1, "", false, m.bytes, false) })
				switch {
				case msg != "":
					id := matchKnown(in, pr.cn, m, "panic", msg)
					if id == "" {
						t.Errorf("TAMPER: %v under %s: %s at %s PANICKED (not catalogued): %s\n%s", pr.sp, pr.cn, op, s.path, msg, stack)
						continue
					}
					hits[id] = append(hits[id], fmt.Sprintf("%s/%s/%s:%s", pr.sp.Kind, pr.cn, op, s.class))
				case verr == nil:
					t.Errorf("TAMPER: %v under %s: %s at %s was ACCEPTED", pr.sp, pr.cn, op, s.path)
				}
			}
		}
	}
	for _, id := range []string{knownNilComponent, knownArityPanic} {
		sort.Strings(hits[id])
		vlib.Known(id, len(hits[id]) > 0, fmt.Sprintf("%d of %d null / shortened-array placements in 11 small proofs make Verify panic: %s", len(hits[id]), sites, strings.Join(hits[id], "; ")))
	}
}
