package c08

import (
	"fmt"
	"sort"
	"strings"
	"sync"
	"testing"

	"github.com/bronlabs/bron-crypto/pkg/proofs/sigma/compiler"
	"github.com/bronlabs/bron-crypto/pkg/proofs/sigma/compiler/fiatshamir"
	"github.com/bronlabs/bron-crypto/pkg/proofs/sigma/compiler/fischlin"
	"verif/harness/vlib"
)

// Catalogued findings of C08 (proposed ids; the lead decides on the catalogue). Each rule names
// EXACTLY the inputs that are excluded from TestNITamper / TestHeavy; each finding is observed
// by a TestKnown* regression test through vlib.Known.
const (
	// A component nested inside a commitment / response (below the level whose presence the
	// compilers' UnmarshalCBOR checks) that is CBOR null or missing is dereferenced by Verify.
	// In nested compositions whose outer level verifies its branches in errgroup goroutines (sigand.Compose /
	// sigor.Compose around sigor / cartesian compositions) the dereference happens inside such a goroutine and
	// cannot be recovered: the verifier's PROCESS dies. Those inputs are therefore not executed at all (crashRisk).
	knownNilComponent = "C08-nil-component-panic"
)

var knownIDs = []string{knownNilComponent}

// nilFindingPresent probes ONCE per process whether C08-nil-component-panic is present in the tree under
// test: five small proofs (sites whose panic is recoverable) with one nested component set to CBOR null are
// verified under recover(). While it is present, exactly its inputs are excluded (matchKnown) and the
// process-killing ones are not executed (crashRisk); once the tree rejects all probes the exclusion disables
// itself: every operator is executed on every shape under the normal oracle (reject, no panic).
var (
	nilProbeOnce    sync.Once
	nilProbePresent bool
	nilProbeNote    string
)

func nilFindingPresent() bool {
	nilProbeOnce.Do(func() {
		probes := []struct {
			sp   spec
			cn   compiler.Name
			path string
		}{
			{spec{Kind: "batch-schnorr", Group: "k256", Seed: 1, WClass: "rnd", Gen: "std", N: 2}, fiatshamir.Name, ".A.a"},
			{spec{Kind: "andc(S,O)", Group: "k256", Seed: 2, WClass: "rnd", Gen: "std", N: 2}, fiatshamir.Name, ".A.A1"},
			{spec{Kind: "and^n(S)", Group: "k256", Seed: 3, WClass: "rnd", Gen: "std", N: 2}, fiatshamir.Name, ".A[0]"},
			{spec{Kind: "orc(S,O)", Group: "k256", Seed: 4, WClass: "rnd", Gen: "std", N: 2}, fiatshamir.Name, ".A.A0"},
			{spec{Kind: "or^n(S)", Group: "k256", Seed: 5, WClass: "rnd", Gen: "std", N: 2}, fischlin.Name, ".z[0].Z[0]"},
		}
		var hits, notes []string
		for _, pr := range probes {
			in := buildSpec(pr.sp)
			cs := ctxSpec{Seed: pr.sp.Seed}
			ctxP, err := cs.build(proverID)
			if err != nil {
				panic("harness: probe context: " + err.Error())
			}
			proof, err := in.Prove(pr.cn, ctxP, pr.sp.Seed, false)
			if err != nil {
				panic("harness: probe proof: " + err.Error())
			}
			root, err := decodeTree(proof)
			if err != nil {
				panic("harness: probe proof: " + err.Error())
			}
			found := false
			for _, s := range walk(root) {
				if s.path == pr.path && applyAt(s, "null") {
					found = true
					break
				}
			}
			if !found {
				panic("harness: probe site " + pr.path + " not found in a " + pr.sp.Kind + " proof")
			}
			ctxV, _ := cs.build(verifierID)
			var verr error
			msg, _ := catchPanic(func() { verr = in.Verify(pr.cn, ctxV, 1, "", false, root.encode(), false) })
			switch {
			case msg != "" && (strings.Contains(msg, "nil pointer dereference") || strings.Contains(msg, "called using nil")):
				hits = append(hits, fmt.Sprintf("%s/%s%s", pr.sp.Kind, pr.cn, pr.path))
			case msg != "":
				notes = append(notes, fmt.Sprintf("%s/%s%s: other panic %s", pr.sp.Kind, pr.cn, pr.path, firstLine(msg)))
			case verr == nil:
				notes = append(notes, fmt.Sprintf("%s/%s%s: ACCEPTED", pr.sp.Kind, pr.cn, pr.path))
			}
		}
		nilProbePresent = len(hits) > 0
		nilProbeNote = fmt.Sprintf("probe: %d of %d null placements panic with a nil dereference [%s] %s", len(hits), len(probes), strings.Join(hits, "; "), strings.Join(notes, "; "))
	})
	return nilProbePresent
}

func matchKnown(in inst, cn compiler.Name, m mutation, violation, panicMsg string) string {
	if !nilFindingPresent() {
		return ""
	}
	switch {
	case violation == "panic" && (strings.Contains(panicMsg, "nil pointer dereference") || strings.Contains(panicMsg, "called using nil")) &&
		(m.op == "null" || m.op == "map-drop"):
		return knownNilComponent
	}
	return ""
}

// crashRisk: the inputs of C08-nil-component-panic whose nil dereference would happen inside an errgroup
// goroutine of an n-ary composition (observed: and^2(or^2(S)) under Fiat-Shamir with Z[i] = null dies in
// sigor.(*Protocol).Verify called from sigand.(*Protocol).Verify.func1). They are excluded without being run.
func crashRisk(in inst, m mutation) bool {
	if (m.op != "null" && m.op != "map-drop") || runCrashRisk() || !nilFindingPresent() {
		return false
	}
	sh := in.Shape()
	return (strings.HasPrefix(sh, "and^") && strings.Contains(sh, "(or^")) || (strings.HasPrefix(sh, "or^") && strings.Contains(sh, "(andc("))
}

// applyAt applies a deterministic variant of op at site s of a decoded tree; false: not applicable.
func applyAt(s site, op string) bool {
	n := s.n
	switch op {
	case "null":
		if s.parent == nil || s.isKey || s.idx < 0 {
			return false
		}
		*n = node{major: 7, ai: 22}
	case "map-drop":
		if !s.isKey {
			return false
		}
		p := s.parent
		p.kids = append(append([]*node(nil), p.kids[:s.idx]...), p.kids[s.idx+2:]...)
	case "key-flip":
		if !s.isKey || n.major != 3 || len(n.data) == 0 {
			return false
		}
		n.data[len(n.data)-1] ^= 1
	case "arr-trunc":
		if n.major != 4 || len(n.kids) == 0 {
			return false
		}
		n.kids = n.kids[:len(n.kids)-1]
	case "arr-extend":
		if n.major != 4 || len(n.kids) == 0 {
			return false
		}
		n.kids = append(n.kids, n.kids[len(n.kids)-1].clone())
	case "bstr-trunc-front", "bstr-trunc-back", "bstr-extend-front", "bstr-extend-back", "bitflip-first", "bitflip-last":
		if !s.isLeaf() || n.major != 2 || len(n.data) == 0 {
			return false
		}
		switch op {
		case "bstr-trunc-front":
			n.data = n.data[1:]
		case "bstr-trunc-back":
			n.data = n.data[:len(n.data)-1]
		case "bstr-extend-front":
			n.data = append([]byte{0}, n.data...)
		case "bstr-extend-back":
			n.data = append(n.data, 0)
		case "bitflip-first":
			n.data[0] ^= 0x80
		default:
			n.data[len(n.data)-1] ^= 1
		}
	case "wide-head":
		if n.major == 7 || n.wide != 0 {
			return false
		}
		n.wide = 8
	default:
		panic("harness: unknown enumerated operator " + op)
	}
	return true
}

var enumOps = []string{"null", "map-drop", "key-flip", "arr-trunc", "arr-extend", "bstr-trunc-front", "bstr-trunc-back",
	"bstr-extend-front", "bstr-extend-back", "bitflip-first", "bitflip-last", "wide-head"}

// Fixed findings asserted here without exclusion (regressions fail): a38e402 (Okamoto response with fewer / more
// components than generators: arr-trunc / arr-extend at .z.components) and efa674c (sigor cartesian OR accepted a
// response whose E0 / E1 carried surplus trailing bytes: bstr-extend-back at .Z.E0 / .Z.E1 of orc(..) shapes) and
// e5b460b (the CBOR decoders of znstar.PaillierGroupElement / RSAGroupElement panicked on a null or missing DTO field:
// null / map-drop inside the tag 5013 / 5015 / 5017 elements of the nthroot, prm, cggmp21 proofs; a panic in the
// typed decoding is a violation like a panic in Verify).
//
// TestTamperEveryClass: on one small proof per (protocol / composition shape, compiler), EVERY
// class of site (path with array indices erased) is hit by EVERY deterministic operator
// variant. The oracle is the one of TestNITamper; the catalogued findings are observed here
// (vlib.Known) and everything else must hold.
func TestTamperEveryClass(t *testing.T) {
	const test = "TamperEveryClass"
	type probe struct {
		sp    spec
		cn    compiler.Name
		heavy *heavySpec
	}
	var probes []probe
	for hi, kind := range []string{"nthroot", "prm", "cggmp21-enc", "cggmp21-fac", "cggmp21-blummod"} {
		probes = append(probes, probe{cn: fiatshamir.Name, heavy: &heavySpec{Kind: kind, Bits: 512, PK: "safe", I: hi, D: 1 + hi%5, Seed: uint64(hi)}})
	}
	i := 0
	for _, kind := range append(append([]string(nil), baseKinds...), composedKinds...) {
		for _, cn := range allCompilers {
			i++
			n := 2
			probes = append(probes, probe{spec{Kind: kind, Group: []string{"k256", "ed25519", "bls12381g1"}[i%3], Seed: uint64(100 + i), WClass: "rnd", Gen: "std", N: n, Branch: i % 2}, cn, nil})
		}
	}
	hits := map[string][]string{}
	sites := 0
	for pi, pr := range probes {
		if !vlib.Mine(pi) {
			continue
		}
		var in inst
		what := pr.sp.String()
		if pr.heavy != nil {
			in, what = buildHeavy(*pr.heavy), pr.heavy.String()
			pr.sp.Kind, pr.sp.Seed = pr.heavy.Kind, pr.heavy.Seed
		} else {
			in = buildSpec(pr.sp)
		}
		cs := ctxSpec{Seed: pr.sp.Seed, BindPID: true, PID: 1}
		proof := proveAndCheck(t, in, pr.cn, cs, pr.sp.Seed, what)
		canonO, err := in.Canon(pr.cn, proof)
		if err != nil {
			t.Fatalf("%v: honest proof undecodable: %v", what, err)
		}
		root, err := decodeTree(proof)
		if err != nil {
			t.Fatalf("harness: %v", err)
		}
		seen := map[string]bool{}
		for si, s := range walk(root) {
			for _, op := range enumOps {
				if seen[op+s.class] {
					continue
				}
				if pr.heavy != nil && !(op == "null" || op == "map-drop" || op == "arr-trunc" || op == "arr-extend" || op == "bstr-trunc-back" || op == "bstr-extend-back") {
					continue // expensive verifications: the structural operators only
				}
				r2, _ := decodeTree(proof)
				s2 := walk(r2)[si]
				if !applyAt(s2, op) {
					continue
				}
				seen[op+s.class] = true
				base := op
				if j := strings.IndexByte(op[1:], '-'); j >= 0 && (strings.HasPrefix(op, "bstr") || strings.HasPrefix(op, "bitflip")) {
					base = op[:strings.LastIndexByte(op, '-')]
				}
				m := mutation{op: base, class: s.class, path: s.path, bytes: r2.encode()}
				if crashRisk(in, m) {
					vlib.Excluded(knownNilComponent)
					continue
				}
				sites++
				var canonM []byte
				var derr error
				dmsg, dstack := catchPanic(func() { canonM, derr = in.Canon(pr.cn, m.bytes) })
				verdict := "reject:value-changed"
				switch {
				case derr != nil:
					verdict = "reject:undecodable"
				case string(canonM) == string(canonO):
					verdict = "accept:same-values"
				}
				ctxV, _ := cs.build(verifierID)
				var verr error
				msg, stack := dmsg, dstack
				if dmsg != "" {
					msg = "typed decoding: " + dmsg
				} else {
					msg, stack = catchPanic(func() { verr = in.Verify(pr.cn, ctxV, 1, "", false, m.bytes, false) })
				}
				violation := ""
				switch {
				case msg != "":
					violation = "panic"
				case verdict == "accept:same-values" && verr != nil:
					violation = "rejected-same-values"
				case verdict != "accept:same-values" && verr == nil:
					violation = "accepted"
				}
				if violation != "" {
					id := matchKnown(in, pr.cn, m, violation, msg)
					if id == "" {
						if discoverMode() {
							vlib.Class(test, "VIOLATION:"+violation+"="+in.Proto()+"/"+in.Shape()+"/"+string(pr.cn)+"/"+op+":"+shortClass(s.class)+" "+firstLine(msg))
							continue
						}
						t.Errorf("TAMPER: %v under %s: %s at %s (%s): %s %s\nmutated: %x\n%s", pr.sp, pr.cn, op, s.path, verdict, violation, msg, m.bytes, stack)
						continue
					}
					hits[id] = append(hits[id], fmt.Sprintf("%s/%s/%s:%s", pr.sp.Kind, pr.cn, op, s.class))
					vlib.Case(test, vlib.Desc(in.Shape(), pr.cn, op, "known:"+id), false, "verdict=known:"+id)
					continue
				}
				vlib.Case(test, vlib.Desc(in.Proto(), pr.cn, in.Shape(), in.Group(), "tamper:"+op, verdict, s.class), true,
					"op="+op, "verdict="+verdict, "op/verdict="+op+"/"+verdict, "compiler="+string(pr.cn))
			}
		}
	}
	for _, id := range knownIDs {
		sort.Strings(hits[id])
		what := strings.Join(hits[id], "; ")
		if len(what) > 1500 {
			what = what[:1500] + " ..."
		}
		note := "make Verify panic with a nil dereference (null / map-drop mutants of and^n(or^m(..)) and or^n(andc(..)) shapes are NOT executed: " +
			"there the dereference happens in an errgroup goroutine and kills the process; they are counted under excluded_known)"
		present := nilFindingPresent()
		if len(hits[id]) > 0 && !present {
			t.Errorf("harness: hits of %s recorded although the probe reports it absent", id)
		}
		vlib.Known(id, present, fmt.Sprintf("%s; shard observation: %d of %d enumerated (site class, operator) placements %s: %s", nilProbeNote, len(hits[id]), sites, note, what))
	}
	vlib.Exhaustive("one proof per (15 protocol / composition kinds x 3 compilers) (every site class x 12 deterministic operator variants) and per (nthroot, prm, cggmp21 enc / fac / blummod x Fiat-Shamir: every site class x 6 structural variants)")
}
