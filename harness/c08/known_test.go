package c08

import (
	"fmt"
	"sort"
	"strings"
	"testing"

	"github.com/bronlabs/bron-crypto/pkg/proofs/sigma/compiler"
	"github.com/bronlabs/bron-crypto/pkg/proofs/sigma/compiler/fiatshamir"
	"github.com/bronlabs/bron-crypto/pkg/proofs/sigma/compiler/fischlin"
	"verif/harness/vlib"
)

// TestKnownNilComponent observes the catalogued finding C08-nil-component-panic: a proof in
// which a component nested inside a commitment / response (below the level whose presence the
// compilers' UnmarshalCBOR checks) is CBOR null makes Verify dereference a nil pointer instead
// of returning an error. Every (sub)tree of a few small proofs is replaced by null in turn.
func TestKnownNilComponent(t *testing.T) {
	if k, _ := vlib.Shard(); k != 0 {
		t.Skip("observed by shard 0")
	}
	type probe struct {
		sp spec
		cn compiler.Name
	}
	probes := []probe{
		{spec{Kind: "andc(S,O)", Group: "k256", Seed: 1, WClass: "rnd", Gen: "std", N: 2}, fiatshamir.Name},
		{spec{Kind: "and^n(S)", Group: "k256", Seed: 2, WClass: "rnd", Gen: "std", N: 2}, fiatshamir.Name},
		{spec{Kind: "or^n(S)", Group: "k256", Seed: 3, WClass: "rnd", Gen: "std", N: 2}, fiatshamir.Name},
		{spec{Kind: "orc(S,O)", Group: "k256", Seed: 4, WClass: "rnd", Gen: "std", N: 2}, fiatshamir.Name},
		{spec{Kind: "batch-schnorr", Group: "k256", Seed: 5, WClass: "rnd", Gen: "std", N: 2}, fiatshamir.Name},
		{spec{Kind: "elog", Group: "k256", Seed: 6, WClass: "rnd", Gen: "std", N: 2}, fiatshamir.Name},
		{spec{Kind: "schnorr", Group: "k256", Seed: 7, WClass: "rnd", Gen: "std", N: 2}, fiatshamir.Name},
		{spec{Kind: "schnorr", Group: "k256", Seed: 8, WClass: "rnd", Gen: "std", N: 2}, fischlin.Name},
		{spec{Kind: "andc(S,O)", Group: "k256", Seed: 9, WClass: "rnd", Gen: "std", N: 2}, fischlin.Name},
	}
	var hits []string
	sites, accepted := 0, 0
	for _, pr := range probes {
		in := buildSpec(pr.sp)
		cs := ctxSpec{Seed: pr.sp.Seed}
		proof := proveAndCheck(t, in, pr.cn, cs, pr.sp.Seed, pr.sp.String())
		root, err := decodeTree(proof)
		if err != nil {
			t.Fatalf("harness: %v", err)
		}
		seen := map[string]bool{}
		for i, s := range walk(root) {
			if s.parent == nil || s.isKey || s.idx < 0 || seen[s.class] {
				continue
			}
			seen[s.class] = true
			r2, _ := decodeTree(proof)
			s2 := walk(r2)[i]
			*s2.n = node{major: 7, ai: 22}
			mutated := r2.encode()
			ctxV, _ := cs.build(verifierID)
			sites++
			var verr error
			if msg := panicsNilDeref(func() { verr = in.Verify(pr.cn, ctxV, 1, "", false, mutated, false) }); msg != "" {
				hits = append(hits, fmt.Sprintf("%s/%s:%s", pr.sp.Kind, pr.cn, s.class))
			} else if verr == nil {
				accepted++
				t.Errorf("TAMPER: %v under %s: null at %s was ACCEPTED", pr.sp, pr.cn, s.path)
			}
		}
	}
	sort.Strings(hits)
	vlib.Known(knownNilComponent, len(hits) > 0, fmt.Sprintf("%d of %d null placements panic with a nil pointer dereference in Verify: %s", len(hits), sites, strings.Join(hits, "; ")))
	vlib.Note(fmt.Sprintf("%s: nil-dereference sites: %s", knownNilComponent, strings.Join(hits, "; ")))
}
