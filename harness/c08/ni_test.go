package c08

import (
	"bytes"
	"fmt"
	"os"
	"runtime/debug"
	"strings"
	"testing"

	"pgregory.net/rapid"

	"github.com/bronlabs/bron-crypto/pkg/proofs/sigma/compiler"
	"github.com/bronlabs/bron-crypto/pkg/proofs/sigma/compiler/fiatshamir"
	"github.com/bronlabs/bron-crypto/pkg/proofs/sigma/compiler/fischlin"
	"github.com/bronlabs/bron-crypto/pkg/proofs/sigma/compiler/randfischlin"
	"verif/harness/vlib"
)

// ---- drawing contexts and compilers ------------------------------------------------------------

var appendLabels = []string{"", "a", "round-1", "VERIF_C08_APP-", "BRON_CRYPTO_DKG_GENNARO_BATCH_SCHNORR_PROVER_ID-"}

func drawAppend(t *rapid.T, label string) appendOp {
	return appendOp{
		Label: rapid.SampledFrom(appendLabels).Draw(t, label+"-label"),
		Data:  rapid.SliceOfN(rapid.Byte(), 0, 40).Draw(t, label+"-data"),
	}
}

// drawCtx draws the prover's context preparation. minAppends forces at least that many appends.
func drawCtx(t *rapid.T, minAppends int, bindPID bool) ctxSpec {
	c := ctxSpec{Seed: rapid.Uint64().Draw(t, "session-seed")}
	n := rapid.IntRange(minAppends, 2).Draw(t, "appends")
	for i := 0; i < n; i++ {
		c.Appends = append(c.Appends, drawAppend(t, fmt.Sprintf("app%d", i)))
	}
	c.BindPID = bindPID || rapid.IntRange(0, 9).Draw(t, "bind-pid") < 6
	if c.BindPID {
		c.PID = rapid.SampledFrom([]uint64{1, 2, 3, 255, 256, 1 << 32, 1<<64 - 1}).Draw(t, "pid")
	}
	return c
}

// drawCompiler: Fiat-Shamir is cheap, the two Fischlin transforms cost 16 repetitions of a
// 2^8-fold search each; expensive protocols pass a reduced list.
func drawCompiler(t *rapid.T, in inst) compiler.Name {
	var pool []compiler.Name
	for _, c := range in.Compilers() {
		w := 1
		if c == fiatshamir.Name {
			w = 2
		}
		for i := 0; i < w; i++ {
			pool = append(pool, c)
		}
	}
	return rapid.SampledFrom(pool).Draw(t, "compiler")
}

// catchPanic runs f and returns the panic value (as text) and the stack if f panics; rapid's own
// control-flow panics are passed on.
func catchPanic(f func()) (msg, stack string) {
	defer func() {
		if r := recover(); r != nil {
			if tn := fmt.Sprintf("%T", r); tn == "rapid.stopTest" || tn == "rapid.invalidData" {
				panic(r)
			}
			msg = fmt.Sprint(r)
			if msg == "" {
				msg = "(empty panic value)"
			}
			stack = string(debug.Stack())
		}
	}()
	f()
	return "", ""
}

func firstLine(s string) string {
	if i := strings.IndexByte(s, '\n'); i >= 0 {
		s = s[:i]
	}
	if len(s) > 80 {
		s = s[:80]
	}
	return s
}

// runCrashRisk (VERIF_C08_RUN_CRASHRISK=1) executes the mutants that crashRisk normally skips; used to
// re-observe C08-nil-component-panic after a repair, never by the driver.
func runCrashRisk() bool { return os.Getenv("VERIF_C08_RUN_CRASHRISK") != "" }

func undecidedLeadingZero(m mutation) bool {
	return m.op == "bstr-extend" && strings.Contains(m.class, "natBytes") && strings.HasSuffix(m.class, "(front)")
}

// discoverMode (VERIF_C08_DISCOVER=1) records violations as classes instead of failing; used
// while cataloguing, never by the driver.
func discoverMode() bool { return os.Getenv("VERIF_C08_DISCOVER") != "" }

type fataler interface {
	Fatalf(format string, args ...any)
	Helper()
}

// proveAndCheck produces a proof in the prover's context and checks completeness in the
// verifier's clone of the same context.
func proveAndCheck(t fataler, in inst, cn compiler.Name, cs ctxSpec, seed uint64, what string) []byte {
	t.Helper()
	ctxP, err := cs.build(proverID)
	if err != nil {
		t.Fatalf("harness: context: %v", err)
	}
	var proof []byte
	vlib.NoPanic(t, "Prove ("+what+")", func() { proof, err = in.Prove(cn, ctxP, seed, false) })
	if err != nil {
		t.Fatalf("COMPLETENESS: %s: proving with a valid witness failed under %s: %v\ncontext: %v", what, cn, err, cs)
	}
	if len(proof) == 0 {
		t.Fatalf("COMPLETENESS: %s: empty proof without an error under %s", what, cn)
	}
	ctxV, err := cs.build(verifierID)
	if err != nil {
		t.Fatalf("harness: context: %v", err)
	}
	vlib.NoPanic(t, "Verify ("+what+")", func() { err = in.Verify(cn, ctxV, seed+1, "", false, proof, false) })
	if err != nil {
		t.Fatalf("COMPLETENESS: %s: honest proof rejected under %s in a clone of the same context: %v\ncontext: %v\nproof: %x", what, cn, err, cs, proof)
	}
	return proof
}

var bindingKinds = []string{
	"sid", "tr-extra", "tr-missing", "tr-other-data", "tr-other-label", "tr-reuse",
	"pid-other", "pid-missing", "pid-extra", "stmt", "stmt", "stmt", "compiler", "name",
}

// runBinding: completeness, then the SAME proof bytes against ONE drawn wrong verifier.
func runBinding(t *rapid.T, test string, in inst, what string) {
	cn := drawCompiler(t, in)
	kind := rapid.SampledFrom(bindingKinds).Draw(t, "negative")
	if kind == "name" && !in.HasRenamed() {
		kind = "stmt"
	}
	if kind == "compiler" && len(in.Compilers()) < 2 {
		kind = "sid"
	}
	minApp := 0
	if kind == "tr-missing" || kind == "tr-other-data" || kind == "tr-other-label" {
		minApp = 1
	}
	cs := drawCtx(t, minApp, kind == "pid-other" || kind == "pid-missing")
	if kind == "pid-extra" {
		cs.BindPID = false
	}
	seed := rapid.Uint64().Draw(t, "prover-seed")
	proof := proveAndCheck(t, in, cn, cs, seed, what)

	vs := cs.clone()
	vcn, stmt, renamed, again := cn, "", false, false
	sub := kind
	switch kind {
	case "sid":
		vs.Seed = cs.Seed ^ (1 << rapid.IntRange(0, 63).Draw(t, "seed-bit"))
	case "tr-extra":
		vs.Appends = append(vs.Appends, drawAppend(t, "extra"))
	case "tr-missing":
		i := rapid.IntRange(0, len(vs.Appends)-1).Draw(t, "which")
		vs.Appends = append(vs.Appends[:i:i], vs.Appends[i+1:]...)
	case "tr-other-data":
		i := rapid.IntRange(0, len(vs.Appends)-1).Draw(t, "which")
		d := append([]byte(nil), vs.Appends[i].Data...)
		if len(d) == 0 {
			d = []byte{0}
			sub += ":empty->00"
		} else {
			d[rapid.IntRange(0, len(d)-1).Draw(t, "byte")] ^= 1 << rapid.IntRange(0, 7).Draw(t, "bit")
		}
		vs.Appends[i].Data = d
	case "tr-other-label":
		i := rapid.IntRange(0, len(vs.Appends)-1).Draw(t, "which")
		vs.Appends[i].Label += "x"
	case "tr-reuse":
		again = true
	case "pid-other":
		vs.PID = cs.PID ^ (1 << rapid.IntRange(0, 63).Draw(t, "pid-bit"))
	case "pid-missing":
		vs.BindPID = false
	case "pid-extra":
		vs.BindPID, vs.PID = true, rapid.SampledFrom([]uint64{1, 2}).Draw(t, "pid")
	case "stmt":
		stmt = rapid.SampledFrom(in.NegStatements()).Draw(t, "statement")
		sub = stmt
	case "compiler":
		var others []compiler.Name
		for _, c := range in.Compilers() {
			if c != cn {
				others = append(others, c)
			}
		}
		vcn = rapid.SampledFrom(others).Draw(t, "other-compiler")
		sub = "compiler:" + string(vcn)
	case "name":
		renamed = true
	}
	ctxV, err := vs.build(verifierID)
	if err != nil {
		t.Fatalf("harness: context: %v", err)
	}
	vlib.NoPanic(t, "Verify under "+sub, func() { err = in.Verify(vcn, ctxV, seed+2, stmt, renamed, proof, again) })
	if err == nil {
		t.Fatalf("BINDING: %s: a %s proof made in context {%v} was ACCEPTED by a verifier that differs in %q (verifier context {%v}, compiler %s, statement %q, renamed protocol %v)\nproof: %x",
			what, cn, cs, sub, vs, vcn, stmt, renamed, proof)
	}
	if se, ok := err.(*stepErr); ok && se.step != "Verify" && !(kind == "compiler" || kind == "name") {
		// the wrong verifier could not even be constructed, or the first verification of tr-reuse failed
		t.Fatalf("%s: %s under %q failed before the verification proper: %v", what, cn, sub, err)
	}
	kc := kind
	if kind == "stmt" {
		kc = stmt
	}
	vlib.Case(test, vlib.Desc(in.Proto(), cn, in.Shape(), in.Group(), kc), true,
		"proto="+in.Proto(), "compiler="+string(cn), "group="+in.Group(), "negative="+kc, "shape="+in.Shape())
	vlib.Sample("binding/"+in.Proto(), map[string]any{"instance": what, "compiler": cn, "negative": sub, "prover-context": cs.String(), "verifier-context": vs.String(), "verdict": err.Error()[:min(len(err.Error()), 160)]})
}

// runTamper: ONE structure-aware mutation of the proof bytes; two-directional oracle on the
// typed decoding.
func runTamper(t *rapid.T, test string, in inst, what string) {
	cn := drawCompiler(t, in)
	cs := drawCtx(t, 0, false)
	seed := rapid.Uint64().Draw(t, "prover-seed")
	op := rapid.SampledFrom(mutOps).Draw(t, "operator")
	proof := proveAndCheck(t, in, cn, cs, seed, what)

	var other []byte
	if op == "replace" {
		cs2 := cs.clone()
		cs2.Seed ^= 0x5a5a
		other = proveAndCheck(t, in, cn, cs2, seed+77, what+" (second proof)")
	}
	m, ok, err := mutate(t, proof, other, in.Order(), op)
	if err != nil {
		t.Fatalf("%v\nproof: %x", err, proof)
	}
	if !ok {
		// the drawn operator has no site in this proof (e.g. no integer leaf): flip a bit instead
		m, ok, err = mutate(t, proof, nil, nil, "bitflip")
		if err != nil || !ok {
			t.Fatalf("harness: no mutation site at all (%v)\nproof: %x", err, proof)
		}
	}
	canonO, err := in.Canon(cn, proof)
	if err != nil {
		t.Fatalf("the honest %s proof does not decode with the typed decoder: %v\nproof: %x", cn, err, proof)
	}
	var canonM []byte
	var derr error
	decodePanic, decodeStack := catchPanic(func() { canonM, derr = in.Canon(cn, m.bytes) })
	verdict := "reject:value-changed"
	switch {
	case derr != nil:
		verdict = "reject:undecodable"
	case bytes.Equal(canonM, canonO):
		verdict = "accept:same-values"
	}
	ctxV, err := cs.build(verifierID)
	if err != nil {
		t.Fatalf("harness: context: %v", err)
	}
	if undecidedLeadingZero(m) {
		// A zero byte PREPENDED to the big-endian bytes of a natural number: the integer is unchanged, but the library's
		// re-encoding keeps the announced length, so "same values" cannot be decided by comparing re-encodings. Only
		// "no panic" is asserted for this mutant.
		var verr error
		vlib.NoPanic(t, "Verify of a proof with a zero-padded natural number", func() { verr = in.Verify(cn, ctxV, seed+3, "", false, m.bytes, false) })
		vlib.Case(test, vlib.Desc(in.Proto(), cn, in.Shape(), in.Group(), "tamper:"+m.op, "undecided:leading-zero"), false,
			"op="+m.op, fmt.Sprintf("verdict=undecided:leading-zero:accepted=%v", verr == nil))
		return
	}
	if crashRisk(in, m) {
		vlib.Excluded(knownNilComponent)
		vlib.Case(test, vlib.Desc(in.Proto(), cn, in.Shape(), in.Group(), "tamper:"+m.op, "not-run:"+knownNilComponent), false,
			"op="+m.op, "verdict=not-run:process-crash-risk:"+knownNilComponent)
		return
	}
	var verr error
	panicMsg, stack := decodePanic, decodeStack
	if decodePanic != "" {
		panicMsg = "typed decoding: " + decodePanic // the verifier decodes in the same way: not run again
	} else {
		panicMsg, stack = catchPanic(func() { verr = in.Verify(cn, ctxV, seed+3, "", false, m.bytes, false) })
	}
	if se, ok := verr.(*stepErr); ok && panicMsg == "" {
		t.Fatalf("harness: %v", se)
	}
	violation := ""
	switch {
	case panicMsg != "":
		violation = "panic"
	case m.op == "plus-order" && verdict == "reject:value-changed":
		// the decoder kept the unreduced representative value + modulus: the same residue for a verifier that
		// only uses it modulo that modulus (the property's exemption); both verdicts allowed, counted separately
		vlib.Case(test, vlib.Desc(in.Proto(), cn, in.Shape(), in.Group(), "tamper:"+m.op, "unreduced-residue"), false,
			"op="+m.op, fmt.Sprintf("verdict=unreduced-residue:accepted=%v", verr == nil))
		return
	case verdict == "accept:same-values" && verr != nil:
		violation = "rejected-same-values"
	case verdict != "accept:same-values" && verr == nil:
		violation = "accepted"
	}
	if violation != "" {
		if id := matchKnown(in, cn, m, violation, panicMsg); id != "" {
			// exactly the catalogued inputs are excluded (and observed by the TestKnown* regression tests)
			vlib.Excluded(id)
			vlib.Class(test, "known:"+id+"="+in.Proto()+"/"+string(cn)+"/"+m.op+":"+shortClass(m.class))
			vlib.Case(test, vlib.Desc(in.Proto(), cn, in.Shape(), in.Group(), "tamper:"+m.op, "excluded:"+id), false,
				"op="+m.op, "verdict=excluded:"+id)
			return
		}
		if discoverMode() {
			vlib.Class(test, "VIOLATION:"+violation+"="+in.Proto()+"/"+in.Shape()+"/"+string(cn)+"/"+m.op+":"+shortClass(m.class)+" "+firstLine(panicMsg))
			vlib.Case(test, "violation", false)
			return
		}
		switch violation {
		case "panic":
			t.Fatalf("TAMPER: %s: Verify of a %s proof mutated by %s at %s PANICKED: %s\ncontext: %v\noriginal: %x\nmutated:  %x\n%s",
				what, cn, m.op, m.path, panicMsg, cs, proof, m.bytes, stack)
		case "rejected-same-values":
			t.Fatalf("TAMPER: %s: a %s proof re-encoded by %s at %s decodes to the very same values (canonical re-encoding unchanged) but was REJECTED: %v\noriginal: %x\nmutated:  %x",
				what, cn, m.op, m.path, verr, proof, m.bytes)
		default:
			t.Fatalf("TAMPER: %s: a %s proof mutated by %s at %s (%s) was ACCEPTED\ncontext: %v\noriginal: %x\nmutated:  %x\ncanonical original: %x\ncanonical mutated:  %x",
				what, cn, m.op, m.path, verdict, cs, proof, m.bytes, canonO, canonM)
		}
	}
	nt := !m.identity
	vlib.Case(test, vlib.Desc(in.Proto(), cn, in.Shape(), in.Group(), "tamper:"+m.op, verdict), nt,
		"proto="+in.Proto(), "compiler="+string(cn), "group="+in.Group(), "op="+m.op, "verdict="+verdict,
		"op/verdict="+m.op+"/"+verdict, "leaf="+string(cn)+":"+shortClass(m.class))
	if verdict == "accept:same-values" && !m.identity {
		vlib.Sample("tamper-same-values/"+m.op, map[string]any{"instance": what, "compiler": cn, "op": m.op, "path": m.path})
	} else {
		vlib.Sample("tamper/"+m.op, map[string]any{"instance": what, "compiler": cn, "op": m.op, "path": m.path, "verdict": verdict})
	}
}

var cheapKinds = func() []string {
	var out []string
	// base protocols twice as often as each composition
	for _, k := range baseKinds {
		out = append(out, k, k, k)
	}
	out = append(out, "schnorr", "schnorr")
	return append(out, composedKinds...)
}()

func TestNIBinding(t *testing.T) {
	const test = "NIBinding"
	vlib.Check(t, 640, func(t *rapid.T) {
		sp := drawSpec(t, cheapKinds)
		runBinding(t, test, buildSpec(sp), sp.String())
	})
}

func TestNITamper(t *testing.T) {
	const test = "NITamper"
	vlib.Check(t, 640, func(t *rapid.T) {
		sp := drawSpec(t, cheapKinds)
		runTamper(t, test, buildSpec(sp), sp.String())
	})
}

// TestWrongWitness: AND verifies only if all branches have witnesses, OR needs one; a prover
// holding a wrong witness either refuses or produces a proof that does not verify.
func TestWrongWitness(t *testing.T) {
	const test = "WrongWitness"
	kinds := append(append([]string(nil), composedKinds...), composedKinds...)
	kinds = append(kinds, baseKinds...)
	vlib.Check(t, 160, func(t *rapid.T) {
		sp := drawSpec(t, kinds)
		in := buildSpec(sp)
		cn := drawCompiler(t, in)
		cs := drawCtx(t, 0, false)
		seed := rapid.Uint64().Draw(t, "prover-seed")
		ctxP, err := cs.build(proverID)
		if err != nil {
			t.Fatalf("harness: context: %v", err)
		}
		var proof []byte
		vlib.NoPanic(t, "Prove with a wrong witness", func() { proof, err = in.Prove(cn, ctxP, seed, true) })
		outcome := "refused"
		if err == nil {
			outcome = "bogus-proof-rejected"
			ctxV, cerr := cs.build(verifierID)
			if cerr != nil {
				t.Fatalf("harness: context: %v", cerr)
			}
			var verr error
			vlib.NoPanic(t, "Verify of a wrong-witness proof", func() { verr = in.Verify(cn, ctxV, seed+1, "", false, proof, false) })
			if verr == nil {
				t.Fatalf("WRONG WITNESS: %v: a %s proof made WITHOUT a valid witness was ACCEPTED\nproof: %x", sp, cn, proof)
			}
		} else if se, ok := err.(*stepErr); !ok || se.step != "Prove" {
			t.Fatalf("%v: proving failed before Prove: %v", sp, err)
		}
		// the n-ary OR looks for the branch its witness fits: without one it must refuse
		if sp.Kind == "or^n(S)" && outcome != "refused" {
			t.Fatalf("WRONG WITNESS: %v: the n-ary OR prover produced a proof although its witness fits no branch", sp)
		}
		vlib.Case(test, vlib.Desc(in.Proto(), cn, in.Shape(), in.Group(), "wrong-witness", outcome), true,
			"proto="+in.Proto(), "compiler="+string(cn), "kind="+sp.Kind, "outcome="+sp.Kind+":"+outcome)
	})
}

// TestOrEachBranch enumerates, for every OR shape and every branch, the case "exactly this
// branch has a witness" under the three compilers on two groups.
func TestOrEachBranch(t *testing.T) {
	const test = "OrEachBranch"
	i := 0
	for _, kind := range composedKinds {
		if !isOrKind(kind) {
			continue
		}
		ns := []int{2}
		if kind == "or^n(S)" {
			ns = []int{2, 3}
		}
		for _, n := range ns {
			for b := 0; b < n; b++ {
				for _, g := range []string{"k256", "ed25519"} {
					for _, cn := range []compiler.Name{fiatshamir.Name, fischlin.Name, randfischlin.Name} {
						i++
						if !vlib.Mine(i) {
							continue
						}
						sp := spec{Kind: kind, Group: g, Seed: vlib.Seed()*1000 + uint64(i), WClass: "rnd", Gen: "std", N: n, Branch: b}
						in := buildSpec(sp)
						if err := in.ValidateOwn(1); err != nil {
							t.Fatalf("%v: the library's ValidateStatement rejects an OR statement with a witness for branch %d: %v", sp, b, err)
						}
						cs := ctxSpec{Seed: uint64(i), BindPID: true, PID: 1}
						proveAndCheck(t, in, cn, cs, uint64(i), sp.String())
						if strings.HasPrefix(in.Shape(), "or") {
							// no witness at all: a transcript of simulated branches only must not verify under another challenge
							n := in.ChallengeLen()
							eSim, e := make([]byte, n), make([]byte, n)
							eSim[0], e[n-1] = byte(i), byte(b+1)
							if accepted, err := in.SimulateUnder(uint64(i), eSim, e); err != nil {
								t.Fatalf("HVZK: %v: simulator: %v", sp, err)
							} else if accepted {
								t.Fatalf("OR: %v: a transcript whose branches were ALL simulated (branch challenges XOR to %x) was ACCEPTED under the challenge %x", sp, eSim, e)
							}
						}
						vlib.Case(test, vlib.Desc(in.Shape(), g, cn), true, "shape="+in.Shape(), "compiler="+string(cn))
					}
				}
			}
		}
	}
	vlib.Exhaustive("OR shapes x true branch x {k256, ed25519} x {FiatShamir, Fischlin, RandomisedFischlin}: completeness with a witness for exactly that branch")
}
