package c08

import (
	"fmt"
	"io"
	"math/big"
	"sync"
	"testing"

	"pgregory.net/rapid"

	"github.com/bronlabs/bron-crypto/pkg/base/algebra"
	"github.com/bronlabs/bron-crypto/pkg/base/curves/k256"
	"github.com/bronlabs/bron-crypto/pkg/base/nt/modular"
	"github.com/bronlabs/bron-crypto/pkg/base/nt/num"
	"github.com/bronlabs/bron-crypto/pkg/base/nt/znstar"
	"github.com/bronlabs/bron-crypto/pkg/base/utils/algebrautils"
	"github.com/bronlabs/bron-crypto/pkg/commitments/intcom"
	"github.com/bronlabs/bron-crypto/pkg/encryption/paillier"
	"github.com/bronlabs/bron-crypto/pkg/proofs/cggmp21/affg"
	"github.com/bronlabs/bron-crypto/pkg/proofs/cggmp21/affgstar"
	"github.com/bronlabs/bron-crypto/pkg/proofs/cggmp21/blummod"
	"github.com/bronlabs/bron-crypto/pkg/proofs/cggmp21/dec"
	"github.com/bronlabs/bron-crypto/pkg/proofs/cggmp21/enc"
	"github.com/bronlabs/bron-crypto/pkg/proofs/cggmp21/fac"
	"github.com/bronlabs/bron-crypto/pkg/proofs/paillier/nthroot"
	paillierrange "github.com/bronlabs/bron-crypto/pkg/proofs/paillier/range"
	"github.com/bronlabs/bron-crypto/pkg/proofs/prm"
	"github.com/bronlabs/bron-crypto/pkg/proofs/sigma"
	"github.com/bronlabs/bron-crypto/pkg/proofs/sigma/compiler"
	"github.com/bronlabs/bron-crypto/pkg/proofs/sigma/compiler/fiatshamir"
	"verif/harness/vlib"
	"verif/harness/vlib/lx"
)

// ---- key material from the prime fixtures, through the library's constructors ----------------

func must[T any](v T, err error) T {
	if err != nil {
		panic("harness: constructor failed on fixture material: " + err.Error())
	}
	return v
}

func natPlus(b *big.Int) *num.NatPlus { return must(num.NPlus().FromBytesBE(b.Bytes())) }
func natOf(b *big.Int) *num.Nat       { return must(num.N().FromBytesBE(b.Bytes())) }

type pkey struct {
	id   string
	p, q *big.Int
	grp  *znstar.PaillierGroupKnownOrder
	sk   *paillier.SecretKey
	pk   *paillier.PublicKey
	n    *num.NatPlus
}

var (
	keyMu    sync.Mutex
	keyCache = map[string]*pkey{}
	rpCache  = map[string]*rpKey{}
)

// paillierKey builds the key of primes (i, j) of the fixture list (bits, kind).
func paillierKey(bits int, kind string, i, j int) *pkey {
	id := fmt.Sprintf("%s/%d[%d,%d]", kind, 2*bits, i, j)
	keyMu.Lock()
	defer keyMu.Unlock()
	if k, ok := keyCache[id]; ok {
		return k
	}
	ps := vlib.Primes(bits, kind)
	if i == j || i >= len(ps) || j >= len(ps) {
		panic("harness: bad key id " + id)
	}
	k := &pkey{id: id, p: ps[i], q: ps[j]}
	k.grp = must(znstar.NewPaillierGroup(natPlus(k.p), natPlus(k.q)))
	k.sk = must(paillier.NewSecretKey(k.grp))
	k.pk = k.sk.Public()
	k.n = k.grp.N()
	keyCache[id] = k
	return k
}

type rpKey struct {
	id string
	td *intcom.TrapdoorKey
	ck *intcom.CommitmentKey
	t  *znstar.RSAGroupElementKnownOrder
	g  *znstar.RSAGroupKnownOrder
	p4 *num.NatPlus // phi(N)/4
}

// ringPedersen builds ring-Pedersen parameters over the product of two safe fixture primes:
// t a generator of QR(N) and s = t^lambda, as SamplePedersenParameters does, but on fixtures.
func ringPedersen(bits, i, j int, seed uint64) *rpKey {
	id := fmt.Sprintf("rp/%d[%d,%d]/%d", 2*bits, i, j, seed)
	keyMu.Lock()
	defer keyMu.Unlock()
	if k, ok := rpCache[id]; ok {
		return k
	}
	ps := vlib.Primes(bits, "safe")
	p, q := natPlus(ps[i]), natPlus(ps[j])
	g := must(znstar.NewRSAGroup(p, q))
	prng := vlib.NewPRNG(seed, id)
	k := &rpKey{id: id, g: g, p4: p.Rsh(1).Mul(q.Rsh(1))}
	zmod := must(num.NewZMod(k.p4))
	for try := 0; ; try++ {
		if try > 64 {
			panic("harness: no ring-Pedersen parameters after 64 tries")
		}
		t, err := g.RandomQuadraticResidue(prng)
		if err != nil {
			panic("harness: RandomQuadraticResidue: " + err.Error())
		}
		lambda, err := algebrautils.RandomNonIdentity(zmod, prng)
		if err != nil {
			panic("harness: sampling lambda: " + err.Error())
		}
		td, err := intcom.NewTrapdoorKey(t, lambda)
		if err != nil {
			continue // not a generator / lambda not a unit: as the sampler, try again
		}
		k.td, k.t, k.ck = td, t, td.Export()
		break
	}
	rpCache[id] = k
	return k
}

// otherLambda: the same t with another trapdoor: the statement with s altered.
func (k *rpKey) otherLambda(seed uint64) *intcom.TrapdoorKey {
	zmod := must(num.NewZMod(k.p4))
	prng := vlib.NewPRNG(seed, k.id+"/other-lambda")
	for try := 0; try < 64; try++ {
		lambda := must(algebrautils.RandomNonIdentity(zmod, prng))
		if td, err := intcom.NewTrapdoorKey(k.t, lambda); err == nil {
			return td
		}
	}
	panic("harness: no second lambda")
}

// ---- heavy instances -----------------------------------------------------------------------------------

type heavySpec struct {
	Kind string
	Bits int    // bits of one prime
	PK   string // kind of the Paillier primes
	I, D int    // first prime index and distance to the second
	Seed uint64
}

func (h heavySpec) String() string {
	return fmt.Sprintf("{%s %s/%d[%d,+%d] seed=%d}", h.Kind, h.PK, 2*h.Bits, h.I, h.D, h.Seed)
}

var heavyKinds = []string{"nthroot", "nthroot", "range", "range", "prm", "prm", "cggmp21-enc", "cggmp21-enc", "cggmp21-fac", "cggmp21-fac", "cggmp21-blummod", "cggmp21-blummod",
	"cggmp21-affg", "cggmp21-affgstar", "cggmp21-dec"}

func drawHeavy(t *rapid.T) heavySpec {
	h := heavySpec{
		Kind: rapid.SampledFrom(heavyKinds).Draw(t, "kind"),
		Bits: 512,
		PK:   rapid.SampledFrom([]string{"ord", "blum", "safe"}).Draw(t, "prime-kind"),
		I:    rapid.IntRange(0, 5).Draw(t, "prime-i"),
		D:    rapid.IntRange(1, 5).Draw(t, "prime-d"),
		Seed: rapid.Uint64().Draw(t, "inst-seed"),
	}
	if vlib.Thorough() && rapid.IntRange(0, 3).Draw(t, "big") == 0 {
		h.Bits = 1024
	}
	switch h.Kind {
	case "cggmp21-affg", "cggmp21-affgstar", "cggmp21-dec":
		h.Bits = 1024 // l = 256, eps = 512, l' = 1280 need moduli of at least 1792 bits
	}
	if h.Kind == "cggmp21-blummod" && h.PK == "ord" {
		h.PK = "blum"
	}
	return h
}

// key n of the family of this spec: fresh(0) uses n = 0.
func (h heavySpec) key(n int) *pkey {
	i := (h.I + n) % 6
	return paillierKey(h.Bits, h.PK, i, (i+h.D)%6)
}

func (h heavySpec) rp(n int) *rpKey {
	i := (h.I + n) % 6
	return ringPedersen(h.Bits, i, (i+h.D)%6, h.Seed%4)
}

var fsOnly = []compiler.Name{fiatshamir.Name}

func buildHeavy(h heavySpec) inst {
	group := fmt.Sprintf("N%d-%s", 2*h.Bits, h.PK)
	prng := func(label string, i int) io.Reader { return vlib.NewPRNG(h.Seed, fmt.Sprintf("%s/%d", label, i)) }
	switch h.Kind {
	case "nthroot":
		type (
			AR = *modular.OddPrimeSquareFactors
			X  = *nthroot.Statement[AR]
			W  = *nthroot.Witness[AR]
			A  = *nthroot.Commitment[AR]
			S  = *nthroot.State[AR]
			Z  = *nthroot.Response[AR]
		)
		k := h.key(0)
		p := &part[X, W, A, S, Z]{
			shape: "NR",
			mk: func(r io.Reader) (sigma.Protocol[X, W, A, S, Z], error) {
				q, err := nthroot.NewProtocol(k.grp, r)
				if err != nil {
					return nil, err
				}
				return q, nil
			},
			fresh: func(i int) (X, W) {
				w := must(k.grp.Random(prng("nthroot-w", i)))
				x := must(k.grp.NthResidue(w))
				return must(nthroot.NewStatement(x)), must(nthroot.NewWitness(w))
			},
			extract: func(q sigma.Protocol[X, W, A, S, Z], x X, a A, es []sigma.ChallengeBytes, zs []Z) (W, error) {
				return q.(*nthroot.Protocol[AR]).Extract(x, a, es, zs)
			},
		}
		p.alts = func(x X) []negStmt[X] {
			y := must(k.grp.Random(prng("nthroot-alt", 0)))
			return []negStmt[X]{{"stmt-alt:X", must(nthroot.NewStatement(x.X.Op(y)))}}
		}
		return p.inst("nthroot", group, nil)
	case "range":
		type (
			X = *paillierrange.Statement
			W = *paillierrange.Witness
			A = *paillierrange.Commitment
			S = *paillierrange.State
			Z = *paillierrange.Response
		)
		k := h.key(0)
		lBig := new(big.Int).Lsh(big.NewInt(1), 248)
		lBig.Add(lBig, new(big.Int).SetUint64(h.Seed))
		l := natPlus(lBig)
		p := &part[X, W, A, S, Z]{
			shape:     "RG",
			compilers: fsOnly,
			mk: func(r io.Reader) (sigma.Protocol[X, W, A, S, Z], error) {
				q, err := paillierrange.NewPaillierRange(128, l, k.sk, r)
				if err != nil {
					return nil, err
				}
				return q, nil
			},
			mkVerifier: func(r io.Reader) (sigma.Protocol[X, W, A, S, Z], error) {
				q, err := paillierrange.NewPaillierRange(128, l, k.pk, r)
				if err != nil {
					return nil, err
				}
				return q, nil
			},
			fresh: func(i int) (X, W) {
				r := prng("range-x", i)
				buf := make([]byte, 40)
				_, _ = io.ReadFull(r, buf)
				xb := new(big.Int).Mod(new(big.Int).SetBytes(buf), lBig)
				x := must(paillier.NewPlaintextFromNat(natOf(xb), k.n))
				nonce := must(k.pk.SampleNonce(r))
				c := must(k.pk.EncryptWithNonce(x, nonce))
				return must(paillierrange.NewStatement(c)), must(paillierrange.NewWitness(x, nonce))
			},
		}
		p.alts = func(x X) []negStmt[X] {
			one := must(paillier.NewPlaintextFromNat(natOf(big.NewInt(1)), k.n))
			return []negStmt[X]{{"stmt-alt:C", must(paillierrange.NewStatement(must(k.pk.Shift(x.C, one))))}}
		}
		return p.inst("paillier-range", group, nil)
	case "prm":
		type (
			X = *prm.Statement
			W = *prm.Witness
			A = *prm.Commitment
			S = *prm.State
			Z = *prm.Response
		)
		p := &part[X, W, A, S, Z]{
			shape:     "PRM",
			compilers: fsOnly,
			mk: func(r io.Reader) (sigma.Protocol[X, W, A, S, Z], error) {
				q, err := prm.NewProtocol(r)
				if err != nil {
					return nil, err
				}
				return q, nil
			},
			fresh: func(i int) (X, W) {
				k := h.rp(i)
				return must(prm.NewStatement(k.td.Export())), must(prm.NewWitness(k.td))
			},
			alts: func(X) []negStmt[X] {
				return []negStmt[X]{{"stmt-alt:s", must(prm.NewStatement(h.rp(0).otherLambda(h.Seed).Export()))}}
			},
		}
		return p.inst("prm", fmt.Sprintf("N%d-safe", 2*h.Bits), nil)
	case "cggmp21-enc":
		type (
			X = *enc.Statement
			W = *enc.Witness
			A = *enc.Commitment
			S = *enc.State
			Z = *enc.Response
		)
		k, rp := h.key(0), h.rp(1)
		p := &part[X, W, A, S, Z]{
			shape:     "ENC",
			compilers: fsOnly,
			mk: func(r io.Reader) (sigma.Protocol[X, W, A, S, Z], error) {
				q, err := enc.NewProtocol(k.pk, rp.ck, 256, 512, r)
				if err != nil {
					return nil, err
				}
				return q, nil
			},
			fresh: func(i int) (X, W) {
				r := prng("enc-k", i)
				buf := make([]byte, 32)
				_, _ = io.ReadFull(r, buf)
				kb := new(big.Int).SetBytes(buf[1:])
				if buf[0]&1 == 1 {
					kb.Neg(kb)
				}
				pt := must(paillier.NewPlaintextSymmetric(must(num.Z().FromBig(kb)), k.n))
				nonce := must(k.pk.SampleNonce(r))
				c := must(k.pk.EncryptWithNonce(pt, nonce))
				return must(enc.NewStatement(c)), must(enc.NewWitness(pt, nonce))
			},
		}
		p.alts = func(X) []negStmt[X] {
			// the same plaintext + 1 under the same nonce
			x0, _ := p.fresh(0)
			_ = x0
			r := prng("enc-k", 0)
			buf := make([]byte, 32)
			_, _ = io.ReadFull(r, buf)
			kb := new(big.Int).SetBytes(buf[1:])
			if buf[0]&1 == 1 {
				kb.Neg(kb)
			}
			kb.Add(kb, big.NewInt(1))
			pt := must(paillier.NewPlaintextSymmetric(must(num.Z().FromBig(kb)), k.n))
			nonce := must(k.pk.SampleNonce(r))
			return []negStmt[X]{{"stmt-alt:K", must(enc.NewStatement(must(k.pk.EncryptWithNonce(pt, nonce))))}}
		}
		return p.inst("cggmp21-enc", group, nil)
	case "cggmp21-fac":
		type (
			X = *fac.Statement
			W = *fac.Witness
			A = *fac.Commitment
			S = *fac.State
			Z = *fac.Response
		)
		rp := h.rp(3)
		p := &part[X, W, A, S, Z]{
			shape:     "FAC",
			compilers: fsOnly,
			mk: func(r io.Reader) (sigma.Protocol[X, W, A, S, Z], error) {
				q, err := fac.NewProtocol(rp.ck, 128, 256, r)
				if err != nil {
					return nil, err
				}
				return q, nil
			},
			fresh: func(i int) (X, W) {
				k := h.key(i)
				return must(fac.NewStatement(k.pk)), must(fac.NewWitness(k.sk))
			},
		}
		return p.inst("cggmp21-fac", group, nil)
	case "cggmp21-blummod":
		type (
			X = *blummod.Statement
			W = *blummod.Witness
			A = *blummod.Commitment
			S = *blummod.State
			Z = *blummod.Response
		)
		p := &part[X, W, A, S, Z]{
			shape:     "MOD",
			compilers: fsOnly,
			mk: func(r io.Reader) (sigma.Protocol[X, W, A, S, Z], error) {
				q, err := blummod.NewProtocol(r)
				if err != nil {
					return nil, err
				}
				return q, nil
			},
			fresh: func(i int) (X, W) {
				k := h.key(i)
				return must(blummod.NewStatement(k.pk)), must(blummod.NewWitness(k.sk))
			},
		}
		return p.inst("cggmp21-blummod", group, nil)
	case "cggmp21-affg", "cggmp21-affgstar", "cggmp21-dec":
		return buildAff(h, group)
	}
	panic("harness: unknown heavy kind " + h.Kind)
}

// TestHeavy: the Paillier-, ring-Pedersen- and CGGMP21-based sigma protocols on 1024-bit
// fixture moduli (2048-bit in the thorough tier) through the same three checks.
func TestHeavy(t *testing.T) {
	const test = "Heavy"
	vlib.Check(t, 64, func(t *rapid.T) {
		h := drawHeavy(t)
		var in inst
		vlib.NoPanic(t, "building "+h.String(), func() { in = buildHeavy(h) })
		switch rapid.SampledFrom([]string{"binding", "binding", "binding", "tamper", "tamper", "tamper", "sigma", "sigma"}).Draw(t, "check") {
		case "binding":
			runBinding(t, test, in, h.String())
		case "tamper":
			runTamper(t, test, in, h.String())
		default:
			runSigma(t, test, in, h.String(), []string{"soundness", "hvzk", "hvzk", "interactive", "zk", "zk:sid", "zk:stmt"})
		}
	})
}

// ---- CGGMP21 affine-operation and decryption proofs over k256 (2048-bit moduli) ----------------

type (
	kG = *k256.Point
	kB = *k256.BaseFieldElement
	kS = *k256.Scalar
)

// affValues are the drawn values behind one statement of affg / affgstar / dec.
type affValues struct {
	x, y           *num.Int
	xPoint, sPoint kG
	c, d, bigY     *paillier.Ciphertext
	yN1            *paillier.Plaintext
	rho, rhoY      *paillier.Nonce
	n0, n1         *paillier.PublicKey
}

func signedFrom(r io.Reader, bits int) *big.Int {
	buf := make([]byte, bits/8+1)
	_, _ = io.ReadFull(r, buf)
	v := new(big.Int).SetBytes(buf[1:])
	if buf[0]&1 == 1 {
		v.Neg(v)
	}
	return v
}

// affDraw builds D = C^x * Enc_N0(y; rho), Y = Enc_N1(y; rhoY), X = g^x (affg, affgstar) resp.
// D = Enc_N0(y; rho) * K^(-x), S = g^y (dec; c plays the role of K), as the repository's tests do.
func affDraw(h heavySpec, i int, decShape bool) *affValues {
	curve := k256.NewCurve()
	fld := algebra.StructureMustBeAs[algebra.PrimeField[kS]](curve.ScalarStructure())
	q := lx.Order(fld)
	r := vlib.NewPRNG(h.Seed, fmt.Sprintf("aff/%d", i))
	k0, k1 := h.key(0), h.key(1)
	v := &affValues{n0: k0.pk, n1: k1.pk}
	xb, yb := signedFrom(r, 248), signedFrom(r, 1024)
	if decShape {
		yb = signedFrom(r, 248)
	}
	v.x, v.y = must(num.Z().FromBig(xb)), must(num.Z().FromBig(yb))
	v.xPoint = curve.ScalarBaseMul(lx.FE(fld, new(big.Int).Mod(xb, q)))
	v.sPoint = curve.ScalarBaseMul(lx.FE(fld, new(big.Int).Mod(yb, q)))
	v.yN1 = must(paillier.NewPlaintextSymmetric(v.y, k1.n))
	v.rhoY = must(k1.pk.SampleNonce(r))
	v.bigY = must(k1.pk.EncryptWithNonce(v.yN1, v.rhoY))
	cPt := must(paillier.NewPlaintextSymmetric(must(num.Z().FromBig(signedFrom(r, 256))), k0.n))
	v.c = must(k0.pk.EncryptWithNonce(cPt, must(k0.pk.SampleNonce(r))))
	v.rho = must(k0.pk.SampleNonce(r))
	encY := must(k0.pk.EncryptWithNonce(must(paillier.NewPlaintextSymmetric(v.y, k0.n)), v.rho))
	cX := must(k0.pk.CiphertextScalarOp(v.c, v.x))
	if decShape {
		v.d = must(k0.pk.CiphertextOp(encY, must(k0.pk.CiphertextOpInv(cX))))
	} else {
		v.d = must(k0.pk.CiphertextOp(cX, encY))
	}
	return v
}

func buildAff(h heavySpec, group string) inst {
	curve := k256.NewCurve()
	const l, lPrime, eps = 256, 1280, 512
	k0 := h.key(0)
	one := must(paillier.NewPlaintextFromNat(natOf(big.NewInt(1)), k0.n))
	switch h.Kind {
	case "cggmp21-affg":
		type (
			X = *affg.Statement[kG, kB, kS]
			W = *affg.Witness
			A = *affg.Commitment[kG, kB, kS]
			S = *affg.State
			Z = *affg.Response
		)
		rp := h.rp(2)
		p := &part[X, W, A, S, Z]{
			shape: "AFFG", compilers: fsOnly,
			mk: func(r io.Reader) (sigma.Protocol[X, W, A, S, Z], error) {
				q, err := affg.NewProtocol(rp.ck, l, lPrime, eps, curve, r)
				if err != nil {
					return nil, err
				}
				return q, nil
			},
			fresh: func(i int) (X, W) {
				v := affDraw(h, i, false)
				return must(affg.NewStatement(v.n0, v.n1, v.c, v.d, v.bigY, v.xPoint)), must(affg.NewWitness(v.x, v.yN1, v.rho, v.rhoY))
			},
			alts: func(X) []negStmt[X] {
				v := affDraw(h, 0, false)
				return []negStmt[X]{
					{"stmt-alt:D", must(affg.NewStatement(v.n0, v.n1, v.c, must(v.n0.Shift(v.d, one)), v.bigY, v.xPoint))},
					{"stmt-alt:X", must(affg.NewStatement(v.n0, v.n1, v.c, v.d, v.bigY, v.xPoint.Op(curve.Generator())))},
				}
			},
		}
		return p.inst("cggmp21-affg", group, nil)
	case "cggmp21-affgstar":
		type (
			X = *affgstar.Statement[kG, kB, kS]
			W = *affgstar.Witness
			A = *affgstar.Commitment[kG, kB, kS]
			S = *affgstar.State
			Z = *affgstar.Response
		)
		p := &part[X, W, A, S, Z]{
			shape: "AFFG*", compilers: fsOnly,
			mk: func(r io.Reader) (sigma.Protocol[X, W, A, S, Z], error) {
				q, err := affgstar.NewProtocol(l, lPrime, eps, curve, r)
				if err != nil {
					return nil, err
				}
				return q, nil
			},
			fresh: func(i int) (X, W) {
				v := affDraw(h, i, false)
				return must(affgstar.NewStatement(v.n0, v.n1, v.c, v.d, v.bigY, v.xPoint)), must(affgstar.NewWitness(v.x, v.yN1, v.rho, v.rhoY))
			},
			alts: func(X) []negStmt[X] {
				v := affDraw(h, 0, false)
				return []negStmt[X]{
					{"stmt-alt:D", must(affgstar.NewStatement(v.n0, v.n1, v.c, must(v.n0.Shift(v.d, one)), v.bigY, v.xPoint))},
					{"stmt-alt:X", must(affgstar.NewStatement(v.n0, v.n1, v.c, v.d, v.bigY, v.xPoint.Op(curve.Generator())))},
				}
			},
		}
		return p.inst("cggmp21-affgstar", group, nil)
	default:
		type (
			X = *dec.Statement[kG, kB, kS]
			W = *dec.Witness
			A = *dec.Commitment[kG, kB, kS]
			S = *dec.State
			Z = *dec.Response
		)
		p := &part[X, W, A, S, Z]{
			shape: "DEC", compilers: fsOnly,
			mk: func(r io.Reader) (sigma.Protocol[X, W, A, S, Z], error) {
				q, err := dec.NewProtocol(l, lPrime, eps, curve.Generator(), r)
				if err != nil {
					return nil, err
				}
				return q, nil
			},
			fresh: func(i int) (X, W) {
				v := affDraw(h, i, true)
				return must(dec.NewStatement(v.n0, v.c, v.xPoint, v.d, v.sPoint)), must(dec.NewWitness(v.x, v.y, v.rho))
			},
			alts: func(X) []negStmt[X] {
				v := affDraw(h, 0, true)
				return []negStmt[X]{
					{"stmt-alt:D", must(dec.NewStatement(v.n0, v.c, v.xPoint, must(v.n0.Shift(v.d, one)), v.sPoint))},
					{"stmt-alt:S", must(dec.NewStatement(v.n0, v.c, v.xPoint, v.d, v.sPoint.Op(curve.Generator())))},
				}
			},
		}
		return p.inst("cggmp21-dec", group, nil)
	}
}
