package c08

import (
	"fmt"
	"io"
	"math/big"

	"pgregory.net/rapid"

	"github.com/bronlabs/bron-crypto/pkg/base/algebra"
	"github.com/bronlabs/bron-crypto/pkg/base/curves/edwards25519"
	"github.com/bronlabs/bron-crypto/pkg/base/curves/k256"
	"github.com/bronlabs/bron-crypto/pkg/base/curves/p256"
	"github.com/bronlabs/bron-crypto/pkg/base/curves/pairable/bls12381"
	"github.com/bronlabs/bron-crypto/pkg/base/curves/pasta"
	"github.com/bronlabs/bron-crypto/pkg/commitments/indcpacom"
	"github.com/bronlabs/bron-crypto/pkg/encryption/elgamal"
	"github.com/bronlabs/bron-crypto/pkg/proofs/dlog/batch_schnorr"
	"github.com/bronlabs/bron-crypto/pkg/proofs/dlog/schnorr"
	"github.com/bronlabs/bron-crypto/pkg/proofs/elgamal/elcomop"
	"github.com/bronlabs/bron-crypto/pkg/proofs/elgamal/elog"
	"github.com/bronlabs/bron-crypto/pkg/proofs/okamoto"
	"github.com/bronlabs/bron-crypto/pkg/proofs/sigma"
	"github.com/bronlabs/bron-crypto/pkg/proofs/sigma/compiler"
	"github.com/bronlabs/bron-crypto/pkg/proofs/sigma/compose/sigand"
	"github.com/bronlabs/bron-crypto/pkg/proofs/sigma/compose/sigor"
	"verif/harness/vlib"
	"verif/harness/vlib/lx"
)

// ---- a protocol together with a family of valid (statement, witness) pairs -------------------

// part is a sigma protocol with an indexed family of valid pairs: fresh(0) is "the" pair of the
// case, fresh(1) another valid statement, fresh(badIdx).w a wrong witness for fresh(0).x (for a
// base protocol: the witness of an unrelated statement), other indices feed compositions.
type part[X sigma.Statement, W sigma.Witness, A sigma.Statement, S sigma.State, Z sigma.Response] struct {
	shape     string
	mk        func(prng io.Reader) (sigma.Protocol[X, W, A, S, Z], error)
	mkRenamed func(prng io.Reader) (sigma.Protocol[X, W, A, S, Z], error)
	// mkVerifier: the verifying side's protocol object when it is built from public material only
	mkVerifier func(prng io.Reader) (sigma.Protocol[X, W, A, S, Z], error)
	compilers  []compiler.Name // nil: all three
	fresh      func(i int) (X, W)
	alts       func(x X) []negStmt[X] // the statement with one component altered / moved / dropped
	extract    func(p sigma.Protocol[X, W, A, S, Z], x X, a A, es []sigma.ChallengeBytes, zs []Z) (W, error)
}

func (p *part[X, W, A, S, Z]) inst(protoName, group string, order *big.Int) inst {
	x, w := p.fresh(0)
	xo, _ := p.fresh(1)
	_, wb := p.fresh(badIdx)
	s := &sig[X, W, A, S, Z]{
		proto: protoName, group: group, shape: p.shape, order: order,
		mk: p.mk, mkRenamed: p.mkRenamed, mkVerifier: p.mkVerifier, compilers: p.compilers, x: x, w: w, badW: &wb, extract: p.extract,
	}
	s.neg = append(s.neg, negStmt[X]{"stmt-other", xo})
	if p.alts != nil {
		s.neg = append(s.neg, p.alts(x)...)
	}
	return s
}

// ---- groups ------------------------------------------------------------------------------------------

type env[G algebra.PrimeGroupElement[G, S], S algebra.PrimeFieldElement[S]] struct {
	name string
	grp  algebra.PrimeGroup[G, S]
	fld  algebra.PrimeField[S]
	q    *big.Int
	seed uint64
}

func newEnv[G algebra.PrimeGroupElement[G, S], S algebra.PrimeFieldElement[S]](name string, g algebra.PrimeGroup[G, S], seed uint64) *env[G, S] {
	f := algebra.StructureMustBeAs[algebra.PrimeField[S]](g.ScalarStructure())
	return &env[G, S]{name: name, grp: g, fld: f, q: lx.Order(f), seed: seed}
}

func (e *env[G, S]) scalar(label string) S {
	s, err := e.fld.Random(vlib.NewPRNG(e.seed, "scalar/"+label))
	if err != nil {
		panic("harness: field.Random: " + err.Error())
	}
	return s
}

// classScalar: the witness of the case proper comes from a drawn class.
func (e *env[G, S]) classScalar(class, label string) S {
	switch class {
	case "0":
		return e.fld.Zero()
	case "1":
		return e.fld.One()
	case "q-1":
		return lx.FE(e.fld, new(big.Int).Sub(e.q, big.NewInt(1)))
	case "small":
		return lx.FE(e.fld, big.NewInt(int64(2+e.seed%1000)))
	}
	return e.scalar(label)
}

func (e *env[G, S]) point(label string) G {
	p, err := e.grp.Random(vlib.NewPRNG(e.seed, "point/"+label))
	if err != nil {
		panic("harness: group.Random: " + err.Error())
	}
	return p
}

var groupNames = []string{"k256", "p256", "ed25519", "pallas", "vesta", "bls12381g1", "bls12381g2"}

// spec is everything drawn for one cheap instance.
type spec struct {
	Kind   string
	Group  string
	Seed   uint64
	WClass string // class of the first witness scalar
	Gen    string // "std" | "rnd": generator of the Schnorr-type protocols
	N      int    // arity / batch size / number of generators
	Branch int    // true branch of OR compositions
}

var baseKinds = []string{"schnorr", "batch-schnorr", "okamoto", "elcomop", "elog"}
var composedKinds = []string{
	"and^n(S)", "and^n(O)", "andc(S,O)", "or^n(S)", "orc(S,O)",
	"and^2(or^2(S))", "or^2(and^2(S))", "andc(or^2(S),O)", "orc(and^2(S),S)", "or^2(andc(S,O))",
}

func isOrKind(k string) bool {
	switch k {
	case "or^n(S)", "orc(S,O)", "and^2(or^2(S))", "or^2(and^2(S))", "andc(or^2(S),O)", "orc(and^2(S),S)", "or^2(andc(S,O))":
		return true
	}
	return false
}

func drawSpec(t *rapid.T, kinds []string) spec {
	s := spec{
		Kind:   rapid.SampledFrom(kinds).Draw(t, "kind"),
		Group:  rapid.SampledFrom(groupNames).Draw(t, "group"),
		Seed:   rapid.Uint64().Draw(t, "inst-seed"),
		WClass: rapid.SampledFrom([]string{"rnd", "rnd", "rnd", "rnd", "rnd", "rnd", "0", "1", "q-1", "small"}).Draw(t, "wclass"),
		Gen:    rapid.SampledFrom([]string{"std", "rnd"}).Draw(t, "gen"),
	}
	switch s.Kind {
	// arities: mostly small, with a tail of larger ones (Gennaro composes one proof per coefficient,
	// i.e. arity = threshold; worker-pool / block-splitting code paths only differ past 4)
	case "batch-schnorr":
		s.N = rapid.SampledFrom([]int{2, 2, 3, 3, 4, 4, 5, 7, 9}).Draw(t, "k")
	case "okamoto":
		s.N = rapid.SampledFrom([]int{1, 1, 2, 2, 3, 3, 4, 5}).Draw(t, "n")
	case "and^n(S)", "and^n(O)":
		s.N = rapid.SampledFrom([]int{1, 2, 2, 3, 3, 4, 5, 6, 7, 9}).Draw(t, "n")
	case "or^n(S)":
		s.N = rapid.SampledFrom([]int{2, 2, 3, 3, 4, 5, 6}).Draw(t, "n")
	default:
		s.N = 2
	}
	if s.Kind == "elcomop" || s.Kind == "elog" {
		s.WClass = "rnd" // the ElGamal constructors refuse trivial keys; the plaintext exponent class is separate
	}
	if isOrKind(s.Kind) {
		s.Branch = rapid.IntRange(0, s.N-1).Draw(t, "branch")
	}
	return s
}

func (s spec) String() string {
	return fmt.Sprintf("{%s %s seed=%d w=%s gen=%s n=%d branch=%d}", s.Kind, s.Group, s.Seed, s.WClass, s.Gen, s.N, s.Branch)
}

func buildSpec(s spec) inst {
	switch s.Group {
	case "k256":
		return buildG(s, newEnv(s.Group, k256.NewCurve(), s.Seed))
	case "p256":
		return buildG(s, newEnv(s.Group, p256.NewCurve(), s.Seed))
	case "ed25519":
		return buildG(s, newEnv(s.Group, edwards25519.NewPrimeSubGroup(), s.Seed))
	case "pallas":
		return buildG(s, newEnv(s.Group, pasta.NewPallasCurve(), s.Seed))
	case "vesta":
		return buildG(s, newEnv(s.Group, pasta.NewVestaCurve(), s.Seed))
	case "bls12381g1":
		return buildG(s, newEnv(s.Group, bls12381.NewG1(), s.Seed))
	case "bls12381g2":
		return buildG(s, newEnv(s.Group, bls12381.NewG2(), s.Seed))
	}
	panic("harness: unknown group " + s.Group)
}

func buildG[G algebra.PrimeGroupElement[G, S], S algebra.PrimeFieldElement[S]](s spec, e *env[G, S]) inst {
	S_ := func(tag ...string) *part[*schnorr.Statement[G, S], *schnorr.Witness[S], *schnorr.Commitment[G, S], *schnorr.State[S], *schnorr.Response[S]] {
		return schnorrPart(e, s.Gen, s.WClass, fmt.Sprint(tag))
	}
	O_ := func(m int) *part[*okamoto.Statement[G, S], *okamoto.Witness[S], *okamoto.Commitment[G, S], *okamoto.State[S], *okamoto.Response[S]] {
		return okamotoPart(e, m, s.WClass)
	}
	switch s.Kind {
	case "schnorr":
		return S_().inst("schnorr", e.name, e.q)
	case "batch-schnorr":
		return batchPart(e, s.N, s.Gen, s.WClass).inst("batch-schnorr", e.name, e.q)
	case "okamoto":
		return O_(s.N).inst("okamoto", e.name, e.q)
	case "elcomop":
		return elcomopPart(e).inst("elcomop", e.name, e.q)
	case "elog":
		return elogPart(e).inst("elog", e.name, e.q)
	case "and^n(S)":
		return andN(S_(), s.N).inst("compose", e.name, e.q)
	case "and^n(O)":
		return andN(O_(2), s.N).inst("compose", e.name, e.q)
	case "andc(S,O)":
		return andC(S_(), O_(2)).inst("compose", e.name, e.q)
	case "or^n(S)":
		return orN(S_(), s.N, s.Branch).inst("compose", e.name, e.q)
	case "orc(S,O)":
		return orC(S_(), O_(2), s.Branch).inst("compose", e.name, e.q)
	case "and^2(or^2(S))":
		return andN(orN(S_(), 2, s.Branch), 2).inst("compose", e.name, e.q)
	case "or^2(and^2(S))":
		return orN(andN(S_(), 2), 2, s.Branch).inst("compose", e.name, e.q)
	case "andc(or^2(S),O)":
		return andC(orN(S_(), 2, s.Branch), O_(2)).inst("compose", e.name, e.q)
	case "orc(and^2(S),S)":
		return orC(andN(S_(), 2), S_("b"), s.Branch).inst("compose", e.name, e.q)
	case "or^2(andc(S,O))":
		return orN(andC(S_(), O_(2)), 2, s.Branch).inst("compose", e.name, e.q)
	}
	panic("harness: unknown kind " + s.Kind)
}

// ---- base protocols ----------------------------------------------------------------------------------

func schnorrPart[G algebra.PrimeGroupElement[G, S], S algebra.PrimeFieldElement[S]](e *env[G, S], genClass, wclass, tag string,
) *part[*schnorr.Statement[G, S], *schnorr.Witness[S], *schnorr.Commitment[G, S], *schnorr.State[S], *schnorr.Response[S]] {
	type (
		X  = *schnorr.Statement[G, S]
		W  = *schnorr.Witness[S]
		A  = *schnorr.Commitment[G, S]
		St = *schnorr.State[S]
		Z  = *schnorr.Response[S]
	)
	gen := e.grp.Generator()
	if genClass == "rnd" {
		gen = e.point("schnorr-gen")
	}
	return &part[X, W, A, St, Z]{
		shape: "S",
		mk: func(prng io.Reader) (sigma.Protocol[X, W, A, St, Z], error) {
			p, err := schnorr.NewProtocol(gen, prng)
			if err != nil {
				return nil, err
			}
			return p, nil
		},
		fresh: func(i int) (X, W) {
			var w S
			if i == 0 {
				w = e.classScalar(wclass, "schnorr-w/"+tag+"/0")
			} else {
				w = e.scalar(fmt.Sprintf("schnorr-w/%s/%d", tag, i))
			}
			return schnorr.NewStatement(gen.ScalarOp(w)), schnorr.NewWitness(w)
		},
		alts: func(x X) []negStmt[X] {
			return []negStmt[X]{{"stmt-alt:X", schnorr.NewStatement(x.X.Op(gen))}}
		},
		extract: func(p sigma.Protocol[X, W, A, St, Z], x X, a A, es []sigma.ChallengeBytes, zs []Z) (W, error) {
			return p.(*schnorr.Protocol[G, S]).Extract(x, a, es, zs)
		},
	}
}

func batchPart[G algebra.PrimeGroupElement[G, S], S algebra.PrimeFieldElement[S]](e *env[G, S], k int, genClass, wclass string,
) *part[*batch_schnorr.Statement[G, S], *batch_schnorr.Witness[S], *batch_schnorr.Commitment[G, S], *batch_schnorr.State[S], *batch_schnorr.Response[S]] {
	type (
		X  = *batch_schnorr.Statement[G, S]
		W  = *batch_schnorr.Witness[S]
		A  = *batch_schnorr.Commitment[G, S]
		St = *batch_schnorr.State[S]
		Z  = *batch_schnorr.Response[S]
	)
	gen := e.grp.Generator()
	if genClass == "rnd" {
		gen = e.point("batch-gen")
	}
	return &part[X, W, A, St, Z]{
		shape: fmt.Sprintf("B%d", k),
		mk: func(prng io.Reader) (sigma.Protocol[X, W, A, St, Z], error) {
			p, err := batch_schnorr.NewProtocol(k, e.grp, prng)
			if err != nil {
				return nil, err
			}
			return p, nil
		},
		fresh: func(i int) (X, W) {
			ws := make([]S, k)
			xs := make([]G, k)
			for j := range ws {
				if i == 0 && j == 0 {
					ws[j] = e.classScalar(wclass, "batch-w/0/0")
				} else {
					ws[j] = e.scalar(fmt.Sprintf("batch-w/%d/%d", i, j))
				}
				xs[j] = gen.ScalarOp(ws[j])
			}
			return batch_schnorr.NewStatement(gen, xs...), batch_schnorr.NewWitness(ws...)
		},
		alts: func(x X) []negStmt[X] {
			cp := func() []G { return append([]G(nil), x.Xs...) }
			first, last := cp(), cp()
			first[0] = first[0].Op(x.Gen)
			last[k-1] = last[k-1].Op(x.Gen)
			out := []negStmt[X]{
				{"stmt-alt:gen", batch_schnorr.NewStatement(x.Gen.Op(x.Gen), x.Xs...)},
				{"stmt-alt:X0", batch_schnorr.NewStatement(x.Gen, first...)},
				{"stmt-alt:Xlast", batch_schnorr.NewStatement(x.Gen, last...)},
				{"stmt-short", batch_schnorr.NewStatement(x.Gen, x.Xs[:k-1]...)},
				{"stmt-long", batch_schnorr.NewStatement(x.Gen, append(cp(), x.Xs[k-1])...)},
			}
			if !x.Xs[0].Equal(x.Xs[1]) {
				sw := cp()
				sw[0], sw[1] = sw[1], sw[0]
				out = append(out, negStmt[X]{"stmt-perm", batch_schnorr.NewStatement(x.Gen, sw...)})
			}
			return out
		},
	}
}

func okamotoPart[G algebra.PrimeGroupElement[G, S], S algebra.PrimeFieldElement[S]](e *env[G, S], m int, wclass string,
) *part[*okamoto.Statement[G, S], *okamoto.Witness[S], *okamoto.Commitment[G, S], *okamoto.State[S], *okamoto.Response[S]] {
	type (
		X  = *okamoto.Statement[G, S]
		W  = *okamoto.Witness[S]
		A  = *okamoto.Commitment[G, S]
		St = *okamoto.State[S]
		Z  = *okamoto.Response[S]
	)
	gens := make([]G, m)
	for i := range gens {
		gens[i] = e.point(fmt.Sprintf("okamoto-gen/%d", i))
	}
	return &part[X, W, A, St, Z]{
		shape: fmt.Sprintf("O%d", m),
		mk: func(prng io.Reader) (sigma.Protocol[X, W, A, St, Z], error) {
			p, err := okamoto.NewProtocol(gens, prng)
			if err != nil {
				return nil, err
			}
			return p, nil
		},
		fresh: func(i int) (X, W) {
			ws := make([]S, m)
			acc := e.grp.OpIdentity()
			for j := range ws {
				if i == 0 && j == 0 {
					ws[j] = e.classScalar(wclass, "okamoto-w/0/0")
				} else {
					ws[j] = e.scalar(fmt.Sprintf("okamoto-w/%d/%d", i, j))
				}
				acc = acc.Op(gens[j].ScalarOp(ws[j]))
			}
			x, err := okamoto.NewStatement[G, S](acc)
			if err != nil {
				panic("harness: okamoto.NewStatement: " + err.Error())
			}
			w, err := okamoto.NewWitness(ws...)
			if err != nil {
				panic("harness: okamoto.NewWitness: " + err.Error())
			}
			return x, w
		},
		alts: func(x X) []negStmt[X] {
			y, _ := okamoto.NewStatement[G, S](x.X.Op(gens[0]))
			return []negStmt[X]{{"stmt-alt:X", y}}
		},
		extract: func(p sigma.Protocol[X, W, A, St, Z], x X, a A, es []sigma.ChallengeBytes, zs []Z) (W, error) {
			return p.(*okamoto.Protocol[G, S]).Extract(x, a, es, zs)
		},
	}
}

type egKeyT[G algebra.PrimeGroupElement[G, S], S algebra.PrimeFieldElement[S]] = *indcpacom.CommitmentKey[*elgamal.PublicKey[G, S], *elgamal.Plaintext[G, S], *elgamal.Nonce[S], *elgamal.Ciphertext[G, S]]

type egSetup[G algebra.PrimeGroupElement[G, S], S algebra.PrimeFieldElement[S]] struct {
	key egKeyT[G, S]
	g   G
}

func newEgSetup[G algebra.PrimeGroupElement[G, S], S algebra.PrimeFieldElement[S]](e *env[G, S]) *egSetup[G, S] {
	g := e.grp.Generator()
	a := e.scalar("elgamal-sk")
	sk, err := elgamal.NewSecretKey(g, a)
	if err != nil {
		panic("harness: elgamal.NewSecretKey: " + err.Error())
	}
	key, err := indcpacom.NewCommitmentKey(sk.Public())
	if err != nil {
		panic("harness: indcpacom.NewCommitmentKey: " + err.Error())
	}
	return &egSetup[G, S]{key: key, g: g}
}

// commit builds the ElGamal commitment of g^y under nonce lambda, as the callers (and the repository's tests) do.
func (s *egSetup[G, S]) commit(y, lambda S) (*elcomop.Statement[G, S], *elcomop.Witness[G, S]) {
	must := func(err error) {
		if err != nil {
			panic("harness: elgamal commitment: " + err.Error())
		}
	}
	nonce, err := elgamal.NewNonce(lambda)
	must(err)
	wit, err := indcpacom.NewWitness(nonce)
	must(err)
	pt, err := elgamal.NewPlaintext(s.g.ScalarOp(y))
	must(err)
	msg, err := indcpacom.NewMessage(pt)
	must(err)
	com, err := s.key.CommitWithWitness(msg, wit)
	must(err)
	x, err := elcomop.NewStatement(com)
	must(err)
	w, err := elcomop.NewWitness(msg, wit)
	must(err)
	return x, w
}

// alter returns the commitment statement with component idx (0: Gamma, 1: Delta) multiplied by g.
func (s *egSetup[G, S]) alter(x *elcomop.Statement[G, S], idx int) *elcomop.Statement[G, S] {
	comps := x.X.Components()
	c := []G{comps[0], comps[1]}
	c[idx] = c[idx].Op(s.g)
	ct, err := elgamal.NewCiphertext[G, S](c[0], c[1])
	if err != nil {
		panic("harness: elgamal.NewCiphertext: " + err.Error())
	}
	com, err := indcpacom.NewCommitment(ct)
	if err != nil {
		panic("harness: indcpacom.NewCommitment: " + err.Error())
	}
	y, err := elcomop.NewStatement(com)
	if err != nil {
		panic("harness: elcomop.NewStatement: " + err.Error())
	}
	return y
}

func elcomopPart[G algebra.PrimeGroupElement[G, S], S algebra.PrimeFieldElement[S]](e *env[G, S],
) *part[*elcomop.Statement[G, S], *elcomop.Witness[G, S], *elcomop.Commitment[G, S], *elcomop.State[G, S], *elcomop.Response[G, S]] {
	type (
		X  = *elcomop.Statement[G, S]
		W  = *elcomop.Witness[G, S]
		A  = *elcomop.Commitment[G, S]
		St = *elcomop.State[G, S]
		Z  = *elcomop.Response[G, S]
	)
	su := newEgSetup(e)
	return &part[X, W, A, St, Z]{
		shape: "EC",
		mk: func(prng io.Reader) (sigma.Protocol[X, W, A, St, Z], error) {
			p, err := elcomop.NewProtocol(e.grp, su.key, prng)
			if err != nil {
				return nil, err
			}
			return p, nil
		},
		fresh: func(i int) (X, W) {
			return su.commit(e.scalar(fmt.Sprintf("elcomop-y/%d", i)), e.scalar(fmt.Sprintf("elcomop-l/%d", i)))
		},
		alts: func(x X) []negStmt[X] {
			return []negStmt[X]{{"stmt-alt:Gamma", su.alter(x, 0)}, {"stmt-alt:Delta", su.alter(x, 1)}}
		},
		extract: func(p sigma.Protocol[X, W, A, St, Z], x X, a A, es []sigma.ChallengeBytes, zs []Z) (W, error) {
			return p.(*elcomop.Protocol[G, S]).Extract(x, a, es, zs)
		},
	}
}

func elogPart[G algebra.PrimeGroupElement[G, S], S algebra.PrimeFieldElement[S]](e *env[G, S],
) *part[*elog.Statement[G, S], *elog.Witness[G, S], *elog.Commitment[G, S], *elog.State[G, S], *elog.Response[G, S]] {
	type (
		X  = *elog.Statement[G, S]
		W  = *elog.Witness[G, S]
		A  = *elog.Commitment[G, S]
		St = *elog.State[G, S]
		Z  = *elog.Response[G, S]
	)
	su := newEgSetup(e)
	h := e.point("elog-h")
	return &part[X, W, A, St, Z]{
		shape: "EL",
		mk: func(prng io.Reader) (sigma.Protocol[X, W, A, St, Z], error) {
			p, err := elog.NewProtocol(e.grp, su.key, h, prng)
			if err != nil {
				return nil, err
			}
			return p, nil
		},
		// the same pair of protocols composed under the default name of sigand.CartesianCompose
		mkRenamed: func(prng io.Reader) (sigma.Protocol[X, W, A, St, Z], error) {
			p0, err := elcomop.NewProtocol(e.grp, su.key, prng)
			if err != nil {
				return nil, err
			}
			p1, err := schnorr.NewProtocol(h, prng)
			if err != nil {
				return nil, err
			}
			p, err := sigand.CartesianCompose(p0, p1)
			if err != nil {
				return nil, err
			}
			return p, nil
		},
		fresh: func(i int) (X, W) {
			y := e.scalar(fmt.Sprintf("elog-y/%d", i))
			x0, w0 := su.commit(y, e.scalar(fmt.Sprintf("elog-l/%d", i)))
			x, err := elog.NewStatement(x0, schnorr.NewStatement(h.ScalarOp(y)))
			if err != nil {
				panic("harness: elog.NewStatement: " + err.Error())
			}
			w, err := elog.NewWitness(w0, schnorr.NewWitness(y))
			if err != nil {
				panic("harness: elog.NewWitness: " + err.Error())
			}
			return x, w
		},
		alts: func(x X) []negStmt[X] {
			a0, _ := elog.NewStatement(su.alter(x.X0, 0), x.X1)
			a1, _ := elog.NewStatement(su.alter(x.X0, 1), x.X1)
			a2, _ := elog.NewStatement(x.X0, schnorr.NewStatement(x.X1.X.Op(h)))
			return []negStmt[X]{{"stmt-alt:Gamma", a0}, {"stmt-alt:Delta", a1}, {"stmt-alt:Y", a2}}
		},
	}
}

// ---- compositions ------------------------------------------------------------------------------------

const badIdx = 1 << 20

const otherName sigma.Name = "VERIF_C08_ANOTHER_SIGMA_PROTOCOL_NAME"

func andN[X sigma.Statement, W sigma.Witness, A sigma.Statement, S sigma.State, Z sigma.Response](p *part[X, W, A, S, Z], n int,
) *part[sigand.Statement[X], sigand.Witness[W], sigand.Commitment[A], sigand.State[S], sigand.Response[Z]] {
	type (
		CX = sigand.Statement[X]
		CW = sigand.Witness[W]
		CA = sigand.Commitment[A]
		CS = sigand.State[S]
		CZ = sigand.Response[Z]
	)
	return &part[CX, CW, CA, CS, CZ]{
		shape: fmt.Sprintf("and^%d(%s)", n, p.shape),
		mk: func(prng io.Reader) (sigma.Protocol[CX, CW, CA, CS, CZ], error) {
			c, err := p.mk(prng)
			if err != nil {
				return nil, err
			}
			q, err := sigand.Compose(c, uint(n))
			if err != nil {
				return nil, err
			}
			return q, nil
		},
		mkRenamed: func(prng io.Reader) (sigma.Protocol[CX, CW, CA, CS, CZ], error) {
			c, err := p.mk(prng)
			if err != nil {
				return nil, err
			}
			q, err := sigand.ComposeNamed(otherName, c, uint(n))
			if err != nil {
				return nil, err
			}
			return q, nil
		},
		fresh: func(i int) (CX, CW) {
			xs := make([]X, n)
			ws := make([]W, n)
			for j := range xs {
				xs[j], ws[j] = p.fresh(i*16 + j)
			}
			if i == badIdx {
				// the "wrong witness" of an AND: right in every branch but the last
				for j := 0; j < n-1; j++ {
					_, ws[j] = p.fresh(j)
				}
			}
			x, err := sigand.ComposeStatements(xs...)
			if err != nil {
				panic("harness: sigand.ComposeStatements: " + err.Error())
			}
			w, err := sigand.ComposeWitnesses(ws...)
			if err != nil {
				panic("harness: sigand.ComposeWitnesses: " + err.Error())
			}
			return x, w
		},
		alts: func(x CX) []negStmt[CX] {
			var out []negStmt[CX]
			if p.alts != nil {
				j := n - 1
				for _, a := range p.alts(x[j]) {
					y := append(CX(nil), x...)
					y[j] = a.x
					out = append(out, negStmt[CX]{fmt.Sprintf("%s@%d", a.kind, j), y})
					break
				}
			}
			if n > 1 {
				y := append(CX(nil), x...)
				y[0], y[1] = y[1], y[0]
				out = append(out, negStmt[CX]{"stmt-perm", y})
				out = append(out, negStmt[CX]{"stmt-short", append(CX(nil), x[:n-1]...)})
			}
			out = append(out, negStmt[CX]{"stmt-long", append(append(CX(nil), x...), x[n-1])})
			return out
		},
	}
}

func andC[X0, X1 sigma.Statement, W0, W1 sigma.Witness, A0, A1 sigma.Statement, S0, S1 sigma.State, Z0, Z1 sigma.Response](
	p0 *part[X0, W0, A0, S0, Z0], p1 *part[X1, W1, A1, S1, Z1],
) *part[*sigand.StatementCartesian[X0, X1], *sigand.WitnessCartesian[W0, W1], *sigand.CommitmentCartesian[A0, A1], *sigand.StateCartesian[S0, S1], *sigand.ResponseCartesian[Z0, Z1]] {
	type (
		CX = *sigand.StatementCartesian[X0, X1]
		CW = *sigand.WitnessCartesian[W0, W1]
		CA = *sigand.CommitmentCartesian[A0, A1]
		CS = *sigand.StateCartesian[S0, S1]
		CZ = *sigand.ResponseCartesian[Z0, Z1]
	)
	mk := func(named bool) func(prng io.Reader) (sigma.Protocol[CX, CW, CA, CS, CZ], error) {
		return func(prng io.Reader) (sigma.Protocol[CX, CW, CA, CS, CZ], error) {
			c0, err := p0.mk(prng)
			if err != nil {
				return nil, err
			}
			c1, err := p1.mk(prng)
			if err != nil {
				return nil, err
			}
			if named {
				q, err := sigand.CartesianComposeNamed(otherName, c0, c1)
				if err != nil {
					return nil, err
				}
				return q, nil
			}
			q, err := sigand.CartesianCompose(c0, c1)
			if err != nil {
				return nil, err
			}
			return q, nil
		}
	}
	return &part[CX, CW, CA, CS, CZ]{
		shape: fmt.Sprintf("andc(%s,%s)", p0.shape, p1.shape),
		mk:    mk(false), mkRenamed: mk(true),
		fresh: func(i int) (CX, CW) {
			x0, w0 := p0.fresh(i * 16)
			x1, w1 := p1.fresh(i*16 + 1)
			if i == badIdx { // wrong witness: right in the first branch only
				_, w0 = p0.fresh(0)
			}
			x, err := sigand.CartesianComposeStatements(x0, x1)
			if err != nil {
				panic("harness: sigand.CartesianComposeStatements: " + err.Error())
			}
			w, err := sigand.CartesianComposeWitnesses(w0, w1)
			if err != nil {
				panic("harness: sigand.CartesianComposeWitnesses: " + err.Error())
			}
			return x, w
		},
		alts: func(x CX) []negStmt[CX] {
			var out []negStmt[CX]
			if p0.alts != nil {
				for _, a := range p0.alts(x.X0) {
					y, _ := sigand.CartesianComposeStatements(a.x, x.X1)
					out = append(out, negStmt[CX]{a.kind + "@0", y})
					break
				}
			}
			if p1.alts != nil {
				for _, a := range p1.alts(x.X1) {
					y, _ := sigand.CartesianComposeStatements(x.X0, a.x)
					out = append(out, negStmt[CX]{a.kind + "@1", y})
					break
				}
			}
			return out
		},
	}
}

func orN[X sigma.Statement, W sigma.Witness, A sigma.Statement, S sigma.State, Z sigma.Response](p *part[X, W, A, S, Z], n, branch int,
) *part[sigor.Statement[X], sigor.Witness[W], sigor.Commitment[A], *sigor.State[S, Z], *sigor.Response[Z]] {
	type (
		CX = sigor.Statement[X]
		CW = sigor.Witness[W]
		CA = sigor.Commitment[A]
		CS = *sigor.State[S, Z]
		CZ = *sigor.Response[Z]
	)
	mk := func(named bool) func(prng io.Reader) (sigma.Protocol[CX, CW, CA, CS, CZ], error) {
		return func(prng io.Reader) (sigma.Protocol[CX, CW, CA, CS, CZ], error) {
			c, err := p.mk(prng)
			if err != nil {
				return nil, err
			}
			if named {
				q, err := sigor.ComposeNamed(otherName, c, uint(n), prng)
				if err != nil {
					return nil, err
				}
				return q, nil
			}
			q, err := sigor.Compose(c, uint(n), prng)
			if err != nil {
				return nil, err
			}
			return q, nil
		}
	}
	return &part[CX, CW, CA, CS, CZ]{
		shape: fmt.Sprintf("or^%d(%s)#%d", n, p.shape, branch),
		mk:    mk(false), mkRenamed: mk(true),
		fresh: func(i int) (CX, CW) {
			b := (branch + i) % n
			xs := make([]X, n)
			var w W
			for j := range xs {
				var wj W
				xs[j], wj = p.fresh(i*16 + j)
				if j == b {
					w = wj
				}
			}
			if i == badIdx { // wrong witness: valid for none of the branches of fresh(0)
				_, w = p.fresh(badIdx)
			}
			x, err := sigor.ComposeStatements(xs...)
			if err != nil {
				panic("harness: sigor.ComposeStatements: " + err.Error())
			}
			return x, sigor.NewWitness(w)
		},
		alts: func(x CX) []negStmt[CX] {
			var out []negStmt[CX]
			if p.alts != nil {
				for _, j := range []int{branch, (branch + 1) % n} {
					for _, a := range p.alts(x[j]) {
						y := append(CX(nil), x...)
						y[j] = a.x
						k := "false"
						if j == branch {
							k = "true"
						}
						out = append(out, negStmt[CX]{fmt.Sprintf("%s@%s-branch", a.kind, k), y})
						break
					}
				}
			}
			y := append(CX(nil), x...)
			y[0], y[1] = y[1], y[0]
			out = append(out, negStmt[CX]{"stmt-perm", y})
			if n > 2 {
				out = append(out, negStmt[CX]{"stmt-short", append(CX(nil), x[:n-1]...)})
			}
			return out
		},
	}
}

func orC[X0, X1 sigma.Statement, W0, W1 sigma.Witness, A0, A1 sigma.Statement, S0, S1 sigma.State, Z0, Z1 sigma.Response](
	p0 *part[X0, W0, A0, S0, Z0], p1 *part[X1, W1, A1, S1, Z1], branch int,
) *part[*sigor.StatementCartesian[X0, X1], *sigor.WitnessCartesian[W0, W1], *sigor.CommitmentCartesian[A0, A1], *sigor.StateCartesian[S0, S1, Z0, Z1], *sigor.ResponseCartesian[Z0, Z1]] {
	type (
		CX = *sigor.StatementCartesian[X0, X1]
		CW = *sigor.WitnessCartesian[W0, W1]
		CA = *sigor.CommitmentCartesian[A0, A1]
		CS = *sigor.StateCartesian[S0, S1, Z0, Z1]
		CZ = *sigor.ResponseCartesian[Z0, Z1]
	)
	mk := func(named bool) func(prng io.Reader) (sigma.Protocol[CX, CW, CA, CS, CZ], error) {
		return func(prng io.Reader) (sigma.Protocol[CX, CW, CA, CS, CZ], error) {
			c0, err := p0.mk(prng)
			if err != nil {
				return nil, err
			}
			c1, err := p1.mk(prng)
			if err != nil {
				return nil, err
			}
			if named {
				q, err := sigor.CartesianComposeNamed(otherName, c0, c1, prng)
				if err != nil {
					return nil, err
				}
				return q, nil
			}
			q, err := sigor.CartesianCompose(c0, c1, prng)
			if err != nil {
				return nil, err
			}
			return q, nil
		}
	}
	return &part[CX, CW, CA, CS, CZ]{
		shape: fmt.Sprintf("orc(%s,%s)#%d", p0.shape, p1.shape, branch),
		mk:    mk(false), mkRenamed: mk(true),
		fresh: func(i int) (CX, CW) {
			b := (branch + i) % 2
			x0, w0 := p0.fresh(i * 16)
			x1, w1 := p1.fresh(i*16 + 1)
			// the witness of the other branch is a well-formed witness of an unrelated statement
			if b == 0 || i == badIdx {
				_, w1 = p1.fresh(i*16 + 15)
			}
			if b == 1 || i == badIdx {
				_, w0 = p0.fresh(i*16 + 14)
			}
			x, err := sigor.CartesianComposeStatements(x0, x1)
			if err != nil {
				panic("harness: sigor.CartesianComposeStatements: " + err.Error())
			}
			w, err := sigor.CartesianComposeWitnesses(w0, w1)
			if err != nil {
				panic("harness: sigor.CartesianComposeWitnesses: " + err.Error())
			}
			return x, w
		},
		alts: func(x CX) []negStmt[CX] {
			var out []negStmt[CX]
			tag := func(j int) string {
				if j == branch {
					return "true-branch"
				}
				return "false-branch"
			}
			if p0.alts != nil {
				for _, a := range p0.alts(x.X0) {
					y, _ := sigor.CartesianComposeStatements(a.x, x.X1)
					out = append(out, negStmt[CX]{a.kind + "@" + tag(0), y})
					break
				}
			}
			if p1.alts != nil {
				for _, a := range p1.alts(x.X1) {
					y, _ := sigor.CartesianComposeStatements(x.X0, a.x)
					out = append(out, negStmt[CX]{a.kind + "@" + tag(1), y})
					break
				}
			}
			return out
		},
	}
}
