package c08

import (
	"bytes"
	"encoding/binary"
	"errors"
	"fmt"
	"io"
	"math/big"
	"strings"

	"github.com/bronlabs/bron-crypto/pkg/base/datastructures/hashset"
	"github.com/bronlabs/bron-crypto/pkg/base/serde"
	"github.com/bronlabs/bron-crypto/pkg/mpc/session"
	"github.com/bronlabs/bron-crypto/pkg/mpc/sharing"
	"github.com/bronlabs/bron-crypto/pkg/proofs/sigma"
	"github.com/bronlabs/bron-crypto/pkg/proofs/sigma/compiler"
	"github.com/bronlabs/bron-crypto/pkg/proofs/sigma/compiler/fiatshamir"
	"github.com/bronlabs/bron-crypto/pkg/proofs/sigma/compiler/fischlin"
	"github.com/bronlabs/bron-crypto/pkg/proofs/sigma/compiler/randfischlin"
	"github.com/bronlabs/bron-crypto/pkg/proofs/sigma/compiler/zk"
	"verif/harness/vlib"
)

var allCompilers = []compiler.Name{fiatshamir.Name, fischlin.Name, randfischlin.Name}

// inst is one (protocol, group, composition shape, statement, witness) with the types erased.
type inst interface {
	Proto() string
	Group() string
	Shape() string
	Order() *big.Int // order of the prime group (nil: not applicable), for the unreduced-scalar operator
	Compilers() []compiler.Name
	NegStatements() []string // kinds of wrong statements available
	HasRenamed() bool        // the same protocol under another sigma.Name is expressible
	HasExtractor() bool
	HasBadWitness() bool
	ChallengeLen() int

	// Prove runs Compile(cn).NewProver(ctx).Prove(x, w); ctx is consumed. bad: use the invalid witness.
	Prove(cn compiler.Name, ctx *session.Context, seed uint64, bad bool) ([]byte, error)
	// Verify runs Compile(cn).NewVerifier(ctx).Verify(statement, proof) (twice on the same verifier
	// when again is set: the second verdict is returned). stmt: "" the right statement, else a
	// kind of NegStatements. renamed: the protocol object carries another sigma.Name.
	Verify(cn compiler.Name, ctx *session.Context, seed uint64, stmt string, renamed bool, proof []byte, again bool) error
	// Canon decodes the proof with the library's typed decoder of compiler cn and re-encodes it.
	Canon(cn compiler.Name, proof []byte) ([]byte, error)

	// Soundness: commitment by the honest prover, responses to e1 and e2, both verify, Extract,
	// ValidateStatement of the extracted witness. Returns a description of the first failure.
	Soundness(seed uint64, e1, e2 []byte) error
	// Simulate: RunSimulator(x, e) then Verify(x, a, e, z).
	Simulate(seed uint64, e []byte) error
	// SimulateUnder: RunSimulator(x, eSim) (which must verify under eSim), then Verify(x, a, e, z)
	// under ANOTHER challenge e; reports whether that was accepted.
	SimulateUnder(seed uint64, eSim, e []byte) (bool, error)
	// Interactive runs the plain sigma Prover/Verifier pair; stmt selects the verifier's statement.
	Interactive(ctxP, ctxV *session.Context, seed uint64) error
	// ZK runs the 5-round zk-compiled protocol; returns the step that failed ("" = accepted).
	ZK(ctxP, ctxV *session.Context, seed uint64, stmt string, renamed bool) (string, error)
	// ValidateOwn is the library's own statement/witness check of the honest pair.
	ValidateOwn(seed uint64) error
}

type negStmt[X any] struct {
	kind string
	x    X
}

type sig[X sigma.Statement, W sigma.Witness, A sigma.Statement, S sigma.State, Z sigma.Response] struct {
	proto, group, shape string
	order               *big.Int
	mk                  func(prng io.Reader) (sigma.Protocol[X, W, A, S, Z], error)
	mkRenamed           func(prng io.Reader) (sigma.Protocol[X, W, A, S, Z], error)
	// mkVerifier builds the protocol object of the verifying side when it differs from the
	// prover's (public key instead of secret key); nil: mk.
	mkVerifier func(prng io.Reader) (sigma.Protocol[X, W, A, S, Z], error)
	x          X
	w          W
	neg        []negStmt[X]
	badW       *W
	extract    func(p sigma.Protocol[X, W, A, S, Z], x X, a A, es []sigma.ChallengeBytes, zs []Z) (W, error)
	compilers  []compiler.Name
}

func (s *sig[X, W, A, S, Z]) Proto() string   { return s.proto }
func (s *sig[X, W, A, S, Z]) Group() string   { return s.group }
func (s *sig[X, W, A, S, Z]) Shape() string   { return s.shape }
func (s *sig[X, W, A, S, Z]) Order() *big.Int { return s.order }
func (s *sig[X, W, A, S, Z]) Compilers() []compiler.Name {
	if s.compilers != nil {
		return s.compilers
	}
	return allCompilers
}
func (s *sig[X, W, A, S, Z]) NegStatements() []string {
	var out []string
	for _, n := range s.neg {
		out = append(out, n.kind)
	}
	return out
}
func (s *sig[X, W, A, S, Z]) HasRenamed() bool    { return s.mkRenamed != nil }
func (s *sig[X, W, A, S, Z]) HasExtractor() bool  { return s.extract != nil }
func (s *sig[X, W, A, S, Z]) HasBadWitness() bool { return s.badW != nil }
func (s *sig[X, W, A, S, Z]) ChallengeLen() int {
	p, err := s.mk(vlib.NewPRNG(0, "len"))
	if err != nil {
		panic("harness: protocol constructor failed: " + err.Error())
	}
	return p.GetChallengeBytesLength()
}

func (s *sig[X, W, A, S, Z]) stmt(kind string) (X, error) {
	if kind == "" {
		return s.x, nil
	}
	for _, n := range s.neg {
		if n.kind == kind {
			return n.x, nil
		}
	}
	var zero X
	return zero, fmt.Errorf("harness: no statement of kind %q", kind)
}

func (s *sig[X, W, A, S, Z]) verifierProto(prng io.Reader, renamed bool) (sigma.Protocol[X, W, A, S, Z], error) {
	switch {
	case renamed:
		return s.mkRenamed(prng)
	case s.mkVerifier != nil:
		return s.mkVerifier(prng)
	default:
		return s.mk(prng)
	}
}

// harnessErr marks failures of the harness' own plumbing (constructor errors on valid inputs are
// reported by the caller as violations of completeness, with this text).
type stepErr struct {
	step string
	err  error
}

func (e *stepErr) Error() string { return e.step + ": " + e.err.Error() }
func (e *stepErr) Unwrap() error { return e.err }

func (s *sig[X, W, A, S, Z]) Prove(cn compiler.Name, ctx *session.Context, seed uint64, bad bool) ([]byte, error) {
	prng := vlib.NewPRNG(seed, "prover")
	p, err := s.mk(prng)
	if err != nil {
		return nil, &stepErr{"NewProtocol", err}
	}
	ni, err := compiler.Compile(cn, p, prng)
	if err != nil {
		return nil, &stepErr{"Compile", err}
	}
	if ni.Name() != cn || ni.SigmaProtocolName() != p.Name() {
		return nil, &stepErr{"Compile", fmt.Errorf("compiled protocol reports names (%s, %s), want (%s, %s)", ni.Name(), ni.SigmaProtocolName(), cn, p.Name())}
	}
	pr, err := ni.NewProver(ctx)
	if err != nil {
		return nil, &stepErr{"NewProver", err}
	}
	w := s.w
	if bad {
		w = *s.badW
	}
	proof, err := pr.Prove(s.x, w)
	if err != nil {
		return nil, &stepErr{"Prove", err}
	}
	return proof, nil
}

func (s *sig[X, W, A, S, Z]) Verify(cn compiler.Name, ctx *session.Context, seed uint64, stmt string, renamed bool, proof []byte, again bool) error {
	prng := vlib.NewPRNG(seed, "verifier")
	p, err := s.verifierProto(prng, renamed)
	if err != nil {
		return &stepErr{"NewProtocol(verifier)", err}
	}
	x, err := s.stmt(stmt)
	if err != nil {
		return err
	}
	ni, err := compiler.Compile(cn, p, prng)
	if err != nil {
		return &stepErr{"Compile(verifier)", err}
	}
	v, err := ni.NewVerifier(ctx)
	if err != nil {
		return &stepErr{"NewVerifier", err}
	}
	err = v.Verify(x, proof)
	if again {
		if err != nil {
			return &stepErr{"first Verify", err}
		}
		err = v.Verify(x, proof)
	}
	return err
}

func (s *sig[X, W, A, S, Z]) Canon(cn compiler.Name, proof []byte) ([]byte, error) {
	switch cn {
	case fiatshamir.Name:
		p, err := serde.UnmarshalCBOR[*fiatshamir.Proof[A, Z]](proof)
		if err != nil {
			return nil, err
		}
		if p == nil {
			return nil, errors.New("decoded to nil")
		}
		return serde.MarshalCBOR(p)
	case fischlin.Name:
		p, err := serde.UnmarshalCBOR[*fischlin.Proof[A, Z]](proof)
		if err != nil {
			return nil, err
		}
		if p == nil {
			return nil, errors.New("decoded to nil")
		}
		return serde.MarshalCBOR(p)
	case randfischlin.Name:
		p, err := serde.UnmarshalCBOR[*randfischlin.Proof[A, Z]](proof)
		if err != nil {
			return nil, err
		}
		if p == nil {
			return nil, errors.New("decoded to nil")
		}
		return serde.MarshalCBOR(p)
	}
	return nil, fmt.Errorf("harness: unknown compiler %q", cn)
}

func (s *sig[X, W, A, S, Z]) ValidateOwn(seed uint64) error {
	p, err := s.mk(vlib.NewPRNG(seed, "validate"))
	if err != nil {
		return &stepErr{"NewProtocol", err}
	}
	return p.ValidateStatement(s.x, s.w)
}

func (s *sig[X, W, A, S, Z]) Soundness(seed uint64, e1, e2 []byte) error {
	prng := vlib.NewPRNG(seed, "soundness")
	p, err := s.mk(prng)
	if err != nil {
		return &stepErr{"NewProtocol", err}
	}
	a, st, err := p.ComputeProverCommitment(s.x, s.w)
	if err != nil {
		return &stepErr{"ComputeProverCommitment", err}
	}
	z1, err := p.ComputeProverResponse(s.x, s.w, a, st, e1)
	if err != nil {
		return &stepErr{"ComputeProverResponse(e1)", err}
	}
	z2, err := p.ComputeProverResponse(s.x, s.w, a, st, e2)
	if err != nil {
		return &stepErr{"ComputeProverResponse(e2)", err}
	}
	vp, err := s.verifierProto(vlib.NewPRNG(seed, "soundness-v"), false)
	if err != nil {
		return &stepErr{"NewProtocol(verifier)", err}
	}
	if err := vp.Verify(s.x, a, e1, z1); err != nil {
		return &stepErr{"Verify(e1)", err}
	}
	if err := vp.Verify(s.x, a, e2, z2); err != nil {
		return &stepErr{"Verify(e2)", err}
	}
	if s.extract == nil {
		return nil
	}
	w, err := s.extract(p, s.x, a, []sigma.ChallengeBytes{e1, e2}, []Z{z1, z2})
	if err != nil {
		return &stepErr{"Extract", err}
	}
	if err := p.ValidateStatement(s.x, w); err != nil {
		return &stepErr{"ValidateStatement(extracted witness)", err}
	}
	return nil
}

func (s *sig[X, W, A, S, Z]) Simulate(seed uint64, e []byte) error {
	p, err := s.verifierProto(vlib.NewPRNG(seed, "simulator"), false)
	if err != nil {
		return &stepErr{"NewProtocol", err}
	}
	a, z, err := p.RunSimulator(s.x, e)
	if err != nil {
		if strings.Contains(err.Error(), "fixed-challenge simulator is not available") {
			return errNoSimulator // documented: cggmp21 blummod has no fixed-challenge simulator
		}
		return &stepErr{"RunSimulator", err}
	}
	if err := p.Verify(s.x, a, e, z); err != nil {
		return &stepErr{"Verify(simulated transcript)", err}
	}
	return nil
}

var errNoSimulator = errors.New("the protocol documents that it has no fixed-challenge simulator")

func (s *sig[X, W, A, S, Z]) SimulateUnder(seed uint64, eSim, e []byte) (bool, error) {
	p, err := s.verifierProto(vlib.NewPRNG(seed, "simulator"), false)
	if err != nil {
		return false, &stepErr{"NewProtocol", err}
	}
	a, z, err := p.RunSimulator(s.x, eSim)
	if err != nil {
		return false, &stepErr{"RunSimulator", err}
	}
	if err := p.Verify(s.x, a, eSim, z); err != nil {
		return false, &stepErr{"Verify(simulated transcript)", err}
	}
	return p.Verify(s.x, a, e, z) == nil, nil
}

func (s *sig[X, W, A, S, Z]) Interactive(ctxP, ctxV *session.Context, seed uint64) error {
	pp, err := s.mk(vlib.NewPRNG(seed, "iprover"))
	if err != nil {
		return &stepErr{"NewProtocol", err}
	}
	vp, err := s.verifierProto(vlib.NewPRNG(seed, "iverifier"), false)
	if err != nil {
		return &stepErr{"NewProtocol(verifier)", err}
	}
	pr, err := sigma.NewProver(ctxP, pp, s.x, s.w)
	if err != nil {
		return &stepErr{"sigma.NewProver", err}
	}
	vr, err := sigma.NewVerifier(ctxV, vp, s.x, vlib.NewPRNG(seed, "ichallenge"))
	if err != nil {
		return &stepErr{"sigma.NewVerifier", err}
	}
	a, err := pr.Round1()
	if err != nil {
		return &stepErr{"Round1", err}
	}
	e, err := vr.Round2(a)
	if err != nil {
		return &stepErr{"Round2", err}
	}
	z, err := pr.Round3(e)
	if err != nil {
		return &stepErr{"Round3", err}
	}
	if err := vr.Verify(z); err != nil {
		return &stepErr{"Verify", err}
	}
	return nil
}

func (s *sig[X, W, A, S, Z]) ZK(ctxP, ctxV *session.Context, seed uint64, stmt string, renamed bool) (string, error) {
	pp, err := s.mk(vlib.NewPRNG(seed, "zprover"))
	if err != nil {
		return "NewProtocol", err
	}
	vp, err := s.verifierProto(vlib.NewPRNG(seed, "zverifier"), renamed)
	if err != nil {
		return "NewProtocol(verifier)", err
	}
	xv, err := s.stmt(stmt)
	if err != nil {
		return "harness", err
	}
	pr, err := zk.NewProver(ctxP, pp, s.x, s.w)
	if err != nil {
		return "zk.NewProver", err
	}
	vr, err := zk.NewVerifier(ctxV, vp, xv, vlib.NewPRNG(seed, "zchallenge"))
	if err != nil {
		return "zk.NewVerifier", err
	}
	ec, err := vr.Round1()
	if err != nil {
		return "Round1", err
	}
	a, err := pr.Round2(ec)
	if err != nil {
		return "Round2", err
	}
	e, ew, err := vr.Round3(a)
	if err != nil {
		return "Round3", err
	}
	z, err := pr.Round4(e, ew)
	if err != nil {
		return "Round4", err
	}
	if err := vr.Verify(z); err != nil {
		return "Verify", err
	}
	return "", nil
}

// ---- session contexts ------------------------------------------------------------------------------

const (
	proverID   = 1
	verifierID = 2
	pidLabel   = "VERIF_C08_PROVER_ID-"
)

type appendOp struct {
	Label string
	Data  []byte
}

// ctxSpec describes how a party prepares its context before NewProver / NewVerifier: session
// seed (=> session id and initial transcript), a list of AppendBytes, and the prover identity
// bound the way gennaro / canetti / lindell17 do it (AppendBytes(label, id) on a clone).
type ctxSpec struct {
	Seed    uint64
	Appends []appendOp
	BindPID bool
	PID     uint64
}

func (c ctxSpec) clone() ctxSpec {
	d := c
	d.Appends = append([]appendOp(nil), c.Appends...)
	return d
}

// contexts builds the consistent session contexts of the two parties directly from a seed, the
// way vlib/proto.Contexts does (that package is not imported: it instantiates every DKG and
// dominates the build of a scratch worktree): one common seed and one pairwise seed from the
// harness PRNG, handed to session.NewContext.
func contexts(seed uint64) (map[sharing.ID]*session.Context, error) {
	prng := vlib.NewPRNG(seed, "ctx/c08")
	common, pair := make([]byte, 64), make([]byte, 64)
	_, _ = io.ReadFull(prng, common)
	_, _ = io.ReadFull(prng, pair)
	quorum := hashset.NewComparable[sharing.ID](proverID, verifierID).Freeze()
	out := map[sharing.ID]*session.Context{}
	for _, id := range []sharing.ID{proverID, verifierID} {
		other := sharing.ID(proverID + verifierID - int(id))
		c, err := session.NewContext(id, quorum, common, map[sharing.ID][]byte{other: pair})
		if err != nil {
			return nil, fmt.Errorf("session.NewContext(%d): %w", id, err)
		}
		out[id] = c
	}
	return out, nil
}

func (c ctxSpec) build(id sharing.ID) (*session.Context, error) {
	ctxs, err := contexts(c.Seed)
	if err != nil {
		return nil, err
	}
	ctx := ctxs[id].Clone()
	for _, a := range c.Appends {
		ctx.Transcript().AppendBytes(a.Label, a.Data)
	}
	if c.BindPID {
		ctx.Transcript().AppendBytes(pidLabel, binary.LittleEndian.AppendUint64(nil, c.PID))
	}
	return ctx, nil
}

func (c ctxSpec) String() string {
	s := fmt.Sprintf("seed=%d", c.Seed)
	for _, a := range c.Appends {
		s += fmt.Sprintf(" app(%q,%x)", a.Label, a.Data)
	}
	if c.BindPID {
		s += fmt.Sprintf(" pid=%d", c.PID)
	}
	return s
}

func sameBytes(a, b []byte) bool { return bytes.Equal(a, b) }
