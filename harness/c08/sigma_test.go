package c08

import (
	"bytes"
	"strings"
	"testing"

	"pgregory.net/rapid"

	"verif/harness/vlib"
)

// drawChallenge draws a challenge of exactly n bytes from a class.
func drawChallenge(t *rapid.T, label string, n int) ([]byte, string) {
	class := rapid.SampledFrom([]string{"rnd", "rnd", "rnd", "rnd", "zero", "ones", "one", "top-bit", "low-byte"}).Draw(t, label+"-class")
	e := make([]byte, n)
	switch class {
	case "rnd":
		copy(e, rapid.SliceOfN(rapid.Byte(), n, n).Draw(t, label))
	case "ones":
		for i := range e {
			e[i] = 0xff
		}
	case "one":
		e[n-1] = 1
	case "top-bit":
		e[0] = 0x80
	case "low-byte":
		e[n-1] = rapid.Byte().Draw(t, label)
	}
	return e, class
}

var sigmaModes = []string{
	"soundness", "soundness", "soundness", "hvzk", "hvzk", "or-forged", "interactive",
	"zk", "zk:sid", "zk:tr-extra", "zk:pid-other", "zk:stmt", "zk:name",
}

// runSigma: the checks on the sigma protocol object itself and on the two interactive wrappers.
func runSigma(t *rapid.T, test string, in inst, what string, modes []string) {
	mode := rapid.SampledFrom(modes).Draw(t, "mode")
	if mode == "zk:name" && !in.HasRenamed() {
		mode = "zk:stmt"
	}
	topOr := strings.HasPrefix(in.Shape(), "or^") || strings.HasPrefix(in.Shape(), "orc(")
	if topOr && rapid.IntRange(0, 2).Draw(t, "forge") == 0 {
		mode = "or-forged" // one case in three on an OR-shaped protocol
	}
	if mode == "or-forged" && !topOr {
		mode = "hvzk"
	}
	seed := rapid.Uint64().Draw(t, "seed")
	n := in.ChallengeLen()
	detail := mode
	switch mode {
	case "soundness":
		e1, c1 := drawChallenge(t, "e1", n)
		e2, c2 := drawChallenge(t, "e2", n)
		if bytes.Equal(e1, e2) {
			e2[n-1] ^= 1
			c2 += "^1"
		}
		var err error
		vlib.NoPanic(t, "special soundness", func() { err = in.Soundness(seed, e1, e2) })
		if err != nil {
			t.Fatalf("SPECIAL SOUNDNESS: %s: one honest commitment, challenges e1=%x e2=%x: %v", what, e1, e2, err)
		}
		if in.HasExtractor() {
			detail = "soundness:extract"
		} else {
			detail = "soundness:two-transcripts"
		}
		vlib.Class(test, "challenges="+c1+","+c2)
	case "hvzk":
		e, c := drawChallenge(t, "e", n)
		var err error
		vlib.NoPanic(t, "simulator", func() { err = in.Simulate(seed, e) })
		if err == errNoSimulator {
			vlib.Case(test, vlib.Desc(in.Proto(), in.Shape(), in.Group(), "hvzk:no-simulator"), false, "proto="+in.Proto(), "mode=hvzk:no-simulator")
			return
		}
		if err != nil {
			t.Fatalf("HVZK: %s: RunSimulator(x, e=%x) does not give an accepting transcript: %v", what, e, err)
		}
		vlib.Class(test, "challenge="+c)
	case "or-forged":
		// an OR transcript assembled from simulated branches only (no witness at all) is accepting exactly under the
		// challenge its branch challenges XOR to; under any other challenge it must be rejected
		eSim, c1 := drawChallenge(t, "e-sim", n)
		e, c2 := drawChallenge(t, "e", n)
		if bytes.Equal(e, eSim) {
			e[0] ^= 0x40
			c2 += "^"
		}
		var accepted bool
		var err error
		vlib.NoPanic(t, "all-simulated OR transcript", func() { accepted, err = in.SimulateUnder(seed, eSim, e) })
		if err != nil {
			t.Fatalf("HVZK: %s: simulator for e=%x: %v", what, eSim, err)
		}
		if accepted {
			t.Fatalf("OR: %s: a transcript whose branches were ALL simulated (branch challenges XOR to %x) was ACCEPTED under the challenge %x", what, eSim, e)
		}
		vlib.Class(test, "challenges="+c1+","+c2)
	case "interactive":
		cs := drawCtx(t, 0, false)
		ctxP, err1 := cs.build(proverID)
		ctxV, err2 := cs.build(verifierID)
		if err1 != nil || err2 != nil {
			t.Fatalf("harness: context: %v %v", err1, err2)
		}
		var err error
		vlib.NoPanic(t, "interactive sigma run", func() { err = in.Interactive(ctxP, ctxV, seed) })
		if err != nil {
			t.Fatalf("COMPLETENESS: %s: the interactive sigma prover/verifier pair failed in one session: %v", what, err)
		}
	default: // zk compiler
		if n > 32 {
			// the zk compiler refuses challenges longer than a k256 scalar
			mode = "zk:too-long"
		}
		kind := ""
		if len(mode) > 3 {
			kind = mode[3:]
		}
		cs := drawCtx(t, 0, kind == "pid-other")
		vs := cs.clone()
		stmt, renamed := "", false
		switch kind {
		case "sid":
			vs.Seed ^= 1 << rapid.IntRange(0, 63).Draw(t, "seed-bit")
		case "tr-extra":
			if rapid.Bool().Draw(t, "on-verifier") {
				vs.Appends = append(vs.Appends, drawAppend(t, "extra"))
			} else {
				cs.Appends = append(cs.Appends, drawAppend(t, "extra"))
			}
		case "pid-other":
			vs.PID ^= 1 << rapid.IntRange(0, 63).Draw(t, "pid-bit")
		case "stmt":
			stmt = rapid.SampledFrom(in.NegStatements()).Draw(t, "statement")
			detail = "zk:" + stmt
		case "name":
			renamed = true
		}
		ctxP, err1 := cs.build(proverID)
		ctxV, err2 := vs.build(verifierID)
		if err1 != nil || err2 != nil {
			t.Fatalf("harness: context: %v %v", err1, err2)
		}
		var step string
		var err error
		vlib.NoPanic(t, "zk-compiled run", func() { step, err = in.ZK(ctxP, ctxV, seed, stmt, renamed) })
		switch {
		case kind == "too-long":
			if err == nil || (step != "zk.NewProver" && step != "zk.NewVerifier") {
				t.Fatalf("%s: challenge of %d bytes: expected the zk compiler to refuse, got step %q err %v", what, n, step, err)
			}
			detail = "zk:too-long"
		case kind == "" && err != nil:
			t.Fatalf("COMPLETENESS: %s: the zk-compiled protocol failed at %s in one session: %v\ncontext: %v", what, step, err, cs)
		case kind != "" && err == nil:
			t.Fatalf("BINDING: %s: the zk-compiled protocol ACCEPTED although prover and verifier differ in %q\nprover context {%v}\nverifier context {%v} statement %q renamed %v",
				what, kind, cs, vs, stmt, renamed)
		case kind != "" && (step == "NewProtocol" || step == "NewProtocol(verifier)" || step == "harness" || step == "zk.NewProver" || step == "zk.NewVerifier"):
			t.Fatalf("%s: zk run under %q failed before the first round (%s): %v", what, kind, step, err)
		}
		if kind != "" && kind != "too-long" {
			vlib.Class(test, "zk-negative-fails-at="+step)
		}
	}
	vlib.Case(test, vlib.Desc(in.Proto(), in.Shape(), in.Group(), detail), true,
		"proto="+in.Proto(), "group="+in.Group(), "mode="+detail, "shape="+in.Shape())
}

func TestSigma(t *testing.T) {
	const test = "Sigma"
	vlib.Check(t, 420, func(t *rapid.T) {
		sp := drawSpec(t, cheapKinds)
		runSigma(t, test, buildSpec(sp), sp.String(), sigmaModes)
	})
}
