package c08

import (
	"fmt"
	"testing"

	"github.com/fxamacker/cbor/v2"

	"github.com/bronlabs/bron-crypto/pkg/base/curves/k256"
	"github.com/bronlabs/bron-crypto/pkg/proofs/dlog/schnorr"
	"github.com/bronlabs/bron-crypto/pkg/proofs/sigma/compiler"
	"verif/harness/vlib"
	"verif/harness/vlib/proto"
)

func TestProbe(t *testing.T) {
	prng := vlib.NewPRNG(1, "probe")
	curve := k256.NewCurve()
	p, _ := schnorr.NewProtocol(curve.Generator(), prng)
	w, _ := curve.ScalarField().Random(prng)
	x := schnorr.NewStatement(curve.ScalarBaseMul(w))
	for _, cn := range []compiler.Name{"FiatShamir", "Fischlin", "RandomisedFischlin"} {
		ni, err := compiler.Compile(cn, p, prng)
		if err != nil {
			t.Fatal(err)
		}
		ctxs, _ := proto.Contexts(proto.ToIDs([]uint64{1, 2}), 5, "x")
		pr, _ := ni.NewProver(ctxs[1])
		proof, err := pr.Prove(x, schnorr.NewWitness(w))
		if err != nil {
			t.Fatal(err)
		}
		var v any
		_ = cbor.Unmarshal(proof, &v)
		s := fmt.Sprintf("%v", v)
		if len(s) > 600 {
			s = s[:600]
		}
		fmt.Printf("%s len=%d %x\n%s\n", cn, len(proof), proof[:80], s)
		vr, _ := ni.NewVerifier(ctxs[2])
		fmt.Println(vr.Verify(x, proof))
	}
}
