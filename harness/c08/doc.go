// Package c08 checks property C08 "non-interactive proofs verify only for the right statement,
// prover and session" (see /verif/DESIGN.md, "### C08").
//
// Tests: TestNIBinding, TestNITamper, TestWrongWitness, TestOrEachBranch, TestSigma (dlog family and
// AND / OR compositions of depth <= 2 over seven groups and three compilers), TestTamperEveryClass
// (every site class x every deterministic operator on one proof per kind x compiler), TestHeavy
// (nthroot, Paillier range, prm, cggmp21 enc / fac / blummod on 1024-bit, affg / affgstar / dec on
// 2048-bit fixture moduli), TestPaillierOwnAPIs (pailliern, lp, lpdl).
//
// Where the package asserts LESS than DESIGN.md plans (to be copied into DESIGN.md §12):
//
//  1. unreduced-residue: a mutant that changes a decoded integer by a multiple of the modulus under
//     which the verifier interprets it (operator plus-order: scalar + group order where the decoder
//     keeps it; pailliern sigma_i + N) is the property's own exemption ("an unreduced scalar is the
//     same proof"): both verdicts are allowed, only "no panic" is asserted, counted under
//     verdict=unreduced-residue. When the typed decoder reduces (canonical re-encoding unchanged)
//     acceptance IS asserted; when it refuses the encoding, rejection is asserted.
//  2. leading zero: a zero byte PREPENDED to a ".natBytes" leaf leaves the integer unchanged but the
//     library's re-encoding keeps the longer announced length, so "same values" cannot be decided by
//     comparing re-encodings; for exactly that mutant only "no panic" is asserted
//     (verdict=undecided:leading-zero).
//  3. cggmp21 blummod documents that it has no fixed-challenge simulator (RunSimulator returns
//     ErrUnsupported): HVZK is recorded as hvzk:no-simulator, not asserted.
//  4. sigor.CartesianCompose with no valid witness produces a proof (branch 1 is taken without
//     validation) instead of an error; asserted: error OR the proof does not verify. The n-ary
//     sigor.Compose must refuse (asserted).
//  5. lp has no transcript-derived value: only completeness and "a prover holding another key's
//     factorisation is rejected" are asserted, no context binding. The plain interactive
//     sigma.Prover / Verifier pair: completeness only. The zk compiler and lpdl: a run between
//     differing contexts / statements must fail at some round (observed: the prover's Round4).
//  6. extractor: only the maurer09-based protocols (Schnorr, Okamoto, elcomop, nthroot) expose one;
//     for the others two accepting transcripts on one commitment are checked, nothing more.
//  7. C08-nil-component-panic (catalogued, known): WHILE a once-per-process probe (five small proofs with one
//     nested component set to null, verified under recover) finds it present, the operators null / map-drop whose
//     Verify panics with a nil dereference are excluded, and on and^n(or^m(..)) and or^n(andc(..)) shapes these two
//     operators are not executed at all (the dereference would happen in an errgroup goroutine and kill the
//     process). Once the probe finds it absent the exclusion disables itself: every operator runs on every shape
//     under the normal oracle and vlib.Known reports the finding as absent.
//  8. not covered: cggmp21 encelg; Fischlin / randomised Fischlin for the Paillier / CGGMP21
//     protocols except nthroot (cost); session ids cannot differ while the transcript is equal
//     (both derive from the common seed), so "omit the session id from the domain separator" is
//     not observable through session.NewContext.
package c08
