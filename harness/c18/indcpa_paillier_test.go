package c18

import (
	"fmt"
	"math/big"
	"sync"
	"testing"

	"pgregory.net/rapid"

	"github.com/bronlabs/bron-crypto/pkg/base/nt/num"
	"github.com/bronlabs/bron-crypto/pkg/base/nt/znstar"
	"github.com/bronlabs/bron-crypto/pkg/commitments"
	"github.com/bronlabs/bron-crypto/pkg/commitments/indcpacom"
	"github.com/bronlabs/bron-crypto/pkg/encryption/paillier"
	"verif/harness/vlib"
)

type (
	pailPubKey = indcpacom.HomomorphicCommitmentKey[*paillier.PublicKey, *paillier.Plaintext, *paillier.Nonce, *paillier.Ciphertext, *num.Int]
	pailSecKey = indcpacom.HomomorphicCommitmentKey[*paillier.SecretKey, *paillier.Plaintext, *paillier.Nonce, *paillier.Ciphertext, *num.Int]
	pailPlain  = indcpacom.CommitmentKey[*paillier.PublicKey, *paillier.Plaintext, *paillier.Nonce, *paillier.Ciphertext]
	pailM      = indcpacom.Message[*paillier.Plaintext]
	pailW      = indcpacom.Witness[*paillier.Nonce]
	pailC      = indcpacom.Commitment[*paillier.Ciphertext]
)

// pailKey: a Paillier modulus from two fixture primes with the three commitment-key views the
// package offers: homomorphic over the public key, homomorphic over the secret key
// ("self-encrypt", CRT arithmetic), plain (non-homomorphic) over the public key.
type pailKey struct {
	id    string
	bits  int
	kind  string
	n, n2 *big.Int
	sk    *paillier.SecretKey
	pk    *paillier.PublicKey
	pub   *pailPubKey
	sec   *pailSecKey
	plain *pailPlain
}

var (
	pailPoolMu sync.Mutex
	pailPool   = map[string]*pailKey{}
)

func getPailKey(t *rapid.T, bits int, kind string, i, j int) *pailKey {
	id := fmt.Sprintf("%d/%s/%d-%d", bits, kind, i, j)
	pailPoolMu.Lock()
	defer pailPoolMu.Unlock()
	if k, ok := pailPool[id]; ok {
		return k
	}
	ps := vlib.Primes(bits, kind)
	p, q := ps[i%len(ps)], ps[j%len(ps)]
	group, err := znstar.NewPaillierGroup(natPlus(p), natPlus(q))
	if err != nil {
		t.Fatalf("NewPaillierGroup(%s): %v", id, err)
	}
	sk, err := paillier.NewSecretKey(group)
	if err != nil {
		t.Fatalf("paillier.NewSecretKey(%s): %v", id, err)
	}
	k := &pailKey{id: id, bits: bits, kind: kind, sk: sk, pk: sk.Public(), n: new(big.Int).Mul(p, q)}
	k.n2 = new(big.Int).Mul(k.n, k.n)
	if k.pub, err = indcpacom.NewHomomorphicCommitmentKey(k.pk); err != nil {
		t.Fatalf("NewHomomorphicCommitmentKey(pk): %v", err)
	}
	if k.sec, err = indcpacom.NewHomomorphicCommitmentKey(k.sk); err != nil {
		t.Fatalf("NewHomomorphicCommitmentKey(sk): %v", err)
	}
	if k.plain, err = indcpacom.NewCommitmentKey(k.pk); err != nil {
		t.Fatalf("NewCommitmentKey(pk): %v", err)
	}
	pailPool[id] = k
	return k
}

func drawPailKey(t *rapid.T, label string) *pailKey {
	bits := rapid.SampledFrom([]int{512, 512, 512, 512, 512, 512, 768, 1024}).Draw(t, label+".bits")
	kind := rapid.SampledFrom([]string{"ord", "ord", "blum", "blum", "safe"}).Draw(t, label+".kind")
	i := rapid.IntRange(0, 2).Draw(t, label+".i")
	j := i + 1 + rapid.IntRange(0, 1).Draw(t, label+".j")
	return getPailKey(t, bits, kind, i, j)
}

func (k *pailKey) class() []string {
	return []string{fmt.Sprintf("N=%d", 2*k.bits), "primes=" + k.kind}
}

func (k *pailKey) msg(t *rapid.T, x *big.Int) *pailM {
	nat, err := num.N().FromBig(new(big.Int).Mod(x, k.n))
	if err != nil {
		t.Fatalf("num.N().FromBig: %v", err)
	}
	pt, err := paillier.NewPlaintextFromNat(nat, natPlus(k.n))
	if err != nil {
		t.Fatalf("NewPlaintextFromNat: %v", err)
	}
	m, err := indcpacom.NewMessage(pt)
	if err != nil {
		t.Fatalf("NewMessage: %v", err)
	}
	return m
}

// wit builds the nonce x (must be a unit mod N); the constructor's error is returned.
func (k *pailKey) wit(x *big.Int) (*pailW, error) {
	nonce, err := paillier.NewNonce(k.pk.Group(), natPlus(x))
	if err != nil {
		return nil, err
	}
	return indcpacom.NewWitness(nonce)
}

func (k *pailKey) com(x *big.Int) (*pailC, error) {
	ct, err := paillier.NewCiphertext(k.pk.Group(), natPlus(x))
	if err != nil {
		return nil, err
	}
	return indcpacom.NewCommitment(ct)
}

func pmBig(m *pailM) *big.Int { return m.Value().Value().Lift().Big() }
func pwBig(w *pailW) *big.Int { return w.Value().Value().Value().Lift().Big() }
func pcBig(c *pailC) *big.Int { return c.Value().Value().Value().Lift().Big() }

// drawMsg: 0, 1, N-1, 2^k, around N/2 (the sign boundary of the symmetric range), drawn.
func (k *pailKey) drawMsg(t *rapid.T, label string) (*pailM, string) {
	switch rapid.IntRange(0, 7).Draw(t, label+".cls") {
	case 0:
		return k.msg(t, new(big.Int)), "0"
	case 1:
		return k.msg(t, big.NewInt(1)), "1"
	case 2:
		return k.msg(t, new(big.Int).Sub(k.n, big.NewInt(1))), "N-1"
	case 3:
		return k.msg(t, bigPow2(rapid.IntRange(1, k.n.BitLen()-2).Draw(t, label+".k"))), "2^k"
	case 4:
		half := new(big.Int).Rsh(k.n, 1)
		return k.msg(t, half.Add(half, big.NewInt(int64(rapid.IntRange(-1, 2).Draw(t, label+".d"))))), "N/2+d"
	case 5:
		return k.msg(t, big.NewInt(int64(rapid.IntRange(2, 1<<20).Draw(t, label+".small")))), "small"
	default:
		b := make([]byte, (k.n.BitLen()+7)/8+8)
		_, _ = drawPRNG(t, label).Read(b)
		return k.msg(t, new(big.Int).SetBytes(b)), "drawn"
	}
}

func (k *pailKey) drawWit(t *rapid.T, label string) (*pailW, string) {
	var x *big.Int
	cls := ""
	switch rapid.IntRange(0, 6).Draw(t, label+".cls") {
	case 0:
		x, cls = big.NewInt(1), "1"
	case 1:
		x, cls = new(big.Int).Sub(k.n, big.NewInt(1)), "N-1"
	case 2:
		x, cls = big.NewInt(int64(rapid.IntRange(2, 1000).Draw(t, label+".small"))), "small"
	default:
		w, err := k.pub.SampleWitness(drawPRNG(t, label))
		if err != nil {
			t.Fatalf("paillier SampleWitness: %v", err)
		}
		return w, "sampled"
	}
	w, err := k.wit(x)
	if err != nil {
		t.Fatalf("paillier nonce %s: %v", short(x), err)
	}
	return w, cls
}

func (k *pailKey) show(m *pailM, w *pailW) string {
	return fmt.Sprintf("m=%s r=%s", short(pmBig(m)), short(pwBig(w)))
}

func (k *pailKey) openAll(t *rapid.T, c *pailC, m *pailM, w *pailW, what string) {
	if err := k.pub.Open(c, m, w); err != nil {
		t.Fatalf("%s: paillier[%s] public-key commitment key does not open c=%s with %s: %v", what, k.id, short(pcBig(c)), k.show(m, w), err)
	}
	if err := k.sec.Open(c, m, w); err != nil {
		t.Fatalf("%s: paillier[%s] secret-key commitment key does not open c=%s with %s: %v", what, k.id, short(pcBig(c)), k.show(m, w), err)
	}
	if err := k.plain.Open(c, m, w); err != nil {
		t.Fatalf("%s: paillier[%s] plain commitment key does not open c=%s with %s: %v", what, k.id, short(pcBig(c)), k.show(m, w), err)
	}
}

var pailChanges = []string{
	"none",
	"msg:flipbit", "msg:+1", "msg:neg", "msg:other",
	"wit:flipbit", "wit:*2", "wit:neg", "wit:other",
	"key:other-modulus",
	"com:other", "com:*(1+N)", "com:inv", "com:flipbit", "com:same-msg-other-witness",
}

// TestPaillierCommitOpen: commitment = Paillier ciphertext. (m, r) -> (1+N)^m r^N mod N^2 is a
// bijection Z_N x Z_N^* -> Z_{N^2}^*, so every change of the residue m or of the unit r is
// semantic.
func TestPaillierCommitOpen(t *testing.T) {
	const test = "PaillierCommitOpen"
	vlib.Check(t, 700, func(t *rapid.T) {
		k := drawPailKey(t, "key")
		view := rapid.SampledFrom([]string{"public", "secret", "plain"}).Draw(t, "view")
		m, mcls := k.drawMsg(t, "m")
		var (
			c    *pailC
			w    *pailW
			wcls string
			err  error
		)
		if rapid.Bool().Draw(t, "viaCommit") {
			wcls = "Commit"
			switch view {
			case "public":
				c, w, err = commitments.Commit(k.pub, m, drawPRNG(t, "commit"))
			case "secret":
				c, w, err = commitments.Commit(k.sec, m, drawPRNG(t, "commit"))
			default:
				c, w, err = commitments.Commit(k.plain, m, drawPRNG(t, "commit"))
			}
		} else {
			w, wcls = k.drawWit(t, "w")
			switch view {
			case "public":
				c, err = k.pub.CommitWithWitness(m, w)
			case "secret":
				c, err = k.sec.CommitWithWitness(m, w)
			default:
				c, err = k.plain.CommitWithWitness(m, w)
			}
		}
		if err != nil {
			t.Fatalf("paillier[%s]/%s commit(%s): %v", k.id, view, short(pmBig(m)), err)
		}
		k.openAll(t, c, m, w, "completeness("+view+")")

		change := rapid.SampledFrom(pailChanges).Draw(t, "change")
		mB, wB, cB := pmBig(m), pwBig(w), pcBig(c)
		m2, w2, c2 := m, w, c
		k2 := k
		semantic := true
		outcome := ""
		var cerr error
		switch change {
		case "none":
			semantic = false
		case "msg:flipbit":
			x := flipBit(mB, rapid.IntRange(0, k.n.BitLen()-1).Draw(t, "bit"))
			if x.Cmp(k.n) >= 0 {
				semantic, outcome = false, "out-of-range"
				break
			}
			m2 = k.msg(t, x)
		case "msg:+1":
			m2 = k.msg(t, new(big.Int).Add(mB, big.NewInt(1)))
		case "msg:neg":
			m2 = k.msg(t, new(big.Int).Neg(mB))
			semantic = mB.Sign() != 0
		case "msg:other":
			m2, _ = k.drawMsg(t, "m2")
			semantic = pmBig(m2).Cmp(mB) != 0
		case "wit:flipbit":
			x := flipBit(wB, rapid.IntRange(0, k.n.BitLen()-1).Draw(t, "bit"))
			if x.Sign() == 0 || x.Cmp(k.n) >= 0 {
				semantic, outcome = false, "out-of-range"
				break
			}
			w2, cerr = k.wit(x)
		case "wit:*2":
			w2, cerr = k.wit(new(big.Int).Mod(new(big.Int).Lsh(wB, 1), k.n))
		case "wit:neg":
			w2, cerr = k.wit(new(big.Int).Sub(k.n, wB))
		case "wit:other":
			w2, _ = k.drawWit(t, "w2")
			semantic = pwBig(w2).Cmp(wB) != 0
		case "key:other-modulus":
			k2 = drawPailKey(t, "key2")
			semantic = k2.n.Cmp(k.n) != 0
		case "com:other":
			mo, _ := k.drawMsg(t, "m3")
			wo, _ := k.drawWit(t, "w3")
			c2, err = k.pub.CommitWithWitness(mo, wo)
			semantic = pmBig(mo).Cmp(mB) != 0 || pwBig(wo).Cmp(wB) != 0
		case "com:same-msg-other-witness":
			wo, e := k.pub.SampleWitness(drawPRNG(t, "w4"))
			if e != nil {
				t.Fatalf("SampleWitness: %v", e)
			}
			c2, err = k.pub.CommitWithWitness(m, wo)
			semantic = pwBig(wo).Cmp(wB) != 0
		case "com:*(1+N)":
			x := new(big.Int).Mul(cB, new(big.Int).Add(k.n, big.NewInt(1)))
			c2, cerr = k.com(x.Mod(x, k.n2))
		case "com:inv":
			x := new(big.Int).ModInverse(cB, k.n2)
			c2, cerr = k.com(x)
			semantic = x.Cmp(cB) != 0
		case "com:flipbit":
			x := flipBit(cB, rapid.IntRange(0, k.n2.BitLen()-2).Draw(t, "bit"))
			if x.Sign() == 0 || x.Cmp(k.n2) >= 0 {
				semantic, outcome = false, "out-of-range"
				break
			}
			c2, cerr = k.com(x)
		}
		if err != nil {
			t.Fatalf("paillier[%s]: building the changed input for %q: %v", k.id, change, err)
		}
		if cerr != nil {
			semantic, outcome = false, "decode-rejected"
		}
		negative := semantic && change != "none"
		if negative {
			var oerr error
			vlib.NoPanic(t, fmt.Sprintf("paillier[%s] Open after change %q", k.id, change), func() {
				switch view {
				case "public":
					oerr = k2.pub.Open(c2, m2, w2)
				case "secret":
					oerr = k2.sec.Open(c2, m2, w2)
				default:
					oerr = k2.plain.Open(c2, m2, w2)
				}
			})
			if oerr == nil {
				t.Fatalf("binding: paillier[%s]/%s Open succeeded after change %q\n committed %s c=%s\n opened    [%s] %s c=%s",
					k.id, view, change, k.show(m, w), short(cB), k2.id, k.show(m2, w2), short(pcBig(c2)))
			}
		}
		ch := change
		if outcome == "decode-rejected" {
			negative = true
			ch += ":rejected"
		} else if !semantic && change != "none" {
			ch += ":not-semantic"
		}
		vlib.Sample("paillier/"+ch, map[string]any{"key": k.id, "opening": k.show(m, w)})
		cl := append(k.class(), "view="+view, "change="+ch, "msg="+mcls, "wit="+wcls)
		vlib.Case(test, vlib.Desc("indcpa-paillier", view, 2*k.bits, k.kind, ch, mcls, wcls), negative, cl...)
	})
}

func pailHomEnv(k *pailKey) *homEnv[*pailM, *pailW, *pailC, *num.Int] {
	return &homEnv[*pailM, *pailW, *pailC, *num.Int]{
		drawM: func(t *rapid.T, label string) (*pailM, string) { return k.drawMsg(t, label) },
		drawW: func(t *rapid.T, label string) (*pailW, string) { return k.drawWit(t, label) },
		drawS: func(t *rapid.T, label string) (*num.Int, string, bool) {
			neg := rapid.Bool().Draw(t, label+".neg")
			var x *big.Int
			var cls string
			switch rapid.IntRange(0, 5).Draw(t, label+".cls") {
			case 0:
				return numInt(new(big.Int)), "0", false
			case 1:
				x, cls = big.NewInt(1), "1"
			case 2:
				x, cls = bigPow2(rapid.IntRange(1, 128).Draw(t, label+".k")), "2^k"
			case 3:
				// a scalar around the modulus: N-1, N, N+1 act as -1, 0, 1 on messages
				x, cls = new(big.Int).Add(k.n, big.NewInt(int64(rapid.IntRange(-1, 1).Draw(t, label+".d")))), "N+d"
			default:
				x, cls = big.NewInt(int64(rapid.IntRange(2, 1000).Draw(t, label+".small"))), "small"
			}
			if neg {
				x.Neg(x)
				cls = "-" + cls
			}
			return numInt(x), cls, false
		},
		showM:  func(m *pailM) string { return short(pmBig(m)) },
		showW:  func(w *pailW) string { return short(pwBig(w)) },
		maxOps: 6,
	}
}

// TestPaillierCommitHomomorphism: op sequences through the public-key and the secret-key view,
// each cross-verified under the other.
func TestPaillierCommitHomomorphism(t *testing.T) {
	const test = "PaillierCommitHomomorphism"
	vlib.Check(t, 300, func(t *rapid.T) {
		k := drawPailKey(t, "key")
		view := rapid.SampledFrom([]string{"public", "secret"}).Draw(t, "view")
		env := pailHomEnv(k)
		var shape, sc []string
		if view == "public" {
			env.verify = append(env.verify, func(c *pailC, m *pailM, w *pailW) error { return k.sec.Open(c, m, w) })
			shape, sc = runHomSequence(t, "paillier["+k.id+"]/public", k.pub, env)
		} else {
			env.verify = append(env.verify, func(c *pailC, m *pailM, w *pailW) error { return k.pub.Open(c, m, w) })
			shape, sc = runHomSequence(t, "paillier["+k.id+"]/secret", k.sec, env)
		}
		cl := append(homClasses(shape, sc), k.class()...)
		cl = append(cl, "view="+view)
		vlib.Case(test, vlib.Desc("indcpa-paillier", view, 2*k.bits, k.kind, shapeDesc(shape)), len(shape) >= 2, cl...)
	})
}
