package c18

import (
	"fmt"
	"math/big"
	"sync"
	"testing"

	"pgregory.net/rapid"

	"github.com/bronlabs/bron-crypto/pkg/base"
	"github.com/bronlabs/bron-crypto/pkg/base/nt/num"
	"github.com/bronlabs/bron-crypto/pkg/base/nt/znstar"
	"github.com/bronlabs/bron-crypto/pkg/commitments"
	"github.com/bronlabs/bron-crypto/pkg/commitments/intcom"
	"github.com/bronlabs/bron-crypto/pkg/transcripts/hagrid"
	"verif/harness/vlib"
)

// ---- key pool ---------------------------------------------------------------------------
//
// Ring-Pedersen keys are built from the fixture primes (generated with openssl, independent
// of the library) through the library's own constructors: znstar.NewRSAGroup(p, q),
// intcom.NewTrapdoorKey(t, lambda), Export(), intcom.ExtractCommitmentKey(transcript, label,
// group). The documented setting is a product of two SAFE primes; NewRSAGroup/NewTrapdoorKey
// also accept Blum and ordinary primes (only primality and equal length are checked), so
// those are generated with low weight and labelled.
//
// A key is a deterministic function of its pool id and is memoised per process.

type intKey struct {
	id      string
	bits    int // bit length of each prime
	kind    string
	i, j    int // fixture indices
	variant int
	p, q    *big.Int
	n       *big.Int
	group   *znstar.RSAGroupKnownOrder
	trap    *intcom.TrapdoorKey   // nil for extracted keys
	pub     *intcom.CommitmentKey // exported / extracted public key
	src     string                // "trapdoor" | "extracted" | "sampled"
}

var (
	intPoolMu sync.Mutex
	intPool   = map[string]*intKey{}
)

func natPlus(x *big.Int) *num.NatPlus {
	v, err := num.NPlus().FromBig(x)
	if err != nil {
		panic(err)
	}
	return v
}

func numInt(x *big.Int) *num.Int {
	v, err := num.Z().FromBig(x)
	if err != nil {
		panic(err)
	}
	return v
}

// buildIntKey constructs key number `variant` over the modulus made of fixture primes
// (bits, kind)[i] and [j].
func buildIntKey(bits int, kind string, i, j, variant int, src string) (*intKey, error) {
	if src == "sampled" || src == "sampled-trapdoor" {
		// the library's own key generation (safe primes sampled by the library); small moduli
		// only, because safe-prime generation is slow.
		id := fmt.Sprintf("%d/%s/%d-%d/%d/%s", bits, kind, i, j, variant, src)
		k := &intKey{id: id, bits: bits, kind: kind, i: i, j: j, variant: variant, src: src}
		prng := vlib.NewPRNG(0xC18, "intkey/"+id)
		var err error
		if src == "sampled" {
			k.pub, err = intcom.SampleCommitmentKey(uint(2*bits), prng)
		} else {
			k.trap, err = intcom.SampleTrapdoorKey(uint(2*bits), prng)
			if err == nil {
				k.pub = k.trap.Export()
				k.group = k.trap.Group()
			}
		}
		if err != nil {
			return nil, fmt.Errorf("intcom.Sample*Key(%d): %w", 2*bits, err)
		}
		k.n = k.pub.Group().Modulus().Big()
		return k, nil
	}
	ps := vlib.Primes(bits, kind)
	if len(ps) < 2 {
		return nil, fmt.Errorf("no fixture primes for %d/%s", bits, kind)
	}
	p, q := ps[i%len(ps)], ps[j%len(ps)]
	if p.Cmp(q) == 0 {
		q = ps[(j+1)%len(ps)]
	}
	id := fmt.Sprintf("%d/%s/%d-%d/%d/%s", bits, kind, i, j, variant, src)
	group, err := znstar.NewRSAGroup(natPlus(p), natPlus(q))
	if err != nil {
		return nil, fmt.Errorf("NewRSAGroup: %w", err)
	}
	k := &intKey{id: id, bits: bits, kind: kind, i: i, j: j, variant: variant, p: p, q: q, n: new(big.Int).Mul(p, q), group: group, src: src}
	prng := vlib.NewPRNG(0xC18, "intkey/"+id)
	switch src {
	case "extracted":
		tr := hagrid.NewTranscript("c18-intcom")
		tr.AppendBytes("variant", []byte{byte(variant)})
		if variant%2 == 0 {
			k.pub, err = intcom.ExtractCommitmentKey(tr, "ring-pedersen", group)
		} else {
			k.pub, err = intcom.ExtractCommitmentKey(tr, "ring-pedersen", group.ForgetOrder())
		}
		if err != nil {
			return nil, fmt.Errorf("ExtractCommitmentKey: %w", err)
		}
	default:
		// t: a quadratic residue with gcd(t-1, N) = 1
		var t *znstar.RSAGroupElementKnownOrder
		for {
			t, err = group.RandomQuadraticResidue(prng)
			if err != nil {
				return nil, fmt.Errorf("RandomQuadraticResidue: %w", err)
			}
			tm1 := new(big.Int).Sub(t.Value().Lift().Big(), big.NewInt(1))
			if new(big.Int).GCD(nil, nil, tm1, k.n).Cmp(big.NewInt(1)) == 0 {
				break
			}
		}
		// lambda: a unit mod (p-1)/2*(q-1)/2, not one
		phi4 := new(big.Int).Mul(new(big.Int).Rsh(p, 1), new(big.Int).Rsh(q, 1))
		zm, err := num.NewZMod(natPlus(phi4))
		if err != nil {
			return nil, fmt.Errorf("NewZMod: %w", err)
		}
		var lambda *num.Uint
		for {
			lambda, err = zm.Random(prng)
			if err != nil {
				return nil, fmt.Errorf("ZMod.Random: %w", err)
			}
			l := lambda.Lift().Big()
			if l.Cmp(big.NewInt(1)) > 0 && new(big.Int).GCD(nil, nil, l, phi4).Cmp(big.NewInt(1)) == 0 {
				break
			}
		}
		k.trap, err = intcom.NewTrapdoorKey(t, lambda)
		if err != nil {
			return nil, fmt.Errorf("NewTrapdoorKey: %w", err)
		}
		k.pub = k.trap.Export()
	}
	return k, nil
}

func getIntKey(t *rapid.T, bits int, kind string, i, j, variant int, src string) *intKey {
	id := fmt.Sprintf("%d/%s/%d-%d/%d/%s", bits, kind, i, j, variant, src)
	intPoolMu.Lock()
	defer intPoolMu.Unlock()
	if k, ok := intPool[id]; ok {
		return k
	}
	k, err := buildIntKey(bits, kind, i, j, variant, src)
	if err != nil {
		t.Fatalf("intcom key %s: %v", id, err)
	}
	intPool[id] = k
	return k
}

// drawIntKey: mostly 1024-bit moduli of safe primes.
func drawIntKey(t *rapid.T, label string, allowExtracted bool) *intKey {
	bits := rapid.SampledFrom([]int{512, 512, 512, 512, 512, 512, 512, 768, 768, 1024}).Draw(t, label+".bits")
	if vlib.Thorough() && rapid.IntRange(0, 9).Draw(t, label+".big") == 0 {
		bits = 1536
	}
	kind := rapid.SampledFrom([]string{"safe", "safe", "safe", "safe", "safe", "blum", "ord"}).Draw(t, label+".kind")
	i := rapid.IntRange(0, 2).Draw(t, label+".i")
	j := i + 1 + rapid.IntRange(0, 1).Draw(t, label+".j")
	variant := rapid.IntRange(0, 1).Draw(t, label+".variant")
	src := "trapdoor"
	switch r := rapid.IntRange(0, 9).Draw(t, label+".src"); {
	case r <= 1 && allowExtracted:
		src = "extracted"
	case r == 2:
		// keys generated by the library itself (N = 256 bits)
		return getIntKey(t, 128, "lib-safe", 0, 0, variant, "sampled-trapdoor")
	case r == 3 && allowExtracted:
		return getIntKey(t, 128, "lib-safe", 0, 0, variant, "sampled")
	}
	return getIntKey(t, bits, kind, i, j, variant, src)
}

func (k *intKey) class() []string {
	return []string{fmt.Sprintf("N=%d", 2*k.bits), "primes=" + k.kind, "keysrc=" + k.src}
}

// ---- values -----------------------------------------------------------------------------

// drawInt: 0, ±1, ±2^k, small, around N, large.
func drawInt(t *rapid.T, label string, k *intKey, maxBits int) (*big.Int, string) {
	neg := rapid.Bool().Draw(t, label+".neg")
	var x *big.Int
	var cls string
	switch rapid.IntRange(0, 7).Draw(t, label+".cls") {
	case 0:
		return new(big.Int), "0"
	case 1:
		x, cls = big.NewInt(1), "1"
	case 2:
		x, cls = bigPow2(rapid.IntRange(1, maxBits).Draw(t, label+".k")), "2^k"
	case 3:
		x, cls = big.NewInt(int64(rapid.IntRange(2, 1<<20).Draw(t, label+".small"))), "small"
	case 4:
		x, cls = new(big.Int).Add(k.n, big.NewInt(int64(rapid.IntRange(-2, 2).Draw(t, label+".d")))), "N+d"
	case 5:
		b := make([]byte, (maxBits+7)/8)
		_, _ = drawPRNG(t, label+".large").Read(b)
		x, cls = new(big.Int).SetBytes(b), "large"
	default:
		n := rapid.IntRange(1, 32).Draw(t, label+".len")
		x, cls = new(big.Int).SetBytes(rapid.SliceOfN(rapid.Byte(), n, n).Draw(t, label+".bytes")), "drawn"
	}
	if neg {
		x.Neg(x)
		cls = "-" + cls
	}
	return x, cls
}

func intMsg(x *big.Int) *intcom.Message {
	m, err := intcom.NewMessage(numInt(x))
	if err != nil {
		panic(err)
	}
	return m
}

func intWit(x *big.Int) *intcom.Witness {
	w, err := intcom.NewWitness(numInt(x))
	if err != nil {
		panic(err)
	}
	return w
}

func showIntM(m *intcom.Message) string { return short(m.Value().Big()) }
func showIntW(w *intcom.Witness) string { return short(w.Value().Big()) }

// intCommit draws (m, w) and commits under the trapdoor view (if any) or the public key.
func intCommit(t *rapid.T, k *intKey, label string, useTrap bool) (c *intcom.Commitment, m *intcom.Message, w *intcom.Witness, mcls, wcls string) {
	mb, mcls := drawInt(t, label+".m", k, 2*k.bits+160)
	m = intMsg(mb)
	var err error
	if rapid.IntRange(0, 2).Draw(t, label+".viaCommit") > 0 {
		wcls = "Commit"
		if useTrap && k.trap != nil {
			c, w, err = commitments.Commit(k.trap, m, drawPRNG(t, label+".commit"))
		} else {
			c, w, err = commitments.Commit(k.pub, m, drawPRNG(t, label+".commit"))
		}
	} else {
		var wb *big.Int
		wb, wcls = drawInt(t, label+".w", k, 2*k.bits+base.StatisticalSecurityBits)
		w = intWit(wb)
		if useTrap && k.trap != nil {
			c, err = k.trap.CommitWithWitness(m, w)
		} else {
			c, err = k.pub.CommitWithWitness(m, w)
		}
	}
	if err != nil {
		t.Fatalf("intcom[%s] commit(m=%s): %v", k.id, short(mb), err)
	}
	return c, m, w, mcls, wcls
}

func intOpenAll(t *rapid.T, k *intKey, c *intcom.Commitment, m *intcom.Message, w *intcom.Witness, what string) {
	if err := k.pub.Open(c, m, w); err != nil {
		t.Fatalf("%s: intcom[%s] public key does not open c=%s with m=%s w=%s: %v", what, k.id, short(c.Value().Value().Lift().Big()), showIntM(m), showIntW(w), err)
	}
	if k.trap != nil {
		if err := k.trap.Open(c, m, w); err != nil {
			t.Fatalf("%s: intcom[%s] trapdoor key does not open with m=%s w=%s: %v", what, k.id, showIntM(m), showIntW(w), err)
		}
		c1, e1 := k.trap.CommitWithWitness(m, w)
		c2, e2 := k.pub.CommitWithWitness(m, w)
		if e1 != nil || e2 != nil || !c1.Equal(c2) {
			t.Fatalf("%s: intcom[%s] trapdoor and exported keys commit differently to m=%s w=%s (%v, %v)", what, k.id, showIntM(m), showIntW(w), e1, e2)
		}
	}
}

func intComFromBig(t *rapid.T, k *intKey, x *big.Int) (*intcom.Commitment, error) {
	nat, err := num.N().FromBig(x)
	if err != nil {
		t.Fatalf("num.N().FromBig: %v", err)
	}
	e, err := k.pub.Group().FromNat(nat)
	if err != nil {
		return nil, err
	}
	return intcom.NewCommitment(e)
}

// ---- open / binding ------------------------------------------------------------------------

var intChanges = []string{
	"none",
	"msg:flipbit", "msg:+1", "msg:-1", "msg:neg", "msg:other", "msg:swap-with-witness",
	"wit:flipbit", "wit:+1", "wit:neg", "wit:other",
	"key:other-variant", "key:other-modulus", "key:extracted",
	"com:other", "com:*t", "com:inv", "com:flipbit", "com:same-msg-other-witness", "com:one",
}

// TestIntcomOpen: completeness under the trapdoor key, the exported key and transcript-extracted
// keys, and binding of Open to each component.
//
// Whether a change is semantic is decided on the integers: a message or witness changed by a
// non-zero amount d changes s^m·t^r unless ord(s) resp. ord(t) divides d, which for d = ±1,
// ±2^k (the group has odd order ≥ 2^1000 for safe primes; a random residue has no power-of-two
// order otherwise) or a drawn d is excluded resp. negligible; m -> -m is semantic iff m != 0.
func TestIntcomOpen(t *testing.T) {
	const test = "IntcomOpen"
	vlib.Check(t, 800, func(t *rapid.T) {
		k := drawIntKey(t, "key", true)
		useTrap := rapid.Bool().Draw(t, "commitWithTrapdoor")
		c, m, w, mcls, wcls := intCommit(t, k, "c", useTrap)
		intOpenAll(t, k, c, m, w, "completeness")
		mB, wB := m.Value().Big(), w.Value().Big()

		change := rapid.SampledFrom(intChanges).Draw(t, "change")
		k2, m2, w2, c2 := k.pub, m, w, c
		semantic := true
		outcome := ""
		var err error
		switch change {
		case "none":
			semantic = false
		case "msg:flipbit":
			m2 = intMsg(flipBit(mB, rapid.IntRange(0, 2*k.bits+200).Draw(t, "bit")))
		case "msg:+1":
			m2 = intMsg(new(big.Int).Add(mB, big.NewInt(1)))
		case "msg:-1":
			m2 = intMsg(new(big.Int).Sub(mB, big.NewInt(1)))
		case "msg:neg":
			m2 = intMsg(new(big.Int).Neg(mB))
			semantic = mB.Sign() != 0
		case "msg:other":
			x, _ := drawInt(t, "m2", k, 2*k.bits+160)
			m2 = intMsg(x)
			semantic = x.Cmp(mB) != 0
		case "msg:swap-with-witness":
			m2, w2 = intMsg(wB), intWit(mB)
			semantic = mB.Cmp(wB) != 0
		case "wit:flipbit":
			w2 = intWit(flipBit(wB, rapid.IntRange(0, 2*k.bits+base.StatisticalSecurityBits+8).Draw(t, "bit")))
		case "wit:+1":
			w2 = intWit(new(big.Int).Add(wB, big.NewInt(1)))
		case "wit:neg":
			w2 = intWit(new(big.Int).Neg(wB))
			semantic = wB.Sign() != 0
		case "wit:other":
			x, _ := drawInt(t, "w2", k, 2*k.bits+base.StatisticalSecurityBits)
			w2 = intWit(x)
			semantic = x.Cmp(wB) != 0
		case "key:other-variant":
			// same modulus, independently drawn t and lambda: both generators differ
			o := otherVariant(t, k)
			k2 = o.pub
			semantic = o.n.Cmp(k.n) != 0 || ((mB.Sign() != 0 || wB.Sign() != 0) && !k2.Equal(k.pub))
		case "key:other-modulus":
			o := drawIntKey(t, "key2", true)
			k2 = o.pub
			semantic = o.n.Cmp(k.n) != 0 || ((mB.Sign() != 0 || wB.Sign() != 0) && !k2.Equal(k.pub))
		case "key:extracted":
			// same modulus, generators derived from a transcript
			k2 = extractedOver(t, k, rapid.IntRange(0, 1).Draw(t, "xvariant"))
			semantic = (mB.Sign() != 0 || wB.Sign() != 0) && !k2.Equal(k.pub)
		case "com:other":
			o, mo, wo, _, _ := intCommit(t, k, "c2", false)
			c2 = o
			semantic = !(mo.Equal(m) && wo.Equal(w)) && !o.Value().Equal(c.Value())
		case "com:same-msg-other-witness":
			wo, e := k.pub.SampleWitness(drawPRNG(t, "w3"))
			if e != nil {
				t.Fatalf("SampleWitness: %v", e)
			}
			c2, err = k.pub.CommitWithWitness(m, wo)
			semantic = !wo.Equal(w)
		case "com:*t":
			c2, err = intcom.NewCommitment(c.Value().Mul(k.pub.T()))
		case "com:inv":
			inv := c.Value().Inv()
			c2, err = intcom.NewCommitment(inv)
			semantic = !inv.Equal(c.Value())
		case "com:one":
			c2, err = intComFromBig(t, k, big.NewInt(1))
			semantic = c.Value().Value().Lift().Big().Cmp(big.NewInt(1)) != 0
		case "com:flipbit":
			v := c.Value().Value().Lift().Big()
			v2 := flipBit(v, rapid.IntRange(0, k.n.BitLen()-2).Draw(t, "bit"))
			if v2.Sign() == 0 || v2.Cmp(k.n) >= 0 {
				semantic, outcome = false, "out-of-range"
				break
			}
			var derr error
			c2, derr = intComFromBig(t, k, v2)
			if derr != nil {
				semantic, outcome = false, "decode-rejected"
			}
		}
		if err != nil {
			t.Fatalf("intcom[%s]: building the changed input for %q: %v", k.id, change, err)
		}
		negative := semantic && change != "none"
		if negative {
			if err := k2.Open(c2, m2, w2); err == nil {
				t.Fatalf("binding: intcom[%s] Open succeeded after change %q\n committed m=%s w=%s c=%s\n opened    m=%s w=%s c=%s",
					k.id, change, showIntM(m), showIntW(w), short(c.Value().Value().Lift().Big()), showIntM(m2), showIntW(w2), short(c2.Value().Value().Lift().Big()))
			}
			if k.trap != nil && k2 == k.pub {
				if err := k.trap.Open(c2, m2, w2); err == nil {
					t.Fatalf("binding: intcom[%s] trapdoor-key Open succeeded after change %q (m=%s w=%s -> m=%s w=%s)", k.id, change, showIntM(m), showIntW(w), showIntM(m2), showIntW(w2))
				}
			}
		}
		ch := change
		if outcome == "decode-rejected" {
			negative = true
			ch += ":rejected"
		} else if !semantic && change != "none" {
			ch += ":not-semantic"
		}
		vlib.Sample("intcom/"+ch, map[string]any{"key": k.id, "m": showIntM(m), "w": showIntW(w)})
		cl := append(k.class(), "change="+ch, "msg="+mcls, "wit="+wcls, fmt.Sprintf("committedWithTrapdoor=%v", useTrap && k.trap != nil))
		vlib.Case(test, vlib.Desc("intcom", k.src, 2*k.bits, k.kind, ch, mcls, wcls), negative, cl...)
	})
}

func otherVariant(t *rapid.T, k *intKey) *intKey {
	if k.kind == "lib-safe" {
		return getIntKey(t, k.bits, k.kind, k.i, k.j, 1-k.variant, k.src) // another sampled modulus
	}
	return getIntKey(t, k.bits, k.kind, k.i, k.j, 1-k.variant, "trapdoor")
}

// extractedOver returns a transcript-derived key over the same modulus as k.
func extractedOver(t *rapid.T, k *intKey, variant int) *intcom.CommitmentKey {
	if k.kind != "lib-safe" {
		return getIntKey(t, k.bits, k.kind, k.i, k.j, variant, "extracted").pub
	}
	tr := hagrid.NewTranscript("c18-intcom")
	tr.AppendBytes("variant", []byte{byte(variant)})
	pub, err := intcom.ExtractCommitmentKey(tr, "ring-pedersen", k.pub.Group())
	if err != nil {
		t.Fatalf("intcom.ExtractCommitmentKey over %s: %v", k.id, err)
	}
	return pub
}

// ---- homomorphism ----------------------------------------------------------------------------

func intHomEnv(k *intKey, sampler commitments.WitnessSampler[*intcom.Witness]) *homEnv[*intcom.Message, *intcom.Witness, *intcom.Commitment, *num.Int] {
	return &homEnv[*intcom.Message, *intcom.Witness, *intcom.Commitment, *num.Int]{
		drawM: func(t *rapid.T, label string) (*intcom.Message, string) {
			x, c := drawInt(t, label, k, 2*k.bits+64)
			return intMsg(x), c
		},
		drawW: func(t *rapid.T, label string) (*intcom.Witness, string) {
			if rapid.Bool().Draw(t, label+".sampled") {
				w, err := sampler.SampleWitness(drawPRNG(t, label))
				if err != nil {
					t.Fatalf("intcom SampleWitness: %v", err)
				}
				return w, "sampled"
			}
			x, c := drawInt(t, label, k, 2*k.bits+base.StatisticalSecurityBits)
			return intWit(x), c
		},
		drawS: func(t *rapid.T, label string) (*num.Int, string, bool) {
			neg := rapid.Bool().Draw(t, label+".neg")
			var x *big.Int
			var cls string
			switch rapid.IntRange(0, 5).Draw(t, label+".cls") {
			case 0:
				return numInt(new(big.Int)), "0", false
			case 1:
				x, cls = big.NewInt(1), "1"
			case 2:
				x, cls = bigPow2(rapid.IntRange(1, 128).Draw(t, label+".k")), "2^k"
			case 3:
				b := make([]byte, 40)
				_, _ = drawPRNG(t, label+".large").Read(b)
				x, cls = new(big.Int).SetBytes(b), "320bit"
			default:
				x, cls = big.NewInt(int64(rapid.IntRange(2, 1000).Draw(t, label+".small"))), "small"
			}
			if neg {
				x.Neg(x)
				cls = "-" + cls
			}
			return numInt(x), cls, false
		},
		showM:  showIntM,
		showW:  showIntW,
		maxOps: 6,
	}
}

// TestIntcomHomomorphism: drawn op sequences over the integers, run through the public key and
// through the trapdoor key (whose group operations use the known order), cross-verified under
// the other view.
func TestIntcomHomomorphism(t *testing.T) {
	const test = "IntcomHomomorphism"
	vlib.Check(t, 400, func(t *rapid.T) {
		k := drawIntKey(t, "key", true)
		view := "public"
		var shape, sc []string
		if k.trap != nil && rapid.Bool().Draw(t, "trapdoorView") {
			view = "trapdoor"
			env := intHomEnv(k, k.trap)
			env.verify = append(env.verify, func(c *intcom.Commitment, m *intcom.Message, w *intcom.Witness) error { return k.pub.Open(c, m, w) })
			shape, sc = runHomSequence(t, "intcom["+k.id+"]/trapdoor", k.trap, env)
		} else {
			env := intHomEnv(k, k.pub)
			if k.trap != nil {
				env.verify = append(env.verify, func(c *intcom.Commitment, m *intcom.Message, w *intcom.Witness) error { return k.trap.Open(c, m, w) })
			}
			shape, sc = runHomSequence(t, "intcom["+k.id+"]/public", k.pub, env)
		}
		cl := append(homClasses(shape, sc), k.class()...)
		cl = append(cl, "view="+view)
		vlib.Case(test, vlib.Desc("intcom", k.src, view, 2*k.bits, k.kind, shapeDesc(shape)), len(shape) >= 2, cl...)
	})
}

// ---- equivocation ------------------------------------------------------------------------------

// TestIntcomEquivocation: Equivocate(m, w, m') gives w' such that the exported key opens the
// same commitment to m'; w' != w when m' != m.
func TestIntcomEquivocation(t *testing.T) {
	const test = "IntcomEquivocation"
	vlib.Check(t, 300, func(t *rapid.T) {
		k := drawIntKey(t, "key", false)
		useTrap := rapid.Bool().Draw(t, "commitWithTrapdoor")
		c, m, w, mcls, wcls := intCommit(t, k, "c", useTrap)
		intOpenAll(t, k, c, m, w, "completeness")
		var m2b *big.Int
		var m2cls string
		if rapid.IntRange(0, 9).Draw(t, "same") == 0 {
			m2b, m2cls = m.Value().Big(), "same"
		} else {
			m2b, m2cls = drawInt(t, "m2", k, 2*k.bits+160)
		}
		m2 := intMsg(m2b)
		w2, err := k.trap.Equivocate(m, w, m2, drawPRNG(t, "equiv"))
		if err != nil {
			t.Fatalf("intcom[%s] Equivocate(m=%s, w=%s, m'=%s): %v", k.id, showIntM(m), showIntW(w), short(m2b), err)
		}
		exported := k.trap.Export()
		if err := exported.Open(c, m2, w2); err != nil {
			t.Fatalf("equivocation: intcom[%s] exported key does not open c to m'=%s with w'=%s (from m=%s w=%s): %v",
				k.id, short(m2b), showIntW(w2), showIntM(m), showIntW(w), err)
		}
		if err := k.trap.Open(c, m2, w2); err != nil {
			t.Fatalf("equivocation: intcom[%s] trapdoor key does not open c to m'=%s: %v", k.id, short(m2b), err)
		}
		same := m2.Equal(m)
		if !same && w2.Equal(w) {
			t.Fatalf("equivocation: intcom[%s] m' != m but witness unchanged (m=%s m'=%s w=%s)", k.id, showIntM(m), short(m2b), showIntW(w))
		}
		if !same {
			if err := exported.Open(c, m2, w); err == nil {
				t.Fatalf("binding: intcom[%s] c opens to m'=%s with the ORIGINAL witness (m=%s)", k.id, short(m2b), showIntM(m))
			}
			if err := exported.Open(c, m, w2); err == nil {
				t.Fatalf("binding: intcom[%s] c opens to m=%s with the EQUIVOCATED witness (m'=%s)", k.id, showIntM(m), short(m2b))
			}
		}
		if err := exported.Open(c, m, w); err != nil {
			t.Fatalf("intcom[%s]: original opening invalid after Equivocate: %v", k.id, err)
		}
		// measured, not asserted: is w' inside the honest sampling range [-N·2^80, N·2^80)?
		bound := new(big.Int).Lsh(k.n, base.StatisticalSecurityBits)
		inRange := "n/a(m'=m)"
		if !same {
			inRange = fmt.Sprint(w2.Value().Big().CmpAbs(bound) < 0)
		}
		rel := "m'!=m"
		if same {
			rel = "m'=m"
		}
		vlib.Sample("intcom-equiv", map[string]any{"key": k.id, "m": showIntM(m), "w": showIntW(w), "m2": short(m2b), "w2": showIntW(w2)})
		cl := append(k.class(), "msg="+mcls, "wit="+wcls, "newmsg="+m2cls, rel, "w'InSamplingRange="+inRange)
		vlib.Case(test, vlib.Desc("intcom", 2*k.bits, k.kind, "equivocate", mcls, wcls, m2cls, rel), true, cl...)
	})
}
