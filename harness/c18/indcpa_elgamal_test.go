package c18

import (
	"fmt"
	"math/big"
	"testing"

	"pgregory.net/rapid"

	"github.com/bronlabs/bron-crypto/pkg/base/algebra"
	"github.com/bronlabs/bron-crypto/pkg/base/curves/edwards25519"
	"github.com/bronlabs/bron-crypto/pkg/base/curves/k256"
	"github.com/bronlabs/bron-crypto/pkg/base/curves/p256"
	"github.com/bronlabs/bron-crypto/pkg/commitments"
	"github.com/bronlabs/bron-crypto/pkg/commitments/indcpacom"
	"github.com/bronlabs/bron-crypto/pkg/encryption/elgamal"
	"verif/harness/vlib"
)

type egCurve interface {
	openCase(t *rapid.T) (string, bool, []string)
	homCase(t *rapid.T) (string, bool, []string)
}

type (
	egPubKey[E elgamal.FiniteCyclicGroupElement[E, S], S algebra.UintLike[S]] = indcpacom.HomomorphicCommitmentKey[*elgamal.PublicKey[E, S], *elgamal.Plaintext[E, S], *elgamal.Nonce[S], *elgamal.Ciphertext[E, S], S]
	egSecKey[E elgamal.FiniteCyclicGroupElement[E, S], S algebra.UintLike[S]] = indcpacom.HomomorphicCommitmentKey[*elgamal.SecretKey[E, S], *elgamal.Plaintext[E, S], *elgamal.Nonce[S], *elgamal.Ciphertext[E, S], S]
	egM[E elgamal.FiniteCyclicGroupElement[E, S], S algebra.UintLike[S]]      = indcpacom.Message[*elgamal.Plaintext[E, S]]
	egW[S algebra.UintLike[S]]                                                = indcpacom.Witness[*elgamal.Nonce[S]]
	egC[E elgamal.FiniteCyclicGroupElement[E, S], S algebra.UintLike[S]]      = indcpacom.Commitment[*elgamal.Ciphertext[E, S]]
)

type eg[E elgamal.FiniteCyclicGroupElement[E, S], S algebra.UintLike[S]] struct {
	nm    string
	group elgamal.FiniteCyclicGroup[E, S]
	zn    algebra.ZModLike[S]
	q     *big.Int
}

func newEG[E elgamal.FiniteCyclicGroupElement[E, S], S algebra.UintLike[S]](nm string, g elgamal.FiniteCyclicGroup[E, S]) *eg[E, S] {
	zn := algebra.StructureMustBeAs[algebra.ZModLike[S]](g.ScalarStructure())
	return &eg[E, S]{nm: nm, group: g, zn: zn, q: g.Order().Big()}
}

var egCurves = []egCurve{
	newEG("k256", k256.NewCurve()),
	newEG("ed25519-prime", edwards25519.NewPrimeSubGroup()),
	newEG("p256", p256.NewCurve()),
}

func (e *eg[E, S]) scalar(t *rapid.T, x *big.Int) S {
	s, err := e.zn.FromBytesBEReduce(new(big.Int).Mod(x, e.q).Bytes())
	if err != nil {
		t.Fatalf("%s: FromBytesBEReduce: %v", e.nm, err)
	}
	return s
}

func (e *eg[E, S]) randScalar(t *rapid.T, label string) S {
	s, err := e.zn.Random(drawPRNG(t, label))
	if err != nil {
		t.Fatalf("%s: Random scalar: %v", e.nm, err)
	}
	return s
}

type egKeys[E elgamal.FiniteCyclicGroupElement[E, S], S algebra.UintLike[S]] struct {
	sk  *elgamal.SecretKey[E, S]
	pub *egPubKey[E, S]
	sec *egSecKey[E, S]
}

func (e *eg[E, S]) drawKey(t *rapid.T, label string) egKeys[E, S] {
	sk, err := elgamal.SampleSecretKey(e.group, drawPRNG(t, label))
	if err != nil {
		t.Fatalf("%s: elgamal.SampleSecretKey: %v", e.nm, err)
	}
	return e.wrap(t, sk)
}

func (e *eg[E, S]) wrap(t *rapid.T, sk *elgamal.SecretKey[E, S]) egKeys[E, S] {
	pub, err := indcpacom.NewHomomorphicCommitmentKey(sk.Public())
	if err != nil {
		t.Fatalf("NewHomomorphicCommitmentKey(pk): %v", err)
	}
	sec, err := indcpacom.NewHomomorphicCommitmentKey(sk)
	if err != nil {
		t.Fatalf("NewHomomorphicCommitmentKey(sk): %v", err)
	}
	return egKeys[E, S]{sk: sk, pub: pub, sec: sec}
}

func (e *eg[E, S]) msgOf(t *rapid.T, p E) *egM[E, S] {
	pt, err := elgamal.NewPlaintext(p)
	if err != nil {
		t.Fatalf("elgamal.NewPlaintext: %v", err)
	}
	m, err := indcpacom.NewMessage(pt)
	if err != nil {
		t.Fatalf("NewMessage: %v", err)
	}
	return m
}

func (e *eg[E, S]) witOf(t *rapid.T, s S) *egW[S] {
	n, err := elgamal.NewNonce(s)
	if err != nil {
		t.Fatalf("elgamal.NewNonce: %v", err)
	}
	w, err := indcpacom.NewWitness(n)
	if err != nil {
		t.Fatalf("NewWitness: %v", err)
	}
	return w
}

func (e *eg[E, S]) comOf(c1, c2 E) (*egC[E, S], error) {
	ct, err := elgamal.NewCiphertext(c1, c2)
	if err != nil {
		return nil, err
	}
	return indcpacom.NewCommitment(ct)
}

// drawMsg: the message space is the group: identity, generator, -generator, small multiples, drawn.
func (e *eg[E, S]) drawMsg(t *rapid.T, label string) (*egM[E, S], string) {
	g := e.group.Generator()
	switch rapid.IntRange(0, 5).Draw(t, label+".cls") {
	case 0:
		return e.msgOf(t, e.group.OpIdentity()), "identity"
	case 1:
		return e.msgOf(t, g), "g"
	case 2:
		return e.msgOf(t, g.OpInv()), "-g"
	case 3:
		return e.msgOf(t, g.ScalarOp(e.scalar(t, big.NewInt(int64(rapid.IntRange(2, 1000).Draw(t, label+".small")))))), "small*g"
	default:
		p, err := e.group.Random(drawPRNG(t, label))
		if err != nil {
			t.Fatalf("%s: group.Random: %v", e.nm, err)
		}
		return e.msgOf(t, p), "drawn"
	}
}

// drawWit for the opening test: sampled, 1, q-1, small, drawn.
func (e *eg[E, S]) drawWit(t *rapid.T, k egKeys[E, S], label string) (*egW[S], string) {
	switch rapid.IntRange(0, 6).Draw(t, label+".cls") {
	case 0:
		return e.witOf(t, e.scalar(t, big.NewInt(1))), "1"
	case 1:
		return e.witOf(t, e.scalar(t, new(big.Int).Sub(e.q, big.NewInt(1)))), "q-1"
	case 2:
		return e.witOf(t, e.scalar(t, big.NewInt(int64(rapid.IntRange(2, 1000).Draw(t, label+".small"))))), "small"
	case 3:
		return e.witOf(t, e.randScalar(t, label)), "drawn"
	default:
		w, err := k.pub.SampleWitness(drawPRNG(t, label))
		if err != nil {
			t.Fatalf("elgamal SampleWitness: %v", err)
		}
		return w, "sampled"
	}
}

func (e *eg[E, S]) showM(m *egM[E, S]) string { return fmt.Sprintf("%x", m.Value().Value().Bytes()) }
func (e *eg[E, S]) showW(w *egW[S]) string {
	return short(w.Value().Value().Cardinal().Big())
}
func (e *eg[E, S]) showC(c *egC[E, S]) string {
	cs := c.Value().Value().Components()
	return fmt.Sprintf("(%x,%x)", cs[0].Bytes(), cs[1].Bytes())
}

var egChanges = []string{
	"none",
	"msg:*g", "msg:inv", "msg:other",
	"wit:+1", "wit:neg", "wit:flipbit", "wit:other",
	"key:other",
	"com:other", "com:c1*g", "com:c2*g", "com:swap", "com:inv", "com:same-msg-other-witness",
}

// openCase: commitment = ElGamal ciphertext (g^r, m·h^r); (m, r) -> c is injective, so each
// change of m or r is semantic; a change of the public key h alone is semantic iff r != 0.
func (e *eg[E, S]) openCase(t *rapid.T) (string, bool, []string) {
	k := e.drawKey(t, "key")
	view := rapid.SampledFrom([]string{"public", "secret"}).Draw(t, "view")
	m, mcls := e.drawMsg(t, "m")
	var (
		c    *egC[E, S]
		w    *egW[S]
		wcls string
		err  error
	)
	if rapid.Bool().Draw(t, "viaCommit") {
		wcls = "Commit"
		if view == "public" {
			c, w, err = commitments.Commit(k.pub, m, drawPRNG(t, "commit"))
		} else {
			c, w, err = commitments.Commit(k.sec, m, drawPRNG(t, "commit"))
		}
	} else {
		w, wcls = e.drawWit(t, k, "w")
		if view == "public" {
			c, err = k.pub.CommitWithWitness(m, w)
		} else {
			c, err = k.sec.CommitWithWitness(m, w)
		}
	}
	if err != nil {
		t.Fatalf("elgamal/%s/%s commit(m=%s, r=%s): %v", e.nm, view, e.showM(m), e.showW(w), err)
	}
	if err := k.pub.Open(c, m, w); err != nil {
		t.Fatalf("completeness: elgamal/%s public-key view does not open c=%s m=%s r=%s: %v", e.nm, e.showC(c), e.showM(m), e.showW(w), err)
	}
	if err := k.sec.Open(c, m, w); err != nil {
		t.Fatalf("completeness: elgamal/%s secret-key view does not open c=%s m=%s r=%s: %v", e.nm, e.showC(c), e.showM(m), e.showW(w), err)
	}

	change := rapid.SampledFrom(egChanges).Draw(t, "change")
	g := e.group.Generator()
	mP := m.Value().Value()
	wB := w.Value().Value().Cardinal().Big()
	comps := c.Value().Value().Components()
	m2, w2, c2, k2 := m, w, c, k
	semantic := true
	var cerr error
	switch change {
	case "none":
		semantic = false
	case "msg:*g":
		m2 = e.msgOf(t, mP.Op(g))
	case "msg:inv":
		m2 = e.msgOf(t, mP.OpInv())
		semantic = !mP.OpInv().Equal(mP)
	case "msg:other":
		m2, _ = e.drawMsg(t, "m2")
		semantic = !m2.Value().Value().Equal(mP)
	case "wit:+1":
		w2 = e.witOf(t, e.scalar(t, new(big.Int).Add(wB, big.NewInt(1))))
	case "wit:neg":
		w2 = e.witOf(t, e.scalar(t, new(big.Int).Neg(wB)))
		semantic = wB.Sign() != 0
	case "wit:flipbit":
		x := new(big.Int).Mod(flipBit(wB, rapid.IntRange(0, e.q.BitLen()-1).Draw(t, "bit")), e.q)
		w2 = e.witOf(t, e.scalar(t, x))
		semantic = x.Cmp(wB) != 0
	case "wit:other":
		w2, _ = e.drawWit(t, k, "w2")
		semantic = w2.Value().Value().Cardinal().Big().Cmp(wB) != 0
	case "key:other":
		k2 = e.drawKey(t, "key2")
		semantic = wB.Sign() != 0 && !k2.sk.Public().Value().Equal(k.sk.Public().Value())
	case "com:other":
		mo, _ := e.drawMsg(t, "m3")
		wo, _ := e.drawWit(t, k, "w3")
		c2, err = k.pub.CommitWithWitness(mo, wo)
		semantic = !mo.Value().Value().Equal(mP) || wo.Value().Value().Cardinal().Big().Cmp(wB) != 0
	case "com:same-msg-other-witness":
		wo, e2 := k.pub.SampleWitness(drawPRNG(t, "w4"))
		if e2 != nil {
			t.Fatalf("SampleWitness: %v", e2)
		}
		c2, err = k.pub.CommitWithWitness(m, wo)
		semantic = wo.Value().Value().Cardinal().Big().Cmp(wB) != 0
	case "com:c1*g":
		c2, cerr = e.comOf(comps[0].Op(g), comps[1])
	case "com:c2*g":
		c2, cerr = e.comOf(comps[0], comps[1].Op(g))
	case "com:swap":
		c2, cerr = e.comOf(comps[1], comps[0])
		semantic = !comps[0].Equal(comps[1])
	case "com:inv":
		c2, cerr = e.comOf(comps[0].OpInv(), comps[1].OpInv())
		semantic = !comps[0].OpInv().Equal(comps[0]) || !comps[1].OpInv().Equal(comps[1])
	}
	if err != nil || cerr != nil {
		t.Fatalf("elgamal/%s: building the changed input for %q: %v %v", e.nm, change, err, cerr)
	}
	negative := semantic && change != "none"
	if negative {
		var oerr error
		if view == "public" {
			oerr = k2.pub.Open(c2, m2, w2)
		} else {
			oerr = k2.sec.Open(c2, m2, w2)
		}
		if oerr == nil {
			t.Fatalf("binding: elgamal/%s/%s Open succeeded after change %q\n committed h=%x m=%s r=%s c=%s\n opened    h=%x m=%s r=%s c=%s",
				e.nm, view, change, k.sk.Public().Value().Bytes(), e.showM(m), e.showW(w), e.showC(c),
				k2.sk.Public().Value().Bytes(), e.showM(m2), e.showW(w2), e.showC(c2))
		}
	}
	ch := change
	if !semantic && change != "none" {
		ch += ":not-semantic"
	}
	vlib.Sample("elgamal/"+e.nm+"/"+ch, map[string]any{"h": fmt.Sprintf("%x", k.sk.Public().Value().Bytes()), "m": e.showM(m), "r": e.showW(w), "c": e.showC(c)})
	return vlib.Desc("indcpa-elgamal", e.nm, view, ch, mcls, wcls), negative,
		[]string{"curve=" + e.nm, "view=" + view, "change=" + ch, "msg=" + mcls, "wit=" + wcls}
}

// homCase: nonces are random (never structured) so that no tracked nonce becomes zero, which
// elgamal documents as rejected; the scalar 0 is drawn but may be rejected.
func (e *eg[E, S]) homCase(t *rapid.T) (string, bool, []string) {
	k := e.drawKey(t, "key")
	view := rapid.SampledFrom([]string{"public", "secret"}).Draw(t, "view")
	env := &homEnv[*egM[E, S], *egW[S], *egC[E, S], S]{
		drawM: func(t *rapid.T, label string) (*egM[E, S], string) { return e.drawMsg(t, label) },
		drawW: func(t *rapid.T, label string) (*egW[S], string) {
			if rapid.Bool().Draw(t, label+".sampled") {
				w, err := k.pub.SampleWitness(drawPRNG(t, label))
				if err != nil {
					t.Fatalf("elgamal SampleWitness: %v", err)
				}
				return w, "sampled"
			}
			return e.witOf(t, e.randScalar(t, label)), "drawn"
		},
		drawS: func(t *rapid.T, label string) (S, string, bool) {
			switch rapid.IntRange(0, 5).Draw(t, label+".cls") {
			case 0:
				return e.scalar(t, new(big.Int)), "0", true
			case 1:
				return e.scalar(t, big.NewInt(1)), "1", false
			case 2:
				return e.scalar(t, new(big.Int).Sub(e.q, big.NewInt(1))), "q-1", false
			case 3:
				return e.scalar(t, bigPow2(rapid.IntRange(1, e.q.BitLen()-1).Draw(t, label+".k"))), "2^k", false
			case 4:
				return e.scalar(t, big.NewInt(int64(rapid.IntRange(2, 1000).Draw(t, label+".small")))), "small", false
			default:
				return e.randScalar(t, label), "drawn", false
			}
		},
		showM:  e.showM,
		showW:  e.showW,
		maxOps: 6,
	}
	var shape, sc []string
	if view == "public" {
		env.verify = append(env.verify, func(c *egC[E, S], m *egM[E, S], w *egW[S]) error { return k.sec.Open(c, m, w) })
		shape, sc = runHomSequence(t, "elgamal/"+e.nm+"/public", k.pub, env)
	} else {
		env.verify = append(env.verify, func(c *egC[E, S], m *egM[E, S], w *egW[S]) error { return k.pub.Open(c, m, w) })
		shape, sc = runHomSequence(t, "elgamal/"+e.nm+"/secret", k.sec, env)
	}
	return vlib.Desc("indcpa-elgamal", e.nm, view, shapeDesc(shape)), len(shape) >= 2,
		append(homClasses(shape, sc), "curve="+e.nm, "view="+view)
}

func drawEG(t *rapid.T) egCurve {
	return egCurves[rapid.IntRange(0, len(egCurves)-1).Draw(t, "curve")]
}

func TestElGamalCommitOpen(t *testing.T) {
	const test = "ElGamalCommitOpen"
	vlib.Check(t, 1500, func(t *rapid.T) {
		desc, nt, cl := drawEG(t).openCase(t)
		vlib.Case(test, desc, nt, cl...)
	})
}

func TestElGamalCommitHomomorphism(t *testing.T) {
	const test = "ElGamalCommitHomomorphism"
	vlib.Check(t, 800, func(t *rapid.T) {
		desc, nt, cl := drawEG(t).homCase(t)
		vlib.Case(test, desc, nt, cl...)
	})
}
