package c18

import (
	"fmt"
	"math/big"
	"testing"

	"pgregory.net/rapid"

	"github.com/bronlabs/bron-crypto/pkg/base/algebra"
	"github.com/bronlabs/bron-crypto/pkg/base/curves/edwards25519"
	"github.com/bronlabs/bron-crypto/pkg/base/curves/k256"
	"github.com/bronlabs/bron-crypto/pkg/base/curves/p256"
	"github.com/bronlabs/bron-crypto/pkg/base/curves/pairable/bls12381"
	"github.com/bronlabs/bron-crypto/pkg/base/curves/pasta"
	"github.com/bronlabs/bron-crypto/pkg/commitments"
	"github.com/bronlabs/bron-crypto/pkg/commitments/pedersencom"
	"github.com/bronlabs/bron-crypto/pkg/transcripts/hagrid"
	"verif/harness/vlib"
)

// pedCurve is one prime-order group on which the Pedersen checks run.
type pedCurve interface {
	name() string
	openCase(t *rapid.T) (desc string, nt bool, classes []string)
	homCase(t *rapid.T) (desc string, nt bool, classes []string)
	equivCase(t *rapid.T) (desc string, nt bool, classes []string)
	keyScheme() keyScheme
}

type ped[E algebra.PrimeGroupElement[E, S], S algebra.PrimeFieldElement[S]] struct {
	nm    string
	group algebra.PrimeGroup[E, S]
	field algebra.PrimeField[S]
	q     *big.Int
}

func newPed[E algebra.PrimeGroupElement[E, S], S algebra.PrimeFieldElement[S]](nm string, g algebra.PrimeGroup[E, S]) *ped[E, S] {
	f := algebra.StructureMustBeAs[algebra.PrimeField[S]](g.ScalarStructure())
	return &ped[E, S]{nm: nm, group: g, field: f, q: f.Order().Big()}
}

var pedCurves = []pedCurve{
	newPed("k256", k256.NewCurve()),
	newPed("p256", p256.NewCurve()),
	newPed("ed25519-prime", edwards25519.NewPrimeSubGroup()),
	newPed("bls12381-g1", bls12381.NewG1()),
	newPed("pallas", pasta.NewPallasCurve()),
}

func (p *ped[E, S]) name() string { return p.nm }

// scalar builds the field element x mod q from a math/big value.
func (p *ped[E, S]) scalar(t *rapid.T, x *big.Int) S {
	r := new(big.Int).Mod(x, p.q)
	s, err := p.field.FromBytesBEReduce(r.Bytes())
	if err != nil {
		t.Fatalf("%s: FromBytesBEReduce(%x): %v", p.nm, r.Bytes(), err)
	}
	return s
}

func (p *ped[E, S]) big(s S) *big.Int { return s.Cardinal().Big() }

// drawScalar: field 0 / 1 / q-1 / 2 / 2^k / small / drawn.
func (p *ped[E, S]) drawScalar(t *rapid.T, label string) (S, string) {
	switch rapid.IntRange(0, 9).Draw(t, label+".cls") {
	case 0:
		return p.field.Zero(), "0"
	case 1:
		return p.field.One(), "1"
	case 2:
		return p.scalar(t, new(big.Int).Sub(p.q, big.NewInt(1))), "q-1"
	case 3:
		k := rapid.IntRange(1, p.q.BitLen()-1).Draw(t, label+".k")
		return p.scalar(t, bigPow2(k)), "2^k"
	case 4:
		return p.field.FromUint64(rapid.Uint64Range(2, 1000).Draw(t, label+".small")), "small"
	case 5:
		// an unreduced representative: q + small reduces to small
		x := new(big.Int).Add(p.q, big.NewInt(int64(rapid.IntRange(0, 5).Draw(t, label+".wrap"))))
		return p.scalar(t, x), "wrapped"
	default:
		s, err := p.field.Random(drawPRNG(t, label))
		if err != nil {
			t.Fatalf("%s: field.Random: %v", p.nm, err)
		}
		return s, "drawn"
	}
}

func (p *ped[E, S]) msg(t *rapid.T, s S) *pedersencom.Message[S] {
	m, err := pedersencom.NewMessage(s)
	if err != nil {
		t.Fatalf("NewMessage: %v", err)
	}
	return m
}

func (p *ped[E, S]) wit(t *rapid.T, s S) *pedersencom.Witness[S] {
	w, err := pedersencom.NewWitness(s)
	if err != nil {
		t.Fatalf("NewWitness: %v", err)
	}
	return w
}

// drawPoint: a non-identity group element other than the generator.
func (p *ped[E, S]) drawPoint(t *rapid.T, label string) E {
	for i := 0; ; i++ {
		e, err := p.group.Random(drawPRNG(t, fmt.Sprintf("%s.%d", label, i)))
		if err != nil {
			t.Fatalf("%s: group.Random: %v", p.nm, err)
		}
		if !e.IsOpIdentity() && !e.Equal(p.group.Generator()) {
			return e
		}
	}
}

type pedKeys[E algebra.PrimeGroupElement[E, S], S algebra.PrimeFieldElement[S]] struct {
	kind string
	pub  *pedersencom.CommitmentKey[E, S] // always set: the key used for public operations
	trap *pedersencom.TrapdoorKey[E, S]   // set for kind trapdoor / exported
}

var pedKeyKinds = []string{"sampled", "extracted", "extracted-base", "unchecked", "trapdoor", "trapdoor-g", "exported"}

func (p *ped[E, S]) drawKey(t *rapid.T, label string) pedKeys[E, S] {
	kind := rapid.SampledFrom(pedKeyKinds).Draw(t, label+".kind")
	return p.makeKey(t, label, kind)
}

func (p *ped[E, S]) makeKey(t *rapid.T, label, kind string) pedKeys[E, S] {
	out := pedKeys[E, S]{kind: kind}
	var err error
	switch kind {
	case "sampled":
		out.pub, err = pedersencom.SampleCommitmentKey(p.group, drawPRNG(t, label))
	case "extracted", "extracted-base":
		tr := hagrid.NewTranscript("c18-pedersen")
		tr.AppendBytes("sid", rapid.SliceOfN(rapid.Byte(), 0, 16).Draw(t, label+".sid"))
		base := p.group.Generator()
		if kind == "extracted-base" {
			base = p.drawPoint(t, label+".base")
		}
		out.pub, err = pedersencom.ExtractCommitmentKey(tr, "pedersen-h", base)
	case "unchecked":
		g := p.drawPoint(t, label+".g")
		h := p.drawPoint(t, label+".h")
		if g.Equal(h) {
			h = h.Op(p.group.Generator())
		}
		out.pub, err = pedersencom.NewCommitmentKeyUnchecked(g, h)
	case "trapdoor", "exported":
		out.trap, err = pedersencom.SampleTrapdoorKey(p.group, drawPRNG(t, label))
		if err == nil {
			out.pub = out.trap.Export()
		}
	case "trapdoor-g":
		// NewTrapdoorKey with a drawn generator and a drawn lambda (classes incl. q-1, 2)
		g := p.drawPoint(t, label+".g")
		var lambda S
		switch rapid.IntRange(0, 2).Draw(t, label+".lcls") {
		case 0:
			lambda = p.scalar(t, new(big.Int).Sub(p.q, big.NewInt(1)))
		case 1:
			lambda = p.field.FromUint64(rapid.Uint64Range(2, 50).Draw(t, label+".lsmall"))
		default:
			lambda, err = p.field.Random(drawPRNG(t, label+".lambda"))
			if err != nil {
				t.Fatalf("field.Random: %v", err)
			}
			if lambda.IsZero() || lambda.IsOne() {
				lambda = p.field.FromUint64(7)
			}
		}
		out.trap, err = pedersencom.NewTrapdoorKey(g, lambda)
		if err == nil {
			out.pub = out.trap.Export()
		}
	}
	if err != nil {
		t.Fatalf("%s: constructing %s key: %v", p.nm, kind, err)
	}
	if out.pub.H().IsOpIdentity() || out.pub.H().Equal(out.pub.G()) || out.pub.G().IsOpIdentity() {
		t.Fatalf("%s: %s key has a degenerate generator pair g=%x h=%x", p.nm, kind, out.pub.G().Bytes(), out.pub.H().Bytes())
	}
	return out
}

func (p *ped[E, S]) show(m *pedersencom.Message[S], w *pedersencom.Witness[S]) string {
	return fmt.Sprintf("m=%s w=%s", short(p.big(m.Value())), short(p.big(w.Value())))
}

func (p *ped[E, S]) showKey(k *pedersencom.CommitmentKey[E, S]) string {
	return fmt.Sprintf("g=%x h=%x", k.G().Bytes(), k.H().Bytes())
}

// commit produces (c, m, w) under the key, by Commit (sampled witness) or CommitWithWitness
// (witness class drawn), using the trapdoor key's own CommitWithWitness for trapdoor kinds.
func (p *ped[E, S]) commit(t *rapid.T, k pedKeys[E, S], label string) (c *pedersencom.Commitment[E, S], m *pedersencom.Message[S], w *pedersencom.Witness[S], mcls, wcls string) {
	ms, mcls := p.drawScalar(t, label+".m")
	m = p.msg(t, ms)
	useTrap := k.kind == "trapdoor" || k.kind == "trapdoor-g"
	var err error
	if rapid.Bool().Draw(t, label+".viaCommit") {
		wcls = "Commit"
		if useTrap {
			c, w, err = commitments.Commit(k.trap, m, drawPRNG(t, label+".commit"))
		} else {
			c, w, err = commitments.Commit(k.pub, m, drawPRNG(t, label+".commit"))
		}
	} else {
		var ws S
		ws, wcls = p.drawScalar(t, label+".w")
		w = p.wit(t, ws)
		if useTrap {
			c, err = k.trap.CommitWithWitness(m, w)
		} else {
			c, err = k.pub.CommitWithWitness(m, w)
		}
	}
	if err != nil {
		t.Fatalf("%s/%s: commit(%s): %v", p.nm, k.kind, short(p.big(m.Value())), err)
	}
	return c, m, w, mcls, wcls
}

// openAll checks completeness under every view of the key.
func (p *ped[E, S]) openAll(t *rapid.T, k pedKeys[E, S], c *pedersencom.Commitment[E, S], m *pedersencom.Message[S], w *pedersencom.Witness[S], what string) {
	if err := k.pub.Open(c, m, w); err != nil {
		t.Fatalf("%s: %s/%s public key (%s) does not open c=%x with %s: %v", what, p.nm, k.kind, p.showKey(k.pub), c.Value().Bytes(), p.show(m, w), err)
	}
	if k.trap != nil {
		if err := k.trap.Open(c, m, w); err != nil {
			t.Fatalf("%s: %s/%s trapdoor key does not open c=%x with %s: %v", what, p.nm, k.kind, c.Value().Bytes(), p.show(m, w), err)
		}
		// both views compute the same commitment
		c1, e1 := k.trap.CommitWithWitness(m, w)
		c2, e2 := k.trap.Export().CommitWithWitness(m, w)
		if e1 != nil || e2 != nil || !c1.Equal(c2) {
			t.Fatalf("%s: %s trapdoor and exported key commit differently for %s (%v, %v)", what, p.nm, p.show(m, w), e1, e2)
		}
	}
}

var pedChanges = []string{
	"none", "alias",
	"msg:flipbit", "msg:+1", "msg:neg", "msg:other", "msg:swap-with-witness",
	"wit:flipbit", "wit:+1", "wit:neg", "wit:other",
	"key:other", "key:other-h", "key:other-g", "key:swap-gh", "key:h+g",
	"com:other", "com:+g", "com:neg", "com:identity", "com:flipbit", "com:same-msg-other-witness",
}

func (p *ped[E, S]) openCase(t *rapid.T) (string, bool, []string) {
	k := p.drawKey(t, "key")
	c, m, w, mcls, wcls := p.commit(t, k, "c")
	p.openAll(t, k, c, m, w, "completeness")

	change := rapid.SampledFrom(pedChanges).Draw(t, "change")
	mB, wB := p.big(m.Value()), p.big(w.Value())
	k2, m2, w2, c2 := k.pub, m, w, c
	semantic := true // does the change alter the opened statement?
	outcome := ""
	var err error
	switch change {
	case "none":
		semantic = false
	case "alias":
		// the same elements rebuilt from unreduced integers: not a change, must still open.
		m2 = p.msg(t, p.scalar(t, new(big.Int).Add(mB, p.q)))
		w2 = p.wit(t, p.scalar(t, new(big.Int).Add(wB, new(big.Int).Lsh(p.q, 1))))
		if !m2.Equal(m) || !w2.Equal(w) {
			t.Fatalf("%s: m+q / w+2q do not reduce to the same field elements", p.nm)
		}
		if err := k.pub.Open(c, m2, w2); err != nil {
			t.Fatalf("%s/%s: Open fails for re-encoded (unreduced) m+q, w+2q of %s: %v", p.nm, k.kind, p.show(m, w), err)
		}
		semantic = false
	case "msg:flipbit":
		m2 = p.msg(t, p.scalar(t, flipBit(mB, rapid.IntRange(0, p.q.BitLen()-1).Draw(t, "bit"))))
		semantic = !m2.Equal(m)
	case "msg:+1":
		m2 = p.msg(t, p.scalar(t, new(big.Int).Add(mB, big.NewInt(1))))
	case "msg:neg":
		m2 = p.msg(t, p.scalar(t, new(big.Int).Neg(mB)))
		semantic = mB.Sign() != 0
	case "msg:other":
		s, _ := p.drawScalar(t, "m2")
		m2 = p.msg(t, s)
		semantic = p.big(s).Cmp(mB) != 0
	case "msg:swap-with-witness":
		// two components exchanged: (w, m) instead of (m, w); same statement iff m = w
		m2, w2 = p.msg(t, w.Value()), p.wit(t, m.Value())
		semantic = mB.Cmp(wB) != 0
	case "wit:flipbit":
		w2 = p.wit(t, p.scalar(t, flipBit(wB, rapid.IntRange(0, p.q.BitLen()-1).Draw(t, "bit"))))
		semantic = !w2.Equal(w)
	case "wit:+1":
		w2 = p.wit(t, p.scalar(t, new(big.Int).Add(wB, big.NewInt(1))))
	case "wit:neg":
		w2 = p.wit(t, p.scalar(t, new(big.Int).Neg(wB)))
		semantic = wB.Sign() != 0
	case "wit:other":
		s, _ := p.drawScalar(t, "w2")
		w2 = p.wit(t, s)
		semantic = p.big(s).Cmp(wB) != 0
	case "key:other":
		// another independently generated key: both generators' roles change (g may coincide).
		o := p.drawKey(t, "key2")
		k2 = o.pub
		// the commitment is unchanged by the key only when m = w = 0 (identity under every key);
		// if just h differs, m is irrelevant; if just g differs, w is irrelevant.
		gSame, hSame := k2.G().Equal(k.pub.G()), k2.H().Equal(k.pub.H())
		switch {
		case gSame && hSame:
			semantic = false
		case gSame:
			semantic = wB.Sign() != 0
		case hSame:
			semantic = mB.Sign() != 0
		default:
			semantic = mB.Sign() != 0 || wB.Sign() != 0
		}
	case "key:other-h":
		h := p.drawPoint(t, "h2")
		if h.Equal(k.pub.H()) || h.Equal(k.pub.G()) {
			semantic = false
			break
		}
		k2, err = pedersencom.NewCommitmentKeyUnchecked(k.pub.G(), h)
		semantic = wB.Sign() != 0
	case "key:h+g":
		h := k.pub.H().Op(k.pub.G())
		if h.IsOpIdentity() || h.Equal(k.pub.G()) {
			semantic = false
			break
		}
		k2, err = pedersencom.NewCommitmentKeyUnchecked(k.pub.G(), h)
		semantic = wB.Sign() != 0
	case "key:other-g":
		g := p.drawPoint(t, "g2")
		if g.Equal(k.pub.G()) || g.Equal(k.pub.H()) {
			semantic = false
			break
		}
		k2, err = pedersencom.NewCommitmentKeyUnchecked(g, k.pub.H())
		semantic = mB.Sign() != 0
	case "key:swap-gh":
		k2, err = pedersencom.NewCommitmentKeyUnchecked(k.pub.H(), k.pub.G())
		semantic = mB.Cmp(wB) != 0
	case "com:other":
		o, mo, wo, _, _ := p.commit(t, pedKeys[E, S]{kind: "pub", pub: k.pub}, "c2")
		c2 = o
		semantic = !o.Value().Equal(c.Value())
		_ = mo
		_ = wo
	case "com:same-msg-other-witness":
		wo, e := k.pub.SampleWitness(drawPRNG(t, "w3"))
		if e != nil {
			t.Fatalf("SampleWitness: %v", e)
		}
		c2, err = k.pub.CommitWithWitness(m, wo)
		semantic = !wo.Equal(w)
	case "com:+g":
		c2, err = pedersencom.NewCommitment(c.Value().Op(p.group.Generator()))
	case "com:neg":
		c2, err = pedersencom.NewCommitment(c.Value().OpInv())
		semantic = !c.Value().IsOpIdentity() && !c.Value().OpInv().Equal(c.Value())
	case "com:identity":
		c2, err = pedersencom.NewCommitment(p.group.OpIdentity())
		semantic = !c.Value().IsOpIdentity()
	case "com:flipbit":
		b := c.Value().Bytes()
		i := rapid.IntRange(0, len(b)*8-1).Draw(t, "bit")
		b[i/8] ^= 1 << (i % 8)
		e, derr := p.group.FromBytes(b)
		if derr != nil {
			outcome = "decode-rejected" // a constructor error: the changed value is no commitment at all
			semantic = false
			break
		}
		c2, err = pedersencom.NewCommitment(e)
		semantic = !e.Equal(c.Value())
		outcome = "decoded"
	}
	if err != nil {
		t.Fatalf("%s/%s: building the changed input for %q: %v", p.nm, k.kind, change, err)
	}
	negative := semantic && change != "none" && change != "alias"
	if negative {
		if err := k2.Open(c2, m2, w2); err == nil {
			t.Fatalf("binding: %s/%s Open succeeded after change %q\n committed: %s %s c=%x\n opened   : %s %s c=%x",
				p.nm, k.kind, change, p.showKey(k.pub), p.show(m, w), c.Value().Bytes(), p.showKey(k2), p.show(m2, w2), c2.Value().Bytes())
		}
		if k.trap != nil && k2 == k.pub {
			if err := k.trap.Open(c2, m2, w2); err == nil {
				t.Fatalf("binding: %s/%s trapdoor-key Open succeeded after change %q (%s -> %s)", p.nm, k.kind, change, p.show(m, w), p.show(m2, w2))
			}
		}
		if err := k.pub.Open(c, m, w); err != nil {
			t.Fatalf("%s/%s: the committed triple stopped opening: %v", p.nm, k.kind, err)
		}
	}
	ch := change
	if outcome == "decode-rejected" {
		// counts as a negative case decided by the decoder
		negative = true
		ch = change + ":rejected"
	} else if !semantic && change != "none" && change != "alias" {
		ch = change + ":not-semantic"
	}
	vlib.Sample("pedersen/"+p.nm+"/"+ch, map[string]any{"key": p.showKey(k.pub), "kind": k.kind, "opening": p.show(m, w), "c": fmt.Sprintf("%x", c.Value().Bytes())})
	return vlib.Desc("pedersen", p.nm, k.kind, ch, mcls, wcls), negative,
		[]string{"curve=" + p.nm, "key=" + k.kind, "change=" + ch, "msg=" + mcls, "wit=" + wcls}
}

// ---- homomorphism ------------------------------------------------------------------------

func (p *ped[E, S]) homEnv(t *rapid.T, sampler commitments.WitnessSampler[*pedersencom.Witness[S]]) *homEnv[*pedersencom.Message[S], *pedersencom.Witness[S], *pedersencom.Commitment[E, S], S] {
	return &homEnv[*pedersencom.Message[S], *pedersencom.Witness[S], *pedersencom.Commitment[E, S], S]{
		drawM: func(t *rapid.T, label string) (*pedersencom.Message[S], string) {
			s, c := p.drawScalar(t, label)
			return p.msg(t, s), c
		},
		drawW: func(t *rapid.T, label string) (*pedersencom.Witness[S], string) {
			if rapid.Bool().Draw(t, label+".sampled") {
				w, err := sampler.SampleWitness(drawPRNG(t, label))
				if err != nil {
					t.Fatalf("SampleWitness: %v", err)
				}
				return w, "sampled"
			}
			s, c := p.drawScalar(t, label)
			return p.wit(t, s), c
		},
		drawS: func(t *rapid.T, label string) (S, string, bool) {
			s, c := p.drawScalar(t, label)
			return s, c, false
		},
		showM:  func(m *pedersencom.Message[S]) string { return short(p.big(m.Value())) },
		showW:  func(w *pedersencom.Witness[S]) string { return short(p.big(w.Value())) },
		maxOps: 6,
	}
}

func (p *ped[E, S]) homCase(t *rapid.T) (string, bool, []string) {
	k := p.drawKey(t, "key")
	var shape, sc []string
	if k.kind == "trapdoor" || k.kind == "trapdoor-g" {
		env := p.homEnv(t, k.trap)
		exported := k.trap.Export()
		env.verify = append(env.verify, func(c *pedersencom.Commitment[E, S], m *pedersencom.Message[S], w *pedersencom.Witness[S]) error {
			return exported.Open(c, m, w)
		})
		shape, sc = runHomSequence(t, "pedersen/"+p.nm+"/"+k.kind, k.trap, env)
	} else {
		env := p.homEnv(t, k.pub)
		if k.trap != nil {
			env.verify = append(env.verify, func(c *pedersencom.Commitment[E, S], m *pedersencom.Message[S], w *pedersencom.Witness[S]) error {
				return k.trap.Open(c, m, w)
			})
		}
		shape, sc = runHomSequence(t, "pedersen/"+p.nm+"/"+k.kind, k.pub, env)
	}
	return vlib.Desc("pedersen", p.nm, k.kind, shapeDesc(shape)), len(shape) >= 2,
		append(homClasses(shape, sc), "curve="+p.nm, "key="+k.kind)
}

// ---- equivocation ------------------------------------------------------------------------

func (p *ped[E, S]) equivCase(t *rapid.T) (string, bool, []string) {
	kind := rapid.SampledFrom([]string{"trapdoor", "trapdoor-g"}).Draw(t, "kind")
	k := p.makeKey(t, "key", kind)
	c, m, w, mcls, wcls := p.commit(t, k, "c")
	p.openAll(t, k, c, m, w, "completeness")
	ns, m2cls := p.drawScalar(t, "m2")
	m2 := p.msg(t, ns)
	w2, err := k.trap.Equivocate(m, w, m2, drawPRNG(t, "equiv"))
	if err != nil {
		t.Fatalf("%s/%s: Equivocate(%s -> %s): %v", p.nm, kind, p.show(m, w), short(p.big(ns)), err)
	}
	exported := k.trap.Export()
	if err := exported.Open(c, m2, w2); err != nil {
		t.Fatalf("equivocation: %s/%s exported key does not open c to the new message: %s -> m'=%s w'=%s: %v",
			p.nm, kind, p.show(m, w), short(p.big(ns)), short(p.big(w2.Value())), err)
	}
	if err := k.trap.Open(c, m2, w2); err != nil {
		t.Fatalf("equivocation: %s/%s trapdoor key does not open c to the new message: %v", p.nm, kind, err)
	}
	same := m2.Equal(m)
	if !same && w2.Equal(w) {
		t.Fatalf("equivocation: %s/%s m' != m but the witness did not change (%s -> m'=%s)", p.nm, kind, p.show(m, w), short(p.big(ns)))
	}
	if !same {
		// the old witness does not open the new message, nor the new witness the old message
		if err := exported.Open(c, m2, w); err == nil {
			t.Fatalf("binding: %s/%s c opens to m' with the ORIGINAL witness (%s, m'=%s)", p.nm, kind, p.show(m, w), short(p.big(ns)))
		}
		if err := exported.Open(c, m, w2); err == nil {
			t.Fatalf("binding: %s/%s c opens to m with the EQUIVOCATED witness (%s, m'=%s)", p.nm, kind, p.show(m, w), short(p.big(ns)))
		}
	}
	// the original opening stays valid
	if err := exported.Open(c, m, w); err != nil {
		t.Fatalf("%s/%s original opening invalid after Equivocate: %v", p.nm, kind, err)
	}
	rel := "m'!=m"
	if same {
		rel = "m'=m"
	}
	vlib.Sample("pedersen-equiv/"+p.nm, map[string]any{"lambda": short(p.big(k.trap.Lambda())), "opening": p.show(m, w), "m2": short(p.big(ns)), "w2": short(p.big(w2.Value()))})
	return vlib.Desc("pedersen", p.nm, kind, "equivocate", mcls, wcls, m2cls, rel), true,
		[]string{"curve=" + p.nm, "key=" + kind, "msg=" + mcls, "wit=" + wcls, "newmsg=" + m2cls, rel}
}

// ---- tests --------------------------------------------------------------------------------

func drawCurve(t *rapid.T) pedCurve {
	return pedCurves[rapid.IntRange(0, len(pedCurves)-1).Draw(t, "curve")]
}

// TestPedersenOpen: completeness under every view of the key (sampled, extracted from a
// transcript with the standard or a drawn base point, explicit (g,h), trapdoor, exported) and
// binding of Open to message, witness, key and commitment (one change each).
func TestPedersenOpen(t *testing.T) {
	const test = "PedersenOpen"
	vlib.Check(t, 3000, func(t *rapid.T) {
		desc, nt, cl := drawCurve(t).openCase(t)
		vlib.Case(test, desc, nt, cl...)
	})
}

// TestPedersenHomomorphism: drawn sequences of up to 6 homomorphic operations.
func TestPedersenHomomorphism(t *testing.T) {
	const test = "PedersenHomomorphism"
	vlib.Check(t, 1500, func(t *rapid.T) {
		desc, nt, cl := drawCurve(t).homCase(t)
		vlib.Case(test, desc, nt, cl...)
	})
}

// TestPedersenEquivocation: the designed exception.
func TestPedersenEquivocation(t *testing.T) {
	const test = "PedersenEquivocation"
	vlib.Check(t, 1200, func(t *rapid.T) {
		desc, nt, cl := drawCurve(t).equivCase(t)
		vlib.Case(test, desc, nt, cl...)
	})
}
