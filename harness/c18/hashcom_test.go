package c18

import (
	"bytes"
	"fmt"
	"testing"

	"golang.org/x/crypto/blake2b"
	"pgregory.net/rapid"

	"github.com/bronlabs/bron-crypto/pkg/commitments"
	"github.com/bronlabs/bron-crypto/pkg/commitments/hashcom"
	"github.com/bronlabs/bron-crypto/pkg/transcripts/hagrid"
	"verif/harness/vlib"
)

// ---- generators ------------------------------------------------------------------------

func hashMsgClass(m []byte) string {
	switch n := len(m); {
	case n == 0:
		return "empty"
	case n == 1:
		return "1B"
	case n <= 64:
		return "short"
	case n <= 300:
		return "mid"
	default:
		return "long"
	}
}

// genHashMsg draws a message: empty, one byte, around the BLAKE2b block boundaries (the
// 32-byte witness is appended, so 96 and 128 are the interesting lengths), long.
func genHashMsg(t *rapid.T, label string) []byte {
	switch rapid.IntRange(0, 9).Draw(t, label+".cls") {
	case 0:
		return []byte{}
	case 1:
		return []byte{rapid.Byte().Draw(t, label+".b")}
	case 2:
		n := rapid.SampledFrom([]int{31, 32, 33, 63, 64, 65, 95, 96, 97, 127, 128, 129, 159, 160, 161, 255, 256, 257}).Draw(t, label+".n")
		return rapid.SliceOfN(rapid.Byte(), n, n).Draw(t, label+".bytes")
	case 3:
		n := rapid.IntRange(1000, 5000).Draw(t, label+".n")
		b := make([]byte, n)
		_, _ = drawPRNG(t, label+".long").Read(b)
		return b
	case 4:
		// all-zero messages of drawn length (length must be bound)
		return make([]byte, rapid.IntRange(1, 200).Draw(t, label+".n"))
	default:
		return rapid.SliceOfN(rapid.Byte(), 2, 200).Draw(t, label+".bytes")
	}
}

func genHashKey(t *rapid.T, label string) (*hashcom.CommitmentKey, string) {
	if rapid.Bool().Draw(t, label+".extracted") {
		tr := hagrid.NewTranscript(rapid.SampledFrom([]string{"c18", "proto", ""}).Draw(t, label+".name"))
		if rapid.Bool().Draw(t, label+".app") {
			tr.AppendBytes("ctx", rapid.SliceOfN(rapid.Byte(), 0, 40).Draw(t, label+".ctx"))
		}
		k, err := hashcom.ExtractCommitmentKey(tr, rapid.SampledFrom([]string{"key", "k", "commitment-key"}).Draw(t, label+".label"))
		if err != nil {
			t.Fatalf("hashcom.ExtractCommitmentKey: %v", err)
		}
		return k, "extracted"
	}
	k, err := hashcom.SampleCommitmentKey(drawPRNG(t, label))
	if err != nil {
		t.Fatalf("hashcom.SampleCommitmentKey: %v", err)
	}
	return k, "sampled"
}

func genHashWitness(t *rapid.T, key *hashcom.CommitmentKey, label string) (hashcom.Witness, string) {
	switch rapid.IntRange(0, 5).Draw(t, label+".cls") {
	case 0:
		return hashcom.Witness{}, "zero"
	case 1:
		var w hashcom.Witness
		for i := range w {
			w[i] = 0xff
		}
		return w, "ones"
	case 2:
		var w hashcom.Witness
		copy(w[:], rapid.SliceOfN(rapid.Byte(), 32, 32).Draw(t, label+".bytes"))
		return w, "drawn"
	default:
		w, err := key.SampleWitness(drawPRNG(t, label))
		if err != nil {
			t.Fatalf("hashcom SampleWitness: %v", err)
		}
		return w, "sampled"
	}
}

// ---- the check -------------------------------------------------------------------------

var hashChanges = []string{
	"none", "none",
	"msg:flipbit", "msg:append", "msg:truncate", "msg:prepend0", "msg:other", "msg:absorb-witness-byte",
	"wit:flipbit", "wit:other", "wit:rotate",
	"key:flipbit", "key:other", "key:extracted-other-label",
	"com:flipbit", "com:other", "com:same-msg-other-witness", "com:zero",
}

// TestHashcomOpen: completeness and binding of hashcom.Open to each of (key, message,
// witness, commitment).
//
// Generator: key (sampled / transcript-extracted), message class (empty, 1 B, block
// boundaries, long, all-zero), witness (sampled / zero / ones / drawn), one drawn change.
// Oracle: Open = nil for the committed triple; after one change that alters the byte
// string of exactly one component, Open returns an error (hash collisions and MAC
// forgeries being computationally infeasible, every byte-level change is semantic).
func TestHashcomOpen(t *testing.T) {
	const test = "HashcomOpen"
	vlib.Check(t, 4000, func(t *rapid.T) {
		key, keyKind := genHashKey(t, "key")
		msg := genHashMsg(t, "msg")
		viaCommit := rapid.Bool().Draw(t, "viaCommit")
		var (
			c    hashcom.Commitment
			w    hashcom.Witness
			wcls string
			err  error
		)
		if viaCommit {
			c, w, err = commitments.Commit(key, msg, drawPRNG(t, "commit"))
			wcls = "Commit"
		} else {
			w, wcls = genHashWitness(t, key, "wit")
			c, err = key.CommitWithWitness(msg, w)
		}
		if err != nil {
			t.Fatalf("hashcom commit(key=%x, msg=%s): %v", key[:], vlib.Hex(msg), err)
		}
		msgCopy := bytes.Clone(msg)
		if err := key.Open(c, msg, w); err != nil {
			t.Fatalf("completeness: hashcom Open(key=%x, c=%x, msg=%s, w=%x) = %v", key[:], c[:], vlib.Hex(msg), w[:], err)
		}
		if !bytes.Equal(msg, msgCopy) {
			t.Fatalf("hashcom commit/open modified the caller's message")
		}
		// the DOCUMENTED definition (package doc, README, CommitWithWitness comment):
		// C = H_k(message || witness), H_k = BLAKE2b-256 in its native keyed mode. Computed here with
		// golang.org/x/crypto/blake2b directly; binding rests on this being THE commitment - a
		// commitment computed from anything less than the whole message opens to other messages.
		if ref, err := blake2b.New256(key[:]); err != nil {
			t.Fatalf("harness: blake2b.New256: %v", err)
		} else {
			ref.Write(msg)
			ref.Write(w[:])
			if want := ref.Sum(nil); !bytes.Equal(want, c[:]) {
				t.Fatalf("hashcom commitment to a %d-byte message is not the documented H_k(message || witness): key=%x msg=%s w=%x got %x want %x",
					len(msg), key[:], vlib.Hex(msg), w[:], c[:], want)
			}
		}

		change := rapid.SampledFrom(hashChanges).Draw(t, "change")
		k2, m2, w2, c2 := key, msg, w, c
		applicable := true
		switch change {
		case "none":
			// determinism: committing again gives the same commitment.
			c3, err := key.CommitWithWitness(msg, w)
			if err != nil || !c3.Equal(c) {
				t.Fatalf("hashcom CommitWithWitness is not deterministic: %x vs %x (%v)", c3[:], c[:], err)
			}
		case "msg:flipbit":
			if len(msg) == 0 {
				applicable = false
				break
			}
			i := rapid.IntRange(0, len(msg)*8-1).Draw(t, "bit")
			m2 = bytes.Clone(msg)
			m2[i/8] ^= 1 << (i % 8)
		case "msg:append":
			m2 = append(bytes.Clone(msg), rapid.SampledFrom([]byte{0, 1, 0x80, 0xff}).Draw(t, "b"))
		case "msg:truncate":
			if len(msg) == 0 {
				applicable = false
				break
			}
			m2 = bytes.Clone(msg[:len(msg)-1])
		case "msg:prepend0":
			m2 = append([]byte{0}, msg...)
		case "msg:other":
			m2 = genHashMsg(t, "msg2")
			if bytes.Equal(m2, msg) {
				applicable = false
			}
		case "msg:absorb-witness-byte":
			// the message grows by the first witness byte: the concatenation message||witness
			// would coincide with that of (msg||w[0], w[1:]||x) only if the witness were not
			// fixed-size; with the same witness it is simply another message.
			m2 = append(bytes.Clone(msg), w[0])
		case "wit:flipbit":
			i := rapid.IntRange(0, 255).Draw(t, "bit")
			w2[i/8] ^= 1 << (i % 8)
		case "wit:other":
			w2, _ = genHashWitness(t, key, "wit2")
			if w2 == w {
				applicable = false
			}
		case "wit:rotate":
			for i := range w2 {
				w2[i] = w[(i+1)%len(w)]
			}
			if w2 == w {
				applicable = false
			}
		case "key:flipbit":
			i := rapid.IntRange(0, 255).Draw(t, "bit")
			kk := *key
			kk[i/8] ^= 1 << (i % 8)
			k2 = &kk
		case "key:other":
			k2, _ = genHashKey(t, "key2")
			if *k2 == *key {
				applicable = false
			}
		case "key:extracted-other-label":
			tr := hagrid.NewTranscript("c18")
			ka, err1 := hashcom.ExtractCommitmentKey(tr.Clone(), "label-a")
			kb, err2 := hashcom.ExtractCommitmentKey(tr.Clone(), "label-b")
			if err1 != nil || err2 != nil {
				t.Fatalf("ExtractCommitmentKey: %v %v", err1, err2)
			}
			// commit under ka, open under kb
			key, k2 = ka, kb
			c, err = ka.CommitWithWitness(msg, w)
			if err != nil {
				t.Fatalf("commit: %v", err)
			}
			c2 = c
			if err := ka.Open(c, msg, w); err != nil {
				t.Fatalf("completeness (extracted key): %v", err)
			}
		case "com:flipbit":
			i := rapid.IntRange(0, 255).Draw(t, "bit")
			c2[i/8] ^= 1 << (i % 8)
		case "com:other":
			mo := genHashMsg(t, "msg3")
			wo, _ := genHashWitness(t, key, "wit3")
			c2, err = key.CommitWithWitness(mo, wo)
			if err != nil {
				t.Fatalf("commit other: %v", err)
			}
			if bytes.Equal(mo, msg) && wo == w {
				applicable = false
			}
		case "com:same-msg-other-witness":
			wo, err := key.SampleWitness(drawPRNG(t, "wit4"))
			if err != nil {
				t.Fatalf("SampleWitness: %v", err)
			}
			c2, err = key.CommitWithWitness(msg, wo)
			if err != nil {
				t.Fatalf("commit: %v", err)
			}
			if wo == w {
				applicable = false
			}
		case "com:zero":
			c2 = hashcom.Commitment{}
		}
		negative := change != "none" && applicable
		if negative {
			if err := k2.Open(c2, m2, w2); err == nil {
				t.Fatalf("binding: hashcom Open succeeded after change %q:\n committed key=%x msg=%s w=%x c=%x\n opened    key=%x msg=%s w=%x c=%x",
					change, key[:], vlib.Hex(msg), w[:], c[:], k2[:], vlib.Hex(m2), w2[:], c2[:])
			}
			// and the untouched triple still opens (the failed attempt has no side effect).
			if err := key.Open(c, msg, w); err != nil {
				t.Fatalf("hashcom: original triple no longer opens after a failed Open: %v", err)
			}
		}
		mc := hashMsgClass(msg)
		ch := change
		if !applicable {
			ch = "n/a"
		}
		vlib.Case(test, vlib.Desc("hashcom", keyKind, ch, mc, wcls), negative,
			"key="+keyKind, "msg="+mc, "wit="+wcls, "change="+ch)
		vlib.Sample("hashcom/"+change, map[string]any{"key": fmt.Sprintf("%x", key[:]), "msg": vlib.Hex(msg), "w": fmt.Sprintf("%x", w[:]),
			"c": fmt.Sprintf("%x", c[:]), "change": ch})
	})
}
