package c18

import (
	"fmt"
	"math/big"
	"strings"

	"pgregory.net/rapid"

	"github.com/bronlabs/bron-crypto/pkg/commitments"
	"verif/harness/vlib"
)

// Property C18: commitments open only to what was committed.
//
// Oracles used in this package (none recomputes the commitment formula):
//   - completeness      : Open(Commit(m;w), m, w) = nil                    (stated directly)
//   - binding of Open   : one semantic change of m / w / key / C => Open returns an error.
//     "Semantic" is decided by the harness in math/big or by element equality, never by
//     calling CommitWithWitness/Open: e.g. changing only Pedersen's first generator is
//     not a change of the commitment when m = 0, so nothing is asserted there.
//   - equivocation      : Open(C, m', Equivocate(m, w, m')) = nil under Export()
//   - homomorphism      : metamorphic relation between the library's own Commitment*,
//     Message* and Witness* operations (stated in the property text)
//   - transcript keys   : equal histories => equal keys, edited histories => different keys

// drawPRNG returns a deterministic reader whose seed is a rapid draw.
func drawPRNG(t *rapid.T, label string) *vlib.PRNG {
	seed := rapid.Uint64().Draw(t, label+".seed")
	return vlib.NewPRNG(seed, "c18/"+label)
}

func bigPow2(k int) *big.Int { return new(big.Int).Lsh(big.NewInt(1), uint(k)) }

// flipBit returns |x| with bit k toggled, keeping the sign of x (x = 0 gives +2^k).
func flipBit(x *big.Int, k int) *big.Int {
	a := new(big.Int).Abs(x)
	a.SetBit(a, k, a.Bit(k)^1)
	if x.Sign() < 0 {
		a.Neg(a)
	}
	return a
}

func bitLenClass(n int) string {
	switch {
	case n == 0:
		return "0"
	case n <= 8:
		return "<=8"
	case n <= 64:
		return "<=64"
	case n <= 256:
		return "<=256"
	case n <= 1024:
		return "<=1024"
	default:
		return ">1024"
	}
}

func short(x *big.Int) string {
	s := x.Text(16)
	if len(s) > 40 {
		return fmt.Sprintf("%s..%s(%db)", s[:12], s[len(s)-8:], x.BitLen())
	}
	return s
}

// ---------------------------------------------------------------------------------------
// Generic engine for drawn sequences of homomorphic operations.
// ---------------------------------------------------------------------------------------

// homEnv describes how to draw operands for one scheme/key.
type homEnv[M commitments.Message, W commitments.Witness, C commitments.Commitment[C], S any] struct {
	drawM func(t *rapid.T, label string) (M, string)
	drawW func(t *rapid.T, label string) (W, string)
	// drawS returns a scalar, its class and whether the library is allowed to reject it
	// (ElGamal documents that a zero nonce is rejected; then the sequence just ends).
	drawS func(t *rapid.T, label string) (S, string, bool)
	// verify are additional openers (e.g. the exported public key of a trapdoor key).
	verify []func(c C, m M, w W) error
	showM  func(M) string
	showW  func(W) string
	// cheap: check the tracked triple after every step (otherwise only at the end and
	// before an operation that may erase history).
	maxOps int
}

var homOps = []string{"op", "op", "op3", "inv", "scalar", "scalar", "shift", "shift", "rerand", "rerand", "self"}

// runHomSequence draws up to env.maxOps operations, applies each to the tracked
// (message, witness, commitment) triple through the library's three parallel operations and
// checks after every step that the commitment opens to the tracked pair and equals
// CommitWithWitness of it. It returns the shape of the sequence.
func runHomSequence[K commitments.HomomorphicCommitmentKey[K, M, W, C, S], M commitments.Message, W commitments.Witness, C commitments.Commitment[C], S any](
	t *rapid.T, what string, key K, env *homEnv[M, W, C, S],
) (shape []string, scalarClasses []string) {
	m, _ := env.drawM(t, "m0")
	w, _ := env.drawW(t, "w0")
	c, err := key.CommitWithWitness(m, w)
	if err != nil {
		t.Fatalf("%s: CommitWithWitness(%s, %s): %v", what, env.showM(m), env.showW(w), err)
	}
	check := func(step string) {
		if err := key.Open(c, m, w); err != nil {
			t.Fatalf("%s: after %v + %s the commitment does not open to the tracked (m=%s, w=%s): %v",
				what, shape, step, env.showM(m), env.showW(w), err)
		}
		for i, v := range env.verify {
			if err := v(c, m, w); err != nil {
				t.Fatalf("%s: after %v + %s the commitment does not open under verifier key #%d (m=%s, w=%s): %v",
					what, shape, step, i, env.showM(m), env.showW(w), err)
			}
		}
		c2, err := key.CommitWithWitness(m, w)
		if err != nil {
			t.Fatalf("%s: after %v + %s CommitWithWitness of the tracked pair fails: %v", what, shape, step, err)
		}
		if !c2.Equal(c) || !c.Equal(c2) {
			t.Fatalf("%s: after %v + %s commitment != CommitWithWitness(m=%s, w=%s)", what, shape, step, env.showM(m), env.showW(w))
		}
	}
	check("start")
	must := func(step string, err error) {
		if err != nil {
			t.Fatalf("%s: after %v, %s failed: %v", what, shape, step, err)
		}
	}
	n := rapid.IntRange(1, env.maxOps).Draw(t, "nops")
	for i := 0; i < n; i++ {
		lbl := fmt.Sprintf("op%d", i)
		kind := rapid.SampledFrom(homOps).Draw(t, lbl+".kind")
		switch kind {
		case "op", "op3":
			m2, _ := env.drawM(t, lbl+".m")
			w2, _ := env.drawW(t, lbl+".w")
			c2, err := key.CommitWithWitness(m2, w2)
			must("CommitWithWitness(operand)", err)
			right := rapid.Bool().Draw(t, lbl+".right") // operand order
			if kind == "op" {
				var e1, e2, e3 error
				if right {
					c, e1 = key.CommitmentOp(c, c2)
					m, e2 = key.MessageOp(m, m2)
					w, e3 = key.WitnessOp(w, w2)
				} else {
					c, e1 = key.CommitmentOp(c2, c)
					m, e2 = key.MessageOp(m2, m)
					w, e3 = key.WitnessOp(w2, w)
				}
				must("CommitmentOp", e1)
				must("MessageOp", e2)
				must("WitnessOp", e3)
			} else {
				m3, _ := env.drawM(t, lbl+".m3")
				w3, _ := env.drawW(t, lbl+".w3")
				c3, err := key.CommitWithWitness(m3, w3)
				must("CommitWithWitness(operand3)", err)
				var e1, e2, e3 error
				c, e1 = key.CommitmentOp(c, c2, c3)
				m, e2 = key.MessageOp(m, m2, m3)
				w, e3 = key.WitnessOp(w, w2, w3)
				must("CommitmentOp/3", e1)
				must("MessageOp/3", e2)
				must("WitnessOp/3", e3)
			}
		case "self":
			var e1, e2, e3 error
			c, e1 = key.CommitmentOp(c, c)
			m, e2 = key.MessageOp(m, m)
			w, e3 = key.WitnessOp(w, w)
			must("CommitmentOp(self)", e1)
			must("MessageOp(self)", e2)
			must("WitnessOp(self)", e3)
		case "inv":
			var e1, e2, e3 error
			c, e1 = key.CommitmentOpInv(c)
			m, e2 = key.MessageOpInv(m)
			w, e3 = key.WitnessOpInv(w)
			must("CommitmentOpInv", e1)
			must("MessageOpInv", e2)
			must("WitnessOpInv", e3)
		case "scalar":
			s, cls, mayReject := env.drawS(t, lbl+".s")
			c1, e1 := key.CommitmentScalarOp(c, s)
			m1, e2 := key.MessageScalarOp(m, s)
			w1, e3 := key.WitnessScalarOp(w, s)
			if mayReject && (e1 != nil || e2 != nil || e3 != nil) {
				shape = append(shape, "scalar:"+cls+":rejected")
				scalarClasses = append(scalarClasses, cls+":rejected")
				return shape, scalarClasses
			}
			must("CommitmentScalarOp("+cls+")", e1)
			must("MessageScalarOp("+cls+")", e2)
			must("WitnessScalarOp("+cls+")", e3)
			c, m, w = c1, m1, w1
			kind = "scalar:" + cls
			scalarClasses = append(scalarClasses, cls)
		case "shift":
			m2, _ := env.drawM(t, lbl+".m")
			var e1, e2 error
			c, e1 = key.Shift(c, m2)
			m, e2 = key.MessageOp(m, m2)
			must("Shift", e1)
			must("MessageOp(shift)", e2)
		case "rerand":
			// the shift is a witness: a freshly drawn one, the accumulated witness of the
			// sequence so far (after sums and scalar multiples it lies far outside the
			// sampling range), or a scalar multiple of a fresh one
			w2, _ := env.drawW(t, lbl+".w")
			switch rapid.SampledFrom([]string{"fresh", "accumulated", "scaled"}).Draw(t, lbl+".shiftkind") {
			case "accumulated":
				w2 = w
				kind = "rerand:accumulated"
			case "scaled":
				s, cls, _ := env.drawS(t, lbl+".s")
				if ws, err := key.WitnessScalarOp(w2, s); err == nil {
					w2 = ws
					kind = "rerand:scaled:" + cls
				}
			}
			var e1, e2 error
			c, e1 = key.ReRandomise(c, w2)
			w, e2 = key.WitnessOp(w, w2)
			must("ReRandomise", e1)
			must("WitnessOp(rerand)", e2)
		}
		check(kind)
		shape = append(shape, kind)
	}
	return shape, scalarClasses
}

// shapeDesc reduces a sequence to the descriptor used for the NT count: the ordered list of
// operation kinds (scalar classes included).
func shapeDesc(shape []string) string { return strings.Join(shape, ",") }

func homClasses(shape, scalarClasses []string) []string {
	cl := []string{fmt.Sprintf("len=%d", len(shape))}
	seen := map[string]bool{}
	for _, s := range shape {
		k := s
		if i := strings.IndexByte(s, ':'); i >= 0 {
			k = s[:i]
		}
		if !seen[k] {
			seen[k] = true
			cl = append(cl, "has="+k)
		}
	}
	for _, s := range scalarClasses {
		if !seen["s="+s] {
			seen["s="+s] = true
			cl = append(cl, "scalar="+s)
		}
	}
	return cl
}
