package c18

import "pgregory.net/rapid"

func (p *ped[E, S]) keyCase(t *rapid.T) (string, bool, []string) { return "", false, nil }
