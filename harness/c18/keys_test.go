package c18

import (
	"bytes"
	"fmt"
	"testing"

	"pgregory.net/rapid"

	"github.com/bronlabs/bron-crypto/pkg/commitments/hashcom"
	"github.com/bronlabs/bron-crypto/pkg/commitments/intcom"
	"github.com/bronlabs/bron-crypto/pkg/commitments/pedersencom"
	"github.com/bronlabs/bron-crypto/pkg/transcripts"
	"github.com/bronlabs/bron-crypto/pkg/transcripts/hagrid"
	"verif/harness/vlib"
)

// A transcript history: a name and a list of operations, then the extraction label.

type trOp struct {
	Kind  string // "dom" | "app" | "ext"
	Label string
	Msgs  [][]byte
}

type trHist struct {
	Name  string
	Ops   []trOp
	Label string // label passed to ExtractCommitmentKey
}

func (h trHist) String() string {
	s := fmt.Sprintf("New(%q)", h.Name)
	for _, o := range h.Ops {
		switch o.Kind {
		case "dom":
			s += fmt.Sprintf(".Dom(%q)", o.Label)
		case "app":
			s += fmt.Sprintf(".App(%q", o.Label)
			for _, m := range o.Msgs {
				s += fmt.Sprintf(",%x", m)
			}
			s += ")"
		default:
			s += fmt.Sprintf(".Ext(%q,16)", o.Label)
		}
	}
	return s + fmt.Sprintf(" -> key(%q)", h.Label)
}

func (h trHist) build(t *rapid.T) transcripts.Transcript {
	tr := hagrid.NewTranscript(h.Name)
	for _, o := range h.Ops {
		switch o.Kind {
		case "dom":
			tr.AppendDomainSeparator(o.Label)
		case "app":
			tr.AppendBytes(o.Label, o.Msgs...)
		default:
			if _, err := tr.ExtractBytes(o.Label, 16); err != nil {
				t.Fatalf("ExtractBytes: %v", err)
			}
		}
	}
	return tr
}

func (h trHist) clone() trHist {
	c := trHist{Name: h.Name, Label: h.Label, Ops: make([]trOp, len(h.Ops))}
	for i, o := range h.Ops {
		c.Ops[i] = trOp{Kind: o.Kind, Label: o.Label, Msgs: make([][]byte, len(o.Msgs))}
		for j, m := range o.Msgs {
			c.Ops[i].Msgs[j] = bytes.Clone(m)
		}
	}
	return c
}

var trLabelGen = rapid.OneOf(
	rapid.SampledFrom([]string{"a", "ab", "abc", "b", "bc", "key", "key2", "h", "sid", "\x00"}),
	rapid.StringN(1, 10, 30),
)

var trMsgGen = rapid.OneOf(
	rapid.SampledFrom([][]byte{{}, {0}, []byte("a"), []byte("ab"), []byte("b"), []byte("c"), []byte("bc")}),
	rapid.SliceOfN(rapid.Byte(), 0, 64),
)

func genHist(t *rapid.T) trHist {
	h := trHist{
		Name:  rapid.SampledFrom([]string{"", "c18", "proto-a", "proto-b"}).Draw(t, "name"),
		Label: trLabelGen.Draw(t, "keyLabel"),
	}
	n := rapid.IntRange(0, 5).Draw(t, "nops")
	for i := 0; i < n; i++ {
		lbl := fmt.Sprintf("op%d", i)
		switch rapid.IntRange(0, 5).Draw(t, lbl+".kind") {
		case 0, 1:
			h.Ops = append(h.Ops, trOp{Kind: "dom", Label: trLabelGen.Draw(t, lbl+".tag")})
		case 2:
			h.Ops = append(h.Ops, trOp{Kind: "ext", Label: trLabelGen.Draw(t, lbl+".label")})
		default:
			h.Ops = append(h.Ops, trOp{Kind: "app", Label: trLabelGen.Draw(t, lbl+".label"), Msgs: rapid.SliceOfN(trMsgGen, 0, 3).Draw(t, lbl+".msgs")})
		}
	}
	return h
}

var trEdits = []string{
	"equal", "equal", "equal-clone",
	"key-label", "key-label-suffix", "name", "extra-append-empty", "extra-append", "extra-append-nomsg", "extra-domsep", "extra-extract",
	"msg-bit", "msg-extra-empty", "op-label", "domsep-tag", "drop-op", "swap-ops", "resplit-label-msg",
}

// editHist derives a structurally different history (or an equal one); ok=false when the drawn
// edit does not apply to this history.
func editHist(t *rapid.T, h trHist, edit string) (trHist, bool) {
	g := h.clone()
	pick := func(kind string) int {
		var idx []int
		for i, o := range g.Ops {
			if kind == "" || o.Kind == kind {
				idx = append(idx, i)
			}
		}
		if len(idx) == 0 {
			return -1
		}
		return idx[rapid.IntRange(0, len(idx)-1).Draw(t, "pick")]
	}
	at := func() int { return rapid.IntRange(0, len(g.Ops)).Draw(t, "at") }
	insert := func(i int, o trOp) {
		g.Ops = append(g.Ops[:i], append([]trOp{o}, g.Ops[i:]...)...)
	}
	switch edit {
	case "equal", "equal-clone":
		return g, true
	case "key-label":
		g.Label = trLabelGen.Draw(t, "label2")
		return g, g.Label != h.Label
	case "key-label-suffix":
		g.Label = h.Label + rapid.SampledFrom([]string{"_", "0", "_0", " "}).Draw(t, "suffix")
		return g, true
	case "name":
		g.Name = h.Name + "x"
		return g, true
	case "extra-append-empty":
		insert(at(), trOp{Kind: "app", Label: trLabelGen.Draw(t, "xl"), Msgs: [][]byte{{}}})
		return g, true
	case "extra-append-nomsg":
		insert(at(), trOp{Kind: "app", Label: trLabelGen.Draw(t, "xl")})
		return g, true
	case "extra-append":
		insert(at(), trOp{Kind: "app", Label: trLabelGen.Draw(t, "xl"), Msgs: [][]byte{trMsgGen.Draw(t, "xm")}})
		return g, true
	case "extra-domsep":
		insert(at(), trOp{Kind: "dom", Label: trLabelGen.Draw(t, "xt")})
		return g, true
	case "extra-extract":
		insert(at(), trOp{Kind: "ext", Label: trLabelGen.Draw(t, "xl")})
		return g, true
	case "msg-bit":
		i := pick("app")
		if i < 0 || len(g.Ops[i].Msgs) == 0 {
			return g, false
		}
		j := rapid.IntRange(0, len(g.Ops[i].Msgs)-1).Draw(t, "mi")
		if len(g.Ops[i].Msgs[j]) == 0 {
			return g, false
		}
		b := rapid.IntRange(0, len(g.Ops[i].Msgs[j])*8-1).Draw(t, "bit")
		g.Ops[i].Msgs[j][b/8] ^= 1 << (b % 8)
		return g, true
	case "msg-extra-empty":
		i := pick("app")
		if i < 0 {
			return g, false
		}
		g.Ops[i].Msgs = append(g.Ops[i].Msgs, []byte{})
		return g, true
	case "op-label":
		i := pick("app")
		if i < 0 {
			return g, false
		}
		g.Ops[i].Label += "'"
		return g, true
	case "domsep-tag":
		i := pick("dom")
		if i < 0 {
			return g, false
		}
		g.Ops[i].Label += "'"
		return g, true
	case "drop-op":
		i := pick("")
		if i < 0 {
			return g, false
		}
		g.Ops = append(g.Ops[:i], g.Ops[i+1:]...)
		return g, true
	case "swap-ops":
		if len(g.Ops) < 2 {
			return g, false
		}
		i := rapid.IntRange(0, len(g.Ops)-2).Draw(t, "si")
		a, b := g.Ops[i], g.Ops[i+1]
		if a.Kind == b.Kind && a.Label == b.Label && fmt.Sprint(a.Msgs) == fmt.Sprint(b.Msgs) {
			return g, false
		}
		g.Ops[i], g.Ops[i+1] = b, a
		return g, true
	case "resplit-label-msg":
		// ("ab", "c") vs ("a", "bc"): the same concatenation split differently
		i := pick("app")
		if i < 0 || len(g.Ops[i].Msgs) != 1 || len(g.Ops[i].Label) < 2 {
			return g, false
		}
		l := g.Ops[i].Label
		g.Ops[i].Label = l[:len(l)-1]
		g.Ops[i].Msgs[0] = append([]byte{l[len(l)-1]}, g.Ops[i].Msgs[0]...)
		return g, true
	}
	return g, false
}

// keyPair extracts a key of the drawn scheme from both histories and reports whether the two
// keys are equal; it also returns a printable form of both.
type keyScheme struct {
	name string
	run  func(t *rapid.T, h1, h2 trHist, clone bool) (equal bool, show string)
}

func trPair(t *rapid.T, h1, h2 trHist, clone bool) (transcripts.Transcript, transcripts.Transcript) {
	t1 := h1.build(t)
	if clone {
		return t1, t1.Clone()
	}
	return t1, h2.build(t)
}

func hashKeyScheme() keyScheme {
	return keyScheme{name: "hashcom", run: func(t *rapid.T, h1, h2 trHist, clone bool) (bool, string) {
		t1, t2 := trPair(t, h1, h2, clone)
		k1, e1 := hashcom.ExtractCommitmentKey(t1, h1.Label)
		k2, e2 := hashcom.ExtractCommitmentKey(t2, h2.Label)
		if e1 != nil || e2 != nil {
			t.Fatalf("hashcom.ExtractCommitmentKey: %v / %v", e1, e2)
		}
		eq := k1.Equal(k2)
		if eq != bytes.Equal(k1[:], k2[:]) || eq != k2.Equal(k1) {
			t.Fatalf("hashcom key Equal disagrees with the key bytes: %x vs %x", k1[:], k2[:])
		}
		return eq, fmt.Sprintf("%x vs %x", k1[:], k2[:])
	}}
}

func (p *ped[E, S]) keyScheme() keyScheme {
	return keyScheme{name: "pedersen/" + p.nm, run: func(t *rapid.T, h1, h2 trHist, clone bool) (bool, string) {
		t1, t2 := trPair(t, h1, h2, clone)
		base := p.group.Generator()
		k1, e1 := pedersencom.ExtractCommitmentKey(t1, h1.Label, base)
		k2, e2 := pedersencom.ExtractCommitmentKey(t2, h2.Label, base)
		if e1 != nil || e2 != nil {
			t.Fatalf("pedersencom.ExtractCommitmentKey(%s): %v / %v", p.nm, e1, e2)
		}
		for _, k := range []*pedersencom.CommitmentKey[E, S]{k1, k2} {
			if !k.G().Equal(base) {
				t.Fatalf("%s: extracted key does not use the given base point", p.nm)
			}
			if k.H().IsOpIdentity() || k.H().Equal(k.G()) {
				t.Fatalf("%s: extracted h is degenerate: g=%x h=%x", p.nm, k.G().Bytes(), k.H().Bytes())
			}
			if !k.H().IsTorsionFree() {
				t.Fatalf("%s: extracted h=%x is outside the prime-order group", p.nm, k.H().Bytes())
			}
		}
		eq := k1.Equal(k2)
		if eq != k1.H().Equal(k2.H()) || eq != bytes.Equal(k1.H().Bytes(), k2.H().Bytes()) || eq != k2.Equal(k1) {
			t.Fatalf("%s: key Equal disagrees with equality of h (%x vs %x)", p.nm, k1.H().Bytes(), k2.H().Bytes())
		}
		return eq, fmt.Sprintf("h=%x vs h=%x", k1.H().Bytes(), k2.H().Bytes())
	}}
}

func intKeyScheme(t *rapid.T) keyScheme {
	bits := rapid.SampledFrom([]int{512, 512, 512, 768}).Draw(t, "ibits")
	kind := rapid.SampledFrom([]string{"safe", "safe", "blum", "ord"}).Draw(t, "ikind")
	i := rapid.IntRange(0, 2).Draw(t, "ii")
	k := getIntKey(t, bits, kind, i, i+1, 0, "trapdoor") // only the group is used
	view := rapid.SampledFrom([]string{"known", "unknown", "mixed"}).Draw(t, "iview")
	return keyScheme{name: fmt.Sprintf("intcom/%d/%s/%s", 2*bits, kind, view), run: func(t *rapid.T, h1, h2 trHist, clone bool) (bool, string) {
		t1, t2 := trPair(t, h1, h2, clone)
		var k1, k2 *intcom.CommitmentKey
		var e1, e2 error
		switch view {
		case "known":
			k1, e1 = intcom.ExtractCommitmentKey(t1, h1.Label, k.group)
			k2, e2 = intcom.ExtractCommitmentKey(t2, h2.Label, k.group)
		case "unknown":
			k1, e1 = intcom.ExtractCommitmentKey(t1, h1.Label, k.group.ForgetOrder())
			k2, e2 = intcom.ExtractCommitmentKey(t2, h2.Label, k.group.ForgetOrder())
		default:
			// the holder of the factorisation and a party that only knows N derive the same key
			k1, e1 = intcom.ExtractCommitmentKey(t1, h1.Label, k.group)
			k2, e2 = intcom.ExtractCommitmentKey(t2, h2.Label, k.group.ForgetOrder())
		}
		if e1 != nil || e2 != nil {
			t.Fatalf("intcom.ExtractCommitmentKey: %v / %v", e1, e2)
		}
		for _, kk := range []*intcom.CommitmentKey{k1, k2} {
			if kk.S().Equal(kk.T()) || kk.S().IsOne() || kk.T().IsOne() {
				t.Fatalf("intcom: extracted generators are degenerate: s=%s t=%s", kk.S(), kk.T())
			}
		}
		eq := k1.Equal(k2)
		sEq, tEq := k1.S().Equal(k2.S()), k1.T().Equal(k2.T())
		if eq != (sEq && tEq) || eq != k2.Equal(k1) {
			t.Fatalf("intcom: key Equal (%v) disagrees with generator equality (s %v, t %v)", eq, sEq, tEq)
		}
		if !eq && (sEq || tEq) {
			// each generator is its own extraction from the edited transcript: both must differ
			t.Fatalf("intcom: transcripts differ but a generator coincides (s equal: %v, t equal: %v)", sEq, tEq)
		}
		return eq, fmt.Sprintf("s=%s.. vs s=%s..", short(k1.S().Value().Lift().Big()), short(k2.S().Value().Lift().Big()))
	}}
}

// TestKeysFromTranscripts: equal transcripts give equal commitment keys, any difference in the
// history or in the label gives a different key (hashcom, Pedersen on each curve, intcom).
func TestKeysFromTranscripts(t *testing.T) {
	const test = "KeysFromTranscripts"
	vlib.Check(t, 3000, func(t *rapid.T) {
		var sch keyScheme
		switch s := rapid.IntRange(0, 9).Draw(t, "scheme"); {
		case s <= 2:
			sch = hashKeyScheme()
		case s <= 7:
			sch = drawCurve(t).keyScheme()
		default:
			sch = intKeyScheme(t)
		}
		h1 := genHist(t)
		edit := rapid.SampledFrom(trEdits).Draw(t, "edit")
		h2, ok := editHist(t, h1, edit)
		if !ok {
			edit = "equal"
			h2 = h1.clone()
		}
		wantEqual := edit == "equal" || edit == "equal-clone"
		eq, show := sch.run(t, h1, h2, edit == "equal-clone")
		if eq != wantEqual {
			t.Fatalf("%s: keys equal=%v, want %v after edit %q\n A: %s\n B: %s\n keys: %s", sch.name, eq, wantEqual, edit, h1, h2, show)
		}
		vlib.Sample("keys/"+edit, map[string]any{"scheme": sch.name, "A": h1.String(), "B": h2.String(), "keys": show})
		schemeClass := sch.name
		vlib.Case(test, vlib.Desc("keys", schemeClass, edit, len(h1.Ops)), !wantEqual,
			"scheme="+schemeClass, "edit="+edit, fmt.Sprintf("ops=%d", len(h1.Ops)))
	})
}
