package c10

// C10 — session setup gives all parties the same context and symmetric pairwise secrets.
//
// This file holds the generators, the two ways of running the setup (round by round with every
// message passed through CBOR; session.NewSessionRunner over the harness switch vlib/netsim),
// the agreement oracle and the honest-setup property (part A). faults_test.go holds part B.
//
// The oracle never recomputes a seed or a session identifier: it only compares what different
// parties (and different sessions / sub-quorums) hold, which is what the property states.

import (
	"bytes"
	"fmt"
	"io"
	"sort"
	"strings"
	"testing"
	"time"

	"pgregory.net/rapid"

	"github.com/bronlabs/bron-crypto/pkg/base/algebra"
	"github.com/bronlabs/bron-crypto/pkg/base/curves/edwards25519"
	"github.com/bronlabs/bron-crypto/pkg/base/curves/k256"
	"github.com/bronlabs/bron-crypto/pkg/base/curves/p256"
	"github.com/bronlabs/bron-crypto/pkg/base/curves/pairable/bls12381"
	"github.com/bronlabs/bron-crypto/pkg/base/datastructures/hashmap"
	"github.com/bronlabs/bron-crypto/pkg/base/serde"
	"github.com/bronlabs/bron-crypto/pkg/mpc/session"
	"github.com/bronlabs/bron-crypto/pkg/mpc/zero/przs"
	"github.com/bronlabs/bron-crypto/pkg/network"
	"verif/harness/vlib"
	"verif/harness/vlib/netsim"
	"verif/harness/vlib/proto"
)

type ID = proto.ID

const prngLabel = "c10/session"

// Honest runs never stall, so a generous idle bound costs nothing and keeps a slow (overloaded)
// machine from cancelling a party that is merely late. Faulty runs stall by construction whenever
// all honest parties abort (the deviator waits forever): they use the short bound first and are
// repeated with the long one only when the short run left the verdict open (faults_test.go).
var (
	netOptsHonest = netsim.Options{Idle: 60 * time.Second, Hard: 120 * time.Second}
	netOptsFault  = netsim.Options{Idle: 3 * time.Second, Hard: 120 * time.Second}
	netOptsRetry  = netsim.Options{Idle: 30 * time.Second, Hard: 120 * time.Second}
)

// ---- generators ----------------------------------------------------------------------------

const (
	regOrdinal = "ordinal"
	regSparse  = "sparse"
	regLarge   = "large"
)

var largeSpecials = []uint64{1, 2, 63, 64, 65, 255, 256, 65535, 65536, 1<<32 - 1, 1 << 32, 1<<32 + 1, 1 << 62,
	1<<63 - 1, 1 << 63, 1<<63 + 1, 1<<64 - 2, 1<<64 - 1}

// drawIDs draws n distinct non-zero identifiers in drawn (unsorted) order.
func drawIDs(t *rapid.T, n int, regime string) []ID {
	seen := map[uint64]bool{}
	var raw []uint64
	add := func(v uint64) {
		if v != 0 && !seen[v] {
			seen[v] = true
			raw = append(raw, v)
		}
	}
	switch regime {
	case regOrdinal:
		for i := 1; i <= n; i++ {
			add(uint64(i))
		}
		raw = rapid.Permutation(raw).Draw(t, "idperm")
	case regSparse:
		for i := 0; len(raw) < n; i++ {
			add(rapid.Uint64Range(1, 64).Draw(t, fmt.Sprintf("id%d", i)))
		}
	case regLarge:
		for i := 0; len(raw) < n; i++ {
			if rapid.IntRange(0, 1).Draw(t, fmt.Sprintf("idk%d", i)) == 0 {
				add(rapid.SampledFrom(largeSpecials).Draw(t, fmt.Sprintf("ids%d", i)))
			} else {
				add(rapid.Uint64Range(1, ^uint64(0)).Draw(t, fmt.Sprintf("id%d", i)))
			}
		}
	default:
		panic("regime")
	}
	return proto.ToIDs(raw)
}

func drawSeeds(t *rapid.T, ids []ID, name string) map[ID]uint64 {
	out := map[ID]uint64{}
	for i, id := range ids {
		out[id] = rapid.Uint64().Draw(t, fmt.Sprintf("%s%d", name, i))
	}
	return out
}

func sortedCopy(ids []ID) []ID { return proto.SortedIDs(ids) }

func idsString(ids []ID) string {
	ss := make([]string, len(ids))
	for i, id := range ids {
		ss[i] = fmt.Sprint(uint64(id))
	}
	return "[" + strings.Join(ss, " ") + "]"
}

func prngOf(seeds map[ID]uint64) func(ID) io.Reader {
	return func(id ID) io.Reader { return proto.PartyPRNG(seeds[id], prngLabel, id) }
}

// ---- running the setup ---------------------------------------------------------------------

func cborRT[T any](t *rapid.T, what string, v T) T {
	b, err := serde.MarshalCBOR(v)
	if err != nil {
		t.Fatalf("marshalling %s: %v", what, err)
	}
	out, err := serde.UnmarshalCBOR[T](b)
	if err != nil {
		t.Fatalf("unmarshalling %s (%x): %v", what, b, err)
	}
	return out
}

// broadcastIn builds, per recipient, the incoming messages of a broadcast round (each copy through CBOR).
func broadcastIn[M network.Message[*session.Participant]](t *rapid.T, what string, ids []ID, out map[ID]M) map[ID]network.RoundMessages[M, *session.Participant] {
	in := map[ID]network.RoundMessages[M, *session.Participant]{}
	for _, recv := range ids {
		m := hashmap.NewComparable[ID, M]()
		for _, snd := range ids {
			if snd != recv {
				m.Put(snd, cborRT(t, fmt.Sprintf("%s of %d", what, snd), out[snd]))
			}
		}
		in[recv] = m.Freeze()
	}
	return in
}

// unicastIn builds, per recipient, the incoming messages of a unicast round (each through CBOR).
func unicastIn[M network.Message[*session.Participant]](t *rapid.T, what string, ids []ID, out map[ID]network.OutgoingUnicasts[M, *session.Participant]) map[ID]network.RoundMessages[M, *session.Participant] {
	in := map[ID]network.RoundMessages[M, *session.Participant]{}
	for _, recv := range ids {
		m := hashmap.NewComparable[ID, M]()
		for _, snd := range ids {
			if snd == recv {
				continue
			}
			msg, ok := out[snd].Get(recv)
			if !ok {
				t.Fatalf("%s: party %d produced no message for %d (quorum %s)", what, snd, recv, idsString(ids))
			}
			m.Put(snd, cborRT(t, fmt.Sprintf("%s %d->%d", what, snd, recv), msg))
		}
		in[recv] = m.Freeze()
	}
	return in
}

// runRounds executes the setup round by round; the parties act in the order of ids.
func runRounds(t *rapid.T, ids []ID, prng func(ID) io.Reader) map[ID]*session.Context {
	set := proto.SetOf(ids...)
	parts := map[ID]*session.Participant{}
	for _, id := range ids {
		p, err := session.NewParticipant(id, set, prng(id))
		if err != nil {
			t.Fatalf("NewParticipant(%d, %s): %v", id, idsString(ids), err)
		}
		if p.SharingID() != id {
			t.Fatalf("participant created for %d reports id %d", id, p.SharingID())
		}
		parts[id] = p
	}
	var err error
	r1 := map[ID]*session.Round1Broadcast{}
	for _, id := range ids {
		if r1[id], err = parts[id].Round1(); err != nil {
			t.Fatalf("Round1 of %d (quorum %s): %v", id, idsString(ids), err)
		}
	}
	r2bi := broadcastIn(t, "Round1Broadcast", ids, r1)
	r2b := map[ID]*session.Round2Broadcast{}
	r2u := map[ID]network.OutgoingUnicasts[*session.Round2P2P, *session.Participant]{}
	for _, id := range ids {
		if r2b[id], r2u[id], err = parts[id].Round2(r2bi[id]); err != nil {
			t.Fatalf("Round2 of %d (quorum %s): %v", id, idsString(ids), err)
		}
	}
	r3bi := broadcastIn(t, "Round2Broadcast", ids, r2b)
	r3ui := unicastIn(t, "Round2P2P", ids, r2u)
	r3u := map[ID]network.OutgoingUnicasts[*session.Round3P2P, *session.Participant]{}
	for _, id := range ids {
		if r3u[id], err = parts[id].Round3(r3bi[id], r3ui[id]); err != nil {
			t.Fatalf("Round3 of %d (quorum %s): %v", id, idsString(ids), err)
		}
	}
	r4ui := unicastIn(t, "Round3P2P", ids, r3u)
	ctxs := map[ID]*session.Context{}
	for _, id := range ids {
		if ctxs[id], err = parts[id].Round4(r4ui[id]); err != nil {
			t.Fatalf("Round4 of %d (quorum %s): %v", id, idsString(ids), err)
		}
		if ctxs[id] == nil {
			t.Fatalf("Round4 of %d returned neither a context nor an error", id)
		}
	}
	return ctxs
}

// runNet executes the runner API over a fresh switch.
func runNet(t *rapid.T, ids []ID, prng func(ID) io.Reader, icpt netsim.Interceptor, netOpts netsim.Options) (map[ID]*netsim.Result[*session.Context], []*netsim.Msg) {
	set := proto.SetOf(ids...)
	runners := map[ID]network.Runner[*session.Context]{}
	for _, id := range ids {
		r, err := session.NewSessionRunner(id, set, prng(id))
		if err != nil {
			t.Fatalf("NewSessionRunner(%d, %s): %v", id, idsString(ids), err)
		}
		runners[id] = r
	}
	net := netsim.New(ids)
	if icpt != nil {
		net.SetInterceptor(icpt)
	}
	res, oc := netsim.RunAll(net, runners, netOpts)
	if oc.HardStop {
		t.Fatalf("session setup over quorum %s did not terminate within %v", idsString(ids), netOpts.Hard)
	}
	for id, r := range res {
		if r.Panic != nil {
			t.Fatalf("session runner of party %d panicked (quorum %s): %v\n%s", id, idsString(ids), r.Panic, r.Stack)
		}
	}
	return res, net.Log()
}

// runNetHonest runs the runner API without interference: everybody must complete.
func runNetHonest(t *rapid.T, ids []ID, prng func(ID) io.Reader) (map[ID]*session.Context, []*netsim.Msg) {
	res, log := runNet(t, ids, prng, nil, netOptsHonest)
	ctxs := map[ID]*session.Context{}
	for _, id := range ids {
		r := res[id]
		if r.Err != nil || r.Cancelled {
			t.Fatalf("honest session setup failed at party %d (quorum %s, cancelled=%v): %v", id, idsString(ids), r.Cancelled, r.Err)
		}
		if r.Out == nil {
			t.Fatalf("honest session setup: party %d returned neither a context nor an error", id)
		}
		if r.Rounds != 4 {
			t.Fatalf("honest session setup: party %d reported %d completed rounds, want 4", id, r.Rounds)
		}
		ctxs[id] = r.Out
	}
	return ctxs, log
}

// ---- the agreement oracle ------------------------------------------------------------------

// view is what a set of parties agrees on.
type view struct {
	sid   network.SID
	tr    []byte            // clone -> ExtractBytes("x", 32)
	tr2   []byte            // clone -> AppendBytes(identical data) -> ExtractBytes("y", 32)
	seeds map[[2]ID][]byte  // pair (lo, hi) -> first 64 bytes of the pairwise seed stream
	pairs [][2]ID           // sorted keys of seeds
}

func pairKey(a, b ID) [2]ID {
	if a < b {
		return [2]ID{a, b}
	}
	return [2]ID{b, a}
}

func read64(t *rapid.T, what string, r io.Reader) []byte {
	if r == nil {
		t.Fatalf("%s: no seed reader", what)
	}
	b := make([]byte, 64)
	if _, err := io.ReadFull(r, b); err != nil {
		t.Fatalf("%s: reading the pairwise seed: %v", what, err)
	}
	return b
}

var appendData = [][]byte{[]byte("identical data appended by every party"), {0, 1, 2}}

// agree checks that the contexts of `members` (a subset of `quorum`, the quorum the contexts
// were derived for) are consistent with each other and returns what they agree on.
func agree(t *rapid.T, what string, quorum, members []ID, ctxs map[ID]*session.Context) *view {
	q := sortedCopy(quorum)
	ms := sortedCopy(members)
	v := &view{seeds: map[[2]ID][]byte{}}
	for k, id := range ms {
		c := ctxs[id]
		if c == nil {
			t.Fatalf("%s: no context for party %d", what, id)
		}
		if c.HolderID() != id {
			t.Fatalf("%s: context of party %d has holder %d", what, id, c.HolderID())
		}
		var all []ID
		for p := range c.AllPartiesOrdered() {
			all = append(all, p)
		}
		if fmt.Sprint(all) != fmt.Sprint(q) {
			t.Fatalf("%s: context of party %d lists parties %v, want %v", what, id, all, q)
		}
		if got := sortedCopy(c.Quorum().List()); fmt.Sprint(got) != fmt.Sprint(q) {
			t.Fatalf("%s: context of party %d has quorum %v, want %v", what, id, got, q)
		}
		seeds := c.Seeds()
		if len(seeds) != len(q)-1 {
			t.Fatalf("%s: context of party %d holds %d pairwise seeds for a quorum of %d", what, id, len(seeds), len(q))
		}
		sid := c.SessionID()
		tr, err := c.Transcript().Clone().ExtractBytes("x", 32)
		if err != nil {
			t.Fatalf("%s: party %d: extracting from the transcript: %v", what, id, err)
		}
		cl := c.Transcript().Clone()
		cl.AppendBytes("c10-append", appendData...)
		tr2, err := cl.ExtractBytes("y", 32)
		if err != nil {
			t.Fatalf("%s: party %d: extracting after append: %v", what, id, err)
		}
		if k == 0 {
			v.sid, v.tr, v.tr2 = sid, tr, tr2
		} else {
			if sid != v.sid {
				t.Fatalf("%s: parties %d and %d hold different session ids %x / %x", what, ms[0], id, v.sid, sid)
			}
			if !bytes.Equal(tr, v.tr) {
				t.Fatalf("%s: parties %d and %d hold different transcript states (extract %x / %x)", what, ms[0], id, v.tr, tr)
			}
			if !bytes.Equal(tr2, v.tr2) {
				t.Fatalf("%s: transcripts of parties %d and %d diverge after identical appends (%x / %x)", what, ms[0], id, v.tr2, tr2)
			}
		}
		for _, other := range q {
			if other == id {
				continue
			}
			r, ok := seeds[other]
			if !ok {
				t.Fatalf("%s: context of party %d has no seed for %d", what, id, other)
			}
			s := read64(t, fmt.Sprintf("%s: seed of %d for %d", what, id, other), r)
			key := pairKey(id, other)
			if prev, ok := v.seeds[key]; ok {
				if !bytes.Equal(prev, s) {
					t.Fatalf("%s: pairwise seed of (%d,%d) is not symmetric: %d reads %x, %d reads %x",
						what, key[0], key[1], other, prev[:16], id, s[:16])
				}
			} else {
				v.seeds[key] = s
			}
			// Seeds() hands out copies: a second call must give the same stream
			if again := read64(t, what, c.Seeds()[other]); !bytes.Equal(again, s) {
				t.Fatalf("%s: Seeds()[%d] of party %d changed between two calls (%x / %x)", what, other, id, s[:16], again[:16])
			}
		}
	}
	for k := range v.seeds {
		v.pairs = append(v.pairs, k)
	}
	sort.Slice(v.pairs, func(i, j int) bool {
		if v.pairs[i][0] != v.pairs[j][0] {
			return v.pairs[i][0] < v.pairs[j][0]
		}
		return v.pairs[i][1] < v.pairs[j][1]
	})
	return v
}

// distinct collects byte strings that must be pairwise different.
type distinct struct {
	what string
	seen map[string]string
}

func newDistinct(what string) *distinct { return &distinct{what: what, seen: map[string]string{}} }

func (d *distinct) add(t *rapid.T, owner string, b []byte) {
	if prev, ok := d.seen[string(b)]; ok {
		t.Fatalf("%s: %s and %s coincide (%x)", d.what, prev, owner, b[:min(16, len(b))])
	}
	d.seen[string(b)] = owner
}

func (d *distinct) addView(t *rapid.T, owner string, v *view) {
	for _, p := range v.pairs {
		d.add(t, fmt.Sprintf("%s pair (%d,%d)", owner, p[0], p[1]), v.seeds[p])
	}
}

func sameView(a, b *view) bool {
	if a.sid != b.sid || !bytes.Equal(a.tr, b.tr) || !bytes.Equal(a.tr2, b.tr2) || len(a.seeds) != len(b.seeds) {
		return false
	}
	for k, s := range a.seeds {
		if !bytes.Equal(s, b.seeds[k]) {
			return false
		}
	}
	return true
}

// ---- groups for zero shares ----------------------------------------------------------------

type zeroRes struct {
	holders     []ID
	enc         [][]byte
	sumIdentity bool
	allIdentity bool
}

type zgroup interface {
	Name() string
	// Zero samples one zero share per context and adds them with the library's own group law.
	Zero(ctxs []*session.Context) (*zeroRes, error)
}

type zg[GE algebra.GroupElement[GE]] struct {
	name string
	g    algebra.FiniteGroup[GE]
}

func (z zg[GE]) Name() string { return z.name }

func (z zg[GE]) Zero(ctxs []*session.Context) (*zeroRes, error) {
	r := &zeroRes{allIdentity: true}
	sum := z.g.OpIdentity()
	for _, c := range ctxs {
		sh, err := przs.SampleZeroShare(c, z.g)
		if err != nil {
			return nil, fmt.Errorf("SampleZeroShare for holder %d: %w", c.HolderID(), err)
		}
		if sh == nil {
			return nil, fmt.Errorf("SampleZeroShare for holder %d returned nil without an error", c.HolderID())
		}
		v := sh.Value()
		sum = sum.Op(v)
		if !v.IsOpIdentity() {
			r.allIdentity = false
		}
		r.holders = append(r.holders, sh.ID())
		r.enc = append(r.enc, v.Bytes())
	}
	r.sumIdentity = sum.IsOpIdentity() && sum.Equal(z.g.OpIdentity())
	return r, nil
}

var zgroups = []zgroup{
	zg[*k256.Point]{"k256", k256.NewCurve()},
	zg[*k256.Scalar]{"k256-scalars", k256.NewScalarField()},
	zg[*p256.Point]{"p256", p256.NewCurve()},
	zg[*edwards25519.PrimeSubGroupPoint]{"ed25519-prime-subgroup", edwards25519.NewPrimeSubGroup()},
	zg[*bls12381.Scalar]{"bls12381-scalars", bls12381.NewScalarField()},
	zg[*bls12381.PointG1]{"bls12381-g1", bls12381.NewG1()},
}

// checkZero samples zero shares of all members of one (sub)quorum and checks the sum.
func checkZero(t *rapid.T, what string, g zgroup, members []ID, ctxs map[ID]*session.Context) *zeroRes {
	var list []*session.Context
	for _, id := range members {
		list = append(list, ctxs[id])
	}
	r, err := g.Zero(list)
	if err != nil {
		t.Fatalf("%s over %s: %v", what, g.Name(), err)
	}
	for i, id := range members {
		if r.holders[i] != id {
			t.Fatalf("%s over %s: zero share of party %d carries id %d", what, g.Name(), id, r.holders[i])
		}
	}
	if !r.sumIdentity {
		t.Fatalf("%s over %s: the zero shares of %s do not sum to the identity (shares %x)", what, g.Name(), idsString(members), r.enc)
	}
	if r.allIdentity {
		t.Fatalf("%s over %s: all zero shares of %s are the identity", what, g.Name(), idsString(members))
	}
	// derived from the session only: sampling again gives the same shares
	r2, err := g.Zero(list)
	if err != nil {
		t.Fatalf("%s over %s (second sampling): %v", what, g.Name(), err)
	}
	for i := range r.enc {
		if !bytes.Equal(r.enc[i], r2.enc[i]) {
			t.Fatalf("%s over %s: party %d samples different zero shares from the same context (%x / %x)", what, g.Name(), members[i], r.enc[i], r2.enc[i])
		}
	}
	return r
}

// ---- sub-quorums -----------------------------------------------------------------------------

// allMasks returns all subsets of n items of size >= 2 as index masks (the full set last).
func allMasks(n int) []int {
	var out []int
	for m := 1; m < 1<<n; m++ {
		if popcount(m) >= 2 {
			out = append(out, m)
		}
	}
	return out
}

func popcount(m int) int {
	c := 0
	for ; m != 0; m &= m - 1 {
		c++
	}
	return c
}

func maskIDs(ids []ID, m int) []ID {
	var out []ID
	for i, id := range ids {
		if m>>i&1 == 1 {
			out = append(out, id)
		}
	}
	return out
}

// deriveSub derives the sub-context of every member of sub from its own parent context. Every
// member builds the set from its own (drawn) ordering of the members.
func deriveSub(t *rapid.T, what string, sub []ID, parent map[ID]*session.Context, rot int) map[ID]*session.Context {
	out := map[ID]*session.Context{}
	for k, id := range sub {
		// each member lists the sub-quorum in a different rotation / direction
		order := append([]ID(nil), sub...)
		r := (rot + k) % len(order)
		order = append(order[r:], order[:r]...)
		if (rot+k)%2 == 1 {
			for i, j := 0, len(order)-1; i < j; i, j = i+1, j-1 {
				order[i], order[j] = order[j], order[i]
			}
		}
		sc, err := parent[id].SubContext(proto.SetOf(order...))
		if err != nil {
			t.Fatalf("%s: SubContext(%s) of party %d: %v", what, idsString(sub), id, err)
		}
		if sc == nil {
			t.Fatalf("%s: SubContext(%s) of party %d returned nil without an error", what, idsString(sub), id)
		}
		out[id] = sc
	}
	return out
}

// ---- part A: honest setup --------------------------------------------------------------------

func TestHonestSetup(t *testing.T) {
	const test = "HonestSetup"
	vlib.Check(t, 400, func(t *rapid.T) {
		// "every quorum size": mostly small quorums, and a tail of larger ones (the setup is
		// O(n^2) cheap messages; sizes past 8 cross buffer-size classes of the per-peer code)
		n := rapid.SampledFrom([]int{2, 2, 3, 3, 3, 4, 4, 4, 5, 5, 5, 6, 6, 7, 8, 9, 10, 11, 12, 13, 16}).Draw(t, "n")
		regime := rapid.SampledFrom([]string{regOrdinal, regSparse, regLarge, regLarge}).Draw(t, "regime")
		ids := drawIDs(t, n, regime)
		api := rapid.SampledFrom([]string{"rounds", "runner"}).Draw(t, "api")
		seeds := drawSeeds(t, ids, "seed")
		// the parallel session: either every party has fresh randomness, or exactly one party
		// has (all others replay their random tape): the session must still be a different one
		parMode := "all-fresh"
		if n >= 3 && rapid.IntRange(0, 2).Draw(t, "parmode") == 0 {
			parMode = "one-fresh"
		}
		seeds2 := map[ID]uint64{}
		fresh := rapid.IntRange(0, n-1).Draw(t, "fresh")
		for i, id := range ids {
			seeds2[id] = seeds[id]
			if parMode == "all-fresh" || i == fresh {
				d := rapid.Uint64Range(1, ^uint64(0)).Draw(t, fmt.Sprintf("delta%d", i))
				seeds2[id] = seeds[id] + d
			}
		}
		g := rapid.SampledFrom(zgroups).Draw(t, "group")
		what := fmt.Sprintf("api=%s ids=%s seeds=%v", api, idsString(ids), seeds)

		run := func(s map[ID]uint64) map[ID]*session.Context {
			if api == "rounds" {
				return runRounds(t, ids, prngOf(s))
			}
			ctxs, _ := runNetHonest(t, ids, prngOf(s))
			return ctxs
		}
		main := run(seeds)
		par := run(seeds2)

		// 1. agreement inside each session
		vm := agree(t, what+" main session", ids, ids, main)
		vp := agree(t, what+" parallel session ("+parMode+")", ids, ids, par)
		if len(vm.seeds) != n*(n-1)/2 {
			t.Fatalf("%s: %d pairwise seeds for %d parties", what, len(vm.seeds), n)
		}

		// 2. distinctness: pairs inside a session, the parallel session, sub-quorums (below)
		dSeeds := newDistinct(what + ": pairwise seeds")
		dSeeds.addView(t, "main", vm)
		dSeeds.addView(t, "parallel("+parMode+")", vp)
		if vm.sid == vp.sid {
			t.Fatalf("%s: the parallel session (%s, seeds %v) has the same session id %x", what, parMode, seeds2, vm.sid)
		}
		dTr := newDistinct(what + ": transcript outputs")
		dTr.add(t, "main", vm.tr)
		dTr.add(t, "parallel("+parMode+")", vp.tr)
		dTr2 := newDistinct(what + ": transcript outputs after identical appends")
		dTr2.add(t, "main", vm.tr2)
		dTr2.add(t, "parallel("+parMode+")", vp.tr2)

		// 3. sub-quorums
		sorted := sortedCopy(ids)
		var masks []int
		shape := "all-subsets"
		if n <= 5 {
			masks = allMasks(n)
		} else {
			k := rapid.IntRange(4, 8).Draw(t, "nsub")
			seen := map[int]bool{}
			for i := 0; len(masks) < k; i++ {
				m := rapid.IntRange(3, 1<<n-1).Draw(t, fmt.Sprintf("mask%d", i))
				if popcount(m) >= 2 && !seen[m] {
					seen[m] = true
					masks = append(masks, m)
				}
			}
			var sizes []int
			for _, m := range masks {
				sizes = append(sizes, popcount(m))
			}
			sort.Ints(sizes)
			shape = fmt.Sprintf("drawn%v", sizes)
		}
		rot := rapid.IntRange(0, 7).Draw(t, "rot")
		subs := map[int]map[ID]*session.Context{}
		for _, m := range masks {
			sub := maskIDs(ids, m) // members in drawn (unsorted) order
			name := fmt.Sprintf("%s sub-quorum %s", what, idsString(sub))
			sc := deriveSub(t, name, sub, main, rot)
			subs[m] = sc
			vs := agree(t, name, sub, sub, sc)
			key := "sub" + idsString(sortedCopy(sub))
			dTr.add(t, key, vs.tr)
			dTr2.add(t, key, vs.tr2)
			dSeeds.addView(t, key, vs)
			checkZero(t, name+": zero shares", g, sub, sc)
		}
		// a nested derivation: members of Q2 inside Q agree as well
		if n >= 3 {
			m := masks[rapid.IntRange(0, len(masks)-1).Draw(t, "nestIn")]
			if popcount(m) >= 3 {
				outer := maskIDs(ids, m)
				drop := rapid.IntRange(0, len(outer)-1).Draw(t, "nestDrop")
				inner := append(append([]ID(nil), outer[:drop]...), outer[drop+1:]...)
				name := fmt.Sprintf("%s sub-quorum %s of sub-quorum %s", what, idsString(inner), idsString(outer))
				sc := deriveSub(t, name, inner, subs[m], rot+1)
				agree(t, name, inner, inner, sc)
				checkZero(t, name+": zero shares", g, inner, sc)
				vlib.Class(test, "nested-subcontext")
			}
		}

		// 4. zero shares over the full quorum: every group; different sessions give different shares
		for _, zgx := range zgroups {
			zm := checkZero(t, what+" main session: zero shares", zgx, sorted, main)
			zp := checkZero(t, what+" parallel session: zero shares", zgx, sorted, par)
			for i, id := range sorted {
				if bytes.Equal(zm.enc[i], zp.enc[i]) {
					t.Fatalf("%s over %s: party %d gets the same zero share %x in two different sessions (%s)", what, zgx.Name(), id, zm.enc[i], parMode)
				}
			}
		}

		// 5. deriving sub-contexts and sampling did not disturb the parent contexts
		if again := agree(t, what+" main session (after derivations)", ids, ids, main); !sameView(vm, again) {
			t.Fatalf("%s: the parent contexts changed after sub-contexts were derived from them", what)
		}

		vlib.Case(test, vlib.Desc(api, n, regime, parMode, g.Name(), shape), true,
			"api="+api, fmt.Sprintf("n=%d", n), "regime="+regime, "parallel="+parMode, "group="+g.Name(),
			fmt.Sprintf("subquorums=%d", len(masks)))
		vlib.Sample("honest", map[string]any{"api": api, "ids": idsString(ids), "regime": regime, "parallel": parMode,
			"group": g.Name(), "subquorums": len(masks), "sid": fmt.Sprintf("%x", vm.sid[:8])})
	})
}
