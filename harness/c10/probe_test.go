package c10

import (
	"fmt"
	"testing"

	"github.com/bronlabs/bron-crypto/pkg/mpc/session"
	"github.com/bronlabs/bron-crypto/pkg/network"
	"verif/harness/vlib/cbormut"
	"verif/harness/vlib/netsim"
	"verif/harness/vlib/proto"
	"time"
)

func TestProbe(t *testing.T) {
	ids := proto.ToIDs([]uint64{5, 1 << 63, 9})
	runners := map[proto.ID]network.Runner[*session.Context]{}
	for _, id := range ids {
		r, err := session.NewSessionRunner(id, proto.SetOf(ids...), proto.PartyPRNG(1, "x", id))
		if err != nil {
			t.Fatal(err)
		}
		runners[id] = r
	}
	net := netsim.New(ids)
	res, oc := netsim.RunAll(net, runners, netsim.Options{Idle: 3 * time.Second, Hard: 120 * time.Second})
	fmt.Println(oc)
	for id, r := range res {
		fmt.Println(id, r.Err, r.Cancelled, r.Out != nil)
	}
	for _, m := range net.Log() {
		fmt.Printf("%d->%d cid=%q round=%q kind=%v len=%d", m.From, m.To, m.CID, m.Round(), m.Kind, len(m.Body))
		if m.Kind != netsim.Echo2 {
			n, err := cbormut.Parse(m.Body)
			if err != nil {
				t.Fatal(err)
			}
			n.OpenNested()
			fmt.Printf(" classes=%v\n   %x", cbormut.Classes(n), m.Body)
		}
		fmt.Println()
	}
}
