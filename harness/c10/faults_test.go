package c10

// Part B of C10: one deviator whose outgoing message of one setup round is altered on the wire.
//
// The deviator runs the unchanged library code; the harness switch (vlib/netsim) replaces the
// body of ONE of its messages: a unicast for one drawn recipient, a broadcast identically in
// every copy (what echo broadcast enforces; with two parties the single copy).
//
// Bound / free table, derived from pkg/mpc/session/participant.go:
//
//   Round1Broadcast.Ck                          FREE   fresh public commitment key of the sender. Round2 of every
//                                                      recipient stores it, commits its pairwise contribution FOR the
//                                                      sender under it and Round4 hashes it into the common seed. All
//                                                      honest parties adopt the altered key alike; nothing they hold
//                                                      contradicts it. (The sender itself later fails to open what it
//                                                      receives - its verdict is the deviator's and is ignored.)
//   Round1Broadcast.CommonCommitment            FREE   fresh commitment of the sender; stored in Round2. Altering it for
//                                                      everybody is choosing another commitment. (The sender's unchanged
//                                                      Round2 opening then no longer matches, so in practice every honest
//                                                      party rejects in Round3 - recorded as outcome, not demanded.)
//   Round2Broadcast.CommonContribution          BOUND  Round3: commonCommitmentKey.Open(commitment of Round1, contribution,
//   Round2Broadcast.CommonContributionWitness   BOUND  witness) by EVERY recipient; error tagged with the sender.
//   Round2P2P.PairwiseContributionCommitment    BOUND  stored by the recipient in Round3; Round4 of the recipient opens it
//                                                      under the recipient's own key with the sender's Round3P2P opening:
//                                                      an altered commitment no longer matches the sender's opening.
//   Round3P2P.PairwiseContribution              BOUND  Round4 of the recipient: ck.Open(commitment of Round2P2P,
//   Round3P2P.PairwiseContributionWitness       BOUND  contribution, witness); error tagged with the sender.
//
// All leaves are 32-byte random strings (no nested encodings: cbormut.OpenNested is NOT used - a
// random commitment can look like a CBOR tag); an all-zero value is additionally refused by Validate (tagged
// with the sender by network.ValidateIncomingMessages), which is a rejection as well.
//
// Oracle. (S) for every leaf: no party panics, the run terminates, every identity an honest
// party blames is the deviator, and the honest parties that complete agree with each other
// (session id, transcript, pairwise seeds between them, zero shares of a sub-context of the
// completed parties sum to the identity). (D) for BOUND leaves: the recipient of an altered
// unicast, and every honest party with a verdict (at least one) for an altered broadcast,
// returns an error that blames the deviator and no context.

import (
	"bytes"
	"fmt"
	"sort"
	"sync/atomic"
	"testing"

	"pgregory.net/rapid"

	"github.com/bronlabs/bron-crypto/pkg/base"
	"github.com/bronlabs/bron-crypto/pkg/mpc/session"
	"github.com/bronlabs/bron-crypto/pkg/mpc/sharing"
	"verif/harness/vlib"
	"verif/harness/vlib/cbormut"
	"verif/harness/vlib/netsim"
)

type leafSpec struct {
	msg   string
	round string // correlation id of the exchange
	bcast bool
	leaf  string // cbormut path class
	bound bool
}

var leafTable = []leafSpec{
	{"Round1Broadcast", "SessionSetupR1", true, "/Ck", false},
	{"Round1Broadcast", "SessionSetupR1", true, "/CommonCommitment", false},
	{"Round2Broadcast", "SessionSetupR2", true, "/CommonContribution", true},
	{"Round2Broadcast", "SessionSetupR2", true, "/CommonContributionWitness", true},
	{"Round2P2P", "SessionSetupR2", false, "/PairwiseContributionCommitment", true},
	{"Round3P2P", "SessionSetupR3", false, "/PairwiseContribution", true},
	{"Round3P2P", "SessionSetupR3", false, "/PairwiseContributionWitness", true},
}

const (
	opBitflip      = "bitflip"
	opZero         = "zero"
	opReplParallel = "replace:parallel-session"
	opReplSender   = "replace:other-sender"
	opReplRecip    = "replace:other-recipient"
)

// isPayload reports whether a wire message carries a round message (not an echo vote).
func isPayload(m *netsim.Msg) bool {
	return m.Kind == netsim.Unicast || m.Kind == netsim.Broadcast2 || m.Kind == netsim.Echo1
}

// findMsg returns the body of the (unique up to identical broadcast copies) message in a log.
func findMsg(t *rapid.T, log []*netsim.Msg, from ID, spec leafSpec, to ID) []byte {
	var body []byte
	for _, m := range log {
		if !isPayload(m) || m.From != from || m.Round() != spec.round || m.IsBroadcast() != spec.bcast {
			continue
		}
		if !spec.bcast && m.To != to {
			continue
		}
		if body != nil && !bytes.Equal(body, m.Body) {
			t.Fatalf("harness: party %d sent two different %s messages in one honest run", from, spec.msg)
		}
		body = m.Body
	}
	if body == nil {
		t.Fatalf("harness: no %s message of party %d (to %d) in the log of the honest run", spec.msg, from, to)
	}
	return body
}

// checkTable verifies that the leaf table above lists exactly the leaves that occur on the wire.
func checkTable(t *rapid.T, log []*netsim.Msg) {
	seen := map[string]bool{}
	for _, m := range log {
		if !isPayload(m) {
			if m.Kind != netsim.Echo2 {
				t.Fatalf("harness: unclassified wire message %q", m.CID)
			}
			continue
		}
		root, err := cbormut.Parse(m.Body)
		if err != nil {
			t.Fatalf("harness: parsing %q: %v", m.CID, err)
		}
		for _, c := range cbormut.Classes(root) {
			seen[fmt.Sprintf("%s|%v|%s", m.Round(), m.IsBroadcast(), c)] = true
		}
	}
	want := map[string]bool{}
	for _, l := range leafTable {
		want[fmt.Sprintf("%s|%v|%s", l.round, l.bcast, l.leaf)] = true
	}
	var a, b []string
	for k := range seen {
		a = append(a, k)
	}
	for k := range want {
		b = append(b, k)
	}
	sort.Strings(a)
	sort.Strings(b)
	if fmt.Sprint(a) != fmt.Sprint(b) {
		t.Fatalf("harness: the leaf table is out of date: on the wire %v, in the table %v", a, b)
	}
}

func blamed(err error) []ID { return base.GetMaliciousIdentities[sharing.ID](err) }

func TestSetupFaults(t *testing.T) {
	const test = "SetupFaults"
	vlib.Check(t, 300, func(t *rapid.T) {
		n := rapid.SampledFrom([]int{2, 3, 3, 3, 4, 4, 5}).Draw(t, "n")
		regime := rapid.SampledFrom([]string{regOrdinal, regSparse, regLarge, regLarge}).Draw(t, "regime")
		ids := drawIDs(t, n, regime)
		seeds := drawSeeds(t, ids, "seed")
		seeds2 := map[ID]uint64{}
		for i, id := range ids {
			seeds2[id] = seeds[id] + rapid.Uint64Range(1, ^uint64(0)).Draw(t, fmt.Sprintf("delta%d", i))
		}
		spec := rapid.SampledFrom(leafTable).Draw(t, "leaf")
		d := ids[rapid.IntRange(0, n-1).Draw(t, "deviator")]
		var others []ID
		for _, id := range ids {
			if id != d {
				others = append(others, id)
			}
		}
		var r ID // recipient of an altered unicast
		if !spec.bcast {
			r = others[rapid.IntRange(0, len(others)-1).Draw(t, "recipient")]
		}
		ops := []string{opBitflip, opZero, opReplParallel, opReplSender}
		if !spec.bcast && n >= 3 {
			ops = append(ops, opReplRecip)
		}
		op := rapid.SampledFrom(ops).Draw(t, "op")
		what := fmt.Sprintf("ids=%s seeds=%v deviator=%d %s%s", idsString(ids), seeds, d, spec.msg, spec.leaf)
		if !spec.bcast {
			what += fmt.Sprintf(" to %d", r)
		}

		// honest pilot runs: the main session (also the baseline) and a parallel one (donor)
		pilot, log := runNetHonest(t, ids, prngOf(seeds))
		agree(t, what+": pilot run", ids, ids, pilot)
		checkTable(t, log)
		orig := findMsg(t, log, d, spec, r)
		root, err := cbormut.Parse(orig)
		if err != nil {
			t.Fatalf("harness: parsing %x: %v", orig, err)
		}

		var donors []*cbormut.Node
		cbOp := op
		opLabel := op
		switch op {
		case opReplParallel, opReplSender, opReplRecip:
			cbOp = cbormut.OpReplace
			var donorBody []byte
			switch op {
			case opReplParallel:
				_, log2 := runNetHonest(t, ids, prngOf(seeds2))
				donorBody = findMsg(t, log2, d, spec, r)
			case opReplSender:
				s := others[rapid.IntRange(0, len(others)-1).Draw(t, "donorSender")]
				if !spec.bcast && s == r {
					donorBody = findMsg(t, log, r, spec, d) // the recipient's own message to the deviator, reflected
					opLabel += "(reflected)"
				} else {
					donorBody = findMsg(t, log, s, spec, r)
				}
			case opReplRecip:
				var cands []ID
				for _, id := range others {
					if id != r {
						cands = append(cands, id)
					}
				}
				r2 := cands[rapid.IntRange(0, len(cands)-1).Draw(t, "donorRecipient")]
				donorBody = findMsg(t, log, d, spec, r2)
			}
			dn, err := cbormut.Parse(donorBody)
			if err != nil {
				t.Fatalf("harness: parsing donor %x: %v", donorBody, err)
			}
			donors = []*cbormut.Node{dn}
		}
		mut, ok := cbormut.Mutate(t, root, donors, []string{cbOp}, spec.leaf)
		if !ok {
			t.Fatalf("harness: operator %s not applicable to %s of %x", op, spec.leaf, orig)
		}
		if mut.Class != spec.leaf {
			t.Fatalf("harness: mutated %s instead of %s", mut.Class, spec.leaf)
		}
		if cbOp == cbormut.OpReplace && mut.Note == " from another field" {
			opLabel += "/cross-field"
		}
		altered := root.Encode()
		if bytes.Equal(altered, orig) {
			t.Fatalf("harness: mutation %s left the message unchanged", mut)
		}
		what += fmt.Sprintf(" %s [%s]: %x -> %x", opLabel, mut, orig, altered)

		// the faulty run
		runFault := func(opts netsim.Options) map[ID]*netsim.Result[*session.Context] {
			var hits, irreproducible atomic.Int32
			icpt := func(m *netsim.Msg) []*netsim.Msg {
				if !isPayload(m) || m.From != d || m.Round() != spec.round || m.IsBroadcast() != spec.bcast || (!spec.bcast && m.To != r) {
					return []*netsim.Msg{m}
				}
				if !bytes.Equal(m.Body, orig) {
					irreproducible.Add(1)
				}
				c := m.Clone()
				c.Body = append([]byte(nil), altered...)
				hits.Add(1)
				return []*netsim.Msg{c}
			}
			res, _ := runNet(t, ids, prngOf(seeds), icpt, opts) // fails on a panic of any party / on a hang
			wantHits := int32(1)
			if spec.bcast {
				wantHits = int32(n - 1)
			}
			if irreproducible.Load() != 0 || hits.Load() != wantHits {
				t.Fatalf("harness: the run did not reproduce the pilot (%d altered copies, want %d; %d differed): %s",
					hits.Load(), wantHits, irreproducible.Load(), what)
			}
			return res
		}
		// verdictOpen: the party whose verdict (D) is about was cancelled by the harness. With one
		// altered message this is either a genuine hang or a late party on a busy machine: the
		// (deterministic) run is repeated once with a ten times longer idle bound before judging.
		verdictOpen := func(res map[ID]*netsim.Result[*session.Context]) bool {
			if !spec.bound {
				return false
			}
			if !spec.bcast {
				return res[r].Cancelled
			}
			for _, id := range others {
				if !res[id].Cancelled {
					return false
				}
			}
			return true
		}
		res := runFault(netOptsFault)
		if verdictOpen(res) {
			vlib.Class(test, "retried-with-long-idle")
			res = runFault(netOptsRetry)
		}

		// (S)
		var completed, rejected, cancelled []ID
		for _, id := range sortedCopy(others) {
			rr := res[id]
			switch {
			case rr.Cancelled:
				cancelled = append(cancelled, id)
			case rr.Err != nil:
				if rr.Out != nil {
					t.Fatalf("%s: honest party %d returned an error AND a context: %v", what, id, rr.Err)
				}
				for _, b := range blamed(rr.Err) {
					if b != d {
						t.Fatalf("%s: honest party %d blames %d, the only deviator is %d: %v", what, id, b, d, rr.Err)
					}
				}
				rejected = append(rejected, id)
			default:
				if rr.Out == nil {
					t.Fatalf("%s: honest party %d returned neither a context nor an error", what, id)
				}
				completed = append(completed, id)
			}
		}
		if len(completed) > 0 {
			ctxs := map[ID]*session.Context{}
			for _, id := range completed {
				ctxs[id] = res[id].Out
			}
			v := agree(t, what+": honest parties that completed", ids, completed, ctxs)
			dd := newDistinct(what + ": pairwise seeds of the honest parties that completed")
			dd.addView(t, "faulty run", v)
			if len(completed) >= 2 {
				g := zgroups[rapid.IntRange(0, len(zgroups)-1).Draw(t, "group")]
				name := fmt.Sprintf("%s: sub-context of the completed honest parties %s", what, idsString(completed))
				sc := deriveSub(t, name, completed, ctxs, 0)
				agree(t, name, completed, completed, sc)
				checkZero(t, name+": zero shares", g, completed, sc)
			}
		}

		// (D)
		blames := func(id ID) bool {
			for _, b := range blamed(res[id].Err) {
				if b == d {
					return true
				}
			}
			return false
		}
		if spec.bound {
			if spec.bcast {
				if len(completed) > 0 {
					t.Fatalf("%s: honest parties %s output a context although the opening broadcast by %d was altered", what, idsString(completed), d)
				}
				if len(rejected) == 0 {
					t.Fatalf("%s: no honest party reached a verdict (cancelled: %s)", what, idsString(cancelled))
				}
				for _, id := range rejected {
					if !blames(id) {
						t.Fatalf("%s: honest party %d rejected without blaming the deviator %d: %v", what, id, d, res[id].Err)
					}
				}
			} else {
				rr := res[r]
				if rr.Cancelled {
					t.Fatalf("%s: the recipient %d reached no verdict", what, r)
				}
				if rr.Err == nil {
					t.Fatalf("%s: the recipient %d accepted the altered message and output a context", what, r)
				}
				if !blames(r) {
					t.Fatalf("%s: the recipient %d rejected without blaming the deviator %d: %v", what, r, d, rr.Err)
				}
			}
		}

		outcome := fmt.Sprintf("honest: completed=%d rejected=%d cancelled=%d", len(completed), len(rejected), len(cancelled))
		boundS := "free"
		if spec.bound {
			boundS = "bound"
		}
		vlib.Case(test, vlib.Desc(n, regime, spec.msg, spec.leaf, opLabel), true,
			"leaf="+spec.msg+spec.leaf, "op="+opLabel, fmt.Sprintf("n=%d", n), "regime="+regime, "class="+boundS,
			"outcome("+spec.msg+spec.leaf+")="+outcomeClass(len(completed), len(rejected), len(others)))
		vlib.Sample("fault:"+spec.msg+spec.leaf, map[string]any{"ids": idsString(ids), "deviator": uint64(d), "recipient": uint64(r),
			"mutation": mut.String(), "op": opLabel, "outcome": outcome})
	})
}

func outcomeClass(completed, rejected, honest int) string {
	switch {
	case completed == honest:
		return "all-honest-complete"
	case rejected == honest:
		return "all-honest-reject"
	case rejected == 1 && completed == honest-1:
		return "one-rejects-others-complete"
	default:
		return fmt.Sprintf("mixed(c=%d,r=%d,h=%d)", completed, rejected, honest)
	}
}
