package c02

import (
	"fmt"
	"math/big"
	"sort"

	"github.com/bronlabs/bron-crypto/pkg/base/algebra"
	"github.com/bronlabs/bron-crypto/pkg/base/curves/edwards25519"
	"github.com/bronlabs/bron-crypto/pkg/base/curves/k256"
	"github.com/bronlabs/bron-crypto/pkg/base/curves/p256"
	"github.com/bronlabs/bron-crypto/pkg/base/curves/pairable/bls12381"
	"github.com/bronlabs/bron-crypto/pkg/base/curves/pasta"
	"github.com/bronlabs/bron-crypto/pkg/base/mat"
	"github.com/bronlabs/bron-crypto/pkg/mpc/sharing"
	"github.com/bronlabs/bron-crypto/pkg/mpc/sharing/accessstructures"
	"github.com/bronlabs/bron-crypto/pkg/mpc/sharing/scheme/kw/msp"
	"verif/harness/vlib"
	"verif/harness/vlib/lx"
	"verif/harness/vlib/policy"
	"verif/harness/vlib/refmat"
)

// T is what the generic test bodies need from *testing.T / *rapid.T.
type T = vlib.Fataler

// Env is one scalar field (with its prime-order group) behind a non-generic face, so that test
// bodies written as generic functions can be dispatched on a drawn field name.
type Env interface {
	Name() string
	Q() *big.Int
	KW(t T, c *pcase)
	Witness(t T, c *pcase, tries int) int
	Shamir(t T, c *pcase)
	Additive(t T, c *pcase)
	ISN(t T, c *pcase)
	Tassa(t T, c *pcase)
	Feldman(t T, c *pcase)
	Pedersen(t T, c *pcase)
	OneColumnRefused(t T, c *pcase) string
	AcceptsFull(t T, c *pcase) bool
	ISNSoloProbe(t T, c *pcase, h int) bool
	TassaAdmission(t T, c *pcase, verdict int, increasing bool) string
}

type env[E algebra.PrimeGroupElement[E, FE], FE algebra.PrimeFieldElement[FE]] struct {
	name string
	g    algebra.PrimeGroup[E, FE]
	f    algebra.PrimeField[FE]
	q    *big.Int
}

func newEnv[E algebra.PrimeGroupElement[E, FE], FE algebra.PrimeFieldElement[FE]](name string, g algebra.PrimeGroup[E, FE]) Env {
	f := algebra.StructureMustBeAs[algebra.PrimeField[FE]](g.ScalarStructure())
	return &env[E, FE]{name: name, g: g, f: f, q: lx.Order(f)}
}

func (e *env[E, FE]) Name() string { return e.name }
func (e *env[E, FE]) Q() *big.Int  { return new(big.Int).Set(e.q) }

var fieldNames = []string{"k256", "p256", "ed25519", "pallas", "bls12381"}

var envs = map[string]Env{
	"k256":     newEnv("k256", k256.NewCurve()),
	"p256":     newEnv("p256", p256.NewCurve()),
	"ed25519":  newEnv("ed25519", edwards25519.NewPrimeSubGroup()),
	"pallas":   newEnv("pallas", pasta.NewPallasCurve()),
	"bls12381": newEnv("bls12381", bls12381.NewG1()),
}

// The group orders typed in from the standards (SEC 2, FIPS 186-4, RFC 8032, the Pasta and
// BLS12-381 specifications): the field the library hands out must be the field the oracle
// computes in.
var ordersHex = map[string]string{
	"k256":     "fffffffffffffffffffffffffffffffebaaedce6af48a03bbfd25e8cd0364141",
	"p256":     "ffffffff00000000ffffffffffffffffbce6faada7179e84f3b9cac2fc632551",
	"ed25519":  "1000000000000000000000000000000014def9dea2f79cd65812631a5cf5d3ed",
	"pallas":   "40000000000000000000000000000000224698fc0994a8dd8c46eb2100000001",
	"bls12381": "73eda753299d7d483339d80809a1d80553bda402fffe5bfeffffffff00000001",
}

// ---- a case ---------------------------------------------------------------------------------------

// pcase is one (policy, ID map) pair with the subsets to examine and the randomness to use.
type pcase struct {
	test    string
	p       *policy.Policy
	ids     []uint64
	regime  string
	ac      accessstructures.Monotone
	subsets []uint64
	seed    uint64   // seeds the dealer's randomness and the drawn secret
	scalars []uint64 // small multipliers for the linearity clause (besides 0, 1, q-1)
	heavy   bool     // run linearity / additive conversion on every qualified subset
	// derived
	holderOf map[uint64]int
}

func newCase(t T, test string, p *policy.Policy, ids []uint64, regime string, seed uint64) *pcase {
	ac, err := policy.Build(p, ids)
	if err != nil {
		t.Fatalf("constructor refuses %v under ids %v: %v", p, ids, err)
	}
	c := &pcase{test: test, p: p, ids: ids, regime: regime, ac: ac, seed: seed, heavy: true, holderOf: map[uint64]int{}}
	for i, id := range ids {
		c.holderOf[id] = i
	}
	return c
}

func (c *pcase) String() string { return fmt.Sprintf("%v ids=%v", c.p, c.ids) }

func (c *pcase) allSubsets() {
	c.subsets = c.subsets[:0]
	for s := uint64(0); s <= c.p.Full(); s++ {
		c.subsets = append(c.subsets, s)
	}
}

func (c *pcase) idsOf(mask uint64) []sharing.ID { return policy.IDList(c.ids, mask) }

// maskOf converts library IDs back to a holder mask; ok is false if an ID is not a holder's.
func (c *pcase) maskOf(ids []sharing.ID) (uint64, bool) {
	var m uint64
	for _, id := range ids {
		h, ok := c.holderOf[uint64(id)]
		if !ok {
			return 0, false
		}
		m |= 1 << uint(h)
	}
	return m, true
}

// stranger returns an ID that is not a shareholder's.
func (c *pcase) stranger() sharing.ID {
	for v := uint64(1); ; v++ {
		if _, ok := c.holderOf[v]; !ok {
			return sharing.ID(v)
		}
	}
}

func (c *pcase) maxID() uint64 {
	var m uint64
	for _, v := range c.ids {
		if v > m {
			m = v
		}
	}
	return m
}

// classify names the subset class by the policy oracle only.
func classify(p *policy.Policy, s uint64) string {
	if p.Qualified(s) {
		for _, i := range policy.Members(s) {
			if p.Qualified(s &^ (1 << uint(i))) {
				return "nonMinQ"
			}
		}
		return "minQ"
	}
	for _, i := range policy.Members(p.Full() &^ s) {
		if !p.Qualified(s | 1<<uint(i)) {
			return "otherU"
		}
	}
	return "maxU"
}

// nontrivial is the NT rule of DESIGN.md C02.
func nontrivial(p *policy.Policy, s uint64) bool {
	if p.Family != policy.Threshold {
		return true
	}
	return s != 0 && s != p.Full()
}

func (c *pcase) record(scheme, field, secretClass string, s uint64) {
	cl := classify(c.p, s)
	vlib.Case(c.test, vlib.Desc(c.p.Family, c.p.String(), scheme, cl, field, secretClass, c.regime),
		nontrivial(c.p, s),
		"family="+c.p.Family, "scheme="+scheme, "subset="+cl, "field="+field, "secret="+secretClass,
		"ids="+c.regime, fmt.Sprintf("n=%d", c.p.N))
}

// ---- secrets ----------------------------------------------------------------------------------------

var secretClasses = []string{"0", "1", "q-1", "drawn"}

// secretOf returns the secret of a class; "drawn" comes from the case's PRNG stream.
func secretOf(class string, q *big.Int, seed uint64) *big.Int {
	switch class {
	case "0":
		return big.NewInt(0)
	case "1":
		return big.NewInt(1)
	case "q-1":
		return new(big.Int).Sub(q, big.NewInt(1))
	}
	return drawnBig(q, seed, "secret")
}

func drawnBig(q *big.Int, seed uint64, label string) *big.Int {
	var b [48]byte
	_, _ = vlib.NewPRNG(seed, label).Read(b[:])
	return new(big.Int).Mod(new(big.Int).SetBytes(b[:]), q)
}

// ---- span programme read-out ------------------------------------------------------------------

// spanView is the MSP as the oracle sees it: the matrix entries as integers (via BytesBE) and
// the row labelling as holder indices.
type spanView struct {
	M       *refmat.Mat
	holder  []int   // row -> holder index
	rows    [][]int // holder index -> its rows, ascending
	e0      []*big.Int
	rowless uint64 // holders without any row (known finding C02-cnf-redundant-holder)
}

// knownRedundant: in a CNF structure a holder contained in every maximal unqualified set gets
// no span-programme row; every quorum that names such a holder is then rejected by the span
// programme although the policy (and IsQualified) call it qualified.
const knownRedundant = "C02-cnf-redundant-holder"

func readMSP[FE algebra.PrimeFieldElement[FE]](t T, c *pcase, m *msp.MSP[FE], q *big.Int) *spanView {
	t.Helper()
	mm := m.Matrix()
	r, cols := mm.Dimensions()
	if r != int(m.Size()) || cols != int(m.D()) {
		t.Fatalf("%v: MSP dimensions %dx%d but Size=%d D=%d", c, r, cols, m.Size(), m.D())
	}
	rows := make([][]*big.Int, r)
	for i := 0; i < r; i++ {
		rows[i] = make([]*big.Int, cols)
		for j := 0; j < cols; j++ {
			v, err := mm.Get(i, j)
			if err != nil {
				t.Fatalf("%v: Matrix.Get(%d,%d): %v", c, i, j, err)
			}
			rows[i][j] = lx.Big(v)
		}
	}
	M, err := refmat.New(q, r, cols, rows)
	if err != nil {
		t.Fatalf("refmat.New: %v", err)
	}
	v := &spanView{M: M, holder: make([]int, r), rows: make([][]int, c.p.N), e0: make([]*big.Int, cols)}
	for j := range v.e0 {
		v.e0[j] = new(big.Int)
	}
	if cols > 0 {
		v.e0[0].SetInt64(1)
	}
	rth := m.RowsToHolders()
	for i := 0; i < r; i++ {
		id, ok := rth.Get(i)
		if !ok {
			t.Fatalf("%v: MSP row %d has no holder", c, i)
		}
		h, ok := c.holderOf[uint64(id)]
		if !ok {
			t.Fatalf("%v: MSP row %d belongs to %d, which is not a shareholder", c, i, id)
		}
		v.holder[i] = h
		v.rows[h] = append(v.rows[h], i)
	}
	redundant := c.p.RedundantHolders()
	for h := range v.rows {
		sort.Ints(v.rows[h])
		if len(v.rows[h]) == 0 {
			// exactly the catalogued situation, nothing wider: CNF family and a holder that is
			// in no minimal qualified set
			if c.p.Family != policy.CNF || redundant&(1<<uint(h)) == 0 {
				t.Fatalf("%v: holder %d (id %d) owns no MSP row", c, h, c.ids[h])
			}
			v.rowless |= 1 << uint(h)
		}
	}
	// the library's reverse map must agree
	htr := m.HoldersToRows()
	for h, id := range c.ids {
		set, ok := htr.Get(sharing.ID(id))
		if v.rowless&(1<<uint(h)) != 0 {
			if ok && set.Size() != 0 {
				t.Fatalf("%v: HoldersToRows(%d) has rows, RowsToHolders none", c, id)
			}
			continue
		}
		if !ok || set.Size() != len(v.rows[h]) {
			t.Fatalf("%v: HoldersToRows(%d) disagrees with RowsToHolders", c, id)
		}
		for _, r := range v.rows[h] {
			if !set.Contains(r) {
				t.Fatalf("%v: HoldersToRows(%d) lacks row %d", c, id, r)
			}
		}
	}
	return v
}

// rowsOf lists the rows owned by the holders in mask, ascending.
func (v *spanView) rowsOf(mask uint64) []int {
	var out []int
	for _, h := range policy.Members(mask) {
		out = append(out, v.rows[h]...)
	}
	sort.Ints(out)
	return out
}

// spans reports e0 ∈ rowspan(M_S), by the reference elimination.
func (v *spanView) spans(mask uint64) bool {
	rows := v.rowsOf(mask)
	if len(rows) == 0 {
		return false
	}
	return v.M.SubRows(rows...).RowSpanContains(v.e0)
}

// column turns integers into a D×1 library matrix.
func column[FE algebra.PrimeFieldElement[FE]](t T, f algebra.PrimeField[FE], vals []*big.Int) *mat.Matrix[FE] {
	t.Helper()
	mod, err := mat.NewColumnVectorModule(uint(len(vals)), f)
	if err != nil {
		t.Fatalf("NewColumnVectorModule(%d): %v", len(vals), err)
	}
	es := make([]FE, len(vals))
	for i, v := range vals {
		es[i] = lx.FE(f, v)
	}
	col, err := mod.NewRowMajor(es...)
	if err != nil {
		t.Fatalf("NewRowMajor: %v", err)
	}
	return col
}

func bigsOf[FE algebra.PrimeFieldElement[FE]](es []FE) []*big.Int {
	out := make([]*big.Int, len(es))
	for i, e := range es {
		out[i] = lx.Big(e)
	}
	return out
}

func sumMod(q *big.Int, vs ...*big.Int) *big.Int {
	s := new(big.Int)
	for _, v := range vs {
		s.Add(s, v)
	}
	return s.Mod(s, q)
}

func mulMod(q, a, b *big.Int) *big.Int {
	r := new(big.Int).Mul(a, b)
	return r.Mod(r, q)
}

// order returns the members of mask in holder order, reversed when flip is set, so that the
// library sees shares in more than one order.
func order(mask uint64, flip bool) []int {
	m := policy.Members(mask)
	if flip {
		for i, j := 0, len(m)-1; i < j; i, j = i+1, j-1 {
			m[i], m[j] = m[j], m[i]
		}
	}
	return m
}
