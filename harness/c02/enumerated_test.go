package c02

import (
	"fmt"
	"hash/fnv"
	"math/big"
	"sort"
	"testing"

	"pgregory.net/rapid"

	"verif/harness/vlib"
	"verif/harness/vlib/policy"
)

func h64(parts ...any) uint64 {
	h := fnv.New64a()
	_, _ = h.Write([]byte(fmt.Sprint(parts...)))
	return h.Sum64()
}

func TestFieldOrders(t *testing.T) {
	for _, name := range fieldNames {
		want, _ := new(big.Int).SetString(ordersHex[name], 16)
		if !want.ProbablyPrime(20) {
			t.Fatalf("%s: typed-in order is not prime", name)
		}
		if envs[name].Q().Cmp(want) != 0 {
			t.Fatalf("%s: library field order %x, standard %x", name, envs[name].Q(), want)
		}
	}
}

// ---- ID maps for the enumerated scopes -------------------------------------------------------------

func ordinalIDs(n int) []uint64 {
	ids := make([]uint64, n)
	for i := range ids {
		ids[i] = uint64(i + 1)
	}
	return ids
}

// sparseIDs is one fixed injective, unsorted map into [1,64] (it contains 64, the largest ID the
// bitset-based code paths support). For hierarchical policies the values are sorted so that they
// increase from level to level and then reversed inside each level.
func sparseIDs(p *policy.Policy) []uint64 {
	base := []uint64{37, 5, 64, 12, 50, 3, 21, 44, 9, 60}
	ids := append([]uint64(nil), base[:p.N]...)
	if p.Family == policy.Hier {
		sort.Slice(ids, func(i, j int) bool { return ids[i] < ids[j] })
		for _, l := range p.Levels {
			m := l.Members
			for i, j := 0, len(m)-1; i < j; i, j = i+1, j-1 {
				ids[m[i]], ids[m[j]] = ids[m[j]], ids[m[i]]
			}
		}
	}
	return ids
}

// ---- TestEnumerated -----------------------------------------------------------------------------------

type enumItem struct {
	p      *policy.Policy
	regime string
	field  string
}

func enumeratedScope() ([]enumItem, []string) {
	var items []enumItem
	var what []string
	add := func(ps []*policy.Policy, allFields bool) {
		for j, p := range ps {
			for b, regime := range []string{policy.Ordinal, policy.Sparse} {
				if allFields {
					for _, f := range fieldNames {
						items = append(items, enumItem{p, regime, f})
					}
				} else {
					items = append(items, enumItem{p, regime, fieldNames[(j+2*b)%len(fieldNames)]})
				}
			}
		}
	}
	add(policy.AllThresholds(6), true)
	what = append(what, "every threshold(t,n) and unanimity(n), 2<=t<=n<=6, x 5 fields x {ordinal, sparse} IDs x every subset")
	maxCNF := 4
	if vlib.Thorough() {
		maxCNF = 5
	}
	for n := 2; n <= maxCNF; n++ {
		add(policy.AllCNF(n), false)
	}
	what = append(what, fmt.Sprintf("every antichain CNF policy over n<=%d holders x {ordinal, sparse} IDs x every subset", maxCNF))
	for n := 2; n <= 6; n++ {
		add(policy.AllHier(n), false)
	}
	what = append(what, "every hierarchical layout of n<=6 holders into <=3 levels x {ordinal, sparse} IDs x every subset")
	maxLeaves := 5
	if vlib.Thorough() {
		maxLeaves = 6
	}
	for n := 2; n <= 4; n++ {
		add(policy.AllGates(n, maxLeaves), false)
	}
	what = append(what, fmt.Sprintf("every gate tree of depth<=2 with <=%d leaves over n<=4 holders x {ordinal, sparse} IDs x every subset", maxLeaves))
	return items, what
}

func TestEnumerated(t *testing.T) {
	const test = "Enumerated"
	items, what := enumeratedScope()
	for i, it := range items {
		if !vlib.Mine(i) {
			continue
		}
		ids := ordinalIDs(it.p.N)
		if it.regime == policy.Sparse {
			ids = sparseIDs(it.p)
		}
		vlib.NoPanic(t, fmt.Sprintf("%v ids=%v over %s", it.p, ids, it.field), func() {
			c := newCase(t, test, it.p, ids, it.regime, h64(vlib.Seed(), it.p, ids, it.field))
			c.allSubsets()
			if it.p.Family == policy.Hier {
				if v := policy.TassaVerdict(it.p, ids, envs[it.field].Q()); v != +1 {
					t.Fatalf("%v: small hierarchical policy outside Tassa's bound (verdict %d)", c, v)
				}
			}
			checkPolicy(t, c)
			envs[it.field].KW(t, c)
		})
		if i%97 == 0 {
			vlib.Sample("enumerated", map[string]any{"policy": it.p.String(), "ids": ids, "field": it.field})
		}
	}
	for _, w := range what {
		vlib.Exhaustive(w)
	}
}

// TestKnownRedundantHolder observes the catalogued finding on its minimal input: the CNF structure
// with maximal unqualified sets {1,2},{1,3}. Shareholder 1 is in every maximal unqualified set;
// {1,2,3} is qualified (policy and IsQualified agree) but the span programme has no row for 1 and
// rejects every quorum that names it.
func TestKnownRedundantHolder(t *testing.T) {
	p := &policy.Policy{Family: policy.CNF, N: 3, MUS: []uint64{0b011, 0b101}}
	vlib.NoPanic(t, "redundant holder", func() {
		c := newCase(t, "KnownRedundantHolder", p, []uint64{1, 2, 3}, policy.Ordinal, 1)
		if !p.Qualified(p.Full()) || !c.ac.IsQualified(1, 2, 3) || p.RedundantHolders() != 1 {
			t.Fatalf("%v: oracle/IsQualified on {1,2,3}", c)
		}
		present := !envs["k256"].AcceptsFull(t, c)
		vlib.Known(knownRedundant, present, "cnf.NewCNFAccessStructure({1,2},{1,3}): IsQualified(1,2,3) = true but InducedMSP gives shareholder 1 no row, so MSP.Accepts(1,2,3) = kw.CanReconstruct(1,2,3) = false and kw.Deal hands 1 no share")
	})
}

// TestISNRedundantHolder is the regression test of the fixed finding
// C02-isn-empty-share-toadditive-panics: ISN over structures with a holder that lies in every
// maximal unqualified set (a CNF and a gate tree), every subset, all clauses of the ISN body.
func TestISNRedundantHolder(t *testing.T) {
	const test = "ISNRedundantHolder"
	cn := &policy.Policy{Family: policy.CNF, N: 3, MUS: []uint64{0b011, 0b101}}
	// AND(0, OR(0,1), 2) = "0 and 2": holder 1 is redundant; maximal unqualified sets {1,2}, {0,1}
	or := &policy.Node{Leaf: -1, T: 1, Children: []*policy.Node{{Leaf: 0}, {Leaf: 1}}}
	gt := &policy.Policy{Family: policy.Gate, N: 3, Root: &policy.Node{Leaf: -1, T: 3, Children: []*policy.Node{{Leaf: 0}, or, {Leaf: 2}}}}
	for _, p := range []*policy.Policy{cn, gt} {
		if p.RedundantHolders() == 0 {
			t.Fatalf("%v has no redundant holder", p)
		}
		for i, field := range fieldNames {
			if !vlib.Mine(i) {
				continue
			}
			ids := ordinalIDs(p.N)
			if i%2 == 1 {
				ids = sparseIDs(p)
			}
			vlib.NoPanic(t, fmt.Sprintf("isn over %v", p), func() {
				c := newCase(t, test, p, ids, policy.Ordinal, h64(vlib.Seed(), p, field))
				c.allSubsets()
				envs[field].ISN(t, c)
			})
		}
	}
}

// TestTassaLowerDegree is the regression test of the fixed finding C02-tassa-refuses-lower-degree
// on its minimal input and two neighbours: the Tassa body asserts that 0·shares and a+(q-1)·a
// reconstruct to 0 over every qualified subset.
func TestTassaLowerDegree(t *testing.T) {
	const test = "TassaLowerDegree"
	ps := []*policy.Policy{
		{Family: policy.Hier, N: 2, Levels: []policy.Level{{T: 2, Members: []int{0, 1}}}},
		{Family: policy.Hier, N: 3, Levels: []policy.Level{{T: 1, Members: []int{0}}, {T: 2, Members: []int{1, 2}}}},
		{Family: policy.Hier, N: 4, Levels: []policy.Level{{T: 1, Members: []int{0, 1}}, {T: 3, Members: []int{2, 3}}}},
	}
	for j, p := range ps {
		for i, field := range fieldNames {
			if !vlib.Mine(j*len(fieldNames) + i) {
				continue
			}
			vlib.NoPanic(t, fmt.Sprintf("tassa over %v", p), func() {
				c := newCase(t, test, p, ordinalIDs(p.N), policy.Ordinal, h64(vlib.Seed(), p, field))
				c.allSubsets()
				envs[field].Tassa(t, c)
			})
		}
	}
}

// TestKnownISNSoloHolder observes the catalogued finding on its minimal input: the gate tree
// OR(2, AND(1,3)); holder 2 is qualified alone and ISN deals it nothing.
func TestKnownISNSoloHolder(t *testing.T) {
	and := &policy.Node{Leaf: -1, T: 2, Children: []*policy.Node{{Leaf: 0}, {Leaf: 2}}}
	p := &policy.Policy{Family: policy.Gate, N: 3, Root: &policy.Node{Leaf: -1, T: 1, Children: []*policy.Node{{Leaf: 1}, and}}}
	vlib.NoPanic(t, "isn solo holder", func() {
		c := newCase(t, "KnownISNSoloHolder", p, []uint64{1, 2, 3}, policy.Ordinal, 1)
		if !p.Qualified(0b010) || !c.ac.IsQualified(2) {
			t.Fatalf("%v: holder 2 must be qualified alone", c)
		}
		present := envs["k256"].ISNSoloProbe(t, c, 1)
		vlib.Known(knownISNSolo, present, "isn.NewFiniteScheme over boolexpr OR(2, AND(1,3)): shareholder 2 is qualified alone (IsQualified(2) = true) but is not among the scheme's Shareholders(), is dealt no share and CanReconstruct(2) = false, because cnf.ConvertToCNF takes the union of the maximal unqualified sets {1},{3} as the shareholder universe")
	})
}

// ---- drawn policies --------------------------------------------------------------------------------------

// drawCase draws policy, ID regime, IDs, field and subsets. Hierarchical policies whose IDs fall
// outside Tassa's bound (verdict != +1) are re-drawn with sparse IDs: the dealing clauses range
// over admitted policies only, refusal is TestTassaAdmission's subject.
func drawCase(t *rapid.T, test string, maxN int, o policy.Opts, fullUpTo, nSubsets int, regimes ...string) (*pcase, string) {
	o.MaxN = maxN
	return caseFor(t, test, policy.Draw(t, o), fullUpTo, nSubsets, regimes...)
}

// caseFor completes a drawn policy to a case (ID regime, IDs, field, subsets).
func caseFor(t *rapid.T, test string, p *policy.Policy, fullUpTo, nSubsets int, regimes ...string) (*pcase, string) {
	if len(regimes) == 0 {
		regimes = []string{policy.Ordinal, policy.Sparse, policy.Large}
	}
	regime := rapid.SampledFrom(regimes).Draw(t, "regime")
	field := rapid.SampledFrom(fieldNames).Draw(t, "field")
	ids := policy.DrawIDs(t, p, regime)
	if p.Family == policy.Hier && policy.TassaVerdict(p, ids, envs[field].Q()) != +1 {
		vlib.Class(test, "hier.largeIDs=outside-bound,redrawn-sparse")
		regime = policy.Sparse
		ids = policy.DrawIDs(t, p, regime)
		if v := policy.TassaVerdict(p, ids, envs[field].Q()); v != +1 {
			t.Fatalf("%v ids %v: verdict %d under sparse IDs", p, ids, v)
		}
	}
	c := newCase(t, test, p, ids, regime, rapid.Uint64().Draw(t, "seed"))
	switch {
	case p.N <= fullUpTo:
		c.allSubsets()
	case p.N > 12:
		c.subsets = walkSubsets(t, p, nSubsets) // no 2^N enumeration
	default:
		c.subsets = drawSubsets(t, p, nSubsets)
	}
	return c, field
}

// ---- low-weight tail of LARGER policies ---------------------------------------------------------------
//
// vlib/policy.Draw is bounded by MaxN (<= 7 in the quick tier), gate fan-in <= 4, <= 3 hierarchy
// levels and <= 5 CNF clauses. The library imposes none of these limits (its own limits: IDs <= 64
// for ISN and for MaximalUnqualifiedSetsIter of hierarchical / gate structures, top threshold + 1
// <= 20 and Tassa's field-size bound for hierarchical structures). bigPolicy draws policies past
// the small ranges: 9..17 holders (33 where the check body needs no 2^N enumeration), 1..5 levels,
// gates with fan-in up to 9, up to 10 CNF clauses. The oracles are unchanged (policy.Qualified and
// the reference algebra); only the subset selection avoids enumerating 2^N masks above 12 holders
// (walkSubsets). readMSP / ISN still enumerate 2^N once per case (policy.RedundantHolders,
// MaximalUnqualified), which is what caps KW, Feldman and Pedersen at 17 holders.

var bigHolders = []int{9, 12, 13, 16, 17}

// bigPolicy returns nil (the usual generator applies) except once in oneIn draws.
func bigPolicy(t *rapid.T, oneIn int, fams []string, sizes []int, hierKMax int, allowSolo bool) *policy.Policy {
	if rapid.IntRange(1, oneIn).Draw(t, "big?") != oneIn {
		return nil
	}
	fam := rapid.SampledFrom(fams).Draw(t, "bigFamily")
	n := rapid.SampledFrom(sizes).Draw(t, "bigN")
	switch fam {
	case policy.Threshold:
		T := rapid.SampledFrom([]int{2, 3, n / 2, n/2 + 1, n - 1, n}).Draw(t, "bigT")
		return &policy.Policy{Family: policy.Threshold, N: n, T: T}
	case policy.Unanimity:
		return &policy.Policy{Family: policy.Unanimity, N: n}
	case policy.Hier:
		return bigHier(t, n, hierKMax)
	case policy.CNF:
		return bigCNF(t, min(n, 12))
	case policy.Gate:
		return bigGate(t, n, allowSolo)
	}
	panic("family")
}

// bigHier: n holders in 1..5 consecutive levels, strictly increasing cumulative thresholds, each
// at most the cumulative member count and the last at most kMax (>= 5).
func bigHier(t *rapid.T, n, kMax int) *policy.Policy {
	nl := rapid.IntRange(1, min(5, n)).Draw(t, "bigLevels")
	cuts := map[int]bool{}
	for len(cuts) < nl-1 {
		cuts[rapid.IntRange(1, n-1).Draw(t, fmt.Sprintf("bigCut%d", len(cuts)))] = true
	}
	var ends []int
	for c := range cuts {
		ends = append(ends, c)
	}
	sort.Ints(ends)
	ends = append(ends, n)
	var levels []policy.Level
	start, prevT := 0, 0
	for li, end := range ends {
		var mem []int
		for i := start; i < end; i++ {
			mem = append(mem, i)
		}
		remaining := len(ends) - 1 - li
		lo, hi := prevT+1, min(end, kMax)-remaining
		if nl == 1 {
			lo = 2 // (1; all) makes every singleton qualified: refused by design
		}
		if hi < lo {
			hi = lo
		}
		// mostly an end of the admissible range: the top threshold then sits at n or kMax
		T := rapid.OneOf(rapid.IntRange(lo, hi), rapid.SampledFrom([]int{lo, hi, hi})).Draw(t, fmt.Sprintf("bigT%d", li))
		levels = append(levels, policy.Level{T: T, Members: mem})
		prevT, start = T, end
	}
	return &policy.Policy{Family: policy.Hier, N: n, Levels: levels}
}

func maximalSets(sets []uint64) []uint64 {
	var out []uint64
	for i, s := range sets {
		keep := true
		for j, u := range sets {
			if i != j && s&^u == 0 && (s != u || j < i) {
				keep = false
				break
			}
		}
		if keep {
			out = append(out, s)
		}
	}
	sort.Slice(out, func(i, j int) bool { return out[i] < out[j] })
	return out
}

// bigCNF: 6..10 drawn unqualified sets over n <= 12 holders, completed and cleaned like
// policy.Draw does (every holder in some set, no holder in every set).
func bigCNF(t *rapid.T, n int) *policy.Policy {
	full := (uint64(1) << uint(n)) - 1
	k := rapid.IntRange(6, 10).Draw(t, "bigClauses")
	var sets []uint64
	for i := 0; i < k; i++ {
		sets = append(sets, rapid.Uint64Range(1, full-1).Draw(t, fmt.Sprintf("bigMus%d", i)))
	}
	var union uint64
	for _, s := range sets {
		union |= s
	}
	for i := 0; i < n; i++ {
		if union&(1<<uint(i)) == 0 {
			sets = append(sets, 1<<uint(i))
		}
	}
	return policy.DropRedundantCNF(&policy.Policy{Family: policy.CNF, N: n, MUS: maximalSets(sets)})
}

// bigGate: a root gate with 5..9 children, each a leaf or a gate with 2..6 leaf children (one of
// them possibly a further gate): fan-in and leaf counts above policy.Draw's 2..4.
func bigGate(t *rapid.T, n int, allowSolo bool) *policy.Policy {
	var gate func(name string, lo, hi, depth int) *policy.Node
	gate = func(name string, lo, hi, depth int) *policy.Node {
		k := rapid.IntRange(lo, hi).Draw(t, name+".k")
		node := &policy.Node{Leaf: -1}
		used := map[int]bool{}
		for i := 0; i < k; i++ {
			if depth > 0 && rapid.IntRange(0, 3).Draw(t, fmt.Sprintf("%s.%d.gate?", name, i)) == 0 {
				node.Children = append(node.Children, gate(fmt.Sprintf("%s.%d", name, i), 2, 6, depth-1))
				continue
			}
			l := rapid.IntRange(0, n-1).Draw(t, fmt.Sprintf("%s.%d.leaf", name, i))
			if used[l] { // the library forbids a repeated attribute under one gate
				continue
			}
			used[l] = true
			node.Children = append(node.Children, &policy.Node{Leaf: l})
		}
		node.T = rapid.IntRange(1, len(node.Children)).Draw(t, name+".T")
		return node
	}
	var usedMask func(nd *policy.Node) uint64
	usedMask = func(nd *policy.Node) uint64 {
		if nd.Leaf >= 0 {
			return 1 << uint(nd.Leaf)
		}
		var m uint64
		for _, c := range nd.Children {
			m |= usedMask(c)
		}
		return m
	}
	var relabel func(nd *policy.Node, m map[int]int)
	relabel = func(nd *policy.Node, m map[int]int) {
		if nd.Leaf >= 0 {
			nd.Leaf = m[nd.Leaf]
			return
		}
		for _, c := range nd.Children {
			relabel(c, m)
		}
	}
	for attempt := 0; attempt < 8; attempt++ {
		root := gate(fmt.Sprintf("bg%d", attempt), 5, 9, 2)
		remap := map[int]int{}
		for _, i := range policy.Members(usedMask(root)) {
			remap[i] = len(remap)
		}
		relabel(root, remap)
		p := &policy.Policy{Family: policy.Gate, N: len(remap), Root: root}
		if p.N >= 2 && !p.AllSingletonsQualified() && (allowSolo || !p.SingletonQualified()) {
			return p
		}
	}
	// fall back to one wide threshold gate over n distinct leaves
	root := &policy.Node{Leaf: -1, T: rapid.IntRange(2, n).Draw(t, "bgT")}
	for i := 0; i < n; i++ {
		root.Children = append(root.Children, &policy.Node{Leaf: i})
	}
	return &policy.Policy{Family: policy.Gate, N: n, Root: root}
}

// walkSubsets selects subsets of a large holder set without enumerating 2^N masks: empty, full,
// drawn masks, and for each drawn mask the minimal qualified set reached by removing holders (in
// a drawn order) while the set stays qualified, resp. the maximal unqualified set reached by adding
// holders while it stays unqualified, plus a one-off neighbour of each. Only policy.Qualified is used.
func walkSubsets(t *rapid.T, p *policy.Policy, n int) []uint64 {
	seen := map[uint64]bool{}
	var out []uint64
	add := func(s uint64) {
		s &= p.Full()
		if !seen[s] {
			seen[s] = true
			out = append(out, s)
		}
	}
	add(0)
	add(p.Full())
	for tries := 0; len(out) < n && tries < 4*n; tries++ {
		s := rapid.Uint64Range(0, p.Full()).Draw(t, "walkStart")
		perm := rapid.Permutation(policy.Members(p.Full())).Draw(t, "walkOrder")
		add(s)
		if p.Qualified(s) {
			for _, i := range perm {
				if s&(1<<uint(i)) != 0 && p.Qualified(s&^(1<<uint(i))) {
					s &^= 1 << uint(i)
				}
			}
		} else {
			for _, i := range perm {
				if s&(1<<uint(i)) == 0 && !p.Qualified(s|1<<uint(i)) {
					s |= 1 << uint(i)
				}
			}
		}
		add(s) // minimal qualified resp. maximal unqualified
		add(s ^ 1<<uint(perm[0]))
	}
	return out
}

// drawSubsets: empty, full, up to 12 minimal qualified and 12 maximal unqualified sets (chosen by
// a drawn rotation), their one-off neighbours, and uniformly drawn masks.
func drawSubsets(t *rapid.T, p *policy.Policy, n int) []uint64 {
	seen := map[uint64]bool{}
	var out []uint64
	add := func(s uint64) {
		s &= p.Full()
		if !seen[s] {
			seen[s] = true
			out = append(out, s)
		}
	}
	add(0)
	add(p.Full())
	for _, list := range [][]uint64{p.MinimalQualified(), p.MaximalUnqualified()} {
		if len(list) == 0 {
			continue
		}
		off := rapid.IntRange(0, len(list)-1).Draw(t, "rot")
		for k := 0; k < len(list) && k < 12; k++ {
			s := list[(off+k)%len(list)]
			add(s)
			i := uint(rapid.IntRange(0, p.N-1).Draw(t, "flip"))
			add(s ^ 1<<i)
		}
	}
	if p.N < 20 && uint64(n) > p.Full()+1 {
		n = int(p.Full() + 1)
	}
	for len(out) < n {
		add(rapid.Uint64Range(0, p.Full()).Draw(t, "subset"))
	}
	return out
}

func TestDrawn(t *testing.T) {
	const test = "Drawn"
	maxN, depth := 7, 2
	if vlib.Thorough() {
		maxN, depth = 9, 3
	}
	vlib.Check(t, 480, func(t *rapid.T) {
		solo := rapid.IntRange(0, 4).Draw(t, "solo") == 0
		var c *pcase
		var field string
		if p := bigPolicy(t, 12, []string{policy.Threshold, policy.Unanimity, policy.CNF, policy.Hier, policy.Gate}, bigHolders, 9, solo); p != nil {
			c, field = caseFor(t, test, p, 6, 32)
			vlib.Class(test, "generator=big-policy")
		} else {
			c, field = drawCase(t, test, maxN, policy.Opts{MaxDepth: depth, AllowSolo: solo}, 6, 56)
		}
		c.heavy = c.p.N <= 6
		checkPolicy(t, c)
		envs[field].KW(t, c)
		vlib.Sample("drawn", map[string]any{"policy": c.p.String(), "ids": c.ids, "field": field, "subsets": len(c.subsets)})
	})
}

// ---- clause (c) ---------------------------------------------------------------------------------------------

func TestPrivacyWitness(t *testing.T) {
	const test = "PrivacyWitness"
	vlib.Check(t, 400, func(t *rapid.T) {
		// up to 6 holders, one case in 12 up to 12 (the body enumerates all 2^N subsets once)
		maxN := 6
		if rapid.IntRange(1, 12).Draw(t, "moreHolders") == 12 {
			maxN = 12
		}
		c, field := drawCase(t, test, maxN, policy.Opts{MaxDepth: 2, AllowSolo: rapid.IntRange(0, 4).Draw(t, "solo") == 0}, 0, 0)
		// unqualified non-empty subsets in a drawn order; maximal unqualified sets first
		var un []uint64
		for _, s := range c.p.MaximalUnqualified() {
			if s != 0 {
				un = append(un, s)
			}
		}
		mu := len(un)
		for s := uint64(1); s <= c.p.Full(); s++ {
			if !c.p.Qualified(s) && classify(c.p, s) != "maxU" {
				un = append(un, s)
			}
		}
		if len(un) == 0 {
			t.Skip("no non-empty unqualified set")
		}
		off := rapid.IntRange(0, len(un)-1).Draw(t, "off")
		c.subsets = nil
		if mu > 0 {
			c.subsets = append(c.subsets, un[off%mu])
		}
		for k := 0; k < 3 && k < len(un); k++ {
			c.subsets = append(c.subsets, un[(off+k)%len(un)])
		}
		if n := envs[field].Witness(t, c, 4); n == 0 {
			t.Fatalf("%v: no witness examined", c)
		}
	})
}

