package c02

import (
	"fmt"
	"math/big"

	"github.com/bronlabs/bron-crypto/pkg/base/datastructures/bitset"
	"github.com/bronlabs/bron-crypto/pkg/commitments/pedersencom"
	"github.com/bronlabs/bron-crypto/pkg/mpc/sharing"
	"github.com/bronlabs/bron-crypto/pkg/mpc/sharing/accessstructures"
	"github.com/bronlabs/bron-crypto/pkg/mpc/sharing/accessstructures/hierarchical"
	"github.com/bronlabs/bron-crypto/pkg/mpc/sharing/accessstructures/threshold"
	"github.com/bronlabs/bron-crypto/pkg/mpc/sharing/accessstructures/unanimity"
	"github.com/bronlabs/bron-crypto/pkg/mpc/sharing/scheme/additive"
	"github.com/bronlabs/bron-crypto/pkg/mpc/sharing/scheme/isn"
	"github.com/bronlabs/bron-crypto/pkg/mpc/sharing/scheme/kw"
	"github.com/bronlabs/bron-crypto/pkg/mpc/sharing/scheme/shamir"
	"github.com/bronlabs/bron-crypto/pkg/mpc/sharing/scheme/tassa"
	"github.com/bronlabs/bron-crypto/pkg/mpc/sharing/vss/feldman"
	"github.com/bronlabs/bron-crypto/pkg/mpc/sharing/vss/pedersen"
	"verif/harness/vlib"
	"verif/harness/vlib/lx"
	"verif/harness/vlib/policy"
	"verif/harness/vlib/refmat"
)

// scalarFor picks the multiplier of the linearity clause.
func scalarFor(q *big.Int, seed uint64) *big.Int {
	ks := []*big.Int{big.NewInt(0), big.NewInt(1), big.NewInt(2), new(big.Int).Sub(q, big.NewInt(1)), drawnBig(q, seed, "scalar")}
	return ks[int(seed%uint64(len(ks)))]
}

func idsBig(ids []uint64, members []int) []*big.Int {
	out := make([]*big.Int, len(members))
	for i, h := range members {
		out[i] = new(big.Int).SetUint64(ids[h])
	}
	return out
}

func unitVec(n int) []*big.Int {
	v := make([]*big.Int, n)
	for i := range v {
		v[i] = new(big.Int)
	}
	v[0].SetInt64(1)
	return v
}

// additiveSum converts every member's share over the quorum S and returns the sum of the parts.
// conv returns the additive value of holder h or an error.
func (c *pcase) additiveSum(t T, q *big.Int, s uint64, members []int, conv func(h int, quorum *unanimity.Unanimity) (*big.Int, error)) (*big.Int, error) {
	quorum, err := policy.UnanimityOf(c.ids, s)
	if err != nil {
		return nil, err
	}
	var parts []*big.Int
	for _, h := range members {
		v, err := conv(h, quorum)
		if err != nil {
			return nil, fmt.Errorf("holder %d: %w", c.ids[h], err)
		}
		parts = append(parts, v)
	}
	return sumMod(q, parts...), nil
}

// ---- Shamir ------------------------------------------------------------------------------------------

func (e *env[E, FE]) Shamir(t T, c *pcase) {
	t.Helper()
	f, q := e.f, e.q
	th, ok := c.ac.(*threshold.Threshold)
	if !ok {
		t.Fatalf("%v: not a threshold structure", c)
	}
	scheme, err := shamir.NewScheme(f, th)
	if err != nil {
		t.Fatalf("%v: shamir.NewScheme: %v", c, err)
	}
	type deal struct {
		class  string
		s      *big.Int
		shares []*shamir.Share[FE]
	}
	dealOne := func(class string, s *big.Int, label string) *deal {
		out, poly, err := scheme.DealAndRevealDealerFunc(shamir.NewSecret(lx.FE(f, s)), vlib.NewPRNG(c.seed, label))
		if err != nil {
			t.Fatalf("%v: shamir Deal: %v", c, err)
		}
		coef := bigsOf(poly.Coefficients())
		if len(coef) == 0 || len(coef) > c.p.T || coef[0].Cmp(s) != 0 {
			t.Fatalf("%v: dealer polynomial has %d coefficients (threshold %d), constant term %v, secret %v", c, len(coef), c.p.T, coef, s)
		}
		d := &deal{class: class, s: s, shares: make([]*shamir.Share[FE], c.p.N)}
		if out.Shares().Size() != c.p.N {
			t.Fatalf("%v: %d shares", c, out.Shares().Size())
		}
		for h, id := range c.ids {
			sh, ok := out.Shares().Get(sharing.ID(id))
			if !ok || sh.ID() != sharing.ID(id) {
				t.Fatalf("%v: share of %d missing or mislabelled", c, id)
			}
			if want := refmat.PolyEval(coef, new(big.Int).SetUint64(id), q); lx.Big(sh.Value()).Cmp(want) != 0 {
				t.Fatalf("%v over %s: share of %d = %v, reference f(%d) = %v", c, e.name, id, lx.Big(sh.Value()), id, want)
			}
			d.shares[h] = sh
		}
		return d
	}
	var deals []*deal
	for _, cl := range secretClasses {
		deals = append(deals, dealOne(cl, secretOf(cl, q, c.seed), "shamir/"+cl))
	}
	A, B := deals[3], dealOne("drawn", drawnBig(q, c.seed, "secretB"), "shamir/B")
	k := scalarFor(q, c.seed)
	sum, scaled := make([]*shamir.Share[FE], c.p.N), make([]*shamir.Share[FE], c.p.N)
	for h := range c.ids {
		sum[h], scaled[h] = A.shares[h].Add(B.shares[h]), A.shares[h].ScalarMul(lx.FE(f, k))
	}
	for idx, s := range c.subsets {
		want := c.p.Qualified(s)
		ids := c.idsOf(s)
		d := deals[idx%4]
		members := order(s, idx%2 == 1)
		if got := scheme.CanReconstruct(ids...); got != want {
			t.Fatalf("%v: shamir CanReconstruct(%v) = %v, policy says %v", c, ids, got, want)
		}
		// privacy criterion on the reference Vandermonde rows
		if s != 0 {
			v := refmat.Vandermonde(q, idsBig(c.ids, policy.Members(s)), c.p.T)
			if got := v.RowSpanContains(unitVec(c.p.T)); got != want {
				t.Fatalf("%v over %s: e0 in span of Vandermonde rows of %v = %v, policy says %v", c, e.name, ids, got, want)
			}
		}
		sec, err := scheme.Reconstruct(pick(d.shares, members)...)
		s1, err1 := scheme.Reconstruct(pick(sum, members)...)
		s2, err2 := scheme.Reconstruct(pick(scaled, members)...)
		if want {
			if err != nil || err1 != nil || err2 != nil {
				t.Fatalf("%v: shamir Reconstruct(%v): %v %v %v", c, ids, err, err1, err2)
			}
			if got := lx.Big(sec.Value()); got.Cmp(d.s) != 0 {
				t.Fatalf("%v over %s: shamir Reconstruct(%v) = %v, dealt %v", c, e.name, ids, got, d.s)
			}
			if got := lx.Big(s1.Value()); got.Cmp(sumMod(q, A.s, B.s)) != 0 {
				t.Fatalf("%v: shamir sum of shares over %v reconstructs to %v", c, ids, got)
			}
			if got := lx.Big(s2.Value()); got.Cmp(mulMod(q, A.s, k)) != 0 {
				t.Fatalf("%v: shamir %v·shares over %v reconstructs to %v", c, k, ids, got)
			}
			got, err := c.additiveSum(t, q, s, members, func(h int, quorum *unanimity.Unanimity) (*big.Int, error) {
				a, err := scheme.ConvertShareToAdditive(d.shares[h], quorum)
				if err != nil {
					return nil, err
				}
				if a.ID() != sharing.ID(c.ids[h]) {
					t.Fatalf("%v: additive share ID", c)
				}
				return lx.Big(a.Value()), nil
			})
			if err != nil || got.Cmp(d.s) != 0 {
				t.Fatalf("%v over %s: shamir additive shares over %v sum to %v (err %v), secret %v", c, e.name, ids, got, err, d.s)
			}
		} else {
			if err == nil || err1 == nil || err2 == nil {
				t.Fatalf("%v over %s: shamir Reconstruct from UNqualified %v succeeds", c, e.name, ids)
			}
			if len(members) >= 2 { // outside the property: only "no panic"
				_, _ = c.additiveSum(t, q, s, members, func(h int, quorum *unanimity.Unanimity) (*big.Int, error) {
					a, err := scheme.ConvertShareToAdditive(d.shares[h], quorum)
					if err != nil {
						return nil, err
					}
					return lx.Big(a.Value()), nil
				})
			}
		}
		c.record("shamir", e.name, d.class, s)
	}
	// foreign holder
	if fs, err := shamir.NewShare(c.stranger(), A.shares[0].Value(), nil); err == nil {
		if sec, err := scheme.Reconstruct(append(pick(A.shares, order(c.p.Full(), false)), fs)...); err == nil {
			t.Fatalf("%v: shamir Reconstruct with a non-shareholder's share returns %v", c, lx.Big(sec.Value()))
		}
	}
	if _, err := shamir.NewShare(c.stranger(), A.shares[0].Value(), th); err == nil {
		t.Fatalf("%v: shamir.NewShare accepts non-shareholder %d", c, c.stranger())
	}
}

// ---- additive -------------------------------------------------------------------------------------------

func (e *env[E, FE]) Additive(t T, c *pcase) {
	t.Helper()
	f, q := e.f, e.q
	un, ok := c.ac.(*unanimity.Unanimity)
	if !ok {
		t.Fatalf("%v: not a unanimity structure", c)
	}
	scheme, err := additive.NewScheme[FE](f, un)
	if err != nil {
		t.Fatalf("%v: additive.NewScheme: %v", c, err)
	}
	gscheme, err := additive.NewScheme[E](e.g, un)
	if err != nil {
		t.Fatalf("%v: additive.NewScheme over the group: %v", c, err)
	}
	dealOne := func(s *big.Int, label string) []*additive.Share[FE] {
		sec, err := additive.NewSecret(lx.FE(f, s))
		if err != nil {
			t.Fatalf("NewSecret: %v", err)
		}
		out, err := scheme.Deal(sec, vlib.NewPRNG(c.seed, label))
		if err != nil {
			t.Fatalf("%v: additive Deal: %v", c, err)
		}
		shares := make([]*additive.Share[FE], c.p.N)
		var vals []*big.Int
		for h, id := range c.ids {
			sh, ok := out.Shares().Get(sharing.ID(id))
			if !ok || sh.ID() != sharing.ID(id) {
				t.Fatalf("%v: additive share of %d missing", c, id)
			}
			shares[h] = sh
			vals = append(vals, lx.Big(sh.Value()))
		}
		if got := sumMod(q, vals...); got.Cmp(s) != 0 || out.Shares().Size() != c.p.N {
			t.Fatalf("%v over %s: additive shares sum to %v, secret %v", c, e.name, got, s)
		}
		return shares
	}
	var deals [][]*additive.Share[FE]
	var secrets []*big.Int
	for _, cl := range secretClasses {
		s := secretOf(cl, q, c.seed)
		secrets = append(secrets, s)
		deals = append(deals, dealOne(s, "additive/"+cl))
	}
	bS := drawnBig(q, c.seed, "secretB")
	B := dealOne(bS, "additive/B")
	k := scalarFor(q, c.seed)
	sum, scaled := make([]*additive.Share[FE], c.p.N), make([]*additive.Share[FE], c.p.N)
	for h := range c.ids {
		sum[h], scaled[h] = deals[3][h].Add(B[h]), deals[3][h].ScalarOp(lx.FE(f, k))
	}
	// over the group: the secret is the point [s]G
	gsec, _ := additive.NewSecret(e.g.ScalarBaseOp(lx.FE(f, secrets[3])))
	gout, err := gscheme.Deal(gsec, vlib.NewPRNG(c.seed, "additive/group"))
	if err != nil {
		t.Fatalf("%v: additive Deal over the group: %v", c, err)
	}
	gshares := make([]*additive.Share[E], c.p.N)
	for h, id := range c.ids {
		gshares[h], _ = gout.Shares().Get(sharing.ID(id))
	}
	for idx, s := range c.subsets {
		want := c.p.Qualified(s)
		ids := c.idsOf(s)
		members := order(s, idx%2 == 1)
		if got := un.IsQualified(ids...); got != want {
			t.Fatalf("%v: unanimity IsQualified(%v) = %v", c, ids, got)
		}
		var sec *additive.Secret[FE]
		var err error
		if len(members) > 0 { // Reconstruct of nothing is outside the scheme's domain
			sec, err = scheme.Reconstruct(pick(deals[idx%4], members)...)
		} else {
			vlib.NoPanic(t, "additive Reconstruct()", func() { sec, err = scheme.Reconstruct() })
		}
		if want {
			if err != nil || lx.Big(sec.Value()).Cmp(secrets[idx%4]) != 0 {
				t.Fatalf("%v over %s: additive Reconstruct(all) = %v (err %v), dealt %v", c, e.name, sec, err, secrets[idx%4])
			}
			s1, err1 := scheme.Reconstruct(pick(sum, members)...)
			s2, err2 := scheme.Reconstruct(pick(scaled, members)...)
			if err1 != nil || err2 != nil || lx.Big(s1.Value()).Cmp(sumMod(q, secrets[3], bS)) != 0 || lx.Big(s2.Value()).Cmp(mulMod(q, secrets[3], k)) != 0 {
				t.Fatalf("%v: additive linearity fails (%v, %v)", c, err1, err2)
			}
			gs, err := gscheme.Reconstruct(pick(gshares, members)...)
			if err != nil || !gs.Value().Equal(gsec.Value()) {
				t.Fatalf("%v over %s: additive sharing of a group element does not reconstruct (err %v)", c, e.name, err)
			}
		} else {
			if err == nil {
				t.Fatalf("%v over %s: additive Reconstruct from %v (a share is missing) returns %v", c, e.name, ids, lx.Big(sec.Value()))
			}
			if len(members) > 0 {
				if gs, err := gscheme.Reconstruct(pick(gshares, members)...); err == nil {
					t.Fatalf("%v: additive Reconstruct over the group from %v returns %v", c, ids, gs.Value())
				}
			}
		}
		c.record("additive", e.name, secretClasses[idx%4], s)
	}
	// a repeated share and a foreign share
	all := pick(deals[3], order(c.p.Full(), false))
	if sec, err := scheme.Reconstruct(append(all[:len(all)-1:len(all)-1], all[0])...); err == nil {
		t.Fatalf("%v: additive Reconstruct with a repeated share returns %v", c, lx.Big(sec.Value()))
	}
	if fs, err := additive.NewShare(c.stranger(), f.One(), nil); err == nil {
		if sec, err := scheme.Reconstruct(append(append([]*additive.Share[FE]{}, all...), fs)...); err == nil {
			t.Fatalf("%v: additive Reconstruct with a non-shareholder's share returns %v", c, lx.Big(sec.Value()))
		}
	}
	if _, err := additive.NewShare(c.stranger(), f.One(), un); err == nil {
		t.Fatalf("%v: additive.NewShare accepts a non-shareholder", c)
	}
}

// ---- ISN ----------------------------------------------------------------------------------------------------

// knownISNSolo: ISN (through cnf.ConvertToCNF) takes the union of the maximal unqualified sets as
// the shareholder universe; a holder that is qualified on its own lies in none of them, is not a
// shareholder of the scheme and is dealt no share.
const knownISNSolo = "C02-isn-solo-holder-no-share"

// ISNSoloProbe reports whether ISN over the case's structure lacks holder h: (not among the
// scheme's shareholders or not dealt a share or not accepted alone although qualified alone).
func (e *env[E, FE]) ISNSoloProbe(t T, c *pcase, h int) bool {
	t.Helper()
	scheme, err := isn.NewFiniteScheme[FE](e.f, c.ac)
	if err != nil {
		t.Fatalf("%v: isn.NewFiniteScheme: %v", c, err)
	}
	out, err := scheme.Deal(isn.NewSecret(e.f.One()), vlib.NewPRNG(c.seed, "isn/solo"))
	if err != nil {
		t.Fatalf("%v: isn Deal: %v", c, err)
	}
	id := sharing.ID(c.ids[h])
	_, dealt := out.Shares().Get(id)
	return !scheme.Shareholders().Contains(id) || !dealt || !scheme.CanReconstruct(id)
}

func (e *env[E, FE]) ISN(t T, c *pcase) {
	t.Helper()
	f, q := e.f, e.q
	if c.maxID() > 64 {
		t.Fatalf("%v: ISN is keyed by 64-bit bitsets", c)
	}
	scheme, err := isn.NewFiniteScheme[FE](f, c.ac)
	if err != nil {
		t.Fatalf("%v: isn.NewFiniteScheme: %v", c, err)
	}
	mus := c.p.MaximalUnqualified()
	redundant := c.p.RedundantHolders()
	type deal struct {
		s      *big.Int
		shares []*isn.Share[FE]
	}
	keyMask := func(k bitset.ImmutableBitSet[sharing.ID]) uint64 {
		m, ok := c.maskOf(k.List())
		if !ok {
			t.Fatalf("%v: ISN piece key %v names a non-shareholder", c, k.List())
		}
		return m
	}
	dealOne := func(s *big.Int, label string) *deal {
		out, df, err := scheme.DealAndRevealDealerFunc(isn.NewSecret(lx.FE(f, s)), vlib.NewPRNG(c.seed, label))
		if err != nil {
			t.Fatalf("%v: isn Deal: %v", c, err)
		}
		// one piece per maximal unqualified set, pieces sum to the secret
		pieces := map[uint64]*big.Int{}
		var vals []*big.Int
		for k, v := range df {
			pieces[keyMask(k)] = lx.Big(v)
			vals = append(vals, lx.Big(v))
		}
		if len(pieces) != len(mus) || len(df) != len(mus) {
			t.Fatalf("%v: ISN dealt %d pieces, policy has %d maximal unqualified sets", c, len(df), len(mus))
		}
		for _, u := range mus {
			if pieces[u] == nil {
				t.Fatalf("%v: no ISN piece for maximal unqualified set %v", c, policy.Members(u))
			}
		}
		if got := sumMod(q, vals...); got.Cmp(s) != 0 {
			t.Fatalf("%v over %s: ISN pieces sum to %v, secret %v", c, e.name, got, s)
		}
		d := &deal{s: s, shares: make([]*isn.Share[FE], c.p.N)}
		for h, id := range c.ids {
			sh, ok := out.Shares().Get(sharing.ID(id))
			if !ok || sh.ID() != sharing.ID(id) {
				t.Fatalf("%v: ISN share of %d missing", c, id)
			}
			// holder h holds exactly the pieces of the sets it does not belong to
			held := map[uint64]bool{}
			for k, v := range sh.Value().Iter() {
				mk := keyMask(k)
				held[mk] = true
				if mk&(1<<uint(h)) != 0 {
					t.Fatalf("%v: holder %d holds the piece of maximal unqualified set %v it belongs to [privacy]", c, id, policy.Members(mk))
				}
				if pieces[mk] == nil || pieces[mk].Cmp(lx.Big(v)) != 0 {
					t.Fatalf("%v: holder %d holds a piece that was not dealt", c, id)
				}
			}
			for _, u := range mus {
				if u&(1<<uint(h)) == 0 && !held[u] {
					t.Fatalf("%v: holder %d lacks the piece of %v", c, id, policy.Members(u))
				}
			}
			if (len(held) == 0) != (redundant&(1<<uint(h)) != 0) {
				t.Fatalf("%v: holder %d holds %d pieces, redundant holders are %b", c, id, len(held), redundant)
			}
			if len(held) == 0 {
				vlib.Class(c.test, "isn.redundant-holder.share=empty")
			}
			d.shares[h] = sh
		}
		return d
	}
	var deals []*deal
	for _, cl := range secretClasses {
		deals = append(deals, dealOne(secretOf(cl, q, c.seed), "isn/"+cl))
	}
	A, B := deals[3], dealOne(drawnBig(q, c.seed, "secretB"), "isn/B")
	k := scalarFor(q, c.seed)
	sum, scaled := make([]*isn.Share[FE], c.p.N), make([]*isn.Share[FE], c.p.N)
	for h := range c.ids {
		sum[h], scaled[h] = A.shares[h].Op(B.shares[h]), A.shares[h].ScalarOp(lx.FE(f, k))
	}
	for idx, s := range c.subsets {
		want := c.p.Qualified(s)
		ids := c.idsOf(s)
		d := deals[idx%4]
		members := order(s, idx%2 == 1)
		if got := scheme.CanReconstruct(ids...); got != want {
			t.Fatalf("%v: isn CanReconstruct(%v) = %v, policy says %v", c, ids, got, want)
		}
		// privacy: an unqualified set misses at least one piece entirely
		seen := map[uint64]bool{}
		for _, h := range members {
			for k := range d.shares[h].Value().Iter() {
				seen[keyMask(k)] = true
			}
		}
		if (len(seen) == len(mus)) != want {
			t.Fatalf("%v over %s: %v sees %d of %d ISN pieces, policy says qualified = %v [privacy]", c, e.name, ids, len(seen), len(mus), want)
		}
		var sec *isn.Secret[FE]
		var err error
		vlib.NoPanic(t, "isn Reconstruct", func() { sec, err = scheme.Reconstruct(pick(d.shares, members)...) })
		if want {
			if err != nil || lx.Big(sec.Value()).Cmp(d.s) != 0 {
				t.Fatalf("%v over %s: isn Reconstruct(%v) = %v (err %v), dealt %v", c, e.name, ids, sec, err, d.s)
			}
			s1, err1 := scheme.Reconstruct(pick(sum, members)...)
			s2, err2 := scheme.Reconstruct(pick(scaled, members)...)
			if err1 != nil || err2 != nil || lx.Big(s1.Value()).Cmp(sumMod(q, A.s, B.s)) != 0 || lx.Big(s2.Value()).Cmp(mulMod(q, A.s, k)) != 0 {
				t.Fatalf("%v over %s: isn linearity over %v fails (%v, %v)", c, e.name, ids, err1, err2)
			}
			if len(members) >= 2 {
				got, err := c.additiveSum(t, q, s, members, func(h int, quorum *unanimity.Unanimity) (*big.Int, error) {
					if d.shares[h].Value().Size() == 0 {
						// a holder in every maximal unqualified set owns no piece (fixed finding
						// C02-isn-empty-share-toadditive-panics): the scheme method still converts,
						// the bare share method reports an error; neither may panic
						vlib.Class(c.test, "isn.additive-of-empty-share")
						if _, err := d.shares[h].ToAdditive(quorum); err == nil {
							t.Fatalf("%v: Share.ToAdditive of the piece-less share of %d succeeds", c, c.ids[h])
						}
					}
					a, err := scheme.ConvertShareToAdditive(d.shares[h], quorum)
					if err != nil {
						return nil, err
					}
					if a.ID() != sharing.ID(c.ids[h]) {
						t.Fatalf("%v: isn additive share of %d carries ID %d", c, c.ids[h], a.ID())
					}
					return lx.Big(a.Value()), nil
				})
				if err != nil || got.Cmp(d.s) != 0 {
					t.Fatalf("%v over %s: isn additive shares over %v sum to %v (err %v), secret %v", c, e.name, ids, got, err, d.s)
				}
			}
		} else if err == nil {
			t.Fatalf("%v over %s: isn Reconstruct from UNqualified %v returns %v", c, e.name, ids, lx.Big(sec.Value()))
		}
		c.record("isn", e.name, secretClasses[idx%4], s)
	}
	// a share that lacks a piece, and a foreign share
	all := pick(A.shares, order(c.p.Full(), false))
	for h := range c.ids {
		vals := map[bitset.ImmutableBitSet[sharing.ID]]FE{}
		for k, v := range A.shares[h].Value().Iter() {
			vals[k] = v
		}
		if len(vals) < 2 {
			continue
		}
		for k := range A.shares[h].Value().Iter() {
			delete(vals, k)
			break
		}
		short, err := isn.NewShare(sharing.ID(c.ids[h]), vals)
		if err != nil {
			break
		}
		// alone with one helper so that the missing piece cannot come from nobody else's check
		if sec, err := scheme.Reconstruct(short); err == nil && !c.p.Qualified(1<<uint(h)) {
			t.Fatalf("%v: isn Reconstruct from one truncated share returns %v", c, lx.Big(sec.Value()))
		}
		mod := append([]*isn.Share[FE]{}, all...)
		mod[h] = short
		if sec, err := scheme.Reconstruct(mod...); err == nil {
			t.Fatalf("%v: isn Reconstruct with a share lacking a piece returns %v", c, lx.Big(sec.Value()))
		}
		break
	}
	var anyVals map[bitset.ImmutableBitSet[sharing.ID]]FE
	for h := range c.ids {
		for k, v := range A.shares[h].Value().Iter() {
			anyVals = map[bitset.ImmutableBitSet[sharing.ID]]FE{k: v}
			break
		}
		if anyVals != nil {
			break
		}
	}
	if fs, err := isn.NewShare(c.stranger(), anyVals); err == nil && anyVals != nil {
		if sec, err := scheme.Reconstruct(append(append([]*isn.Share[FE]{}, all...), fs)...); err == nil {
			t.Fatalf("%v: isn Reconstruct with a non-shareholder's share returns %v", c, lx.Big(sec.Value()))
		}
	}
}

// ---- Tassa ------------------------------------------------------------------------------------------------

// ranks returns, per holder, the derivative order Tassa's scheme assigns: the cumulative
// threshold of the level above (0 for the first level).
func ranks(p *policy.Policy) []int {
	out := make([]int, p.N)
	prev := 0
	for _, l := range p.Levels {
		for _, h := range l.Members {
			out[h] = prev
		}
		prev = l.T
	}
	return out
}

func (e *env[E, FE]) Tassa(t T, c *pcase) {
	t.Helper()
	f, q := e.f, e.q
	hac, ok := c.ac.(*hierarchical.HierarchicalConjunctiveThreshold)
	if !ok {
		t.Fatalf("%v: not a hierarchical structure", c)
	}
	scheme, err := tassa.NewScheme(hac, f)
	if err != nil {
		t.Fatalf("%v over %s: tassa.NewScheme refuses an admissible policy: %v", c, e.name, err)
	}
	rk := ranks(c.p)
	K := c.p.Levels[len(c.p.Levels)-1].T
	type deal struct {
		s      *big.Int
		shares []*tassa.Share[FE]
	}
	dealOne := func(s *big.Int, label string) *deal {
		out, poly, err := scheme.DealAndRevealDealerFunc(tassa.NewSecret(lx.FE(f, s)), vlib.NewPRNG(c.seed, label))
		if err != nil {
			t.Fatalf("%v: tassa Deal: %v", c, err)
		}
		coef := bigsOf(poly.Coefficients())
		if len(coef) == 0 || len(coef) > K || coef[0].Cmp(s) != 0 {
			t.Fatalf("%v: tassa dealer polynomial has %d coefficients (top threshold %d), constant %v, secret %v", c, len(coef), K, coef[0], s)
		}
		d := &deal{s: s, shares: make([]*tassa.Share[FE], c.p.N)}
		if out.Shares().Size() != c.p.N {
			t.Fatalf("%v: tassa dealt %d shares", c, out.Shares().Size())
		}
		for h, id := range c.ids {
			sh, ok := out.Shares().Get(sharing.ID(id))
			if !ok || sh.ID() != sharing.ID(id) {
				t.Fatalf("%v: tassa share of %d missing", c, id)
			}
			if want := refmat.PolyDerivEval(coef, rk[h], new(big.Int).SetUint64(id), q); lx.Big(sh.Value()).Cmp(want) != 0 {
				t.Fatalf("%v over %s: tassa share of %d = %v, reference f^(%d)(%d) = %v", c, e.name, id, lx.Big(sh.Value()), rk[h], id, want)
			}
			d.shares[h] = sh
		}
		return d
	}
	var deals []*deal
	for _, cl := range secretClasses {
		deals = append(deals, dealOne(secretOf(cl, q, c.seed), "tassa/"+cl))
	}
	A, B := deals[3], dealOne(drawnBig(q, c.seed, "secretB"), "tassa/B")
	k := scalarFor(q, c.seed)
	sum, scaled := make([]*tassa.Share[FE], c.p.N), make([]*tassa.Share[FE], c.p.N)
	zeroed, cancelled := make([]*tassa.Share[FE], c.p.N), make([]*tassa.Share[FE], c.p.N)
	qm1 := lx.FE(f, new(big.Int).Sub(q, big.NewInt(1)))
	for h := range c.ids {
		sum[h], scaled[h] = A.shares[h].Op(B.shares[h]), A.shares[h].ScalarOp(lx.FE(f, k))
		zeroed[h], cancelled[h] = A.shares[h].ScalarOp(f.Zero()), A.shares[h].Op(A.shares[h].ScalarOp(qm1))
	}
	for idx, s := range c.subsets {
		want := c.p.Qualified(s)
		ids := c.idsOf(s)
		d := deals[idx%4]
		members := order(s, idx%2 == 1)
		if got := scheme.CanReconstruct(ids...); got != want {
			t.Fatalf("%v: tassa CanReconstruct(%v) = %v, policy says %v", c, ids, got, want)
		}
		// privacy / correctness criterion on the reference Birkhoff rows: this is what Tassa's
		// admission condition has to guarantee
		if s != 0 {
			ms := policy.Members(s)
			js := make([]int, len(ms))
			for i, h := range ms {
				js[i] = rk[h]
			}
			bm, err := refmat.Birkhoff(q, idsBig(c.ids, ms), js, K)
			if err != nil {
				t.Fatalf("reference Birkhoff: %v", err)
			}
			if got := bm.RowSpanContains(unitVec(K)); got != want {
				t.Fatalf("%v over %s: e0 in span of the Birkhoff rows of %v = %v, policy says %v: the admitted policy is not realised by Tassa's scheme over this field", c, e.name, ids, got, want)
			}
		}
		var sec *tassa.Secret[FE]
		var err error
		vlib.NoPanic(t, "tassa Reconstruct", func() { sec, err = scheme.Reconstruct(pick(d.shares, members)...) })
		if want {
			if err != nil || lx.Big(sec.Value()).Cmp(d.s) != 0 {
				t.Fatalf("%v over %s: tassa Reconstruct(%v) = %v (err %v), dealt %v", c, e.name, ids, sec, err, d.s)
			}
			s1, err1 := scheme.Reconstruct(pick(sum, members)...)
			s2, err2 := scheme.Reconstruct(pick(scaled, members)...)
			if err1 != nil || lx.Big(s1.Value()).Cmp(sumMod(q, A.s, B.s)) != 0 {
				t.Fatalf("%v over %s: tassa sum of shares over %v does not reconstruct to a+b (%v)", c, e.name, ids, err1)
			}
			if err2 != nil || lx.Big(s2.Value()).Cmp(mulMod(q, A.s, k)) != 0 {
				t.Fatalf("%v over %s: tassa %v·shares over %v reconstruct to %v (err %v)", c, e.name, k, ids, s2, err2)
			}
			// combinations whose dealer polynomial loses its top coefficient (fixed finding
			// C02-tassa-refuses-lower-degree): 0·shares and a + (q-1)·a are sharings of 0
			s3, err3 := scheme.Reconstruct(pick(zeroed, members)...)
			s4, err4 := scheme.Reconstruct(pick(cancelled, members)...)
			if err3 != nil || err4 != nil || lx.Big(s3.Value()).Sign() != 0 || lx.Big(s4.Value()).Sign() != 0 {
				t.Fatalf("%v over %s: tassa 0·shares / a+(q-1)·a over %v reconstruct to %v / %v (errors %v / %v), want 0", c, e.name, ids, s3, s4, err3, err4)
			}
			got, err := c.additiveSum(t, q, s, members, func(h int, quorum *unanimity.Unanimity) (*big.Int, error) {
				a, err := scheme.ConvertShareToAdditive(d.shares[h], quorum)
				if err != nil {
					return nil, err
				}
				if a.ID() != sharing.ID(c.ids[h]) {
					t.Fatalf("%v: additive share ID", c)
				}
				return lx.Big(a.Value()), nil
			})
			if err != nil || got.Cmp(d.s) != 0 {
				t.Fatalf("%v over %s: tassa additive shares over %v sum to %v (err %v), secret %v", c, e.name, ids, got, err, d.s)
			}
		} else {
			if err == nil {
				t.Fatalf("%v over %s: tassa Reconstruct from UNqualified %v returns %v", c, e.name, ids, lx.Big(sec.Value()))
			}
			if len(members) >= 2 { // outside the property: no panic
				_, _ = c.additiveSum(t, q, s, members, func(h int, quorum *unanimity.Unanimity) (*big.Int, error) {
					a, err := scheme.ConvertShareToAdditive(d.shares[h], quorum)
					if err != nil {
						return nil, err
					}
					return lx.Big(a.Value()), nil
				})
			}
		}
		c.record("tassa", e.name, secretClasses[idx%4], s)
	}
	all := pick(A.shares, order(c.p.Full(), false))
	if sec, err := scheme.Reconstruct(append(append([]*tassa.Share[FE]{}, all...), all[0])...); err == nil {
		t.Fatalf("%v: tassa Reconstruct with a repeated share returns %v", c, lx.Big(sec.Value()))
	}
}

// TassaAdmission compares the library's accept/refuse decision with the verdict.
func (e *env[E, FE]) TassaAdmission(t T, c *pcase, verdict int, increasing bool) string {
	t.Helper()
	hac, ok := c.ac.(*hierarchical.HierarchicalConjunctiveThreshold)
	if !ok {
		t.Fatalf("%v: not a hierarchical structure", c)
	}
	errCC := hierarchical.CheckConstraints(e.f, hac)
	_, errMSP := hierarchical.InducedMSP(e.f, hac)
	_, errGen := accessstructures.InducedMSP(e.f, c.ac)
	_, errKW := kw.NewScheme(e.f, c.ac)
	_, errT := tassa.NewScheme(hac, e.f)
	errsAll := []error{errCC, errMSP, errGen, errKW, errT}
	names := []string{"CheckConstraints", "hierarchical.InducedMSP", "accessstructures.InducedMSP", "kw.NewScheme", "tassa.NewScheme"}
	acc := 0
	for _, err := range errsAll {
		if err == nil {
			acc++
		}
	}
	for i, err := range errsAll {
		switch {
		case !increasing && err == nil:
			t.Fatalf("%v over %s: %s accepts although the IDs do not increase from level to level", c, e.name, names[i])
		case verdict < 0 && err == nil:
			t.Fatalf("%v over %s: %s ACCEPTS although Tassa's bound alpha(k)N^((k-1)(k-2)/2) exceeds 2q (k=%d, N=%d)", c, e.name, names[i], c.p.Levels[len(c.p.Levels)-1].T, c.maxID())
		case verdict > 0 && increasing && err != nil:
			t.Fatalf("%v over %s: %s refuses although Tassa's bound holds with a factor-2 margin even for (k+1, N+1): %v", c, e.name, names[i], err)
		}
	}
	switch acc {
	case 0:
		return "refused"
	case len(errsAll):
		return "accepted"
	}
	return "mixed"
}

// ---- Feldman ----------------------------------------------------------------------------------------------

func (e *env[E, FE]) Feldman(t T, c *pcase) {
	t.Helper()
	f, q, g := e.f, e.q, e.g
	scheme, err := feldman.NewScheme(g, c.ac)
	if err != nil {
		t.Fatalf("%v over %s: feldman.NewScheme: %v", c, e.name, err)
	}
	view := readMSP(t, c, scheme.MSP(), q)
	dealOne := func(s *big.Int, label string) []*kw.Share[FE] {
		out, df, err := scheme.DealAndRevealDealerFunc(kw.NewSecret(lx.FE(f, s)), vlib.NewPRNG(c.seed, label))
		if err != nil {
			t.Fatalf("%v: feldman Deal: %v", c, err)
		}
		if got := lx.Big(df.Secret().Value()); got.Cmp(s) != 0 {
			t.Fatalf("%v: feldman dealer secret %v, dealt %v", c, got, s)
		}
		shares := make([]*kw.Share[FE], c.p.N)
		for h, id := range c.ids {
			sh, ok := out.Shares().Get(sharing.ID(id))
			if !ok || sh.ID() != sharing.ID(id) || len(sh.Value()) != len(view.rows[h]) {
				t.Fatalf("%v: feldman share of %d missing or of the wrong length", c, id)
			}
			shares[h] = sh
		}
		return shares
	}
	cl := secretClasses[int(c.seed>>8)%4]
	s := secretOf(cl, q, c.seed)
	shares := dealOne(s, "feldman/"+cl)
	bS := drawnBig(q, c.seed, "secretB")
	B := dealOne(bS, "feldman/B")
	k := scalarFor(q, c.seed)
	sum, scaled := make([]*kw.Share[FE], c.p.N), make([]*kw.Share[FE], c.p.N)
	lifted := make([]*feldman.LiftedShare[E, FE], c.p.N)
	for h := range c.ids {
		sum[h], scaled[h] = shares[h].Add(B[h]), shares[h].ScalarMul(lx.FE(f, k))
		lifted[h], err = feldman.LiftShare(shares[h], g.Generator())
		if err != nil {
			t.Fatalf("%v: LiftShare: %v", c, err)
		}
	}
	liftedSecret := g.ScalarBaseOp(lx.FE(f, s))
	for idx, sub := range c.subsets {
		want := c.p.Qualified(sub)
		ids := c.idsOf(sub)
		members := order(sub, idx%2 == 1)
		if got := scheme.CanReconstruct(ids...); got != want {
			t.Fatalf("%v: feldman CanReconstruct(%v) = %v, policy says %v", c, ids, got, want)
		}
		if got := view.spans(sub); got != want {
			t.Fatalf("%v over %s: feldman span criterion for %v = %v, policy says %v", c, e.name, ids, got, want)
		}
		var sec *kw.Secret[FE]
		var ls *feldman.LiftedSecret[E, FE]
		var err, lerr error
		vlib.NoPanic(t, "feldman Reconstruct", func() {
			sec, err = scheme.Reconstruct(pick(shares, members)...)
			ls, lerr = scheme.ReconstructInTheExponent(pick(lifted, members)...)
		})
		if want {
			if err != nil || lx.Big(sec.Value()).Cmp(s) != 0 {
				t.Fatalf("%v over %s: feldman Reconstruct(%v) = %v (err %v), dealt %v", c, e.name, ids, sec, err, s)
			}
			if lerr != nil || !ls.Value().Equal(liftedSecret) {
				t.Fatalf("%v over %s: ReconstructInTheExponent(%v) is not [secret]G (err %v)", c, e.name, ids, lerr)
			}
			s1, err1 := scheme.Reconstruct(pick(sum, members)...)
			s2, err2 := scheme.Reconstruct(pick(scaled, members)...)
			if err1 != nil || err2 != nil || lx.Big(s1.Value()).Cmp(sumMod(q, s, bS)) != 0 || lx.Big(s2.Value()).Cmp(mulMod(q, s, k)) != 0 {
				t.Fatalf("%v over %s: feldman linearity over %v fails (%v, %v)", c, e.name, ids, err1, err2)
			}
			if len(members) >= 2 {
				prod := g.OpIdentity()
				got, err := c.additiveSum(t, q, sub, members, func(h int, quorum *unanimity.Unanimity) (*big.Int, error) {
					a, err := scheme.ConvertShareToAdditive(shares[h], quorum)
					if err != nil {
						return nil, err
					}
					la, err := scheme.ConvertLiftedShareToAdditive(lifted[h], quorum)
					if err != nil {
						return nil, fmt.Errorf("lifted: %w", err)
					}
					if la.ID() != a.ID() || !la.Value().Equal(g.ScalarBaseOp(a.Value())) {
						t.Fatalf("%v over %s: ConvertLiftedShareToAdditive(%d, %v) is not the lift of the scalar conversion", c, e.name, c.ids[h], ids)
					}
					prod = prod.Op(la.Value())
					return lx.Big(a.Value()), nil
				})
				if err != nil || got.Cmp(s) != 0 {
					t.Fatalf("%v over %s: feldman additive shares over %v sum to %v (err %v), secret %v", c, e.name, ids, got, err, s)
				}
				if !prod.Equal(liftedSecret) {
					t.Fatalf("%v over %s: lifted additive shares over %v do not combine to [secret]G", c, e.name, ids)
				}
			}
		} else {
			if err == nil {
				t.Fatalf("%v over %s: feldman Reconstruct from UNqualified %v returns %v", c, e.name, ids, lx.Big(sec.Value()))
			}
			if lerr == nil {
				t.Fatalf("%v over %s: ReconstructInTheExponent from UNqualified %v succeeds", c, e.name, ids)
			}
			if len(members) >= 2 {
				quorum, _ := policy.UnanimityOf(c.ids, sub)
				if _, err := scheme.ConvertShareToAdditive(shares[members[0]], quorum); err == nil {
					t.Fatalf("%v: feldman ConvertShareToAdditive over UNqualified %v succeeds", c, ids)
				}
				if _, err := scheme.ConvertLiftedShareToAdditive(lifted[members[0]], quorum); err == nil {
					t.Fatalf("%v: ConvertLiftedShareToAdditive over UNqualified %v succeeds", c, ids)
				}
			}
		}
		c.record("feldman", e.name, cl, sub)
	}
	// malformed lifted shares
	full := c.p.Full()
	all := pick(lifted, order(full, false))
	long, err := feldman.NewLiftedShare(sharing.ID(c.ids[0]), append(append([]E{}, lifted[0].Value()...), g.Generator())...)
	if err == nil {
		mod := append([]*feldman.LiftedShare[E, FE]{}, all...)
		mod[0] = long
		if _, err := scheme.ReconstructInTheExponent(mod...); err == nil {
			t.Fatalf("%v: ReconstructInTheExponent accepts a lifted share with an extra component", c)
		}
		if quorum, err := policy.UnanimityOf(c.ids, full); err == nil {
			if _, err := scheme.ConvertLiftedShareToAdditive(long, quorum); err == nil {
				t.Fatalf("%v: ConvertLiftedShareToAdditive accepts a lifted share with an extra component", c)
			}
		}
	}
	if fs, err := feldman.NewLiftedShare(c.stranger(), g.Generator()); err == nil {
		if _, err := scheme.ReconstructInTheExponent(append(append([]*feldman.LiftedShare[E, FE]{}, all...), fs)...); err == nil {
			t.Fatalf("%v: ReconstructInTheExponent accepts a non-shareholder's share", c)
		}
	}
}

// ---- Pedersen ---------------------------------------------------------------------------------------------

func (e *env[E, FE]) Pedersen(t T, c *pcase) {
	t.Helper()
	f, q, g := e.f, e.q, e.g
	key, err := pedersencom.SampleCommitmentKey(g, vlib.NewPRNG(c.seed, "pedersen/key"))
	if err != nil {
		t.Fatalf("SampleCommitmentKey: %v", err)
	}
	scheme, err := pedersen.NewScheme(key, c.ac)
	if err != nil {
		t.Fatalf("%v over %s: pedersen.NewScheme: %v", c, e.name, err)
	}
	dealOne := func(s *big.Int, label string) []*pedersen.Share[FE] {
		out, df, err := scheme.DealAndRevealDealerFunc(kw.NewSecret(lx.FE(f, s)), vlib.NewPRNG(c.seed, label))
		if err != nil {
			t.Fatalf("%v: pedersen Deal: %v", c, err)
		}
		if got := lx.Big(df.Secret().Value()); got.Cmp(s) != 0 {
			t.Fatalf("%v: pedersen dealer secret %v, dealt %v", c, got, s)
		}
		shares := make([]*pedersen.Share[FE], c.p.N)
		for h, id := range c.ids {
			sh, ok := out.Shares().Get(sharing.ID(id))
			if !ok || sh.ID() != sharing.ID(id) {
				t.Fatalf("%v: pedersen share of %d missing", c, id)
			}
			shares[h] = sh
		}
		return shares
	}
	cl := secretClasses[int(c.seed>>8)%4]
	s := secretOf(cl, q, c.seed)
	shares := dealOne(s, "pedersen/"+cl)
	bS := drawnBig(q, c.seed, "secretB")
	B := dealOne(bS, "pedersen/B")
	k := scalarFor(q, c.seed)
	sum, scaled := make([]*pedersen.Share[FE], c.p.N), make([]*pedersen.Share[FE], c.p.N)
	for h := range c.ids {
		sum[h], scaled[h] = shares[h].Add(B[h]), shares[h].ScalarOp(lx.FE(f, k))
	}
	for idx, sub := range c.subsets {
		want := c.p.Qualified(sub)
		ids := c.idsOf(sub)
		members := order(sub, idx%2 == 1)
		if got := scheme.CanReconstruct(ids...); got != want {
			t.Fatalf("%v: pedersen CanReconstruct(%v) = %v, policy says %v", c, ids, got, want)
		}
		var sec *kw.Secret[FE]
		var err error
		vlib.NoPanic(t, "pedersen Reconstruct", func() { sec, err = scheme.Reconstruct(pick(shares, members)...) })
		if want {
			if err != nil || lx.Big(sec.Value()).Cmp(s) != 0 {
				t.Fatalf("%v over %s: pedersen Reconstruct(%v) = %v (err %v), dealt %v", c, e.name, ids, sec, err, s)
			}
			s1, err1 := scheme.Reconstruct(pick(sum, members)...)
			s2, err2 := scheme.Reconstruct(pick(scaled, members)...)
			if err1 != nil || err2 != nil || lx.Big(s1.Value()).Cmp(sumMod(q, s, bS)) != 0 || lx.Big(s2.Value()).Cmp(mulMod(q, s, k)) != 0 {
				t.Fatalf("%v over %s: pedersen linearity over %v fails (%v, %v)", c, e.name, ids, err1, err2)
			}
			if len(members) >= 2 {
				got, err := c.additiveSum(t, q, sub, members, func(h int, quorum *unanimity.Unanimity) (*big.Int, error) {
					a, err := scheme.ConvertShareToAdditive(shares[h], quorum)
					if err != nil {
						return nil, err
					}
					return lx.Big(a.Value()), nil
				})
				if err != nil || got.Cmp(s) != 0 {
					t.Fatalf("%v over %s: pedersen additive shares over %v sum to %v (err %v), secret %v", c, e.name, ids, got, err, s)
				}
			}
		} else {
			if err == nil {
				t.Fatalf("%v over %s: pedersen Reconstruct from UNqualified %v returns %v", c, e.name, ids, lx.Big(sec.Value()))
			}
			if len(members) >= 2 {
				quorum, _ := policy.UnanimityOf(c.ids, sub)
				if _, err := scheme.ConvertShareToAdditive(shares[members[0]], quorum); err == nil {
					t.Fatalf("%v: pedersen ConvertShareToAdditive over UNqualified %v succeeds", c, ids)
				}
			}
		}
		c.record("pedersen", e.name, cl, sub)
	}
	// wrong-length and foreign shares
	all := pick(shares, order(c.p.Full(), false))
	vals := append(append([]FE{}, shares[0].Value()...), f.One())
	if kws, err := kw.NewShare(sharing.ID(c.ids[0]), vals...); err == nil {
		if bad, err := pedersen.NewShare(sharing.ID(c.ids[0]), kws, kws); err == nil {
			mod := append([]*pedersen.Share[FE]{}, all...)
			mod[0] = bad
			if sec, err := scheme.Reconstruct(mod...); err == nil {
				t.Fatalf("%v: pedersen Reconstruct with a share of the wrong length returns %v", c, lx.Big(sec.Value()))
			}
		}
	}
	if kws, err := kw.NewShare(c.stranger(), shares[0].Value()...); err == nil {
		if fs, err := pedersen.NewShare(c.stranger(), kws, kws); err == nil {
			if sec, err := scheme.Reconstruct(append(append([]*pedersen.Share[FE]{}, all...), fs)...); err == nil {
				t.Fatalf("%v: pedersen Reconstruct with a non-shareholder's share returns %v", c, lx.Big(sec.Value()))
			}
		}
	}
}
