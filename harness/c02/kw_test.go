package c02

import (
	"bytes"
	"fmt"
	"math/big"
	"sort"

	"github.com/bronlabs/bron-crypto/pkg/base/algebra"
	"github.com/bronlabs/bron-crypto/pkg/mpc/sharing"
	"github.com/bronlabs/bron-crypto/pkg/mpc/sharing/accessstructures"
	"github.com/bronlabs/bron-crypto/pkg/mpc/sharing/scheme/kw"
	"github.com/bronlabs/bron-crypto/pkg/mpc/sharing/scheme/kw/msp"
	"verif/harness/vlib"
	"verif/harness/vlib/lx"
	"verif/harness/vlib/policy"
	"verif/harness/vlib/refmat"
)

// ---- clause (a): the policy itself (field independent) ----------------------------------------------

// checkPolicy compares IsQualified with the policy oracle on every listed subset and the
// library's maximal unqualified sets with the brute-force ones.
func checkPolicy(t T, c *pcase) {
	t.Helper()
	for _, s := range c.subsets {
		ids := c.idsOf(s)
		want := c.p.Qualified(s)
		if got := c.ac.IsQualified(ids...); got != want {
			t.Fatalf("%v: IsQualified(%v) = %v, policy says %v", c, ids, got, want)
		}
		if len(ids) > 0 {
			// the argument is a set: order and repetition are irrelevant
			rev := append([]sharing.ID{ids[len(ids)-1]}, ids...)
			if got := c.ac.IsQualified(rev...); got != want {
				t.Fatalf("%v: IsQualified(%v) = %v with a repeated ID, policy says %v", c, rev, got, want)
			}
		}
	}
	// strangers: outside the property, must not panic
	_ = c.ac.IsQualified(append(c.idsOf(c.p.Full()), c.stranger())...)
	_ = c.ac.IsQualified(c.stranger())

	if (c.p.Family == policy.Hier || c.p.Family == policy.Gate) && c.maxID() > 64 {
		vlib.Class(c.test, "mus=skipped(documented panic for IDs>64)")
		return
	}
	if c.p.N > 12 {
		return
	}
	want := map[uint64]bool{}
	for _, u := range c.p.MaximalUnqualified() {
		want[u] = true
	}
	got := map[uint64]bool{}
	dups := 0
	for set := range c.ac.MaximalUnqualifiedSetsIter() {
		mk, ok := c.maskOf(set.List())
		if !ok {
			t.Fatalf("%v: MaximalUnqualifiedSetsIter yields %v with a non-shareholder", c, set.List())
		}
		if got[mk] {
			dups++
		}
		got[mk] = true
	}
	if len(got) != len(want) {
		t.Fatalf("%v: MaximalUnqualifiedSetsIter yields %d distinct sets %v, brute force finds %d %v", c, len(got), keys(got), len(want), keys(want))
	}
	for u := range want {
		if !got[u] {
			t.Fatalf("%v: maximal unqualified set %v (holders) missing from MaximalUnqualifiedSetsIter %v", c, policy.Members(u), keys(got))
		}
	}
	if dups > 0 {
		vlib.Class(c.test, "mus=duplicates")
	} else {
		vlib.Class(c.test, "mus=checked")
	}
}

func keys(m map[uint64]bool) [][]int {
	var ks []uint64
	for k := range m {
		ks = append(ks, k)
	}
	sort.Slice(ks, func(i, j int) bool { return ks[i] < ks[j] })
	out := make([][]int, len(ks))
	for i, k := range ks {
		out[i] = policy.Members(k)
	}
	return out
}

// ---- KW dealing with the reference check of every share ---------------------------------------------

type kwDeal[FE algebra.PrimeFieldElement[FE]] struct {
	class  string
	s      *big.Int
	r      []*big.Int         // dealer column
	lambda []*big.Int         // M·r by the reference
	shares []*kw.Share[FE]    // by holder index
	df     *kw.DealerFunc[FE] //
}

func (e *env[E, FE]) induce(t T, c *pcase) (*msp.MSP[FE], *kw.Scheme[FE], *spanView) {
	t.Helper()
	m, err := accessstructures.InducedMSP(e.f, c.ac)
	if err != nil {
		t.Fatalf("%v over %s: InducedMSP refuses an admissible policy: %v", c, e.name, err)
	}
	scheme, err := kw.NewScheme(e.f, c.ac)
	if err != nil {
		t.Fatalf("%v over %s: kw.NewScheme refuses an admissible policy: %v", c, e.name, err)
	}
	view := readMSP(t, c, m, e.q)
	if view.M.C < 2 {
		t.Fatalf("%v: one-column span programme for a policy with an unqualified singleton", c)
	}
	return m, scheme, view
}

func (e *env[E, FE]) kwDealOne(t T, c *pcase, scheme *kw.Scheme[FE], view *spanView, class string, s *big.Int, label string) *kwDeal[FE] {
	t.Helper()
	out, df, err := scheme.DealAndRevealDealerFunc(kw.NewSecret(lx.FE(e.f, s)), vlib.NewPRNG(c.seed, label))
	if err != nil {
		t.Fatalf("%v over %s: Deal(secret class %s): %v", c, e.name, class, err)
	}
	d := &kwDeal[FE]{class: class, s: s, df: df, shares: make([]*kw.Share[FE], c.p.N)}
	rc := df.RandomColumn()
	rr, cc := rc.Dimensions()
	if rr != view.M.C || cc != 1 {
		t.Fatalf("%v: dealer column is %dx%d, span programme has %d columns", c, rr, cc, view.M.C)
	}
	for i := 0; i < rr; i++ {
		v, _ := rc.Get(i, 0)
		d.r = append(d.r, lx.Big(v))
	}
	if d.r[0].Cmp(s) != 0 {
		t.Fatalf("%v: dealer column starts with %v, secret is %v", c, d.r[0], s)
	}
	if got := lx.Big(df.Secret().Value()); got.Cmp(s) != 0 {
		t.Fatalf("%v: DealerFunc.Secret() = %v, dealt %v", c, got, s)
	}
	d.lambda, err = view.M.MulVec(d.r)
	if err != nil {
		t.Fatalf("reference M·r: %v", err)
	}
	if out.Shares().Size() != c.p.N-policy.PopCount(view.rowless) {
		t.Fatalf("%v: %d shares dealt for %d shareholders (%d without rows)", c, out.Shares().Size(), c.p.N, policy.PopCount(view.rowless))
	}
	for h, id := range c.ids {
		sh, ok := out.Shares().Get(sharing.ID(id))
		if view.rowless&(1<<uint(h)) != 0 {
			if ok {
				vlib.Class(c.test, "redundant-holder.share=present")
			} else {
				vlib.Class(c.test, "redundant-holder.share=missing-entry")
			}
			continue
		}
		if !ok || sh == nil {
			t.Fatalf("%v: no share dealt to %d", c, id)
		}
		if sh.ID() != sharing.ID(id) {
			t.Fatalf("%v: share of %d carries ID %d", c, id, sh.ID())
		}
		vals := bigsOf(sh.Value())
		if len(vals) != len(view.rows[h]) {
			t.Fatalf("%v: share of %d has %d values, holder owns rows %v", c, id, len(vals), view.rows[h])
		}
		for k, r := range view.rows[h] {
			if vals[k].Cmp(d.lambda[r]) != 0 {
				t.Fatalf("%v over %s: share of %d component %d = %v, reference (M·r)[row %d] = %v", c, e.name, id, k, vals[k], r, d.lambda[r])
			}
		}
		d.shares[h] = sh
	}
	return d
}

func pick[S any](all []S, members []int) []S {
	out := make([]S, len(members))
	for i, h := range members {
		out[i] = all[h]
	}
	return out
}

func without(members []int, mask uint64) []int {
	var out []int
	for _, h := range members {
		if mask&(1<<uint(h)) == 0 {
			out = append(out, h)
		}
	}
	return out
}

// KW runs clauses (b), (d), (e) for the KW/MSP scheme on every subset of the case.
func (e *env[E, FE]) KW(t T, c *pcase) {
	t.Helper()
	f, q := e.f, e.q
	m, scheme, view := e.induce(t, c)
	if view.M.R != len(view.holder) {
		t.Fatalf("internal")
	}
	ideal := true
	for _, r := range view.rows {
		if len(r) > 1 {
			ideal = false
		}
	}
	if view.rowless != 0 {
		vlib.Class(c.test, "cnf.redundant-holder")
	}
	if ideal != m.IsIdeal() {
		t.Fatalf("%v: IsIdeal() = %v but row ownership is %v", c, m.IsIdeal(), view.rows)
	}
	vlib.Class(c.test, fmt.Sprintf("msp.ideal=%v", ideal))

	deals := make([]*kwDeal[FE], len(secretClasses))
	for i, cl := range secretClasses {
		deals[i] = e.kwDealOne(t, c, scheme, view, cl, secretOf(cl, q, c.seed), "deal/"+cl)
	}
	// linearity material: A + B and k·A
	A := deals[3]
	B := e.kwDealOne(t, c, scheme, view, "drawn", drawnBig(q, c.seed, "secretB"), "deal/B")
	ks := []*big.Int{big.NewInt(0), big.NewInt(1), big.NewInt(2), new(big.Int).Sub(q, big.NewInt(1)), drawnBig(q, c.seed, "scalar")}
	k := ks[int(c.seed%uint64(len(ks)))]
	kFE := lx.FE(f, k)
	sum := make([]*kw.Share[FE], c.p.N)
	scaled := make([]*kw.Share[FE], c.p.N)
	for h := range c.ids {
		if A.shares[h] == nil {
			continue
		}
		sum[h] = A.shares[h].Add(B.shares[h])
		scaled[h] = A.shares[h].ScalarMul(kFE)
		if sum[h].ID() != A.shares[h].ID() || scaled[h].ID() != A.shares[h].ID() {
			t.Fatalf("%v: Add/ScalarMul changed the share ID", c)
		}
	}
	wantSum, wantScaled := sumMod(q, A.s, B.s), mulMod(q, A.s, k)

	for idx, s := range c.subsets {
		want := c.p.Qualified(s)
		ids := c.idsOf(s)
		d := deals[idx%len(deals)]
		flip := idx%2 == 1
		members := order(s, flip)

		if s&view.rowless != 0 {
			// known finding: the quorum names a holder without rows. What stays well defined: the
			// span criterion on the rows that exist, and reconstruction from the shares that exist.
			if got := view.spans(s); got != want {
				t.Fatalf("%v over %s: e0 in rowspan(M_S) = %v for S = %v, policy says %v", c, e.name, got, ids, want)
			}
			rest := without(members, view.rowless)
			sec, err := scheme.Reconstruct(pick(d.shares, rest)...)
			if want && (err != nil || lx.Big(sec.Value()).Cmp(d.s) != 0) {
				t.Fatalf("%v over %s: Reconstruct from the existing shares of qualified %v fails: %v", c, e.name, ids, err)
			}
			if !want && err == nil {
				t.Fatalf("%v over %s: Reconstruct from the existing shares of UNqualified %v returns %v", c, e.name, ids, lx.Big(sec.Value()))
			}
			if m.Accepts(ids...) == want && scheme.CanReconstruct(ids...) == want {
				vlib.Class(c.test, "redundant-holder.accepts=agrees")
			} else {
				vlib.Class(c.test, "redundant-holder.accepts=rejects-qualified")
			}
			vlib.Excluded(knownRedundant)
			c.record("kw(redundant-holder)", e.name, d.class, s)
			continue
		}

		// (b) span programme
		if got := m.Accepts(ids...); got != want {
			t.Fatalf("%v over %s: MSP.Accepts(%v) = %v, policy says %v", c, e.name, ids, got, want)
		}
		if got := scheme.CanReconstruct(ids...); got != want {
			t.Fatalf("%v over %s: CanReconstruct(%v) = %v, policy says %v", c, e.name, ids, got, want)
		}
		if got := view.spans(s); got != want {
			t.Fatalf("%v over %s: e0 in rowspan(M_S) = %v for S = %v (rows %v) by reference elimination, policy says qualified = %v [privacy criterion]", c, e.name, got, ids, view.rowsOf(s), want)
		}

		// (d) reconstruction
		sec, err := scheme.Reconstruct(pick(d.shares, members)...)
		rows := view.rowsOf(s)
		rv, rvErr := m.ReconstructionVector(ids...)
		if want {
			if err != nil {
				t.Fatalf("%v over %s: Reconstruct from qualified %v fails: %v", c, e.name, ids, err)
			}
			if got := lx.Big(sec.Value()); got.Cmp(d.s) != 0 {
				t.Fatalf("%v over %s: Reconstruct(%v) = %v, dealt %v (class %s)", c, e.name, ids, got, d.s, d.class)
			}
			if rvErr != nil {
				t.Fatalf("%v: ReconstructionVector(%v): %v", c, ids, rvErr)
			}
			rr, cc := rv.Dimensions()
			if rr*cc != len(rows) {
				t.Fatalf("%v: ReconstructionVector(%v) has %dx%d entries for rows %v", c, ids, rr, cc, rows)
			}
			coef := make([]*big.Int, len(rows))
			lam := make([]*big.Int, len(rows))
			for i := range rows {
				var v FE
				if cc == 1 {
					v, _ = rv.Get(i, 0)
				} else {
					v, _ = rv.Get(0, i)
				}
				coef[i] = lx.Big(v)
				lam[i] = d.lambda[rows[i]]
			}
			if !refmat.IsLeftSolution(view.M.SubRows(rows...), coef, view.e0) {
				t.Fatalf("%v over %s: ReconstructionVector(%v)·M_S != e0", c, e.name, ids)
			}
			dot, _ := refmat.Dot(q, coef, lam)
			if dot.Cmp(d.s) != 0 {
				t.Fatalf("%v over %s: ReconstructionVector(%v)·shares = %v, secret %v", c, e.name, ids, dot, d.s)
			}
		} else {
			if err == nil {
				t.Fatalf("%v over %s: Reconstruct from UNqualified %v returns %v (dealt %v)", c, e.name, ids, lx.Big(sec.Value()), d.s)
			}
			if rvErr == nil {
				t.Fatalf("%v over %s: ReconstructionVector for unqualified %v succeeds", c, e.name, ids)
			}
		}

		// (e) linearity and additive conversion
		if c.heavy || idx%4 == 0 {
			s1, err1 := scheme.Reconstruct(pick(sum, members)...)
			s2, err2 := scheme.Reconstruct(pick(scaled, members)...)
			if want {
				if err1 != nil || err2 != nil {
					t.Fatalf("%v: Reconstruct of combined shares over %v: %v / %v", c, ids, err1, err2)
				}
				if got := lx.Big(s1.Value()); got.Cmp(wantSum) != 0 {
					t.Fatalf("%v over %s: shares(a)+shares(b) over %v reconstruct to %v, a+b = %v", c, e.name, ids, got, wantSum)
				}
				if got := lx.Big(s2.Value()); got.Cmp(wantScaled) != 0 {
					t.Fatalf("%v over %s: %v·shares(a) over %v reconstruct to %v, k·a = %v", c, e.name, k, ids, got, wantScaled)
				}
			} else if err1 == nil || err2 == nil {
				t.Fatalf("%v: combined shares of unqualified %v reconstruct", c, ids)
			}
			e.kwAdditive(t, c, scheme, d, s, members, want)
		}
		c.record("kw", e.name, d.class, s)
	}

	// strangers and malformed shares: error, never a panic, never a wrong secret
	full := c.p.Full() &^ view.rowless
	_ = m.Accepts(append(c.idsOf(full), c.stranger())...)
	d := deals[3]
	fullMembers := order(full, false)
	all := pick(d.shares, fullMembers)
	if fs, err := kw.NewShare(c.stranger(), all[0].Value()...); err == nil {
		if sec, err := scheme.Reconstruct(append(append([]*kw.Share[FE]{}, all...), fs)...); err == nil {
			t.Fatalf("%v: Reconstruct with a share of non-shareholder %d returns %v", c, c.stranger(), lx.Big(sec.Value()))
		}
		if sec, err := scheme.Reconstruct(fs); err == nil {
			t.Fatalf("%v: Reconstruct from a lone non-shareholder returns %v", c, lx.Big(sec.Value()))
		}
	}
	for _, pos := range []int{0, len(fullMembers) - 1} {
		h := fullMembers[pos]
		vals := d.shares[h].Value()
		longer := append(append([]FE{}, vals...), f.One())
		variants := [][]FE{longer}
		if len(vals) > 1 {
			variants = append(variants, vals[:len(vals)-1])
		}
		for _, vv := range variants {
			bad, err := kw.NewShare(sharing.ID(c.ids[h]), vv...)
			if err != nil {
				continue
			}
			mod := append([]*kw.Share[FE]{}, all...)
			mod[pos] = bad
			if sec, err := scheme.Reconstruct(mod...); err == nil {
				t.Fatalf("%v: Reconstruct with a %d-component share for a holder owning %d rows returns %v", c, len(vv), len(vals), lx.Big(sec.Value()))
			}
			if q2, err := policy.UnanimityOf(c.ids, full); err == nil {
				if a, err := scheme.ConvertShareToAdditive(bad, q2); err == nil {
					t.Fatalf("%v: ConvertShareToAdditive accepts a %d-component share for a holder owning %d rows: %v", c, len(vv), len(vals), lx.Big(a.Value()))
				}
			}
		}
	}
}

// kwAdditive: ConvertShareToAdditive over the quorum S sums to the secret when S is qualified
// and is refused when it is not.
func (e *env[E, FE]) kwAdditive(t T, c *pcase, scheme *kw.Scheme[FE], d *kwDeal[FE], s uint64, members []int, qualified bool) {
	t.Helper()
	quorum, err := policy.UnanimityOf(c.ids, s)
	if len(members) < 2 {
		if err == nil {
			t.Fatalf("%v: unanimity structure over %d members accepted", c, len(members))
		}
		vlib.Class(c.test, "additive=quorum<2")
		return
	}
	if err != nil {
		t.Fatalf("%v: unanimity quorum over %v refused: %v", c, c.idsOf(s), err)
	}
	var parts []*big.Int
	for _, h := range members {
		a, err := scheme.ConvertShareToAdditive(d.shares[h], quorum)
		if !qualified {
			if err == nil {
				t.Fatalf("%v over %s: ConvertShareToAdditive over UNqualified quorum %v succeeds for %d", c, e.name, c.idsOf(s), c.ids[h])
			}
			continue
		}
		if err != nil {
			t.Fatalf("%v over %s: ConvertShareToAdditive(%d, quorum %v): %v", c, e.name, c.ids[h], c.idsOf(s), err)
		}
		if a.ID() != sharing.ID(c.ids[h]) {
			t.Fatalf("%v: additive share of %d carries ID %d", c, c.ids[h], a.ID())
		}
		parts = append(parts, lx.Big(a.Value()))
	}
	if qualified {
		if got := sumMod(e.q, parts...); got.Cmp(d.s) != 0 {
			t.Fatalf("%v over %s: additive shares over quorum %v sum to %v, secret %v", c, e.name, c.idsOf(s), got, d.s)
		}
		// a share of somebody outside the quorum is refused
		for h := range c.ids {
			if s&(1<<uint(h)) == 0 {
				if _, err := scheme.ConvertShareToAdditive(d.shares[h], quorum); err == nil {
					t.Fatalf("%v: ConvertShareToAdditive accepts the share of %d, who is outside quorum %v", c, c.ids[h], c.idsOf(s))
				}
				break
			}
		}
		vlib.Class(c.test, "additive=sum")
	} else {
		vlib.Class(c.test, "additive=refused")
	}
}

// ---- clause (c): constructive privacy witness ------------------------------------------------------

// Witness: for unqualified S and another secret s', the reference algebra finds dealer
// randomness r' with r'[0] = s' and M_S·r' = M_S·r; the library's dealer built from r' must hand
// S byte-identical shares. Returns the number of witnesses checked.
func (e *env[E, FE]) Witness(t T, c *pcase, tries int) int {
	t.Helper()
	f, q := e.f, e.q
	m, scheme, view := e.induce(t, c)
	n := 0
	for idx, s := range c.subsets {
		if n >= tries {
			break
		}
		if s == 0 || c.p.Qualified(s) || s&view.rowless != 0 {
			continue
		}
		cl := secretClasses[idx%len(secretClasses)]
		d := e.kwDealOne(t, c, scheme, view, cl, secretOf(cl, q, c.seed+uint64(idx)), fmt.Sprintf("wit/%d", idx))
		// the other secret: a different class, made different from s
		cl2 := secretClasses[(idx/len(secretClasses)+idx+1)%len(secretClasses)]
		s2 := secretOf(cl2, q, c.seed+uint64(idx)+7)
		if s2.Cmp(d.s) == 0 {
			s2 = sumMod(q, s2, big.NewInt(1))
		}
		rows := view.rowsOf(s)
		// unknown delta = r' - r:  M_S·delta = 0, delta[0] = s2 - s
		A := refmat.Zero(q, len(rows)+1, view.M.C)
		for i, r := range rows {
			for j := 0; j < view.M.C; j++ {
				A.A[i][j].Set(view.M.A[r][j])
			}
		}
		A.A[len(rows)][0].SetInt64(1)
		b := make([]*big.Int, len(rows)+1)
		for i := range b {
			b[i] = new(big.Int)
		}
		b[len(rows)] = new(big.Int).Mod(new(big.Int).Sub(s2, d.s), q)
		delta, ok, err := refmat.SolveRight(A, b)
		if err != nil {
			t.Fatalf("reference solve: %v", err)
		}
		if !ok {
			t.Fatalf("%v over %s: no dealer randomness gives unqualified %v the same shares for another secret: its shares determine the secret [privacy]", c, e.name, c.idsOf(s))
		}
		r2 := make([]*big.Int, len(d.r))
		for i := range r2 {
			r2[i] = sumMod(q, d.r[i], delta[i])
		}
		df2, err := kw.NewDealerFunc(column(t, f, r2), m)
		if err != nil {
			t.Fatalf("%v: NewDealerFunc(r'): %v", c, err)
		}
		if got := lx.Big(df2.Secret().Value()); got.Cmp(s2) != 0 || got.Cmp(d.s) == 0 {
			t.Fatalf("%v: witness dealer's secret is %v, want %v (first secret %v)", c, got, s2, d.s)
		}
		for _, h := range policy.Members(s) {
			sh2, err := df2.ShareOf(sharing.ID(c.ids[h]))
			if err != nil {
				t.Fatalf("%v: ShareOf(%d) on the witness dealer: %v", c, c.ids[h], err)
			}
			a, b := d.shares[h].Value(), sh2.Value()
			if len(a) != len(b) || !d.shares[h].Equal(sh2) {
				t.Fatalf("%v over %s: holder %d of unqualified %v gets different shares under secrets %v and %v", c, e.name, c.ids[h], c.idsOf(s), d.s, s2)
			}
			for i := range a {
				if !bytes.Equal(a[i].BytesBE(), b[i].BytesBE()) || !bytes.Equal(a[i].Bytes(), b[i].Bytes()) {
					t.Fatalf("%v over %s: share bytes of %d differ under the witness dealer", c, e.name, c.ids[h])
				}
			}
		}
		// and the shares of S together still do not reconstruct, whereas the full set now yields s'
		var all []*kw.Share[FE]
		for h, id := range c.ids {
			if view.rowless&(1<<uint(h)) != 0 {
				continue
			}
			sh, _ := df2.ShareOf(sharing.ID(id))
			all = append(all, sh)
		}
		sec, err := scheme.Reconstruct(all...)
		if err != nil || lx.Big(sec.Value()).Cmp(s2) != 0 {
			t.Fatalf("%v: shares of the witness dealer reconstruct to %v (err %v), want %v", c, sec, err, s2)
		}
		c.record("kw-witness", e.name, cl+"->"+cl2, s)
		n++
	}
	return n
}

// OneColumnRefused: a policy in which every single party is qualified. The library refuses it
// by design somewhere on the way from induction to dealing; it must do so with an error.
func (e *env[E, FE]) OneColumnRefused(t T, c *pcase) string {
	t.Helper()
	m, err := accessstructures.InducedMSP(e.f, c.ac)
	if err != nil {
		return "InducedMSP"
	}
	scheme, err := kw.NewScheme(e.f, c.ac)
	if err != nil {
		return "NewScheme"
	}
	if m.D() != 1 {
		t.Fatalf("%v: every singleton is qualified but the span programme has %d columns", c, m.D())
	}
	for _, cl := range secretClasses {
		out, err := scheme.Deal(kw.NewSecret(lx.FE(e.f, secretOf(cl, e.q, c.seed))), vlib.NewPRNG(c.seed, "refused"))
		if err == nil {
			t.Fatalf("%v over %s: dealing over a one-column span programme succeeds (%d shares)", c, e.name, out.Shares().Size())
		}
		if _, _, err := scheme.DealRandom(vlib.NewPRNG(c.seed, "refused2")); err == nil {
			t.Fatalf("%v over %s: DealRandom over a one-column span programme succeeds", c, e.name)
		}
	}
	return "Deal"
}

// AcceptsFull reports whether the induced span programme and the KW scheme accept the set of ALL
// shareholders of the access structure (which every policy of the harness declares qualified).
func (e *env[E, FE]) AcceptsFull(t T, c *pcase) bool {
	t.Helper()
	m, err := accessstructures.InducedMSP(e.f, c.ac)
	if err != nil {
		t.Fatalf("%v: InducedMSP: %v", c, err)
	}
	scheme, err := kw.NewScheme(e.f, c.ac)
	if err != nil {
		t.Fatalf("%v: kw.NewScheme: %v", c, err)
	}
	all := c.ac.Shareholders().List()
	return m.Accepts(all...) && scheme.CanReconstruct(all...)
}
