package c02

import (
	"fmt"
	"sort"
	"testing"

	"pgregory.net/rapid"

	ds "github.com/bronlabs/bron-crypto/pkg/base/datastructures"
	"github.com/bronlabs/bron-crypto/pkg/base/datastructures/hashset"
	"github.com/bronlabs/bron-crypto/pkg/mpc/sharing"
	"github.com/bronlabs/bron-crypto/pkg/mpc/sharing/accessstructures/boolexpr"
	"github.com/bronlabs/bron-crypto/pkg/mpc/sharing/accessstructures/cnf"
	"github.com/bronlabs/bron-crypto/pkg/mpc/sharing/accessstructures/hierarchical"
	"github.com/bronlabs/bron-crypto/pkg/mpc/sharing/accessstructures/threshold"
	"github.com/bronlabs/bron-crypto/pkg/mpc/sharing/accessstructures/unanimity"
	"verif/harness/vlib"
	"verif/harness/vlib/policy"
)

// ---- TestSchemes -------------------------------------------------------------------------------------------

var schemeNames = []string{"shamir", "additive", "isn", "tassa", "feldman", "pedersen"}

func TestSchemes(t *testing.T) {
	const test = "Schemes"
	big := 0
	if vlib.Thorough() {
		big = 2
	}
	vlib.Check(t, 480, func(t *rapid.T) {
		scheme := rapid.SampledFrom(schemeNames).Draw(t, "scheme")
		o := policy.Opts{MaxDepth: 2}
		maxN, fullUpTo, nSub := 6, 6, 0
		var regimes []string
		switch scheme {
		case "shamir":
			o.Families, maxN = []string{policy.Threshold}, 7+big
		case "additive":
			o.Families, maxN = []string{policy.Unanimity}, 7+big
		case "tassa":
			o.Families, maxN = []string{policy.Hier}, 7+big
		case "isn":
			// ISN keys pieces by 64-bit bitsets of shareholder IDs: IDs <= 64 only
			regimes, maxN = []string{policy.Ordinal, policy.Sparse}, 5+big
			o.AllowSolo = rapid.IntRange(0, 4).Draw(t, "solo") == 0
		case "feldman", "pedersen":
			maxN, fullUpTo, nSub = 5+big, 3, 12
			o.AllowSolo = rapid.IntRange(0, 4).Draw(t, "solo") == 0
		}
		if maxN > 6 {
			fullUpTo, nSub = 6, 48
		}
		// low-weight tail of larger policies (see bigPolicy): Shamir / additive / Tassa need no 2^N
		// enumeration and go up to 33 holders; Feldman / Pedersen (span-programme read-out, group
		// operations per subset) up to 16; ISN deals one piece per maximal unqualified set (C(n,t-1)
		// for a threshold policy) and keys them by 64-bit sets, so it only goes from 5 to 9 holders.
		var big *policy.Policy
		switch scheme {
		case "shamir", "additive", "tassa":
			// Tassa: top threshold <= 9 keeps alpha(k+1)(N+1)^(k(k-1)/2) < q/2 for IDs <= 64
			big = bigPolicy(t, 12, o.Families, []int{9, 12, 13, 16, 17, 33}, 9, false)
			nSub = 24
		case "feldman", "pedersen":
			big = bigPolicy(t, 16, []string{policy.Threshold, policy.Hier, policy.Gate, policy.CNF}, []int{9, 12, 16}, 9, o.AllowSolo)
			nSub = 8
		case "isn":
			if rapid.IntRange(1, 10).Draw(t, "isnMore") == 10 {
				maxN, fullUpTo, nSub = 9, 6, 32
			}
		}
		var c *pcase
		var field string
		if big != nil {
			c, field = caseFor(t, test, big, 6, nSub, regimes...)
			vlib.Class(test, "generator=big-policy")
		} else {
			c, field = drawCase(t, test, maxN, o, fullUpTo, nSub, regimes...)
		}
		e := envs[field]
		if scheme == "isn" && c.p.SingletonQualified() {
			// known finding: ISN derives its shareholders from the union of the maximal unqualified
			// sets and drops a holder that is qualified on its own
			vlib.Excluded(knownISNSolo)
			return
		}
		switch scheme {
		case "shamir":
			e.Shamir(t, c)
		case "additive":
			e.Additive(t, c)
		case "isn":
			e.ISN(t, c)
		case "tassa":
			e.Tassa(t, c)
		case "feldman":
			e.Feldman(t, c)
		case "pedersen":
			e.Pedersen(t, c)
		}
		vlib.Sample("scheme/"+scheme, map[string]any{"policy": c.p.String(), "ids": c.ids, "field": field, "subsets": len(c.subsets)})
	})
}

// ---- TestTassaAdmission (g) --------------------------------------------------------------------------------

// drawHierIDs draws shareholder IDs for a hierarchical policy by magnitude class. The IDs are
// first made increasing from level to level (shuffled inside a level); with probability 1/5 two
// IDs of different levels are then exchanged. The returned flag says whether the final map
// satisfies "every ID of a level exceeds every ID of all earlier levels", from the definition.
func drawHierIDs(t *rapid.T, p *policy.Policy) (ids []uint64, class string, increasing bool) {
	class = rapid.SampledFrom([]string{"ordinal", "sparse", "bits", "bits", "bits", "max=2^64-1", "max=2^64-2", "special"}).Draw(t, "idclass")
	n := p.N
	seen := map[uint64]bool{}
	add := func(v uint64) {
		if v != 0 && !seen[v] {
			seen[v] = true
			ids = append(ids, v)
		}
	}
	below := func(top uint64, k int) {
		for i := 0; len(ids) < k; i++ {
			if rapid.Bool().Draw(t, "small?") {
				add(rapid.Uint64Range(1, 64).Draw(t, "lo"))
			} else {
				add(rapid.Uint64Range(1, top).Draw(t, "id"))
			}
		}
	}
	switch class {
	case "ordinal":
		for i := 1; i <= n; i++ {
			add(uint64(i))
		}
	case "sparse":
		below(64, n)
	case "bits":
		L := rapid.IntRange(4, 64).Draw(t, "bitlen")
		lo, hi := uint64(1)<<uint(L-1), ^uint64(0)
		if L < 64 {
			hi = uint64(1)<<uint(L) - 1
		}
		top := rapid.Uint64Range(lo, hi).Draw(t, "top")
		add(top)
		below(top, n)
		class = fmt.Sprintf("bits=%d..%d", (L-1)/8*8+1, (L-1)/8*8+8)
	case "max=2^64-1":
		add(^uint64(0))
		below(^uint64(0), n)
	case "max=2^64-2":
		add(^uint64(0) - 1)
		below(^uint64(0)-2, n)
	case "special":
		sp := []uint64{1, 2, 63, 64, 65, 255, 256, 65535, 65536, 1<<32 - 1, 1 << 32, 1<<32 + 1, 1 << 62, 1<<63 - 1, 1 << 63, 1<<63 + 1, 1<<64 - 2, 1<<64 - 1}
		// at most 12 special values (the list has 18): the large-policy tail has more holders
		for len(ids) < min(n, 12) {
			add(rapid.SampledFrom(sp).Draw(t, "sp"))
		}
		below(^uint64(0), n)
	}
	sort.Slice(ids, func(i, j int) bool { return ids[i] < ids[j] })
	for _, l := range p.Levels {
		if len(l.Members) > 1 {
			perm := rapid.Permutation(l.Members).Draw(t, "perm")
			tmp := make([]uint64, len(perm))
			for k, h := range perm {
				tmp[k] = ids[h]
			}
			for k, h := range l.Members {
				ids[h] = tmp[k]
			}
		}
	}
	if len(p.Levels) > 1 && rapid.IntRange(0, 4).Draw(t, "disorder") == 0 {
		a := rapid.IntRange(0, p.N-1).Draw(t, "a")
		b := rapid.IntRange(0, p.N-1).Draw(t, "b")
		ids[a], ids[b] = ids[b], ids[a]
	}
	increasing = true
	var prevMax uint64
	for _, l := range p.Levels {
		var mx uint64
		for _, h := range l.Members {
			if ids[h] <= prevMax {
				increasing = false
			}
			if ids[h] > mx {
				mx = ids[h]
			}
		}
		if mx > prevMax {
			prevMax = mx
		}
	}
	return ids, class, increasing
}

func TestTassaAdmission(t *testing.T) {
	const test = "TassaAdmission"
	maxN := 8
	if vlib.Thorough() {
		maxN = 10
	}
	vlib.Check(t, 4000, func(t *rapid.T) {
		// one case in 16: 12..24 holders in up to 5 levels with the top threshold anywhere up to n,
		// preferably at an end of its range: CheckConstraints refuses k = top threshold + 1 > 20
		// before it evaluates (k-1)! in uint64, so 19 / 20 / 21 holders put k just below / at / above
		// that cut (the verdict is "refuse" on either side of it: the bound fails long before)
		p := bigPolicy(t, 16, []string{policy.Hier}, []int{12, 19, 20, 21, 22, 24}, 64, false)
		if p == nil {
			p = policy.Draw(t, policy.Opts{MaxN: maxN, Families: []string{policy.Hier}})
		}
		field := rapid.SampledFrom(fieldNames).Draw(t, "field")
		ids, class, increasing := drawHierIDs(t, p)
		e := envs[field]
		verdict := policy.TassaVerdict(p, ids, e.Q())
		c := newCase(t, test, p, ids, class, rapid.Uint64().Draw(t, "seed"))
		outcome := e.TassaAdmission(t, c, verdict, increasing)
		k := p.Levels[len(p.Levels)-1].T
		if verdict > 0 && increasing && rapid.IntRange(0, 7).Draw(t, "deal?") == 0 {
			// an admitted policy really works, whatever the size of its IDs
			if p.N > 12 {
				c.subsets = walkSubsets(t, p, 10)
			} else {
				c.subsets = drawSubsets(t, p, 10)
			}
			e.Tassa(t, c)
			vlib.Class(test, "dealt-after-admission")
		}
		vlib.Case(test, vlib.Desc(p.Family, p.String(), "tassa-admission", fmt.Sprintf("verdict=%+d", verdict), field, fmt.Sprintf("increasing=%v", increasing), class),
			true,
			fmt.Sprintf("verdict=%+d", verdict), "ids="+class, fmt.Sprintf("increasing=%v", increasing), "field="+field,
			fmt.Sprintf("k=%d", k), "library="+outcome, fmt.Sprintf("verdict=%+d/library=%s/increasing=%v", verdict, outcome, increasing))
	})
}

// The named input of finding F4 and its neighbours, on every field.
func TestTassaAdmissionBoundary(t *testing.T) {
	const test = "TassaAdmissionBoundary"
	p := &policy.Policy{Family: policy.Hier, N: 7, Levels: []policy.Level{{T: 2, Members: []int{0, 1, 2}}, {T: 5, Members: []int{3, 4, 5, 6}}}}
	for i, field := range fieldNames {
		for j, last := range []uint64{7, 1 << 20, 1 << 40, 1 << 62, 1<<64 - 3, 1<<64 - 2, 1<<64 - 1} {
			if !vlib.Mine(i*7 + j) {
				continue
			}
			ids := []uint64{1, 2, 3, 4, 5, 6, last}
			e := envs[field]
			verdict := policy.TassaVerdict(p, ids, e.Q())
			vlib.NoPanic(t, "tassa admission", func() {
				c := newCase(t, test, p, ids, fmt.Sprint("last=", last), 1)
				out := e.TassaAdmission(t, c, verdict, true)
				vlib.Case(test, vlib.Desc(p.String(), field, last), true, fmt.Sprintf("verdict=%+d/library=%s", verdict, out))
			})
		}
	}
}

// ---- TestRefused (f) ---------------------------------------------------------------------------------------

func c0(ids []uint64) sharing.ID { return sharing.ID(ids[0]) }

func idSet(ids ...uint64) ds.Set[sharing.ID] {
	l := make([]sharing.ID, len(ids))
	for i, v := range ids {
		l[i] = sharing.ID(v)
	}
	return hashset.NewComparable(l...).Freeze()
}

func TestRefused(t *testing.T) {
	const test = "Refused"
	kinds := []string{
		"threshold.t<2", "threshold.t>n", "threshold.id0", "threshold.nil",
		"unanimity.<2", "unanimity.id0", "unanimity.nil",
		"cnf.none", "cnf.emptyset", "cnf.id0", "cnf.nilset", "cnf.oneholder",
		"hier.nolevels", "hier.id0", "hier.notincreasing", "hier.t>members", "hier.overlap", "hier.nillevel", "hier.idorder",
		"gate.t<=0", "gate.t>children", "gate.id0", "gate.duplicate", "gate.nil", "gate.nilchild",
		"onecolumn.gate", "onecolumn.hier",
	}
	vlib.Check(t, 1200, func(t *rapid.T) {
		kind := rapid.SampledFrom(kinds).Draw(t, "kind")
		n := rapid.IntRange(2, 6).Draw(t, "n")
		if rapid.IntRange(1, 20).Draw(t, "moreHolders") == 20 {
			n = rapid.SampledFrom([]int{9, 16, 17, 33}).Draw(t, "nBig") // the constructors have no size limit
		}
		regime := rapid.SampledFrom([]string{policy.Ordinal, policy.Sparse, policy.Large}).Draw(t, "regime")
		base := &policy.Policy{Family: policy.Threshold, N: n, T: 2}
		ids := policy.DrawIDs(t, base, regime)
		field := rapid.SampledFrom(fieldNames).Draw(t, "field")
		where := "constructor"
		// soft: the constructor's documentation does not promise a refusal; only "no panic" is
		// asserted and the outcome is recorded
		soft := map[string]bool{"cnf.none": true, "cnf.nilset": true, "cnf.oneholder": true, "hier.nillevel": true,
			"gate.nil": true, "gate.t<=0": true, "gate.t>children": true}
		var err error
		refuse := func(what string, f func() error) {
			vlib.NoPanic(t, kind+": "+what, func() { err = f() })
			if err == nil && soft[kind] {
				where = "accepted(undocumented)"
				return
			}
			if err == nil {
				t.Fatalf("%s: %s is accepted (ids %v)", kind, what, ids)
			}
		}
		with0 := append(append([]uint64{}, ids...), 0)
		leaves := func(v []uint64) []*boolexpr.Node {
			out := make([]*boolexpr.Node, len(v))
			for i, id := range v {
				out[i] = boolexpr.ID(sharing.ID(id))
			}
			return out
		}
		lid := func(v []uint64) []sharing.ID {
			out := make([]sharing.ID, len(v))
			for i, id := range v {
				out[i] = sharing.ID(id)
			}
			return out
		}
		switch kind {
		case "threshold.t<2":
			tt := uint(rapid.IntRange(0, 1).Draw(t, "t"))
			refuse(fmt.Sprintf("threshold(%d,%d)", tt, n), func() error { _, e := threshold.NewThresholdAccessStructure(tt, idSet(ids...)); return e })
		case "threshold.t>n":
			tt := uint(n + rapid.IntRange(1, 3).Draw(t, "over"))
			refuse(fmt.Sprintf("threshold(%d,%d)", tt, n), func() error { _, e := threshold.NewThresholdAccessStructure(tt, idSet(ids...)); return e })
		case "threshold.id0":
			refuse("threshold over a set containing ID 0", func() error { _, e := threshold.NewThresholdAccessStructure(2, idSet(with0...)); return e })
		case "threshold.nil":
			refuse("threshold over a nil set", func() error { _, e := threshold.NewThresholdAccessStructure(2, nil); return e })
		case "unanimity.<2":
			k := rapid.IntRange(0, 1).Draw(t, "members")
			refuse(fmt.Sprintf("unanimity over %d members", k), func() error { _, e := unanimity.NewUnanimityAccessStructure(idSet(ids[:k]...)); return e })
		case "unanimity.id0":
			refuse("unanimity over a set containing ID 0", func() error { _, e := unanimity.NewUnanimityAccessStructure(idSet(with0...)); return e })
		case "unanimity.nil":
			refuse("unanimity over a nil set", func() error { _, e := unanimity.NewUnanimityAccessStructure(nil); return e })
		case "cnf.none":
			refuse("CNF without sets", func() error { _, e := cnf.NewCNFAccessStructure(); return e })
		case "cnf.emptyset":
			refuse("CNF with an empty unqualified set", func() error {
				_, e := cnf.NewCNFAccessStructure(idSet(ids[:1]...), idSet(), idSet(ids[1:]...))
				return e
			})
		case "cnf.id0":
			refuse("CNF with ID 0", func() error { _, e := cnf.NewCNFAccessStructure(idSet(ids[:1]...), idSet(ids[1], 0)); return e })
		case "cnf.nilset":
			refuse("CNF with a nil set", func() error { _, e := cnf.NewCNFAccessStructure(idSet(ids[:1]...), nil); return e })
		case "cnf.oneholder":
			refuse("CNF over a single shareholder", func() error { _, e := cnf.NewCNFAccessStructure(idSet(ids[0])); return e })
		case "hier.nolevels":
			refuse("hierarchy without levels", func() error {
				_, e := hierarchical.NewHierarchicalConjunctiveThresholdAccessStructure()
				return e
			})
		case "hier.id0":
			refuse("hierarchy with ID 0", func() error {
				_, e := hierarchical.NewHierarchicalConjunctiveThresholdAccessStructure(hierarchical.WithLevel(2, lid(with0)...))
				return e
			})
		case "hier.notincreasing":
			t1 := rapid.IntRange(1, n-1).Draw(t, "t1")
			t2 := rapid.IntRange(0, t1).Draw(t, "t2")
			refuse(fmt.Sprintf("hierarchy with thresholds %d then %d", t1, t2), func() error {
				_, e := hierarchical.NewHierarchicalConjunctiveThresholdAccessStructure(
					hierarchical.WithLevel(t1, lid(ids[:n-1])...), hierarchical.WithLevel(t2, lid(ids[n-1:])...))
				return e
			})
		case "hier.t>members":
			cut := rapid.IntRange(1, n-1).Draw(t, "cut")
			refuse("hierarchy whose first threshold exceeds the first level's size", func() error {
				_, e := hierarchical.NewHierarchicalConjunctiveThresholdAccessStructure(
					hierarchical.WithLevel(cut+1, lid(ids[:cut])...), hierarchical.WithLevel(cut+2, lid(ids[cut:])...))
				return e
			})
			refuse("hierarchy whose top threshold exceeds the number of shareholders", func() error {
				_, e := hierarchical.NewHierarchicalConjunctiveThresholdAccessStructure(hierarchical.WithLevel(n+1, lid(ids)...))
				return e
			})
		case "hier.overlap":
			refuse("hierarchy with overlapping levels", func() error {
				_, e := hierarchical.NewHierarchicalConjunctiveThresholdAccessStructure(
					hierarchical.WithLevel(1, lid(ids[:n-1])...), hierarchical.WithLevel(2, lid(ids[n-2:])...))
				return e
			})
		case "hier.nillevel":
			refuse("hierarchy with a nil level", func() error {
				_, e := hierarchical.NewHierarchicalConjunctiveThresholdAccessStructure(hierarchical.WithLevel(1, lid(ids)...), nil)
				return e
			})
		case "hier.idorder":
			// a first-level ID above a second-level ID: the constructor accepts, every consumer refuses
			s := append([]uint64{}, ids...)
			sort.Slice(s, func(i, j int) bool { return s[i] < s[j] })
			cut := rapid.IntRange(1, n-1).Draw(t, "cut")
			s[cut-1], s[cut] = s[cut], s[cut-1]
			p := &policy.Policy{Family: policy.Hier, N: n, Levels: []policy.Level{{T: 1}, {T: 2}}}
			for i := 0; i < n; i++ {
				l := 0
				if i >= cut {
					l = 1
				}
				p.Levels[l].Members = append(p.Levels[l].Members, i)
			}
			c := newCase(t, test, p, s, regime, 1)
			vlib.NoPanic(t, kind, func() {
				if out := envs[field].TassaAdmission(t, c, 0, false); out != "refused" {
					t.Fatalf("%v: hierarchy whose IDs do not increase by level is %s", c, out)
				}
			})
			where = "consumers"
		case "gate.t<=0":
			tt := rapid.IntRange(-2, 0).Draw(t, "t")
			refuse(fmt.Sprintf("gate with threshold %d", tt), func() error {
				_, e := boolexpr.NewThresholdGateAccessStructure(boolexpr.Threshold(tt, leaves(ids)...))
				return e
			})
			refuse("nested gate with that threshold", func() error {
				_, e := boolexpr.NewThresholdGateAccessStructure(boolexpr.And(boolexpr.ID(sharing.ID(ids[0])), boolexpr.Threshold(tt, leaves(ids[1:])...)))
				return e
			})
		case "gate.t>children":
			refuse("gate with threshold above its fan-in", func() error {
				_, e := boolexpr.NewThresholdGateAccessStructure(boolexpr.Threshold(n+1, leaves(ids)...))
				return e
			})
		case "gate.id0":
			refuse("gate tree with attribute 0", func() error {
				_, e := boolexpr.NewThresholdGateAccessStructure(boolexpr.Threshold(2, leaves(with0)...))
				return e
			})
		case "gate.duplicate":
			dup := append(append([]uint64{}, ids...), ids[rapid.IntRange(0, n-1).Draw(t, "dup")])
			refuse("gate with a repeated attribute child", func() error {
				_, e := boolexpr.NewThresholdGateAccessStructure(boolexpr.Threshold(2, leaves(dup)...))
				return e
			})
			refuse("nested gate with a repeated attribute child", func() error {
				_, e := boolexpr.NewThresholdGateAccessStructure(boolexpr.Or(boolexpr.ID(sharing.ID(ids[0])), boolexpr.Threshold(2, leaves(dup)...)))
				return e
			})
		case "gate.nil":
			refuse("nil tree", func() error { _, e := boolexpr.NewThresholdGateAccessStructure(nil); return e })
		case "gate.nilchild":
			// fixed finding (2bb14a2): a nil child at any position, also nested, is an error
			kids := leaves(ids)
			pos := rapid.IntRange(0, len(kids)).Draw(t, "pos")
			withNil := append(append(append([]*boolexpr.Node{}, kids[:pos]...), nil), kids[pos:]...)
			tt := rapid.IntRange(1, len(withNil)).Draw(t, "t")
			refuse("gate with a nil child", func() error {
				_, e := boolexpr.NewThresholdGateAccessStructure(boolexpr.Threshold(tt, withNil...))
				return e
			})
			refuse("nested gate with a nil child", func() error {
				_, e := boolexpr.NewThresholdGateAccessStructure(boolexpr.And(boolexpr.ID(c0(ids)), boolexpr.Threshold(tt, withNil...)))
				return e
			})
			refuse("gate whose only child is nil", func() error {
				_, e := boolexpr.NewThresholdGateAccessStructure(boolexpr.Threshold(1, nil))
				return e
			})
		case "onecolumn.gate", "onecolumn.hier":
			// every single party qualified: OR over all holders (possibly nested ORs) / (1; all)
			var p *policy.Policy
			if kind == "onecolumn.hier" {
				all := make([]int, n)
				for i := range all {
					all[i] = i
				}
				p = &policy.Policy{Family: policy.Hier, N: n, Levels: []policy.Level{{T: 1, Members: all}}}
				sort.Slice(ids, func(i, j int) bool { return ids[i] < ids[j] })
			} else {
				root := &policy.Node{Leaf: -1, T: 1}
				cut := rapid.IntRange(1, n).Draw(t, "cut")
				for i := 0; i < cut; i++ {
					root.Children = append(root.Children, &policy.Node{Leaf: i})
				}
				if cut < n {
					inner := &policy.Node{Leaf: -1, T: 1}
					for i := cut; i < n; i++ {
						inner.Children = append(inner.Children, &policy.Node{Leaf: i})
					}
					root.Children = append(root.Children, inner)
				}
				p = &policy.Policy{Family: policy.Gate, N: n, Root: root}
			}
			if !p.AllSingletonsQualified() {
				t.Fatalf("generator: %v", p)
			}
			c := newCase(t, test, p, ids, regime, rapid.Uint64().Draw(t, "seed"))
			vlib.NoPanic(t, kind, func() { where = envs[field].OneColumnRefused(t, c) })
		}
		vlib.Case(test, vlib.Desc(kind, regime, where), true, "kind="+kind, "ids="+regime, "refused-at="+where)
	})
}
