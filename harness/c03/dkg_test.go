package c03

import (
	"bytes"
	"fmt"
	"math/big"
	"strings"
	"sync"
	"testing"
	"time"

	"pgregory.net/rapid"

	"github.com/bronlabs/bron-crypto/pkg/network"
	"github.com/bronlabs/bron-crypto/pkg/proofs/sigma/compiler"
	"github.com/bronlabs/bron-crypto/pkg/proofs/sigma/compiler/fiatshamir"
	"github.com/bronlabs/bron-crypto/pkg/proofs/sigma/compiler/fischlin"
	"github.com/bronlabs/bron-crypto/pkg/proofs/sigma/compiler/randfischlin"
	"verif/harness/vlib"
	"verif/harness/vlib/netsim"
	"verif/harness/vlib/policy"
	"verif/harness/vlib/proto"
)

var (
	seenMu  sync.Mutex
	seenPKs = map[string]string{}
)

type keygenKind struct {
	name string
	comp compiler.Name
}

var keygens = []keygenKind{
	{"dealer", ""}, {"gennaro-fs", fiatshamir.Name}, {"gennaro-fischlin", fischlin.Name}, {"gennaro-randfischlin", randfischlin.Name}, {"canetti", ""},
}

// runKeygen produces one shard per holder with the given method; api is "runner" (always, for DKGs).
func runKeygen(t *rapid.T, g proto.Group, kg keygenKind, p *policy.Policy, ids []uint64, seeds map[proto.ID]uint64, ctxSeed uint64) map[proto.ID]any {
	ac, err := policy.Build(p, ids)
	if err != nil {
		t.Fatalf("building %s with ids %v: %v", p, ids, err)
	}
	holders := proto.ToIDs(ids)
	if kg.name == "dealer" {
		shards, err := g.Deal(ac, vlib.NewPRNG(ctxSeed, "dealer"))
		if err != nil {
			t.Fatalf("trusted dealer failed for %s ids=%v group=%s: %v", p, ids, g.Name(), err)
		}
		return shards
	}
	ctxs, err := proto.Contexts(holders, ctxSeed, "dkg")
	if err != nil {
		t.Fatalf("contexts: %v", err)
	}
	runners := map[proto.ID]network.Runner[any]{}
	for _, id := range holders {
		prng := proto.PartyPRNG(seeds[id], kg.name, id)
		var r network.Runner[any]
		if kg.name == "canetti" {
			r, err = g.CanettiRunner(ctxs[id], ac, prng)
		} else {
			r, err = g.GennaroRunner(ctxs[id], ac, kg.comp, prng)
		}
		if err != nil {
			t.Fatalf("%s runner for %d (%s ids=%v group=%s): %v", kg.name, id, p, ids, g.Name(), err)
		}
		runners[id] = r
	}
	net := netsim.New(holders)
	res, oc := netsim.RunAll(net, runners, netsim.Options{Idle: 30 * time.Second, Hard: 10 * time.Minute})
	if oc.HardStop {
		t.Fatalf("%s did not terminate within the hard bound (%s ids=%v group=%s)", kg.name, p, ids, g.Name())
	}
	out := map[proto.ID]any{}
	for id, r := range res {
		if r.Panic != nil {
			t.Fatalf("%s party %d panicked: %v\n%s", kg.name, id, r.Panic, r.Stack)
		}
		if r.Err != nil {
			t.Fatalf("honest %s run failed at party %d (%s ids=%v group=%s): %v", kg.name, id, p, ids, g.Name(), r.Err)
		}
		out[id] = r.Out
	}
	return out
}

func checkKeyMaterial(t *rapid.T, g proto.Group, p *policy.Policy, ids []uint64, shards map[proto.ID]any, what string) (pk []byte) {
	holders := proto.ToIDs(ids)
	infos := map[proto.ID]*proto.ShardInfo{}
	for _, id := range holders {
		sh, ok := shards[id]
		if !ok {
			t.Fatalf("%s: no shard for holder %d", what, id)
		}
		info, err := g.Info(sh)
		if err != nil {
			t.Fatalf("%s: reading shard of %d: %v", what, id, err)
		}
		if info.Holder != id {
			t.Fatalf("%s: shard of %d carries id %d", what, id, info.Holder)
		}
		infos[id] = info
	}
	ref := infos[holders[0]]
	for _, id := range holders[1:] {
		in := infos[id]
		if !bytes.Equal(in.PK, ref.PK) {
			t.Fatalf("%s: parties %d and %d hold different public keys", what, holders[0], id)
		}
		if fmt.Sprint(in.VV) != fmt.Sprint(ref.VV) {
			t.Fatalf("%s: parties %d and %d hold different verification vectors", what, holders[0], id)
		}
		if fmt.Sprint(in.MSPRows) != fmt.Sprint(ref.MSPRows) || fmt.Sprint(in.RowOwner) != fmt.Sprint(ref.RowOwner) {
			t.Fatalf("%s: parties %d and %d hold different span programmes", what, holders[0], id)
		}
		if fmt.Sprint(in.PKShares) != fmt.Sprint(ref.PKShares) {
			t.Fatalf("%s: parties %d and %d hold different public key shares", what, holders[0], id)
		}
	}
	for _, id := range holders {
		ok, err := g.LiftedShareMatches(shards[id])
		if err != nil || !ok {
			t.Fatalf("%s: private share of %d does not lift to its published public share (err=%v)", what, id, err)
		}
	}
	// every subset: qualified <=> reconstructs dlog(pk)
	var secret *big.Int
	for set := uint64(1); set <= p.Full(); set++ {
		var sub []any
		var subIDs []proto.ID
		for _, i := range policy.Members(set) {
			sub = append(sub, shards[holders[i]])
			subIDs = append(subIDs, holders[i])
		}
		s, err := g.Reconstruct(sub)
		pkx, errx := g.ReconstructInExponent(shards[holders[0]], subIDs)
		if p.Qualified(set) {
			if err != nil {
				t.Fatalf("%s: qualified set %v of %s cannot reconstruct: %v", what, subIDs, p, err)
			}
			if secret == nil {
				secret = s
				if !bytes.Equal(g.Lift(s), ref.PK) {
					t.Fatalf("%s: reconstructed secret is not the discrete logarithm of the public key (%s, set %v)", what, p, subIDs)
				}
			} else if s.Cmp(secret) != 0 {
				t.Fatalf("%s: qualified sets reconstruct different secrets (%s, set %v)", what, p, subIDs)
			}
			if errx != nil || !bytes.Equal(pkx, ref.PK) {
				t.Fatalf("%s: reconstruction in the exponent over %v does not give the public key (err=%v)", what, subIDs, errx)
			}
		} else {
			if err == nil {
				t.Fatalf("%s: unqualified set %v of %s reconstructed a value", what, subIDs, p)
			}
			if errx == nil {
				t.Fatalf("%s: unqualified set %v of %s reconstructed in the exponent", what, subIDs, p)
			}
		}
	}
	// store / reload
	for _, id := range holders {
		re, err := g.Reload(shards[id])
		if err != nil {
			t.Fatalf("%s: shard of %d does not survive encode/decode: %v", what, id, err)
		}
		in2, err := g.Info(re)
		if err != nil {
			t.Fatalf("%s: reloaded shard of %d unreadable: %v", what, id, err)
		}
		in := infos[id]
		if !bytes.Equal(in2.CBOR, in.CBOR) || fmt.Sprint(in2.Share) != fmt.Sprint(in.Share) || !bytes.Equal(in2.PK, in.PK) {
			t.Fatalf("%s: shard of %d changed by encode/decode", what, id)
		}
	}
	return ref.PK
}

func TestKeygen(t *testing.T) {
	const test = "Keygen"
	groups := proto.GroupNames()
	vlib.Check(t, 160, func(t *rapid.T) {
		maxN := 5
		if vlib.Thorough() {
			maxN = 6
		}
		p := policy.Draw(t, policy.Opts{MaxN: maxN})
		regime := rapid.SampledFrom([]string{policy.Ordinal, policy.Sparse, policy.Large}).Draw(t, "regime")
		g := proto.GroupByName(rapid.SampledFrom(groups).Draw(t, "group"))
		ids := policy.DrawIDs(t, p, regime)
		if p.Family == policy.Hier && policy.TassaVerdict(p, ids, g.Order()) != 1 {
			regime = policy.Ordinal
			ids = policy.DrawIDs(t, p, regime)
		}
		// Hierarchical policies demand identifiers that increase from level to level. A quarter of
		// the hierarchical cases deliberately break that order (ordinal IDs permuted across levels):
		// the library must then REFUSE the structure - or, if it accepts it, the key generation must
		// still satisfy the whole oracle below (an accepted structure whose qualified sets cannot
		// reconstruct is a violation either way).
		disordered := false
		if p.Family == policy.Hier && rapid.IntRange(0, 3).Draw(t, "disorder") == 0 {
			perm := rapid.Permutation(policy.DrawIDs(t, p, policy.Ordinal)).Draw(t, "idperm")
			ordered := true
			var prevMax uint64
			for _, l := range p.Levels {
				var mx uint64
				for _, h := range l.Members {
					if perm[h] <= prevMax {
						ordered = false
					}
					if perm[h] > mx {
						mx = perm[h]
					}
				}
				if mx > prevMax {
					prevMax = mx
				}
			}
			if !ordered {
				ids, regime, disordered = perm, "disordered", true
			}
		}
		kg := rapid.SampledFrom(keygens).Draw(t, "keygen")
		// a tail of larger parties counts (threshold structures, the cheaper key generations): per-peer
		// loops, buffers and coefficient vectors are only stressed past a handful of parties
		if !disordered && rapid.IntRange(0, 15).Draw(t, "bigN") == 0 {
			n := rapid.SampledFrom([]int{8, 9, 10}).Draw(t, "bigNn")
			p = &policy.Policy{Family: policy.Threshold, N: n, T: rapid.IntRange(2, n).Draw(t, "bigT")}
			regime = rapid.SampledFrom([]string{policy.Ordinal, policy.Sparse, policy.Large}).Draw(t, "bigRegime")
			ids = policy.DrawIDs(t, p, regime)
			kg = rapid.SampledFrom([]keygenKind{keygens[0], keygens[1], keygens[4]}).Draw(t, "bigKeygen")
		}
		ctxSeed := rapid.Uint64().Draw(t, "ctxSeed")
		seeds := map[proto.ID]uint64{}
		for i, id := range proto.ToIDs(ids) {
			seeds[id] = rapid.Uint64().Draw(t, fmt.Sprintf("seed%d", i))
		}
		what := fmt.Sprintf("%s/%s/%s/ids=%v", kg.name, g.Name(), p, ids)
		if disordered {
			if refused := keygenRefuses(g, kg, p, ids, ctxSeed); refused {
				vlib.Case(test, vlib.Desc("refused-disordered", p.String()), false, "hier-disordered=refused")
				return
			}
			vlib.Class(test, "hier-disordered=accepted")
		}
		shards := runKeygen(t, g, kg, p, ids, seeds, ctxSeed)
		pk := checkKeyMaterial(t, g, p, ids, shards, what)

		// independence: the key never repeats across the campaign
		seenMu.Lock()
		// the run is identified by everything that determines it: rapid re-executes a failing case
		// while shrinking, and an identical run legitimately gives the identical key
		// Two runs on the SAME random tapes legitimately give the same key (rapid re-executes a
		// failing case while shrinking; two dealer runs whose drawn tape seed coincides - rapid is
		// biased towards small values - sample the same secret): only runs on different tapes must
		// differ. The dealer's tape is named by ctxSeed alone, a DKG's by its label and every party's seed
		// (PartyPRNG also mixes the party's identifier in).
		tape := fmt.Sprintf("dealer ctx=%d", ctxSeed)
		if kg.name != "dealer" {
			tape = fmt.Sprintf("dkg %s seeds=%v", kg.name, seeds) // the session seed does not feed the parties' tapes
		}
		prev, dup := seenPKs[string(pk)]
		seenPKs[string(pk)] = tape + " (" + what + ")"
		seenMu.Unlock()
		if dup && !strings.HasPrefix(prev, tape+" (") && !vlib.Replaying() {
			t.Fatalf("public key of run %s repeats the key of run %s", what, prev)
		}
		// changing one party's randomness changes the key (DKGs), everything else fixed
		if kg.name != "dealer" && rapid.IntRange(0, 3).Draw(t, "paired") == 0 {
			hs := proto.ToIDs(ids)
			who := hs[rapid.IntRange(0, len(hs)-1).Draw(t, "who")]
			seeds2 := map[proto.ID]uint64{}
			for k, v := range seeds {
				seeds2[k] = v
			}
			seeds2[who] = seeds[who] + 1 + rapid.Uint64Range(0, 1<<40).Draw(t, "delta")
			shards2 := runKeygen(t, g, kg, p, ids, seeds2, ctxSeed)
			in2, err := g.Info(shards2[hs[0]])
			if err != nil {
				t.Fatalf("paired run: %v", err)
			}
			if bytes.Equal(in2.PK, pk) {
				t.Fatalf("%s: changing the random stream of party %d did not change the generated key", what, who)
			}
			vlib.Class(test, "paired-run")
		}
		nt := p.N >= 3 || p.Family != policy.Threshold
		vlib.Case(test, vlib.Desc(kg.name, p.Family, p.String(), regime, g.Name()), nt,
			"keygen="+kg.name, "family="+p.Family, "group="+g.Name(), "ids="+regime, fmt.Sprintf("n=%d", p.N), fmt.Sprintf("ideal=%v", p.Ideal()))
		vlib.Sample("keygen:"+kg.name, map[string]any{"keygen": kg.name, "policy": p.String(), "ids": ids, "group": g.Name()})
	})
}

// keygenRefuses reports whether the library refuses the (disordered) structure when the key
// generation is set up: at access-structure construction, dealing, or participant construction.
func keygenRefuses(g proto.Group, kg keygenKind, p *policy.Policy, ids []uint64, ctxSeed uint64) bool {
	ac, err := policy.Build(p, ids)
	if err != nil {
		return true
	}
	holders := proto.ToIDs(ids)
	if kg.name == "dealer" {
		_, err := g.Deal(ac, vlib.NewPRNG(ctxSeed, "dealer-probe"))
		return err != nil
	}
	ctxs, err := proto.Contexts(holders, ctxSeed, "dkg-probe")
	if err != nil {
		return true
	}
	for _, id := range holders {
		prng := vlib.NewPRNG(ctxSeed, "probe")
		if kg.name == "canetti" {
			_, err = g.CanettiRunner(ctxs[id], ac, prng)
		} else {
			_, err = g.GennaroRunner(ctxs[id], ac, kg.comp, prng)
		}
		if err != nil {
			return true
		}
	}
	return false
}

// TestDisorderedHierarchy concentrates on hierarchical policies whose identifiers do NOT increase
// from level to level (ordinal IDs permuted across levels, so every disorder pattern of a small
// structure is drawn: interleaved levels, a low level below a high one, one stray member). The
// property is two-sided: the library may REFUSE such a structure when the key generation is set
// up (nothing was generated, the case is trivial and cheap), but whenever it accepts one, the run
// must satisfy the full C03 oracle - one consistent key, qualified sets reconstruct the discrete
// logarithm of the public key and unqualified sets do not.
func TestDisorderedHierarchy(t *testing.T) {
	const test = "DisorderedHierarchy"
	groups := proto.GroupNames()
	vlib.Check(t, 480, func(t *rapid.T) {
		p := policy.Draw(t, policy.Opts{MaxN: 5, Families: []string{policy.Hier}})
		g := proto.GroupByName(rapid.SampledFrom(groups).Draw(t, "group"))
		perm := rapid.Permutation(policy.DrawIDs(t, p, policy.Ordinal)).Draw(t, "idperm")
		ordered, monotoneMax := true, true
		var prevMax uint64
		for _, l := range p.Levels {
			var mx uint64
			for _, h := range l.Members {
				if perm[h] <= prevMax {
					ordered = false
				}
				if perm[h] > mx {
					mx = perm[h]
				}
			}
			if len(l.Members) > 0 && mx <= prevMax {
				monotoneMax = false
			}
			if mx > prevMax {
				prevMax = mx
			}
		}
		if ordered {
			vlib.Case(test, vlib.Desc("ordered", p.String()), false, "order=kept")
			return
		}
		kg := rapid.SampledFrom(keygens).Draw(t, "keygen")
		ctxSeed := rapid.Uint64().Draw(t, "ctxSeed")
		cls := fmt.Sprintf("level-maxima-increasing=%v", monotoneMax)
		if keygenRefuses(g, kg, p, perm, ctxSeed) {
			vlib.Case(test, vlib.Desc("refused", p.String(), fmt.Sprint(perm), kg.name), true, "outcome=refused", cls, "keygen="+kg.name)
			vlib.Sample("disordered-refused", map[string]any{"policy": p.String(), "ids": perm, "keygen": kg.name, "group": g.Name()})
			return
		}
		seeds := map[proto.ID]uint64{}
		for i, id := range proto.ToIDs(perm) {
			seeds[id] = rapid.Uint64().Draw(t, fmt.Sprintf("seed%d", i))
		}
		what := fmt.Sprintf("%s/%s/%s/disordered ids=%v", kg.name, g.Name(), p, perm)
		shards := runKeygen(t, g, kg, p, perm, seeds, ctxSeed)
		checkKeyMaterial(t, g, p, perm, shards, what)
		vlib.Case(test, vlib.Desc("accepted", p.String(), fmt.Sprint(perm), kg.name), true, "outcome=accepted-and-correct", cls, "keygen="+kg.name)
		vlib.Sample("disordered-accepted", map[string]any{"policy": p.String(), "ids": perm, "keygen": kg.name, "group": g.Name()})
	})
}
