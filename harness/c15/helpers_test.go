package c15

import (
	"bytes"
	"crypto/sha1"
	"crypto/sha256"
	"crypto/sha3"
	"crypto/sha512"
	"embed"
	"encoding/hex"
	"encoding/json"
	"fmt"
	"hash"
	"math/big"
	"strings"

	"golang.org/x/crypto/blake2b"
	"pgregory.net/rapid"

	"verif/harness/vlib/refcurve"
)

// Pinned copies of published vectors (BIP-340 CSV, RFC 6979 A.2.5, the Mina legacy signatures of
// o1js, the Ethereum BLS vectors). They were copied out of /repo once so that a later change of
// the repository's test data cannot weaken these checks.
//
//go:embed testdata
var testdata embed.FS

func mustJSON(t fataler, path string, v any) {
	b, err := testdata.ReadFile(path)
	if err != nil {
		t.Fatalf("harness: cannot read %s: %v", path, err)
	}
	if err := json.Unmarshal(b, v); err != nil {
		t.Fatalf("harness: cannot parse %s: %v", path, err)
	}
}

type fataler interface {
	Fatalf(format string, args ...any)
	Helper()
}

func unhex(t fataler, s string) []byte {
	b, err := hex.DecodeString(strings.TrimPrefix(s, "0x"))
	if err != nil {
		t.Fatalf("harness: bad hex %q: %v", s, err)
	}
	return b
}

var (
	one = big.NewInt(1)
	two = big.NewInt(2)
)

// ---- messages (DESIGN §3.3) ------------------------------------------------------------------

var boundaryLens = []int{55, 56, 63, 64, 65, 111, 112, 128}

// genMsg draws a message and its class. allowEmpty=false replaces the empty message by 1 byte
// (BLS refuses empty messages by contract). The result is never nil.
func genMsg(t *rapid.T, label string, allowEmpty bool) ([]byte, string) {
	k := rapid.IntRange(0, 13).Draw(t, label+"Class")
	fill := func(n int) []byte {
		return rapid.SliceOfN(rapid.Byte(), n, n).Draw(t, label+"Bytes")
	}
	switch {
	case k == 0 && allowEmpty:
		return []byte{}, "empty"
	case k == 0 || k == 1:
		return fill(1), "1B"
	case k >= 2 && k <= 9:
		n := boundaryLens[k-2]
		return fill(n), fmt.Sprintf("len%d", n)
	case k == 10:
		n := rapid.IntRange(129, 4096).Draw(t, label+"Len")
		// a long message: drawn head, deterministic tail (keeps rapid's bitstream short)
		head := fill(32)
		out := make([]byte, n)
		for i := range out {
			out[i] = head[i%32] ^ byte(i>>5)
		}
		return out, "long"
	case k == 11:
		n := rapid.SampledFrom([]int{1, 32, 55, 56, 64, 128, 1000}).Draw(t, label+"Len")
		return make([]byte, n), "zeros"
	case k == 12:
		n := rapid.SampledFrom([]int{1, 32, 55, 56, 64, 128, 1000}).Draw(t, label+"Len")
		return bytes.Repeat([]byte{0xff}, n), "ff"
	default:
		n := rapid.IntRange(2, 54).Draw(t, label+"Len")
		return fill(n), "short"
	}
}

// flipBit returns a copy of m with one drawn bit flipped; an empty message gets one byte appended.
func flipBit(t *rapid.T, m []byte) []byte {
	if len(m) == 0 {
		return []byte{rapid.Byte().Draw(t, "appended")}
	}
	out := bytes.Clone(m)
	i := rapid.IntRange(0, len(m)*8-1).Draw(t, "bit")
	out[i/8] ^= 1 << (i % 8)
	return out
}

// alterMsg: bit flip, one byte appended, last byte dropped.
func alterMsg(t *rapid.T, m []byte) ([]byte, string) {
	switch rapid.IntRange(0, 3).Draw(t, "msgAlt") {
	case 0:
		return append(bytes.Clone(m), 0), "msg-append0"
	case 1:
		if len(m) > 0 {
			return bytes.Clone(m[:len(m)-1]), "msg-truncate"
		}
	}
	return flipBit(t, m), "msg-bit"
}

// ---- scalars -----------------------------------------------------------------------------------

// genScalar draws k in [1, n-1] with the classes {1, n-1, 2, n-2, drawn}.
func genScalar(t *rapid.T, label string, n *big.Int) (*big.Int, string) {
	switch rapid.IntRange(0, 9).Draw(t, label+"Class") {
	case 0:
		return big.NewInt(1), "one"
	case 1:
		return new(big.Int).Sub(n, one), "order-1"
	case 2:
		return big.NewInt(2), "two"
	default:
		return drawnScalar(t, label, n), "drawn"
	}
}

// drawnScalar is a uniform-looking element of [1, n-1].
func drawnScalar(t *rapid.T, label string, n *big.Int) *big.Int {
	b := rapid.SliceOfN(rapid.Byte(), 40, 40).Draw(t, label)
	k := new(big.Int).SetBytes(b)
	k.Mod(k, new(big.Int).Sub(n, one))
	return k.Add(k, one)
}

func be(k *big.Int, n int) []byte { return k.FillBytes(make([]byte, n)) }

func reversed(b []byte) []byte {
	out := make([]byte, len(b))
	for i := range b {
		out[len(b)-1-i] = b[i]
	}
	return out
}

// ---- hashes ------------------------------------------------------------------------------------

type hashSpec struct {
	name string
	new  func() hash.Hash
}

func blake2b256() hash.Hash {
	h, err := blake2b.New256(nil)
	if err != nil {
		panic(err)
	}
	return h
}

var hashSpecs = []hashSpec{
	{"sha256", sha256.New},
	{"sha512", sha512.New},
	{"sha3-256", func() hash.Hash { return sha3.New256() }},
	{"sha384", sha512.New384},
	{"sha224", sha256.New224},
	{"sha1", sha1.New},
	{"blake2b-256", blake2b256},
}

func digestOf(h hashSpec, parts ...[]byte) []byte {
	x := h.new()
	for _, p := range parts {
		x.Write(p)
	}
	return x.Sum(nil)
}

// ---- reference points --------------------------------------------------------------------------

func samePoint(c *refcurve.Curve, a, b refcurve.Point) bool { return c.Equal(a, b) }

// The library's Pasta curves use the generators of the Mina protocol (o1-labs proof-systems /
// o1js: Pallas.one and Vesta.one, both with x = 1), not the (-1, 2) of the Zcash pasta_curves
// crate that vlib/refcurve carries. The coordinates below are typed in from the Mina
// documentation (decimal, as o1js prints them); the model curves are copies with G replaced.
func minaGenerator(c *refcurve.Curve, yDec string) *refcurve.Curve {
	y, ok := new(big.Int).SetString(yDec, 10)
	if !ok {
		panic("bad constant")
	}
	cc := *c
	g, err := c.FromAffine(big.NewInt(1), y)
	if err != nil {
		panic("mina generator is not on " + c.Name)
	}
	cc.G = g
	return &cc
}

var (
	refPallasMina = minaGenerator(refcurve.Pallas(), "12418654782883325593414442427049395787963493412651469444558597405572177144507")
	refVestaMina  = minaGenerator(refcurve.Vesta(), "11426906929455361843568202299992114520848200991084027513389447476559454104162")
)

// noPointX returns the least x >= start (mod p) that is not the abscissa of a curve point.
func noPointX(c *refcurve.Curve, start *big.Int) *big.Int {
	x := new(big.Int).Mod(start, c.P)
	for {
		if _, ok := c.LiftX(x, false); !ok {
			return x
		}
		x = new(big.Int).Add(x, one)
		x.Mod(x, c.P)
	}
}

// flatPick chooses one element with (nearly) equal probability. rapid's integer and SampledFrom
// generators favour small indices by design, which starves the tail of a 20-item class list when
// a test has only ~100 cases; eight unbiased Bool draws give an index in 0..255, reduced mod len.
func flatPick[T any](t *rapid.T, label string, items []T) T {
	ix := 0
	for i := 0; i < 8; i++ {
		ix <<= 1
		if rapid.Bool().Draw(t, label+"Bit") {
			ix |= 1
		}
	}
	return items[ix%len(items)]
}
