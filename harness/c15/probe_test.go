package c15

import (
	"crypto"
	"crypto/sha256"
	"fmt"
	"testing"

	"github.com/bronlabs/bron-crypto/pkg/base/curves/k256"
	"github.com/bronlabs/bron-crypto/pkg/base/curves/pasta"
	"github.com/bronlabs/bron-crypto/pkg/base/curves/edwards25519"
	"github.com/bronlabs/bron-crypto/pkg/signatures/ecdsa"
	"verif/harness/vlib"
)

func TestProbe(t *testing.T) {
	{
		c := k256.NewCurve()
		s, err := ecdsa.NewDeterministicSuite(c, crypto.SHA256)
		fmt.Println("detsuite", err)
		sk, pk, err := ecdsa.NewKeyGenerator(c).Generate(vlib.NewPRNG(1, "k"))
		fmt.Println(err)
		sg, err := ecdsa.NewSigner(s, sk, nil)
		fmt.Println(err)
		sig, err := sg.Sign([]byte("x"))
		fmt.Println("k256 det sign:", sig, err)
		_ = pk
	}
	{
		c := pasta.NewPallasCurve()
		s, err := ecdsa.NewSuite(c, sha256.New)
		fmt.Println("suite", err)
		sk, pk, err := ecdsa.NewKeyGenerator(c).Generate(vlib.NewPRNG(1, "k"))
		fmt.Println(err)
		sg, err := ecdsa.NewSigner(s, sk, vlib.NewPRNG(2, "s"))
		fmt.Println(err)
		sig, err := sg.Sign([]byte("x"))
		fmt.Println("pallas sign:", err)
		vf, _ := ecdsa.NewVerifier(s)
		fmt.Println("verify", vf.Verify(sig, pk, []byte("x")))
		fmt.Printf("r=%x s=%x v=%d\n", sig.R().Bytes(), sig.S().Bytes(), *sig.V())
		x, _ := pk.Value().AffineX()
		fmt.Printf("x=%x bytes=%x\n", x.Bytes(), pk.Value().Bytes())
	}
	{
		g := edwards25519.NewPrimeSubGroup()
		p := g.Generator()
		fmt.Printf("ed gen bytes=%x\n", p.Bytes())
		sf := edwards25519.NewScalarField()
		sc := sf.One()
		fmt.Printf("ed one bytes=%x\n", sc.Bytes())
		w, err := sf.FromWideBytes([]byte{1, 0})
		fmt.Printf("ed widebytes {1,0} -> %s %v\n", w.Cardinal().Big(), err)
	}
}
