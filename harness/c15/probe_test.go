package c15

import (
	"fmt"
	"testing"

	"github.com/bronlabs/bron-crypto/pkg/signatures/bls"
)

func TestProbe(t *testing.T) {
	e := blsShort
	sch, _ := e.scheme(bls.Basic)
	sk1, _ := bls.NewPrivateKey(e.keyGrp, blsScalar(t, blsOrder.Rsh(blsOrder, 3)))
	sk2, _ := bls.NewPrivateKey(e.keyGrp, blsScalar(t, blsOrder.Rsh(blsOrder, 5)))
	s1, _ := sch.Signer(sk1)
	s2, _ := sch.Signer(sk2)
	a, _ := s1.Sign([]byte("m1"))
	_, _ = s2.Sign([]byte("m2"))
	vf, _ := sch.Verifier()
	err := vf.AggregateVerify(a, []*bls.PublicKey[tG1, tF1, tG2, tF2, tGT, tSC]{sk1.PublicKey(), e.identityKey()}, [][]byte{[]byte("m1"), []byte("m2")})
	fmt.Println("aggverify with identity key:", err)
}
