package c15

import (
	"bytes"
	"fmt"
	"math/big"
	"sync"
	"testing"

	"pgregory.net/rapid"

	"github.com/bronlabs/bron-crypto/pkg/base/algebra"
	"github.com/bronlabs/bron-crypto/pkg/base/curves"
	"github.com/bronlabs/bron-crypto/pkg/base/curves/pairable"
	"github.com/bronlabs/bron-crypto/pkg/base/curves/pairable/bls12381"
	"github.com/bronlabs/bron-crypto/pkg/signatures"
	"github.com/bronlabs/bron-crypto/pkg/signatures/bls"
	"verif/harness/vlib"
	"verif/harness/vlib/refcurve"
)

// BLS. There is no second pairing implementation offline, so the oracle has three layers:
//   - expected verdict BY CONSTRUCTION of the case (honest material plus one known alteration),
//   - a harness-side recomposition of the draft's CoreVerify / CoreAggregateVerify / PopVerify from
//     primitives (library hash-to-curve and pairing - owned by C19 / C14 -, DSTs typed in from the
//     draft, message augmentation and public-key bytes from the refcurve ZCash encoder, identity
//     and subgroup status known from how each point was built in the model),
//   - model arithmetic for everything that is not a pairing: pk = [sk]G, sig = [sk]H(m),
//     aggregate = sum of the signatures, compared byte for byte with the library's output.

type (
	tG1 = *bls12381.PointG1
	tF1 = *bls12381.BaseFieldElementG1
	tG2 = *bls12381.PointG2
	tF2 = *bls12381.BaseFieldElementG2
	tGT = *bls12381.GtElement
	tSC = *bls12381.Scalar
)

// ciphersuite identifiers of draft-irtf-cfrg-bls-signature section 4.2, typed in from the draft
func draftDST(alg bls.RogueKeyPreventionAlgorithm, sigGroup string) string {
	tag := map[bls.RogueKeyPreventionAlgorithm]string{bls.Basic: "NUL", bls.MessageAugmentation: "AUG", bls.POP: "POP"}[alg]
	return "BLS_SIG_BLS12381" + sigGroup + "_XMD:SHA-256_SSWU_RO_" + tag + "_"
}
func draftPopDST(sigGroup string) string {
	return "BLS_POP_BLS12381" + sigGroup + "_XMD:SHA-256_SSWU_RO_POP_"
}

var algNames = map[bls.RogueKeyPreventionAlgorithm]string{bls.Basic: "basic", bls.MessageAugmentation: "aug", bls.POP: "pop"}
var allAlgs = []bls.RogueKeyPreventionAlgorithm{bls.Basic, bls.MessageAugmentation, bls.POP}

type blsEnv[
	PK curves.PairingFriendlyPoint[PK, PKFE, SG, SGFE, tGT, tSC], PKFE algebra.FieldElement[PKFE],
	SG curves.PairingFriendlyPoint[SG, SGFE, PK, PKFE, tGT, tSC], SGFE algebra.FieldElement[SGFE],
] struct {
	name     string // "short" (keys in G1, signatures in G2) / "long"
	sigGroup string // "G2" / "G1" as it appears in the ciphersuite identifier
	keyGrp   curves.PairingFriendlyCurve[PK, PKFE, SG, SGFE, tGT, tSC]
	sigGrp   curves.PairingFriendlyCurve[SG, SGFE, PK, PKFE, tGT, tSC]
	refKey   *refcurve.Curve
	refSig   *refcurve.Curve
	scheme   func(alg bls.RogueKeyPreventionAlgorithm) (*bls.Scheme[PK, PKFE, SG, SGFE, tGT, tSC], error)
	keyToRef func(fataler, PK) refcurve.Point
	sigToRef func(fataler, SG) refcurve.Point
	torsion  func(fataler) PK // a non-neutral point of the key curve killed by the cofactor (outside the subgroup)
}

var fam = pairable.NewBLS12381()

func g2ToRef(t fataler, p *bls12381.PointG2) refcurve.Point {
	if p.IsOpIdentity() {
		return refcurve.Infinity()
	}
	x, err := p.AffineX()
	if err != nil {
		t.Fatalf("AffineX: %v", err)
	}
	y, err := p.AffineY()
	if err != nil {
		t.Fatalf("AffineY: %v", err)
	}
	xb, yb := x.Bytes(), y.Bytes()
	q, err := refcurve.BLS12381G2().FromAffineBytesBEFp2(xb[:48], xb[48:], yb[:48], yb[48:])
	if err != nil {
		t.Fatalf("G2: library point not on the curve in the model: %v", err)
	}
	return q
}

var (
	torsionOnce [2]sync.Once
	torsionG1   *bls12381.PointG1
	torsionG2   *bls12381.PointG2
)

// g1Torsion: a point of E(F_p) of order dividing the cofactor, found in the model. No public
// decoder or constructor of G1 admits a point outside the subgroup (FromAffine / FromAffineX /
// FromCompressed / FromUncompressed all check - FromAffineX since the fix "G1.FromAffineX returns
// points outside the prime-order subgroup"), so the point is written through the exported
// low-level setter PointG1.V.SetAffine, and it is checked that FromAffineX now refuses it.
func g1Torsion(t fataler) *bls12381.PointG1 {
	torsionOnce[0].Do(func() {
		c := refcurve.BLS12381G1()
		T, ok := c.CofactorPoint(7)
		if !ok || T.Inf || c.IsInPrimeSubgroup(T) || !c.IsSmallOrder(T) {
			return
		}
		xb, yb := c.AffineBytesBE(T)
		x, err := bls12381.NewG1BaseField().FromBytes(xb)
		if err != nil {
			return
		}
		y, err := bls12381.NewG1BaseField().FromBytes(yb)
		if err != nil {
			return
		}
		var p bls12381.PointG1
		if ok := p.V.SetAffine(&x.V, &y.V); ok != 1 {
			return
		}
		torsionG1 = &p
		if q, err := bls12381.NewG1().FromAffineX(x, T.Y.Bit(0) == 1); err == nil && !q.IsTorsionFree() {
			vlib.Note("bls12381.G1.FromAffineX returns a point outside the prime-order subgroup without an error (public constructor; C13 / C14 territory)")
		}
	})
	if torsionG1 == nil {
		t.Fatalf("harness: could not build a G1 cofactor-torsion point")
	}
	if !refcurve.BLS12381G1().IsSmallOrder(g1ToRef(t, torsionG1)) || torsionG1.IsTorsionFree() {
		t.Fatalf("harness: G1 torsion point was not transported faithfully")
	}
	return torsionG1
}

// g2Torsion: the same on the twist. No public decoder or constructor of G2 admits a point outside
// the subgroup (FromAffine / FromCompressed / FromUncompressed all check), so the point is written
// through the exported low-level setter PointG2.V.SetAffine.
func g2Torsion(t fataler) *bls12381.PointG2 {
	torsionOnce[1].Do(func() {
		c := refcurve.BLS12381G2()
		T, ok := c.CofactorPoint(3)
		if !ok || T.Inf || c.IsInPrimeSubgroup(T) {
			return
		}
		bf := bls12381.NewG2BaseField()
		x, err := bf.FromBytes(append(be(T.X, 48), be(T.X1, 48)...))
		if err != nil {
			return
		}
		y, err := bf.FromBytes(append(be(T.Y, 48), be(T.Y1, 48)...))
		if err != nil {
			return
		}
		var p bls12381.PointG2
		if ok := p.V.SetAffine(&x.V, &y.V); ok != 1 {
			return
		}
		torsionG2 = &p
	})
	if torsionG2 == nil {
		t.Fatalf("harness: could not build a G2 cofactor-torsion point")
	}
	if !refcurve.BLS12381G2().Equal(g2ToRef(t, torsionG2), mustCofactorG2()) || torsionG2.IsTorsionFree() {
		t.Fatalf("harness: G2 torsion point was not transported faithfully")
	}
	return torsionG2
}

func mustCofactorG2() refcurve.Point {
	T, _ := refcurve.BLS12381G2().CofactorPoint(3)
	return T
}

var blsShort = &blsEnv[tG1, tF1, tG2, tF2]{
	name: "short", sigGroup: "G2", keyGrp: fam.SourceSubGroup(), sigGrp: fam.TwistedSubGroup(),
	refKey: refcurve.BLS12381G1(), refSig: refcurve.BLS12381G2(),
	scheme: func(alg bls.RogueKeyPreventionAlgorithm) (*bls.Scheme[tG1, tF1, tG2, tF2, tGT, tSC], error) {
		return bls.NewShortKeyScheme(fam, alg)
	},
	keyToRef: g1ToRef, sigToRef: g2ToRef, torsion: g1Torsion,
}

var blsLong = &blsEnv[tG2, tF2, tG1, tF1]{
	name: "long", sigGroup: "G1", keyGrp: fam.TwistedSubGroup(), sigGrp: fam.SourceSubGroup(),
	refKey: refcurve.BLS12381G2(), refSig: refcurve.BLS12381G1(),
	scheme: func(alg bls.RogueKeyPreventionAlgorithm) (*bls.Scheme[tG2, tF2, tG1, tF1, tGT, tSC], error) {
		return bls.NewLongKeyScheme(fam, alg)
	},
	keyToRef: g2ToRef, sigToRef: g1ToRef, torsion: g2Torsion,
}

var blsOrder = refcurve.BLS12381G1().N

// hKey / hSig: a point together with what the harness knows about it by construction.
type hKey[PK any] struct {
	v     PK
	inSub bool
	ident bool
}

func blsScalar(t fataler, k *big.Int) *bls12381.Scalar {
	s, err := bls12381.NewScalarField().FromBytes(be(k, 32))
	if err != nil {
		t.Fatalf("harness: bls scalar: %v", err)
	}
	if s.Cardinal().Big().Cmp(k) != 0 {
		t.Fatalf("harness: bls scalar conversion")
	}
	return s
}

// coreVerify is CoreVerify of the draft recomposed by the harness.
func (e *blsEnv[PK, PKFE, SG, SGFE]) coreVerify(t fataler, pk hKey[PK], msg []byte, sig SG, sigIdent bool, dst string) bool {
	if pk.ident || !pk.inSub || sigIdent {
		return false
	}
	hm, err := e.sigGrp.HashWithDst(dst, msg)
	if err != nil {
		t.Fatalf("HashWithDst: %v", err)
	}
	out, err := e.sigGrp.MultiPair([]SG{hm, sig}, []PK{pk.v.Neg(), e.keyGrp.Generator()})
	if err != nil {
		t.Fatalf("MultiPair: %v", err)
	}
	return out.IsOpIdentity()
}

// keyBytes is the ZCash compressed encoding of the key, from the model.
func (e *blsEnv[PK, PKFE, SG, SGFE]) keyBytes(t fataler, pk PK) []byte {
	return e.refKey.EncodeZcash(e.keyToRef(t, pk), true)
}

func (e *blsEnv[PK, PKFE, SG, SGFE]) effMsg(t fataler, alg bls.RogueKeyPreventionAlgorithm, pk PK, msg []byte) []byte {
	if alg == bls.MessageAugmentation {
		return append(e.keyBytes(t, pk), msg...)
	}
	return msg
}

type blsSigner[
	PK curves.PairingFriendlyPoint[PK, PKFE, SG, SGFE, tGT, tSC], PKFE algebra.FieldElement[PKFE],
	SG curves.PairingFriendlyPoint[SG, SGFE, PK, PKFE, tGT, tSC], SGFE algebra.FieldElement[SGFE],
] struct {
	d      *big.Int
	sk     *bls.PrivateKey[PK, PKFE, SG, SGFE, tGT, tSC]
	pk     *bls.PublicKey[PK, PKFE, SG, SGFE, tGT, tSC]
	signer *bls.Signer[PK, PKFE, SG, SGFE, tGT, tSC]
	class  string
}

// newSigner builds a key pair (explicit scalar classes, or the library's KeyGen from a drawn
// seed) and checks pk = [sk]G against the model, byte for byte.
func (e *blsEnv[PK, PKFE, SG, SGFE]) newSigner(t *rapid.T, sch *bls.Scheme[PK, PKFE, SG, SGFE, tGT, tSC], label string, opts ...bls.SignerOption[PK, PKFE, SG, SGFE, tGT, tSC]) *blsSigner[PK, PKFE, SG, SGFE] {
	out := &blsSigner[PK, PKFE, SG, SGFE]{}
	var err error
	if rapid.IntRange(0, 3).Draw(t, label+"ViaKeygen") == 0 {
		kg, err := sch.Keygen()
		if err != nil {
			t.Fatalf("Keygen: %v", err)
		}
		out.sk, out.pk, err = kg.Generate(vlib.NewPRNG(rapid.Uint64().Draw(t, label+"Seed"), "c15/bls/keygen"))
		if err != nil {
			t.Fatalf("Generate: %v", err)
		}
		out.d, out.class = out.sk.Value().Cardinal().Big(), "keygen"
	} else {
		out.d, out.class = genScalar(t, label, blsOrder)
		if out.sk, err = bls.NewPrivateKey(e.keyGrp, blsScalar(t, out.d)); err != nil {
			t.Fatalf("NewPrivateKey(%s): %v", out.d, err)
		}
		out.pk = out.sk.PublicKey()
	}
	if want := e.refKey.EncodeZcash(e.refKey.ScalarBaseMul(out.d), true); !bytes.Equal(out.pk.Bytes(), want) {
		t.Fatalf("bls/%s: public key of sk=%s is %x, model says %x", e.name, out.d, out.pk.Bytes(), want)
	}
	if out.signer, err = sch.Signer(out.sk, opts...); err != nil {
		t.Fatalf("Signer: %v", err)
	}
	return out
}

// checkSig: sig = [sk] H(effective message) in the model, with H from the library under the draft's DST.
func (e *blsEnv[PK, PKFE, SG, SGFE]) checkSig(t fataler, d *big.Int, effMsg []byte, dst string, sig SG, what string) {
	hm, err := e.sigGrp.HashWithDst(dst, effMsg)
	if err != nil {
		t.Fatalf("HashWithDst: %v", err)
	}
	want := e.refSig.EncodeZcash(e.refSig.ScalarMul(e.sigToRef(t, hm), d), true)
	if !bytes.Equal(sig.ToCompressed(), want) {
		t.Fatalf("bls/%s: %s is %x, the model's [sk]H(m) under %q is %x", e.name, what, sig.ToCompressed(), dst, want)
	}
}

func (e *blsEnv[PK, PKFE, SG, SGFE]) identityKey() *bls.PublicKey[PK, PKFE, SG, SGFE, tGT, tSC] {
	return &bls.PublicKey[PK, PKFE, SG, SGFE, tGT, tSC]{PublicKeyTrait: signatures.PublicKeyTrait[PK, tSC]{V: e.keyGrp.OpIdentity()}}
}

func (e *blsEnv[PK, PKFE, SG, SGFE]) rawKey(v PK) *bls.PublicKey[PK, PKFE, SG, SGFE, tGT, tSC] {
	return &bls.PublicKey[PK, PKFE, SG, SGFE, tGT, tSC]{PublicKeyTrait: signatures.PublicKeyTrait[PK, tSC]{V: v}}
}

// identitySig: the only way to an identity signature object is aggregation of sigma and -sigma.
func (e *blsEnv[PK, PKFE, SG, SGFE]) identitySig(t *rapid.T, sig *bls.Signature[SG, SGFE, PK, PKFE, tGT, tSC]) *bls.Signature[SG, SGFE, PK, PKFE, tGT, tSC] {
	a, err := bls.NewSignature[SG, SGFE, PK, PKFE, tGT, tSC](sig.Value(), nil)
	if err != nil {
		t.Fatalf("NewSignature: %v", err)
	}
	b, err := bls.NewSignature[SG, SGFE, PK, PKFE, tGT, tSC](sig.Value().Neg(), nil)
	if err != nil {
		t.Fatalf("NewSignature(-sig): %v", err)
	}
	z, err := a.TryAdd(b)
	if err != nil {
		t.Skip("TryAdd refuses to produce the identity")
	}
	if !z.Value().IsOpIdentity() {
		t.Fatalf("sigma + (-sigma) is not the identity")
	}
	return z
}

func blsSingleCase[
	PK curves.PairingFriendlyPoint[PK, PKFE, SG, SGFE, tGT, tSC], PKFE algebra.FieldElement[PKFE],
	SG curves.PairingFriendlyPoint[SG, SGFE, PK, PKFE, tGT, tSC], SGFE algebra.FieldElement[SGFE],
](t *rapid.T, test string, e *blsEnv[PK, PKFE, SG, SGFE]) {
	alt := flatPick(t, "alt", []string{
		"msg", "sig-other-msg", "sig-neg", "sig+G", "sig-identity", "pk-other", "pk-neg", "pk+torsion", "pk-identity",
		"pop-other-key", "pop-missing", "pop-msg-dst", "dst-custom-match", "dst-custom-mismatch", "dst-other-alg", "mode-mismatch", "empty-msg",
	})
	alg := flatPick(t, "alg", allAlgs)
	if alt == "pop-other-key" || alt == "pop-missing" || alt == "pop-msg-dst" {
		alg = bls.POP // proof-of-possession alterations need the POP scheme
	}
	if alt == "pk+torsion" && rapid.Bool().Draw(t, "isolate") {
		alg = bls.Basic // no second line of defence (AugmentMessage / PopVerify) behind the subgroup check
	}
	msg, msgClass := genMsg(t, "msg", false)
	sch, err := e.scheme(alg)
	if err != nil {
		t.Fatalf("scheme: %v", err)
	}
	customDST := "C15-CUSTOM-DST-" + e.sigGroup
	var sopts []bls.SignerOption[PK, PKFE, SG, SGFE, tGT, tSC]
	signDST := draftDST(alg, e.sigGroup)
	if alt == "dst-custom-match" || alt == "dst-custom-mismatch" {
		sopts = append(sopts, bls.SignWithCustomDST[PK, PKFE, SG, SGFE, tGT, tSC](customDST))
		signDST = customDST
	}
	sg := e.newSigner(t, sch, "sk", sopts...)
	sig, err := sg.signer.Sign(msg)
	if err != nil {
		t.Fatalf("bls/%s/%s: Sign(sk=%s, msg=%s): %v", e.name, algNames[alg], sg.d, vlib.Hex(msg), err)
	}
	where := fmt.Sprintf("bls/%s/%s sk=%s msg=%s", e.name, algNames[alg], sg.d, vlib.Hex(msg))
	// model: signature and proof of possession
	e.checkSig(t, sg.d, e.effMsg(t, alg, sg.pk.Value(), msg), signDST, sig.Value(), "signature")
	if (alg == bls.POP) != (sig.Pop() != nil) {
		t.Fatalf("%s: proof of possession attached = %v", where, sig.Pop() != nil)
	}
	if alg == bls.POP {
		e.checkSig(t, sg.d, e.keyBytes(t, sg.pk.Value()), draftPopDST(e.sigGroup), sig.Pop().Value(), "proof of possession")
	}
	// honest verification (skipped for the custom-DST classes, where it is the case itself)
	if signDST != customDST {
		vf, err := sch.Verifier()
		if err != nil {
			t.Fatalf("Verifier: %v", err)
		}
		if err := vf.Verify(sig, sg.pk, msg); err != nil {
			t.Fatalf("%s: the library rejects its own signature: %v", where, err)
		}
		hk := hKey[PK]{v: sg.pk.Value(), inSub: true}
		if !e.coreVerify(t, hk, e.effMsg(t, alg, sg.pk.Value(), msg), sig.Value(), false, signDST) {
			t.Fatalf("%s: the recomposed CoreVerify rejects the library's signature", where)
		}
		if alg == bls.POP && !e.coreVerify(t, hk, e.keyBytes(t, sg.pk.Value()), sig.Pop().Value(), false, draftPopDST(e.sigGroup)) {
			t.Fatalf("%s: the recomposed PopVerify rejects the library's proof", where)
		}
	}

	// ONE alteration
	valg := alg
	vDST := draftDST(alg, e.sigGroup) // what the verifier will use
	var vopts []bls.VerifierOption[PK, PKFE, SG, SGFE, tGT, tSC]
	aSigV, aSigIdent := sig.Value(), false
	aPop := sig.Pop()
	aKey := hKey[PK]{v: sg.pk.Value(), inSub: true}
	aPK := sg.pk
	aMsg := msg
	expect := false
	otherSigner := func() *blsSigner[PK, PKFE, SG, SGFE] {
		o := e.newSigner(t, sch, "sk'")
		if o.d.Cmp(sg.d) == 0 {
			t.Skip("same key")
		}
		return o
	}
	switch alt {
	case "msg":
		aMsg, alt = alterMsg(t, msg)
		if len(aMsg) == 0 {
			alt = "empty-msg"
		}
	case "empty-msg":
		aMsg = []byte{}
	case "sig-other-msg":
		s2, err := sg.signer.Sign(flipBit(t, msg))
		if err != nil {
			t.Fatalf("Sign: %v", err)
		}
		aSigV = s2.Value()
	case "sig-neg":
		aSigV = sig.Value().Neg()
	case "sig+G":
		aSigV = sig.Value().Add(e.sigGrp.Generator())
	case "sig-identity":
		aSigIdent = true
	case "pk-other":
		o := otherSigner()
		aPK, aKey.v = o.pk, o.pk.Value()
	case "pk-neg":
		aKey.v = sg.pk.Value().Neg()
		if aPK, err = bls.NewPublicKey[PK, PKFE, SG, SGFE, tGT, tSC](aKey.v); err != nil {
			t.Fatalf("NewPublicKey(-pk): %v", err)
		}
	case "pk+torsion":
		aKey.v, aKey.inSub = sg.pk.Value().Add(e.torsion(t)), false
		aPK = e.rawKey(aKey.v)
		if _, err := bls.NewPublicKey[PK, PKFE, SG, SGFE, tGT, tSC](aKey.v); err == nil {
			t.Fatalf("%s: NewPublicKey accepts a point outside the subgroup", where)
		}
	case "pk-identity":
		aKey.ident = true
		aPK = e.identityKey()
		if _, err := bls.NewPublicKey[PK, PKFE, SG, SGFE, tGT, tSC](e.keyGrp.OpIdentity()); err == nil {
			t.Fatalf("%s: NewPublicKey accepts the identity", where)
		}
	case "pop-other-key", "pop-missing", "pop-msg-dst":
		switch alt {
		case "pop-other-key":
			o := otherSigner()
			s2, err := o.signer.Sign(msg)
			if err != nil {
				t.Fatalf("Sign: %v", err)
			}
			aPop = s2.Pop()
		case "pop-missing":
			aPop = nil
		case "pop-msg-dst":
			// a "proof" computed over the right bytes but with the signature DST instead of the PoP DST
			bsch, err := e.scheme(bls.Basic)
			if err != nil {
				t.Fatalf("scheme: %v", err)
			}
			bs, err := bsch.Signer(sg.sk, bls.SignWithCustomDST[PK, PKFE, SG, SGFE, tGT, tSC](draftDST(bls.POP, e.sigGroup)))
			if err != nil {
				t.Fatalf("Signer: %v", err)
			}
			ps, err := bs.Sign(e.keyBytes(t, sg.pk.Value()))
			if err != nil {
				t.Fatalf("Sign: %v", err)
			}
			if aPop, err = bls.NewProofOfPossession[SG, SGFE, PK, PKFE, tGT, tSC](ps.Value()); err != nil {
				t.Fatalf("NewProofOfPossession: %v", err)
			}
		}
	case "dst-custom-match":
		vopts = append(vopts, bls.VerifyWithCustomDST[PK, PKFE, SG, SGFE, tGT, tSC](customDST))
		vDST = customDST
		expect = true
	case "dst-custom-mismatch":
		// signed under the custom DST, verified under the scheme's default
	case "dst-other-alg":
		other := allAlgs[(int(alg))%3]
		vopts = append(vopts, bls.VerifyWithCustomDST[PK, PKFE, SG, SGFE, tGT, tSC](draftDST(other, e.sigGroup)))
		vDST = draftDST(other, e.sigGroup)
	case "mode-mismatch":
		valg = allAlgs[(int(alg))%3]
		vDST = draftDST(valg, e.sigGroup)
	}
	// objects
	vsch := sch
	if valg != alg {
		if vsch, err = e.scheme(valg); err != nil {
			t.Fatalf("scheme: %v", err)
		}
	}
	vf, err := vsch.Verifier(vopts...)
	if err != nil {
		t.Fatalf("Verifier: %v", err)
	}
	var aSig *bls.Signature[SG, SGFE, PK, PKFE, tGT, tSC]
	if aSigIdent {
		aSig = e.identitySig(t, sig)
	} else if aSig, err = bls.NewSignature(aSigV, aPop); err != nil {
		t.Fatalf("harness: NewSignature: %v", err)
	}
	// harness verdict
	hv := len(aMsg) > 0
	if hv {
		eff := aMsg
		if valg == bls.MessageAugmentation && aKey.inSub && !aKey.ident {
			eff = e.effMsg(t, valg, aKey.v, aMsg)
		}
		hv = e.coreVerify(t, aKey, eff, aSigV, aSigIdent, vDST)
		if hv && valg == bls.POP {
			hv = aPop != nil && e.coreVerify(t, aKey, e.keyBytes(t, aKey.v), aPop.Value(), false, draftPopDST(e.sigGroup))
		}
	}
	if hv != expect {
		t.Fatalf("%s; altered (%s): the draft's Verify recomposed over the library's hash-to-curve and pairing gives %v, the verdict expected by construction is %v", where, alt, hv, expect)
	}
	var got bool
	vlib.NoPanic(t, "bls Verify on "+alt, func() { got = vf.Verify(aSig, aPK, aMsg) == nil })
	if got != expect {
		t.Fatalf("%s; altered (%s), verified under %s: library accept=%v, expected %v", where, alt, algNames[valg], got, expect)
	}
	vlib.Case(test, vlib.Desc("bls", e.name+"/"+algNames[alg], "bls12381", "sha256-sswu", alt, 1), true,
		"variant="+e.name, "alg="+algNames[alg], "key="+sg.class, "msg="+msgClass, "alt="+alt, fmt.Sprintf("expected-valid=%v", expect))
	vlib.Sample("bls-single", map[string]any{"variant": e.name, "alg": algNames[alg], "key": sg.class, "msg": msgClass, "alt": alt})
}

// TestBLSSingle: Sign / Verify for short and long keys x {Basic, MessageAugmentation, POP}.
func TestBLSSingle(t *testing.T) {
	const test = "BLSSingle"
	vlib.Check(t, 100, func(t *rapid.T) {
		if rapid.Bool().Draw(t, "short") {
			blsSingleCase(t, test, blsShort)
		} else {
			blsSingleCase(t, test, blsLong)
		}
	})
}

func blsAggCase[
	PK curves.PairingFriendlyPoint[PK, PKFE, SG, SGFE, tGT, tSC], PKFE algebra.FieldElement[PKFE],
	SG curves.PairingFriendlyPoint[SG, SGFE, PK, PKFE, tGT, tSC], SGFE algebra.FieldElement[SGFE],
](t *rapid.T, test string, e *blsEnv[PK, PKFE, SG, SGFE]) {
	type sigT = *bls.Signature[SG, SGFE, PK, PKFE, tGT, tSC]
	type popT = *bls.ProofOfPossession[SG, SGFE, PK, PKFE, tGT, tSC]
	type pkT = *bls.PublicKey[PK, PKFE, SG, SGFE, tGT, tSC]
	alt := flatPick(t, "alt", []string{
		"none", "none", "none", "drop-sig", "drop-key", "foreign-signer", "swap-msgs", "swap-keys", "identity-key", "torsion-key",
		"identity-sig", "msg-bit", "pop-wrong", "pop-count", "pops-on-non-pop", "wrong-dst", "len-mismatch", "key-other", "identity-key-consistent", "dup-msg",
	})
	alg := flatPick(t, "alg", allAlgs)
	minN := 1
	layouts := []string{"distinct", "distinct", "same", "one-dup"}
	switch alt {
	case "pop-wrong", "pop-count":
		alg = bls.POP
	case "pops-on-non-pop":
		alg = rapid.SampledFrom([]bls.RogueKeyPreventionAlgorithm{bls.Basic, bls.MessageAugmentation}).Draw(t, "algNoPop")
	case "identity-key-consistent", "torsion-key":
		// under Basic with distinct messages the identity / subgroup check on the key is the ONLY
		// thing that rejects these (Aug and POP have a second line of defence in AugmentMessage / PopVerify)
		if rapid.IntRange(0, 2).Draw(t, "isolate") > 0 {
			alg, layouts = bls.Basic, []string{"distinct"}
		}
	}
	switch alt {
	case "drop-sig", "drop-key", "pop-wrong", "identity-key-consistent":
		minN = 2
	case "swap-msgs", "swap-keys":
		minN, layouts = 2, []string{"distinct", "one-dup"}
	}
	if alt == "pop-wrong" {
		layouts = []string{"distinct", "same", "one-dup"}
	}
	if alt == "dup-msg" {
		// honest aggregate in which two or all signers signed the same message: valid under
		// MessageAugmentation and POP, refused under Basic
		minN, layouts = 2, []string{"same", "one-dup"}
		if rapid.Bool().Draw(t, "dupUnderBasic") {
			alg = bls.Basic
		}
	}
	n := flatPick(t, "n", []int{1, 2, 3, 4, 5, 6}[minN-1:])
	if rapid.IntRange(1, 12).Draw(t, "moreSigners") == 12 {
		// "every signer set size": aggregation has no size limit; 1..6 is a budget choice (each signer
		// costs a hash to the curve, a signature and a pairing in pure Go), so larger sets are rare
		n = rapid.SampledFrom([]int{8, 9, 12}).Draw(t, "nBig")
	}
	layout := rapid.SampledFrom(layouts).Draw(t, "layout")
	sch, err := e.scheme(alg)
	if err != nil {
		t.Fatalf("scheme: %v", err)
	}
	base, _ := genMsg(t, "msg", false)
	var signers []*blsSigner[PK, PKFE, SG, SGFE]
	var msgs [][]byte
	var keys []hKey[PK]
	var pks []pkT
	var sigs []sigT
	var pops []popT
	seen := map[string]bool{}
	for i := 0; i < n; i++ {
		sg := e.newSigner(t, sch, fmt.Sprintf("sk%d", i))
		if seen[sg.d.String()] {
			t.Skip("repeated key")
		}
		seen[sg.d.String()] = true
		m := append(bytes.Clone(base), byte(i))
		if layout == "same" || (layout == "one-dup" && i == n-1 && n > 1) {
			m = append(bytes.Clone(base), 0)
		}
		s, err := sg.signer.Sign(m)
		if err != nil {
			t.Fatalf("Sign: %v", err)
		}
		signers, msgs, sigs, pks = append(signers, sg), append(msgs, m), append(sigs, s), append(pks, sg.pk)
		keys = append(keys, hKey[PK]{v: sg.pk.Value(), inSub: true})
		if alg == bls.POP {
			if s.Pop() == nil {
				t.Fatalf("bls/%s/pop: signature without proof of possession", e.name)
			}
			pops = append(pops, s.Pop())
			if i == 0 {
				e.checkSig(t, sg.d, e.keyBytes(t, sg.pk.Value()), draftPopDST(e.sigGroup), s.Pop().Value(), "proof of possession")
			}
		}
		if i == 0 {
			e.checkSig(t, sg.d, e.effMsg(t, alg, sg.pk.Value(), m), draftDST(alg, e.sigGroup), s.Value(), "signature")
		}
	}
	distinct := func(ms [][]byte) bool {
		s := map[string]bool{}
		for _, m := range ms {
			if s[string(m)] {
				return false
			}
			s[string(m)] = true
		}
		return true
	}
	agg, err := sch.AggregateSignatures(sigs...)
	if err != nil {
		t.Fatalf("AggregateSignatures: %v", err)
	}
	// aggregation recomputed in the model
	sum := e.refSig.Neutral()
	for _, s := range sigs {
		sum = e.refSig.Add(sum, e.sigToRef(t, s.Value()))
	}
	if want := e.refSig.EncodeZcash(sum, true); !bytes.Equal(agg.Bytes(), want) {
		t.Fatalf("bls/%s: aggregate of %d signatures is %x, the model's sum is %x", e.name, n, agg.Bytes(), want)
	}

	at := rapid.IntRange(0, n-1).Draw(t, "at")
	aSigV, aSigIdent := agg.Value(), false
	vDST := draftDST(alg, e.sigGroup)
	var vopts []bls.VerifierOption[PK, PKFE, SG, SGFE, tGT, tSC]
	lenMismatch := false
	switch alt {
	case "drop-sig":
		rest := append(append([]sigT{}, sigs[:at]...), sigs[at+1:]...)
		a2, err := sch.AggregateSignatures(rest...)
		if err != nil {
			t.Fatalf("AggregateSignatures: %v", err)
		}
		aSigV = a2.Value()
	case "drop-key":
		keys = append(keys[:at:at], keys[at+1:]...)
		pks = append(pks[:at:at], pks[at+1:]...)
		msgs = append(msgs[:at:at], msgs[at+1:]...)
		if alg == bls.POP {
			pops = append(pops[:at:at], pops[at+1:]...)
		}
	case "foreign-signer":
		f := e.newSigner(t, sch, "foreign")
		if seen[f.d.String()] {
			t.Skip("repeated key")
		}
		fs, err := f.signer.Sign(msgs[at])
		if err != nil {
			t.Fatalf("Sign: %v", err)
		}
		aSigV = agg.Value().Add(fs.Value())
	case "swap-msgs", "swap-keys":
		j := (at + 1) % n
		for k := 0; k < n && bytes.Equal(msgs[at], msgs[j]); k++ {
			j = (j + 1) % n
		}
		if bytes.Equal(msgs[at], msgs[j]) {
			t.Skip("nothing to swap")
		}
		if alt == "swap-msgs" {
			msgs[at], msgs[j] = msgs[j], msgs[at]
		} else {
			keys[at], keys[j] = keys[j], keys[at]
			pks[at], pks[j] = pks[j], pks[at]
			if alg == bls.POP {
				pops[at], pops[j] = pops[j], pops[at]
			}
		}
	case "identity-key":
		keys[at] = hKey[PK]{v: e.keyGrp.OpIdentity(), inSub: true, ident: true}
		pks[at] = e.identityKey()
	case "identity-key-consistent":
		// the identity key contributes e(O, H(m)) = 1: with that signer's signature left out of the
		// aggregate the pairing product holds, only the identity-key check can reject
		keys[at] = hKey[PK]{v: e.keyGrp.OpIdentity(), inSub: true, ident: true}
		pks[at] = e.identityKey()
		rest := append(append([]sigT{}, sigs[:at]...), sigs[at+1:]...)
		a2, err := sch.AggregateSignatures(rest...)
		if err != nil {
			t.Fatalf("AggregateSignatures: %v", err)
		}
		aSigV = a2.Value()
	case "torsion-key":
		// pk + T with T of cofactor order: e(T, H(m)) = 1, so the pairing product still holds and
		// only the subgroup check can reject
		keys[at] = hKey[PK]{v: keys[at].v.Add(e.torsion(t)), inSub: false}
		pks[at] = e.rawKey(keys[at].v)
	case "identity-sig":
		aSigIdent = true
	case "msg-bit":
		msgs[at] = flipBit(t, msgs[at])
	case "key-other":
		o := e.newSigner(t, sch, "other")
		if seen[o.d.String()] {
			t.Skip("repeated key")
		}
		keys[at] = hKey[PK]{v: o.pk.Value(), inSub: true}
		pks[at] = o.pk
		if alg == bls.POP {
			os, err := o.signer.Sign(msgs[at])
			if err != nil {
				t.Fatalf("Sign: %v", err)
			}
			pops[at] = os.Pop() // a VALID proof for the substituted key: only the signature check can fail
		}
	case "pop-wrong":
		pops[at] = pops[(at+1)%n]
	case "pop-count":
		pops = pops[:len(pops)-1]
	case "pops-on-non-pop":
		psch, err := e.scheme(bls.POP)
		if err != nil {
			t.Fatalf("scheme: %v", err)
		}
		for _, sg := range signers {
			ps, err := psch.Signer(sg.sk)
			if err != nil {
				t.Fatalf("Signer: %v", err)
			}
			s, err := ps.Sign(base)
			if err != nil {
				t.Fatalf("Sign: %v", err)
			}
			pops = append(pops, s.Pop())
		}
	case "wrong-dst":
		vDST = "C15-OTHER-DST"
		vopts = append(vopts, bls.VerifyWithCustomDST[PK, PKFE, SG, SGFE, tGT, tSC](vDST))
	case "len-mismatch":
		msgs = msgs[:len(msgs)-1]
		lenMismatch = true
	}
	if len(pops) > 0 {
		vopts = append(vopts, bls.VerifyWithProofsOfPossession[PK, PKFE, SG, SGFE, tGT, tSC](pops...))
	}
	// Secret keys that cancel on a common message (sk and r - sk) make the honest aggregate the
	// identity; AggregateVerify is documented to refuse the identity signature (and the draft's
	// KeyValidate refuses the identity aggregate key), so the expected verdict is "rejected".
	cancelled := false
	if !aSigIdent && aSigV.IsOpIdentity() {
		aSigIdent, cancelled = true, true
	}
	// harness verdict: rules of section 3, then the pairing product of CoreAggregateVerify
	hv := !lenMismatch && len(keys) > 0 && !aSigIdent
	for _, k := range keys {
		if k.ident || !k.inSub {
			hv = false
		}
	}
	if hv {
		switch alg {
		case bls.Basic:
			hv = len(pops) == 0 && distinct(msgs)
		case bls.MessageAugmentation:
			hv = len(pops) == 0
		case bls.POP:
			hv = len(pops) == len(keys)
			for i := 0; hv && i < len(keys); i++ {
				hv = e.coreVerify(t, keys[i], e.keyBytes(t, keys[i].v), pops[i].Value(), false, draftPopDST(e.sigGroup))
			}
		}
	}
	if hv {
		sgIn := make([]SG, 0, len(keys)+1)
		pkIn := make([]PK, 0, len(keys)+1)
		for i, k := range keys {
			hm, err := e.sigGrp.HashWithDst(vDST, e.effMsg(t, alg, k.v, msgs[i]))
			if err != nil {
				t.Fatalf("HashWithDst: %v", err)
			}
			sgIn, pkIn = append(sgIn, hm), append(pkIn, k.v)
		}
		sgIn, pkIn = append(sgIn, aSigV.Neg()), append(pkIn, e.keyGrp.Generator())
		out, err := e.sigGrp.MultiPair(sgIn, pkIn)
		if err != nil {
			t.Fatalf("MultiPair: %v", err)
		}
		hv = out.IsOpIdentity()
	}
	// expected by construction
	expect := false
	switch alt {
	case "none", "dup-msg":
		expect = (alg != bls.Basic || distinct(msgs)) && !cancelled
	case "swap-keys":
		// keys and their proofs moved together but messages stayed: wrong pairing of (key, message)
		expect = false
	}
	if hv != expect {
		t.Fatalf("bls/%s/%s n=%d (sk0=%s) layout=%s alt=%s: the draft's AggregateVerify recomposed over the library's hash-to-curve and pairing gives %v, the verdict expected by construction is %v", e.name, algNames[alg], n, signers[0].d, layout, alt, hv, expect)
	}
	vf, err := sch.Verifier(vopts...)
	if err != nil {
		t.Fatalf("Verifier: %v", err)
	}
	var aSig sigT
	if aSigIdent && agg.Value().IsOpIdentity() {
		aSig = agg // the identity signature object came out of the library's own AggregateSignatures
	} else if aSigIdent {
		aSig = e.identitySig(t, agg)
	} else if aSig, err = bls.NewSignature[SG, SGFE, PK, PKFE, tGT, tSC](aSigV, nil); err != nil {
		t.Fatalf("harness: NewSignature: %v", err)
	}
	var got bool
	vlib.NoPanic(t, "bls AggregateVerify on "+alt, func() { got = vf.AggregateVerify(aSig, pks, msgs) == nil })
	if got != expect {
		t.Fatalf("bls/%s/%s AggregateVerify: %d signers (sk0=%s), layout %s, alteration %s at %d: library accept=%v, expected %v",
			e.name, algNames[alg], n, signers[0].d, layout, alt, at, got, expect)
	}
	cls := alt
	if cancelled && (alt == "none" || alt == "dup-msg") {
		cls = "honest-aggregate-is-identity"
	} else if (alt == "none" || alt == "dup-msg") && !expect {
		cls = "duplicate-message-under-basic"
	} else if alt == "dup-msg" {
		cls = "duplicate-message-allowed"
	}
	vlib.Case(test, vlib.Desc("bls", e.name+"/"+algNames[alg]+"/aggregate/"+layout, "bls12381", "sha256-sswu", cls, n), true,
		"variant="+e.name, "alg="+algNames[alg], "layout="+layout, "alt="+cls, fmt.Sprintf("n=%d", n), fmt.Sprintf("expected-valid=%v", expect))
	vlib.Sample("bls-aggregate", map[string]any{"variant": e.name, "alg": algNames[alg], "n": n, "layout": layout, "alt": cls, "valid": expect})
}

// TestBLSAggregate: AggregateSignatures / AggregateVerify for 1-6 signers in every rogue-key mode,
// message layouts {all distinct, all equal (FastAggregateVerify path under POP), one duplicate},
// honest or with one bad contributor / argument.
func TestBLSAggregate(t *testing.T) {
	const test = "BLSAggregate"
	vlib.Check(t, 100, func(t *rapid.T) {
		if rapid.Bool().Draw(t, "short") {
			blsAggCase(t, test, blsShort)
		} else {
			blsAggCase(t, test, blsLong)
		}
	})
}

func blsBatchCase[
	PK curves.PairingFriendlyPoint[PK, PKFE, SG, SGFE, tGT, tSC], PKFE algebra.FieldElement[PKFE],
	SG curves.PairingFriendlyPoint[SG, SGFE, PK, PKFE, tGT, tSC], SGFE algebra.FieldElement[SGFE],
](t *rapid.T, test string, e *blsEnv[PK, PKFE, SG, SGFE]) {
	alg := flatPick(t, "alg", allAlgs)
	k := rapid.IntRange(1, 4).Draw(t, "k")
	if rapid.IntRange(1, 6).Draw(t, "moreMessages") == 6 {
		// the same-key aggregate is one algebrautils.MultiScalarMul over the k hashed messages: naive
		// up to 7 terms, bucketed (window bits.Len(k)) from 8 on; 7 / 8 / 9 sit around that switch,
		// 16 takes the next window width
		k = rapid.SampledFrom([]int{7, 8, 8, 9, 9, 16}).Draw(t, "kBig")
	}
	sch, err := e.scheme(alg)
	if err != nil {
		t.Fatalf("scheme: %v", err)
	}
	sg := e.newSigner(t, sch, "sk")
	base, _ := genMsg(t, "msg", false)
	var msgs [][]byte
	for i := 0; i < k; i++ {
		msgs = append(msgs, append(bytes.Clone(base), byte(i)))
	}
	where := fmt.Sprintf("bls/%s/%s sk=%s k=%d base=%s", e.name, algNames[alg], sg.d, k, vlib.Hex(base))
	batch, err := sg.signer.BatchSign(msgs...)
	if err != nil || len(batch) != k {
		t.Fatalf("%s: BatchSign: %d signatures, err=%v", where, len(batch), err)
	}
	vf, err := sch.Verifier()
	if err != nil {
		t.Fatalf("Verifier: %v", err)
	}
	sum := e.refSig.Neutral()
	for i, s := range batch {
		one, err := sg.signer.Sign(msgs[i])
		if err != nil || !bytes.Equal(one.Bytes(), s.Bytes()) {
			t.Fatalf("%s: BatchSign[%d] differs from Sign (err=%v)", where, i, err)
		}
		if err := vf.Verify(s, sg.pk, msgs[i]); err != nil {
			t.Fatalf("%s: BatchSign[%d] does not verify: %v", where, i, err)
		}
		if k > 1 {
			if err := vf.Verify(s, sg.pk, msgs[(i+1)%k]); err == nil {
				t.Fatalf("%s: BatchSign[%d] verifies for message %d", where, i, (i+1)%k)
			}
		}
		sum = e.refSig.Add(sum, e.sigToRef(t, s.Value()))
	}
	as, err := sg.signer.AggregateSign(msgs...)
	if err != nil {
		t.Fatalf("%s: AggregateSign: %v", where, err)
	}
	if want := e.refSig.EncodeZcash(sum, true); !bytes.Equal(as.Bytes(), want) {
		t.Fatalf("%s: AggregateSign gives %x, the model's sum of the individual signatures is %x", where, as.Bytes(), want)
	}
	pks := make([]*bls.PublicKey[PK, PKFE, SG, SGFE, tGT, tSC], k)
	var vopts []bls.VerifierOption[PK, PKFE, SG, SGFE, tGT, tSC]
	var pops []*bls.ProofOfPossession[SG, SGFE, PK, PKFE, tGT, tSC]
	for i := range pks {
		pks[i] = sg.pk
		if alg == bls.POP {
			pops = append(pops, as.Pop())
		}
	}
	if alg == bls.POP {
		if as.Pop() == nil {
			t.Fatalf("%s: AggregateSign under POP carries no proof", where)
		}
		vopts = append(vopts, bls.VerifyWithProofsOfPossession[PK, PKFE, SG, SGFE, tGT, tSC](pops...))
	}
	avf, err := sch.Verifier(vopts...)
	if err != nil {
		t.Fatalf("Verifier: %v", err)
	}
	plain, err := bls.NewSignature[SG, SGFE, PK, PKFE, tGT, tSC](as.Value(), nil)
	if err != nil {
		t.Fatalf("NewSignature: %v", err)
	}
	if err := avf.AggregateVerify(plain, pks, msgs); err != nil {
		t.Fatalf("%s: AggregateVerify rejects the AggregateSign output: %v", where, err)
	}
	alt := "none"
	if k > 1 {
		alt = flatPick(t, "alt", []string{"drop-message", "msg-bit"})
		m2 := append([][]byte{}, msgs...)
		p2 := pks
		if alt == "drop-message" {
			m2, p2 = m2[:k-1], pks[:k-1]
			if alg == bls.POP {
				avf, _ = sch.Verifier(bls.VerifyWithProofsOfPossession[PK, PKFE, SG, SGFE, tGT, tSC](pops[:k-1]...))
			}
		} else {
			m2[0] = flipBit(t, m2[0])
		}
		if err := avf.AggregateVerify(plain, p2, m2); err == nil {
			t.Fatalf("%s: AggregateVerify accepts the AggregateSign output after %s", where, alt)
		}
	}
	vlib.Case(test, vlib.Desc("bls", e.name+"/"+algNames[alg]+"/same-key-batch", "bls12381", "sha256-sswu", alt, k), true,
		"variant="+e.name, "alg="+algNames[alg], fmt.Sprintf("k=%d", k), "alt="+alt)
}

// TestBLSSameKeyBatch: BatchSign (k independent signatures) and AggregateSign (one signature over
// k messages) of one signer.
func TestBLSSameKeyBatch(t *testing.T) {
	const test = "BLSSameKeyBatch"
	vlib.Check(t, 30, func(t *rapid.T) {
		if rapid.Bool().Draw(t, "short") {
			blsBatchCase(t, test, blsShort)
		} else {
			blsBatchCase(t, test, blsLong)
		}
	})
}

// ---- published vectors (Ethereum consensus-spec BLS vectors: minimal-pubkey-size, POP ciphersuite DST) ----

func blsVectorFiles(t *testing.T, dir string) []string {
	ents, err := testdata.ReadDir("testdata/bls/" + dir)
	if err != nil {
		t.Fatalf("harness: %v", err)
	}
	var out []string
	for _, e := range ents {
		out = append(out, "testdata/bls/"+dir+"/"+e.Name())
	}
	return out
}

type ethVerifier = bls.Verifier[tG1, tF1, tG2, tF2, tGT, tSC]

func ethVerifierNew(t *testing.T) *ethVerifier {
	sch, err := bls.NewShortKeyScheme(fam, bls.Basic)
	if err != nil {
		t.Fatal(err)
	}
	vf, err := sch.Verifier(bls.VerifyWithCustomDST[tG1, tF1, tG2, tF2, tGT, tSC](draftDST(bls.POP, "G2")))
	if err != nil {
		t.Fatal(err)
	}
	return vf
}

// TestBLSVectors: every vector file of the pinned copy gives the published output. Stated
// deviation (documented on bls.NewSignature: "must be a valid, non-identity element"): the
// library refuses to decode the point at infinity as a signature, so the vector
// aggregate_infinity_signature (aggregate([inf]) = inf) ends in a decode error instead.
func TestBLSVectors(t *testing.T) {
	const test = "BLSVectors"
	g1, g2 := fam.SourceSubGroup(), fam.TwistedSubGroup()
	idx := 0
	mine := func() bool { idx++; return vlib.Mine(idx) }
	counts := map[string]int{}

	for _, f := range blsVectorFiles(t, "sign") {
		var v struct {
			Input  struct{ Privkey, Message string }
			Output *string
		}
		mustJSON(t, f, &v)
		counts["sign"]++
		if !mine() {
			continue
		}
		var got []byte
		sk, err := bls.NewPrivateKeyFromBytes(g1, unhex(t, v.Input.Privkey))
		if err == nil {
			sch, _ := bls.NewShortKeyScheme(fam, bls.Basic)
			sg, err := sch.Signer(sk, bls.SignWithCustomDST[tG1, tF1, tG2, tF2, tGT, tSC](draftDST(bls.POP, "G2")))
			if err != nil {
				t.Fatal(err)
			}
			if s, err := sg.Sign(unhex(t, v.Input.Message)); err == nil {
				got = s.Bytes()
			}
		}
		if (v.Output == nil) != (got == nil) || (got != nil && !bytes.Equal(got, unhex(t, *v.Output))) {
			t.Fatalf("%s: library output %x, published %v", f, got, v.Output)
		}
		vlib.Case(test, vlib.Desc("bls", "vector", f), true, "dir=sign", fmt.Sprintf("has-output=%v", v.Output != nil))
	}

	for _, f := range blsVectorFiles(t, "verify") {
		var v struct {
			Input  struct{ Pubkey, Message, Signature string }
			Output bool
		}
		mustJSON(t, f, &v)
		counts["verify"]++
		if !mine() {
			continue
		}
		got, stage := false, "pk-decode"
		if pk, err := bls.NewPublicKeyFromBytes(g1, unhex(t, v.Input.Pubkey)); err == nil {
			stage = "sig-decode"
			if sig, err := bls.NewSignatureFromBytes(g2, unhex(t, v.Input.Signature), nil); err == nil {
				stage = "verify"
				got = ethVerifierNew(t).Verify(sig, pk, unhex(t, v.Input.Message)) == nil
			}
		}
		if got != v.Output {
			t.Fatalf("%s: library accept=%v (%s), published %v", f, got, stage, v.Output)
		}
		vlib.Case(test, vlib.Desc("bls", "vector", f), true, "dir=verify", fmt.Sprintf("valid=%v", v.Output), "stage="+stage)
	}

	for _, f := range blsVectorFiles(t, "aggregate") {
		var v struct {
			Input  []string
			Output *string
		}
		mustJSON(t, f, &v)
		counts["aggregate"]++
		if !mine() {
			continue
		}
		var sigs []*bls.Signature[tG2, tF2, tG1, tF1, tGT, tSC]
		decodeErr := false
		hasInfinity := false
		for _, s := range v.Input {
			b := unhex(t, s)
			if b[0]&0x40 != 0 {
				hasInfinity = true
			}
			sig, err := bls.NewSignatureFromBytes(g2, b, nil)
			if err != nil {
				decodeErr = true
				break
			}
			sigs = append(sigs, sig)
		}
		var got []byte
		if !decodeErr {
			if a, err := bls.AggregateAll[tG1](sigs); err == nil {
				got = a.Bytes()
			}
		}
		switch {
		case hasInfinity:
			if !decodeErr {
				t.Fatalf("%s: an infinity signature was decoded (documented: refused)", f)
			}
			vlib.Note("bls vector " + f + ": the published output is the point at infinity; the library refuses identity signatures at decoding (documented on NewSignature) - asserted as a refusal")
		case (v.Output == nil) != (got == nil) || (got != nil && !bytes.Equal(got, unhex(t, *v.Output))):
			t.Fatalf("%s: library output %x, published %v", f, got, v.Output)
		}
		if got != nil {
			// and the model agrees
			c := refcurve.BLS12381G2()
			sum := c.Neutral()
			for _, s := range sigs {
				sum = c.Add(sum, g2ToRef(t, s.Value()))
			}
			if !bytes.Equal(c.EncodeZcash(sum, true), got) {
				t.Fatalf("%s: model aggregation differs", f)
			}
		}
		vlib.Case(test, vlib.Desc("bls", "vector", f), true, "dir=aggregate")
	}

	decodeKeys := func(hs []string) ([]*bls.PublicKey[tG1, tF1, tG2, tF2, tGT, tSC], bool) {
		var out []*bls.PublicKey[tG1, tF1, tG2, tF2, tGT, tSC]
		for _, h := range hs {
			pk, err := bls.NewPublicKeyFromBytes(g1, unhex(t, h))
			if err != nil {
				return nil, false
			}
			out = append(out, pk)
		}
		return out, true
	}
	for _, f := range blsVectorFiles(t, "aggregate_verify") {
		var v struct {
			Input struct {
				Pubkeys, Messages []string
				Signature         string
			}
			Output bool
		}
		mustJSON(t, f, &v)
		counts["aggregate_verify"]++
		if !mine() {
			continue
		}
		got := false
		if pks, ok := decodeKeys(v.Input.Pubkeys); ok {
			if sig, err := bls.NewSignatureFromBytes(g2, unhex(t, v.Input.Signature), nil); err == nil {
				var msgs [][]byte
				for _, m := range v.Input.Messages {
					msgs = append(msgs, unhex(t, m))
				}
				vlib.NoPanic(t, "AggregateVerify "+f, func() { got = ethVerifierNew(t).AggregateVerify(sig, pks, msgs) == nil })
			}
		}
		if got != v.Output {
			t.Fatalf("%s: library accept=%v, published %v", f, got, v.Output)
		}
		vlib.Case(test, vlib.Desc("bls", "vector", f), true, "dir=aggregate_verify", fmt.Sprintf("valid=%v", v.Output))
	}

	for _, f := range blsVectorFiles(t, "batch_verify") {
		var v struct {
			Input  struct{ Pubkeys, Messages, Signatures []string }
			Output bool
		}
		mustJSON(t, f, &v)
		counts["batch_verify"]++
		if !mine() {
			continue
		}
		got := len(v.Input.Pubkeys) == len(v.Input.Messages) && len(v.Input.Pubkeys) == len(v.Input.Signatures)
		if pks, ok := decodeKeys(v.Input.Pubkeys); ok && got {
			for i := range pks {
				sig, err := bls.NewSignatureFromBytes(g2, unhex(t, v.Input.Signatures[i]), nil)
				if err != nil || ethVerifierNew(t).Verify(sig, pks[i], unhex(t, v.Input.Messages[i])) != nil {
					got = false
					break
				}
			}
		} else {
			got = false
		}
		if got != v.Output {
			t.Fatalf("%s: library accept=%v, published %v", f, got, v.Output)
		}
		vlib.Case(test, vlib.Desc("bls", "vector", f), true, "dir=batch_verify", fmt.Sprintf("valid=%v", v.Output))
	}
	if counts["sign"] != 10 || counts["verify"] != 29 || counts["aggregate"] != 6 || counts["aggregate_verify"] != 5 || counts["batch_verify"] != 4 {
		t.Fatalf("harness: vector files missing: %v", counts)
	}
	vlib.Exhaustive("Ethereum BLS vectors (pinned copy): sign 10, verify 29, aggregate 6, aggregate_verify 5, batch_verify 4")
}

func blsCancelCase[
	PK curves.PairingFriendlyPoint[PK, PKFE, SG, SGFE, tGT, tSC], PKFE algebra.FieldElement[PKFE],
	SG curves.PairingFriendlyPoint[SG, SGFE, PK, PKFE, tGT, tSC], SGFE algebra.FieldElement[SGFE],
](t *testing.T, test string, e *blsEnv[PK, PKFE, SG, SGFE], alg bls.RogueKeyPreventionAlgorithm, d *big.Int) {
	sch, err := e.scheme(alg)
	if err != nil {
		t.Fatal(err)
	}
	msg := []byte("c15 cancelling keys")
	var sigs []*bls.Signature[SG, SGFE, PK, PKFE, tGT, tSC]
	var pks []*bls.PublicKey[PK, PKFE, SG, SGFE, tGT, tSC]
	var pops []*bls.ProofOfPossession[SG, SGFE, PK, PKFE, tGT, tSC]
	for _, k := range []*big.Int{d, new(big.Int).Sub(blsOrder, d)} {
		sk, err := bls.NewPrivateKey(e.keyGrp, blsScalar(t, k))
		if err != nil {
			t.Fatal(err)
		}
		sg, err := sch.Signer(sk)
		if err != nil {
			t.Fatal(err)
		}
		s, err := sg.Sign(msg)
		if err != nil {
			t.Fatal(err)
		}
		sigs, pks = append(sigs, s), append(pks, sk.PublicKey())
		if alg == bls.POP {
			pops = append(pops, s.Pop())
		}
	}
	var vopts []bls.VerifierOption[PK, PKFE, SG, SGFE, tGT, tSC]
	if alg == bls.POP {
		vopts = append(vopts, bls.VerifyWithProofsOfPossession[PK, PKFE, SG, SGFE, tGT, tSC](pops...))
	}
	vf, err := sch.Verifier(vopts...)
	if err != nil {
		t.Fatal(err)
	}
	agg, err := sch.AggregateSignatures(sigs...)
	if err != nil {
		// refusing to produce the identity aggregate is as good as refusing to verify it
		vlib.Case(test, vlib.Desc("bls", e.name+"/"+algNames[alg]+"/aggregate/same", "bls12381", "sha256-sswu", "cancelling-keys", 2), true, "outcome=aggregation-refused")
		return
	}
	isIdent := agg.Value().IsOpIdentity()
	if alg != bls.MessageAugmentation && !isIdent {
		t.Fatalf("bls/%s/%s: signatures of sk and r-sk on one message do not cancel", e.name, algNames[alg])
	}
	var accepted bool
	vlib.NoPanic(t, "AggregateVerify on the identity aggregate", func() { accepted = vf.AggregateVerify(agg, pks, [][]byte{msg, msg}) == nil })
	// Basic: duplicate messages; POP: identity signature / identity aggregate key; Aug: the
	// effective messages differ, the aggregate is an ordinary point and must verify
	if want := alg == bls.MessageAugmentation; accepted != want {
		t.Fatalf("bls/%s/%s: keys sk=%s and r-sk on one message: aggregate identity=%v, AggregateVerify accept=%v, expected %v", e.name, algNames[alg], d, isIdent, accepted, want)
	}
	vlib.Case(test, vlib.Desc("bls", e.name+"/"+algNames[alg]+"/aggregate/same", "bls12381", "sha256-sswu", "cancelling-keys", 2), true,
		fmt.Sprintf("outcome=identity:%v,accepted:%v", isIdent, accepted))
}

// TestBLSCancellingKeys: two honest signers whose secret keys add up to the group order sign the
// same message. Under Basic and POP the aggregate signature is the identity and must be refused
// (documented: identity signatures are refused; the draft's KeyValidate refuses the identity
// aggregate key); under MessageAugmentation the effective messages differ and the aggregate verifies.
func TestBLSCancellingKeys(t *testing.T) {
	const test = "BLSCancellingKeys"
	i := 0
	for _, alg := range allAlgs {
		for _, d := range []*big.Int{big.NewInt(1), new(big.Int).Rsh(blsOrder, 2)} {
			i++
			if !vlib.Mine(i) {
				continue
			}
			blsCancelCase(t, test, blsShort, alg, d)
			blsCancelCase(t, test, blsLong, alg, d)
		}
	}
	vlib.Exhaustive("BLS cancelling key pairs {1, r/4} x {Basic, MessageAugmentation, POP} x {short, long}")
}
