package c15

import (
	"bytes"
	"fmt"
	"math/big"
	"strings"
	"testing"

	"pgregory.net/rapid"

	"github.com/bronlabs/bron-crypto/pkg/base/base58"
	"github.com/bronlabs/bron-crypto/pkg/base/curves/pasta"
	"github.com/bronlabs/bron-crypto/pkg/signatures"
	"github.com/bronlabs/bron-crypto/pkg/signatures/schnorrlike"
	"github.com/bronlabs/bron-crypto/pkg/signatures/schnorrlike/mina"
	"verif/harness/vlib"
	"verif/harness/vlib/refcurve"
)

// Mina: Schnorr over Pallas with a Poseidon challenge. There is no independent Poseidon, so the
// independent part is (a) the group equation [s]G = R + [e]P in the model with the LIBRARY's
// challenge e = ComputeChallenge(R, P, m) and (b) the published o1js vectors. Whether the
// challenge really depends on every input is judged by the expected verdicts of the alterations.

type minaMsg struct {
	str    []byte
	fields []*big.Int
	bits   []bool
}

func (m minaMsg) build(t fataler) *mina.ROInput {
	in := new(mina.ROInput).Init()
	bf := pasta.NewPallasBaseField()
	for _, f := range m.fields {
		fe, err := bf.FromBytes(be(f, 32))
		if err != nil {
			t.Fatalf("harness: pallas base field element: %v", err)
		}
		in.AddFields(fe)
	}
	in.AddString(string(m.str))
	in.AddBits(m.bits...)
	return in
}

// packed is the harness's own rendering of what reaches the hash: field elements, then the bit
// string (string bytes MSB first, then raw bits) in 254-bit little-endian chunks. Two ROInputs
// with the same packed form are the same message for Mina (the format carries no bit length:
// trailing zero bits / an all-zero trailing chunk are not distinguishable - inherited from
// o1js's legacy packing, see TestMinaPackingObservation).
func (m minaMsg) packed() string {
	var bits []bool
	for _, b := range m.str {
		for i := 7; i >= 0; i-- {
			bits = append(bits, (b>>i)&1 == 1)
		}
	}
	bits = append(bits, m.bits...)
	out := ""
	for _, f := range m.fields {
		out += f.Text(16) + ","
	}
	out += "|"
	var chunks []*big.Int
	for i := 0; i < len(bits); i += 254 {
		c := new(big.Int)
		for j := i; j < len(bits) && j < i+254; j++ {
			if bits[j] {
				c.SetBit(c, j-i, 1)
			}
		}
		chunks = append(chunks, c)
	}
	// the sponge pads with zero elements: trailing zero chunks vanish
	for len(chunks) > 0 && chunks[len(chunks)-1].Sign() == 0 {
		chunks = chunks[:len(chunks)-1]
	}
	for _, c := range chunks {
		out += c.Text(16) + ","
	}
	return out
}

func genMinaMsg(t *rapid.T) (minaMsg, string) {
	var m minaMsg
	var class string
	m.str, class = genMsg(t, "msg", true)
	if len(m.str) > 600 {
		m.str = m.str[:600] // Poseidon absorbs 2 elements per permutation; keep long messages moderate
	}
	nf := rapid.IntRange(0, 2).Draw(t, "nFields")
	for i := 0; i < nf; i++ {
		m.fields = append(m.fields, drawnScalar(t, fmt.Sprintf("field%d", i), refPallasMina.P))
	}
	nb := rapid.SampledFrom([]int{0, 0, 1, 3, 64}).Draw(t, "nBits")
	for i := 0; i < nb; i++ {
		m.bits = append(m.bits, rapid.Bool().Draw(t, "bit"))
	}
	return m, fmt.Sprintf("%s fields=%d bits=%d", class, nf, nb)
}

func minaVerify(t fataler, nid mina.NetworkID, sig *mina.Signature, pk *mina.PublicKey, msg *mina.ROInput) bool {
	sch, err := mina.NewRandomisedScheme(nid, vlib.NewPRNG(1, "unused"))
	if err != nil {
		t.Fatalf("NewRandomisedScheme: %v", err)
	}
	vf, err := sch.Verifier()
	if err != nil {
		t.Fatalf("Verifier: %v", err)
	}
	ok := false
	vlib.NoPanic(t, "mina Verify", func() { ok = vf.Verify(sig, pk, msg) == nil })
	return ok
}

// minaRefVerdict: documented range checks + group equation in the model, challenge from the library.
func minaRefVerdict(t fataler, nid mina.NetworkID, R refcurve.Point, s *big.Int, P refcurve.Point, msg *mina.ROInput) bool {
	e := envPallas
	if s.Sign() == 0 || R.Inf || P.Inf {
		return false
	}
	vr, err := mina.NewRandomisedVariant(nid, vlib.NewPRNG(1, "unused"))
	if err != nil {
		t.Fatalf("NewRandomisedVariant: %v", err)
	}
	ch, err := vr.ComputeChallenge(e.libPoint(t, R), e.libPoint(t, P), msg)
	if err != nil {
		t.Fatalf("ComputeChallenge: %v", err)
	}
	return e.ref.SchnorrEquation(s, R, e.big(ch), P)
}

func TestMina(t *testing.T) {
	const test = "Mina"
	e := envPallas
	n := e.ref.N
	vlib.Check(t, 300, func(t *rapid.T) {
		nid := rapid.SampledFrom([]mina.NetworkID{mina.MainNet, mina.TestNet, "foonet"}).Draw(t, "nid")
		det := rapid.Bool().Draw(t, "deterministic")
		d, keyClass := genScalar(t, "sk", n)
		mm, msgClass := genMinaMsg(t)
		msg := mm.build(t)
		seed := rapid.Uint64().Draw(t, "seed")

		sk, err := mina.NewPrivateKey(e.scalar(t, d))
		if err != nil {
			t.Fatalf("NewPrivateKey: %v", err)
		}
		pk := sk.PublicKey()
		P := e.ref.ScalarBaseMul(d)
		if !e.ref.Equal(e.refPoint(t, pk.Value()), P) {
			t.Fatalf("mina: public key differs from [d]G (Mina generator) for d=%s", d)
		}
		var sch *mina.Scheme
		if det {
			sch, err = mina.NewScheme(nid, sk)
		} else {
			sch, err = mina.NewRandomisedScheme(nid, vlib.NewPRNG(seed, "c15/mina/nonce"))
		}
		if err != nil {
			t.Fatalf("mina scheme: %v", err)
		}
		signer, err := sch.Signer(sk)
		if err != nil {
			t.Fatalf("Signer: %v", err)
		}
		sig, err := signer.Sign(msg)
		if err != nil {
			t.Fatalf("mina Sign(nid=%s det=%v d=%s msg=%s): %v", nid, det, d, msgClass, err)
		}
		R := e.refPoint(t, sig.R)
		s := e.big(sig.S)
		where := fmt.Sprintf("mina nid=%s det=%v d=%s msg=%q fields=%v bits=%v R.x=%x s=%x", nid, det, d, mm.str, mm.fields, mm.bits, R.X, s)
		if !minaVerify(t, nid, sig, pk, msg) {
			t.Fatalf("%s: library rejects its own signature", where)
		}
		if !minaRefVerdict(t, nid, R, s, P, msg) {
			t.Fatalf("%s: group equation [s]G = R + [e]P fails in the model (e from the library)", where)
		}
		if R.Y.Bit(0) != 0 {
			t.Fatalf("%s: R has odd y (documented: always even)", where)
		}
		// wire form: LE(R.x) || LE(s); decoding gives back a signature that verifies
		ser, err := mina.SerializeSignature(sig)
		if err != nil || !bytes.Equal(ser, append(reversed(be(R.X, 32)), reversed(be(s, 32))...)) {
			t.Fatalf("%s: SerializeSignature = %x (err=%v)", where, ser, err)
		}
		back, err := mina.DeserializeSignature(ser)
		if err != nil || !back.R.Equal(sig.R) || !back.S.Equal(sig.S) || !minaVerify(t, nid, back, pk, msg) {
			t.Fatalf("%s: serialise/deserialise round trip broke the signature (err=%v)", where, err)
		}
		if det {
			again, err := signer.Sign(msg)
			if err != nil || !again.R.Equal(sig.R) || !again.S.Equal(sig.S) {
				t.Fatalf("%s: deterministic signing is not repeatable", where)
			}
		}

		// ONE alteration
		alt := flatPick(t, "alt", []string{
			"msg-bit", "msg-field", "msg-extra-bit", "msg-extra-byte", "R+G", "R-neg", "R-other", "R-identity", "s+1", "s-neg", "s-random", "s-zero",
			"E-replaced", "E-nil", "forged-with-E", "pk-other", "pk-neg", "pk+G", "pk-identity", "nid",
		})
		aR, as, aP, am, anid := R, s, P, mm, nid
		aE := sig.E
		switch alt {
		case "msg-bit":
			am.str = flipBit(t, mm.str)
		case "msg-field":
			if len(mm.fields) == 0 {
				am.fields = []*big.Int{drawnScalar(t, "field'", e.ref.P)}
			} else {
				am.fields = append([]*big.Int{}, mm.fields...)
				am.fields[0] = new(big.Int).Mod(new(big.Int).Add(mm.fields[0], one), e.ref.P)
			}
		case "msg-extra-bit":
			am.bits = append(append([]bool{}, mm.bits...), true)
		case "msg-extra-byte":
			if len(mm.bits) > 0 {
				am.bits = append([]bool{true}, mm.bits...)
			} else {
				am.str = append(bytes.Clone(mm.str), byte(rapid.IntRange(1, 255).Draw(t, "extra")))
			}
		case "R+G":
			aR = e.ref.Add(R, e.ref.G)
		case "R-neg":
			aR = e.ref.Neg(R)
		case "R-other":
			aR = e.ref.ScalarBaseMul(drawnScalar(t, "k'", n))
		case "R-identity":
			aR = refcurve.Infinity()
		case "s+1":
			as = new(big.Int).Mod(new(big.Int).Add(s, one), n)
		case "s-neg":
			as = new(big.Int).Sub(n, s)
		case "s-random":
			as = drawnScalar(t, "s'", n)
		case "s-zero":
			as = new(big.Int)
		case "E-replaced":
			aE = e.scalar(t, drawnScalar(t, "e'", n))
		case "E-nil":
			aE = nil
		case "forged-with-E":
			fs, fe := drawnScalar(t, "fs", n), drawnScalar(t, "fe", n)
			aR = e.ref.Sub(e.ref.ScalarBaseMul(fs), e.ref.ScalarMul(P, fe))
			as, aE = fs, e.scalar(t, fe)
			if aR.Inf {
				t.Skip("degenerate forgery")
			}
		case "pk-other":
			aP = e.ref.ScalarBaseMul(drawnScalar(t, "sk'", n))
		case "pk-neg":
			aP = e.ref.Neg(P)
		case "pk+G":
			aP = e.ref.Add(P, e.ref.G)
		case "pk-identity":
			aP = refcurve.Infinity()
		case "nid":
			anid = rapid.SampledFrom([]mina.NetworkID{mina.MainNet, mina.TestNet, "foonet", "barnet"}).Draw(t, "nid'")
			if anid == nid {
				t.Skip("same network")
			}
		}
		if am.packed() == mm.packed() && (alt == "msg-bit" || alt == "msg-field" || alt == "msg-extra-bit" || alt == "msg-extra-byte") {
			t.Skip("the altered ROInput packs to the same field elements")
		}
		amsg := am.build(t)
		want := alt == "E-replaced" || alt == "E-nil"
		if ref := minaRefVerdict(t, anid, aR, as, aP, amsg); ref != want {
			t.Fatalf("%s; altered (%s): the group equation with the library's challenge gives %v, expected %v - the challenge does not separate the altered input", where, alt, ref, want)
		}
		var lR *pasta.PallasPoint
		if aR.Inf {
			lR = pasta.NewPallasCurve().OpIdentity()
		} else {
			lR = e.libPoint(t, aR)
		}
		asig := &mina.Signature{E: aE, R: lR, S: e.scalar(t, as)}
		apk := pk
		if !e.ref.Equal(aP, P) {
			if aP.Inf {
				apk = &schnorrlike.PublicKey[*pasta.PallasPoint, *pasta.PallasScalar]{PublicKeyTrait: signatures.PublicKeyTrait[*pasta.PallasPoint, *pasta.PallasScalar]{V: pasta.NewPallasCurve().OpIdentity()}}
			} else if apk, err = mina.NewPublicKey(e.libPoint(t, aP)); err != nil {
				t.Fatalf("harness: NewPublicKey: %v", err)
			}
		}
		got := minaVerify(t, anid, asig, apk, amsg)
		if alt == "E-replaced" {
			// (R, s) - the wire form - is untouched and the verifier recomputes the challenge: either verdict is sound
			vlib.Class(test, fmt.Sprintf("E-replaced-accepted=%v", got))
			got = want
		}
		if got != want {
			t.Fatalf("%s; altered (%s): nid=%s R.x=%x s=%x P.x=%x msg=%q fields=%v bits=%v: library accept=%v, expected %v", where, alt, anid, aR.X, as, aP.X, am.str, am.fields, am.bits, got, want)
		}
		mode := "random-nonce"
		if det {
			mode = "deterministic"
		}
		vlib.Case(test, vlib.Desc("schnorr", "mina/"+mode+"/"+string(nid), "pallas", "poseidon-legacy", alt, 1), true,
			"nid="+string(nid), "mode="+mode, "key="+keyClass, "msg="+strings.Fields(msgClass)[0], strings.Fields(msgClass)[1], strings.Fields(msgClass)[2], "alt="+alt, fmt.Sprintf("expected-valid=%v", want))
		vlib.Sample("mina", map[string]any{"nid": nid, "mode": mode, "key": keyClass, "msg": msgClass, "alt": alt})
	})
}

type minaSig struct{ Field, Scalar string }
type minaVectors struct {
	PrivateKey  string `json:"private_key"`
	PublicKey   string `json:"public_key"`
	Receiver    string
	NewDelegate string `json:"new_delegate"`
	Payments    []struct {
		Amount, Fee     uint64
		Nonce           uint32
		ValidUntil      uint32 `json:"valid_until"`
		Memo            string
		Devnet, Mainnet minaSig
	}
	Delegations []struct {
		Fee             uint64
		Nonce           uint32
		ValidUntil      uint32 `json:"valid_until"`
		Memo            string
		Devnet, Mainnet minaSig
	}
	Strings []struct {
		Message         string
		Devnet, Mainnet minaSig
	}
}

// TestMinaVectors: the o1js legacy signature vectors (pinned copy): deterministic signing gives
// the published (R.x, s) on both networks; the published signature, rebuilt from its numbers
// through the wire decoder, verifies; it does not verify on the other network, for another
// vector's message, or with s+1; the group equation holds in the model.
func TestMinaVectors(t *testing.T) {
	const test = "MinaVectors"
	e := envPallas
	var doc minaVectors
	mustJSON(t, "testdata/mina_legacy.json", &doc)
	pk, err := mina.DecodePublicKey(base58.Base58(doc.PublicKey))
	if err != nil {
		t.Fatalf("DecodePublicKey: %v", err)
	}
	sk, err := mina.DecodePrivateKey(base58.Base58(doc.PrivateKey))
	if err != nil {
		t.Fatalf("DecodePrivateKey: %v", err)
	}
	if !sk.PublicKey().Equal(pk) {
		t.Fatalf("mina vectors: the private key does not give the published public key")
	}
	recv, err := mina.DecodePublicKey(base58.Base58(doc.Receiver))
	if err != nil {
		t.Fatalf("DecodePublicKey(receiver): %v", err)
	}
	deleg, err := mina.DecodePublicKey(base58.Base58(doc.NewDelegate))
	if err != nil {
		t.Fatalf("DecodePublicKey(delegate): %v", err)
	}
	P := e.refPoint(t, pk.Value())
	if !e.ref.Equal(e.ref.ScalarBaseMul(e.big(sk.Value())), P) {
		t.Fatalf("mina vectors: public key is not [sk]G in the model")
	}
	type item struct {
		name         string
		msg          *mina.ROInput
		devnet, main minaSig
	}
	var items []item
	for i, p := range doc.Payments {
		m, err := mina.NewPaymentMessage(pk, recv, p.Amount, p.Fee, p.Nonce, p.ValidUntil, p.Memo)
		if err != nil {
			t.Fatalf("NewPaymentMessage: %v", err)
		}
		items = append(items, item{fmt.Sprintf("payment%d", i), m, p.Devnet, p.Mainnet})
	}
	for i, d := range doc.Delegations {
		m, err := mina.NewDelegationMessage(pk, deleg, d.Fee, d.Nonce, d.ValidUntil, d.Memo)
		if err != nil {
			t.Fatalf("NewDelegationMessage: %v", err)
		}
		items = append(items, item{fmt.Sprintf("delegation%d", i), m, d.Devnet, d.Mainnet})
	}
	for i, s := range doc.Strings {
		m := new(mina.ROInput).Init()
		m.AddString(s.Message)
		items = append(items, item{fmt.Sprintf("string%d", i), m, s.Devnet, s.Mainnet})
	}
	if len(items) != 9 {
		t.Fatalf("harness: %d vectors", len(items))
	}
	idx := 0
	for i, it := range items {
		for _, net := range []struct {
			nid, other mina.NetworkID
			want       minaSig
		}{{mina.TestNet, mina.MainNet, it.devnet}, {mina.MainNet, mina.TestNet, it.main}} {
			idx++
			if !vlib.Mine(idx) {
				continue
			}
			where := fmt.Sprintf("mina vector %s/%s", it.name, net.nid)
			rx, ok1 := new(big.Int).SetString(net.want.Field, 10)
			s, ok2 := new(big.Int).SetString(net.want.Scalar, 10)
			if !ok1 || !ok2 {
				t.Fatalf("harness: bad numbers in %s", where)
			}
			sch, err := mina.NewScheme(net.nid, sk)
			if err != nil {
				t.Fatalf("NewScheme: %v", err)
			}
			signer, err := sch.Signer(sk)
			if err != nil {
				t.Fatalf("Signer: %v", err)
			}
			sig, err := signer.Sign(it.msg)
			if err != nil {
				t.Fatalf("%s: Sign: %v", where, err)
			}
			gotR := e.refPoint(t, sig.R)
			if gotR.X.Cmp(rx) != 0 || e.big(sig.S).Cmp(s) != 0 {
				t.Fatalf("%s: signing gives (R.x=%s, s=%s), published (%s, %s)", where, gotR.X, e.big(sig.S), rx, s)
			}
			// the published numbers through the wire decoder
			pub, err := mina.DeserializeSignature(append(reversed(be(rx, 32)), reversed(be(s, 32))...))
			if err != nil {
				t.Fatalf("%s: DeserializeSignature(published): %v", where, err)
			}
			if !minaVerify(t, net.nid, pub, pk, it.msg) {
				t.Fatalf("%s: the published signature is rejected", where)
			}
			R, ok := e.ref.LiftX(rx, false)
			if !ok || !minaRefVerdict(t, net.nid, R, s, P, it.msg) {
				t.Fatalf("%s: group equation fails in the model for the published signature", where)
			}
			vlib.Case(test, vlib.Desc("schnorr", "mina", "pallas", "vector", it.name, net.nid, "published"), true, "class=published")
			// negatives
			otherMsg := items[(i+1)%len(items)].msg
			s1, _ := mina.DeserializeSignature(append(reversed(be(rx, 32)), reversed(be(new(big.Int).Add(s, one), 32))...))
			for _, ng := range []struct {
				name string
				ok   bool
			}{
				{"other-network", minaVerify(t, net.other, pub, pk, it.msg)},
				{"other-message", minaVerify(t, net.nid, pub, pk, otherMsg)},
				{"s+1", s1 != nil && minaVerify(t, net.nid, s1, pk, it.msg)},
				{"other-key", minaVerify(t, net.nid, pub, recv, it.msg)},
			} {
				if ng.ok {
					t.Fatalf("%s: the negative variant %s is ACCEPTED", where, ng.name)
				}
				vlib.Case(test, vlib.Desc("schnorr", "mina", "pallas", "vector", it.name, net.nid, ng.name), true, "class="+ng.name)
			}
		}
	}
	vlib.Exhaustive("o1js legacySignatures vectors: 3 payments, 3 delegations, 3 strings x {devnet, mainnet} x {published, 4 negative variants}")
}

// TestMinaPackingObservation records (does not judge) that ROInput carries no bit length: a
// message and the same message followed by zero bits pack to the same field elements, so one
// signature verifies for both. This is how o1js's legacy packing behaves (Mina messages have
// fixed layouts); the generated alterations in TestMina are therefore taken modulo packing.
func TestMinaPackingObservation(t *testing.T) {
	if k, _ := vlib.Shard(); k != 0 {
		t.Skip("shard 0 only")
	}
	e := envPallas
	sk, err := mina.NewPrivateKey(e.scalar(t, big.NewInt(424242)))
	if err != nil {
		t.Fatal(err)
	}
	sch, _ := mina.NewScheme(mina.MainNet, sk)
	signer, _ := sch.Signer(sk)
	a := minaMsg{str: []byte("a")}
	b := minaMsg{str: []byte("a\x00")}
	sig, err := signer.Sign(a.build(t))
	if err != nil {
		t.Fatal(err)
	}
	if minaVerify(t, mina.MainNet, sig, sk.PublicKey(), b.build(t)) {
		vlib.Note("observation: mina.ROInput has no length framing - a signature on AddString(\"a\") also verifies for AddString(\"a\\x00\") (trailing zero bits / zero chunks vanish in PackToFields and the sponge's zero padding; same as o1js legacy packing). TestMina compares messages modulo packing.")
	} else {
		vlib.Note("mina.ROInput: trailing zero bits are distinguished in this tree; the modulo-packing restriction in TestMina could be lifted")
	}
}
