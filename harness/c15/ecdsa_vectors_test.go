package c15

import (
	"crypto"
	"fmt"
	"math/big"
	"testing"

	"github.com/bronlabs/bron-crypto/pkg/base/curves/k256"
	"github.com/bronlabs/bron-crypto/pkg/base/curves/p256"
	"github.com/bronlabs/bron-crypto/pkg/base/curves/pasta"
	"github.com/bronlabs/bron-crypto/pkg/signatures/ecdsa"
	"verif/harness/vlib"
)

type rfc6979Doc struct {
	X, Ux, Uy string
	Vectors   []struct{ Message, Hash, R, S string }
}

// TestECDSAVectorsRFC6979: the ten P-256 vectors of RFC 6979 A.2.5 (pinned copy). The
// deterministic signer must reproduce (r, s); the published signature, its mirrored form and
// both without recovery id verify in the library, in the reference model and in crypto/ecdsa;
// the negative variants (other vector's message, s+1, r+1, key 2Q) are rejected everywhere.
func TestECDSAVectorsRFC6979(t *testing.T) {
	const test = "ECDSAVectorsRFC6979"
	var doc rfc6979Doc
	mustJSON(t, "testdata/rfc6979_p256.json", &doc)
	e := envP256
	n := e.ref.N
	d := new(big.Int).SetBytes(unhex(t, doc.X))
	Q := e.ref.ScalarBaseMul(d)
	if Q.X.Cmp(new(big.Int).SetBytes(unhex(t, doc.Ux))) != 0 || Q.Y.Cmp(new(big.Int).SetBytes(unhex(t, doc.Uy))) != 0 {
		t.Fatalf("harness: RFC 6979 public key does not match [x]G in the reference model")
	}
	pk, err := ecdsa.NewPublicKey(e.libPoint(t, Q))
	if err != nil {
		t.Fatal(err)
	}
	sk, err := ecdsa.NewPrivateKey(e.scalar(t, d), pk)
	if err != nil {
		t.Fatal(err)
	}
	ids := map[string]struct {
		id crypto.Hash
		h  string
	}{"SHA1": {crypto.SHA1, "sha1"}, "SHA224": {crypto.SHA224, "sha224"}, "SHA256": {crypto.SHA256, "sha256"}, "SHA384": {crypto.SHA384, "sha384"}, "SHA512": {crypto.SHA512, "sha512"}}
	for i, v := range doc.Vectors {
		if !vlib.Mine(i) {
			continue
		}
		hh, ok := ids[v.Hash]
		if !ok {
			t.Fatalf("harness: hash %s", v.Hash)
		}
		sp := ecSuiteSpec{det: true, h: hashByName(hh.h), hid: hh.id, name: "rfc6979/" + hh.h}
		c := newEcCtx(t, e, sp, 1)
		msg := []byte(v.Message)
		r, s := new(big.Int).SetBytes(unhex(t, v.R)), new(big.Int).SetBytes(unhex(t, v.S))
		where := fmt.Sprintf("RFC 6979 A.2.5 %s/%q", v.Hash, v.Message)

		signer, err := ecdsa.NewSigner(c.suite, sk, nil)
		if err != nil {
			t.Fatalf("%s: NewSigner: %v", where, err)
		}
		sig, err := signer.Sign(msg)
		if err != nil {
			t.Fatalf("%s: Sign: %v", where, err)
		}
		if e.big(sig.R()).Cmp(r) != 0 || e.big(sig.S()).Cmp(s) != 0 {
			t.Fatalf("%s: deterministic signature is (%x, %x), published (%x, %x)", where, e.big(sig.R()), e.big(sig.S()), r, s)
		}
		if sig.V() == nil {
			t.Fatalf("%s: no recovery id", where)
		}
		vv := *sig.V()
		// positive: four equivalent forms
		ns := new(big.Int).Sub(n, s)
		for _, f := range []struct {
			s *big.Int
			v *int
		}{{s, nil}, {ns, nil}, {s, ip(vv)}, {ns, ip(vv ^ 1)}} {
			if ok, st := c.libVerdict(t, false, r, f.s, f.v, pk, msg); !ok {
				t.Fatalf("%s: library rejects the published signature in form s=%x v=%s (%s)", where, f.s, vstr(f.v), st)
			}
			if !c.refVerdict(Q, msg, r, f.s, f.v) || !c.stdVerdict(Q, msg, r, f.s) {
				t.Fatalf("harness: %s: an independent verifier rejects the published signature (s=%x v=%s)", where, f.s, vstr(f.v))
			}
			if ok, _ := c.libVerdict(t, true, r, f.s, f.v, pk, msg); ok != e.ref.IsLowS(f.s) {
				t.Fatalf("%s: strict verifier accept=%v for s=%x (low-S=%v)", where, ok, f.s, e.ref.IsLowS(f.s))
			}
		}
		vlib.Case(test, vlib.Desc("ecdsa", "rfc6979", "p256", hh.h, "vector", v.Message), true, "class=published")
		// negative
		other := []byte("sample")
		if v.Message == "sample" {
			other = []byte("test")
		}
		Q2 := e.ref.Double(Q)
		pk2, err := ecdsa.NewPublicKey(e.libPoint(t, Q2))
		if err != nil {
			t.Fatal(err)
		}
		negs := []struct {
			name string
			r, s *big.Int
			v    *int
			pk   *ecdsa.PublicKey[*p256Point, *p256Base, *p256Scalar]
			m    []byte
		}{
			{"other-message", r, s, nil, pk, other},
			{"s+1", r, new(big.Int).Add(s, one), nil, pk, msg},
			{"r+1", new(big.Int).Add(r, one), s, nil, pk, msg},
			{"key-2Q", r, s, nil, pk2, msg},
			{"v^1", r, s, ip(vv ^ 1), pk, msg},
			{"v^2", r, s, ip(vv ^ 2), pk, msg},
			{"neg-s-keep-v", r, ns, ip(vv), pk, msg},
		}
		for _, ng := range negs {
			if ok, _ := c.libVerdict(t, false, ng.r, ng.s, ng.v, ng.pk, ng.m); ok {
				t.Fatalf("%s: library ACCEPTS the negative variant %s", where, ng.name)
			}
			rq := Q
			if ng.pk == pk2 {
				rq = Q2
			}
			if c.refVerdict(rq, ng.m, ng.r, ng.s, ng.v) {
				t.Fatalf("harness: %s: reference accepts the negative variant %s", where, ng.name)
			}
			vlib.Case(test, vlib.Desc("ecdsa", "rfc6979", "p256", hh.h, ng.name, v.Message), true, "class="+ng.name)
		}
	}
	vlib.Exhaustive("RFC 6979 A.2.5 P-256 vectors (10) x {4 equivalent forms, 7 negative variants}")
}

// TestECDSADeterministicNonNIST records what happens outside the generated domain:
// NewDeterministicSuite accepts secp256k1 / pallas / vesta, but crypto/ecdsa only implements
// RFC 6979 for the NIST curves, so every Sign fails. Not a C15 violation (nothing is accepted
// that should not be); the observation is attached to the evidence.
func TestECDSADeterministicNonNIST(t *testing.T) {
	if k, _ := vlib.Shard(); k != 0 {
		t.Skip("shard 0 only")
	}
	e := envK256
	suite, err := ecdsa.NewDeterministicSuite(e.curve, crypto.SHA256)
	if err != nil {
		vlib.Note("ecdsa.NewDeterministicSuite(k256) refused: " + err.Error())
		return
	}
	d := big.NewInt(12345)
	pk, _ := ecdsa.NewPublicKey(e.curve.ScalarBaseMul(e.scalar(t, d)))
	sk, _ := ecdsa.NewPrivateKey(e.scalar(t, d), pk)
	signer, err := ecdsa.NewSigner(suite, sk, nil)
	if err != nil {
		vlib.Note("ecdsa.NewSigner(deterministic k256) refused: " + err.Error())
		return
	}
	sig, err := signer.Sign([]byte("sample"))
	if err != nil {
		vlib.Note("observation (outside C15's domain): ecdsa.NewDeterministicSuite(secp256k1, SHA-256) is constructed without error but Sign always fails (crypto/ecdsa has RFC 6979 for NIST curves only); deterministic ECDSA is generated for P-256 only")
		return
	}
	// if it ever starts working it must at least verify
	vf, _ := ecdsa.NewVerifier(suite)
	if err := vf.Verify(sig, pk, []byte("sample")); err != nil {
		t.Fatalf("deterministic k256 signature does not verify: %v", err)
	}
	vlib.Note("ecdsa deterministic signing on secp256k1 works in this tree; extend genSuite")
}

type (
	p256Point  = p256.Point
	p256Base   = p256.BaseFieldElement
	p256Scalar = p256.Scalar
)

type (
	k256Point    = k256.Point
	k256Scalar   = k256.Scalar
	pallasPoint  = pasta.PallasPoint
	pallasScalar = pasta.PallasScalar
	vestaPoint   = pasta.VestaPoint
	vestaScalar  = pasta.VestaScalar
)
