package c15

import (
	"crypto"
	stdecdsa "crypto/ecdsa"
	"crypto/elliptic"
	"fmt"
	"math/big"
	"testing"

	"pgregory.net/rapid"

	"github.com/bronlabs/bron-crypto/pkg/base/algebra"
	"github.com/bronlabs/bron-crypto/pkg/base/curves"
	"github.com/bronlabs/bron-crypto/pkg/base/curves/k256"
	"github.com/bronlabs/bron-crypto/pkg/base/curves/p256"
	"github.com/bronlabs/bron-crypto/pkg/base/curves/pasta"
	"github.com/bronlabs/bron-crypto/pkg/signatures/ecdsa"
	"verif/harness/vlib"
	"verif/harness/vlib/refcurve"
)

// ecEnv binds one library curve that offers ECDSA to its model in vlib/refcurve.
type ecEnv[P curves.Point[P, B, S], B algebra.PrimeFieldElement[B], S algebra.PrimeFieldElement[S]] struct {
	name  string
	curve ecdsa.Curve[P, B, S]
	sf    algebra.PrimeField[S]
	bf    algebra.PrimeField[B]
	ref   *refcurve.Curve
}

func newEcEnv[P curves.Point[P, B, S], B algebra.PrimeFieldElement[B], S algebra.PrimeFieldElement[S]](name string, c ecdsa.Curve[P, B, S], ref *refcurve.Curve) *ecEnv[P, B, S] {
	return &ecEnv[P, B, S]{
		name:  name,
		curve: c,
		sf:    algebra.StructureMustBeAs[algebra.PrimeField[S]](c.ScalarStructure()),
		bf:    algebra.StructureMustBeAs[algebra.PrimeField[B]](c.BaseStructure()),
		ref:   ref,
	}
}

var (
	envK256   = newEcEnv("k256", k256.NewCurve(), refcurve.K256())
	envP256   = newEcEnv("p256", p256.NewCurve(), refcurve.P256())
	envPallas = newEcEnv("pallas", pasta.NewPallasCurve(), refPallasMina)
	envVesta  = newEcEnv("vesta", pasta.NewVestaCurve(), refVestaMina)
)

// scalar converts k in [0, n) through fixed-width big-endian bytes and checks the round trip.
func (e *ecEnv[P, B, S]) scalar(t fataler, k *big.Int) S {
	if k.Sign() < 0 || k.Cmp(e.ref.N) >= 0 {
		t.Fatalf("harness: scalar %s out of range", k)
	}
	s, err := e.sf.FromBytes(be(k, e.sf.ElementSize()))
	if err != nil {
		t.Fatalf("harness/%s: scalar from %s: %v", e.name, k, err)
	}
	if s.Cardinal().Big().Cmp(k) != 0 {
		t.Fatalf("harness/%s: scalar conversion of %s gives %s", e.name, k, s.Cardinal().Big())
	}
	return s
}

func (e *ecEnv[P, B, S]) big(s S) *big.Int { return new(big.Int).SetBytes(s.Bytes()) }

// refPoint reads the affine coordinates of a library point into the model (checked: on curve).
func (e *ecEnv[P, B, S]) refPoint(t fataler, p P) refcurve.Point {
	if p.IsOpIdentity() {
		return refcurve.Infinity()
	}
	x, err := p.AffineX()
	if err != nil {
		t.Fatalf("%s: AffineX: %v", e.name, err)
	}
	y, err := p.AffineY()
	if err != nil {
		t.Fatalf("%s: AffineY: %v", e.name, err)
	}
	q, err := e.ref.FromAffineBytesBE(x.Bytes(), y.Bytes())
	if err != nil {
		t.Fatalf("%s: a library point is not on the curve in the reference model: x=%x y=%x: %v", e.name, x.Bytes(), y.Bytes(), err)
	}
	return q
}

// libPoint builds the library point with the model point's coordinates.
func (e *ecEnv[P, B, S]) libPoint(t fataler, q refcurve.Point) P {
	xb, yb := e.ref.AffineBytesBE(q)
	x, err := e.bf.FromBytes(xb)
	if err != nil {
		t.Fatalf("harness/%s: x: %v", e.name, err)
	}
	y, err := e.bf.FromBytes(yb)
	if err != nil {
		t.Fatalf("harness/%s: y: %v", e.name, err)
	}
	p, err := e.curve.FromAffine(x, y)
	if err != nil {
		t.Fatalf("harness/%s: FromAffine(%x,%x): %v", e.name, xb, yb, err)
	}
	return p
}

type ecSuiteSpec struct {
	det  bool
	h    hashSpec
	hid  crypto.Hash
	name string
}

var detHashes = []struct {
	id crypto.Hash
	h  string
}{{crypto.SHA256, "sha256"}, {crypto.SHA512, "sha512"}, {crypto.SHA384, "sha384"}, {crypto.SHA224, "sha224"}, {crypto.SHA1, "sha1"}}

func hashByName(n string) hashSpec {
	for _, h := range hashSpecs {
		if h.name == n {
			return h
		}
	}
	panic("no hash " + n)
}

// genSuite draws (randomised | RFC 6979) x hash. Deterministic suites exist for P-256 only:
// crypto/ecdsa refuses RFC 6979 signing on non-NIST curves, so NewDeterministicSuite(k256 | pasta)
// gives a signer that always fails; that combination is outside the domain (see TestECDSADeterministicNonNIST).
func genSuite(t *rapid.T, curve string) ecSuiteSpec {
	if curve == "p256" && rapid.IntRange(0, 3).Draw(t, "det") == 0 {
		d := rapid.SampledFrom(detHashes).Draw(t, "detHash")
		return ecSuiteSpec{det: true, h: hashByName(d.h), hid: d.id, name: "rfc6979/" + d.h}
	}
	h := rapid.SampledFrom(hashSpecs).Draw(t, "hash")
	return ecSuiteSpec{h: h, name: "rand/" + h.name}
}

func (e *ecEnv[P, B, S]) suite(t fataler, sp ecSuiteSpec) *ecdsa.Suite[P, B, S] {
	var s *ecdsa.Suite[P, B, S]
	var err error
	if sp.det {
		s, err = ecdsa.NewDeterministicSuite(e.curve, sp.hid)
	} else {
		s, err = ecdsa.NewSuite(e.curve, sp.h.new)
	}
	if err != nil {
		t.Fatalf("%s: suite %s: %v", e.name, sp.name, err)
	}
	return s
}

type ecCtx[P curves.Point[P, B, S], B algebra.PrimeFieldElement[B], S algebra.PrimeFieldElement[S]] struct {
	e      *ecEnv[P, B, S]
	sp     ecSuiteSpec
	suite  *ecdsa.Suite[P, B, S]
	vfDef  *ecdsa.Verifier[P, B, S]
	vfStr  *ecdsa.Verifier[P, B, S]
	scheme *ecdsa.Scheme[P, B, S]
}

func newEcCtx[P curves.Point[P, B, S], B algebra.PrimeFieldElement[B], S algebra.PrimeFieldElement[S]](t fataler, e *ecEnv[P, B, S], sp ecSuiteSpec, seed uint64) *ecCtx[P, B, S] {
	c := &ecCtx[P, B, S]{e: e, sp: sp, suite: e.suite(t, sp)}
	var err error
	c.scheme, err = ecdsa.NewScheme(c.suite, vlib.NewPRNG(seed, "c15/ecdsa/sign"))
	if err != nil {
		t.Fatalf("NewScheme: %v", err)
	}
	if c.vfDef, err = c.scheme.Verifier(); err != nil {
		t.Fatalf("Verifier: %v", err)
	}
	if c.vfStr, err = c.scheme.Verifier(ecdsa.VerifyNonMalleably[P, B, S]); err != nil {
		t.Fatalf("Verifier(VerifyNonMalleably): %v", err)
	}
	return c
}

// libVerdict runs the library on (r, s, v) / key / message. A refusal of the constructor counts
// as a rejection. r, s are reduced representatives in [0, n).
func (c *ecCtx[P, B, S]) libVerdict(t fataler, strict bool, r, s *big.Int, v *int, pk *ecdsa.PublicKey[P, B, S], m []byte) (bool, string) {
	if r.Sign() == 0 || s.Sign() == 0 {
		// the scalar type can hold 0, the signature constructor must refuse it
		if _, err := ecdsa.NewSignature(c.e.scalar(t, r), c.e.scalar(t, s), v); err == nil {
			t.Fatalf("%s: NewSignature accepted r=%s s=%s", c.e.name, r, s)
		}
		return false, "constructor"
	}
	var vv *int
	if v != nil {
		x := *v
		vv = &x
	}
	sig, err := ecdsa.NewSignature(c.e.scalar(t, r), c.e.scalar(t, s), vv)
	if err != nil {
		return false, "constructor"
	}
	vf := c.vfDef
	if strict {
		vf = c.vfStr
	}
	if err := vf.Verify(sig, pk, m); err != nil {
		return false, "verify"
	}
	return true, ""
}

// refVerdict is the independent verdict: textbook equation in the model with a digest computed
// by the Go standard library, and, when a recovery id is present, SEC 1 4.1.6 recovery giving Q.
func (c *ecCtx[P, B, S]) refVerdict(Q refcurve.Point, m []byte, r, s *big.Int, v *int) bool {
	dg := digestOf(c.sp.h, m)
	if !c.e.ref.ECDSAVerify(Q, dg, r, s) {
		return false
	}
	if v != nil {
		R, ok := c.e.ref.ECDSARecover(dg, r, s, *v)
		return ok && c.e.ref.Equal(R, Q)
	}
	return true
}

// stdVerdict is crypto/ecdsa on the standard library's own P-256 (only for p256; v is not part of it).
func (c *ecCtx[P, B, S]) stdVerdict(Q refcurve.Point, m []byte, r, s *big.Int) bool {
	pub := &stdecdsa.PublicKey{Curve: elliptic.P256(), X: new(big.Int).Set(Q.X), Y: new(big.Int).Set(Q.Y)}
	return stdecdsa.Verify(pub, digestOf(c.sp.h, m), r, s)
}

func vstr(v *int) string {
	if v == nil {
		return "nil"
	}
	return fmt.Sprint(*v)
}

func ip(v int) *int { return &v }

func ecdsaCase[P curves.Point[P, B, S], B algebra.PrimeFieldElement[B], S algebra.PrimeFieldElement[S]](t *rapid.T, test string, e *ecEnv[P, B, S]) {
	n := e.ref.N
	sp := genSuite(t, e.name)
	d, keyClass := genScalar(t, "sk", n)
	msg, msgClass := genMsg(t, "msg", true)
	seed := rapid.Uint64().Draw(t, "seed")
	c := newEcCtx(t, e, sp, seed)

	// key: the public point is computed in the model and must be what the library derives
	Q := e.ref.ScalarBaseMul(d)
	dS := e.scalar(t, d)
	pkv := e.curve.ScalarBaseMul(dS)
	if !e.ref.Equal(e.refPoint(t, pkv), Q) {
		t.Fatalf("%s: [d]G differs from the reference for d=%s", e.name, d)
	}
	pk, err := ecdsa.NewPublicKey(pkv)
	if err != nil {
		t.Fatalf("NewPublicKey: %v", err)
	}
	sk, err := ecdsa.NewPrivateKey(dS, pk)
	if err != nil {
		t.Fatalf("NewPrivateKey: %v", err)
	}
	signer, err := c.scheme.Signer(sk)
	if err != nil {
		t.Fatalf("Signer: %v", err)
	}
	sig, err := signer.Sign(msg)
	if err != nil {
		t.Fatalf("%s/%s: Sign(d=%s, msg=%s) failed: %v", e.name, sp.name, d, vlib.Hex(msg), err)
	}
	if sig.V() == nil {
		t.Fatalf("%s/%s: Sign returned no recovery id", e.name, sp.name)
	}
	r, s, v := e.big(sig.R()), e.big(sig.S()), *sig.V()
	if v < 0 || v > 3 {
		t.Fatalf("recovery id %d", v)
	}
	where := fmt.Sprintf("%s/%s d=%s msg=%s r=%x s=%x v=%d", e.name, sp.name, d, vlib.Hex(msg), r, s, v)

	// 1. the signature verifies in the library (the object returned by Sign itself) and independently
	if err := c.vfDef.Verify(sig, pk, msg); err != nil {
		t.Fatalf("%s: library rejects its own signature: %v", where, err)
	}
	if !c.refVerdict(Q, msg, r, s, &v) {
		t.Fatalf("%s: the reference verifier (equation + recovery) rejects the library's signature", where)
	}
	if e.name == "p256" && !c.stdVerdict(Q, msg, r, s) {
		t.Fatalf("%s: crypto/ecdsa on elliptic.P256() rejects the library's signature", where)
	}
	if sp.det {
		sig2, err := signer.Sign(msg)
		if err != nil || !sig2.Equal(sig) || *sig2.V() != v {
			t.Fatalf("%s: deterministic signing is not repeatable (%v)", where, err)
		}
	}

	// 2. the documented equivalence class
	ns := new(big.Int).Sub(n, s)
	type form struct {
		name string
		s    *big.Int
		v    *int
	}
	forms := []form{{"(r,s,v)", s, ip(v)}, {"(r,n-s,v^1)", ns, ip(v ^ 1)}, {"(r,s)", s, nil}, {"(r,n-s)", ns, nil}}
	lowS := s
	lowV := v
	if !e.ref.IsLowS(s) {
		lowS, lowV = ns, v^1
	}
	for _, f := range forms {
		isLow := e.ref.IsLowS(f.s)
		if ok, st := c.libVerdict(t, false, r, f.s, f.v, pk, msg); !ok {
			t.Fatalf("%s: default verifier rejects the equivalent form %s (%s)", where, f.name, st)
		}
		if ok, _ := c.libVerdict(t, true, r, f.s, f.v, pk, msg); ok != isLow {
			t.Fatalf("%s: strict verifier on form %s (low-S=%v) gives accept=%v", where, f.name, isLow, ok)
		}
		fs, err := ecdsa.NewSignature(e.scalar(t, r), e.scalar(t, f.s), f.v)
		if err != nil {
			t.Fatalf("%s: NewSignature(%s): %v", where, f.name, err)
		}
		if fs.IsNormalized() != isLow {
			t.Fatalf("%s: IsNormalized(%s) = %v, s<=n/2 is %v", where, f.name, fs.IsNormalized(), isLow)
		}
		// RecoverPublicKey: the signer's key for both forms; an error without a recovery id
		rec, err := ecdsa.RecoverPublicKey(c.suite, fs, msg)
		if f.v != nil {
			if err != nil || !rec.Equal(pk) {
				t.Fatalf("%s: RecoverPublicKey(%s) does not give the signer's key (err=%v)", where, f.name, err)
			}
		} else if err == nil {
			t.Fatalf("%s: RecoverPublicKey without a recovery id returned a key", where)
		}
		// Normalise: low-S, same r, adjusted v, validity kept, idempotent
		nz := fs.Clone()
		nz.Normalise()
		if !nz.IsNormalized() || e.big(nz.S()).Cmp(lowS) != 0 || e.big(nz.R()).Cmp(r) != 0 {
			t.Fatalf("%s: Normalise(%s) gives r=%x s=%x, want r unchanged and s=%x", where, f.name, e.big(nz.R()), e.big(nz.S()), lowS)
		}
		if (f.v == nil) != (nz.V() == nil) || (f.v != nil && *nz.V() != lowV) {
			t.Fatalf("%s: Normalise(%s) gives v=%s, want %d / nil kept", where, f.name, vstr(nz.V()), lowV)
		}
		if err := c.vfDef.Verify(nz, pk, msg); err != nil {
			t.Fatalf("%s: Normalise(%s) is rejected by the default verifier: %v", where, f.name, err)
		}
		if err := c.vfStr.Verify(nz, pk, msg); err != nil {
			t.Fatalf("%s: Normalise(%s) is rejected by the strict verifier: %v", where, f.name, err)
		}
		again := nz.Clone()
		again.Normalise()
		if !again.Equal(nz) || vstr(again.V()) != vstr(nz.V()) {
			t.Fatalf("%s: Normalise is not idempotent on %s", where, f.name)
		}
		// Normalise must not have touched the original through the clone
		if e.big(fs.S()).Cmp(f.s) != 0 {
			t.Fatalf("%s: Normalise on a clone changed the original", where)
		}
	}
	// the reference agrees that the mirrored form satisfies equation and recovery
	if !c.refVerdict(Q, msg, r, ns, ip(v^1)) {
		t.Fatalf("%s: reference rejects (r,n-s,v^1)", where)
	}

	// 3. ONE alteration; both verifiers must reject
	baseS, baseV := s, v
	start := "sig"
	if rapid.Bool().Draw(t, "fromMirror") {
		baseS, baseV, start = ns, v^1, "mirror"
	}
	ar, as, av := r, baseS, ip(baseV)
	aQ, apk, am := Q, pk, msg
	alt := flatPick(t, "alt", []string{
		"msg", "r+1", "r-1", "r-bit", "r-random", "s+1", "s-1", "s-bit", "s-random", "s-double", "swap-r-s",
		"v^1-keep-s", "v^2", "v^3", "neg-s-keep-v", "pk-other", "pk-neg", "pk+G", "pk-double",
	})
	add := func(x *big.Int, k int64) *big.Int { return new(big.Int).Mod(new(big.Int).Add(x, big.NewInt(k)), n) }
	bitflip := func(x *big.Int) *big.Int {
		i := rapid.IntRange(0, n.BitLen()-1).Draw(t, "bitAt")
		y := new(big.Int).SetBit(new(big.Int).Set(x), i, x.Bit(i)^1)
		return y.Mod(y, n)
	}
	vClass := false
	switch alt {
	case "msg":
		am, alt = alterMsg(t, msg)
	case "r+1":
		ar = add(r, 1)
	case "r-1":
		ar = add(r, -1)
	case "r-bit":
		ar = bitflip(r)
	case "r-random":
		ar = drawnScalar(t, "r'", n)
	case "s+1":
		as = add(as, 1)
	case "s-1":
		as = add(as, -1)
	case "s-bit":
		as = bitflip(as)
	case "s-random":
		as = drawnScalar(t, "s'", n)
	case "s-double":
		as = new(big.Int).Mod(new(big.Int).Lsh(as, 1), n)
	case "swap-r-s":
		ar, as = as, ar
	case "v^1-keep-s":
		av, vClass = ip(baseV^1), true
	case "v^2":
		av, vClass = ip(baseV^2), true
	case "v^3":
		av, vClass = ip(baseV^3), true
	case "neg-s-keep-v":
		as, vClass = new(big.Int).Sub(n, as), true
	case "pk-other":
		d2 := drawnScalar(t, "sk'", n)
		if d2.Cmp(d) == 0 {
			d2 = add(d2, 1)
			if d2.Sign() == 0 {
				d2 = big.NewInt(2)
			}
		}
		aQ = e.ref.ScalarBaseMul(d2)
	case "pk-neg":
		aQ = e.ref.Neg(Q)
	case "pk+G":
		aQ = e.ref.Add(Q, e.ref.G)
	case "pk-double":
		aQ = e.ref.Double(Q)
	}
	if !e.ref.Equal(aQ, Q) {
		if aQ.Inf {
			t.Skip("altered key is the neutral element")
		}
		if apk, err = ecdsa.NewPublicKey(e.libPoint(t, aQ)); err != nil {
			t.Fatalf("harness: NewPublicKey(altered): %v", err)
		}
	}
	if !vClass && rapid.Bool().Draw(t, "dropV") {
		av = nil
		start += "/no-v"
	}
	if ar.Cmp(r) == 0 && as.Cmp(baseS) == 0 && vstr(av) == vstr(ip(baseV)) && e.ref.Equal(aQ, Q) && string(am) == string(msg) {
		t.Skip("alteration is the identity")
	}
	awhere := fmt.Sprintf("%s; altered (%s from %s): r=%x s=%x v=%s msg=%s Q=(%x,..)", where, alt, start, ar, as, vstr(av), vlib.Hex(am), aQ.X)
	okDef, stage := c.libVerdict(t, false, ar, as, av, apk, am)
	if okDef {
		t.Fatalf("%s: the DEFAULT verifier ACCEPTS", awhere)
	}
	if okStr, _ := c.libVerdict(t, true, ar, as, av, apk, am); okStr {
		t.Fatalf("%s: the STRICT verifier ACCEPTS", awhere)
	}
	refOK := false
	if ar.Sign() != 0 && as.Sign() != 0 {
		refOK = c.refVerdict(aQ, am, ar, as, av)
	}
	if refOK {
		t.Fatalf("%s: the reference verifier accepts - the generator produced a valid signature (harness)", awhere)
	}
	if e.name == "p256" && av == nil && ar.Sign() != 0 && as.Sign() != 0 && c.stdVerdict(aQ, am, ar, as) {
		t.Fatalf("%s: crypto/ecdsa accepts (harness)", awhere)
	}

	mode := "rand"
	if sp.det {
		mode = "rfc6979"
	}
	vlib.Case(test, vlib.Desc("ecdsa", mode, e.name, sp.h.name, alt, 1), true,
		"curve="+e.name, "suite="+sp.name, "key="+keyClass, "msg="+msgClass, "alt="+alt, "start="+start,
		"rejected-at="+stage, fmt.Sprintf("v=%d", v), fmt.Sprintf("lowS=%v", e.ref.IsLowS(s)))
	vlib.Sample("ecdsa", map[string]any{"curve": e.name, "suite": sp.name, "key": keyClass, "msg": msgClass, "alt": alt, "start": start})
}

// TestECDSA: sign -> verify (library, reference model, crypto/ecdsa on P-256), the documented
// equivalence class under the default and the strict verifier, Normalise, RecoverPublicKey, and
// one alteration of message / r / s / v / key that every verifier must reject.
func TestECDSA(t *testing.T) {
	const test = "ECDSA"
	vlib.Check(t, 1200, func(t *rapid.T) {
		switch rapid.SampledFrom([]string{"k256", "k256", "p256", "p256", "pallas", "vesta"}).Draw(t, "curve") {
		case "k256":
			ecdsaCase(t, test, envK256)
		case "p256":
			ecdsaCase(t, test, envP256)
		case "pallas":
			ecdsaCase(t, test, envPallas)
		default:
			ecdsaCase(t, test, envVesta)
		}
	})
}

// ---- differential on drawn, possibly invalid (r, s) ------------------------------------------

func ecdsaDiffCase[P curves.Point[P, B, S], B algebra.PrimeFieldElement[B], S algebra.PrimeFieldElement[S]](t *rapid.T, test string, e *ecEnv[P, B, S]) {
	n := e.ref.N
	h := rapid.SampledFrom(hashSpecs).Draw(t, "hash")
	sp := ecSuiteSpec{h: h, name: "rand/" + h.name}
	c := newEcCtx(t, e, sp, 1)
	d, keyClass := genScalar(t, "sk", n)
	msg, msgClass := genMsg(t, "msg", true)
	Q := e.ref.ScalarBaseMul(d)
	pk, err := ecdsa.NewPublicKey(e.libPoint(t, Q))
	if err != nil {
		t.Fatalf("NewPublicKey: %v", err)
	}
	dg := digestOf(h, msg)

	var r, s *big.Int
	var v *int
	class := rapid.SampledFrom([]string{"ref-signed", "ref-signed", "ref-signed-other-msg", "ref-signed-other-key", "ref-signed-s*2", "ref-signed-r-edge", "random-pair", "edge-pair"}).Draw(t, "class")
	edge := func(label string) *big.Int {
		return rapid.SampledFrom([]*big.Int{big.NewInt(1), big.NewInt(2), new(big.Int).Sub(n, one), new(big.Int).Sub(n, two), new(big.Int).Rsh(n, 1), new(big.Int).Add(new(big.Int).Rsh(n, 1), one)}).Draw(t, label)
	}
	refSign := func(key *big.Int, digest []byte) {
		k, _ := genScalar(t, "nonce", n)
		rr, ss, vv, ok := e.ref.ECDSASign(key, digest, k)
		if !ok {
			t.Skip("degenerate nonce")
		}
		r, s, v = rr, ss, ip(vv)
	}
	switch class {
	case "ref-signed":
		refSign(d, dg)
	case "ref-signed-other-msg":
		refSign(d, digestOf(h, flipBit(t, msg)))
	case "ref-signed-other-key":
		d2 := drawnScalar(t, "sk'", n)
		if d2.Cmp(d) == 0 {
			t.Skip("same key")
		}
		refSign(d2, dg)
	case "ref-signed-s*2":
		refSign(d, dg)
		s = new(big.Int).Mod(new(big.Int).Lsh(s, 1), n)
	case "ref-signed-r-edge":
		refSign(d, dg)
		r = edge("r")
	case "random-pair":
		r, s = drawnScalar(t, "r", n), drawnScalar(t, "s", n)
	default:
		r, s = edge("r"), edge("s")
	}
	if v != nil && rapid.Bool().Draw(t, "dropV") {
		v = nil
	}
	where := fmt.Sprintf("%s/%s class=%s d=%s msg=%s r=%x s=%x v=%s", e.name, h.name, class, d, vlib.Hex(msg), r, s, vstr(v))
	want := c.refVerdict(Q, msg, r, s, v)
	if class == "ref-signed" && !want {
		t.Fatalf("harness: %s: the reference rejects its own signature", where)
	}
	got, _ := c.libVerdict(t, false, r, s, v, pk, msg)
	if got != want {
		t.Fatalf("%s: library accept=%v, reference model accept=%v", where, got, want)
	}
	gotStrict, _ := c.libVerdict(t, true, r, s, v, pk, msg)
	if gotStrict != (want && e.ref.IsLowS(s)) {
		t.Fatalf("%s: strict verifier accept=%v, reference accept=%v, low-S=%v", where, gotStrict, want, e.ref.IsLowS(s))
	}
	if e.name == "p256" {
		std := c.stdVerdict(Q, msg, r, s)
		gotNoV, _ := c.libVerdict(t, false, r, s, nil, pk, msg)
		if gotNoV != std {
			t.Fatalf("%s: library (v omitted) accept=%v, crypto/ecdsa accept=%v", where, gotNoV, std)
		}
		if std != c.e.ref.ECDSAVerify(Q, dg, r, s) {
			t.Fatalf("harness: %s: crypto/ecdsa and the reference model disagree", where)
		}
	}
	if want && v != nil {
		fs, _ := ecdsa.NewSignature(e.scalar(t, r), e.scalar(t, s), v)
		rec, err := ecdsa.RecoverPublicKey(c.suite, fs, msg)
		if err != nil || !rec.Equal(pk) {
			t.Fatalf("%s: RecoverPublicKey on a reference-made signature does not give the key (err=%v)", where, err)
		}
	}
	vlib.Case(test, vlib.Desc("ecdsa-diff", e.name, h.name, class, v != nil, want), true,
		"curve="+e.name, "hash="+h.name, "class="+class, "key="+keyClass, "msg="+msgClass, fmt.Sprintf("valid=%v", want), fmt.Sprintf("withV=%v", v != nil))
}

// TestECDSADifferential: (r, s, v) made OUTSIDE the library - signed in the reference model with
// drawn / edge nonces, deliberately mismatched, random or edge values - and the library's verdict
// must equal the reference model's (and crypto/ecdsa's on P-256) in both directions.
func TestECDSADifferential(t *testing.T) {
	const test = "ECDSADifferential"
	vlib.Check(t, 500, func(t *rapid.T) {
		switch rapid.SampledFrom([]string{"k256", "p256", "p256", "pallas", "vesta"}).Draw(t, "curve") {
		case "k256":
			ecdsaDiffCase(t, test, envK256)
		case "p256":
			ecdsaDiffCase(t, test, envP256)
		case "pallas":
			ecdsaDiffCase(t, test, envPallas)
		default:
			ecdsaDiffCase(t, test, envVesta)
		}
	})
}
