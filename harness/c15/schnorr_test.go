package c15

import (
	"fmt"
	"math/big"
	"testing"

	"pgregory.net/rapid"

	"github.com/bronlabs/bron-crypto/pkg/base/algebra"
	"github.com/bronlabs/bron-crypto/pkg/base/curves/edwards25519"
	"github.com/bronlabs/bron-crypto/pkg/base/curves/pairable/bls12381"
	"github.com/bronlabs/bron-crypto/pkg/signatures"
	"github.com/bronlabs/bron-crypto/pkg/signatures/schnorrlike"
	vanilla "github.com/bronlabs/bron-crypto/pkg/signatures/schnorrlike/schnorr"
	"verif/harness/vlib"
	"verif/harness/vlib/refcurve"
)

// schEnv binds a prime-order group of the library to its model: conversions go through affine
// coordinates; enc is the group's documented canonical point encoding written independently in
// refcurve (SEC 1 compressed, pasta_curves, RFC 8032, ZCash) - it is what the challenge hash
// H(R || P || m) is documented to absorb.
type schEnv[GE algebra.PrimeGroupElement[GE, S], S algebra.PrimeFieldElement[S]] struct {
	name    string
	g       algebra.PrimeGroup[GE, S]
	sf      algebra.PrimeField[S]
	ref     *refcurve.Curve
	toRef   func(fataler, GE) refcurve.Point
	fromRef func(fataler, refcurve.Point) GE
	enc     func(refcurve.Point) []byte
	oddY    func(GE) bool // nil: no parity callback offered for this group
}

func weierstrassSch[P interface {
	algebra.PrimeGroupElement[P, S]
	AffineY() (B, error)
}, B algebra.PrimeFieldElement[B], S algebra.PrimeFieldElement[S]](g algebra.PrimeGroup[P, S], toRef func(fataler, P) refcurve.Point, fromRef func(fataler, refcurve.Point) P, name string, ref *refcurve.Curve, enc func(refcurve.Point) []byte) *schEnv[P, S] {
	return &schEnv[P, S]{
		name: name, g: g, ref: ref, toRef: toRef, fromRef: fromRef, enc: enc,
		sf: algebra.StructureMustBeAs[algebra.PrimeField[S]](g.ScalarStructure()),
		oddY: func(p P) bool {
			y, err := p.AffineY()
			if err != nil {
				panic(err)
			}
			return y.IsOdd()
		},
	}
}

var (
	schK256 = weierstrassSch(algebra.PrimeGroup[*k256Point, *k256Scalar](envK256.curve), envK256.refPoint, envK256.libPoint, "k256", envK256.ref,
		func(q refcurve.Point) []byte { return refcurve.K256().EncodeSEC1(q, true) })
	schP256 = weierstrassSch(algebra.PrimeGroup[*p256Point, *p256Scalar](envP256.curve), envP256.refPoint, envP256.libPoint, "p256", envP256.ref,
		func(q refcurve.Point) []byte { return refcurve.P256().EncodeSEC1(q, true) })
	schPallas = weierstrassSch(algebra.PrimeGroup[*pallasPoint, *pallasScalar](envPallas.curve), envPallas.refPoint, envPallas.libPoint, "pallas", envPallas.ref,
		func(q refcurve.Point) []byte { return refcurve.Pallas().EncodePasta(q, true) })
	schVesta = weierstrassSch(algebra.PrimeGroup[*vestaPoint, *vestaScalar](envVesta.curve), envVesta.refPoint, envVesta.libPoint, "vesta", envVesta.ref,
		func(q refcurve.Point) []byte { return refcurve.Vesta().EncodePasta(q, true) })
	schEd = &schEnv[*edwards25519.PrimeSubGroupPoint, *edwards25519.Scalar]{
		name: "ed25519-prime", g: edwards25519.NewPrimeSubGroup(), sf: edwards25519.NewScalarField(), ref: refcurve.Ed25519(),
		toRef: func(t fataler, p *edwards25519.PrimeSubGroupPoint) refcurve.Point {
			x, err := p.AffineX()
			if err != nil {
				t.Fatalf("AffineX: %v", err)
			}
			y, err := p.AffineY()
			if err != nil {
				t.Fatalf("AffineY: %v", err)
			}
			q, err := refcurve.Ed25519().FromAffineBytesBE(x.Bytes(), y.Bytes())
			if err != nil {
				t.Fatalf("ed25519: library point not on the curve in the model: %v", err)
			}
			return q
		},
		fromRef: func(t fataler, q refcurve.Point) *edwards25519.PrimeSubGroupPoint {
			p, err := edwards25519.NewPrimeSubGroup().FromBytes(refcurve.EncodeEd25519(q))
			if err != nil {
				t.Fatalf("harness: ed25519 FromBytes(%x): %v", refcurve.EncodeEd25519(q), err)
			}
			return p
		},
		enc: refcurve.EncodeEd25519,
	}
	schG1 = &schEnv[*bls12381.PointG1, *bls12381.Scalar]{
		name: "bls12381-g1", g: bls12381.NewG1(), sf: bls12381.NewScalarField(), ref: refcurve.BLS12381G1(),
		toRef:   g1ToRef,
		fromRef: g1FromRef,
		enc:     func(q refcurve.Point) []byte { return refcurve.BLS12381G1().EncodeZcash(q, true) },
	}
)

func g1ToRef(t fataler, p *bls12381.PointG1) refcurve.Point {
	if p.IsOpIdentity() {
		return refcurve.Infinity()
	}
	x, err := p.AffineX()
	if err != nil {
		t.Fatalf("AffineX: %v", err)
	}
	y, err := p.AffineY()
	if err != nil {
		t.Fatalf("AffineY: %v", err)
	}
	q, err := refcurve.BLS12381G1().FromAffineBytesBE(x.Bytes(), y.Bytes())
	if err != nil {
		t.Fatalf("G1: library point not on the curve in the model: %v", err)
	}
	return q
}

func g1FromRef(t fataler, q refcurve.Point) *bls12381.PointG1 {
	p, err := bls12381.NewG1().FromCompressed(refcurve.BLS12381G1().EncodeZcash(q, true))
	if err != nil {
		t.Fatalf("harness: G1 FromCompressed: %v", err)
	}
	return p
}

func (e *schEnv[GE, S]) scalar(t fataler, k *big.Int) S {
	s, err := e.sf.FromBytes(be(k, e.sf.ElementSize()))
	if err != nil {
		t.Fatalf("harness/%s: scalar from %s: %v", e.name, k, err)
	}
	if s.Cardinal().Big().Cmp(k) != 0 {
		t.Fatalf("harness/%s: scalar conversion of %s gives %s", e.name, k, s.Cardinal().Big())
	}
	return s
}

type schCfg struct {
	h   hashSpec
	neg bool // s = k - e x, verification [s]G = R - [e]P
	le  bool // "challenge elements are little endian"
	par bool // nonce parity callback: negate k when R.y is odd
}

func (c schCfg) String() string {
	return fmt.Sprintf("%s/neg=%v/le=%v/par=%v", c.h.name, c.neg, c.le, c.par)
}

// challenge recomputes e independently: digest of enc(R) || enc(P) || m with the configured
// hash, read as a big-endian integer - or, with the little-endian option, as a little-endian
// integer (the implementation reverses the DIGEST; the doc comments of NewScheme /
// MakeGenericChallenge speak of reversing the inputs before hashing - see the report) - mod n.
func (e *schEnv[GE, S]) challenge(cfg schCfg, R, P refcurve.Point, m []byte) *big.Int {
	dg := digestOf(cfg.h, e.enc(R), e.enc(P), m)
	if cfg.le {
		dg = reversed(dg)
	}
	x := new(big.Int).SetBytes(dg)
	return x.Mod(x, e.ref.N)
}

// refVerdict: range checks documented on VerifierTrait.Verify (s != 0, R and P not the identity)
// and the group equation [s]G == R +- [e]P in the model.
func (e *schEnv[GE, S]) refVerdict(cfg schCfg, R refcurve.Point, s *big.Int, P refcurve.Point, m []byte) bool {
	if s.Sign() == 0 || e.ref.IsNeutral(R) || e.ref.IsNeutral(P) {
		return false
	}
	x := e.challenge(cfg, R, P, m)
	if cfg.neg {
		x = new(big.Int).Mod(new(big.Int).Neg(x), e.ref.N)
	}
	return e.ref.SchnorrEquation(s, R, x, P)
}

func (e *schEnv[GE, S]) scheme(t fataler, cfg schCfg, seed uint64) *vanilla.Scheme[GE, S] {
	var par func(GE) bool
	if cfg.par {
		par = e.oddY
	}
	sch, err := vanilla.NewScheme(e.g, cfg.h.new, cfg.neg, cfg.le, par, vlib.NewPRNG(seed, "c15/schnorr/nonce"))
	if err != nil {
		t.Fatalf("%s: vanilla.NewScheme(%s): %v", e.name, cfg, err)
	}
	return sch
}

var schHashes = []string{"sha256", "sha512", "sha3-256", "sha384", "blake2b-256"}

func schnorrCase[GE algebra.PrimeGroupElement[GE, S], S algebra.PrimeFieldElement[S]](t *rapid.T, test string, e *schEnv[GE, S]) {
	n := e.ref.N
	cfg := schCfg{
		h:   hashByName(rapid.SampledFrom(schHashes).Draw(t, "hash")),
		neg: rapid.Bool().Draw(t, "neg"),
		le:  rapid.Bool().Draw(t, "le"),
		par: e.oddY != nil && rapid.Bool().Draw(t, "parity"),
	}
	d, keyClass := genScalar(t, "sk", n)
	msg, msgClass := genMsg(t, "msg", true)
	seed := rapid.Uint64().Draw(t, "seed")
	sch := e.scheme(t, cfg, seed)

	P := e.ref.ScalarMul(e.ref.G, d)
	dS := e.scalar(t, d)
	pkv := e.g.ScalarBaseOp(dS)
	if !e.ref.Equal(e.toRef(t, pkv), P) {
		t.Fatalf("%s: [d]G differs from the reference for d=%s", e.name, d)
	}
	pk, err := vanilla.NewPublicKey(pkv)
	if err != nil {
		t.Fatalf("NewPublicKey: %v", err)
	}
	sk, err := vanilla.NewPrivateKey(dS, pk)
	if err != nil {
		t.Fatalf("NewPrivateKey: %v", err)
	}
	signer, err := sch.Signer(sk)
	if err != nil {
		t.Fatalf("Signer: %v", err)
	}
	sig, err := signer.Sign(msg)
	if err != nil {
		t.Fatalf("%s/%s: Sign(d=%s, msg=%s): %v", e.name, cfg, d, vlib.Hex(msg), err)
	}
	vf, err := sch.Verifier()
	if err != nil {
		t.Fatalf("Verifier: %v", err)
	}
	R := e.toRef(t, sig.R)
	s := new(big.Int).SetBytes(sig.S.Bytes())
	where := fmt.Sprintf("%s/%s d=%s msg=%s R=%x s=%x", e.name, cfg, d, vlib.Hex(msg), e.enc(R), s)
	if err := vf.Verify(sig, pk, msg); err != nil {
		t.Fatalf("%s: library rejects its own signature: %v", where, err)
	}
	if !e.refVerdict(cfg, R, s, P, msg) {
		t.Fatalf("%s: the reference (independent challenge + group equation) rejects the library's signature", where)
	}
	if got, want := new(big.Int).SetBytes(sig.E.Bytes()), e.challenge(cfg, R, P, msg); got.Cmp(want) != 0 {
		t.Fatalf("%s: signature carries e=%x, independent recomputation gives %x", where, got, want)
	}
	if cfg.par && R.Y.Bit(0) == 1 {
		t.Fatalf("%s: nonce parity callback configured but R has odd y", where)
	}
	// serialised form is R || s in the native encodings
	if ser, err := sch.Variant().SerializeSignature(sig); err != nil || string(ser) != string(append(e.enc(R), be(s, e.sf.ElementSize())...)) {
		t.Fatalf("%s: SerializeSignature gives %x (err=%v), want enc(R) || s", where, ser, err)
	}

	// ONE alteration
	alt := flatPick(t, "alt", []string{
		"msg", "R+G", "R-neg", "R-double", "R-other", "R-identity", "s+1", "s-neg", "s-random", "s-zero",
		"E-replaced", "E-nil", "forged-with-E", "pk-other", "pk-neg", "pk+G", "pk-identity", "cfg-hash", "cfg-le", "cfg-neg",
	})
	aR, as, aP, am, acfg := R, s, P, msg, cfg
	aE := sig.E
	eNil := false
	switch alt {
	case "msg":
		am, alt = alterMsg(t, msg)
	case "R+G":
		aR = e.ref.Add(R, e.ref.G)
	case "R-neg":
		aR = e.ref.Neg(R)
	case "R-double":
		aR = e.ref.Double(R)
	case "R-other":
		aR = e.ref.ScalarMul(e.ref.G, drawnScalar(t, "k'", n))
	case "R-identity":
		aR = e.ref.Neutral()
	case "s+1":
		as = new(big.Int).Mod(new(big.Int).Add(s, one), n)
	case "s-neg":
		as = new(big.Int).Sub(n, s)
	case "s-random":
		as = drawnScalar(t, "s'", n)
	case "s-zero":
		as = new(big.Int)
	case "E-replaced":
		aE = e.scalar(t, drawnScalar(t, "e'", n))
	case "E-nil":
		eNil = true
	case "forged-with-E":
		fs, fe := drawnScalar(t, "fs", n), drawnScalar(t, "fe", n)
		x := fe
		if cfg.neg {
			x = new(big.Int).Sub(n, fe)
		}
		aR = e.ref.Sub(e.ref.ScalarMul(e.ref.G, fs), e.ref.ScalarMul(P, x)) // [fs]G = R +- [fe]P holds for the SUPPLIED fe
		as = fs
		aE = e.scalar(t, fe)
	case "pk-other":
		aP = e.ref.ScalarMul(e.ref.G, drawnScalar(t, "sk'", n))
	case "pk-neg":
		aP = e.ref.Neg(P)
	case "pk+G":
		aP = e.ref.Add(P, e.ref.G)
	case "pk-identity":
		aP = e.ref.Neutral()
	case "cfg-hash":
		for _, h := range schHashes {
			if h != cfg.h.name {
				acfg.h = hashByName(h)
				break
			}
		}
	case "cfg-le":
		acfg.le = !cfg.le
	case "cfg-neg":
		acfg.neg = !cfg.neg
	}
	want := e.refVerdict(acfg, aR, as, aP, am)
	expectValid := alt == "E-replaced" || alt == "E-nil"
	if want != expectValid {
		t.Skip("degenerate alteration (reference verdict differs from the class expectation)")
	}
	// build the library objects
	var lR GE
	if e.ref.IsNeutral(aR) {
		lR = e.g.OpIdentity()
	} else {
		lR = e.fromRef(t, aR)
	}
	asig := &schnorrlike.Signature[GE, S]{E: aE, R: lR, S: e.scalar(t, as)}
	if eNil {
		var nilS S
		asig.E = nilS
	}
	apk := pk
	if !e.ref.Equal(aP, P) {
		if e.ref.IsNeutral(aP) {
			apk = &schnorrlike.PublicKey[GE, S]{PublicKeyTrait: signatures.PublicKeyTrait[GE, S]{V: e.g.OpIdentity()}}
			if _, err := vanilla.NewPublicKey(e.g.OpIdentity()); err == nil {
				t.Fatalf("%s: NewPublicKey accepts the identity", e.name)
			}
		} else if apk, err = vanilla.NewPublicKey(e.fromRef(t, aP)); err != nil {
			t.Fatalf("harness: NewPublicKey(altered): %v", err)
		}
	}
	avf := vf
	if acfg.String() != cfg.String() {
		if avf, err = e.scheme(t, acfg, seed).Verifier(); err != nil {
			t.Fatalf("Verifier: %v", err)
		}
	}
	var got bool
	vlib.NoPanic(t, "schnorr Verify on "+alt, func() { got = avf.Verify(asig, apk, am) == nil })
	// A replaced E leaves (R, s) - the serialised signature - untouched and the verifier is
	// documented to recompute the challenge: either verdict is sound, the observed one is recorded.
	if got != want && alt != "E-replaced" {
		t.Fatalf("%s; altered (%s): R=%x s=%x P=%x msg=%s cfg=%s: library accept=%v, reference accept=%v", where, alt, e.enc(aR), as, e.enc(aP), vlib.Hex(am), acfg, got, want)
	}
	if alt == "E-replaced" {
		vlib.Class(test, fmt.Sprintf("E-replaced-accepted=%v", got))
	}
	// NewSignature must refuse s = 0
	if as.Sign() == 0 {
		if _, err := schnorrlike.NewSignature(aE, lR, e.scalar(t, as)); err == nil {
			t.Fatalf("%s: NewSignature accepts s = 0", e.name)
		}
	}
	vlib.Case(test, vlib.Desc("schnorr", "generic/"+fmt.Sprintf("neg=%v,le=%v,par=%v", cfg.neg, cfg.le, cfg.par), e.name, cfg.h.name, alt, 1), true,
		"group="+e.name, "hash="+cfg.h.name, fmt.Sprintf("neg=%v", cfg.neg), fmt.Sprintf("le=%v", cfg.le), fmt.Sprintf("parity=%v", cfg.par),
		"key="+keyClass, "msg="+msgClass, "alt="+alt, fmt.Sprintf("expected-valid=%v", want))
	vlib.Sample("schnorr", map[string]any{"group": e.name, "cfg": cfg.String(), "key": keyClass, "msg": msgClass, "alt": alt})
}

// TestSchnorrGeneric: the configurable Schnorr scheme over k256, p256, pallas, vesta, the
// edwards25519 prime subgroup and BLS12-381 G1 with drawn hash / sign / byte order / parity
// options. The challenge is recomputed from the documented formula with independent encodings;
// the group equation is evaluated in the model; ONE alteration; verdicts must agree.
func TestSchnorrGeneric(t *testing.T) {
	const test = "SchnorrGeneric"
	vlib.Check(t, 600, func(t *rapid.T) {
		switch rapid.SampledFrom([]string{"k256", "k256", "p256", "p256", "pallas", "vesta", "ed25519", "ed25519", "g1"}).Draw(t, "group") {
		case "k256":
			schnorrCase(t, test, schK256)
		case "p256":
			schnorrCase(t, test, schP256)
		case "pallas":
			schnorrCase(t, test, schPallas)
		case "vesta":
			schnorrCase(t, test, schVesta)
		case "ed25519":
			schnorrCase(t, test, schEd)
		default:
			schnorrCase(t, test, schG1)
		}
	})
}
