// Package c15 is the harness of property C15: single-party signatures (ECDSA, BIP-340,
// configurable Schnorr, Mina, BLS) verify exactly for the signed message and key.
//
//	ecdsa_test.go          TestECDSA, TestECDSADifferential
//	ecdsa_vectors_test.go  TestECDSAVectorsRFC6979, TestECDSADeterministicNonNIST (observation)
//	bip340_test.go         TestBIP340, TestBIP340Vectors, TestBIP340Batch
//	schnorr_test.go        TestSchnorrGeneric
//	mina_test.go           TestMina, TestMinaVectors, TestMinaPackingObservation (observation)
//	bls_test.go            TestBLSSingle, TestBLSAggregate, TestBLSSameKeyBatch, TestBLSVectors
//	testdata/              pinned copies of the published vectors (embedded)
//
// Independent oracles: crypto/ecdsa on elliptic.P256(), vlib/refcurve (math/big curve model,
// textbook ECDSA and recovery, BIP-340 from the BIP text, Schnorr group equation, point encoders).
package c15

import (
	"testing"

	"verif/harness/vlib"
)

func TestMain(m *testing.M) { vlib.Main(m) }
