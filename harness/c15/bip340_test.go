package c15

import (
	"bytes"
	"fmt"
	"math/big"
	"testing"

	"pgregory.net/rapid"

	"github.com/bronlabs/bron-crypto/pkg/base/curves/k256"
	"github.com/bronlabs/bron-crypto/pkg/signatures/schnorrlike"
	"github.com/bronlabs/bron-crypto/pkg/signatures/schnorrlike/bip340"
	"verif/harness/vlib"
	"verif/harness/vlib/refcurve"
)

// libBIP340Bytes is the library's verdict on wire data: decode the x-only key, decode the
// 64-byte signature, verify. A refusal at any stage is a rejection.
func libBIP340Bytes(pk, msg, sig []byte) (bool, string) {
	p, err := bip340.NewPublicKeyFromBytes(pk)
	if err != nil {
		return false, "pk-decode"
	}
	s, err := bip340.NewSignatureFromBytes(sig)
	if err != nil {
		return false, "sig-decode"
	}
	vf, err := bip340.NewSchemeWithAux([32]byte{}).Verifier()
	if err != nil {
		return false, "verifier"
	}
	if err := vf.Verify(s, p, msg); err != nil {
		return false, "verify"
	}
	return true, ""
}

func libBIP340Obj(sig *bip340.Signature, pk *bip340.PublicKey, msg []byte) bool {
	vf, err := bip340.NewSchemeWithAux([32]byte{}).Verifier()
	if err != nil {
		return false
	}
	return vf.Verify(sig, pk, msg) == nil
}

func genAux(t *rapid.T) ([32]byte, string) {
	var aux [32]byte
	switch rapid.IntRange(0, 3).Draw(t, "auxClass") {
	case 0:
		return aux, "zeros"
	case 1:
		for i := range aux {
			aux[i] = 0xff
		}
		return aux, "ff"
	default:
		copy(aux[:], rapid.SliceOfN(rapid.Byte(), 32, 32).Draw(t, "aux"))
		return aux, "drawn"
	}
}

type bipSigned struct {
	d       *big.Int
	sk      *bip340.PrivateKey
	pk      *bip340.PublicKey
	sig     *bip340.Signature
	pkBytes []byte
	sigB    []byte
	msg     []byte
	aux     [32]byte
}

// bipSign signs with the library and checks the result against the BIP text in the model:
// same public key bytes, byte-identical signature (the BIP's default signing algorithm is
// deterministic given aux_rand), accepted by the reference verifier and by the library.
func bipSign(t *rapid.T, d *big.Int, msg []byte, aux [32]byte) *bipSigned {
	e := envK256
	sk, err := bip340.NewPrivateKey(e.scalar(t, d))
	if err != nil {
		t.Fatalf("bip340.NewPrivateKey(%s): %v", d, err)
	}
	signer, err := bip340.NewSchemeWithAux(aux).Signer(sk)
	if err != nil {
		t.Fatalf("Signer: %v", err)
	}
	sig, err := signer.Sign(msg)
	if err != nil {
		t.Fatalf("bip340 Sign(d=%s, msg=%s, aux=%x): %v", d, vlib.Hex(msg), aux, err)
	}
	out := &bipSigned{d: d, sk: sk, pk: sk.PublicKey(), sig: sig, msg: msg, aux: aux}
	if out.sigB, err = bip340.SerializeSignature(sig); err != nil {
		t.Fatalf("SerializeSignature: %v", err)
	}
	if out.pkBytes, err = bip340.SerializePublicKey(out.pk); err != nil {
		t.Fatalf("SerializePublicKey: %v", err)
	}
	where := fmt.Sprintf("bip340 d=%s msg=%s aux=%x sig=%x", d, vlib.Hex(msg), aux, out.sigB)
	refPk, ok := refcurve.BIP340PubKey(be(d, 32))
	if !ok || !bytes.Equal(refPk, out.pkBytes) {
		t.Fatalf("%s: public key bytes %x, BIP-340 says %x", where, out.pkBytes, refPk)
	}
	refSig, ok := refcurve.BIP340Sign(be(d, 32), msg, aux[:])
	if !ok {
		t.Skip("reference signer hit k = 0")
	}
	if !bytes.Equal(refSig, out.sigB) {
		t.Fatalf("%s: the BIP-340 default signing algorithm gives %x", where, refSig)
	}
	if !refcurve.BIP340Verify(out.pkBytes, msg, out.sigB) {
		t.Fatalf("%s: the reference verifier rejects the library's signature", where)
	}
	if !libBIP340Obj(sig, out.pk, msg) {
		t.Fatalf("%s: the library rejects its own signature (object)", where)
	}
	if ok, st := libBIP340Bytes(out.pkBytes, msg, out.sigB); !ok {
		t.Fatalf("%s: the library rejects its own signature after serialisation (%s)", where, st)
	}
	return out
}

var k256P = refcurve.K256().P

// TestBIP340: generated keys / messages / aux; library signature == BIP-340 reference signature;
// then ONE alteration on the wire form (R.x, s, message, key) or on the object (negated R or key -
// same wire form, so still valid -, replaced E, forgery that relies on a supplied E, identity R,
// zero s). Library verdict must equal refcurve.BIP340Verify and the expected verdict.
func TestBIP340(t *testing.T) {
	const test = "BIP340"
	e := envK256
	n := e.ref.N
	vlib.Check(t, 500, func(t *rapid.T) {
		d, keyClass := genScalar(t, "sk", n)
		msg, msgClass := genMsg(t, "msg", true)
		aux, auxClass := genAux(t)
		b := bipSign(t, d, msg, aux)
		rx, s := new(big.Int).SetBytes(b.sigB[:32]), new(big.Int).SetBytes(b.sigB[32:])
		where := fmt.Sprintf("bip340 d=%s msg=%s aux=%x sig=%x", d, vlib.Hex(msg), aux, b.sigB)

		alt := flatPick(t, "alt", []string{
			"msg", "rx+1", "rx-bit", "rx-random", "rx>=p", "rx-no-point", "rx-zero",
			"s+1", "s-bit", "s-random", "s-neg", "s=n", "s>=n", "s-zero", "s-for-odd-R",
			"pk-other", "pk>=p", "pk-no-point", "pk-zero",
			"obj-R-neg", "obj-pk-neg", "obj-E-replaced", "obj-E-nil", "obj-forged-with-E", "obj-R-identity", "obj-s-zero",
		})
		apk, amsg, asig := bytes.Clone(b.pkBytes), msg, bytes.Clone(b.sigB)
		set := func(dst []byte, v *big.Int) { copy(dst, be(v, 32)) }
		bit := func(x *big.Int) *big.Int {
			i := rapid.IntRange(0, 255).Draw(t, "bitAt")
			return new(big.Int).SetBit(new(big.Int).Set(x), i, x.Bit(i)^1)
		}
		rnd32 := func(l string) *big.Int {
			return new(big.Int).SetBytes(rapid.SliceOfN(rapid.Byte(), 32, 32).Draw(t, l))
		}
		want := false
		var got bool
		stage := "object"
		objLevel := false
		switch alt {
		case "msg":
			amsg, alt = alterMsg(t, msg)
		case "rx+1":
			set(asig[:32], new(big.Int).Add(rx, one)) // p-1 is no abscissa, so no overflow past 2^256
		case "rx-bit":
			set(asig[:32], bit(rx))
		case "rx-random":
			set(asig[:32], rnd32("rx'"))
		case "rx>=p":
			// the non-canonical alias of the same abscissa when it fits in 32 bytes, else p itself
			alias := new(big.Int).Add(rx, k256P)
			if alias.BitLen() > 256 {
				alias = new(big.Int).Add(k256P, big.NewInt(int64(rapid.IntRange(0, 1000).Draw(t, "over"))))
			}
			set(asig[:32], alias)
		case "rx-no-point":
			set(asig[:32], noPointX(e.ref, rnd32("start")))
		case "rx-zero":
			set(asig[:32], new(big.Int))
		case "s+1":
			set(asig[32:], new(big.Int).Mod(new(big.Int).Add(s, one), n))
		case "s-bit":
			set(asig[32:], bit(s))
		case "s-random":
			set(asig[32:], rnd32("s'"))
		case "s-neg":
			set(asig[32:], new(big.Int).Sub(n, s))
		case "s=n":
			set(asig[32:], n)
		case "s>=n":
			alias := new(big.Int).Add(s, n)
			if alias.BitLen() > 256 {
				alias = new(big.Int).Add(n, big.NewInt(int64(rapid.IntRange(1, 1000).Draw(t, "over"))))
			}
			set(asig[32:], alias)
		case "s-zero":
			set(asig[32:], new(big.Int))
		case "s-for-odd-R":
			// made with the secret key: s' = 2 e d - s gives [s']G - [e]P = -R, the right abscissa
			// with an ODD ordinate; only the has_even_y(R) check rejects it (BIP vector 6 is of this kind)
			ch := refcurve.BIP340Challenge(b.sigB[:32], b.pkBytes, msg)
			dAdj := d
			if e.ref.ScalarBaseMul(d).Y.Bit(0) == 1 {
				dAdj = new(big.Int).Sub(n, d)
			}
			s2 := new(big.Int).Mul(ch, dAdj)
			s2.Lsh(s2, 1).Sub(s2, s).Mod(s2, n)
			if s2.Sign() == 0 {
				t.Skip("degenerate")
			}
			minusR := e.ref.Sub(e.ref.ScalarBaseMul(s2), e.ref.ScalarMul(e.refPoint(t, bip340.LiftX(b.pk.Value())), ch))
			if minusR.Inf || minusR.X.Cmp(rx) != 0 || minusR.Y.Bit(0) != 1 {
				t.Fatalf("harness: s-for-odd-R construction is wrong")
			}
			set(asig[32:], s2)
		case "pk-other":
			d2 := drawnScalar(t, "sk'", n)
			o, _ := refcurve.BIP340PubKey(be(d2, 32))
			if bytes.Equal(o, apk) {
				t.Skip("same key")
			}
			apk = o
		case "pk>=p":
			alias := new(big.Int).Add(new(big.Int).SetBytes(apk), k256P)
			if alias.BitLen() > 256 {
				alias = new(big.Int).Add(k256P, big.NewInt(int64(rapid.IntRange(0, 1000).Draw(t, "over"))))
			}
			set(apk, alias)
		case "pk-no-point":
			set(apk, noPointX(e.ref, rnd32("start")))
		case "pk-zero":
			set(apk, new(big.Int))
		default:
			objLevel = true
		}
		if !objLevel {
			if bytes.Equal(apk, b.pkBytes) && bytes.Equal(asig, b.sigB) && bytes.Equal(amsg, msg) {
				t.Skip("alteration is the identity")
			}
			got, stage = libBIP340Bytes(apk, amsg, asig)
			if ref := refcurve.BIP340Verify(apk, amsg, asig); ref != want {
				t.Fatalf("harness: %s; altered %s pk=%x msg=%s sig=%x: reference accepts", where, alt, apk, vlib.Hex(amsg), asig)
			}
		} else {
			P := e.refPoint(t, b.pk.Value())
			R := e.refPoint(t, b.sig.R)
			osig := &bip340.Signature{E: b.sig.E, R: b.sig.R, S: b.sig.S}
			opk := b.pk
			var refBytesSig []byte // wire form of the altered object, nil if it has none
			switch alt {
			case "obj-R-neg":
				osig.R = b.sig.R.Neg()
				want = true
				refBytesSig = b.sigB
			case "obj-pk-neg":
				var err error
				if opk, err = bip340.NewPublicKey(b.pk.Value().Neg()); err != nil {
					t.Fatalf("NewPublicKey(-P): %v", err)
				}
				want = true
				refBytesSig = b.sigB
			case "obj-E-replaced":
				osig.E = e.scalar(t, drawnScalar(t, "e'", n))
				want = true
				refBytesSig = b.sigB
			case "obj-E-nil":
				osig.E = nil
				want = true
				refBytesSig = b.sigB
			case "obj-forged-with-E":
				// universal forgery against a verifier that trusts a supplied challenge:
				// pick s, e; R := [s]G - [e]P. Without the secret key.
				fs, fe := drawnScalar(t, "fs", n), drawnScalar(t, "fe", n)
				Pe := P
				if Pe.Y.Bit(0) == 1 {
					Pe = e.ref.Neg(P)
				}
				FR := e.ref.Sub(e.ref.ScalarBaseMul(fs), e.ref.ScalarMul(Pe, fe))
				if FR.Inf {
					t.Skip("degenerate forgery")
				}
				osig = &bip340.Signature{E: e.scalar(t, fe), R: e.libPoint(t, FR), S: e.scalar(t, fs)}
				refBytesSig = append(be(FR.X, 32), be(fs, 32)...)
			case "obj-R-identity":
				osig.R = k256.NewCurve().OpIdentity()
			case "obj-s-zero":
				osig.S = k256.NewScalarField().Zero()
			}
			_ = R
			vlib.NoPanic(t, "bip340 Verify on "+alt, func() { got = libBIP340Obj(osig, opk, msg) })
			if refBytesSig != nil {
				if ref := refcurve.BIP340Verify(b.pkBytes, msg, refBytesSig); ref != want {
					t.Fatalf("harness: %s; %s: reference verdict %v, expected %v", where, alt, ref, want)
				}
			}
		}
		// Same wire form, different object (negated R / negated key: BIP-340 is x-only; replaced E: the
		// verifier is documented to recompute the challenge and not to trust the field): the wire
		// signature is unchanged and valid, so either verdict on the object is sound; it is recorded.
		equivalent := alt == "obj-R-neg" || alt == "obj-pk-neg" || alt == "obj-E-replaced"
		if got != want && !equivalent {
			t.Fatalf("%s; altered (%s): pk=%x msg=%s sig=%x: library accept=%v, BIP-340 reference accept=%v", where, alt, apk, vlib.Hex(amsg), asig, got, want)
		}
		if equivalent {
			stage = fmt.Sprintf("equivalent-object-accepted=%v", got)
		}
		vlib.Case(test, vlib.Desc("schnorr", "bip340", "k256", "sha256-tagged", alt, 1), true,
			"key="+keyClass, "msg="+msgClass, "aux="+auxClass, "alt="+alt, "rejected-at="+stage, fmt.Sprintf("expected-valid=%v", want))
		vlib.Sample("bip340", map[string]any{"key": keyClass, "msg": msgClass, "alt": alt, "valid": want})
	})
}

type bipVectors struct {
	Vectors []struct {
		Index                       int
		SecretKey                   string `json:"secret_key"`
		PublicKey                   string `json:"public_key"`
		AuxRand                     string `json:"aux_rand"`
		Message, Signature, Comment string
		Valid                       bool
	}
}

// TestBIP340Vectors: the 19 vectors of the BIP (pinned copy), positive and negative; signing
// vectors must be reproduced byte for byte; the reference model must give the published verdict too.
func TestBIP340Vectors(t *testing.T) {
	const test = "BIP340Vectors"
	var doc bipVectors
	mustJSON(t, "testdata/bip340_vectors.json", &doc)
	if len(doc.Vectors) != 19 {
		t.Fatalf("harness: %d vectors", len(doc.Vectors))
	}
	neg := 0
	for i, v := range doc.Vectors {
		if !v.Valid {
			neg++
		}
		if !vlib.Mine(i) {
			continue
		}
		pk, msg, sig := unhex(t, v.PublicKey), unhex(t, v.Message), unhex(t, v.Signature)
		if msg == nil {
			msg = []byte{}
		}
		if ref := refcurve.BIP340Verify(pk, msg, sig); ref != v.Valid {
			t.Fatalf("harness: BIP-340 vector %d: reference verdict %v, published %v", v.Index, ref, v.Valid)
		}
		got, stage := libBIP340Bytes(pk, msg, sig)
		if got != v.Valid {
			t.Fatalf("BIP-340 vector %d (%s): library accept=%v (%s), published %v", v.Index, v.Comment, got, stage, v.Valid)
		}
		if v.SecretKey != "" {
			sk, err := bip340.NewPrivateKey(envK256.scalar(t, new(big.Int).SetBytes(unhex(t, v.SecretKey))))
			if err != nil {
				t.Fatalf("vector %d: NewPrivateKey: %v", v.Index, err)
			}
			var aux [32]byte
			copy(aux[:], unhex(t, v.AuxRand))
			signer, err := bip340.NewSchemeWithAux(aux).Signer(sk)
			if err != nil {
				t.Fatalf("vector %d: Signer: %v", v.Index, err)
			}
			s, err := signer.Sign(msg)
			if err != nil {
				t.Fatalf("vector %d: Sign: %v", v.Index, err)
			}
			sb, _ := bip340.SerializeSignature(s)
			pb, _ := bip340.SerializePublicKey(sk.PublicKey())
			if !bytes.Equal(sb, sig) || !bytes.Equal(pb, pk) {
				t.Fatalf("BIP-340 vector %d: signing gives pk=%x sig=%x, published pk=%x sig=%x", v.Index, pb, sb, pk, sig)
			}
		}
		vlib.Case(test, vlib.Desc("schnorr", "bip340", "k256", "vector", v.Index), true, fmt.Sprintf("valid=%v", v.Valid), "rejected-at="+stage)
	}
	if neg != 10 {
		t.Fatalf("harness: expected 10 negative vectors, have %d", neg)
	}
	vlib.Exhaustive("BIP-340 test-vectors.csv indices 0-18 (9 valid, 10 invalid; 8 with signing data)")
}

// TestBIP340Batch: BatchVerify on 1-5 (key, message, signature) triples accepts iff every
// triple is valid under the reference verifier; one triple is altered in half of the cases.
func TestBIP340Batch(t *testing.T) {
	const test = "BIP340Batch"
	e := envK256
	n := e.ref.N
	vlib.Check(t, 120, func(t *rapid.T) {
		k := rapid.IntRange(1, 5).Draw(t, "n")
		var sigs []*bip340.Signature
		var pks []*bip340.PublicKey
		var msgs [][]byte
		var items []*bipSigned
		for i := 0; i < k; i++ {
			d, _ := genScalar(t, fmt.Sprintf("sk%d", i), n)
			m, _ := genMsg(t, fmt.Sprintf("msg%d", i), true)
			aux, _ := genAux(t)
			b := bipSign(t, d, m, aux)
			items = append(items, b)
			sigs, pks, msgs = append(sigs, b.sig), append(pks, b.pk), append(msgs, m)
		}
		// Low-weight tail of LARGE batches. BatchVerify has no size limit; its two multi-scalar
		// multiplications (curve.MultiScalarMul -> impl.MultiScalarMulLowLevel) are naive up to 7 points
		// and bucketed above with window width bits.Len(n): 4 bits for 8..15, 5 for 16..31, ... 8 for
		// 128..255, 9 (windows straddling three scalar bytes) from 256 on. Signing and model-checking a
		// triple costs tens of milliseconds, so a large batch repeats the 1..5 honest triples drawn above
		// (a repeated valid triple keeps the batch valid - the "dup-triple" alteration relies on the same
		// fact); the alterations below then hit one position of the large batch.
		if rapid.IntRange(1, 6).Draw(t, "largeBatch") == 6 {
			K := rapid.SampledFrom([]int{7, 8, 9, 15, 16, 17, 31, 32, 33, 63, 64, 65, 127, 128, 129, 255, 256, 257, 300}).Draw(t, "batchSize")
			off := rapid.IntRange(0, k-1).Draw(t, "poolOffset")
			var s2 []*bip340.Signature
			var p2 []*bip340.PublicKey
			var m2 [][]byte
			var i2 []*bipSigned
			for i := 0; i < K; i++ {
				j := (i + off) % k
				s2, p2, m2, i2 = append(s2, sigs[j]), append(p2, pks[j]), append(m2, bytes.Clone(msgs[j])), append(i2, items[j])
			}
			sigs, pks, msgs, items, k = s2, p2, m2, i2, K
		}
		alt := flatPick(t, "alt", []string{"none", "none", "msg", "s+1", "R-other", "pk-other", "swap-sigs", "swap-msgs", "length-mismatch", "empty", "dup-triple"})
		at := rapid.IntRange(0, k-1).Draw(t, "at")
		want := true
		mk := func(R *k256.Point, s *k256.Scalar) *bip340.Signature {
			return &schnorrlike.Signature[*k256.Point, *k256.Scalar]{E: nil, R: R, S: s}
		}
		switch alt {
		case "msg":
			msgs[at] = flipBit(t, msgs[at])
			want = false
		case "s+1":
			sigs[at] = mk(sigs[at].R, sigs[at].S.Add(k256.NewScalarField().One()))
			want = false
		case "R-other":
			sigs[at] = mk(sigs[at].R.Add(k256.NewCurve().Generator()), sigs[at].S)
			want = false
		case "pk-other":
			o, err := bip340.NewPrivateKey(e.scalar(t, drawnScalar(t, "sk'", n)))
			if err != nil {
				t.Fatal(err)
			}
			if bytes.Equal(o.PublicKey().Value().ToCompressed()[1:], items[at].pkBytes) {
				t.Skip("same key")
			}
			pks[at] = o.PublicKey()
			want = false
		case "swap-sigs", "swap-msgs":
			j := (at + 1) % k
			if alt == "swap-sigs" {
				sigs[at], sigs[j] = sigs[j], sigs[at]
			} else {
				msgs[at], msgs[j] = msgs[j], msgs[at]
			}
			// still valid only if the two triples were interchangeable
			want = true
			verdicts := map[string]bool{} // a large batch repeats few triples: ask the model once per distinct triple
			for i := range sigs {
				sb, _ := bip340.SerializeSignature(sigs[i])
				pb, _ := bip340.SerializePublicKey(pks[i])
				key := string(sb) + "|" + string(pb) + "|" + string(msgs[i])
				v, ok := verdicts[key]
				if !ok {
					v = refcurve.BIP340Verify(pb, msgs[i], sb)
					verdicts[key] = v
				}
				if !v {
					want = false
				}
			}
		case "length-mismatch":
			msgs = msgs[:k-1]
			want = false
		case "empty":
			sigs, pks, msgs = nil, nil, nil
			want = false
		case "dup-triple":
			sigs, pks, msgs = append(sigs, sigs[at]), append(pks, pks[at]), append(msgs, msgs[at])
		}
		vf, err := bip340.NewSchemeWithAux([32]byte{}).Verifier(bip340.VerifyWithPRNG(vlib.NewPRNG(rapid.Uint64().Draw(t, "seed"), "c15/bip340/batch")))
		if err != nil {
			t.Fatalf("Verifier: %v", err)
		}
		var got bool
		vlib.NoPanic(t, "bip340 BatchVerify", func() { got = vf.BatchVerify(sigs, pks, msgs) == nil })
		if got != want {
			t.Fatalf("bip340 BatchVerify of %d triples, alteration %s at %d: accept=%v, expected %v", k, alt, at, got, want)
		}
		// without a PRNG batch verification must refuse
		plain, _ := bip340.NewSchemeWithAux([32]byte{}).Verifier()
		if plain.BatchVerify(sigs, pks, msgs) == nil {
			t.Fatalf("bip340 BatchVerify without a PRNG accepted")
		}
		vlib.Case(test, vlib.Desc("schnorr", "bip340-batch", "k256", alt, k), true, "alt="+alt, fmt.Sprintf("n=%d", k), fmt.Sprintf("expected-valid=%v", want))
	})
}
