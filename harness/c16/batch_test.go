package c16

import (
	"fmt"
	"math/big"
	"testing"

	"pgregory.net/rapid"

	"github.com/bronlabs/bron-crypto/pkg/encryption"
	"github.com/bronlabs/bron-crypto/pkg/encryption/paillier"
	"verif/harness/vlib"
)

// The package-level helpers (sampled nonce, batches run on goroutines) agree with the single
// operations and with the textbook: Encrypt returns (c, r) with c = Enc(m; r) for the nonce it
// reports; EncryptManyWithNonces / DecryptMany / OpenMany are the element-wise maps.
func TestPaillierBatch(t *testing.T) {
	const test = "PaillierBatch"
	vlib.Check(t, 160, func(t *rapid.T) {
		id := drawKeyID(t, "key")
		key := getKey(t, id)
		ref := key.Ref
		usePK := rapid.Bool().Draw(t, "encryptWithPublicKey")
		cnt := rapid.IntRange(2, 5).Draw(t, "count")
		if id.Bits == 512 && rapid.IntRange(1, 10).Draw(t, "bigBatch") == 10 {
			// the *Many helpers start one goroutine per item and accept any length >= 2; larger
			// batches only under the smallest keys (each item costs four Paillier exponentiations)
			cnt = rapid.SampledFrom([]int{8, 9, 17, 33}).Draw(t, "countBig")
		}
		var (
			ms  []*big.Int
			rs  []*big.Int
			pts []*paillier.Plaintext
			ns  []*paillier.Nonce
		)
		for i := 0; i < cnt; i++ {
			_, m := drawPlain(t, fmt.Sprintf("m%d", i), ref)
			pt, _ := mkPlain(t, fmt.Sprintf("m%d", i), key, m)
			_, r := drawNonce(t, fmt.Sprintf("r%d", i), ref)
			ms, rs, pts, ns = append(ms, m), append(rs, r), append(pts, pt), append(ns, mkNonce(t, key, r))
		}
		prng := vlib.NewPRNG(rapid.Uint64().Draw(t, "prng"), "c16/batch")

		// Encrypt: sampled nonce is a unit and explains the ciphertext
		var (
			c0  *paillier.Ciphertext
			n0  *paillier.Nonce
			err error
		)
		if usePK {
			c0, n0, err = encryption.Encrypt(pts[0], key.PKn, prng)
		} else {
			c0, n0, err = encryption.Encrypt(pts[0], key.SK, prng)
		}
		if err != nil {
			t.Fatalf("key %v: encryption.Encrypt failed: %v", id, err)
		}
		r0 := nonceVal(n0)
		if !ref.isUnitN(r0) || r0.Cmp(ref.N) >= 0 {
			t.Fatalf("key %v: Encrypt sampled the nonce %s, not a unit of Z_N", id, short(r0))
		}
		if got, want := fromBE(c0.Bytes()), ref.Enc(ms[0], r0); got.Cmp(want) != 0 {
			t.Fatalf("key %v: Encrypt(m=%s) returned c=%s and nonce %s, but Enc(m; nonce) = %s", id, short(ms[0]), short(got), short(r0), short(want))
		}

		// EncryptManyWithNonces
		var cs []*paillier.Ciphertext
		if usePK {
			cs, err = encryption.EncryptManyWithNonces(pts, key.PKn, ns)
		} else {
			cs, err = encryption.EncryptManyWithNonces(pts, key.SK, ns)
		}
		if err != nil || len(cs) != cnt {
			t.Fatalf("key %v: EncryptManyWithNonces(%d) failed: %v (%d results)", id, cnt, err, len(cs))
		}
		for i := range cs {
			if got, want := fromBE(cs[i].Bytes()), ref.Enc(ms[i], rs[i]); got.Cmp(want) != 0 {
				t.Fatalf("key %v: EncryptManyWithNonces[%d] = %s, textbook for m=%s r=%s is %s", id, i, short(got), short(ms[i]), short(rs[i]), short(want))
			}
		}
		// EncryptMany: sampled nonces, results explained by the nonces returned, in order
		cs2, ns2, err := encryption.EncryptMany(pts, key.PKn, prng)
		if err != nil || len(cs2) != cnt || len(ns2) != cnt {
			t.Fatalf("key %v: EncryptMany(%d) failed: %v", id, cnt, err)
		}
		for i := range cs2 {
			if got, want := fromBE(cs2[i].Bytes()), ref.Enc(ms[i], nonceVal(ns2[i])); got.Cmp(want) != 0 {
				t.Fatalf("key %v: EncryptMany[%d] = %s is not Enc(m=%s; returned nonce %s)", id, i, short(got), short(ms[i]), short(nonceVal(ns2[i])))
			}
		}
		// DecryptMany / OpenMany
		ds, err := encryption.DecryptMany[*paillier.PublicKey, *paillier.SecretKey](cs, key.SK)
		if err != nil || len(ds) != cnt {
			t.Fatalf("key %v: DecryptMany failed: %v", id, err)
		}
		os, on, err := encryption.OpenMany[*paillier.PublicKey, *paillier.SecretKey](cs, key.SK)
		if err != nil || len(os) != cnt || len(on) != cnt {
			t.Fatalf("key %v: OpenMany failed: %v", id, err)
		}
		for i := range cs {
			if ptVal(ds[i]).Cmp(ms[i]) != 0 || !ds[i].Equal(pts[i]) {
				t.Fatalf("key %v: DecryptMany[%d] = %s, want %s", id, i, short(ptVal(ds[i])), short(ms[i]))
			}
			if ptVal(os[i]).Cmp(ms[i]) != 0 || nonceVal(on[i]).Cmp(rs[i]) != 0 {
				t.Fatalf("key %v: OpenMany[%d] = (%s, %s), want (%s, %s)", id, i, short(ptVal(os[i])), short(nonceVal(on[i])), short(ms[i]), short(rs[i]))
			}
		}
		flavour := fmt.Sprintf("%s/%d", id.Kind, 2*id.Bits)
		vlib.Case(test, vlib.Desc(flavour, cnt, usePK, id.I, id.J), true, "key="+flavour, fmt.Sprintf("count=%d", cnt), fmt.Sprintf("encryptWithPK=%v", usePK))
	})
}
