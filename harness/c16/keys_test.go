package c16

import (
	"fmt"
	"math/big"
	"sync"

	"pgregory.net/rapid"

	"github.com/bronlabs/bron-crypto/pkg/base/nt/num"
	"github.com/bronlabs/bron-crypto/pkg/base/nt/znstar"
	"github.com/bronlabs/bron-crypto/pkg/encryption/paillier"
	"verif/harness/vlib"
)

// fataler is what the helpers need of *rapid.T / *testing.T.
type fataler interface {
	Fatalf(format string, args ...any)
	Helper()
}

// ---- conversions between math/big and the library's number types (big-endian bytes) --------

func natPlus(t fataler, b *big.Int) *num.NatPlus {
	t.Helper()
	v, err := num.NPlus().FromBytesBE(b.Bytes())
	if err != nil {
		t.Fatalf("harness: NatPlus from %s: %v", short(b), err)
	}
	return v
}

func nat(t fataler, b *big.Int) *num.Nat {
	t.Helper()
	v, err := num.N().FromBytesBE(b.Bytes())
	if err != nil {
		t.Fatalf("harness: Nat from %s: %v", short(b), err)
	}
	return v
}

func zint(t fataler, b *big.Int) *num.Int {
	t.Helper()
	v, err := num.Z().FromBig(b)
	if err != nil {
		t.Fatalf("harness: Int from %s: %v", short(b), err)
	}
	if v.Big().Cmp(b) != 0 { // conversions are C17's subject; here only a guard for the oracle
		t.Fatalf("harness: Int conversion of %s does not round-trip (got %s)", short(b), short(v.Big()))
	}
	return v
}

func fromBE(b []byte) *big.Int { return new(big.Int).SetBytes(b) }

func short(b *big.Int) string {
	if b.Sign() < 0 {
		return "-" + short(new(big.Int).Neg(b))
	}
	s := b.Text(16)
	if len(s) <= 40 {
		return "0x" + s
	}
	return fmt.Sprintf("0x%s..%s(%d bits)", s[:16], s[len(s)-12:], b.BitLen())
}

// ---- keys built from the fixture primes through the library's constructors -----------------

type keyID struct {
	Bits int // bits of one prime; N has 2*Bits
	Kind string
	I, J int
}

func (k keyID) String() string { return fmt.Sprintf("%s/%d[%d,%d]", k.Kind, 2*k.Bits, k.I, k.J) }

type pkey struct {
	ID    keyID
	Ref   *refKey
	N     *num.NatPlus
	Group *znstar.PaillierGroupKnownOrder
	SK    *paillier.SecretKey
	PKsk  *paillier.PublicKey // sk.Public()
	PKn   *paillier.PublicKey // built from N alone
}

var (
	keyMu    sync.Mutex
	keyCache = map[keyID]*pkey{}
)

func getKey(t fataler, id keyID) *pkey {
	t.Helper()
	keyMu.Lock()
	defer keyMu.Unlock()
	if k, ok := keyCache[id]; ok {
		return k
	}
	ps := vlib.Primes(id.Bits, id.Kind)
	if id.I == id.J || id.I >= len(ps) || id.J >= len(ps) {
		t.Fatalf("harness: bad key id %v", id)
	}
	p, q := ps[id.I], ps[id.J]
	k := &pkey{ID: id, Ref: newRefKey(p, q)}
	g, err := znstar.NewPaillierGroup(natPlus(t, p), natPlus(t, q))
	if err != nil {
		t.Fatalf("NewPaillierGroup(%v) failed on fixture primes: %v", id, err)
	}
	k.Group = g
	k.N = g.N()
	if k.N.Big().Cmp(k.Ref.N) != 0 {
		t.Fatalf("NewPaillierGroup(%v): N = %s, want p*q = %s", id, short(k.N.Big()), short(k.Ref.N))
	}
	k.SK, err = paillier.NewSecretKey(g)
	if err != nil {
		t.Fatalf("NewSecretKey(%v) failed: %v", id, err)
	}
	k.PKsk = k.SK.Public()
	ug, err := znstar.NewPaillierGroupOfUnknownOrder(natPlus(t, k.Ref.N2), natPlus(t, k.Ref.N))
	if err != nil {
		t.Fatalf("NewPaillierGroupOfUnknownOrder(%v) failed: %v", id, err)
	}
	k.PKn, err = paillier.NewPublicKey(ug)
	if err != nil {
		t.Fatalf("NewPublicKey(%v) failed: %v", id, err)
	}
	if !k.PKn.Equal(k.PKsk) || !k.PKsk.Equal(k.PKn) {
		t.Fatalf("key %v: the public key built from N alone is not Equal to sk.Public()", id)
	}
	keyCache[id] = k
	return k
}

// sizes: prime bits -> weight. Mostly 1024-bit N (65 %), some 1536 (15 %) / 2048 (15 %) / 3072 (5 %).
var sizeGen = rapid.SampledFrom([]int{
	512, 512, 512, 512, 512, 512, 512, 512, 512, 512, 512, 512, 512,
	768, 768, 768,
	1024, 1024, 1024,
	1536,
})

var kindGen = rapid.SampledFrom([]string{"ord", "blum", "safe"})

func drawKeyID(t *rapid.T, label string) keyID {
	bits := sizeGen.Draw(t, label+"bits")
	kind := kindGen.Draw(t, label+"kind")
	n := len(vlib.Primes(bits, kind))
	i := rapid.IntRange(0, n-1).Draw(t, label+"i")
	j := rapid.IntRange(0, n-2).Draw(t, label+"j")
	if j >= i {
		j++
	}
	return keyID{Bits: bits, Kind: kind, I: i, J: j}
}

// otherKeyID draws a key different from id: same size (the dangerous case: same byte lengths)
// or another size.
func otherKeyID(t *rapid.T, id keyID) (keyID, string) {
	modulus := func(k keyID) *big.Int {
		ps := vlib.Primes(k.Bits, k.Kind)
		return new(big.Int).Mul(ps[k.I], ps[k.J])
	}
	if rapid.IntRange(0, 3).Draw(t, "foreignSameSize") > 0 {
		for k := 0; ; k++ {
			o := keyID{Bits: id.Bits, Kind: kindGen.Draw(t, fmt.Sprintf("fkind%d", k))}
			n := len(vlib.Primes(o.Bits, o.Kind))
			o.I = rapid.IntRange(0, n-1).Draw(t, fmt.Sprintf("fi%d", k))
			o.J = rapid.IntRange(0, n-2).Draw(t, fmt.Sprintf("fj%d", k))
			if o.J >= o.I {
				o.J++
			}
			if modulus(o).Cmp(modulus(id)) != 0 {
				return o, "same-size"
			}
		}
	}
	bits := 512
	if id.Bits == 512 {
		bits = 768
	}
	return keyID{Bits: bits, Kind: id.Kind, I: 0, J: 1}, "other-size"
}

// ---- drawn big integers ---------------------------------------------------------------------

// drawBig expands a drawn 64-bit value into a uniform integer of exactly `bits` random bits
// (SHAKE256); the rapid draw is the only source of randomness.
func drawBig(t *rapid.T, label string, bits int) *big.Int {
	seed := rapid.Uint64().Draw(t, label)
	buf := make([]byte, (bits+7)/8)
	_, _ = vlib.NewPRNG(seed, "c16/"+label).Read(buf)
	v := new(big.Int).SetBytes(buf)
	return v.Rsh(v, uint(len(buf)*8-bits))
}

// drawMod draws a value in [0, n) (64 extra bits before the reduction).
func drawMod(t *rapid.T, label string, n *big.Int) *big.Int {
	v := drawBig(t, label, n.BitLen()+64)
	return v.Mod(v, n)
}

// drawUnit draws a unit of Z_N.
func drawUnit(t *rapid.T, label string, k *refKey) *big.Int {
	v := drawMod(t, label, k.N)
	for !k.isUnitN(v) {
		v.Add(v, one).Mod(v, k.N)
	}
	return v
}

// ---- plaintext / nonce / scalar classes -----------------------------------------------------

var ptClasses = []string{"0", "1", "N-1", "half", "-half", "half-1", "small", "drawn", "drawn", "drawn"}

// drawPlain returns the class and the residue in [0,N).
func drawPlain(t *rapid.T, label string, k *refKey) (string, *big.Int) {
	cl := rapid.SampledFrom(ptClasses).Draw(t, label+"class")
	switch cl {
	case "0":
		return cl, big.NewInt(0)
	case "1":
		return cl, big.NewInt(1)
	case "N-1":
		return cl, new(big.Int).Sub(k.N, one)
	case "half": // floor(N/2), the top of the symmetric range
		return cl, new(big.Int).Set(k.Half)
	case "-half": // -floor(N/2) = floor(N/2)+1 mod N, the bottom of the symmetric range
		return cl, new(big.Int).Add(k.Half, one)
	case "half-1":
		return cl, new(big.Int).Sub(k.Half, one)
	case "small":
		return cl, new(big.Int).SetUint64(uint64(rapid.Uint32().Draw(t, label+"small")))
	default:
		return cl, drawMod(t, label+"v", k.N)
	}
}

// mkPlain builds the library plaintext for the residue m in [0,N) through one of the three
// constructors (drawn): from the natural number, from the signed representative, from a Uint.
func mkPlain(t *rapid.T, label string, key *pkey, m *big.Int) (*paillier.Plaintext, string) {
	via := rapid.SampledFrom([]string{"nat", "sym", "uint"}).Draw(t, label+"via")
	var (
		pt  *paillier.Plaintext
		err error
	)
	switch via {
	case "nat":
		pt, err = paillier.NewPlaintextFromNat(nat(t, m), key.N)
	case "sym":
		pt, err = paillier.NewPlaintextSymmetric(zint(t, key.Ref.sym(m)), key.N)
	default:
		var u *num.Uint
		u, err = key.PKn.PlaintextGroup().FromNat(nat(t, m))
		if err == nil {
			pt, err = paillier.NewPlaintext(u)
		}
	}
	if err != nil {
		t.Fatalf("key %v: plaintext constructor %q rejected the in-range value %s (signed %s): %v",
			key.ID, via, short(m), short(key.Ref.sym(m)), err)
	}
	return pt, via
}

func ptVal(pt *paillier.Plaintext) *big.Int { return fromBE(pt.Bytes()) }

var nonceClasses = []string{"1", "N-1", "2", "drawn", "drawn", "drawn"}

func drawNonce(t *rapid.T, label string, k *refKey) (string, *big.Int) {
	cl := rapid.SampledFrom(nonceClasses).Draw(t, label+"class")
	switch cl {
	case "1":
		return cl, big.NewInt(1)
	case "N-1":
		return cl, new(big.Int).Sub(k.N, one)
	case "2":
		return cl, big.NewInt(2)
	default:
		return cl, drawUnit(t, label+"v", k)
	}
}

func mkNonce(t fataler, key *pkey, r *big.Int) *paillier.Nonce {
	t.Helper()
	n, err := paillier.NewNonce(key.Group, natPlus(t, r))
	if err != nil {
		t.Fatalf("key %v: NewNonce rejected the unit %s: %v", key.ID, short(r), err)
	}
	return n
}

func nonceVal(n *paillier.Nonce) *big.Int { return fromBE(n.Bytes()) }

var scalarClasses = []string{"0", "1", "-1", "2", "small+", "small-", "N", "-N", "N+1", "N-1", "drawn+", "drawn-", ">N", "<-N", "wide+", "wide-"}

func drawScalar(t *rapid.T, label string, k *refKey) (string, *big.Int) {
	cl := rapid.SampledFrom(scalarClasses).Draw(t, label+"class")
	neg := func(x *big.Int) *big.Int { return x.Neg(x) }
	switch cl {
	case "0":
		return cl, big.NewInt(0)
	case "1":
		return cl, big.NewInt(1)
	case "-1":
		return cl, big.NewInt(-1)
	case "2":
		return cl, big.NewInt(2)
	case "small+":
		return cl, new(big.Int).SetUint64(uint64(rapid.Uint32().Draw(t, label+"s")) + 3)
	case "small-":
		return cl, neg(new(big.Int).SetUint64(uint64(rapid.Uint32().Draw(t, label+"s")) + 2))
	case "N":
		return cl, new(big.Int).Set(k.N)
	case "-N":
		return cl, neg(new(big.Int).Set(k.N))
	case "N+1":
		return cl, new(big.Int).Add(k.N, one)
	case "N-1":
		return cl, new(big.Int).Sub(k.N, one)
	case "drawn+":
		return cl, drawMod(t, label+"v", k.N)
	case "drawn-":
		return cl, neg(drawMod(t, label+"v", k.N))
	case ">N": // N < s < 2^(|N|+64)
		return cl, new(big.Int).Add(k.N, drawBig(t, label+"v", k.N.BitLen()+63))
	case "<-N":
		return cl, neg(new(big.Int).Add(k.N, drawBig(t, label+"v", k.N.BitLen()+63)))
	case "wide+": // about N^2
		return cl, new(big.Int).Add(k.N, drawBig(t, label+"v", 2*k.N.BitLen()))
	default:
		return cl, neg(new(big.Int).Add(k.N, drawBig(t, label+"v", 2*k.N.BitLen())))
	}
}
