package c16

import (
	"math/big"
)

// Textbook Paillier over math/big (Paillier 1999, scheme 1 with g = 1+N), written from the
// definition and not from the repository:
//
//	Enc(m; r) = (1+N)^m * r^N mod N^2                      m in Z_N, r in Z*_N
//	Dec(c)    = L(c^lambda mod N^2) * mu mod N             L(x) = (x-1)/N, lambda = lcm(p-1,q-1),
//	                                                       mu = L((1+N)^lambda mod N^2)^-1 mod N
//	nonce(c)  = (c * (1+N)^(-m) mod N)^(N^-1 mod phi(N)) mod N
//
// No CRT, no Fermat quotients: the point is to be a different computation from the library's.

var (
	one = big.NewInt(1)
	two = big.NewInt(2)
)

type refKey struct {
	P, Q, N, N2, G *big.Int // G = 1+N
	Phi, Lambda    *big.Int
	Mu             *big.Int // L(G^lambda)^-1 mod N
	D              *big.Int // N^-1 mod phi(N)
	Half           *big.Int // floor(N/2) = (N-1)/2
}

func newRefKey(p, q *big.Int) *refKey {
	k := &refKey{P: p, Q: q}
	k.N = new(big.Int).Mul(p, q)
	k.N2 = new(big.Int).Mul(k.N, k.N)
	k.G = new(big.Int).Add(k.N, one)
	p1 := new(big.Int).Sub(p, one)
	q1 := new(big.Int).Sub(q, one)
	k.Phi = new(big.Int).Mul(p1, q1)
	g := new(big.Int).GCD(nil, nil, p1, q1)
	k.Lambda = new(big.Int).Div(k.Phi, g)
	gl := new(big.Int).Exp(k.G, k.Lambda, k.N2)
	k.Mu = new(big.Int).ModInverse(k.L(gl), k.N)
	k.D = new(big.Int).ModInverse(k.N, k.Phi)
	if k.Mu == nil || k.D == nil {
		panic("c16: fixture primes do not give a Paillier modulus (gcd(N, phi(N)) != 1)")
	}
	k.Half = new(big.Int).Rsh(k.N, 1)
	return k
}

// L(x) = (x-1)/N; panics when the division is not exact (the caller's x must be 1 mod N).
func (k *refKey) L(x *big.Int) *big.Int {
	q, r := new(big.Int).QuoRem(new(big.Int).Sub(x, one), k.N, new(big.Int))
	if r.Sign() != 0 {
		panic("c16: L applied to a value that is not 1 mod N")
	}
	return q
}

func (k *refKey) modN(x *big.Int) *big.Int { return new(big.Int).Mod(x, k.N) }

// Enc is the textbook formula, both factors by modular exponentiation.
func (k *refKey) Enc(m, r *big.Int) *big.Int {
	gm := new(big.Int).Exp(k.G, k.modN(m), k.N2)
	rn := new(big.Int).Exp(k.modN(r), k.N, k.N2)
	return gm.Mul(gm, rn).Mod(gm, k.N2)
}

// Dec is decryption with lambda and the L function.
func (k *refKey) Dec(c *big.Int) *big.Int {
	u := new(big.Int).Exp(c, k.Lambda, k.N2)
	m := k.L(u)
	return m.Mul(m, k.Mu).Mod(m, k.N)
}

// Nonce recovers r from c and its plaintext m: c*(1+N)^(-m) = r^N mod N^2, reduced mod N and
// raised to N^-1 mod phi(N).
func (k *refKey) Nonce(c, m *big.Int) *big.Int {
	gm := new(big.Int).Exp(k.G, k.modN(m), k.N2)
	gmInv := new(big.Int).ModInverse(gm, k.N2)
	y := new(big.Int).Mul(c, gmInv)
	y.Mod(y, k.N2).Mod(y, k.N)
	return y.Exp(y, k.D, k.N)
}

func (k *refKey) isUnitN(x *big.Int) bool {
	return new(big.Int).GCD(nil, nil, k.modN(x), k.N).Cmp(one) == 0 && k.modN(x).Sign() != 0
}

// powN is x^e mod N for any integer e (negative: inverse first); x must be a unit.
func (k *refKey) powN(x, e *big.Int) *big.Int {
	if e.Sign() >= 0 {
		return new(big.Int).Exp(x, e, k.N)
	}
	inv := new(big.Int).ModInverse(x, k.N)
	return inv.Exp(inv, new(big.Int).Neg(e), k.N)
}

// sym is the representative of x mod N in the symmetric range -(N-1)/2 .. (N-1)/2.
func (k *refKey) sym(x *big.Int) *big.Int {
	v := k.modN(x)
	if v.Cmp(k.Half) > 0 {
		v.Sub(v, k.N)
	}
	return v
}

// inSym: -N < 2x < N  (for odd N this is [-N/2, N/2) = (-N/2, N/2] over the integers).
func (k *refKey) inSym(x *big.Int) bool {
	d := new(big.Int).Lsh(x, 1)
	return d.CmpAbs(k.N) < 0
}
