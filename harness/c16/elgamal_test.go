package c16

import (
	"fmt"
	"math/big"
	"strings"
	"testing"

	"pgregory.net/rapid"

	"github.com/bronlabs/bron-crypto/pkg/base/algebra"
	"github.com/bronlabs/bron-crypto/pkg/base/curves/edwards25519"
	"github.com/bronlabs/bron-crypto/pkg/base/curves/k256"
	"github.com/bronlabs/bron-crypto/pkg/base/curves/p256"
	"github.com/bronlabs/bron-crypto/pkg/base/curves/pairable/bls12381"
	"github.com/bronlabs/bron-crypto/pkg/base/curves/pasta"
	"github.com/bronlabs/bron-crypto/pkg/encryption/elgamal"
	"verif/harness/vlib"
)

// ElGamal over a cyclic group <g> of prime order q with key h = g^x:
//
//	Enc(M; r) = (g^r, M h^r)      Dec(c1, c2) = c2 c1^(-x)
//
// Model: every plaintext is written M = g^a P^b where P is a hashed point whose discrete
// logarithm nobody knows; a ciphertext is then described by (a, b, r) in Z_q^3 (math/big):
// (c1, c2) = (g^r, g^(a + x r) P^b). Combining, inverting, scaling, shifting and
// re-randomising act linearly on (a, b, r). The library's curve arithmetic is used only to
// evaluate g^e P^f for the model's exponents ("group oracle"; the arithmetic itself is C14).

func hexBig(s string) *big.Int {
	v, ok := new(big.Int).SetString(strings.ReplaceAll(s, " ", ""), 16)
	if !ok {
		panic("bad constant")
	}
	return v
}

// group orders typed in from SEC 2, FIPS 186-4, RFC 8032, the BLS12-381 and Pasta specifications
var (
	orderK256   = hexBig("FFFFFFFF FFFFFFFF FFFFFFFF FFFFFFFE BAAEDCE6 AF48A03B BFD25E8C D0364141")
	orderP256   = hexBig("FFFFFFFF 00000000 FFFFFFFF FFFFFFFF BCE6FAAD A7179E84 F3B9CAC2 FC632551")
	orderEd     = new(big.Int).Add(new(big.Int).Lsh(big.NewInt(1), 252), hexBig("14def9dea2f79cd65812631a5cf5d3ed"))
	orderBLS    = hexBig("73eda753299d7d483339d80809a1d80553bda402fffe5bfeffffffff00000001")
	orderPallas = hexBig("40000000000000000000000000000000224698fc0994a8dd8c46eb2100000001")
	orderVesta  = hexBig("40000000000000000000000000000000224698fc094cf91b992d30ed00000001")
)

type egKey[E elgamal.FiniteCyclicGroupElement[E, S], S algebra.UintLike[S]] interface {
	EncryptWithNonce(*elgamal.Plaintext[E, S], *elgamal.Nonce[S]) (*elgamal.Ciphertext[E, S], error)
	Representative(*elgamal.Plaintext[E, S]) (*elgamal.Ciphertext[E, S], error)
	IdentityNoise(*elgamal.Nonce[S]) (*elgamal.Ciphertext[E, S], error)
	CiphertextOp(*elgamal.Ciphertext[E, S], *elgamal.Ciphertext[E, S], ...*elgamal.Ciphertext[E, S]) (*elgamal.Ciphertext[E, S], error)
	CiphertextOpInv(*elgamal.Ciphertext[E, S]) (*elgamal.Ciphertext[E, S], error)
	CiphertextScalarOp(*elgamal.Ciphertext[E, S], S) (*elgamal.Ciphertext[E, S], error)
	ReRandomise(*elgamal.Ciphertext[E, S], *elgamal.Nonce[S]) (*elgamal.Ciphertext[E, S], error)
	Shift(*elgamal.Ciphertext[E, S], *elgamal.Plaintext[E, S]) (*elgamal.Ciphertext[E, S], error)
	NonceOp(*elgamal.Nonce[S], *elgamal.Nonce[S], ...*elgamal.Nonce[S]) (*elgamal.Nonce[S], error)
	NonceOpInv(*elgamal.Nonce[S]) (*elgamal.Nonce[S], error)
	NonceScalarOp(*elgamal.Nonce[S], S) (*elgamal.Nonce[S], error)
	PlaintextOp(*elgamal.Plaintext[E, S], *elgamal.Plaintext[E, S], ...*elgamal.Plaintext[E, S]) (*elgamal.Plaintext[E, S], error)
	PlaintextOpInv(*elgamal.Plaintext[E, S]) (*elgamal.Plaintext[E, S], error)
	PlaintextScalarOp(*elgamal.Plaintext[E, S], S) (*elgamal.Plaintext[E, S], error)
}

type egEnv[E elgamal.FiniteCyclicGroupElement[E, S], S algebra.UintLike[S]] struct {
	name string
	g    elgamal.FiniteCyclicGroup[E, S]
	zn   algebra.ZModLike[S]
	q    *big.Int
	P    E
}

func newEgEnv[E elgamal.FiniteCyclicGroupElement[E, S], S algebra.UintLike[S]](t fataler, name string, g elgamal.FiniteCyclicGroup[E, S], q *big.Int) *egEnv[E, S] {
	e := &egEnv[E, S]{name: name, g: g, q: q}
	e.zn = algebra.StructureMustBeAs[algebra.ZModLike[S]](g.ScalarStructure())
	if got := g.Order().Big(); got.Cmp(q) != 0 {
		t.Fatalf("%s: the library reports group order %s, the standard says %s", name, got, q)
	}
	if !q.ProbablyPrime(32) {
		t.Fatalf("harness: order constant of %s is not prime", name)
	}
	// conversion guard: scalar(k) is k (C17 / C14 own the conversions; this only protects the oracle)
	for _, k := range []*big.Int{big.NewInt(0), big.NewInt(1), big.NewInt(0x0102030405), new(big.Int).Sub(q, one)} {
		s := e.scalar(t, k)
		if got := s.Cardinal().Big(); got.Cmp(k) != 0 {
			t.Fatalf("harness/%s: scalar conversion of %s gives %s", name, k, got)
		}
	}
	P, err := g.Hash([]byte("c16 / a point with an unknown discrete logarithm / " + name))
	if err != nil {
		t.Fatalf("%s: Hash failed: %v", name, err)
	}
	if P.IsOpIdentity() {
		t.Fatalf("%s: hashed point is the identity", name)
	}
	e.P = P
	return e
}

func (e *egEnv[E, S]) scalar(t fataler, k *big.Int) S {
	buf := make([]byte, (e.q.BitLen()+7)/8)
	new(big.Int).Mod(k, e.q).FillBytes(buf)
	s, err := e.zn.FromBytesBEReduce(buf)
	if err != nil {
		t.Fatalf("harness/%s: scalar from %x: %v", e.name, buf, err)
	}
	return s
}

// pt evaluates g^a P^b.
func (e *egEnv[E, S]) pt(t fataler, a, b *big.Int) E {
	out := e.g.Generator().ScalarOp(e.scalar(t, a))
	if new(big.Int).Mod(b, e.q).Sign() != 0 {
		out = out.Op(e.P.ScalarOp(e.scalar(t, b)))
	}
	return out
}

func (e *egEnv[E, S]) mod(x *big.Int) *big.Int { return x.Mod(x, e.q) }

type egItem[E elgamal.FiniteCyclicGroupElement[E, S], S algebra.UintLike[S]] struct {
	c       *elgamal.Ciphertext[E, S]
	pt      *elgamal.Plaintext[E, S]
	n       *elgamal.Nonce[S]
	a, b, r *big.Int
}

func drawZq(t *rapid.T, label string, q *big.Int, classes []string) (string, *big.Int) {
	cl := rapid.SampledFrom(classes).Draw(t, label+"class")
	switch cl {
	case "0":
		return cl, big.NewInt(0)
	case "1":
		return cl, big.NewInt(1)
	case "2":
		return cl, big.NewInt(2)
	case "q-1":
		return cl, new(big.Int).Sub(q, one)
	case "q-2":
		return cl, new(big.Int).Sub(q, two)
	case "small":
		return cl, new(big.Int).SetUint64(uint64(rapid.Uint32().Draw(t, label+"s")) + 3)
	default:
		v := drawMod(t, label+"v", q)
		return cl, v
	}
}

var egOps = []string{"op-fresh", "op-fresh", "op-self", "op-prev", "op-multi", "opinv", "scalar", "scalar", "shift", "shift", "rerand", "rerand"}

func egSequence[E elgamal.FiniteCyclicGroupElement[E, S], S algebra.UintLike[S]](t *testing.T, name string, g elgamal.FiniteCyclicGroup[E, S], q *big.Int, base int) {
	test := "ElGamal/" + name
	env := newEgEnv(t, name, g, q)
	vlib.Check(t, base, func(t *rapid.T) {
		xcl, x := drawZq(t, "x", q, []string{"2", "q-1", "q-2", "small", "drawn", "drawn", "drawn"})
		if x.Cmp(two) < 0 {
			x = big.NewInt(2)
		}
		// Catalogued finding C16-elgamal-generator-ignored: NewSecretKey accepts a generator other
		// than the group's standard one, but encryption always uses the standard one, so such a
		// key does not decrypt what its public key encrypts. Exactly that input class (g != the
		// standard generator) is drawn, counted and skipped; the regression test below observes it.
		if rapid.IntRange(0, 15).Draw(t, "generatorClass") == 0 {
			vlib.Excluded(knownGeneratorIgnored)
			vlib.Class(test, "generator=other(excluded)")
		} else {
			vlib.Class(test, "generator=standard")
		}
		sk, err := elgamal.NewSecretKey(g.Generator(), env.scalar(t, x))
		if err != nil {
			t.Fatalf("%s: NewSecretKey(g, %s) failed: %v", name, x, err)
		}
		h := env.pt(t, x, big.NewInt(0))
		if !sk.H().Equal(h) || !sk.Public().Value().Equal(h) {
			t.Fatalf("%s: public key of x=%s is not g^x", name, x)
		}
		var pk *elgamal.PublicKey[E, S]
		pkFlavour := rapid.SampledFrom([]string{"fromH", "sk.Public"}).Draw(t, "pk")
		if pkFlavour == "fromH" {
			pk, err = elgamal.NewPublicKey(h)
			if err != nil {
				t.Fatalf("%s: NewPublicKey(g^%s) failed: %v", name, x, err)
			}
		} else {
			pk = sk.Public()
		}
		var keys = []egKey[E, S]{sk, pk}
		var log []string
		where := func() string { return fmt.Sprintf("%s x=%s after [%s]", name, x, strings.Join(log, " ; ")) }

		both := func(what string, f func(k egKey[E, S]) (*elgamal.Ciphertext[E, S], error)) *elgamal.Ciphertext[E, S] {
			a, err := f(keys[0])
			if err != nil {
				t.Fatalf("%s: secret-key %s failed on valid inputs: %v", where(), what, err)
			}
			b, err := f(keys[1])
			if err != nil {
				t.Fatalf("%s: public-key %s failed on valid inputs: %v", where(), what, err)
			}
			if !a.Equal(b) || !b.Equal(a) {
				t.Fatalf("%s: %s: secret-key path and public-key path give different ciphertexts", where(), what)
			}
			return a
		}
		bothN := func(what string, f func(k egKey[E, S]) (*elgamal.Nonce[S], error)) *elgamal.Nonce[S] {
			a, err := f(keys[0])
			if err != nil {
				t.Fatalf("%s: secret-key %s failed on valid inputs: %v", where(), what, err)
			}
			b, err := f(keys[1])
			if err != nil {
				t.Fatalf("%s: public-key %s failed on valid inputs: %v", where(), what, err)
			}
			if !a.Equal(b) {
				t.Fatalf("%s: %s: secret-key path and public-key path give different nonces", where(), what)
			}
			return a
		}
		bothP := func(what string, f func(k egKey[E, S]) (*elgamal.Plaintext[E, S], error)) *elgamal.Plaintext[E, S] {
			a, err := f(keys[0])
			if err != nil {
				t.Fatalf("%s: secret-key %s failed on valid inputs: %v", where(), what, err)
			}
			b, err := f(keys[1])
			if err != nil {
				t.Fatalf("%s: public-key %s failed on valid inputs: %v", where(), what, err)
			}
			if !a.Equal(b) {
				t.Fatalf("%s: %s: secret-key path and public-key path give different plaintexts", where(), what)
			}
			return a
		}
		verify := func(it egItem[E, S]) {
			M := env.pt(t, it.a, it.b)
			c1 := env.pt(t, it.r, big.NewInt(0))
			e2 := new(big.Int).Mul(x, it.r)
			c2 := env.pt(t, env.mod(e2.Add(e2, it.a)), it.b)
			cs := it.c.Value().Components()
			if len(cs) != 2 {
				t.Fatalf("%s: ciphertext has %d components", where(), len(cs))
			}
			if !cs[0].Equal(c1) {
				t.Fatalf("%s: c1 is not g^r for the model nonce r=%s", where(), it.r)
			}
			if !cs[1].Equal(c2) {
				t.Fatalf("%s: c2 is not M h^r for the model (a=%s b=%s r=%s)", where(), it.a, it.b, it.r)
			}
			if !it.pt.Value().Equal(M) {
				t.Fatalf("%s: plaintext operations do not give g^a P^b (a=%s b=%s)", where(), it.a, it.b)
			}
			if !it.n.Value().Equal(env.scalar(t, it.r)) {
				t.Fatalf("%s: nonce operations give %s, model %s", where(), it.n.Value().Cardinal().Big(), it.r)
			}
			d, err := sk.Decrypt(it.c)
			if err != nil {
				t.Fatalf("%s: Decrypt failed: %v", where(), err)
			}
			if !d.Value().Equal(M) || !d.Equal(it.pt) {
				t.Fatalf("%s: Decrypt does not return the plaintext g^%s P^%s (nonce %s)", where(), it.a, it.b, it.r)
			}
		}
		ptClasses := []string{"identity", "g", "g^(q-1)", "g^a", "g^a", "P", "g^a.P", "g^a.P^b"}
		drawPT := func(label string) (string, *big.Int, *big.Int, *elgamal.Plaintext[E, S]) {
			cl := rapid.SampledFrom(ptClasses).Draw(t, label+"class")
			a, b := big.NewInt(0), big.NewInt(0)
			switch cl {
			case "g":
				a = big.NewInt(1)
			case "g^(q-1)":
				a = new(big.Int).Sub(q, one)
			case "g^a":
				a = drawMod(t, label+"a", q)
			case "P":
				b = big.NewInt(1)
			case "g^a.P":
				a, b = drawMod(t, label+"a", q), big.NewInt(1)
			case "g^a.P^b":
				a, b = drawMod(t, label+"a", q), drawMod(t, label+"b", q)
			}
			var v E
			if cl == "identity" && rapid.Bool().Draw(t, label+"viaOpIdentity") {
				v = g.OpIdentity()
			} else {
				v = env.pt(t, a, b)
			}
			p, err := elgamal.NewPlaintext(v)
			if err != nil {
				t.Fatalf("%s: NewPlaintext(%s) failed: %v", name, cl, err)
			}
			return cl, a, b, p
		}
		nonceClasses := []string{"0", "1", "q-1", "small", "drawn", "drawn", "drawn"}
		fresh := func(label string) (egItem[E, S], string, string) {
			pcl, a, b, p := drawPT(label + "m")
			ncl, r := drawZq(t, label+"r", q, nonceClasses)
			n, err := elgamal.NewNonce(env.scalar(t, r))
			if err != nil {
				t.Fatalf("%s: NewNonce(%s) failed: %v", name, r, err)
			}
			c := both("EncryptWithNonce("+pcl+","+ncl+")", func(k egKey[E, S]) (*elgamal.Ciphertext[E, S], error) { return k.EncryptWithNonce(p, n) })
			return egItem[E, S]{c: c, pt: p, n: n, a: a, b: b, r: r}, pcl, ncl
		}

		cur, pcl, ncl := fresh("init")
		log = append(log, fmt.Sprintf("Enc(a=%s,b=%s,r=%s)", cur.a, cur.b, cur.r))
		verify(cur)
		hist := []egItem[E, S]{cur}
		steps := rapid.IntRange(0, 8).Draw(t, "steps")
		if rapid.IntRange(1, 30).Draw(t, "longSequence") == 30 {
			steps = rapid.SampledFrom([]int{12, 16}).Draw(t, "stepsBig") // no limit on the length of a sequence
		}
		var shape []string
		for i := 0; i < steps; i++ {
			lbl := fmt.Sprintf("s%d", i)
			op := rapid.SampledFrom(egOps).Draw(t, lbl+"op")
			var next egItem[E, S]
			switch op {
			case "op-fresh", "op-self", "op-prev":
				var other egItem[E, S]
				switch op {
				case "op-fresh":
					other, _, _ = fresh(lbl)
				case "op-self":
					other = cur
				default:
					other = hist[rapid.IntRange(0, len(hist)-1).Draw(t, lbl+"prev")]
				}
				x1, x2 := cur, other
				if rapid.Bool().Draw(t, lbl+"swap") {
					x1, x2 = x2, x1
				}
				next.c = both("CiphertextOp", func(k egKey[E, S]) (*elgamal.Ciphertext[E, S], error) { return k.CiphertextOp(x1.c, x2.c) })
				next.pt = bothP("PlaintextOp", func(k egKey[E, S]) (*elgamal.Plaintext[E, S], error) { return k.PlaintextOp(x1.pt, x2.pt) })
				next.n = bothN("NonceOp", func(k egKey[E, S]) (*elgamal.Nonce[S], error) { return k.NonceOp(x1.n, x2.n) })
				next.a = env.mod(new(big.Int).Add(cur.a, other.a))
				next.b = env.mod(new(big.Int).Add(cur.b, other.b))
				next.r = env.mod(new(big.Int).Add(cur.r, other.r))
				log = append(log, fmt.Sprintf("%s(a=%s,b=%s,r=%s)", op, other.a, other.b, other.r))
			case "op-multi":
				cnt := rapid.IntRange(1, 3).Draw(t, lbl+"cnt")
				if rapid.IntRange(1, 10).Draw(t, lbl+"manyRest") == 10 {
					// the variadic Op folds first, second and any number of further operands (no limit,
					// no algorithm switch): occasionally 6, 7, 9 or 17 operands instead of 3..5
					cnt = rapid.SampledFrom([]int{4, 5, 7, 15}).Draw(t, lbl+"cntBig")
				}
				second := hist[rapid.IntRange(0, len(hist)-1).Draw(t, lbl+"second")]
				next.a, next.b, next.r = new(big.Int).Add(cur.a, second.a), new(big.Int).Add(cur.b, second.b), new(big.Int).Add(cur.r, second.r)
				var rc []*elgamal.Ciphertext[E, S]
				var rp []*elgamal.Plaintext[E, S]
				var rn []*elgamal.Nonce[S]
				for j := 0; j < cnt; j++ {
					o := hist[rapid.IntRange(0, len(hist)-1).Draw(t, fmt.Sprintf("%srest%d", lbl, j))]
					rc, rp, rn = append(rc, o.c), append(rp, o.pt), append(rn, o.n)
					next.a.Add(next.a, o.a)
					next.b.Add(next.b, o.b)
					next.r.Add(next.r, o.r)
				}
				env.mod(next.a)
				env.mod(next.b)
				env.mod(next.r)
				next.c = both("CiphertextOp(rest)", func(k egKey[E, S]) (*elgamal.Ciphertext[E, S], error) { return k.CiphertextOp(cur.c, second.c, rc...) })
				next.pt = bothP("PlaintextOp(rest)", func(k egKey[E, S]) (*elgamal.Plaintext[E, S], error) { return k.PlaintextOp(cur.pt, second.pt, rp...) })
				next.n = bothN("NonceOp(rest)", func(k egKey[E, S]) (*elgamal.Nonce[S], error) { return k.NonceOp(cur.n, second.n, rn...) })
				op = fmt.Sprintf("op-multi%d", cnt+2)
				log = append(log, op)
			case "opinv":
				next.c = both("CiphertextOpInv", func(k egKey[E, S]) (*elgamal.Ciphertext[E, S], error) { return k.CiphertextOpInv(cur.c) })
				next.pt = bothP("PlaintextOpInv", func(k egKey[E, S]) (*elgamal.Plaintext[E, S], error) { return k.PlaintextOpInv(cur.pt) })
				next.n = bothN("NonceOpInv", func(k egKey[E, S]) (*elgamal.Nonce[S], error) { return k.NonceOpInv(cur.n) })
				next.a = env.mod(new(big.Int).Neg(cur.a))
				next.b = env.mod(new(big.Int).Neg(cur.b))
				next.r = env.mod(new(big.Int).Neg(cur.r))
				log = append(log, "opinv")
			case "scalar":
				scl, k := drawZq(t, lbl+"k", q, []string{"0", "1", "2", "q-1", "small", "drawn", "drawn"})
				ks := env.scalar(t, k)
				next.c = both("CiphertextScalarOp("+scl+")", func(h egKey[E, S]) (*elgamal.Ciphertext[E, S], error) { return h.CiphertextScalarOp(cur.c, ks) })
				next.pt = bothP("PlaintextScalarOp("+scl+")", func(h egKey[E, S]) (*elgamal.Plaintext[E, S], error) { return h.PlaintextScalarOp(cur.pt, ks) })
				next.n = bothN("NonceScalarOp("+scl+")", func(h egKey[E, S]) (*elgamal.Nonce[S], error) { return h.NonceScalarOp(cur.n, ks) })
				next.a = env.mod(new(big.Int).Mul(cur.a, k))
				next.b = env.mod(new(big.Int).Mul(cur.b, k))
				next.r = env.mod(new(big.Int).Mul(cur.r, k))
				op = "scalar:" + scl
				log = append(log, fmt.Sprintf("scalar(%s)", k))
			case "shift":
				dcl, da, db, dp := drawPT(lbl + "d")
				next.c = both("Shift("+dcl+")", func(k egKey[E, S]) (*elgamal.Ciphertext[E, S], error) { return k.Shift(cur.c, dp) })
				next.pt = bothP("PlaintextOp", func(k egKey[E, S]) (*elgamal.Plaintext[E, S], error) { return k.PlaintextOp(cur.pt, dp) })
				next.n = cur.n
				next.a = env.mod(new(big.Int).Add(cur.a, da))
				next.b = env.mod(new(big.Int).Add(cur.b, db))
				next.r = cur.r
				op = "shift:" + dcl
				log = append(log, fmt.Sprintf("shift(a=%s,b=%s)", da, db))
			case "rerand":
				rcl, r2 := drawZq(t, lbl+"rr", q, nonceClasses)
				n2, err := elgamal.NewNonce(env.scalar(t, r2))
				if err != nil {
					t.Fatalf("%s: NewNonce(%s) failed: %v", name, r2, err)
				}
				next.c = both("ReRandomise("+rcl+")", func(k egKey[E, S]) (*elgamal.Ciphertext[E, S], error) { return k.ReRandomise(cur.c, n2) })
				next.pt = cur.pt
				next.n = bothN("NonceOp", func(k egKey[E, S]) (*elgamal.Nonce[S], error) { return k.NonceOp(cur.n, n2) })
				next.a, next.b = cur.a, cur.b
				next.r = env.mod(new(big.Int).Add(cur.r, r2))
				// g has prime order q: g^r2 is the identity only for r2 = 0
				if changed := !next.c.Equal(cur.c); changed != (r2.Sign() != 0) {
					t.Fatalf("%s: ReRandomise with nonce %s: ciphertext changed = %v", where(), r2, changed)
				}
				op = "rerand:" + rcl
				log = append(log, fmt.Sprintf("rerand(%s)", r2))
			}
			shape = append(shape, op)
			cur = next
			verify(cur)
			hist = append(hist, cur)
		}
		classes := []string{"x=" + xcl, "pt=" + pcl, "nonce=" + ncl, "pk=" + pkFlavour, fmt.Sprintf("steps=%d", steps)}
		for _, o := range shape {
			classes = append(classes, "op="+o)
		}
		vlib.Case(test, vlib.Desc(name, xcl, pcl, ncl, strings.Join(shape, ",")), steps >= 1, classes...)
		vlib.Sample("elgamal-"+name, map[string]any{"group": name, "x": x.String(), "ops": log})
	})
}

func TestElGamalK256(t *testing.T) { egSequence(t, "k256", k256.NewCurve(), orderK256, 300) }
func TestElGamalP256(t *testing.T) { egSequence(t, "p256", p256.NewCurve(), orderP256, 300) }
func TestElGamalEd25519(t *testing.T) {
	egSequence(t, "ed25519-prime-subgroup", edwards25519.NewPrimeSubGroup(), orderEd, 300)
}
func TestElGamalBLS12381G1(t *testing.T) {
	egSequence(t, "bls12381-g1", bls12381.NewG1(), orderBLS, 300)
}
func TestElGamalBLS12381G2(t *testing.T) {
	egSequence(t, "bls12381-g2", bls12381.NewG2(), orderBLS, 64)
}
func TestElGamalPallas(t *testing.T) {
	egSequence(t, "pallas", pasta.NewPallasCurve(), orderPallas, 150)
}
func TestElGamalVesta(t *testing.T) { egSequence(t, "vesta", pasta.NewVestaCurve(), orderVesta, 150) }

const knownGeneratorIgnored = "C16-elgamal-generator-ignored"

// Regression observation of the catalogued finding: k256, g = 2G, a = 3, m = G, r = 1.
func TestElGamalKnownGeneratorIgnored(t *testing.T) {
	if !vlib.Mine(0) {
		t.Skip("observed on shard 0")
	}
	c := k256.NewCurve()
	env := newEgEnv(t, "k256", c, orderK256)
	g2 := c.Generator().ScalarOp(env.scalar(t, big.NewInt(2)))
	sk, err := elgamal.NewSecretKey(g2, env.scalar(t, big.NewInt(3)))
	if err != nil {
		vlib.Known(knownGeneratorIgnored, false, "NewSecretKey now refuses a generator other than the group's standard generator: "+err.Error())
		return
	}
	pk := sk.Public()
	m, err := elgamal.NewPlaintext(c.Generator())
	if err != nil {
		t.Fatal(err)
	}
	n, err := elgamal.NewNonce(env.scalar(t, big.NewInt(1)))
	if err != nil {
		t.Fatal(err)
	}
	cpk, err := pk.EncryptWithNonce(m, n)
	if err != nil {
		t.Fatalf("pk.EncryptWithNonce failed: %v", err)
	}
	csk, err := sk.EncryptWithNonce(m, n)
	if err != nil {
		t.Fatalf("sk.EncryptWithNonce failed: %v", err)
	}
	d, err := sk.Decrypt(cpk)
	if err != nil {
		t.Fatalf("Decrypt failed: %v", err)
	}
	present := !d.Equal(m) || !csk.Equal(cpk)
	vlib.Known(knownGeneratorIgnored, present, fmt.Sprintf(
		"k256 NewSecretKey(2G, 3), m = G, r = 1: Decrypt(pk.EncryptWithNonce(m,r)) == m: %v; sk ciphertext == pk ciphertext: %v",
		d.Equal(m), csk.Equal(cpk)))
}

// Degenerate keys are refused: secret exponent 0 or 1, identity generator / public key.
func TestElGamalRejects(t *testing.T) {
	const test = "ElGamalRejects"
	if !vlib.Mine(0) {
		t.Skip("enumerated on shard 0")
	}
	c := k256.NewCurve()
	env := newEgEnv(t, "k256", c, orderK256)
	n := 0
	rej := func(what string, err error) {
		if err == nil {
			t.Fatalf("accepted without error: %s", what)
		}
		n++
		vlib.Case(test, what, true, "reject="+what)
	}
	_, err := elgamal.NewSecretKey(c.Generator(), env.scalar(t, big.NewInt(0)))
	rej("NewSecretKey(g, 0)", err)
	_, err = elgamal.NewSecretKey(c.Generator(), env.scalar(t, big.NewInt(1)))
	rej("NewSecretKey(g, 1)", err)
	_, err = elgamal.NewSecretKey(c.OpIdentity(), env.scalar(t, big.NewInt(5)))
	rej("NewSecretKey(identity, 5)", err)
	_, err = elgamal.NewPublicKey(c.OpIdentity())
	rej("NewPublicKey(identity)", err)

	// (The full edwards25519 group with cofactor 8 does not satisfy the package's type constraint -
	// only the prime subgroup type does - so torsion inputs cannot be built.)
	vlib.Exhaustive(fmt.Sprintf("ElGamal degenerate-key rejections (%d cases)", n))
}
