package c16

import (
	"fmt"
	"math/big"
	"strings"
	"testing"

	"pgregory.net/rapid"

	"github.com/bronlabs/bron-crypto/pkg/base/nt/num"
	"github.com/bronlabs/bron-crypto/pkg/encryption/paillier"
	"verif/harness/vlib"
)

// hkey is the set of operations that exist on both the secret key (CRT-accelerated, known
// order) and the public key (arithmetic mod N^2 only).
type hkey interface {
	EncryptWithNonce(*paillier.Plaintext, *paillier.Nonce) (*paillier.Ciphertext, error)
	Representative(*paillier.Plaintext) (*paillier.Ciphertext, error)
	IdentityNoise(*paillier.Nonce) (*paillier.Ciphertext, error)
	CiphertextOp(*paillier.Ciphertext, *paillier.Ciphertext, ...*paillier.Ciphertext) (*paillier.Ciphertext, error)
	CiphertextOpInv(*paillier.Ciphertext) (*paillier.Ciphertext, error)
	CiphertextScalarOp(*paillier.Ciphertext, *num.Int) (*paillier.Ciphertext, error)
	ReRandomise(*paillier.Ciphertext, *paillier.Nonce) (*paillier.Ciphertext, error)
	Shift(*paillier.Ciphertext, *paillier.Plaintext) (*paillier.Ciphertext, error)
	NonceOp(*paillier.Nonce, *paillier.Nonce, ...*paillier.Nonce) (*paillier.Nonce, error)
	NonceOpInv(*paillier.Nonce) (*paillier.Nonce, error)
	NonceScalarOp(*paillier.Nonce, *num.Int) (*paillier.Nonce, error)
	PlaintextOp(*paillier.Plaintext, *paillier.Plaintext, ...*paillier.Plaintext) (*paillier.Plaintext, error)
	PlaintextOpInv(*paillier.Plaintext) (*paillier.Plaintext, error)
	PlaintextScalarOp(*paillier.Plaintext, *num.Int) (*paillier.Plaintext, error)
}

var (
	_ hkey = (*paillier.SecretKey)(nil)
	_ hkey = (*paillier.PublicKey)(nil)
)

// item is a ciphertext together with the library's plaintext / nonce bookkeeping and the
// math/big model (m in [0,N), r a unit mod N).
type item struct {
	c  *paillier.Ciphertext
	pt *paillier.Plaintext
	n  *paillier.Nonce
	m  *big.Int
	r  *big.Int
}

// seqCtx runs operations on the secret key and on the public key and compares the results.
type seqCtx struct {
	t   *rapid.T
	key *pkey
	sk  hkey
	pk  hkey
	log []string
}

func (s *seqCtx) where() string {
	return fmt.Sprintf("key %v (p=%s q=%s) after [%s]", s.key.ID, short(s.key.Ref.P), short(s.key.Ref.Q), strings.Join(s.log, " ; "))
}

func (s *seqCtx) ct(what string, f func(k hkey) (*paillier.Ciphertext, error)) *paillier.Ciphertext {
	a, err := f(s.sk)
	if err != nil {
		s.t.Fatalf("%s: secret-key %s failed on valid inputs: %v", s.where(), what, err)
	}
	b, err := f(s.pk)
	if err != nil {
		s.t.Fatalf("%s: public-key %s failed on valid inputs: %v", s.where(), what, err)
	}
	if !a.Equal(b) || !b.Equal(a) || fromBE(a.Bytes()).Cmp(fromBE(b.Bytes())) != 0 {
		s.t.Fatalf("%s: %s: secret-key path gives %s, public-key path gives %s", s.where(), what,
			short(fromBE(a.Bytes())), short(fromBE(b.Bytes())))
	}
	return a
}

func (s *seqCtx) nonce(what string, f func(k hkey) (*paillier.Nonce, error)) *paillier.Nonce {
	a, err := f(s.sk)
	if err != nil {
		s.t.Fatalf("%s: secret-key %s failed on valid inputs: %v", s.where(), what, err)
	}
	b, err := f(s.pk)
	if err != nil {
		s.t.Fatalf("%s: public-key %s failed on valid inputs: %v", s.where(), what, err)
	}
	if !a.Equal(b) || !b.Equal(a) {
		s.t.Fatalf("%s: %s: secret-key path gives nonce %s, public-key path gives %s", s.where(), what,
			short(nonceVal(a)), short(nonceVal(b)))
	}
	return a
}

func (s *seqCtx) plain(what string, f func(k hkey) (*paillier.Plaintext, error)) *paillier.Plaintext {
	a, err := f(s.sk)
	if err != nil {
		s.t.Fatalf("%s: secret-key %s failed on valid inputs: %v", s.where(), what, err)
	}
	b, err := f(s.pk)
	if err != nil {
		s.t.Fatalf("%s: public-key %s failed on valid inputs: %v", s.where(), what, err)
	}
	if !a.Equal(b) || !b.Equal(a) {
		s.t.Fatalf("%s: %s: secret-key path gives plaintext %s, public-key path gives %s", s.where(), what,
			short(ptVal(a)), short(ptVal(b)))
	}
	return a
}

// verify checks one item against the model: textbook value, Decrypt, Open, Normalise, and the
// library's own plaintext / nonce bookkeeping.
func (s *seqCtx) verify(it item) {
	t, ref, sk := s.t, s.key.Ref, s.key.SK
	if it.m.Sign() < 0 || it.m.Cmp(ref.N) >= 0 || !ref.isUnitN(it.r) || it.r.Cmp(ref.N) >= 0 {
		t.Fatalf("harness: model left its domain (m=%s r=%s)", short(it.m), short(it.r))
	}
	want := ref.Enc(it.m, it.r)
	if got := fromBE(it.c.Bytes()); got.Cmp(want) != 0 {
		t.Fatalf("%s: ciphertext is %s, textbook (1+N)^m r^N mod N^2 for m=%s r=%s is %s",
			s.where(), short(got), short(it.m), short(it.r), short(want))
	}
	if got := ptVal(it.pt); new(big.Int).Mod(got, ref.N).Cmp(it.m) != 0 {
		t.Fatalf("%s: plaintext operations give %s, model %s", s.where(), short(got), short(it.m))
	}
	if got := nonceVal(it.n); new(big.Int).Mod(got, ref.N).Cmp(it.r) != 0 {
		t.Fatalf("%s: nonce operations give %s, model %s", s.where(), short(got), short(it.r))
	}
	d, err := sk.Decrypt(it.c)
	if err != nil {
		t.Fatalf("%s: Decrypt failed: %v", s.where(), err)
	}
	if got := ptVal(d); new(big.Int).Mod(got, ref.N).Cmp(it.m) != 0 {
		t.Fatalf("%s: Decrypt gives %s, model plaintext %s (nonce %s)", s.where(), short(got), short(it.m), short(it.r))
	}
	if !d.Equal(it.pt) || !it.pt.Equal(d) {
		t.Fatalf("%s: Decrypt result %s is not Equal to the plaintext %s", s.where(), short(ptVal(d)), short(ptVal(it.pt)))
	}
	// Normalise: "signed integer in the symmetric range (-N/2, N/2]", congruent to m.
	nz := d.Normalise().Big()
	if !ref.inSym(nz) || ref.modN(nz).Cmp(it.m) != 0 {
		t.Fatalf("%s: Normalise of plaintext %s gives %s (want %s)", s.where(), short(it.m), short(nz), short(ref.sym(it.m)))
	}
	om, on, err := sk.Open(it.c)
	if err != nil {
		t.Fatalf("%s: Open failed: %v", s.where(), err)
	}
	if got := ptVal(om); new(big.Int).Mod(got, ref.N).Cmp(it.m) != 0 || !om.Equal(it.pt) {
		t.Fatalf("%s: Open gives plaintext %s, model %s", s.where(), short(got), short(it.m))
	}
	if got := nonceVal(on); new(big.Int).Mod(got, ref.N).Cmp(it.r) != 0 {
		t.Fatalf("%s: Open gives nonce %s, model %s (plaintext %s)", s.where(), short(got), short(it.r), short(it.m))
	}
	if !on.Equal(it.n) || !it.n.Equal(on) {
		t.Fatalf("%s: Open nonce %s is not Equal to the tracked nonce %s", s.where(), short(nonceVal(on)), short(nonceVal(it.n)))
	}
}

// fresh draws (m, r), builds the library objects and encrypts on both keys.
func (s *seqCtx) fresh(label string) (item, string, string) {
	t, key := s.t, s.key
	mcl, m := drawPlain(t, label+"m", key.Ref)
	pt, via := mkPlain(t, label+"m", key, m)
	ncl, r := drawNonce(t, label+"r", key.Ref)
	n := mkNonce(t, key, r)
	c := s.ct("EncryptWithNonce("+mcl+","+ncl+")", func(k hkey) (*paillier.Ciphertext, error) { return k.EncryptWithNonce(pt, n) })
	return item{c: c, pt: pt, n: n, m: m, r: r}, mcl + "/" + via, ncl
}

var seqOps = []string{"op-fresh", "op-fresh", "op-self", "op-prev", "op-multi", "opinv", "scalar", "scalar", "scalar", "shift", "shift", "rerand", "rerand"}

func TestPaillierSequence(t *testing.T) {
	const test = "PaillierSequence"
	vlib.Check(t, 1500, func(t *rapid.T) {
		id := drawKeyID(t, "key")
		key := getKey(t, id)
		ref := key.Ref
		s := &seqCtx{t: t, key: key, sk: key.SK}
		pkFlavour := rapid.SampledFrom([]string{"fromN", "sk.Public"}).Draw(t, "pk")
		if pkFlavour == "fromN" {
			s.pk = key.PKn
		} else {
			s.pk = key.PKsk
		}

		cur, mcl, ncl := s.fresh("init")
		s.log = append(s.log, fmt.Sprintf("Enc(m=%s,r=%s)", short(cur.m), short(cur.r)))
		// the two factors on their own: (1+N)^m = 1+mN and r^N
		rep := s.ct("Representative", func(k hkey) (*paillier.Ciphertext, error) { return k.Representative(cur.pt) })
		if want := new(big.Int).Exp(ref.G, cur.m, ref.N2); fromBE(rep.Bytes()).Cmp(want) != 0 {
			t.Fatalf("%s: Representative(%s) = %s, want (1+N)^m = %s", s.where(), short(cur.m), short(fromBE(rep.Bytes())), short(want))
		}
		noise := s.ct("IdentityNoise", func(k hkey) (*paillier.Ciphertext, error) { return k.IdentityNoise(cur.n) })
		if want := new(big.Int).Exp(cur.r, ref.N, ref.N2); fromBE(noise.Bytes()).Cmp(want) != 0 {
			t.Fatalf("%s: IdentityNoise(%s) = %s, want r^N = %s", s.where(), short(cur.r), short(fromBE(noise.Bytes())), short(want))
		}
		s.verify(cur)
		hist := []item{cur}

		steps := rapid.IntRange(0, 8).Draw(t, "steps")
		if rapid.IntRange(1, 30).Draw(t, "longSequence") == 30 {
			steps = rapid.SampledFrom([]int{12, 16}).Draw(t, "stepsBig") // no limit on the length of a sequence
		}
		var shape []string
		for i := 0; i < steps; i++ {
			lbl := fmt.Sprintf("s%d", i)
			op := rapid.SampledFrom(seqOps).Draw(t, lbl+"op")
			var next item
			switch op {
			case "op-fresh", "op-self", "op-prev":
				var other item
				switch op {
				case "op-fresh":
					other, _, _ = s.fresh(lbl)
				case "op-self":
					other = cur
				default:
					other = hist[rapid.IntRange(0, len(hist)-1).Draw(t, lbl+"prev")]
				}
				a, b := cur, other
				if rapid.Bool().Draw(t, lbl+"swap") {
					a, b = b, a
				}
				next.c = s.ct("CiphertextOp", func(k hkey) (*paillier.Ciphertext, error) { return k.CiphertextOp(a.c, b.c) })
				next.pt = s.plain("PlaintextOp", func(k hkey) (*paillier.Plaintext, error) { return k.PlaintextOp(a.pt, b.pt) })
				next.n = s.nonce("NonceOp", func(k hkey) (*paillier.Nonce, error) { return k.NonceOp(a.n, b.n) })
				next.m = ref.modN(new(big.Int).Add(cur.m, other.m))
				next.r = ref.modN(new(big.Int).Mul(cur.r, other.r))
				s.log = append(s.log, fmt.Sprintf("%s(m=%s,r=%s)", op, short(other.m), short(other.r)))
			case "op-multi":
				cnt := rapid.IntRange(1, 3).Draw(t, lbl+"cnt")
				if rapid.IntRange(1, 10).Draw(t, lbl+"manyRest") == 10 {
					// the variadic Op folds first, second and any number of further operands (no limit,
					// no algorithm switch): occasionally 6, 7, 9 or 17 operands instead of 3..5
					cnt = rapid.SampledFrom([]int{4, 5, 7, 15}).Draw(t, lbl+"cntBig")
				}
				var rc []*paillier.Ciphertext
				var rp []*paillier.Plaintext
				var rn []*paillier.Nonce
				next.m, next.r = new(big.Int).Set(cur.m), new(big.Int).Set(cur.r)
				second := hist[rapid.IntRange(0, len(hist)-1).Draw(t, lbl+"second")]
				next.m.Add(next.m, second.m)
				next.r.Mul(next.r, second.r)
				for j := 0; j < cnt; j++ {
					o := hist[rapid.IntRange(0, len(hist)-1).Draw(t, fmt.Sprintf("%srest%d", lbl, j))]
					rc, rp, rn = append(rc, o.c), append(rp, o.pt), append(rn, o.n)
					next.m.Add(next.m, o.m)
					next.r.Mul(next.r, o.r)
				}
				next.m, next.r = ref.modN(next.m), ref.modN(next.r)
				next.c = s.ct("CiphertextOp(rest)", func(k hkey) (*paillier.Ciphertext, error) { return k.CiphertextOp(cur.c, second.c, rc...) })
				next.pt = s.plain("PlaintextOp(rest)", func(k hkey) (*paillier.Plaintext, error) { return k.PlaintextOp(cur.pt, second.pt, rp...) })
				next.n = s.nonce("NonceOp(rest)", func(k hkey) (*paillier.Nonce, error) { return k.NonceOp(cur.n, second.n, rn...) })
				op = fmt.Sprintf("op-multi%d", cnt+2)
				s.log = append(s.log, op)
			case "opinv":
				next.c = s.ct("CiphertextOpInv", func(k hkey) (*paillier.Ciphertext, error) { return k.CiphertextOpInv(cur.c) })
				next.pt = s.plain("PlaintextOpInv", func(k hkey) (*paillier.Plaintext, error) { return k.PlaintextOpInv(cur.pt) })
				next.n = s.nonce("NonceOpInv", func(k hkey) (*paillier.Nonce, error) { return k.NonceOpInv(cur.n) })
				next.m = ref.modN(new(big.Int).Neg(cur.m))
				next.r = new(big.Int).ModInverse(cur.r, ref.N)
				s.log = append(s.log, "opinv")
			case "scalar":
				scl, k := drawScalar(t, lbl+"k", ref)
				kk := zint(t, k)
				next.c = s.ct("CiphertextScalarOp("+scl+")", func(h hkey) (*paillier.Ciphertext, error) { return h.CiphertextScalarOp(cur.c, kk) })
				next.pt = s.plain("PlaintextScalarOp("+scl+")", func(h hkey) (*paillier.Plaintext, error) { return h.PlaintextScalarOp(cur.pt, kk) })
				next.n = s.nonce("NonceScalarOp("+scl+")", func(h hkey) (*paillier.Nonce, error) { return h.NonceScalarOp(cur.n, kk) })
				next.m = ref.modN(new(big.Int).Mul(cur.m, k))
				next.r = ref.powN(cur.r, k)
				op = "scalar:" + scl
				s.log = append(s.log, fmt.Sprintf("scalar(%s)", short(k)))
			case "shift":
				dcl, d := drawPlain(t, lbl+"d", ref)
				dp, _ := mkPlain(t, lbl+"d", key, d)
				next.c = s.ct("Shift("+dcl+")", func(k hkey) (*paillier.Ciphertext, error) { return k.Shift(cur.c, dp) })
				next.pt = s.plain("PlaintextOp", func(k hkey) (*paillier.Plaintext, error) { return k.PlaintextOp(cur.pt, dp) })
				next.n = cur.n // "under the SAME nonce"
				next.m = ref.modN(new(big.Int).Add(cur.m, d))
				next.r = cur.r
				op = "shift:" + dcl
				s.log = append(s.log, fmt.Sprintf("shift(%s)", short(d)))
			case "rerand":
				rcl, r2 := drawNonce(t, lbl+"rr", ref)
				n2 := mkNonce(t, key, r2)
				next.c = s.ct("ReRandomise("+rcl+")", func(k hkey) (*paillier.Ciphertext, error) { return k.ReRandomise(cur.c, n2) })
				next.pt = cur.pt // "the SAME plaintext"
				next.n = s.nonce("NonceOp", func(k hkey) (*paillier.Nonce, error) { return k.NonceOp(cur.n, n2) })
				next.m = cur.m
				next.r = ref.modN(new(big.Int).Mul(cur.r, r2))
				// r2^N = 1 mod N^2 only for r2 = 1 mod N (x -> x^N is injective on Z*_N): the
				// ciphertext must change unless the nonce is 1.
				if changed := !next.c.Equal(cur.c); changed != (r2.Cmp(one) != 0) {
					t.Fatalf("%s: ReRandomise with nonce %s: ciphertext changed = %v", s.where(), short(r2), changed)
				}
				op = "rerand:" + rcl
				s.log = append(s.log, fmt.Sprintf("rerand(%s)", short(r2)))
			}
			shape = append(shape, op)
			cur = next
			s.verify(cur)
			hist = append(hist, cur)
		}

		flavour := fmt.Sprintf("%s/%d", id.Kind, 2*id.Bits)
		classes := []string{"key=" + flavour, "pt=" + mcl, "nonce=" + ncl, "pk=" + pkFlavour, fmt.Sprintf("steps=%d", steps)}
		for _, o := range shape {
			classes = append(classes, "op="+o)
		}
		vlib.Case(test, vlib.Desc(flavour, mcl, ncl, strings.Join(shape, ",")), steps >= 1, classes...)
		vlib.Sample("paillier-sequence", map[string]any{"key": id.String(), "plaintext": mcl, "nonce": ncl, "ops": s.log,
			"final_m": short(cur.m), "final_r": short(cur.r), "final_c": short(fromBE(cur.c.Bytes()))})
	})
}

// Every unit of Z_{N^2} is a ciphertext (the map (m, r) -> (1+N)^m r^N is a bijection
// Z_N x Z*_N -> Z*_{N^2}). For units that were NOT produced by the library's encryption,
// Decrypt must agree with the L-function decryption, Open with the N-th-root nonce
// recovery, and re-encrypting (m, r) must give back the unit.
func TestPaillierArbitraryCiphertext(t *testing.T) {
	const test = "PaillierArbitraryCiphertext"
	vlib.Check(t, 500, func(t *rapid.T) {
		id := drawKeyID(t, "key")
		key := getKey(t, id)
		ref := key.Ref
		ccl := rapid.SampledFrom([]string{"1", "N^2-1", "1+N", "2", "N-1", "N+2", "p+q", "drawn", "drawn", "drawn", "drawn"}).Draw(t, "cclass")
		var c *big.Int
		switch ccl {
		case "1":
			c = big.NewInt(1)
		case "N^2-1":
			c = new(big.Int).Sub(ref.N2, one)
		case "1+N":
			c = new(big.Int).Set(ref.G)
		case "2":
			c = big.NewInt(2)
		case "N-1":
			c = new(big.Int).Sub(ref.N, one)
		case "N+2":
			c = new(big.Int).Add(ref.N, two)
		case "p+q":
			c = new(big.Int).Add(ref.P, ref.Q)
		default:
			c = drawMod(t, "c", ref.N2)
			for new(big.Int).GCD(nil, nil, c, ref.N).Cmp(one) != 0 {
				c.Add(c, one).Mod(c, ref.N2)
			}
		}
		var (
			ct  *paillier.Ciphertext
			err error
		)
		via := rapid.SampledFrom([]string{"known-order", "unknown-order"}).Draw(t, "group")
		if via == "known-order" {
			ct, err = paillier.NewCiphertext(key.Group, natPlus(t, c))
		} else {
			ct, err = paillier.NewCiphertext(key.PKn.Group(), natPlus(t, c))
		}
		if err != nil {
			t.Fatalf("key %v: NewCiphertext rejected the unit %s: %v", id, short(c), err)
		}
		if got := fromBE(ct.Bytes()); got.Cmp(c) != 0 {
			t.Fatalf("key %v: NewCiphertext(%s).Bytes() = %s", id, short(c), short(got))
		}
		wantM := ref.Dec(c)
		wantR := ref.Nonce(c, wantM)
		if ref.Enc(wantM, wantR).Cmp(c) != 0 {
			t.Fatalf("harness: the reference does not invert itself on c=%s", short(c))
		}
		d, err := key.SK.Decrypt(ct)
		if err != nil {
			t.Fatalf("key %v: Decrypt(%s) failed: %v", id, short(c), err)
		}
		if got := ptVal(d); ref.modN(got).Cmp(wantM) != 0 {
			t.Fatalf("key %v (p=%s q=%s): Decrypt(%s) = %s, L-function decryption gives %s", id, short(ref.P), short(ref.Q), short(c), short(got), short(wantM))
		}
		om, on, err := key.SK.Open(ct)
		if err != nil {
			t.Fatalf("key %v: Open(%s) failed: %v", id, short(c), err)
		}
		if got := ptVal(om); ref.modN(got).Cmp(wantM) != 0 || !om.Equal(d) {
			t.Fatalf("key %v: Open(%s) plaintext = %s, want %s", id, short(c), short(got), short(wantM))
		}
		if got := nonceVal(on); ref.modN(got).Cmp(wantR) != 0 {
			t.Fatalf("key %v (p=%s q=%s): Open(%s) nonce = %s, N-th root gives %s", id, short(ref.P), short(ref.Q), short(c), short(got), short(wantR))
		}
		for i, k := range []hkey{key.SK, key.PKn} {
			name := []string{"sk", "pk"}[i]
			back, err := k.EncryptWithNonce(om, on)
			if err != nil {
				t.Fatalf("key %v: %s.EncryptWithNonce(Open(c)) failed: %v", id, name, err)
			}
			if !back.Equal(ct) || fromBE(back.Bytes()).Cmp(c) != 0 {
				t.Fatalf("key %v: %s.EncryptWithNonce(Open(c)) = %s for c = %s", id, name, short(fromBE(back.Bytes())), short(c))
			}
		}
		flavour := fmt.Sprintf("%s/%d", id.Kind, 2*id.Bits)
		mclass := "other"
		switch {
		case wantM.Sign() == 0:
			mclass = "m=0"
		case wantR.Cmp(one) == 0:
			mclass = "r=1"
		}
		vlib.Case(test, vlib.Desc(flavour, ccl, via, id.I, id.J), true, "key="+flavour, "c="+ccl, "group="+via, "opened="+mclass)
		vlib.Sample("paillier-arbitrary", map[string]any{"key": id.String(), "c": short(c), "m": short(wantM), "r": short(wantR)})
	})
}

// mustErr fails when err is nil.
func mustErr(t *rapid.T, err error, format string, args ...any) {
	t.Helper()
	if err == nil {
		t.Fatalf("accepted without error: "+format, args...)
	}
}

var rejectKinds = []string{
	"nat>=N", "sym-out", "nonce-nonunit", "ct-nonunit",
	"decrypt-foreign", "open-foreign", "op-foreign", "opinv-foreign", "scalar-foreign",
	"rerand-foreign-ct", "rerand-foreign-nonce", "shift-foreign-ct", "shift-foreign-delta",
	"enc-foreign-nonce", "enc-foreign-plain", "noise-foreign", "rep-foreign",
	"nonceop-foreign", "nonceinv-foreign", "noncescalar-foreign",
	"ptop-foreign", "ptinv-foreign", "ptscalar-foreign",
}

// Inputs outside the domain are refused with an error (never a panic, never a value):
// plaintexts outside [0,N) resp. the symmetric range, non-units as nonces / ciphertexts,
// and objects that belong to another key.
func TestPaillierRejects(t *testing.T) {
	const test = "PaillierRejects"
	vlib.Check(t, 700, func(t *rapid.T) {
		id := drawKeyID(t, "key")
		key := getKey(t, id)
		ref := key.Ref
		kind := rapid.SampledFrom(rejectKinds).Draw(t, "kind")
		sub := ""
		keys := map[string]hkey{"sk": key.SK, "pk(N)": key.PKn, "pk(sk)": key.PKsk}
		keyNames := []string{"sk", "pk(N)", "pk(sk)"}

		// own, valid objects
		_, m := drawPlain(t, "m", ref)
		pt, _ := mkPlain(t, "m", key, m)
		_, r := drawNonce(t, "r", ref)
		n := mkNonce(t, key, r)

		switch kind {
		case "nat>=N":
			sub = rapid.SampledFrom([]string{"N", "N+1", "2N-1", "N^2", "drawn"}).Draw(t, "sub")
			var v *big.Int
			switch sub {
			case "N":
				v = new(big.Int).Set(ref.N)
			case "N+1":
				v = new(big.Int).Add(ref.N, one)
			case "2N-1":
				v = new(big.Int).Sub(new(big.Int).Lsh(ref.N, 1), one)
			case "N^2":
				v = new(big.Int).Set(ref.N2)
			default:
				v = new(big.Int).Add(ref.N, drawBig(t, "v", ref.N.BitLen()+8))
			}
			_, err := paillier.NewPlaintextFromNat(nat(t, v), key.N)
			mustErr(t, err, "key %v: NewPlaintextFromNat(%s) with N = %s", id, short(v), short(ref.N))
		case "sym-out":
			sub = rapid.SampledFrom([]string{"half+1", "-half-1", "N", "-N", "N-1", "-(N-1)", "drawn+", "drawn-"}).Draw(t, "sub")
			var v *big.Int
			switch sub {
			case "half+1":
				v = new(big.Int).Add(ref.Half, one)
			case "-half-1":
				v = new(big.Int).Neg(new(big.Int).Add(ref.Half, one))
			case "N":
				v = new(big.Int).Set(ref.N)
			case "-N":
				v = new(big.Int).Neg(ref.N)
			case "N-1":
				v = new(big.Int).Sub(ref.N, one)
			case "-(N-1)":
				v = new(big.Int).Neg(new(big.Int).Sub(ref.N, one))
			case "drawn+":
				v = new(big.Int).Add(new(big.Int).Add(ref.Half, one), drawBig(t, "v", ref.N.BitLen()+8))
			default:
				v = new(big.Int).Neg(new(big.Int).Add(new(big.Int).Add(ref.Half, one), drawBig(t, "v", ref.N.BitLen()+8)))
			}
			_, err := paillier.NewPlaintextSymmetric(zint(t, v), key.N)
			mustErr(t, err, "key %v: NewPlaintextSymmetric(%s) with N = %s", id, short(v), short(ref.N))
		case "nonce-nonunit", "ct-nonunit":
			sub = rapid.SampledFrom([]string{"p", "q", "kp", "kq", "N", "kN"}).Draw(t, "sub")
			mod := ref.N
			if kind == "ct-nonunit" {
				mod = ref.N2
			}
			var v *big.Int
			mult := func(f *big.Int) *big.Int { // a non-zero multiple of f below the modulus
				lim := new(big.Int).Div(mod, f)
				k := drawMod(t, "k", new(big.Int).Sub(lim, one))
				return k.Add(k, one).Mul(k, f)
			}
			switch sub {
			case "p":
				v = new(big.Int).Set(ref.P)
			case "q":
				v = new(big.Int).Set(ref.Q)
			case "kp":
				v = mult(ref.P)
			case "kq":
				v = mult(ref.Q)
			case "N":
				v = new(big.Int).Set(ref.N)
			default:
				if kind == "ct-nonunit" {
					v = mult(ref.N)
				} else {
					v = new(big.Int).Mul(ref.N, new(big.Int).SetUint64(uint64(rapid.Uint32().Draw(t, "k"))+2))
				}
			}
			if new(big.Int).GCD(nil, nil, v, ref.N).Cmp(one) == 0 {
				t.Fatalf("harness: %s is a unit", short(v))
			}
			known := rapid.Bool().Draw(t, "knownOrderGroup")
			var err error
			if kind == "nonce-nonunit" {
				if known {
					_, err = paillier.NewNonce(key.Group, natPlus(t, v))
				} else {
					_, err = paillier.NewNonce(key.PKn.Group(), natPlus(t, v))
				}
				mustErr(t, err, "key %v (p=%s): NewNonce(%s), not a unit mod N", id, short(ref.P), short(v))
			} else {
				if known {
					_, err = paillier.NewCiphertext(key.Group, natPlus(t, v))
				} else {
					_, err = paillier.NewCiphertext(key.PKn.Group(), natPlus(t, v))
				}
				mustErr(t, err, "key %v (p=%s): NewCiphertext(%s), not a unit mod N^2", id, short(ref.P), short(v))
			}
		default:
			// objects of another key
			oid, fsz := otherKeyID(t, id)
			sub = fsz
			okey := getKey(t, oid)
			_, fm := drawPlain(t, "fm", okey.Ref)
			fpt, _ := mkPlain(t, "fm", okey, fm)
			_, fr := drawNonce(t, "fr", okey.Ref)
			fn := mkNonce(t, okey, fr)
			fc, err := okey.PKn.EncryptWithNonce(fpt, fn)
			if err != nil {
				t.Fatalf("foreign key %v: EncryptWithNonce failed: %v", oid, err)
			}
			c, err := key.PKn.EncryptWithNonce(pt, n)
			if err != nil {
				t.Fatalf("key %v: EncryptWithNonce failed: %v", id, err)
			}
			_, kv := drawScalar(t, "k", ref)
			k := zint(t, kv)
			ctx := fmt.Sprintf("key %v given an object of key %v", id, oid)
			switch kind {
			case "decrypt-foreign":
				_, err := key.SK.Decrypt(fc)
				mustErr(t, err, "%s: Decrypt(foreign ciphertext)", ctx)
			case "open-foreign":
				_, _, err := key.SK.Open(fc)
				mustErr(t, err, "%s: Open(foreign ciphertext)", ctx)
			case "op-foreign":
				pos := rapid.SampledFrom([]string{"first", "second", "rest"}).Draw(t, "pos")
				sub += "/" + pos
				for _, kn := range keyNames {
					var err error
					switch pos {
					case "first":
						_, err = keys[kn].CiphertextOp(fc, c)
					case "second":
						_, err = keys[kn].CiphertextOp(c, fc)
					default:
						_, err = keys[kn].CiphertextOp(c, c, c, fc)
					}
					mustErr(t, err, "%s: %s.CiphertextOp with the foreign ciphertext %s", ctx, kn, pos)
				}
			case "opinv-foreign":
				for _, kn := range keyNames {
					_, err := keys[kn].CiphertextOpInv(fc)
					mustErr(t, err, "%s: %s.CiphertextOpInv(foreign)", ctx, kn)
				}
			case "scalar-foreign":
				for _, kn := range keyNames {
					_, err := keys[kn].CiphertextScalarOp(fc, k)
					mustErr(t, err, "%s: %s.CiphertextScalarOp(foreign, %s)", ctx, kn, short(kv))
				}
			case "rerand-foreign-ct":
				for _, kn := range keyNames {
					_, err := keys[kn].ReRandomise(fc, n)
					mustErr(t, err, "%s: %s.ReRandomise(foreign ciphertext, own nonce)", ctx, kn)
				}
			case "rerand-foreign-nonce":
				for _, kn := range keyNames {
					_, err := keys[kn].ReRandomise(c, fn)
					mustErr(t, err, "%s: %s.ReRandomise(own ciphertext, foreign nonce)", ctx, kn)
				}
			case "shift-foreign-ct":
				for _, kn := range keyNames {
					_, err := keys[kn].Shift(fc, pt)
					mustErr(t, err, "%s: %s.Shift(foreign ciphertext, own plaintext)", ctx, kn)
				}
			case "shift-foreign-delta":
				for _, kn := range keyNames {
					_, err := keys[kn].Shift(c, fpt)
					mustErr(t, err, "%s: %s.Shift(own ciphertext, foreign plaintext)", ctx, kn)
				}
			case "enc-foreign-nonce":
				for _, kn := range keyNames {
					_, err := keys[kn].EncryptWithNonce(pt, fn)
					mustErr(t, err, "%s: %s.EncryptWithNonce(own plaintext, foreign nonce)", ctx, kn)
				}
			case "enc-foreign-plain":
				// only the secret key documents/checks plaintext-group membership; the public key's
				// Representative accepts any plaintext whose modulus is <= N (recorded, not asserted)
				_, err := key.SK.EncryptWithNonce(fpt, n)
				mustErr(t, err, "%s: sk.EncryptWithNonce(foreign plaintext, own nonce)", ctx)
				_, err = key.PKn.EncryptWithNonce(fpt, n)
				if okey.Ref.N.Cmp(ref.N) > 0 {
					mustErr(t, err, "%s: pk.EncryptWithNonce(plaintext with a LARGER modulus)", ctx)
				}
				vlib.Class(test, fmt.Sprintf("pk.Encrypt(foreign plaintext, modulus %s)->err=%v", map[bool]string{true: "larger", false: "smaller"}[okey.Ref.N.Cmp(ref.N) > 0], err != nil))
			case "noise-foreign":
				for _, kn := range keyNames {
					_, err := keys[kn].IdentityNoise(fn)
					mustErr(t, err, "%s: %s.IdentityNoise(foreign nonce)", ctx, kn)
				}
			case "rep-foreign":
				_, err := key.SK.Representative(fpt)
				mustErr(t, err, "%s: sk.Representative(foreign plaintext)", ctx)
			case "nonceop-foreign":
				for _, kn := range keyNames {
					_, err := keys[kn].NonceOp(n, fn)
					mustErr(t, err, "%s: %s.NonceOp(own, foreign)", ctx, kn)
					_, err = keys[kn].NonceOp(fn, n)
					mustErr(t, err, "%s: %s.NonceOp(foreign, own)", ctx, kn)
					_, err = keys[kn].NonceOp(n, n, fn)
					mustErr(t, err, "%s: %s.NonceOp(own, own, foreign)", ctx, kn)
				}
			case "nonceinv-foreign":
				for _, kn := range keyNames {
					_, err := keys[kn].NonceOpInv(fn)
					mustErr(t, err, "%s: %s.NonceOpInv(foreign)", ctx, kn)
				}
			case "noncescalar-foreign":
				for _, kn := range keyNames {
					_, err := keys[kn].NonceScalarOp(fn, k)
					mustErr(t, err, "%s: %s.NonceScalarOp(foreign)", ctx, kn)
				}
			case "ptop-foreign":
				for _, kn := range keyNames {
					_, err := keys[kn].PlaintextOp(pt, fpt)
					mustErr(t, err, "%s: %s.PlaintextOp(own, foreign)", ctx, kn)
					_, err = keys[kn].PlaintextOp(fpt, pt)
					mustErr(t, err, "%s: %s.PlaintextOp(foreign, own)", ctx, kn)
					_, err = keys[kn].PlaintextOp(pt, pt, fpt)
					mustErr(t, err, "%s: %s.PlaintextOp(own, own, foreign)", ctx, kn)
				}
			case "ptinv-foreign":
				for _, kn := range keyNames {
					_, err := keys[kn].PlaintextOpInv(fpt)
					mustErr(t, err, "%s: %s.PlaintextOpInv(foreign)", ctx, kn)
				}
			case "ptscalar-foreign":
				for _, kn := range keyNames {
					_, err := keys[kn].PlaintextScalarOp(fpt, k)
					mustErr(t, err, "%s: %s.PlaintextScalarOp(foreign)", ctx, kn)
				}
			}
		}
		flavour := fmt.Sprintf("%s/%d", id.Kind, 2*id.Bits)
		vlib.Case(test, vlib.Desc(flavour, kind, sub), true, "key="+flavour, "kind="+kind, "kind="+kind+":"+sub)
	})
}

// The ends of the two plaintext ranges, enumerated for one modulus of every flavour and size:
// which values the constructors accept, which residue they stand for, and what Normalise
// returns.
func TestPaillierPlaintextBoundaries(t *testing.T) {
	const test = "PaillierPlaintextBoundaries"
	idx := 0
	for _, bits := range []int{512, 768, 1024, 1536} {
		for _, kind := range []string{"ord", "blum", "safe"} {
			ps := vlib.Primes(bits, kind)
			for _, pair := range [][2]int{{0, 1}, {len(ps) - 1, len(ps) - 2}} {
				ref := newRefKey(ps[pair[0]], ps[pair[1]])
				N := natPlus(t, ref.N)
				h := ref.Half
				add := func(a *big.Int, d int64) *big.Int { return new(big.Int).Add(a, big.NewInt(d)) }
				neg := func(a *big.Int) *big.Int { return new(big.Int).Neg(a) }
				type cand struct {
					name string
					v    *big.Int
				}
				symC := []cand{
					{"-half-2", add(neg(h), -2)}, {"-half-1", add(neg(h), -1)}, {"-half", neg(h)}, {"-half+1", add(neg(h), 1)},
					{"-2", big.NewInt(-2)}, {"-1", big.NewInt(-1)}, {"0", big.NewInt(0)}, {"1", big.NewInt(1)}, {"2", big.NewInt(2)},
					{"half-1", add(h, -1)}, {"half", h}, {"half+1", add(h, 1)}, {"half+2", add(h, 2)},
					{"N-1", add(ref.N, -1)}, {"N", ref.N}, {"-N", neg(ref.N)}, {"-N+1", add(neg(ref.N), 1)},
				}
				natC := []cand{
					{"0", big.NewInt(0)}, {"1", big.NewInt(1)}, {"half-1", add(h, -1)}, {"half", h}, {"half+1", add(h, 1)}, {"half+2", add(h, 2)},
					{"N-2", add(ref.N, -2)}, {"N-1", add(ref.N, -1)}, {"N", ref.N}, {"N+1", add(ref.N, 1)}, {"2N", new(big.Int).Lsh(ref.N, 1)},
				}
				check := func(ctor string, c cand, pt *paillier.Plaintext, err error, wantOK bool) {
					where := fmt.Sprintf("%s/%d N=%s (p=%s q=%s): %s(%s = %s)", kind, 2*bits, short(ref.N), short(ref.P), short(ref.Q), ctor, c.name, short(c.v))
					if wantOK != (err == nil) {
						t.Fatalf("%s: accepted = %v, want %v (err %v)", where, err == nil, wantOK, err)
					}
					if err != nil {
						return
					}
					want := ref.modN(c.v)
					if got := ptVal(pt); got.Cmp(want) != 0 {
						t.Fatalf("%s: residue %s, want %s", where, short(got), short(want))
					}
					if pt.Modulus().Big().Cmp(ref.N) != 0 {
						t.Fatalf("%s: modulus %s", where, short(pt.Modulus().Big()))
					}
					nz := pt.Normalise().Big()
					if nz.Cmp(ref.sym(want)) != 0 {
						t.Fatalf("%s: Normalise = %s, want %s", where, short(nz), short(ref.sym(want)))
					}
					back, err := paillier.NewPlaintextSymmetric(zint(t, nz), N)
					if err != nil || !back.Equal(pt) {
						t.Fatalf("%s: NewPlaintextSymmetric(Normalise()) does not give the plaintext back (err %v)", where, err)
					}
				}
				for _, c := range symC {
					if vlib.Mine(idx) {
						pt, err := paillier.NewPlaintextSymmetric(zint(t, c.v), N)
						check("NewPlaintextSymmetric", c, pt, err, ref.inSym(c.v))
						vlib.Case(test, vlib.Desc(kind, bits, pair[0], "sym", c.name), true, "ctor=sym", fmt.Sprintf("accepted=%v", err == nil))
					}
					idx++
				}
				for _, c := range natC {
					if vlib.Mine(idx) {
						pt, err := paillier.NewPlaintextFromNat(nat(t, c.v), N)
						check("NewPlaintextFromNat", c, pt, err, c.v.Cmp(ref.N) < 0)
						vlib.Case(test, vlib.Desc(kind, bits, pair[0], "nat", c.name), true, "ctor=nat", fmt.Sprintf("accepted=%v", err == nil))
					}
					idx++
				}
			}
		}
	}
	vlib.Exhaustive("Paillier plaintext constructors at the ends of [0,N) and of the symmetric range, 2 moduli for each of {ord,blum,safe} x {1024,1536,2048,3072} bits")
}
