package c16

import (
	"fmt"
	"math/big"
	"testing"
	"time"

	"github.com/bronlabs/bron-crypto/pkg/base/curves/edwards25519"
	"github.com/bronlabs/bron-crypto/pkg/base/curves/k256"
	"github.com/bronlabs/bron-crypto/pkg/base/curves/p256"
	"github.com/bronlabs/bron-crypto/pkg/base/curves/pairable/bls12381"
	"github.com/bronlabs/bron-crypto/pkg/base/curves/pasta"
	"github.com/bronlabs/bron-crypto/pkg/base/algebra"
	"github.com/bronlabs/bron-crypto/pkg/base/nt/num"
	"github.com/bronlabs/bron-crypto/pkg/base/nt/znstar"
	"github.com/bronlabs/bron-crypto/pkg/encryption/elgamal"
	"github.com/bronlabs/bron-crypto/pkg/encryption/paillier"
	"verif/harness/vlib"
)

func probeEG[E elgamal.FiniteCyclicGroupElement[E, S], S algebra.UintLike[S]](t *testing.T, name string, g elgamal.FiniteCyclicGroup[E, S]) {
	zn := algebra.StructureMustBeAs[algebra.ZModLike[S]](g.ScalarStructure())
	a, err := zn.FromBytesBEReduce([]byte{5})
	if err != nil {
		t.Fatal(err)
	}
	sk, err := elgamal.NewSecretKey(g.Generator(), a)
	if err != nil {
		t.Fatal(err)
	}
	zero, _ := zn.FromBytesBEReduce([]byte{0})
	n0, err := elgamal.NewNonce(zero)
	fmt.Println(name, "nonce0", err)
	pt, _ := elgamal.NewPlaintext(g.OpIdentity())
	t0 := time.Now()
	c, err := sk.EncryptWithNonce(pt, n0)
	fmt.Println(name, "enc id, nonce 0:", err, time.Since(t0))
	if err == nil {
		c2, err := sk.CiphertextScalarOp(c, zero)
		fmt.Println(name, "scalarop 0", err, c2 != nil)
		d, err := sk.Decrypt(c)
		fmt.Println(name, "dec", err, d.Equal(pt))
	}
	fmt.Println(name, "order", g.Order().Big().String())
}

func TestProbe(t *testing.T) {
	probeEG(t, "k256", k256.NewCurve())
	probeEG(t, "p256", p256.NewCurve())
	probeEG(t, "ed25519", edwards25519.NewPrimeSubGroup())
	probeEG(t, "blsG1", bls12381.NewG1())
	probeEG(t, "blsG2", bls12381.NewG2())
	probeEG(t, "pallas", pasta.NewPallasCurve())
	probeEG(t, "vesta", pasta.NewVestaCurve())

	for _, bits := range []int{512, 768, 1024, 1536} {
		ps := vlib.Primes(bits, "ord")
		p, _ := num.NPlus().FromBig(ps[0])
		q, _ := num.NPlus().FromBig(ps[1])
		t0 := time.Now()
		g, err := znstar.NewPaillierGroup(p, q)
		if err != nil {
			t.Fatal(err)
		}
		sk, err := paillier.NewSecretKey(g)
		if err != nil {
			t.Fatal(err)
		}
		fmt.Println(bits, "keybuild", time.Since(t0))
		pk := sk.Public()
		N := new(big.Int).Mul(ps[0], ps[1])
		mN, _ := num.N().FromBig(new(big.Int).Sub(N, big.NewInt(5)))
		pt, err := paillier.NewPlaintextFromNat(mN, g.N())
		if err != nil {
			t.Fatal(err)
		}
		rr, _ := num.NPlus().FromBig(new(big.Int).Sub(N, big.NewInt(7)))
		nonce, err := paillier.NewNonce(g, rr)
		if err != nil {
			t.Fatal(err)
		}
		t0 = time.Now()
		c1, err := sk.EncryptWithNonce(pt, nonce)
		if err != nil {
			t.Fatal(err)
		}
		d1 := time.Since(t0)
		t0 = time.Now()
		c2, err := pk.EncryptWithNonce(pt, nonce)
		if err != nil {
			t.Fatal(err)
		}
		d2 := time.Since(t0)
		t0 = time.Now()
		N2 := new(big.Int).Mul(N, N)
		ref := new(big.Int).Exp(new(big.Int).Add(N, big.NewInt(1)), mN.Big(), N2)
		ref.Mul(ref, new(big.Int).Exp(rr.Big(), N, N2)).Mod(ref, N2)
		d3 := time.Since(t0)
		fmt.Println(bits, "enc sk", d1, "pk", d2, "big", d3, c1.Equal(c2), new(big.Int).SetBytes(c1.Bytes()).Cmp(ref) == 0)
		t0 = time.Now()
		_, err = sk.Decrypt(c1)
		d1 = time.Since(t0)
		t0 = time.Now()
		_, _, err = sk.Open(c1)
		d2 = time.Since(t0)
		sc, _ := num.Z().FromBig(new(big.Int).Neg(new(big.Int).Add(N, big.NewInt(12345))))
		t0 = time.Now()
		_, err = sk.CiphertextScalarOp(c1, sc)
		d3 = time.Since(t0)
		t0 = time.Now()
		_, err = pk.CiphertextScalarOp(c1, sc)
		d4 := time.Since(t0)
		fmt.Println(bits, "dec", d1, "open", d2, "scalar sk", d3, "pk", d4, err)
	}
}
