module verif/harness

go 1.26

require (
	github.com/bronlabs/bron-crypto v0.0.0
	github.com/bronlabs/errs-go v0.2.2
	github.com/fxamacker/cbor/v2 v2.9.0
	golang.org/x/crypto v0.52.0
	pgregory.net/rapid v1.3.0
)

require (
	github.com/cronokirby/saferith v0.33.0 // indirect
	github.com/davecgh/go-spew v1.1.1 // indirect
	github.com/pmezard/go-difflib v1.0.0 // indirect
	github.com/stretchr/testify v1.11.1 // indirect
	github.com/x448/float16 v0.8.4 // indirect
	golang.org/x/exp v0.0.0-20260209203927-2842357ff358 // indirect
	golang.org/x/sync v0.20.0 // indirect
	gopkg.in/yaml.v3 v3.0.1 // indirect
)

replace github.com/bronlabs/bron-crypto => /repo
