package c13

import (
	"fmt"
	"math/big"
	"sync"

	"pgregory.net/rapid"

	"verif/harness/vlib/refcurve"
)

// An element is a model point with a class label; elements are drawn per group. Whether the
// element belongs to the group's type (full curve / prime-order subgroup) is part of the label.

type element struct {
	class  string
	pt     refcurve.Point
	k      *big.Int // non-nil: pt = [k]·(library generator), so the library can also build it by ScalarMul
	member bool     // pt is an element of the group's type (on the curve; in the prime subgroup for prime types)
}

// ---- cached special points (the searches in refcurve cost a few scalar multiplications each) ----

var (
	specialMu    sync.Mutex
	outsideCache = map[string]refcurve.Point{}
	cofCache     = map[string]refcurve.Point{}
	genCache     = map[string]refcurve.Point{}
	tinyCache    = map[string]element{}
)

// tinyPoint is the first point whose first coordinate (y on Edwards curves) is >= start: a
// coordinate so small that coordinate + p still fits into the encoding. Whether it lies in the
// prime-order subgroup is decided by the model (it does on cofactor-1 curves).
func tinyPoint(m *refcurve.Curve, start uint64) (refcurve.Point, bool) {
	key := fmt.Sprintf("%s/%d", m.Name, start)
	specialMu.Lock()
	e, ok := tinyCache[key]
	specialMu.Unlock()
	if ok {
		return e.pt, e.member
	}
	p := m.SearchPoint(start)
	in := !hasCofactor(m) || m.IsInPrimeSubgroup(p)
	specialMu.Lock()
	tinyCache[key] = element{pt: p, member: in}
	specialMu.Unlock()
	return p, in
}

func outsidePoint(m *refcurve.Curve, start uint64) refcurve.Point {
	key := fmt.Sprintf("%s/%d", m.Name, start)
	specialMu.Lock()
	p, ok := outsideCache[key]
	specialMu.Unlock()
	if ok {
		return p
	}
	p, ok = m.PointOutsideSubgroup(start)
	if !ok {
		panic("no point outside the subgroup on " + m.Name)
	}
	specialMu.Lock()
	outsideCache[key] = p
	specialMu.Unlock()
	return p
}

func cofactorPoint(m *refcurve.Curve, start uint64) refcurve.Point {
	key := fmt.Sprintf("%s/%d", m.Name, start)
	specialMu.Lock()
	p, ok := cofCache[key]
	specialMu.Unlock()
	if ok {
		return p
	}
	p = m.ScalarMul(outsidePoint(m, start), m.N)
	specialMu.Lock()
	cofCache[key] = p
	specialMu.Unlock()
	return p
}

// libGenerator returns the model coordinates of the library's designated generator. It must be
// ±(the standard generator): the sign is a convention of the library, not an encoding matter
// (curve25519: the library uses (9, −v) where RFC 7748 prints (9, v)).
func libGenerator(g *group) refcurve.Point {
	specialMu.Lock()
	p, ok := genCache[g.name]
	specialMu.Unlock()
	if ok {
		return p
	}
	p, err := coordsOf(g, g.generator())
	if err != nil {
		panic("generator of " + g.name + ": " + err.Error())
	}
	specialMu.Lock()
	genCache[g.name] = p
	specialMu.Unlock()
	return p
}

func hasCofactor(m *refcurve.Curve) bool { return m.H.Cmp(big.NewInt(1)) != 0 }

// xZero returns the point(s) with first coordinate 0 of a Weierstrass curve, if any.
func xZero(m *refcurve.Curve, odd bool) (refcurve.Point, bool) {
	switch m.Kind {
	case refcurve.WeierstrassFp:
		return m.LiftX(new(big.Int), odd)
	case refcurve.WeierstrassFp2:
		return m.LiftXLargest(refcurve.Fp2{A: new(big.Int), B: new(big.Int)}, odd)
	}
	return refcurve.Point{}, false
}

var drawScalarBytes = rapid.SliceOfN(rapid.Byte(), 40, 40)

func drawK(t *rapid.T, m *refcurve.Curve, label string) *big.Int {
	k := new(big.Int).Mod(beInt(drawScalarBytes.Draw(t, label)), m.N)
	if k.Sign() == 0 {
		k.SetInt64(5)
	}
	return k
}

// elementClasses lists the classes a group can produce; members first.
func elementClasses(g *group, membersOnly bool) []string {
	cs := []string{"identity", "G", "2G", "3G", "(n-1)G", "kG", "kG", "kG", "-kG"}
	m := g.m
	if _, ok := xZero(m, false); ok {
		if !hasCofactor(m) || !membersOnly { // on BLS12-381 the x = 0 points are outside G1/G2
			cs = append(cs, "x0-even", "x0-odd")
		}
	}
	if m.Kind == refcurve.TwistedEdwards || m.Kind == refcurve.Montgomery {
		if !g.prime || !membersOnly {
			for j := 1; j < 8; j++ {
				cs = append(cs, fmt.Sprintf("small[%d]", j))
			}
			cs = append(cs, "mixed", "mixed")
		}
	}
	if g.wire == wireZcash && !membersOnly {
		cs = append(cs, "outside", "outside", "cofactor")
	}
	if !hasCofactor(m) || !g.prime || !membersOnly {
		cs = append(cs, "tiny", "tiny") // in the subgroup on cofactor-1 curves; elsewhere almost never
	}
	return cs
}

// makeElement builds the element of a class (k is used by the drawn classes).
func makeElement(g *group, class string, k *big.Int, aux int) element {
	m := g.m
	G := libGenerator(g)
	one := big.NewInt(1)
	mul := func(k *big.Int) element {
		return element{class: class, pt: m.ScalarMul(G, k), k: k, member: true}
	}
	switch class {
	case "identity":
		return element{class: class, pt: m.Neutral(), k: new(big.Int), member: true}
	case "G":
		return element{class: class, pt: G, k: one, member: true}
	case "2G":
		return mul(big.NewInt(2))
	case "3G":
		return mul(big.NewInt(3))
	case "(n-1)G":
		return element{class: class, pt: m.Neg(G), k: new(big.Int).Sub(m.N, one), member: true}
	case "kG":
		return mul(k)
	case "-kG":
		return element{class: class, pt: m.Neg(m.ScalarMul(G, k)), k: new(big.Int).Sub(m.N, k), member: true}
	case "x0-even", "x0-odd":
		p, ok := xZero(m, class == "x0-odd")
		if !ok {
			panic("no x = 0 point on " + m.Name)
		}
		return element{class: class, pt: p, member: !hasCofactor(m)}
	case "mixed":
		j := 1 + aux%7
		return element{class: fmt.Sprintf("mixed[%d]", j), pt: m.MixedOrderPoint(k, j), member: !g.prime}
	case "tiny":
		p, in := tinyPoint(m, uint64(1+aux%40))
		e := element{class: class, pt: p, member: in || !g.prime}
		if m.IsNeutral(p) { // edwards25519: y = 1 is the identity
			e.k = new(big.Int)
		}
		return e
	case "outside":
		return element{class: class, pt: outsidePoint(m, uint64(1+aux%24)), member: false}
	case "cofactor":
		return element{class: class, pt: cofactorPoint(m, uint64(1+aux%6)), member: false}
	}
	var j int
	if _, err := fmt.Sscanf(class, "small[%d]", &j); err == nil {
		pts, _ := m.SmallOrderPoints()
		return element{class: class, pt: pts[j], member: !g.prime}
	}
	panic("unknown element class " + class)
}

func drawElement(t *rapid.T, g *group, membersOnly bool, label string) element {
	class := rapid.SampledFrom(elementClasses(g, membersOnly)).Draw(t, label+"class")
	var k *big.Int
	aux := 0
	switch class {
	case "kG", "-kG", "mixed":
		k = drawK(t, g.m, label+"k")
	}
	switch class {
	case "mixed", "outside", "cofactor", "tiny":
		aux = rapid.IntRange(0, 1000).Draw(t, label+"aux")
	}
	return makeElement(g, class, k, aux)
}

// construct builds the library object of a member element by the named constructor:
// "identity", "affine" (FromAffine of the model's coordinates), "mul" ([k]·generator),
// "double" (curve25519's point of order 2, which FromAffine cannot produce).
func construct(g *group, e element, how string) (any, error) {
	switch how {
	case "identity":
		return g.identity(), nil
	case "mul":
		return g.scalarMul(g.generator(), e.k), nil
	case "double":
		pts, _ := g.m.SmallOrderPoints()
		x, y := coordBytes(g, pts[2])
		p4, err := g.fromAffine(x, y)
		if err != nil {
			return nil, err
		}
		return g.double(p4), nil
	}
	x, y := coordBytes(g, e.pt)
	return g.fromAffine(x, y)
}

// constructors lists the ways the library can build e.
func constructors(g *group, e element) []string {
	if g.m.IsNeutral(e.pt) {
		if g.m.Kind == refcurve.TwistedEdwards {
			return []string{"identity", "affine", "mul"}
		}
		return []string{"identity", "mul"}
	}
	if g.wire == wireMont && e.pt.X.Sign() == 0 {
		return []string{"double"}
	}
	if e.k != nil {
		return []string{"affine", "mul"}
	}
	return []string{"affine"}
}
