package c13

import (
	"bytes"
	"fmt"
	"math/big"

	"verif/harness/vlib/refcurve"
)

// This file states, on top of the independent model vlib/refcurve, what a byte string MEANS in
// each wire format of the library. It never calls the library.
//
// The library's formats are the standard ones (SEC 1, pasta_curves, RFC 8032, RFC 7748, ZCash)
// with these library-specific conventions, taken from its source and documentation:
//   - k256 / p256: the identity is 02‖0…0 (33 B) resp. 04‖0…0‖0…0 (65 B); the one-byte SEC 1
//     encoding 00 is not used.
//   - edwards25519 uncompressed: 64 B = y ‖ x, both little-endian.
//   - curve25519: compressed = the u-coordinate alone (32 B LE), identity = 32 zero bytes;
//     uncompressed = u ‖ v (LE), identity = 64 zero bytes.
//   - CBOR: a one-entry map {"compressedBytes": bstr} holding the compressed form (the
//     uncompressed form for curve25519).
//
// Which curves have a point with x = 0 (so that the reserved encoding 02‖0…0 / "x = 0" of the
// identity is also the encoding of a real point)? (0, y) is on y² = x³ + a·x + b iff b is a square:
//   secp256k1 b = 7: non-residue (Euler: 7^((p−1)/2) = −1)  → no such point
//   pallas, vesta b = 5: non-residue on both fields           → no such point
//   P-256 b = 5ac6…604b: a square                             → two points (0, ±√b)   [known finding C13-p256-x0-compressed-02: (0, even √b) shares 02‖0…0 with the identity]
//   BLS12-381 E(F_p) b = 4 = 2²: (0, ±2), points of order 3 outside G1 (rejected by the subgroup check)
// TestXZeroPoints recomputes this table with the model (LegendreFp / LiftX) on every run.

func beInt(b []byte) *big.Int { return new(big.Int).SetBytes(b) }

func leInt(b []byte) *big.Int {
	r := make([]byte, len(b))
	for i := range b {
		r[len(b)-1-i] = b[i]
	}
	return new(big.Int).SetBytes(r)
}

func toBE(v *big.Int, n int) []byte { return v.FillBytes(make([]byte, n)) }

func toLE(v *big.Int, n int) []byte {
	b := toBE(v, n)
	for i, j := 0, n-1; i < j; i, j = i+1, j-1 {
		b[i], b[j] = b[j], b[i]
	}
	return b
}

func allZero(b []byte) bool {
	for _, v := range b {
		if v != 0 {
			return false
		}
	}
	return true
}

// verdict is the model's reading of a byte string in one wire format.
type verdict struct {
	pt      refcurve.Point // the element denoted (valid iff err == nil)
	err     error          // the bytes denote no element (refcurve.ErrLength / ErrFlags / ErrNotOnCurve)
	issue   refcurve.Issue // decodable but not the canonical encoding of pt
	anySign bool           // only the first coordinate is encoded: pt and −pt are both acceptable results
	lenient string         // non-empty: a named non-canonical input the property does not decide (accept-as-pt or reject)
}

func (v verdict) String() string {
	if v.err != nil {
		return "no element (" + v.err.Error() + ")"
	}
	s := v.pt.String()
	if v.issue != 0 {
		s += " [non-canonical: " + v.issue.String() + "]"
	}
	if v.lenient != "" {
		s += " [" + v.lenient + "]"
	}
	return s
}

func innerFormat(g *group, format string) string {
	switch format {
	case "bytes":
		return "compressed"
	case "cbor":
		return g.cbor
	}
	return format
}

// spec reads b in the point format `format` ("compressed" / "uncompressed"; "bytes" is the
// compressed form) of group g.
func spec(g *group, format string, b []byte) verdict {
	m := g.m
	comp := innerFormat(g, format) == "compressed"
	want := g.uLen
	if comp {
		want = g.cLen
	}
	if len(b) != want {
		return verdict{err: refcurve.ErrLength}
	}
	var iss refcurve.Issue
	red := func(v *big.Int) *big.Int {
		if v.Cmp(m.P) >= 0 {
			iss |= refcurve.IssueRange
			return new(big.Int).Mod(v, m.P)
		}
		return v
	}
	switch g.wire {
	case wireSEC1:
		L := m.ByteLen
		if comp {
			if b[0] != 2 && b[0] != 3 {
				return verdict{err: refcurve.ErrFlags}
			}
			x := red(beInt(b[1:]))
			if x.Sign() == 0 {
				if b[0] == 2 {
					return verdict{pt: refcurve.Infinity(), issue: iss} // the reserved encoding of the identity
				}
				if p, ok := m.LiftX(x, true); ok {
					return verdict{pt: p, issue: iss}
				}
				// tag 03 with x = 0 on a curve without such a point: not a SEC 1 encoding of anything,
				// but harmless if read as the identity. Counted, not asserted (DESIGN.md C13).
				return verdict{pt: refcurve.Infinity(), issue: iss | refcurve.IssueFlags, lenient: "tag03-x0"}
			}
		} else {
			if b[0] != 4 {
				return verdict{err: refcurve.ErrFlags}
			}
			x, y := red(beInt(b[1:1+L])), red(beInt(b[1+L:]))
			if x.Sign() == 0 && y.Sign() == 0 {
				return verdict{pt: refcurve.Infinity(), issue: iss}
			}
		}
		p, i2, err := m.DecodeSEC1(b)
		return verdict{pt: p, issue: i2, err: err}

	case wirePasta:
		// reduce the coordinates first ("reading the bytes modulo the field order"), then decode
		if comp {
			t := append([]byte(nil), b...)
			sign := t[31] & 0x80
			t[31] &= 0x7f
			x := red(leInt(t))
			r := toLE(x, 32)
			r[31] |= sign
			p, i2, err := m.DecodePasta(r)
			return verdict{pt: p, issue: iss | i2, err: err}
		}
		x, y := red(leInt(b[:32])), red(leInt(b[32:]))
		p, i2, err := m.DecodePasta(append(toLE(x, 32), toLE(y, 32)...))
		return verdict{pt: p, issue: iss | i2, err: err}

	case wireEd:
		if comp {
			p, i2, err := refcurve.DecodeEd25519(b)
			return verdict{pt: p, issue: i2, err: err}
		}
		y, x := red(leInt(b[:32])), red(leInt(b[32:]))
		p := m.NewPoint(x, y)
		if !m.IsOnCurve(p) {
			return verdict{err: refcurve.ErrNotOnCurve, issue: iss}
		}
		return verdict{pt: p, issue: iss}

	case wireMont:
		if allZero(b) {
			return verdict{pt: refcurve.Infinity()} // reserved encoding of the identity (both forms)
		}
		if comp {
			u, i2 := refcurve.DecodeU(b)
			p, ok := m.LiftX(u, false)
			if !ok {
				return verdict{err: refcurve.ErrNotOnCurve, issue: i2}
			}
			return verdict{pt: p, issue: i2, anySign: true}
		}
		u, v := red(leInt(b[:32])), red(leInt(b[32:]))
		p := m.NewPoint(u, v)
		if !m.IsOnCurve(p) {
			return verdict{err: refcurve.ErrNotOnCurve, issue: iss}
		}
		return verdict{pt: p, issue: iss}

	case wireZcash:
		p, i2, err := m.DecodeZcash(b)
		return verdict{pt: p, issue: i2, err: err}
	}
	panic("spec: unknown wire format")
}

// modelEncode is the canonical encoding of a model point in the library's wire format,
// computed by the model's encoders.
func modelEncode(g *group, format string, p refcurve.Point) []byte {
	m := g.m
	comp := innerFormat(g, format) == "compressed"
	neutral := m.IsNeutral(p)
	switch g.wire {
	case wireSEC1:
		if neutral {
			if comp {
				return append([]byte{2}, make([]byte, m.ByteLen)...)
			}
			return append([]byte{4}, make([]byte, 2*m.ByteLen)...)
		}
		return m.EncodeSEC1(p, comp)
	case wirePasta:
		return m.EncodePasta(p, comp)
	case wireEd:
		if comp {
			return refcurve.EncodeEd25519(p)
		}
		x, y := m.AffineBytesLE(p)
		return append(y, x...)
	case wireMont:
		if neutral {
			if comp {
				return make([]byte, 32)
			}
			return make([]byte, 64)
		}
		u, v := m.AffineBytesLE(p)
		if comp {
			return u
		}
		return append(u, v...)
	case wireZcash:
		return m.EncodeZcash(p, comp)
	}
	panic("modelEncode: unknown wire format")
}

// ---- CBOR framing, written out by hand (RFC 8949): a1 6f "compressedBytes" <bstr> -----------------

func cborBstr(b []byte) []byte {
	n := len(b)
	var h []byte
	switch {
	case n < 24:
		h = []byte{0x40 | byte(n)}
	case n < 256:
		h = []byte{0x58, byte(n)}
	default:
		h = []byte{0x59, byte(n >> 8), byte(n)}
	}
	return append(h, b...)
}

func cborTstr(s string) []byte {
	if len(s) >= 24 {
		panic("cborTstr: long key")
	}
	return append([]byte{0x60 | byte(len(s))}, s...)
}

func cborWrap(key string, payload []byte) []byte {
	out := []byte{0xa1}
	out = append(out, cborTstr(key)...)
	return append(out, cborBstr(payload)...)
}

const pointKey, fieldKey = "compressedBytes", "fieldBytes"

// cborUnwrap recognises exactly the canonical one-entry map produced by cborWrap.
func cborUnwrap(key string, b []byte) ([]byte, bool) {
	pre := append([]byte{0xa1}, cborTstr(key)...)
	if !bytes.HasPrefix(b, pre) {
		return nil, false
	}
	r := b[len(pre):]
	if len(r) == 0 || r[0]>>5 != 2 {
		return nil, false
	}
	var n, h int
	switch ai := r[0] & 0x1f; {
	case ai < 24:
		n, h = int(ai), 1
	case ai == 24 && len(r) >= 2:
		n, h = int(r[1]), 2
	case ai == 25 && len(r) >= 3:
		n, h = int(r[1])<<8|int(r[2]), 3
	default:
		return nil, false
	}
	if len(r) != h+n {
		return nil, false
	}
	return r[h:], true
}

// ---- library object → model point -----------------------------------------------------------------

// coordsOf reads the affine coordinates out of a library point (AffineX / AffineY and the base
// field's Bytes(), none of which is a point encoder) and returns the model point; the result is
// checked to be on the curve by the caller.
func coordsOf(g *group, p any) (refcurve.Point, error) {
	m := g.m
	if g.isIdentity(p) {
		return m.Neutral(), nil
	}
	x, y, ex, ey := g.affine(p)
	if g.wire == wireMont && ex == nil && ey != nil && beInt(x).Sign() == 0 {
		// curve25519: AffineY fails on the point of order 2 (0, 0); u = 0 determines it.
		return m.NewPoint(new(big.Int), new(big.Int)), nil
	}
	if ex != nil || ey != nil {
		return refcurve.Point{}, fmt.Errorf("AffineX/AffineY of a non-identity point failed: %v / %v", ex, ey)
	}
	if m.Kind == refcurve.WeierstrassFp2 {
		if len(x) != 96 || len(y) != 96 {
			return refcurve.Point{}, fmt.Errorf("F_p² coordinate of %d/%d bytes", len(x), len(y))
		}
		return m.NewPointFp2(refcurve.Fp2{A: beInt(x[:48]), B: beInt(x[48:])}, refcurve.Fp2{A: beInt(y[:48]), B: beInt(y[48:])}), nil
	}
	xi, yi := beInt(x), beInt(y)
	if xi.Cmp(m.P) >= 0 || yi.Cmp(m.P) >= 0 {
		return refcurve.Point{}, fmt.Errorf("coordinate not reduced: x=%x y=%x", x, y)
	}
	return m.NewPoint(xi, yi), nil
}

// coordBytes returns the coordinates of a non-neutral model point in the base field's canonical
// FromBytes format (big-endian; F_p²: c0 ‖ c1).
func coordBytes(g *group, p refcurve.Point) (x, y []byte) {
	m := g.m
	if m.Kind == refcurve.WeierstrassFp2 {
		xf, yf := p.XFp2(), p.YFp2()
		return append(toBE(xf.A, 48), toBE(xf.B, 48)...), append(toBE(yf.A, 48), toBE(yf.B, 48)...)
	}
	return m.AffineBytesBE(p)
}

func ptString(g *group, p refcurve.Point) string {
	if g.m.IsNeutral(p) {
		return "identity"
	}
	return p.String()
}
