package c13

import (
	"bytes"
	"fmt"
	"math/big"
	"testing"

	"pgregory.net/rapid"

	"github.com/bronlabs/bron-crypto/pkg/base/curves/pairable/bls12381"
	"verif/harness/vlib"
	"verif/harness/vlib/refcurve"
)

// BLS12-381 GT = 12 coefficients of F_p, 48 bytes big-endian each (576 bytes). The type does not
// promise membership in the order-r subgroup (Gt.Contains is `e != nil`), so — as DESIGN.md says —
// only length, the value of the coefficients (read modulo p where the code reduces) and round trip are asserted. There is no model of F_p¹² here:
// the expected value of a decode is the list of the 12 integers themselves.

const gtLen = 576

func gtElement(t *rapid.T, label string) (*bls12381.GtElement, *big.Int, string) {
	r := refcurve.BLS12381G1().N
	class := rapid.SampledFrom([]string{"one", "e(G1,G2)", "e(aG1,bG2)", "e(aG1,bG2)", "product", "e(G1,G2)^-1"}).Draw(t, label+"class")
	sc := func(k *big.Int) *bls12381.Scalar {
		s, err := bls12381.NewScalarField().FromBytes(toBE(k, 32))
		if err != nil {
			t.Fatalf("scalar: %v", err)
		}
		return s
	}
	pair := func(a, b *big.Int) *bls12381.GtElement {
		e, err := bls12381.NewG1().Generator().ScalarMul(sc(a)).Pair(bls12381.NewG2().Generator().ScalarMul(sc(b)))
		if err != nil {
			t.Fatalf("pairing: %v", err)
		}
		return e
	}
	one := big.NewInt(1)
	switch class {
	case "one":
		return bls12381.NewGt().One(), new(big.Int), class
	case "e(G1,G2)":
		return pair(one, one), one, class
	case "e(G1,G2)^-1":
		return pair(one, one).Inv(), new(big.Int).Sub(r, one), class
	case "product":
		a, b := drawK(t, refcurve.BLS12381G1(), label+"a"), drawK(t, refcurve.BLS12381G1(), label+"b")
		return pair(a, one).Mul(pair(one, b)), new(big.Int).Mod(new(big.Int).Add(a, b), r), class
	}
	a, b := drawK(t, refcurve.BLS12381G1(), label+"a"), drawK(t, refcurve.BLS12381G1(), label+"b")
	return pair(a, b), new(big.Int).Mod(new(big.Int).Mul(a, b), r), class
}

// judgeGt: clauses (3)(4) for Gt.FromBytes.
func judgeGt(t vlib.Fataler, b []byte, res *bls12381.GtElement, err error) string {
	t.Helper()
	what := fmt.Sprintf("Gt.FromBytes(%s)", vlib.Hex(b))
	if len(b) != gtLen {
		if err == nil {
			t.Fatalf("%s: accepted %d bytes", what, len(b))
		}
		return "reject:length"
	}
	p := refcurve.BLS12381G1().P
	canonical := true
	reduced := make([]byte, 0, gtLen)
	for i := 0; i < 12; i++ {
		v := beInt(b[48*i : 48*i+48])
		if v.Cmp(p) >= 0 {
			canonical = false
			v.Mod(v, p)
		}
		reduced = append(reduced, toBE(v, 48)...)
	}
	if err != nil {
		if canonical {
			t.Fatalf("%s: rejected (%v) twelve reduced coefficients", what, err)
		}
		return "reject:coefficient>=p"
	}
	if res == nil {
		t.Fatalf("%s: nil element and nil error", what)
	}
	if got := res.Bytes(); !bytes.Equal(got, reduced) {
		t.Fatalf("%s: decoded to %x…, the coefficients modulo p are %x…", what, got[:48], reduced[:48])
	}
	if !canonical {
		return "accept:reduced" // non-canonical: a coefficient >= p was reduced (accepted either way)
	}
	return "accept:canonical"
}

func runGt(t vlib.Fataler, b []byte) (res *bls12381.GtElement, err error) {
	t.Helper()
	vlib.NoPanic(t, "Gt.FromBytes("+vlib.Hex(b)+")", func() { res, err = bls12381.NewGt().FromBytes(b) })
	return res, err
}

func TestGt(t *testing.T) {
	const test = "Gt"
	vlib.Check(t, 500, func(t *rapid.T) {
		e1, x1, c1 := gtElement(t, "e1.")
		b1 := e1.Bytes()
		if len(b1) != gtLen {
			t.Fatalf("Gt Bytes() has %d bytes", len(b1))
		}
		mode := rapid.SampledFrom([]string{"roundtrip", "distinct", "coeff+p", "coeff+p", "len-1", "len+1", "empty", "allff", "random", "bitflip"}).Draw(t, "mode")
		outcome := ""
		switch mode {
		case "roundtrip":
			d, err := runGt(t, b1)
			outcome = judgeGt(t, b1, d, err)
			if err != nil || !d.Equal(e1) {
				t.Fatalf("Gt round trip of %s failed: err=%v", c1, err)
			}
		case "distinct":
			e2, x2, c2 := gtElement(t, "e2.")
			same := x1.Cmp(x2) == 0 // e(G1,G2)^x1 = e(G1,G2)^x2 iff x1 ≡ x2 (mod r)
			if e1.Equal(e2) != same {
				t.Fatalf("Gt: Equal(%s, %s) = %v but the exponents are %v, %v", c1, c2, e1.Equal(e2), x1, x2)
			}
			if !same && bytes.Equal(b1, e2.Bytes()) {
				t.Fatalf("Gt: unequal elements %s, %s have the same encoding", c1, c2)
			}
			outcome = fmt.Sprintf("same=%v", same)
		case "coeff+p":
			i := rapid.IntRange(0, 11).Draw(t, "coefficient")
			mult := int64(rapid.IntRange(1, 7).Draw(t, "multiple"))
			v := beInt(b1[48*i : 48*i+48])
			v.Add(v, new(big.Int).Mul(refcurve.BLS12381G1().P, big.NewInt(mult)))
			b := append([]byte(nil), b1...)
			if v.BitLen() <= 384 {
				copy(b[48*i:], toBE(v, 48))
			}
			d, err := runGt(t, b)
			outcome = judgeGt(t, b, d, err)
		case "len-1":
			d, err := runGt(t, b1[:gtLen-1])
			outcome = judgeGt(t, b1[:gtLen-1], d, err)
		case "len+1":
			b := append(append([]byte(nil), b1...), 0)
			d, err := runGt(t, b)
			outcome = judgeGt(t, b, d, err)
		case "empty":
			d, err := runGt(t, nil)
			outcome = judgeGt(t, nil, d, err)
		case "allff":
			b := bytes.Repeat([]byte{0xff}, gtLen)
			d, err := runGt(t, b)
			outcome = judgeGt(t, b, d, err)
		case "random":
			b := rapid.SliceOfN(rapid.Byte(), gtLen, gtLen).Draw(t, "random")
			if rapid.Bool().Draw(t, "small-coefficients") {
				for i := 0; i < 12; i++ {
					b[48*i] &= 0x0f
				}
			}
			d, err := runGt(t, b)
			outcome = judgeGt(t, b, d, err)
		case "bitflip":
			b := append([]byte(nil), b1...)
			i := rapid.IntRange(0, 8*gtLen-1).Draw(t, "bit")
			b[i/8] ^= 1 << (i % 8)
			d, err := runGt(t, b)
			outcome = judgeGt(t, b, d, err)
		}
		vlib.Case(test, vlib.Desc("bls-gt", mode, c1), true, "mode="+mode, "element="+c1, "outcome="+outcome)
	})
}
