package c13

import (
	"errors"
	"math/big"
	"reflect"
	"sync"

	"github.com/bronlabs/bron-crypto/pkg/base/curves/curve25519"
	"github.com/bronlabs/bron-crypto/pkg/base/curves/edwards25519"
	"github.com/bronlabs/bron-crypto/pkg/base/curves/k256"
	"github.com/bronlabs/bron-crypto/pkg/base/curves/p256"
	"github.com/bronlabs/bron-crypto/pkg/base/curves/pairable/bls12381"
	"github.com/bronlabs/bron-crypto/pkg/base/curves/pasta"
	"github.com/bronlabs/bron-crypto/pkg/base/serde"
	"verif/harness/vlib/refcurve"
)

// The library's curve packages are generic-heavy and every curve has its own concrete types.
// The adapters below erase them: a group / field is a record of closures over `any`, built once
// by a generic constructor. Nothing here computes an expected value; it is plumbing only.

// ---- wire formats of the library, as stated by its code and documentation -------------------

type wire int

const (
	wireSEC1  wire = iota // k256, p256: 33 B tag 02/03 ‖ X, identity 02‖0…0; 65 B 04 ‖ X ‖ Y, identity 04‖0…0
	wirePasta             // pallas, vesta: pasta_curves crate format (32 B / 64 B little-endian)
	wireEd                // edwards25519: RFC 8032 32 B; uncompressed 64 B = y ‖ x little-endian
	wireMont              // curve25519: 32 B u little-endian (RFC 7748), identity = zeros; 64 B u ‖ v, identity = zeros
	wireZcash             // BLS12-381 G1/G2: ZCash serialisation
)

// ---- constraints ----------------------------------------------------------------------------

type libFE[F any] interface {
	Bytes() []byte
	Equal(F) bool
}

type libField[F any] interface {
	FromBytes([]byte) (F, error)
	ElementSize() int
	WideElementSize() int
}

type libPoint[P, F, S any] interface {
	ToCompressed() []byte
	ToUncompressed() []byte
	Bytes() []byte
	Equal(P) bool
	IsOpIdentity() bool
	AffineX() (F, error)
	AffineY() (F, error)
	ScalarMul(S) P
	Neg() P
	Double() P
	Add(P) P
}

type libCurve[P, F any] interface {
	FromCompressed([]byte) (P, error)
	FromUncompressed([]byte) (P, error)
	FromBytes([]byte) (P, error)
	FromAffine(x, y F) (P, error)
	OpIdentity() P
	PrimeSubGroupGenerator() P
}

// ---- erased records -------------------------------------------------------------------------

type field struct {
	name    string
	mod     *big.Int // order of the prime field (for F_p² the characteristic; deg = 2)
	deg     int
	size    int // ElementSize
	wide    int // WideElementSize (-1: unsupported)
	decode  map[string]func([]byte) (any, error)
	decs    []string
	bytes   func(any) []byte
	equal   func(a, b any) bool
	marshal func(any) ([]byte, error)
}

type group struct {
	name  string
	m     *refcurve.Curve
	wire  wire
	prime bool // the type promises membership in the prime-order subgroup
	cLen  int  // compressed length
	uLen  int  // uncompressed length
	cbor  string

	decode      map[string]func([]byte) (any, error) // compressed, uncompressed, bytes, cbor
	encode      map[string]func(any) []byte          // compressed, uncompressed, bytes
	marshalCBOR func(any) ([]byte, error)
	identity    func() any
	generator   func() any
	equal       func(a, b any) bool
	isIdentity  func(any) bool
	affine      func(any) (x, y []byte, ex, ey error) // big-endian coordinate bytes in the base field's own Bytes() format
	fromAffine  func(x, y []byte) (any, error)        // x, y: canonical base-field encodings
	fromAffineX func(x []byte, odd bool) (any, error) // nil where the curve has none
	scalarMul   func(p any, k *big.Int) any
	neg, double func(any) any
	add         func(a, b any) any
	base        *field
	scalar      *field
}

var decodeFormats = []string{"compressed", "uncompressed", "bytes", "cbor"}
var encodeFormats = []string{"compressed", "uncompressed", "bytes", "cbor"}

// inner format a CBOR point carries
func (g *group) cborInner() string { return g.cbor }

func mkField[F libFE[F], FS libField[F]](name string, fs FS, mod *big.Int, deg int) *field {
	f := &field{name: name, mod: mod, deg: deg, size: fs.ElementSize(), wide: fs.WideElementSize()}
	f.decode = map[string]func([]byte) (any, error){
		"FromBytes": func(b []byte) (any, error) { return nilIfErr(fs.FromBytes(b)) },
		"cbor":      func(b []byte) (any, error) { return nilIfErr(serde.UnmarshalCBOR[F](b)) },
	}
	f.decs = []string{"FromBytes", "cbor"}
	if x, ok := any(fs).(interface{ FromBytesBE([]byte) (F, error) }); ok {
		f.decode["FromBytesBE"] = func(b []byte) (any, error) { return nilIfErr(x.FromBytesBE(b)) }
		f.decs = append(f.decs, "FromBytesBE")
	}
	if x, ok := any(fs).(interface{ FromWideBytes([]byte) (F, error) }); ok {
		f.decode["FromWideBytes"] = func(b []byte) (any, error) { return nilIfErr(x.FromWideBytes(b)) }
		f.decs = append(f.decs, "FromWideBytes")
	}
	if x, ok := any(fs).(interface{ FromBytesBEReduce([]byte) (F, error) }); ok {
		f.decode["FromBytesBEReduce"] = func(b []byte) (any, error) { return nilIfErr(x.FromBytesBEReduce(b)) }
		f.decs = append(f.decs, "FromBytesBEReduce")
	}
	f.bytes = func(e any) []byte { return e.(F).Bytes() }
	f.equal = func(a, b any) bool { return a.(F).Equal(b.(F)) }
	f.marshal = func(e any) ([]byte, error) { return serde.MarshalCBOR(e.(F)) }
	return f
}

// errNullDecoded: CBOR null / undefined decoded into a pointer target gives a nil pointer and no
// error - that is the CBOR layer's "no value", not an admitted group element; it is judged as a
// rejection (found by the native fuzzer with the one-byte input f6, which made the harness
// dereference the nil result).
var errNullDecoded = errors.New("CBOR null decoded to a nil pointer (no value)")

func nilIfErr[T any](v T, err error) (any, error) {
	if err != nil {
		return nil, err
	}
	if rv := reflect.ValueOf(v); !rv.IsValid() || (rv.Kind() == reflect.Pointer && rv.IsNil()) {
		return nil, errNullDecoded
	}
	return v, nil
}

func mkGroup[P libPoint[P, F, S], F libFE[F], S any, C libCurve[P, F]](
	name string, m *refcurve.Curve, w wire, prime bool, c C, base *field, scalar *field,
	bf func([]byte) (F, error), sf func([]byte) (S, error), cborInner string,
) *group {
	g := &group{name: name, m: m, wire: w, prime: prime, base: base, scalar: scalar, cbor: cborInner}
	g.decode = map[string]func([]byte) (any, error){
		"compressed":   func(b []byte) (any, error) { return nilIfErr(c.FromCompressed(b)) },
		"uncompressed": func(b []byte) (any, error) { return nilIfErr(c.FromUncompressed(b)) },
		"bytes":        func(b []byte) (any, error) { return nilIfErr(c.FromBytes(b)) },
		"cbor":         func(b []byte) (any, error) { return nilIfErr(serde.UnmarshalCBOR[P](b)) },
	}
	g.encode = map[string]func(any) []byte{
		"compressed":   func(p any) []byte { return p.(P).ToCompressed() },
		"uncompressed": func(p any) []byte { return p.(P).ToUncompressed() },
		"bytes":        func(p any) []byte { return p.(P).Bytes() },
	}
	g.marshalCBOR = func(p any) ([]byte, error) { return serde.MarshalCBOR(p.(P)) }
	g.identity = func() any { return c.OpIdentity() }
	g.generator = func() any { return c.PrimeSubGroupGenerator() }
	g.equal = func(a, b any) bool { return a.(P).Equal(b.(P)) }
	g.isIdentity = func(p any) bool { return p.(P).IsOpIdentity() }
	g.affine = func(p any) (x, y []byte, ex, ey error) {
		fx, ex := p.(P).AffineX()
		fy, ey := p.(P).AffineY()
		if ex == nil {
			x = fx.Bytes()
		}
		if ey == nil {
			y = fy.Bytes()
		}
		return x, y, ex, ey
	}
	g.fromAffine = func(x, y []byte) (any, error) {
		fx, err := bf(x)
		if err != nil {
			return nil, err
		}
		fy, err := bf(y)
		if err != nil {
			return nil, err
		}
		return nilIfErr(c.FromAffine(fx, fy))
	}
	if ax, ok := any(c).(interface {
		FromAffineX(F, bool) (P, error)
	}); ok {
		g.fromAffineX = func(x []byte, odd bool) (any, error) {
			fx, err := bf(x)
			if err != nil {
				return nil, err
			}
			return nilIfErr(ax.FromAffineX(fx, odd))
		}
	}
	g.scalarMul = func(p any, k *big.Int) any {
		kk := new(big.Int).Mod(k, m.N)
		s, err := sf(kk.FillBytes(make([]byte, scalar.size)))
		if err != nil {
			panic("c13 adapter: scalar FromBytes of a reduced value failed: " + err.Error())
		}
		return p.(P).ScalarMul(s)
	}
	g.neg = func(p any) any { return p.(P).Neg() }
	g.double = func(p any) any { return p.(P).Double() }
	g.add = func(a, b any) any { return a.(P).Add(b.(P)) }
	switch w {
	case wireSEC1:
		g.cLen, g.uLen = 1+m.ByteLen, 1+2*m.ByteLen
	case wirePasta, wireEd, wireMont:
		g.cLen, g.uLen = 32, 64
	case wireZcash:
		g.cLen, g.uLen = 48, 96
		if m.Kind == refcurve.WeierstrassFp2 {
			g.cLen, g.uLen = 96, 192
		}
	}
	return g
}

var (
	tablesOnce sync.Once
	allGroups  []*group
	allFields  []*field
	groupBy    = map[string]*group{}
	fieldBy    = map[string]*field{}
)

func tables() ([]*group, []*field) {
	tablesOnce.Do(func() {
		addF := func(f *field) *field { allFields = append(allFields, f); fieldBy[f.name] = f; return f }
		addG := func(g *group) { allGroups = append(allGroups, g); groupBy[g.name] = g }

		mk, mp := refcurve.K256(), refcurve.P256()
		kS := addF(mkField[*k256.Scalar]("k256.Fq", k256.NewScalarField(), mk.N, 1))
		kB := addF(mkField[*k256.BaseFieldElement]("k256.Fp", k256.NewBaseField(), mk.P, 1))
		addG(mkGroup[*k256.Point, *k256.BaseFieldElement, *k256.Scalar]("k256", mk, wireSEC1, true, k256.NewCurve(), kB, kS,
			k256.NewBaseField().FromBytes, k256.NewScalarField().FromBytes, "compressed"))

		pS := addF(mkField[*p256.Scalar]("p256.Fq", p256.NewScalarField(), mp.N, 1))
		pB := addF(mkField[*p256.BaseFieldElement]("p256.Fp", p256.NewBaseField(), mp.P, 1))
		addG(mkGroup[*p256.Point, *p256.BaseFieldElement, *p256.Scalar]("p256", mp, wireSEC1, true, p256.NewCurve(), pB, pS,
			p256.NewBaseField().FromBytes, p256.NewScalarField().FromBytes, "compressed"))

		// pasta: Fp is pallas' base field and vesta's scalar field, Fq the other way round.
		mpa, mve := refcurve.Pallas(), refcurve.Vesta()
		paFp := addF(mkField[*pasta.FpFieldElement]("pasta.Fp", pasta.NewPallasBaseField(), mpa.P, 1))
		paFq := addF(mkField[*pasta.FqFieldElement]("pasta.Fq", pasta.NewPallasScalarField(), mpa.N, 1))
		addG(mkGroup[*pasta.PallasPoint, *pasta.FpFieldElement, *pasta.FqFieldElement]("pallas", mpa, wirePasta, true, pasta.NewPallasCurve(), paFp, paFq,
			pasta.NewPallasBaseField().FromBytes, pasta.NewPallasScalarField().FromBytes, "compressed"))
		addG(mkGroup[*pasta.VestaPoint, *pasta.FqFieldElement, *pasta.FpFieldElement]("vesta", mve, wirePasta, true, pasta.NewVestaCurve(), paFq, paFp,
			pasta.NewVestaBaseField().FromBytes, pasta.NewVestaScalarField().FromBytes, "compressed"))

		med, mmo := refcurve.Ed25519(), refcurve.Curve25519()
		eS := addF(mkField[*edwards25519.Scalar]("ed25519.Fq", edwards25519.NewScalarField(), med.N, 1))
		eB := addF(mkField[*edwards25519.BaseFieldElement]("ed25519.Fp", edwards25519.NewBaseField(), med.P, 1))
		addG(mkGroup[*edwards25519.Point, *edwards25519.BaseFieldElement, *edwards25519.Scalar]("ed25519", med, wireEd, false, edwards25519.NewCurve(), eB, eS,
			edwards25519.NewBaseField().FromBytes, edwards25519.NewScalarField().FromBytes, "compressed"))
		addG(mkGroup[*edwards25519.PrimeSubGroupPoint, *edwards25519.BaseFieldElement, *edwards25519.Scalar]("ed25519-prime", med, wireEd, true, edwards25519.NewPrimeSubGroup(), eB, eS,
			edwards25519.NewBaseField().FromBytes, edwards25519.NewScalarField().FromBytes, "compressed"))
		addG(mkGroup[*curve25519.Point, *curve25519.BaseFieldElement, *curve25519.Scalar]("x25519", mmo, wireMont, false, curve25519.NewCurve(), eB, eS,
			curve25519.NewBaseField().FromBytes, curve25519.NewScalarField().FromBytes, "uncompressed"))
		addG(mkGroup[*curve25519.PrimeSubGroupPoint, *curve25519.BaseFieldElement, *curve25519.Scalar]("x25519-prime", mmo, wireMont, true, curve25519.NewPrimeSubGroup(), eB, eS,
			curve25519.NewBaseField().FromBytes, curve25519.NewScalarField().FromBytes, "uncompressed"))

		m1, m2 := refcurve.BLS12381G1(), refcurve.BLS12381G2()
		bS := addF(mkField[*bls12381.Scalar]("bls12381.Fq", bls12381.NewScalarField(), m1.N, 1))
		b1 := addF(mkField[*bls12381.BaseFieldElementG1]("bls12381.Fp", bls12381.NewG1BaseField(), m1.P, 1))
		b2 := addF(mkField[*bls12381.BaseFieldElementG2]("bls12381.Fp2", bls12381.NewG2BaseField(), m1.P, 2))
		addG(mkGroup[*bls12381.PointG1, *bls12381.BaseFieldElementG1, *bls12381.Scalar]("bls-g1", m1, wireZcash, true, bls12381.NewG1(), b1, bS,
			bls12381.NewG1BaseField().FromBytes, bls12381.NewScalarField().FromBytes, "compressed"))
		addG(mkGroup[*bls12381.PointG2, *bls12381.BaseFieldElementG2, *bls12381.Scalar]("bls-g2", m2, wireZcash, true, bls12381.NewG2(), b2, bS,
			bls12381.NewG2BaseField().FromBytes, bls12381.NewScalarField().FromBytes, "compressed"))
	})
	return allGroups, allFields
}
