package c13

import (
	"bytes"
	"fmt"
	"math/big"
	"os"
	"testing"

	"pgregory.net/rapid"

	"verif/harness/vlib"
	"verif/harness/vlib/refcurve"
)

// ---- the decoder oracle: clauses (3), (4), (5) of the property --------------------------------

// inSubgroup is the model's subgroup test (trivially true on cofactor-1 curves).
func inSubgroup(m *refcurve.Curve, p refcurve.Point) bool {
	if !hasCofactor(m) {
		return true
	}
	return m.IsInPrimeSubgroup(p)
}

// modelOf reads a library point into the model and checks that it is on the curve.
func modelOf(t vlib.Fataler, g *group, what string, p any) refcurve.Point {
	t.Helper()
	mp, err := coordsOf(g, p)
	if err != nil {
		t.Fatalf("%s %s: cannot read the coordinates of the returned point: %v", g.name, what, err)
	}
	if !g.m.IsOnCurve(mp) {
		t.Fatalf("%s %s: the library holds a point that is NOT on the curve: %s", g.name, what, ptString(g, mp))
	}
	return mp
}

// judgeDecode judges the result (res, err) of running the decoder `format` of g on b against
// the model. It returns a short outcome label for the histograms.
func judgeDecode(t vlib.Fataler, g *group, format string, b []byte, res any, err error) string {
	t.Helper()
	what := fmt.Sprintf("%s(%s)", format, vlib.Hex(b))
	payload := b
	if format == "cbor" {
		inner, ok := cborUnwrap(pointKey, b)
		if !ok {
			// not the canonical frame: whatever the CBOR layer makes of it, an accepted input must
			// still be a valid element of the type.
			if err != nil {
				return "reject:cbor-frame"
			}
			mp := modelOf(t, g, what, res)
			if g.prime && !inSubgroup(g.m, mp) {
				t.Fatalf("%s %s: accepted a point outside the prime-order subgroup: %s", g.name, what, ptString(g, mp))
			}
			return "accept:cbor-other-frame"
		}
		payload = inner
	}
	v := spec(g, format, payload)
	m := g.m

	if err != nil { // ---- rejected
		if v.err != nil {
			return "reject:" + v.err.Error()[len("refcurve: "):]
		}
		if v.issue != 0 || v.lenient != "" {
			return "reject:non-canonical"
		}
		if g.prime && !inSubgroup(m, v.pt) {
			return "reject:outside-subgroup"
		}
		t.Fatalf("%s %s: rejected (%v) the canonical encoding of the valid element %s", g.name, what, err, ptString(g, v.pt))
	}

	// ---- accepted
	if v.err != nil {
		if g.wire == wireZcash && innerFormat(g, format) == "uncompressed" && v.err == refcurve.ErrFlags && excluded(fBLSUncFlags) {
			return "accept:EXCLUDED-" + fBLSUncFlags
		}
		t.Fatalf("%s %s: ACCEPTED a byte string that denotes no element: %v", g.name, what, v.err)
	}
	mp := modelOf(t, g, what, res)
	same := m.Equal(mp, v.pt) || (v.anySign && m.Equal(mp, m.Neg(v.pt)))
	if !same {
		t.Fatalf("%s %s: decoded to %s, the model reads %s", g.name, what, ptString(g, mp), v)
	}
	if g.prime && !inSubgroup(m, mp) {
		t.Fatalf("%s %s: accepted a point outside the prime-order subgroup: %s", g.name, what, ptString(g, mp))
	}
	if g.wire == wireZcash && v.issue&refcurve.IssueFlags != 0 {
		// a flag combination the ZCash format forbids must be an error; a coordinate >= p that is
		// reduced is accepted like on the other curves (uniqueness of encodings is not claimed)
		if innerFormat(g, format) == "uncompressed" && excluded(fBLSUncFlags) {
			return "accept:EXCLUDED-" + fBLSUncFlags
		}
		t.Fatalf("%s %s: accepted a flag combination the ZCash format forbids (%s); decoded to %s", g.name, what, v.issue, ptString(g, mp))
	}
	switch {
	case v.lenient != "":
		return "accept:harmless-" + v.lenient
	case v.issue&refcurve.IssueFlags != 0:
		return "accept:harmless-flags"
	case v.issue != 0:
		return "accept:reduced"
	}
	return "accept:canonical"
}

// runDecoder runs one decoder under the no-panic clause.
func runDecoder(t vlib.Fataler, g *group, format string, b []byte) (res any, err error) {
	t.Helper()
	vlib.NoPanic(t, fmt.Sprintf("%s decoder %s on %s", g.name, format, vlib.Hex(b)), func() {
		res, err = g.decode[format](b)
	})
	if err == nil && res == nil {
		t.Fatalf("%s %s(%s): nil point and nil error", g.name, format, vlib.Hex(b))
	}
	return res, err
}

// ---- clause (1): encode → decode ------------------------------------------------------------------

var groupNames = []string{"k256", "p256", "pallas", "vesta", "ed25519", "ed25519-prime", "x25519", "x25519-prime", "bls-g1", "bls-g2"}

func drawGroup(t *rapid.T) *group {
	tables()
	if only := os.Getenv("VERIF_C13_ONLY"); only != "" { // development aid: one group only
		return groupBy[rapid.SampledFrom([]string{only}).Draw(t, "group")]
	}
	return groupBy[rapid.SampledFrom(groupNames).Draw(t, "group")]
}

// build constructs the library object of a member element and checks that it holds exactly
// the model's coordinates.
func build(t vlib.Fataler, g *group, e element, how string) any {
	t.Helper()
	var p any
	var err error
	vlib.NoPanic(t, fmt.Sprintf("%s construct %s by %s", g.name, e.class, how), func() { p, err = construct(g, e, how) })
	if err != nil {
		t.Fatalf("%s: cannot construct the valid element %s = %s by %s: %v", g.name, e.class, ptString(g, e.pt), how, err)
	}
	mp := modelOf(t, g, "construct "+e.class+" by "+how, p)
	if !g.m.Equal(mp, e.pt) {
		t.Fatalf("%s: element %s built by %s holds %s, the model has %s", g.name, e.class, how, ptString(g, mp), ptString(g, e.pt))
	}
	return p
}

// encodeBy runs an encoder (no panic allowed: an element that cannot be encoded has no round trip).
func encodeBy(t vlib.Fataler, g *group, format string, p any, desc string) []byte {
	t.Helper()
	var enc []byte
	var err error
	vlib.NoPanic(t, fmt.Sprintf("%s encoder %s on %s", g.name, format, desc), func() {
		if format == "cbor" {
			enc, err = g.marshalCBOR(p)
		} else {
			enc = g.encode[format](p)
		}
	})
	if err != nil {
		t.Fatalf("%s: MarshalCBOR of %s failed: %v", g.name, desc, err)
	}
	return enc
}

// knownEncodeDeviation routes the encoder-side findings; true = this (element, format) is excluded.
func knownEncodeDeviation(g *group, e element, format string) (string, bool) {
	m := g.m
	inner := innerFormat(g, format)
	if g.name == "p256" && inner == "compressed" && !m.IsNeutral(e.pt) && e.pt.X.Sign() == 0 && e.pt.Y.Bit(0) == 0 {
		// (0, even √b) encodes to 02‖0…0, the identity's reserved encoding
		return fP256x02, excluded(fP256x02)
	}
	if g.wire == wireMont && !m.IsNeutral(e.pt) && e.pt.X.Sign() == 0 {
		if inner == "compressed" {
			return fX25519Ord2, excluded(fX25519Ord2)
		}
		return fX25519Ord2Un, excluded(fX25519Ord2Un)
	}
	return "", false
}

func TestPointRoundTrip(t *testing.T) {
	const test = "PointRoundTrip"
	vlib.Check(t, 6000, func(t *rapid.T) {
		g := drawGroup(t)
		e := drawElement(t, g, true, "e.")
		how := rapid.SampledFrom(constructors(g, e)).Draw(t, "constructor")
		format := rapid.SampledFrom(encodeFormats).Draw(t, "format")
		p := build(t, g, e, how)
		nt := !(e.class == "kG")
		desc := vlib.Desc(g.name, format, e.class, how)
		classes := []string{"group=" + g.name, "format=" + format, "element=" + e.class, "constructor=" + how}

		if id, ex := knownEncodeDeviation(g, e, format); ex {
			vlib.Case(test, desc, nt, append(classes, "outcome=EXCLUDED-"+id)...)
			return
		}
		enc := encodeBy(t, g, format, p, e.class)
		// the model produces the same bytes …
		want := modelEncode(g, format, e.pt)
		if format == "cbor" {
			want = cborWrap(pointKey, want)
		}
		signLost := g.wire == wireMont && innerFormat(g, format) == "compressed" && !g.m.IsNeutral(e.pt)
		if !bytes.Equal(enc, want) {
			t.Fatalf("%s %s encoding of %s = %s is %x, the model's encoder gives %x", g.name, format, e.class, ptString(g, e.pt), enc, want)
		}
		// … and reads them back to the same coordinates
		payload := enc
		if format == "cbor" {
			payload, _ = cborUnwrap(pointKey, enc)
		}
		v := spec(g, format, payload)
		if v.err != nil || v.issue != 0 || !(g.m.Equal(v.pt, e.pt) || (v.anySign && g.m.Equal(v.pt, g.m.Neg(e.pt)))) {
			t.Fatalf("%s %s encoding %x of %s = %s: the model reads these bytes as %s", g.name, format, enc, e.class, ptString(g, e.pt), v)
		}
		// the library decodes them to an Equal element with the same coordinates
		q, err := runDecoder(t, g, format, enc)
		if err != nil {
			t.Fatalf("%s %s: decoding the encoding %x of %s failed: %v", g.name, format, enc, e.class, err)
		}
		mq := modelOf(t, g, format+" round trip of "+e.class, q)
		outcome := "ok"
		if !g.equal(q, p) || !g.m.Equal(mq, e.pt) {
			if signLost && g.m.Equal(mq, g.m.Neg(e.pt)) && excluded(fX25519Sign) {
				outcome = "EXCLUDED-" + fX25519Sign
			} else {
				t.Fatalf("%s %s round trip of %s = %s (encoding %x) returned %s (Equal=%v)", g.name, format, e.class, ptString(g, e.pt), enc, ptString(g, mq), g.equal(q, p))
			}
		}
		vlib.Case(test, desc, nt, append(classes, "outcome="+outcome)...)
		vlib.Sample("roundtrip", map[string]any{"group": g.name, "format": format, "element": e.class, "constructor": how, "encoding": fmt.Sprintf("%x", enc)})
	})
}

// ---- clause (2): unequal elements have unequal encodings ----------------------------------------------

func TestEncodingInjective(t *testing.T) {
	const test = "EncodingInjective"
	vlib.Check(t, 3000, func(t *rapid.T) {
		g := drawGroup(t)
		e1 := drawElement(t, g, true, "e1.")
		var e2 element
		rel := rapid.SampledFrom([]string{"negation", "negation", "independent", "independent", "plusG", "vs-identity"}).Draw(t, "relation")
		switch rel {
		case "negation":
			e2 = element{class: "-(" + e1.class + ")", pt: g.m.Neg(e1.pt), member: true}
			if e1.k != nil {
				e2.k = new(big.Int).Mod(new(big.Int).Neg(e1.k), g.m.N)
			}
		case "plusG":
			e2 = element{class: "(" + e1.class + ")+G", pt: g.m.Add(e1.pt, libGenerator(g)), member: true}
			if e1.k != nil {
				e2.k = new(big.Int).Mod(new(big.Int).Add(e1.k, big.NewInt(1)), g.m.N)
			}
		case "vs-identity":
			e2 = makeElement(g, "identity", nil, 0)
		default:
			e2 = drawElement(t, g, true, "e2.")
		}
		format := rapid.SampledFrom(encodeFormats).Draw(t, "format")
		p1 := build(t, g, e1, constructors(g, e1)[0])
		p2 := build(t, g, e2, constructors(g, e2)[0])
		desc := vlib.Desc(g.name, format, e1.class, rel, e2.class)
		classes := []string{"group=" + g.name, "format=" + format, "relation=" + rel}
		equalModel := g.m.Equal(e1.pt, e2.pt)
		if g.equal(p1, p2) != equalModel {
			t.Fatalf("%s: Equal(%s, %s) = %v but the model says %v", g.name, e1.class, e2.class, g.equal(p1, p2), equalModel)
		}
		for _, e := range []element{e1, e2} {
			if id, ex := knownEncodeDeviation(g, e, format); ex {
				vlib.Case(test, desc, true, append(classes, "outcome=EXCLUDED-"+id)...)
				return
			}
		}
		b1 := encodeBy(t, g, format, p1, e1.class)
		b2 := encodeBy(t, g, format, p2, e2.class)
		outcome := "distinct"
		switch {
		case equalModel:
			outcome = "same-element"
			if !bytes.Equal(b1, b2) {
				// not claimed by the property (uniqueness of encodings); counted only
				outcome = "same-element-different-bytes"
			}
		case bytes.Equal(b1, b2):
			signOnly := g.wire == wireMont && innerFormat(g, format) == "compressed" && g.m.Equal(e1.pt, g.m.Neg(e2.pt))
			if signOnly && excluded(fX25519Sign) {
				outcome = "EXCLUDED-" + fX25519Sign
			} else {
				t.Fatalf("%s %s: the unequal elements %s = %s and %s = %s have the same encoding %x", g.name, format,
					e1.class, ptString(g, e1.pt), e2.class, ptString(g, e2.pt), b1)
			}
		}
		vlib.Case(test, desc, true, append(classes, "outcome="+outcome)...)
	})
}

// ---- clauses (3) (4) (5): byte strings ------------------------------------------------------------------

// coordinate layout of a payload: offsets/lengths of the coordinate fields, their endianness and
// the mask of non-coordinate bits in the most significant byte.
type coordField struct {
	off, n int
	le     bool
	mask   byte // bits of the most significant byte that belong to the coordinate
}

func coordFields(g *group, inner string) []coordField {
	comp := inner == "compressed"
	switch g.wire {
	case wireSEC1:
		L := g.m.ByteLen
		if comp {
			return []coordField{{1, L, false, 0xff}}
		}
		return []coordField{{1, L, false, 0xff}, {1 + L, L, false, 0xff}}
	case wirePasta, wireEd, wireMont:
		if comp {
			return []coordField{{0, 32, true, 0x7f}}
		}
		return []coordField{{0, 32, true, 0xff}, {32, 32, true, 0xff}}
	case wireZcash:
		n := len(modelEncode(g, inner, g.m.G)) / 48
		fs := make([]coordField, n)
		for i := range fs {
			fs[i] = coordField{48 * i, 48, false, 0xff}
		}
		fs[0].mask = 0x1f
		return fs
	}
	return nil
}

// addP returns payload with p added to coordinate field f, if the sum fits into the field.
func addP(g *group, payload []byte, f coordField) ([]byte, bool) {
	out := append([]byte(nil), payload...)
	raw := append([]byte(nil), out[f.off:f.off+f.n]...)
	msb := 0
	if f.le {
		msb = f.n - 1
	}
	keep := raw[msb] &^ f.mask
	raw[msb] &= f.mask
	var v *big.Int
	if f.le {
		v = leInt(raw)
	} else {
		v = beInt(raw)
	}
	v.Add(v, g.m.P)
	limit := new(big.Int).Lsh(big.NewInt(1), uint(8*(f.n-1)+bitsOf(f.mask)))
	if v.Cmp(limit) >= 0 {
		return nil, false
	}
	var nb []byte
	if f.le {
		nb = toLE(v, f.n)
	} else {
		nb = toBE(v, f.n)
	}
	nb[msb] |= keep
	copy(out[f.off:], nb)
	return out, true
}

func bitsOf(mask byte) int {
	n := 0
	for ; mask != 0; mask >>= 1 {
		n++
	}
	return n
}

var byteClasses = []string{
	"valid", "valid", "flag", "flag", "flag", "coord+p", "coord+p", "len-1", "len+1", "empty", "allff", "zero",
	"random", "random", "random-len", "twist", "offcurve", "p-exact", "p+small", "bitflip",
}

// hostilePayload derives a payload of the inner format from a valid model encoding.
func hostilePayload(t *rapid.T, g *group, inner string, e element, class string) (payload []byte, label string) {
	m := g.m
	valid := modelEncode(g, inner, e.pt)
	fields := coordFields(g, inner)
	switch class {
	case "valid":
		return valid, class
	case "flag":
		out := append([]byte(nil), valid...)
		switch g.wire {
		case wireSEC1:
			tag := rapid.SampledFrom([]byte{0, 1, 2, 3, 4, 5, 6, 7, 0x82, 0x83, 0x84, 0xff}).Draw(t, "tag")
			out[0] = tag
			return out, fmt.Sprintf("tag=%02x", tag)
		case wireZcash:
			fl := byte(rapid.IntRange(0, 7).Draw(t, "flags")) << 5
			out[0] = out[0]&0x1f | fl
			return out, fmt.Sprintf("flags=%02x", fl)
		default:
			// bit 255 of one of the 32-byte little-endian fields
			i := rapid.IntRange(0, len(out)/32-1).Draw(t, "field")
			out[32*i+31] ^= 0x80
			return out, fmt.Sprintf("bit255[%d]", i)
		}
	case "coord+p":
		i := rapid.IntRange(0, len(fields)-1).Draw(t, "field")
		if out, ok := addP(g, valid, fields[i]); ok {
			return out, fmt.Sprintf("coord+p[%d]", i)
		}
		return valid, "valid(coord+p does not fit)"
	case "p-exact":
		// a coordinate equal to p exactly (reads as 0)
		i := rapid.IntRange(0, len(fields)-1).Draw(t, "field")
		out := append([]byte(nil), valid...)
		f := fields[i]
		z := make([]byte, f.n)
		msb := 0
		if f.le {
			msb = f.n - 1
		}
		z[msb] = out[f.off+msb] &^ f.mask
		copy(out[f.off:], z)
		if o2, ok := addP(g, out, f); ok {
			return o2, fmt.Sprintf("coord=p[%d]", i)
		}
		return out, fmt.Sprintf("coord=0[%d]", i)
	case "p+small":
		// a coordinate p + j with j in 0..18: the non-canonical encodings of the smallest field elements
		// (on the 25519 curves these are all the values in [p, 2^255))
		i := rapid.IntRange(0, len(fields)-1).Draw(t, "field")
		j := int64(rapid.IntRange(0, 18).Draw(t, "j"))
		out := append([]byte(nil), valid...)
		f := fields[i]
		v := new(big.Int).Add(m.P, big.NewInt(j))
		var nb []byte
		msb := 0
		if f.le {
			nb = toLE(v, f.n)
			msb = f.n - 1
		} else {
			nb = toBE(v, f.n)
		}
		nb[msb] |= out[f.off+msb] &^ f.mask
		copy(out[f.off:], nb)
		return out, fmt.Sprintf("coord=p+small[%d]", i)
	case "len-1":
		return valid[:len(valid)-1], class
	case "len+1":
		return append(append([]byte(nil), valid...), byte(rapid.IntRange(0, 255).Draw(t, "extra"))), class
	case "empty":
		return []byte{}, class
	case "allff":
		return bytes.Repeat([]byte{0xff}, len(valid)), class
	case "zero":
		return make([]byte, len(valid)), class
	case "random":
		out := rapid.SliceOfN(rapid.Byte(), len(valid), len(valid)).Draw(t, "random")
		if g.wire == wireSEC1 && rapid.Bool().Draw(t, "fix-tag") {
			out[0] = valid[0]
		}
		if g.wire == wireZcash && rapid.Bool().Draw(t, "fix-flags") {
			out[0] = out[0]&0x1f | valid[0]&0xe0
			out[0] &= 0xf9 // keep most coordinates below p = 1a01…
		}
		return out, class
	case "random-len":
		return rapid.SliceOfN(rapid.Byte(), 0, 200).Draw(t, "random"), class
	case "bitflip":
		out := append([]byte(nil), valid...)
		i := rapid.IntRange(0, 8*len(out)-1).Draw(t, "bit")
		out[i/8] ^= 1 << (i % 8)
		return out, class
	case "twist":
		// first coordinate with no second coordinate
		start := uint64(rapid.IntRange(1, 400).Draw(t, "twist-start"))
		out := append([]byte(nil), valid...)
		f := fields[0]
		switch {
		case m.Kind == refcurve.WeierstrassFp2:
			x := m.TwistXFp2(start)
			copy(out[0:], toBE(x.B, 48))
			copy(out[48:], toBE(x.A, 48))
			out[0] |= valid[0] & 0xe0
			if m.IsNeutral(e.pt) {
				out[0] = out[0]&0x1f | 0x80&valid[0]
			}
		default:
			x := m.TwistX(start)
			var nb []byte
			if f.le {
				nb = toLE(x, f.n)
				nb[f.n-1] |= valid[f.off+f.n-1] &^ f.mask
			} else {
				nb = toBE(x, f.n)
				nb[0] |= valid[f.off] &^ f.mask
			}
			copy(out[f.off:], nb)
			if g.wire == wireZcash && m.IsNeutral(e.pt) {
				out[0] &^= 0x40
			}
			if g.wire == wireSEC1 && inner == "compressed" {
				out[0] = 2 + byte(rapid.IntRange(0, 1).Draw(t, "parity"))
			}
		}
		return out, class
	case "offcurve":
		// perturb the last coordinate field by +1 (in the uncompressed form: a point off the curve;
		// in the compressed form: a neighbouring abscissa, on the curve or on the twist)
		out := append([]byte(nil), valid...)
		f := fields[len(fields)-1]
		idx := f.off + f.n - 1
		if f.le {
			idx = f.off
		}
		out[idx] ^= 1
		return out, class
	}
	panic("unknown byte class " + class)
}

var cborMalformed = []string{"truncated", "wrong-key", "extra-field", "text-payload", "empty-map", "array", "indefinite", "random", "trailing", "nested-tag", "huge-length"}

func malformedCBOR(t *rapid.T, key string, payload []byte, class string) []byte {
	good := cborWrap(key, payload)
	switch class {
	case "truncated":
		return good[:rapid.IntRange(0, len(good)-1).Draw(t, "cut")]
	case "wrong-key":
		return cborWrap("uncompressedBytes", payload)
	case "extra-field":
		out := []byte{0xa2}
		out = append(out, cborTstr(key)...)
		out = append(out, cborBstr(payload)...)
		out = append(out, cborTstr("extra")...)
		return append(out, 0x01)
	case "text-payload":
		out := append([]byte{0xa1}, cborTstr(key)...)
		return append(out, cborTstr("abc")...)
	case "empty-map":
		return []byte{0xa0}
	case "array":
		return append([]byte{0x81}, cborBstr(payload)...)
	case "indefinite":
		out := append([]byte{0xbf}, cborTstr(key)...)
		out = append(out, cborBstr(payload)...)
		return append(out, 0xff)
	case "random":
		return rapid.SliceOfN(rapid.Byte(), 0, 120).Draw(t, "random")
	case "trailing":
		return append(good, 0x00)
	case "nested-tag":
		return append([]byte{0xd8, 0x2a}, good...)
	case "huge-length":
		out := append([]byte{0xa1}, cborTstr(key)...)
		return append(out, 0x5b, 0x7f, 0xff, 0xff, 0xff, 0xff, 0xff, 0xff, 0xff)
	}
	panic("unknown cbor class")
}

func TestPointDecodeBytes(t *testing.T) {
	const test = "PointDecodeBytes"
	vlib.Check(t, 9000, func(t *rapid.T) {
		g := drawGroup(t)
		format := rapid.SampledFrom(decodeFormats).Draw(t, "format")
		inner := innerFormat(g, format)
		class := rapid.SampledFrom(byteClasses).Draw(t, "bytes")
		var e element
		switch class {
		case "empty", "allff", "zero", "random", "random-len":
			e = makeElement(g, "G", nil, 0) // only the length of its encoding is used
		default:
			e = drawElement(t, g, false, "e.")
		}
		payload, label := hostilePayload(t, g, inner, e, class)
		b := payload
		if format == "cbor" {
			if rapid.IntRange(0, 5).Draw(t, "cbor-frame") == 0 {
				mc := rapid.SampledFrom(cborMalformed).Draw(t, "cbor-malformed")
				b = malformedCBOR(t, pointKey, payload, mc)
				label = "cbor-" + mc
				class = "cbor-malformed"
			} else {
				b = cborWrap(pointKey, payload)
			}
		}
		res, err := runDecoder(t, g, format, b)
		outcome := judgeDecode(t, g, format, b, res, err)
		eclass := e.class
		if class == "empty" || class == "allff" || class == "zero" || class == "random" || class == "random-len" {
			eclass = "-"
		}
		vlib.Case(test, vlib.Desc(g.name, format, eclass, label), true,
			"group="+g.name, "format="+format, "bytes="+class, "element="+eclass, "outcome="+outcome, g.name+"/"+outcome)
		if outcome != "accept:canonical" {
			vlib.Sample("decode:"+outcome, map[string]any{"group": g.name, "format": format, "bytes": fmt.Sprintf("%x", b), "class": label, "element": eclass})
		}
	})
}

// ---- affine constructors ------------------------------------------------------------------------------

func TestAffineConstructors(t *testing.T) {
	const test = "AffineConstructors"
	vlib.Check(t, 2500, func(t *rapid.T) {
		g := drawGroup(t)
		m := g.m
		e := drawElement(t, g, false, "e.")
		if m.IsNeutral(e.pt) && m.Kind != refcurve.TwistedEdwards {
			e = makeElement(g, "G", nil, 0) // the point at infinity has no affine coordinates
		}
		useX := g.fromAffineX != nil && rapid.Bool().Draw(t, "FromAffineX")
		mut := rapid.SampledFrom([]string{"none", "none", "none", "y+1", "swap", "twist-x", "zero-zero", "neg-y"}).Draw(t, "mutation")
		x, y := coordBytes(g, e.pt)
		want := e.pt
		valid := true
		switch mut {
		case "y+1":
			y = append([]byte(nil), y...)
			y[len(y)-1] ^= 1
			valid = false
		case "swap":
			x, y = y, x
			sw := refcurve.Point{X: e.pt.Y, Y: e.pt.X, X1: e.pt.Y1, Y1: e.pt.X1}
			valid = m.IsOnCurve(sw)
			want = sw
		case "twist-x":
			start := uint64(rapid.IntRange(1, 400).Draw(t, "twist-start"))
			switch m.Kind {
			case refcurve.WeierstrassFp2:
				tx := m.TwistXFp2(start)
				x = append(toBE(tx.A, 48), toBE(tx.B, 48)...)
			case refcurve.TwistedEdwards:
				y = toBE(m.TwistX(start), 32) // on Edwards curves TwistX is a y with no x
			default:
				x = toBE(m.TwistX(start), m.ByteLen)
			}
			valid = false
		case "zero-zero":
			x, y = make([]byte, len(x)), make([]byte, len(y))
			z := refcurve.Point{X: new(big.Int), Y: new(big.Int)}
			if m.Kind == refcurve.WeierstrassFp2 {
				z.X1, z.Y1 = new(big.Int), new(big.Int)
			}
			valid = m.IsOnCurve(z) // (0,0) is the point of order 2 of curve25519
			want = z
		case "neg-y":
			want = m.Neg(e.pt)
			if !m.IsNeutral(want) {
				x, y = coordBytes(g, want)
			}
		}
		member := valid && (!g.prime || inSubgroup(m, want))
		desc := vlib.Desc(g.name, e.class, mut)
		classes := []string{"group=" + g.name, "element=" + e.class, "mutation=" + mut}

		if useX {
			odd := rapid.Bool().Draw(t, "odd")
			var res any
			var err error
			vlib.NoPanic(t, fmt.Sprintf("%s FromAffineX(%x, %v)", g.name, x, odd), func() { res, err = g.fromAffineX(x, odd) })
			xv := refcurve.Fp2{A: beInt(x), B: new(big.Int)}
			lifted, onCurve := m.LiftXLargest(xv, false)
			outcome := "reject"
			if err == nil {
				if !onCurve {
					t.Fatalf("%s FromAffineX(%x, %v): accepted an x with no y", g.name, x, odd)
				}
				mp := modelOf(t, g, "FromAffineX", res)
				if mp.X.Cmp(lifted.X) != 0 || (mp.Y.Sign() != 0 && (mp.Y.Bit(0) == 1) != odd) {
					t.Fatalf("%s FromAffineX(%x, odd=%v) returned %s", g.name, x, odd, ptString(g, mp))
				}
				outcome = "accept"
				if g.prime && !inSubgroup(m, mp) {
					t.Fatalf("%s FromAffineX(%x, %v): returned a point outside the prime-order subgroup: %s", g.name, x, odd, ptString(g, mp))
				}
			} else if onCurve && inSubgroup(m, lifted) {
				t.Fatalf("%s FromAffineX(%x, %v): rejected (%v) the abscissa of the valid point %s", g.name, x, odd, err, ptString(g, lifted))
			}
			vlib.Case(test, "X|"+desc, true, append(classes, "constructor=FromAffineX", "outcome="+outcome)...)
			return
		}

		var res any
		var err error
		vlib.NoPanic(t, fmt.Sprintf("%s FromAffine(%x, %x)", g.name, x, y), func() { res, err = g.fromAffine(x, y) })
		outcome := "reject"
		if err == nil {
			if !valid {
				t.Fatalf("%s FromAffine(%x, %x): ACCEPTED coordinates that are not on the curve", g.name, x, y)
			}
			mp := modelOf(t, g, "FromAffine", res)
			if !m.Equal(mp, want) {
				t.Fatalf("%s FromAffine(%x, %x) holds %s", g.name, x, y, ptString(g, mp))
			}
			if g.prime && !inSubgroup(m, mp) {
				t.Fatalf("%s FromAffine(%x, %x): accepted a point outside the prime-order subgroup", g.name, x, y)
			}
			outcome = "accept"
		} else if member {
			if g.wire == wireMont && want.X.Sign() == 0 && excluded(fX25519Ord2Un) {
				outcome = "EXCLUDED-" + fX25519Ord2Un
			} else {
				t.Fatalf("%s FromAffine(%x, %x): rejected (%v) the valid element %s", g.name, x, y, err, ptString(g, want))
			}
		}
		vlib.Case(test, "A|"+desc, true, append(classes, "constructor=FromAffine", "outcome="+outcome)...)
	})
}
