package c13

import (
	"bytes"
	"fmt"
	"math/big"
	"testing"

	"pgregory.net/rapid"

	"verif/harness/vlib"
)

// Scalars and base-field elements. The element's value is read out through Bytes() (big-endian,
// fixed width; F_p²: c0 ‖ c1) and compared with math/big.
//
// Decoders and what the property lets the oracle say:
//   FromBytes / FromBytesBE  exactly ElementSize bytes; another length ⇒ error; accepted ⇒ value =
//                            big-endian integer mod the order (reduction is accepted, rejection of an
//                            unreduced value too); a value < order must be accepted (it is what Bytes() emits)
//   FromWideBytes            any length the decoder accepts ⇒ value = integer mod the order
//   FromBytesBEReduce        any length ⇒ value = integer mod the order
//   CBOR                     {"fieldBytes": bstr} carrying the FromBytes form

var fieldNames = []string{"k256.Fq", "k256.Fp", "p256.Fq", "p256.Fp", "pasta.Fp", "pasta.Fq", "ed25519.Fq", "ed25519.Fp", "bls12381.Fq", "bls12381.Fp", "bls12381.Fp2"}

func drawField(t *rapid.T) *field {
	tables()
	return fieldBy[rapid.SampledFrom(fieldNames).Draw(t, "field")]
}

// fieldValue reads the components of a library field element as integers.
func fieldValue(t vlib.Fataler, f *field, e any) []*big.Int {
	t.Helper()
	b := f.bytes(e)
	if len(b) != f.size {
		t.Fatalf("%s: Bytes() has %d bytes, ElementSize is %d", f.name, len(b), f.size)
	}
	n := f.size / f.deg
	out := make([]*big.Int, f.deg)
	for i := range out {
		out[i] = beInt(b[i*n : (i+1)*n])
		if out[i].Cmp(f.mod) >= 0 {
			t.Fatalf("%s: Bytes() = %x is not reduced", f.name, b)
		}
	}
	return out
}

// fieldSpec: the components the byte string denotes for the fixed-width decoders
// (nil: wrong length), and whether it is the canonical encoding.
func fieldSpec(f *field, b []byte) (vals []*big.Int, canonical bool) {
	if len(b) != f.size {
		return nil, false
	}
	n := f.size / f.deg
	canonical = true
	for i := 0; i < f.deg; i++ {
		v := beInt(b[i*n : (i+1)*n])
		if v.Cmp(f.mod) >= 0 {
			canonical = false
			v.Mod(v, f.mod)
		}
		vals = append(vals, v)
	}
	return vals, canonical
}

func sameVals(a, b []*big.Int) bool {
	if len(a) != len(b) {
		return false
	}
	for i := range a {
		if a[i].Cmp(b[i]) != 0 {
			return false
		}
	}
	return true
}

// judgeFieldDecode is clauses (3)(4) for one field decoder.
func judgeFieldDecode(t vlib.Fataler, f *field, dec string, b []byte, res any, err error) string {
	t.Helper()
	what := fmt.Sprintf("%s.%s(%s)", f.name, dec, vlib.Hex(b))
	payload := b
	if dec == "cbor" {
		inner, ok := cborUnwrap(fieldKey, b)
		if !ok {
			if err != nil {
				return "reject:cbor-frame"
			}
			fieldValue(t, f, res) // an accepted input must at least be a reduced element
			return "accept:cbor-other-frame"
		}
		payload = inner
	}
	switch dec {
	case "FromBytes", "FromBytesBE", "cbor":
		want, canonical := fieldSpec(f, payload)
		if want == nil {
			if err == nil {
				t.Fatalf("%s: accepted %d bytes, the element size is %d", what, len(payload), f.size)
			}
			return "reject:length"
		}
		if err != nil {
			if canonical {
				t.Fatalf("%s: rejected (%v) the canonical encoding of an element", what, err)
			}
			return "reject:unreduced"
		}
		if got := fieldValue(t, f, res); !sameVals(got, want) {
			t.Fatalf("%s: decoded to %v, the bytes read modulo the order are %v", what, got, want)
		}
		if canonical {
			return "accept:canonical"
		}
		return "accept:reduced"
	case "FromWideBytes", "FromBytesBEReduce":
		if err != nil {
			// the property does not say which lengths these reducing decoders take; counted only
			if f.wide > 0 && len(payload) > f.wide {
				return "reject:longer-than-wide"
			}
			return "reject:other"
		}
		if f.deg != 1 {
			fieldValue(t, f, res)
			return "accept:ext"
		}
		want := new(big.Int).Mod(beInt(payload), f.mod)
		if got := fieldValue(t, f, res); got[0].Cmp(want) != 0 {
			t.Fatalf("%s: decoded to %v, the integer modulo the order is %v", what, got[0], want)
		}
		return "accept:reduced"
	}
	panic("unknown field decoder " + dec)
}

func runFieldDecoder(t vlib.Fataler, f *field, dec string, b []byte) (res any, err error) {
	t.Helper()
	vlib.NoPanic(t, fmt.Sprintf("%s.%s(%s)", f.name, dec, vlib.Hex(b)), func() { res, err = f.decode[dec](b) })
	if err == nil && res == nil {
		t.Fatalf("%s.%s(%s): nil element and nil error", f.name, dec, vlib.Hex(b))
	}
	return res, err
}

var fieldValueClasses = []string{"0", "1", "2", "m-1", "m-2", "half", "drawn", "drawn", "drawn"}

func drawFieldValue(t *rapid.T, f *field, label string) (string, *big.Int) {
	class := rapid.SampledFrom(fieldValueClasses).Draw(t, label+"class")
	switch class {
	case "0", "1", "2":
		return class, big.NewInt(int64(class[0] - '0'))
	case "m-1":
		return class, new(big.Int).Sub(f.mod, big.NewInt(1))
	case "m-2":
		return class, new(big.Int).Sub(f.mod, big.NewInt(2))
	case "half":
		return class, new(big.Int).Rsh(f.mod, 1)
	}
	n := f.size / f.deg
	return class, new(big.Int).Mod(beInt(rapid.SliceOfN(rapid.Byte(), n+8, n+8).Draw(t, label+"v")), f.mod)
}

var fieldByteClasses = []string{
	"canonical", "canonical", "canonical", "m", "m+1", "v+m", "v+2m", "allff", "zero", "len-1", "len+1", "empty",
	"random", "random", "wide-random", "wide-allff", "wide+1", "short", "random-len",
}

func TestFieldDecode(t *testing.T) {
	const test = "FieldDecode"
	vlib.Check(t, 3200, func(t *rapid.T) {
		f := drawField(t)
		dec := rapid.SampledFrom(f.decs).Draw(t, "decoder")
		class := rapid.SampledFrom(fieldByteClasses).Draw(t, "bytes")
		n := f.size / f.deg
		limit := new(big.Int).Lsh(big.NewInt(1), uint(8*n))
		comps := make([]*big.Int, f.deg)
		vclass := "-"
		for i := range comps {
			var c string
			c, comps[i] = drawFieldValue(t, f, fmt.Sprintf("c%d.", i))
			if i == 0 {
				vclass = c
			}
		}
		enc := func(vs []*big.Int) []byte {
			var out []byte
			for _, v := range vs {
				out = append(out, toBE(v, n)...)
			}
			return out
		}
		canonical := enc(comps)
		var b []byte
		label := class
		addM := func(times int64) {
			i := rapid.IntRange(0, f.deg-1).Draw(t, "component")
			vs := append([]*big.Int(nil), comps...)
			v := new(big.Int).Add(vs[i], new(big.Int).Mul(f.mod, big.NewInt(times)))
			if v.Cmp(limit) >= 0 {
				label = "canonical(" + class + " does not fit)"
			} else {
				vs[i] = v
			}
			b = enc(vs)
		}
		switch class {
		case "canonical":
			b = canonical
			label = "canonical:" + vclass
		case "m":
			for i := range comps {
				comps[i] = new(big.Int)
			}
			addM(1)
		case "m+1":
			for i := range comps {
				comps[i] = big.NewInt(1)
			}
			addM(1)
		case "v+m":
			addM(1)
		case "v+2m":
			addM(2)
		case "allff":
			b = bytes.Repeat([]byte{0xff}, f.size)
		case "zero":
			b = make([]byte, f.size)
		case "len-1":
			b = canonical[1:]
		case "len+1":
			b = append([]byte{0}, canonical...)
		case "empty":
			b = []byte{}
		case "random":
			b = rapid.SliceOfN(rapid.Byte(), f.size, f.size).Draw(t, "random")
		case "wide-random":
			w := 2 * f.size
			b = rapid.SliceOfN(rapid.Byte(), w, w).Draw(t, "random")
		case "wide-allff":
			b = bytes.Repeat([]byte{0xff}, 2*f.size)
		case "wide+1":
			b = append([]byte{1}, make([]byte, 2*f.size)...)
		case "short":
			b = rapid.SliceOfN(rapid.Byte(), 1, f.size-1).Draw(t, "random")
		case "random-len":
			b = rapid.SliceOfN(rapid.Byte(), 0, 3*f.size).Draw(t, "random")
		}
		in := b
		if dec == "cbor" {
			if rapid.IntRange(0, 5).Draw(t, "cbor-frame") == 0 {
				mc := rapid.SampledFrom(cborMalformed).Draw(t, "cbor-malformed")
				in = malformedCBOR(t, fieldKey, b, mc)
				label = "cbor-" + mc
			} else {
				in = cborWrap(fieldKey, b)
			}
		}
		res, err := runFieldDecoder(t, f, dec, in)
		outcome := judgeFieldDecode(t, f, dec, in, res, err)
		vlib.Case(test, vlib.Desc(f.name, dec, label), true, "field="+f.name, "decoder="+dec, "bytes="+class, "outcome="+outcome, dec+"/"+outcome)
		if outcome != "accept:canonical" {
			vlib.Sample("field:"+dec+":"+outcome, map[string]any{"field": f.name, "decoder": dec, "bytes": fmt.Sprintf("%x", in), "class": label})
		}
	})
}

// TestFieldRoundTrip: clauses (1) and (2) for field elements — Bytes() / CBOR of an element
// decode back to an Equal element; elements with different values have different encodings.
func TestFieldRoundTrip(t *testing.T) {
	const test = "FieldRoundTrip"
	vlib.Check(t, 1200, func(t *rapid.T) {
		f := drawField(t)
		n := f.size / f.deg
		mk := func(label string) (string, []*big.Int, any) {
			comps := make([]*big.Int, f.deg)
			cls := ""
			var raw []byte
			for i := range comps {
				var c string
				c, comps[i] = drawFieldValue(t, f, fmt.Sprintf("%s%d.", label, i))
				cls += c
				raw = append(raw, toBE(comps[i], n)...)
			}
			e, err := runFieldDecoder(t, f, "FromBytes", raw)
			if err != nil {
				t.Fatalf("%s.FromBytes(%x): the canonical encoding of an element is rejected: %v", f.name, raw, err)
			}
			return cls, comps, e
		}
		c1, v1, e1 := mk("a")
		c2, v2, e2 := mk("b")
		via := rapid.SampledFrom([]string{"Bytes", "cbor"}).Draw(t, "via")
		encode := func(e any) []byte {
			if via == "Bytes" {
				return f.bytes(e)
			}
			var out []byte
			var err error
			vlib.NoPanic(t, f.name+" MarshalCBOR", func() { out, err = f.marshal(e) })
			if err != nil {
				t.Fatalf("%s MarshalCBOR: %v", f.name, err)
			}
			return out
		}
		b1, b2 := encode(e1), encode(e2)
		// the encoding is the fixed-width big-endian integer (F_p²: c0 ‖ c1)
		var want []byte
		for _, v := range v1 {
			want = append(want, toBE(v, n)...)
		}
		if via == "cbor" {
			want = cborWrap(fieldKey, want)
		}
		if !bytes.Equal(b1, want) {
			t.Fatalf("%s %s of %v is %x, expected %x", f.name, via, v1, b1, want)
		}
		dec := "FromBytes"
		if via == "cbor" {
			dec = "cbor"
		}
		back, err := runFieldDecoder(t, f, dec, b1)
		if err != nil {
			t.Fatalf("%s: decoding the %s encoding %x failed: %v", f.name, via, b1, err)
		}
		if !f.equal(back, e1) || !sameVals(fieldValue(t, f, back), v1) {
			t.Fatalf("%s: %s round trip of %v returned %v", f.name, via, v1, fieldValue(t, f, back))
		}
		if sameVals(v1, v2) != f.equal(e1, e2) {
			t.Fatalf("%s: Equal(%v, %v) = %v", f.name, v1, v2, f.equal(e1, e2))
		}
		if !sameVals(v1, v2) && bytes.Equal(b1, b2) {
			t.Fatalf("%s: the unequal elements %v and %v have the same %s encoding %x", f.name, v1, v2, via, b1)
		}
		nt := c1 != "drawn" || c2 != "drawn" || via == "cbor"
		vlib.Case(test, vlib.Desc(f.name, via, c1, c2), nt, "field="+f.name, "via="+via)
	})
}
