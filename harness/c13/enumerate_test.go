package c13

import (
	"bytes"
	"fmt"
	"math/big"
	"testing"

	"verif/harness/vlib"
	"verif/harness/vlib/refcurve"
)

// Finite sub-spaces, enumerated completely (plain tests, sharded with vlib.Mine).

// TestXZeroPoints recomputes with the model which Weierstrass curves have a point with x = 0
// (Euler's criterion on b) and checks the expected table: only P-256 and BLS12-381 E(F_p) do.
func TestXZeroPoints(t *testing.T) {
	const test = "XZeroPoints"
	want := map[string]bool{"secp256k1": false, "P-256": true, "pallas": false, "vesta": false, "BLS12-381 G1": true}
	i := 0
	for _, m := range refcurve.All() {
		if m.Kind != refcurve.WeierstrassFp {
			continue
		}
		i++
		if !vlib.Mine(i) {
			continue
		}
		leg := refcurve.LegendreFp(m.B, m.P)
		_, has := m.LiftX(new(big.Int), false)
		if (leg == 1) != has {
			t.Fatalf("%s: Legendre(b) = %d but LiftX(0) ok = %v", m.Name, leg, has)
		}
		if w, ok := want[m.Name]; !ok || w != has {
			t.Fatalf("%s: has a point with x = 0: %v (expected %v)", m.Name, has, w)
		}
		if has && hasCofactor(m) {
			p, _ := m.LiftX(new(big.Int), false)
			if m.IsInPrimeSubgroup(p) || m.PointOrder(p, 3) != 3 {
				t.Fatalf("%s: (0, √b) is expected to be a point of order 3 outside the subgroup", m.Name)
			}
		}
		vlib.Case(test, m.Name, true, fmt.Sprintf("%s:x0=%v", m.Name, has))
	}
	vlib.Exhaustive("C13: Euler criterion on b for every Weierstrass curve over F_p (which curves have a point with x = 0)")
}

// TestGenerators: the library's designated generator is on the curve and of prime order in the
// model; whether it is the standard base point is recorded as a note (all element classes of this
// package are defined relative to the library's generator).
func TestGenerators(t *testing.T) {
	const test = "Generators"
	gs, _ := tables()
	for i, g := range gs {
		if !vlib.Mine(i) {
			continue
		}
		lg := libGenerator(g)
		m := g.m
		if !m.IsOnCurve(lg) {
			t.Fatalf("%s: generator not on the curve", g.name)
		}
		if m.IsNeutral(lg) || !inSubgroup(m, lg) {
			t.Fatalf("%s: the library's generator %s does not generate the prime-order subgroup", g.name, lg)
		}
		sign := "standard"
		switch {
		case m.Equal(lg, m.G):
		case m.Equal(lg, m.Neg(m.G)):
			sign = "negated"
			vlib.Note(fmt.Sprintf("C13: the %s generator of the library is the NEGATIVE of the standard base point (second coordinate negated); not an encoding matter, recorded only", g.name))
		default:
			sign = "other"
			vlib.Note(fmt.Sprintf("C13: the %s generator of the library is %s, not the standard base point %s; it is on the curve and of prime order; not an encoding matter, recorded only", g.name, lg, m.G))
		}
		vlib.Case(test, g.name, true, g.name+":"+sign)
	}
	vlib.Exhaustive("C13: designated generator of each of the 10 group types against the standard base point")
}

// TestSmallOrderEverywhere: the 8 torsion points of edwards25519 / curve25519 × every decoder of
// the full and the prime-subgroup type × canonical and sign-flipped encodings.
func TestSmallOrderEverywhere(t *testing.T) {
	const test = "SmallOrder"
	tables()
	n := 0
	for _, gname := range []string{"ed25519", "ed25519-prime", "x25519", "x25519-prime"} {
		g := groupBy[gname]
		pts, orders := g.m.SmallOrderPoints()
		for j, sp := range pts {
			for _, format := range decodeFormats {
				for _, flip := range []bool{false, true} {
					n++
					if !vlib.Mine(n) {
						continue
					}
					payload := modelEncode(g, format, sp)
					if flip {
						payload[31] ^= 0x80
					}
					b := payload
					if format == "cbor" {
						b = cborWrap(pointKey, payload)
					}
					res, err := runDecoder(t, g, format, b)
					outcome := judgeDecode(t, g, format, b, res, err)
					vlib.Case(test, vlib.Desc(gname, format, j, flip), true, fmt.Sprintf("%s/order%d/%s", gname, orders[j], outcome))
				}
			}
		}
	}
	vlib.Exhaustive("C13: 8 small-order points of edwards25519 and curve25519 x {full, prime-subgroup} type x 4 decoders x {canonical, bit 255 flipped}")
}

// TestSEC1Tags: every first byte 0..255 in front of a fixed valid abscissa (and of x = 0), in
// the compressed and the uncompressed length, for k256 and p256.
func TestSEC1Tags(t *testing.T) {
	const test = "SEC1Tags"
	tables()
	n := 0
	for _, gname := range []string{"k256", "p256"} {
		g := groupBy[gname]
		m := g.m
		pt := m.ScalarBaseMul(big.NewInt(7))
		for _, format := range []string{"compressed", "uncompressed", "bytes", "cbor"} {
			for _, zero := range []bool{false, true} {
				valid := modelEncode(g, format, pt)
				if zero {
					valid = modelEncode(g, format, m.Neutral())
				}
				for tag := 0; tag < 256; tag++ {
					n++
					if !vlib.Mine(n) {
						continue
					}
					payload := append([]byte(nil), valid...)
					payload[0] = byte(tag)
					b := payload
					if format == "cbor" {
						b = cborWrap(pointKey, payload)
					}
					res, err := runDecoder(t, g, format, b)
					outcome := judgeDecode(t, g, format, b, res, err)
					defined := tag == 2 || tag == 3
					if innerFormat(g, format) == "uncompressed" {
						defined = tag == 4
					}
					if !defined && err == nil {
						t.Fatalf("%s %s: tag %02x accepted", gname, format, tag)
					}
					vlib.Case(test, vlib.Desc(gname, format, zero, tag), true, fmt.Sprintf("%s/%s/x0=%v/%s", gname, format, zero, outcome))
				}
			}
		}
	}
	vlib.Exhaustive("C13: all 256 tag bytes x {k256, p256} x {compressed, uncompressed, bytes, cbor} x {[7]G, x = 0 payload}")
}

// TestZcashFlags: all 8 values of the three flag bits × {G1, G2} × {compressed, uncompressed
// length} × payload {generator, zero, x = 0 with y of the model, non-zero junk}.
func TestZcashFlags(t *testing.T) {
	const test = "ZcashFlags"
	tables()
	n := 0
	for _, gname := range []string{"bls-g1", "bls-g2"} {
		g := groupBy[gname]
		m := g.m
		for _, format := range []string{"compressed", "uncompressed", "cbor"} {
			inner := innerFormat(g, format)
			gen := modelEncode(g, inner, m.G)
			payloads := map[string][]byte{"generator": gen, "zero": make([]byte, len(gen))}
			junk := bytes.Repeat([]byte{0x01}, len(gen))
			payloads["junk"] = junk
			if x0, ok := xZero(m, false); ok {
				payloads["x0"] = modelEncode(g, inner, x0)
			}
			for _, pname := range []string{"generator", "zero", "junk", "x0"} {
				base, ok := payloads[pname]
				if !ok {
					continue
				}
				for fl := 0; fl < 8; fl++ {
					n++
					if !vlib.Mine(n) {
						continue
					}
					payload := append([]byte(nil), base...)
					payload[0] = payload[0]&0x1f | byte(fl)<<5
					b := payload
					if format == "cbor" {
						b = cborWrap(pointKey, payload)
					}
					res, err := runDecoder(t, g, format, b)
					outcome := judgeDecode(t, g, format, b, res, err)
					vlib.Case(test, vlib.Desc(gname, format, pname, fl), true, fmt.Sprintf("%s/%s/%s/flags=%d/%s", gname, format, pname, fl, outcome))
				}
			}
		}
	}
	vlib.Exhaustive("C13: 8 flag-bit values x {G1, G2} x {compressed, uncompressed, cbor} x {generator, zero, junk, x = 0} payloads")
}
