package c13

import (
	"bytes"
	"flag"
	"hash/fnv"
	"math/big"
	"testing"

	"verif/harness/vlib"
)

// Native fuzz targets (thorough tier: `-fuzz FuzzPointDecode_k256` etc.). In the quick tier they
// run as plain tests over their seed corpus. Inside a target every decoder of the curve is run
// on the input (and on the input framed as CBOR) under clauses (3) and (5): no panic, and whatever
// is accepted denotes a valid element according to the model — see judgeDecode / judgeFieldDecode.

func pointSeeds(groups []*group) [][]byte {
	var seeds [][]byte
	add := func(b []byte) { seeds = append(seeds, b) }
	for _, g := range groups {
		m := g.m
		for _, inner := range []string{"compressed", "uncompressed"} {
			var pts []element
			for _, c := range []string{"identity", "G", "2G", "(n-1)G"} {
				pts = append(pts, makeElement(g, c, nil, 0))
			}
			pts = append(pts, makeElement(g, "kG", big.NewInt(0x1234567), 0))
			for _, c := range elementClasses(g, false) {
				switch c {
				case "x0-even", "x0-odd", "small[1]", "small[2]", "small[4]", "outside", "cofactor", "mixed":
					pts = append(pts, makeElement(g, c, big.NewInt(77), 3))
				}
			}
			for _, e := range pts {
				valid := modelEncode(g, inner, e.pt)
				add(valid)
				add(cborWrap(pointKey, valid))
				for _, f := range coordFields(g, inner) {
					if b, ok := addP(g, valid, f); ok {
						add(b)
					}
				}
				flip := append([]byte(nil), valid...)
				flip[0] ^= 0x20
				add(flip)
				flip2 := append([]byte(nil), valid...)
				flip2[len(flip2)-1] ^= 0x80
				add(flip2)
				add(valid[:len(valid)-1])
				add(append(append([]byte(nil), valid...), 0))
			}
			n := len(modelEncode(g, inner, m.G))
			add(make([]byte, n))
			add(bytes.Repeat([]byte{0xff}, n))
			pb := toBE(m.P, m.ByteLen)
			add(append([]byte{3}, pb...))
			add(append([]byte{2}, pb...))
			add(toLE(m.P, m.ByteLen))
			if g.wire == wireSEC1 {
				for _, tag := range []byte{0, 4, 6, 7} {
					t := append([]byte(nil), modelEncode(g, inner, m.G)...)
					t[0] = tag
					add(t)
				}
				z := make([]byte, n)
				z[0] = 3
				add(z)
			}
		}
	}
	add([]byte{})
	add([]byte{0})
	add([]byte{0xa0})
	add([]byte{0xa1, 0x6f})
	return seeds
}

func fuzzPoints(f *testing.F, names ...string) {
	tables()
	var gs []*group
	for _, n := range names {
		gs = append(gs, groupBy[n])
	}
	addSeeds(f, pointSeeds(gs))
	test := f.Name()
	f.Fuzz(func(t *testing.T, b []byte) {
		if notMine(b) {
			return
		}
		for _, g := range gs {
			for _, format := range decodeFormats {
				res, err := runDecoder(t, g, format, b)
				outcome := judgeDecode(t, g, format, b, res, err)
				vlib.Class(test, g.name+"/"+format+"/"+outcome)
			}
			w := cborWrap(pointKey, b)
			if len(b) < 1<<16 {
				res, err := runDecoder(t, g, "cbor", w)
				outcome := judgeDecode(t, g, "cbor", w, res, err)
				vlib.Class(test, g.name+"/cbor-framed/"+outcome)
			}
		}
		vlib.Case(test, vlib.Desc(len(b), firstByte(b)), true)
	})
}

// fuzzing reports whether the binary runs with -fuzz (coordinator or worker). Without it the
// targets are plain tests over their seed corpus, and the corpus is split among the shards.
func fuzzing() bool {
	for _, name := range []string{"test.fuzz", "test.fuzzworker"} {
		if fl := flag.Lookup(name); fl != nil && fl.Value.String() != "" && fl.Value.String() != "false" {
			return true
		}
	}
	return false
}

func addSeeds(f *testing.F, seeds [][]byte) {
	for _, s := range seeds {
		f.Add(s)
	}
	// one-byte CBOR simple values and the self-described null: the CBOR layer's "no value" forms
	for _, s := range [][]byte{{0xf6}, {0xf7}, {0xd9, 0xd9, 0xf7, 0xf6}, {0xa0}, {0x80}} {
		f.Add(s)
	}
}

// notMine: as a plain test every shard sees the whole seed corpus (so that seed#N names the same
// input everywhere, also in a replay); each input is judged by one shard only.
func notMine(b []byte) bool {
	if fuzzing() || vlib.Replaying() {
		return false
	}
	h := fnv.New32a()
	_, _ = h.Write(b)
	return !vlib.Mine(int(h.Sum32() % 1009))
}

func firstByte(b []byte) int {
	if len(b) == 0 {
		return -1
	}
	return int(b[0])
}

func fieldSeeds(fs []*field) [][]byte {
	var seeds [][]byte
	add := func(b []byte) { seeds = append(seeds, b) }
	for _, f := range fs {
		n := f.size / f.deg
		for _, v := range []*big.Int{new(big.Int), big.NewInt(1), new(big.Int).Sub(f.mod, big.NewInt(1)), f.mod,
			new(big.Int).Add(f.mod, big.NewInt(1)), new(big.Int).Sub(new(big.Int).Lsh(big.NewInt(1), uint(8*n)), big.NewInt(1))} {
			var b []byte
			for i := 0; i < f.deg; i++ {
				b = append(b, toBE(v, n)...)
			}
			add(b)
			add(cborWrap(fieldKey, b))
			add(b[1:])
			add(append([]byte{0}, b...))
			add(append(append([]byte(nil), b...), b...))
		}
		add(bytes.Repeat([]byte{0xff}, 2*f.size))
		add(bytes.Repeat([]byte{0xff}, 2*f.size+1))
	}
	add([]byte{})
	add([]byte{0xa0})
	return seeds
}

func fuzzFields(f *testing.F, names ...string) {
	tables()
	var fs []*field
	for _, n := range names {
		fs = append(fs, fieldBy[n])
	}
	addSeeds(f, fieldSeeds(fs))
	test := f.Name()
	f.Fuzz(func(t *testing.T, b []byte) {
		if notMine(b) {
			return
		}
		for _, fd := range fs {
			for _, dec := range fd.decs {
				res, err := runFieldDecoder(t, fd, dec, b)
				outcome := judgeFieldDecode(t, fd, dec, b, res, err)
				vlib.Class(test, fd.name+"/"+dec+"/"+outcome)
			}
			if len(b) < 1<<16 {
				w := cborWrap(fieldKey, b)
				res, err := runFieldDecoder(t, fd, "cbor", w)
				outcome := judgeFieldDecode(t, fd, "cbor", w, res, err)
				vlib.Class(test, fd.name+"/cbor-framed/"+outcome)
			}
		}
		vlib.Case(test, vlib.Desc(len(b), firstByte(b)), true)
	})
}

func FuzzPointDecode_k256(f *testing.F)         { fuzzPoints(f, "k256") }
func FuzzPointDecode_p256(f *testing.F)         { fuzzPoints(f, "p256") }
func FuzzPointDecode_pallas(f *testing.F)       { fuzzPoints(f, "pallas") }
func FuzzPointDecode_vesta(f *testing.F)        { fuzzPoints(f, "vesta") }
func FuzzPointDecode_edwards25519(f *testing.F) { fuzzPoints(f, "ed25519", "ed25519-prime") }
func FuzzPointDecode_curve25519(f *testing.F)   { fuzzPoints(f, "x25519", "x25519-prime") }
func FuzzPointDecode_bls12381g1(f *testing.F)   { fuzzPoints(f, "bls-g1") }
func FuzzPointDecode_bls12381g2(f *testing.F)   { fuzzPoints(f, "bls-g2") }

func FuzzScalarDecode_k256(f *testing.F)         { fuzzFields(f, "k256.Fq", "k256.Fp") }
func FuzzScalarDecode_p256(f *testing.F)         { fuzzFields(f, "p256.Fq", "p256.Fp") }
func FuzzScalarDecode_pasta(f *testing.F)        { fuzzFields(f, "pasta.Fq", "pasta.Fp") }
func FuzzScalarDecode_edwards25519(f *testing.F) { fuzzFields(f, "ed25519.Fq", "ed25519.Fp") }
func FuzzScalarDecode_bls12381(f *testing.F) {
	fuzzFields(f, "bls12381.Fq", "bls12381.Fp", "bls12381.Fp2")
}

// FuzzGtDecode: Gt.FromBytes under the GT clauses (length, coefficients read modulo p, no panic).
func FuzzGtDecode_bls12381(f *testing.F) {
	one := make([]byte, gtLen)
	one[47] = 1
	f.Add(one)
	f.Add(one[:gtLen-1])
	f.Add(bytes.Repeat([]byte{0xff}, gtLen))
	f.Add(make([]byte, gtLen))
	f.Add([]byte{})
	test := f.Name()
	f.Fuzz(func(t *testing.T, b []byte) {
		if notMine(b) {
			return
		}
		res, err := runGt(t, b)
		outcome := judgeGt(t, b, res, err)
		vlib.Case(test, vlib.Desc(len(b), firstByte(b)), true, outcome)
	})
}
