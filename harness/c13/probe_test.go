package c13

import (
	"bytes"
	"fmt"
	"math/big"
	"testing"

	"github.com/bronlabs/bron-crypto/pkg/base/curves/curve25519"
	"github.com/bronlabs/bron-crypto/pkg/base/curves/edwards25519"
	"github.com/bronlabs/bron-crypto/pkg/base/curves/p256"
	"github.com/bronlabs/bron-crypto/pkg/base/curves/pairable/bls12381"
	"verif/harness/vlib/refcurve"
)

func be(v *big.Int, n int) []byte { return v.FillBytes(make([]byte, n)) }
func le(v *big.Int, n int) []byte {
	b := be(v, n)
	for i, j := 0, len(b)-1; i < j; i, j = i+1, j-1 {
		b[i], b[j] = b[j], b[i]
	}
	return b
}

func try(what string, f func()) {
	defer func() {
		if r := recover(); r != nil {
			fmt.Printf("%s: PANIC %v\n", what, r)
		}
	}()
	f()
}

func TestProbe(t *testing.T) {
	// P-256 x=0
	m := refcurve.P256()
	for _, odd := range []bool{false, true} {
		mp, ok := m.LiftX(big.NewInt(0), odd)
		fmt.Println("p256 liftx0", ok, mp.Y.Text(16))
		x, _ := p256.NewBaseField().FromBytes(be(mp.X, 32))
		y, _ := p256.NewBaseField().FromBytes(be(mp.Y, 32))
		p, err := p256.NewCurve().FromAffine(x, y)
		fmt.Println("FromAffine", err)
		c := p.ToCompressed()
		fmt.Printf("compressed %x\n", c)
		q, err := p256.NewCurve().FromCompressed(c)
		fmt.Println("decode err", err, "equal", q != nil && q.Equal(p), "isId", q != nil && q.IsOpIdentity())
		fmt.Println("id enc equal:", bytes.Equal(c, p256.NewCurve().OpIdentity().ToCompressed()))
		u := p.ToUncompressed()
		q, err = p256.NewCurve().FromUncompressed(u)
		fmt.Println("uncompressed rt", err, q != nil && q.Equal(p))
	}
	// BLS G1 x+p
	g1 := refcurve.BLS12381G1()
	for k := int64(1); k < 40; k++ {
		mp := g1.ScalarBaseMul(big.NewInt(k))
		xp := new(big.Int).Add(mp.X, g1.P)
		if xp.BitLen() > 381 {
			continue
		}
		enc := g1.EncodeZcash(mp, true)
		b := be(xp, 48)
		b[0] |= enc[0] & 0xe0
		q, err := bls12381.NewG1().FromCompressed(b)
		fmt.Println("G1 k", k, "x+p accepted:", err == nil)
		if err == nil {
			q0, _ := bls12381.NewG1().FromCompressed(enc)
			fmt.Println("   equal to canonical:", q.Equal(q0))
		}
		// uncompressed with y+p
		un := g1.EncodeZcash(mp, false)
		copy(un[:48], be(xp, 48))
		_, err = bls12381.NewG1().FromUncompressed(un)
		fmt.Println("   uncompressed x+p accepted:", err == nil)
		break
	}
	// G1 uncompressed flags
	{
		mp := g1.ScalarBaseMul(big.NewInt(5))
		un := g1.EncodeZcash(mp, false)
		for _, f := range []byte{0x80, 0x20, 0xa0, 0x40, 0xc0, 0x60, 0xe0} {
			b := append([]byte(nil), un...)
			b[0] |= f
			q, err := bls12381.NewG1().FromUncompressed(b)
			fmt.Printf("G1 uncompressed flag %02x: accepted=%v id=%v\n", f, err == nil, q != nil && q.IsOpIdentity())
		}
		co := g1.EncodeZcash(mp, true)
		for _, f := range []byte{0x80, 0x20, 0x40, 0x60} {
			b := append([]byte(nil), co...)
			b[0] ^= f
			q, err := bls12381.NewG1().FromCompressed(b)
			fmt.Printf("G1 compressed flag^%02x: accepted=%v id=%v\n", f, err == nil, q != nil && q.IsOpIdentity())
		}
	}
	// G1 outside subgroup
	{
		mp, _ := g1.PointOutsideSubgroup(1)
		_, err := bls12381.NewG1().FromCompressed(g1.EncodeZcash(mp, true))
		fmt.Println("G1 outside compressed err:", err != nil)
		_, err = bls12381.NewG1().FromUncompressed(g1.EncodeZcash(mp, false))
		fmt.Println("G1 outside uncompressed err:", err != nil)
		x, _ := bls12381.NewG1BaseField().FromBytes(be(mp.X, 48))
		y, _ := bls12381.NewG1BaseField().FromBytes(be(mp.Y, 48))
		_, err = bls12381.NewG1().FromAffine(x, y)
		fmt.Println("G1 outside FromAffine err:", err != nil)
		p, err := bls12381.NewG1().FromAffineX(x, mp.Y.Bit(0) == 1)
		fmt.Println("G1 outside FromAffineX err:", err != nil)
		if err == nil {
			fmt.Println("   torsion free?", p.IsTorsionFree())
		}
	}
	// GT: coordinate >= p
	{
		one := bls12381.NewGt().One().Bytes()
		fmt.Printf("gt one %x... len %d\n", one[:50], len(one))
		b := append([]byte(nil), one...)
		// add p to the first coordinate holding 1? find
		for i := 0; i < 12; i++ {
			v := new(big.Int).SetBytes(b[48*i : 48*i+48])
			if v.Sign() != 0 {
				fmt.Println("one at coord", i)
			}
			vp := new(big.Int).Add(v, g1.P)
			copy(b[48*i:], be(vp, 48))
			e, err := bls12381.NewGt().FromBytes(b)
			fmt.Println("GT coord", i, "+p accepted:", err == nil, "equal one:", e != nil && e.Equal(bls12381.NewGt().One()))
			copy(b[48*i:], be(v, 48))
		}
		ff := bytes.Repeat([]byte{0xff}, 576)
		_, err := bls12381.NewGt().FromBytes(ff)
		fmt.Println("GT all ff accepted:", err == nil)
	}
	// curve25519
	{
		mc := refcurve.Curve25519()
		cv := curve25519.NewCurve()
		g := cv.PrimeSubGroupGenerator()
		ng := g.Neg()
		fmt.Printf("x25519 G comp %x\n -G comp %x equal=%v\n", g.ToCompressed(), ng.ToCompressed(), g.Equal(ng))
		d, err := cv.FromCompressed(g.ToCompressed())
		fmt.Println("decode G:", err, d.Equal(g), d.Equal(ng))
		fmt.Printf("uncompressed G %x\n", g.ToUncompressed())
		fmt.Printf("model G u=%x v=%x\n", le(mc.G.X, 32), le(mc.G.Y, 32))
		// u = p bytes
		pb := le(mc.P, 32)
		q, err := cv.FromCompressed(pb)
		fmt.Println("u=p accepted:", err == nil)
		if err == nil {
			fmt.Println("  identity?", q.IsOpIdentity(), "torsionfree", q.IsTorsionFree())
			try("ToCompressed(order2)", func() { fmt.Printf("  comp %x\n", q.ToCompressed()) })
			try("ToUncompressed(order2)", func() { fmt.Printf("  uncomp %x\n", q.ToUncompressed()) })
			try("MarshalCBOR(order2)", func() { b, err := q.MarshalCBOR(); fmt.Printf("  cbor %x %v\n", b, err) })
			q2 := q.Add(q)
			fmt.Println("  2q identity?", q2.IsOpIdentity())
		}
		sm, ord := mc.SmallOrderPoints()
		for i, sp := range sm {
			if sp.Inf {
				continue
			}
			x, _ := curve25519.NewBaseField().FromBytes(be(sp.X, 32))
			y, _ := curve25519.NewBaseField().FromBytes(be(sp.Y, 32))
			var p *curve25519.Point
			var err error
			try("FromAffine small", func() { p, err = cv.FromAffine(x, y) })
			fmt.Printf("x25519 small[%d] ord %d u=%s: FromAffine err=%v\n", i, ord[i], sp.X.Text(16), err)
			if err == nil && p != nil {
				try("enc small", func() { fmt.Printf("   comp %x\n", p.ToCompressed()) })
				try("enc small unc", func() { fmt.Printf("   uncomp %x\n", p.ToUncompressed()) })
			}
			var pc *curve25519.Point
			try("FromCompressed small", func() { pc, err = cv.FromCompressed(le(sp.X, 32)) })
			fmt.Printf("   FromCompressed err=%v\n", err)
			if err == nil {
				try("x", func() {
					ax, e1 := pc.AffineX()
					ay, e2 := pc.AffineY()
					fmt.Println("    affine", e1, e2, ax, ay, "id", pc.IsOpIdentity())
				})
				_, err = curve25519.NewPrimeSubGroup().FromCompressed(le(sp.X, 32))
				fmt.Println("    prime subgroup FromCompressed err:", err != nil)
			}
		}
		// twist u
		tu := mc.TwistX(2)
		_, err = cv.FromCompressed(le(tu, 32))
		fmt.Println("x25519 twist u", tu, "err:", err != nil)
		// u = -1 (d = 0)
		um1 := new(big.Int).Sub(mc.P, big.NewInt(1))
		_, ok := mc.LiftX(um1, false)
		_, err = cv.FromCompressed(le(um1, 32))
		fmt.Println("x25519 u=-1 on curve(model):", ok, "lib err:", err)
		// bit 255 set
		gb := g.ToCompressed()
		gb[31] |= 0x80
		_, err = cv.FromCompressed(gb)
		fmt.Println("x25519 bit255 set err:", err)
	}
	// edwards
	{
		me := refcurve.Ed25519()
		sm, ord := me.SmallOrderPoints()
		for i, sp := range sm {
			enc := refcurve.EncodeEd25519(sp)
			p, err := edwards25519.NewCurve().FromCompressed(enc)
			_, err2 := edwards25519.NewPrimeSubGroup().FromCompressed(enc)
			fmt.Printf("ed small[%d] ord %d enc %x full err=%v prime err=%v\n", i, ord[i], enc, err, err2 != nil)
			if err == nil {
				fmt.Printf("    re-enc %x\n", p.ToCompressed())
			}
			enc[31] ^= 0x80
			p, err = edwards25519.NewCurve().FromCompressed(enc)
			fmt.Printf("    sign flipped: err=%v\n", err)
		}
		// y = p+1 (i.e. y=1 unreduced)
		b := le(new(big.Int).Add(me.P, big.NewInt(1)), 32)
		p, err := edwards25519.NewCurve().FromCompressed(b)
		fmt.Println("ed y=p+1 err", err, "id", p != nil && p.IsOpIdentity())
		idp := edwards25519.NewCurve().OpIdentity()
		_, e1 := idp.AffineX()
		fmt.Printf("ed identity enc %x uncompressed %x affineX err %v\n", idp.ToCompressed(), idp.ToUncompressed(), e1)
	}
}
