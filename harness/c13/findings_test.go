package c13

import (
	"bytes"
	"fmt"
	"math/big"
	"os"
	"sync"
	"testing"

	"github.com/bronlabs/bron-crypto/pkg/base/curves/curve25519"
	"github.com/bronlabs/bron-crypto/pkg/base/curves/p256"
	"github.com/bronlabs/bron-crypto/pkg/base/curves/pairable/bls12381"
	"verif/harness/vlib"
	"verif/harness/vlib/refcurve"
)

// Genuine deviations from the property found by this package that are CATALOGUED as known in
// /verif/known_findings.json (the repaired ones are plain regressions in TestFixedFindings). Each has
//   - an id,
//   - observe(): the minimal input run against the real code → (still present?, what was seen),
//   - a place in the oracles (search for the id) where exactly the inputs of that finding are
//     counted with vlib.Excluded instead of failing — but only while observe() still reports the
//     deviation: once the code is repaired the exclusion switches itself off and the generated
//     checks assert the full property again.
// TestKnownFindings reports every observation with vlib.Known.

const (
	fP256x02      = "C13-p256-x0-compressed-02"
	fBLSUncFlags  = "C13-bls12381-uncompressed-flags"
	fX25519Sign   = "C13-curve25519-compressed-sign"
	fX25519Ord2   = "C13-curve25519-order2-compressed"
	fX25519Ord2Un = "C13-curve25519-order2-uncompressed-panic"
)

type finding struct {
	id      string
	observe func() (present bool, what string)
}

func safely(f func()) (panicked any) {
	defer func() { panicked = recover() }()
	f()
	return nil
}

func p256XZero(odd bool) *p256.Point {
	mp, ok := refcurve.P256().LiftX(new(big.Int), odd)
	if !ok {
		panic("model: P-256 has no x = 0 point")
	}
	bf := p256.NewBaseField()
	x, _ := bf.FromBytes(toBE(mp.X, 32))
	y, _ := bf.FromBytes(toBE(mp.Y, 32))
	p, err := p256.NewCurve().FromAffine(x, y)
	if err != nil {
		panic("P-256 FromAffine(0, sqrt b): " + err.Error())
	}
	return p
}

func x25519Order2() *curve25519.Point {
	pts, _ := refcurve.Curve25519().SmallOrderPoints()
	bf := curve25519.NewBaseField()
	x, _ := bf.FromBytes(toBE(pts[2].X, 32))
	y, _ := bf.FromBytes(toBE(pts[2].Y, 32))
	p4, err := curve25519.NewCurve().FromAffine(x, y)
	if err != nil {
		panic("curve25519 FromAffine(order-4 point): " + err.Error())
	}
	return p4.Double()
}

var findings = []finding{
	{fP256x02, func() (bool, string) {
		p := p256XZero(false)
		enc, id := p.ToCompressed(), p256.NewCurve().OpIdentity().ToCompressed()
		present := bytes.Equal(enc, id) && !p.IsOpIdentity()
		return present, fmt.Sprintf("P-256 point (0, sqrt(b) even) = FromAffine(0, 66485c78…174f93f4): ToCompressed = %x, identity.ToCompressed = %x; "+
			"two distinct elements share the encoding (Bytes() and CBOR use it); FromCompressed of it returns the identity", enc, id)
	}},
	{fBLSUncFlags, func() (bool, string) {
		m := refcurve.BLS12381G1()
		enc := m.EncodeZcash(m.G, false)
		var seen []string
		present := false
		for _, f := range []byte{0x80, 0x20, 0x40} {
			b := append([]byte(nil), enc...)
			b[0] |= f
			q, err := bls12381.NewG1().FromUncompressed(b)
			seen = append(seen, fmt.Sprintf("flag %02x: accepted=%v identity=%v", f, err == nil, err == nil && q.IsOpIdentity()))
			present = present || err == nil
		}
		return present, fmt.Sprintf("G1.FromUncompressed(uncompressed generator with a forbidden flag bit set in byte 0): %v — the compression and sort flags are ignored and the infinity flag wins over a non-zero payload (same in G2)", seen)
	}},
	{fX25519Sign, func() (bool, string) {
		g := curve25519.NewCurve().PrimeSubGroupGenerator()
		ng := g.Neg()
		same := bytes.Equal(g.ToCompressed(), ng.ToCompressed()) && !g.Equal(ng)
		d, err := curve25519.NewCurve().FromCompressed(g.ToCompressed())
		rt := err == nil && d.Equal(g)
		return same || !rt, fmt.Sprintf("curve25519: G and -G are unequal but ToCompressed/Bytes of both = %x (u only); FromCompressed(G.ToCompressed()) equals G: %v, equals -G: %v", g.ToCompressed(), rt, err == nil && d.Equal(ng))
	}},
	{fX25519Ord2, func() (bool, string) {
		t2 := x25519Order2()
		var enc []byte
		if r := safely(func() { enc = t2.ToCompressed() }); r != nil {
			return true, fmt.Sprintf("curve25519 point of order 2: ToCompressed panics: %v", r)
		}
		id := curve25519.NewCurve().OpIdentity().ToCompressed()
		return bytes.Equal(enc, id) && !t2.IsOpIdentity(), fmt.Sprintf("curve25519 point of order 2 (u = 0; [2] of the order-4 point u = 1): ToCompressed = %x = identity.ToCompressed; FromCompressed of it is the identity", enc)
	}},
	{fX25519Ord2Un, func() (bool, string) {
		t2 := x25519Order2()
		r1 := safely(func() { _ = t2.ToUncompressed() })
		r2 := safely(func() { _, _ = t2.MarshalCBOR() })
		x, _ := curve25519.NewBaseField().FromBytes(make([]byte, 32))
		_, err := curve25519.NewCurve().FromAffine(x, x)
		return r1 != nil || r2 != nil, fmt.Sprintf("curve25519 point of order 2 (0, 0): ToUncompressed panics=%v, MarshalCBOR panics=%v (AffineY divides by X−T = 0); FromAffine(0, 0) err=%v", r1 != nil, r2 != nil, err != nil)
	}},
}

var (
	presentOnce sync.Once
	presentMap  = map[string]bool{}
	whatMap     = map[string]string{}
)

func observeAll() {
	presentOnce.Do(func() {
		for _, f := range findings {
			var p bool
			var w string
			if r := safely(func() { p, w = f.observe() }); r != nil {
				p, w = true, fmt.Sprintf("observation panicked: %v", r)
			}
			presentMap[f.id], whatMap[f.id] = p, w
		}
	})
}

// present reports whether the finding is still observable on this tree.
func present(id string) bool {
	observeAll()
	p, ok := presentMap[id]
	if !ok {
		panic("unknown finding id " + id)
	}
	return p
}

// excluded is called by an oracle at the exact input of a finding: it counts the exclusion and
// returns true while the finding is present; false (⇒ the oracle goes on to fail) once it is gone.
func excluded(id string) bool {
	if os.Getenv("VERIF_C13_NOEXCLUDE") != "" { // development aid: show the raw failures of the findings
		return false
	}
	if present(id) {
		vlib.Excluded(id)
		return true
	}
	return false
}

func TestKnownFindings(t *testing.T) {
	const test = "KnownFindings"
	observeAll()
	for i, f := range findings {
		if !vlib.Mine(i) {
			continue
		}
		vlib.Known(f.id, presentMap[f.id], whatMap[f.id])
		vlib.Case(test, f.id, true, fmt.Sprintf("present=%v", presentMap[f.id]))
		t.Logf("%s present=%v: %s", f.id, presentMap[f.id], whatMap[f.id])
	}
}

// TestFixedFindings: the two deviations this package found that were repaired in /repo. They are
// asserted by the generated tests like everything else; this is the plain regression with the
// minimal inputs.
//   - C13-p256-x0-compressed-03 (e667d71): 03‖0…0 on P-256 is the point (0, odd √b), not the identity.
//   - C13-bls12381-g1-fromaffinex-subgroup (3f8e631): G1.FromAffineX refuses points outside G1.
func TestFixedFindings(t *testing.T) {
	const test = "FixedFindings"
	if vlib.Mine(0) {
		p := p256XZero(true)
		enc := p.ToCompressed()
		want := append([]byte{3}, make([]byte, 32)...)
		if !bytes.Equal(enc, want) {
			t.Fatalf("P-256 (0, odd sqrt b): ToCompressed = %x, expected %x", enc, want)
		}
		q, err := p256.NewCurve().FromCompressed(enc)
		if err != nil || !q.Equal(p) || q.IsOpIdentity() {
			t.Fatalf("P-256 FromCompressed(%x): err=%v, identity=%v — expected the point (0, odd sqrt b) [regression of C13-p256-x0-compressed-03]", enc, err, err == nil && q.IsOpIdentity())
		}
		pb := append([]byte{3}, toBE(refcurve.P256().P, 32)...) // x = p, reads as 0
		if q, err := p256.NewCurve().FromCompressed(pb); err == nil && !q.Equal(p) {
			t.Fatalf("P-256 FromCompressed(03‖p) decoded to something else than (0, odd sqrt b)")
		}
		vlib.Case(test, "p256-03-x0", true, "p256-03-x0")
	}
	if vlib.Mine(1) {
		x, _ := bls12381.NewG1BaseField().FromBytes(make([]byte, 48))
		for _, odd := range []bool{false, true} {
			p, err := bls12381.NewG1().FromAffineX(x, odd)
			if err == nil {
				t.Fatalf("G1.FromAffineX(0, %v) returned a point (torsion free: %v) — (0, ±2) has order 3 [regression of C13-bls12381-g1-fromaffinex-subgroup]", odd, p.IsTorsionFree())
			}
		}
		vlib.Case(test, "g1-fromaffinex-x0", true, "g1-fromaffinex-x0")
	}
}
