package c11

import (
	"context"
	"fmt"
	"sync"
	"sync/atomic"
	"time"

	"github.com/fxamacker/cbor/v2"

	"github.com/bronlabs/bron-crypto/pkg/mpc/sharing"
	"github.com/bronlabs/bron-crypto/pkg/network"
)

// ---- wire format (written by hand, never through the router) ------------------------------

// wireMessage is the documented shape of what a router puts on the transport.
type wireMessage struct {
	From          uint64 `cbor:"from"`
	CorrelationID string `cbor:"correlationID"`
	Payload       []byte `cbor:"payload"`
}

var detEnc = func() cbor.EncMode {
	m, err := cbor.CoreDetEncOptions().EncMode()
	if err != nil {
		panic(err)
	}
	return m
}()

func encodeWire(fromField uint64, cid string, payload []byte) []byte {
	if payload == nil {
		payload = []byte{}
	}
	b, err := detEnc.Marshal(wireMessage{From: fromField, CorrelationID: cid, Payload: payload})
	if err != nil {
		panic(err)
	}
	return b
}

func decodeWire(b []byte) (wireMessage, error) {
	var w wireMessage
	err := cbor.Unmarshal(b, &w)
	return w, err
}

// ---- ctlDelivery: the transport of the ONE router under test ------------------------------
//
// The property owns the schedule. Send records what the router sends. Receive first announces
// "the reader is (again) inside Receive" on `entered` and then blocks until the property hands
// it the next message on `in`. The router's reader loop is strictly Receive -> deposit ->
// Receive, therefore the announcement that follows a handed-over message is an exact signal
// that this message has been deposited (or dropped) by the router.

type inMsg struct {
	from sharing.ID
	wire []byte
}

type sentMsg struct {
	to   sharing.ID
	wire []byte
}

type ctlDelivery struct {
	id      sharing.ID
	quorum  []sharing.ID
	in      chan inMsg
	entered chan struct{}

	mu       sync.Mutex
	sent     []sentMsg
	receives int // number of times the reader entered Receive
}

func newCtlDelivery(id sharing.ID, quorum []sharing.ID) *ctlDelivery {
	return &ctlDelivery{
		id:      id,
		quorum:  append([]sharing.ID(nil), quorum...),
		in:      make(chan inMsg),
		entered: make(chan struct{}, 1),
	}
}

func (d *ctlDelivery) PartyID() sharing.ID  { return d.id }
func (d *ctlDelivery) Quorum() []sharing.ID { return append([]sharing.ID(nil), d.quorum...) }

func (d *ctlDelivery) Send(_ context.Context, to sharing.ID, message []byte) error {
	d.mu.Lock()
	defer d.mu.Unlock()
	d.sent = append(d.sent, sentMsg{to: to, wire: append([]byte(nil), message...)})
	return nil
}

func (d *ctlDelivery) takeSent() []sentMsg {
	d.mu.Lock()
	defer d.mu.Unlock()
	out := d.sent
	d.sent = nil
	return out
}

func (d *ctlDelivery) Receive(ctx context.Context) (sharing.ID, []byte, error) {
	d.mu.Lock()
	d.receives++
	d.mu.Unlock()
	select {
	case d.entered <- struct{}{}:
	case <-ctx.Done():
		return 0, nil, ctx.Err()
	}
	select {
	case m := <-d.in:
		return m.from, m.wire, nil
	case <-ctx.Done():
		return 0, nil, ctx.Err()
	}
}

var _ network.Delivery = (*ctlDelivery)(nil)

// feeder is the property-side end of a ctlDelivery. Not safe for concurrent use: only the
// test goroutine calls it.
type feeder struct {
	d             *ctlDelivery
	readerWaiting bool // a token has been consumed: the reader sits in Receive waiting for `in`
	bound         time.Duration
}

// deposit hands one message to the reader and returns once the reader is back in Receive, i.e.
// once the router has filed (or dropped) the message. An error means the reader did not show up.
func (f *feeder) deposit(from sharing.ID, wire []byte) error {
	if !f.readerWaiting {
		if !waitToken(f.d.entered, f.bound) {
			return fmt.Errorf("the router's reader never called Delivery.Receive (waited %v)", f.bound)
		}
		f.readerWaiting = true
	}
	msg := inMsg{from: from, wire: append([]byte(nil), wire...)}
	select {
	case f.d.in <- msg:
	default:
		tm := time.NewTimer(f.bound)
		select {
		case f.d.in <- msg:
			tm.Stop()
		case <-tm.C:
			return fmt.Errorf("the router's reader announced Receive but never took the message (waited %v)", f.bound)
		}
	}
	f.readerWaiting = false
	if !waitToken(f.d.entered, f.bound) {
		return fmt.Errorf("the router's reader did not come back to Delivery.Receive after a message (reader stopped; waited %v)", f.bound)
	}
	f.readerWaiting = true
	return nil
}

func waitToken(c <-chan struct{}, bound time.Duration) bool {
	select {
	case <-c:
		return true
	default:
	}
	tm := time.NewTimer(bound)
	defer tm.Stop()
	select {
	case <-c:
		return true
	case <-tm.C:
		return false
	}
}

// ---- recDelivery: transport of a peer router, only records what the peer sends --------------

type recDelivery struct {
	id     sharing.ID
	quorum []sharing.ID
	mu     sync.Mutex
	sent   []sentMsg
}

func (d *recDelivery) PartyID() sharing.ID  { return d.id }
func (d *recDelivery) Quorum() []sharing.ID { return append([]sharing.ID(nil), d.quorum...) }
func (d *recDelivery) Send(_ context.Context, to sharing.ID, message []byte) error {
	d.mu.Lock()
	defer d.mu.Unlock()
	d.sent = append(d.sent, sentMsg{to: to, wire: append([]byte(nil), message...)})
	return nil
}
func (d *recDelivery) Receive(ctx context.Context) (sharing.ID, []byte, error) {
	<-ctx.Done()
	return 0, nil, ctx.Err()
}
func (d *recDelivery) takeSent() []sentMsg {
	d.mu.Lock()
	defer d.mu.Unlock()
	out := d.sent
	d.sent = nil
	return out
}

// ---- hang bound ------------------------------------------------------------------------------

var (
	boundOnce sync.Once
	hangBound time.Duration
	honestMax time.Duration
)

// bound returns the time a receive whose messages have all been deposited may take before it
// is reported as a lost wake-up: at least 30 s and at least 200 x the slowest of 200 honest
// deliver-then-complete cycles measured on this machine in this process.
func bound() time.Duration {
	boundOnce.Do(func() {
		members := []sharing.ID{1, 2}
		d := newCtlDelivery(1, members)
		rt := network.NewRouter(d)
		defer rt.Close()
		f := &feeder{d: d, bound: 60 * time.Second}
		hangBound = 30 * time.Second
		for i := 0; i < 200; i++ {
			cid := fmt.Sprintf("calib%d", i)
			done := make(chan error, 1)
			go func() {
				_, err := rt.ReceiveFrom(context.Background(), cid, 2)
				done <- err
			}()
			start := time.Now()
			if err := f.deposit(2, encodeWire(0, cid, []byte("x"))); err != nil {
				return // the properties themselves will report this
			}
			tm := time.NewTimer(30 * time.Second)
			select {
			case <-done:
				tm.Stop()
			case <-tm.C:
				return // a hang during calibration: leave the floor; the properties report it
			}
			if el := time.Since(start); el > honestMax {
				honestMax = el
			}
		}
		if r := 200 * honestMax; r > hangBound {
			hangBound = r
		}
	})
	return hangBound
}

// hangSeen is set once a wait has reached the full bound in this process (the violation is
// established). The re-runs rapid then makes of the same failing case (reproduction, shrinking,
// output capture) wait max(5 s, 200 x slowest honest receive) instead of the full bound, so that
// a genuine hang is reported in minutes rather than hours. A fresh process (a replay) starts
// with the full bound again.
var hangSeen atomic.Bool

func waitBound() time.Duration {
	full := bound()
	if !hangSeen.Load() {
		return full
	}
	short := 5 * time.Second
	if r := 200 * honestMax; r > short {
		short = r
	}
	if short > full {
		short = full
	}
	return short
}

// hardBound is the same idea for whole protocol runs on the shared switch.
func hardBound(first, later time.Duration) time.Duration {
	if hangSeen.Load() {
		return later
	}
	return first
}
