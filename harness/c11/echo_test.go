package c11

import (
	"bytes"
	"context"
	"crypto/sha3"
	"encoding/binary"
	"fmt"
	"sort"
	"sync"
	"testing"
	"time"

	"github.com/fxamacker/cbor/v2"
	"pgregory.net/rapid"

	"github.com/bronlabs/bron-crypto/pkg/mpc/sharing"
	"github.com/bronlabs/bron-crypto/pkg/network"
	"github.com/bronlabs/bron-crypto/pkg/network/echo"
	"verif/harness/vlib"
	"verif/harness/vlib/netsim"
	"verif/harness/vlib/proto"
)

// ---- the broadcast message type ---------------------------------------------------------------

type bpart struct{}

type bmsg struct {
	Data []byte `cbor:"data"`
}

func (m bmsg) Validate(*bpart, sharing.ID) error { return nil }

type echoOut = network.RoundMessages[bmsg, *bpart]

// exchangeRunner drives echo.ExchangeEchoBroadcast (on a namespaced view if ns != "").
type exchangeRunner struct {
	cid    string
	ns     string
	quorum network.Quorum
	msg    bmsg
}

func (r *exchangeRunner) Run(ctx context.Context, rt *network.Router, _ network.NotificationCallback) (echoOut, error) {
	if r.ns != "" {
		rt = rt.Namespaced(r.ns)
	}
	return echo.ExchangeEchoBroadcast[bmsg, *bpart](ctx, rt, r.cid, r.quorum, r.msg)
}

// nsRunner runs any runner on a namespaced view of the router.
type nsRunner[O any] struct {
	ns string
	r  network.Runner[O]
}

func (r nsRunner[O]) Run(ctx context.Context, rt *network.Router, cb network.NotificationCallback) (O, error) {
	if r.ns != "" {
		rt = rt.Namespaced(r.ns)
	}
	return r.r.Run(ctx, rt, cb)
}

// ---- drawn schedules: a seeded stream read under a mutex from the switch's goroutines ---------

type sched struct {
	mu   sync.Mutex
	prng *vlib.PRNG
	// counters for the evidence
	dups, reorders int
}

func newSched(seed uint64, label string) *sched { return &sched{prng: vlib.NewPRNG(seed, label)} }

func (s *sched) intn(n int) int {
	s.mu.Lock()
	defer s.mu.Unlock()
	var b [8]byte
	_, _ = s.prng.Read(b[:])
	return int(binary.BigEndian.Uint64(b[:]) % uint64(n))
}

func (s *sched) shuffle(_ sharing.ID, qlen int) int {
	i := s.intn(qlen)
	if i != 0 {
		s.mu.Lock()
		s.reorders++
		s.mu.Unlock()
	}
	return i
}

func (s *sched) counts() (int, int) {
	s.mu.Lock()
	defer s.mu.Unlock()
	return s.dups, s.reorders
}

// dupInterceptor re-sends identical copies of messages with probability pct/100: immediately,
// and (half of the time) once more attached to a later message for the same recipient.
func dupInterceptor(s *sched, pct int, inner netsim.Interceptor) netsim.Interceptor {
	var mu sync.Mutex
	late := map[sharing.ID][]*netsim.Msg{}
	return func(m *netsim.Msg) []*netsim.Msg {
		out := []*netsim.Msg{m}
		if inner != nil {
			out = inner(m)
		}
		if pct == 0 {
			return out
		}
		var extra []*netsim.Msg
		for _, o := range out {
			if s.intn(100) < pct {
				extra = append(extra, o.Clone())
				s.mu.Lock()
				s.dups++
				s.mu.Unlock()
				if s.intn(2) == 0 {
					mu.Lock()
					late[o.To] = append(late[o.To], o.Clone())
					mu.Unlock()
				}
			}
		}
		mu.Lock()
		if l := late[m.To]; len(l) > 0 && s.intn(3) == 0 {
			extra = append(extra, l[0])
			late[m.To] = l[1:]
			s.mu.Lock()
			s.dups++
			s.mu.Unlock()
		}
		mu.Unlock()
		return append(out, extra...)
	}
}

// ---- the equivocating sender -------------------------------------------------------------------

type echo2Body struct {
	EchoHashes map[uint64][32]byte `cbor:"echoHashes"`
}

func encBmsg(data []byte) []byte {
	b, err := detEnc.Marshal(bmsg{Data: data})
	if err != nil {
		panic(err)
	}
	return b
}

type equivocation struct {
	who        sharing.ID
	variant    map[sharing.ID]int // round-1 payload variant per recipient (0 = what the runner sent)
	bodies     [][]byte           // variant -> round-1 body (CBOR of the broadcast message, or garbage)
	conflictTo map[sharing.ID]int // recipients that additionally get a second, different round-1 message (variant)
	echoAlter  map[sharing.ID]echoAlter
}

type echoAlter struct {
	about sharing.ID
	mode  int // 0: hash of another variant, 1: zero hash, 2: entry removed
	hash  [32]byte
}

func (e *equivocation) interceptor() netsim.Interceptor {
	return func(m *netsim.Msg) []*netsim.Msg {
		if m.From != e.who {
			return []*netsim.Msg{m}
		}
		switch m.Kind {
		case netsim.Echo1:
			out := []*netsim.Msg{m}
			if v := e.variant[m.To]; v != 0 {
				m.Body = append([]byte(nil), e.bodies[v]...)
			}
			if v, ok := e.conflictTo[m.To]; ok {
				c := m.Clone()
				c.Body = append([]byte(nil), e.bodies[v]...)
				out = append(out, c)
			}
			return out
		case netsim.Echo2:
			alt, ok := e.echoAlter[m.To]
			if !ok {
				return []*netsim.Msg{m}
			}
			var b echo2Body
			if err := cbor.Unmarshal(m.Body, &b); err != nil {
				return []*netsim.Msg{m}
			}
			switch alt.mode {
			case 0:
				b.EchoHashes[uint64(alt.about)] = alt.hash
			case 1:
				b.EchoHashes[uint64(alt.about)] = [32]byte{}
			default:
				delete(b.EchoHashes, uint64(alt.about))
			}
			nb, err := detEnc.Marshal(b)
			if err != nil {
				panic(err)
			}
			m.Body = nb
			return []*netsim.Msg{m}
		}
		return []*netsim.Msg{m}
	}
}

var echoIDPool = []sharing.ID{1, 2, 3, 4, 5, 6, 9, 1 << 20, 1 << 63}

func TestEchoBroadcast(t *testing.T) {
	const test = "EchoBroadcast"
	vlib.Check(t, 1600, func(t *rapid.T) {
		n := rapid.SampledFrom([]int{3, 3, 4, 4, 5, 5, 5}).Draw(t, "n")
		idx := rapid.SliceOfNDistinct(rapid.IntRange(0, len(echoIDPool)-1), n, n, rapid.ID[int]).Draw(t, "ids")
		var ids []sharing.ID
		for _, i := range idx {
			ids = append(ids, echoIDPool[i])
		}
		ids = proto.SortedIDs(ids)
		quorum := proto.SetOf(ids...)
		api := rapid.SampledFrom([]string{"runner", "exchange", "exchange-ns"}).Draw(t, "api")
		cid := rapid.SampledFrom([]string{"bc", "a", "round1BROADCAST:", ""}).Draw(t, "cid")
		seed := rapid.Uint64().Draw(t, "scheduleSeed")
		shuffle := rapid.Bool().Draw(t, "shuffle")
		dupPct := rapid.SampledFrom([]int{0, 0, 15, 40}).Draw(t, "dupPct")
		equivocate := rapid.IntRange(0, 3).Draw(t, "equivocate") != 0

		sent := map[sharing.ID][]byte{}
		for _, id := range ids {
			sent[id] = []byte(fmt.Sprintf("broadcast of %d / %d", id, seed%1000))
		}
		if rapid.IntRange(0, 7).Draw(t, "emptyPayload") == 0 {
			sent[ids[0]] = []byte{}
		}
		if rapid.IntRange(0, 7).Draw(t, "equalPayloads") == 0 {
			sent[ids[1]] = sent[ids[0]]
		}

		var eq *equivocation
		pattern, echoMode := "none", "none"
		if equivocate {
			eq = &equivocation{who: ids[rapid.IntRange(0, n-1).Draw(t, "equivocator")], variant: map[sharing.ID]int{}, conflictTo: map[sharing.ID]int{}, echoAlter: map[sharing.ID]echoAlter{}}
			eq.bodies = [][]byte{nil,
				encBmsg(append(append([]byte(nil), sent[eq.who]...), " (other version)"...)),
				encBmsg([]byte("third version")),
				{0xff, 0x00}, // not CBOR
			}
			var counts [4]int
			var others []sharing.ID
			for _, id := range ids {
				if id != eq.who {
					others = append(others, id)
				}
			}
			others = rapid.Permutation(others).Draw(t, "recipientOrder")
			style := rapid.SampledFrom([]string{"coin", "coin", "halves", "halves", "mixed", "outlier"}).Draw(t, "split")
			withConflicts := rapid.IntRange(0, 3).Draw(t, "withConflicts") == 0
			withEchoes := rapid.IntRange(0, 3).Draw(t, "withAlteredEchoes") == 0
			for i, id := range others {
				v := 0
				switch style {
				case "coin":
					v = rapid.IntRange(0, 1).Draw(t, "variant")
				case "halves":
					if i >= len(others)/2 {
						v = 1
					}
				case "mixed":
					v = rapid.SampledFrom([]int{0, 0, 1, 1, 2, 3}).Draw(t, "variant")
				default:
					if i == 0 {
						v = rapid.SampledFrom([]int{1, 1, 3}).Draw(t, "variant")
					}
				}
				eq.variant[id] = v
				counts[v]++
				if withConflicts && rapid.IntRange(0, 3).Draw(t, "conflictingRetransmission") == 0 {
					eq.conflictTo[id] = (v + 1) % 3
				}
				if withEchoes && rapid.IntRange(0, 1).Draw(t, "alterEcho") == 0 {
					about := ids[rapid.IntRange(0, n-1).Draw(t, "about")]
					mode := rapid.IntRange(0, 2).Draw(t, "echoMode")
					eq.echoAlter[id] = echoAlter{about: about, mode: mode, hash: sha3.Sum256(eq.bodies[1])}
					echoMode = "altered"
				}
			}
			sort.Sort(sort.Reverse(sort.IntSlice(counts[:3])))
			pattern = fmt.Sprintf("%d-%d-%d/garbage=%d/conflicts=%d", counts[0], counts[1], counts[2], counts[3], len(eq.conflictTo))
		}

		sc := newSched(seed, "echo")
		net := netsim.New(ids)
		if shuffle {
			net.SetShuffle(sc.shuffle)
		}
		var inner netsim.Interceptor
		if eq != nil {
			inner = eq.interceptor()
		}
		net.SetInterceptor(dupInterceptor(sc, dupPct, inner))

		runners := map[sharing.ID]network.Runner[echoOut]{}
		for _, id := range ids {
			switch api {
			case "runner":
				r, err := echo.NewEchoBroadcastRunner[bmsg, *bpart](id, quorum, cid, bmsg{Data: sent[id]})
				if err != nil {
					t.Fatalf("NewEchoBroadcastRunner(%d, %v): %v", id, ids, err)
				}
				runners[id] = r
			case "exchange":
				runners[id] = &exchangeRunner{cid: cid, quorum: quorum, msg: bmsg{Data: sent[id]}}
			default:
				runners[id] = &exchangeRunner{cid: cid, ns: "session-7", quorum: quorum, msg: bmsg{Data: sent[id]}}
			}
		}
		opt := netsim.Options{Idle: hardBound(30*time.Second, 5*time.Second), Hard: hardBound(45*time.Second, 10*time.Second)}
		if eq != nil {
			// a party that aborts early (conflicting retransmission) leaves the others waiting for its
			// echo: they are cancelled once the network is idle and give no verdict
			opt.Idle = 500 * time.Millisecond
		}
		res, oc := netsim.RunAll(net, runners, opt)
		what := fmt.Sprintf("n=%d ids=%v api=%s cid=%q shuffle=%v dupPct=%d scheduleSeed=%d equivocation=%+v", n, ids, api, cid, shuffle, dupPct, seed, eq)
		if oc.HardStop {
			hangSeen.Store(true)
			t.Fatalf("echo broadcast did not terminate within %v (%s)", opt.Hard, what)
		}
		returned := 0
		for _, id := range ids {
			r := res[id]
			if r.Panic != nil {
				t.Fatalf("party %d panicked: %v\n%s\n(%s)", id, r.Panic, r.Stack, what)
			}
			if eq != nil && id == eq.who {
				continue
			}
			if eq == nil {
				if r.Err != nil || r.Cancelled {
					t.Fatalf("honest-only echo broadcast: party %d failed (cancelled=%v): %v (%s)", id, r.Cancelled, r.Err, what)
				}
			}
			if r.Err != nil {
				continue
			}
			returned++
			if r.Out.Size() != n-1 {
				t.Fatalf("party %d returned %d payloads, the quorum has %d other parties (%s)", id, r.Out.Size(), n-1, what)
			}
			for _, s := range ids {
				if s == id {
					if _, ok := r.Out.Get(s); ok {
						t.Fatalf("party %d returned a payload from itself (%s)", id, what)
					}
					continue
				}
				got, ok := r.Out.Get(s)
				if !ok {
					t.Fatalf("party %d returned no payload for sender %d (%s)", id, s, what)
				}
				if eq == nil || s != eq.who {
					if !bytes.Equal(got.Data, sent[s]) {
						t.Fatalf("party %d returned %q for the honest sender %d, who broadcast %q (%s)", id, got.Data, s, sent[s], what)
					}
				}
			}
		}
		// consistency: no two honest parties return different payloads for the same sender
		for i, a := range ids {
			for _, b := range ids[i+1:] {
				ra, rb := res[a], res[b]
				if eq != nil && (a == eq.who || b == eq.who) {
					continue
				}
				if ra.Err != nil || rb.Err != nil {
					continue
				}
				for _, s := range ids {
					if s == a || s == b {
						continue
					}
					pa, _ := ra.Out.Get(s)
					pb, _ := rb.Out.Get(s)
					if !bytes.Equal(pa.Data, pb.Data) {
						t.Fatalf("BROADCAST INCONSISTENT: honest parties %d and %d returned different payloads for sender %d: %q vs %q (%s)", a, b, s, pa.Data, pb.Data, what)
					}
				}
			}
		}
		dups, reorders := sc.counts()
		nt := eq != nil || dups > 0 || reorders > 0
		vlib.Case(test, vlib.Desc(n, api, pattern, echoMode, shuffle, dupPct > 0), nt,
			fmt.Sprintf("n=%d", n), "api="+api, "equivocation="+pattern, "echo="+echoMode, fmt.Sprintf("shuffle=%v", shuffle), fmt.Sprintf("dupPct=%d", dupPct),
			fmt.Sprintf("honestReturned=%d/%d", returned, n-btoi(eq != nil)), fmt.Sprintf("equivocator=%v", eq != nil), fmt.Sprintf("reordered=%v", reorders > 0), fmt.Sprintf("duplicated=%v", dups > 0))
		if eq != nil {
			vlib.Sample("echo-equivocation", map[string]any{"ids": fmt.Sprint(ids), "equivocator": uint64(eq.who), "variants": fmt.Sprint(eq.variant), "conflicts": fmt.Sprint(eq.conflictTo), "honestReturned": returned})
		}
	})
}

func btoi(b bool) int {
	if b {
		return 1
	}
	return 0
}
