package c11

import (
	"bytes"
	"fmt"
	"math/big"
	"testing"
	"time"

	"pgregory.net/rapid"

	"github.com/bronlabs/bron-crypto/pkg/mpc/aor"
	"github.com/bronlabs/bron-crypto/pkg/mpc/session"
	"github.com/bronlabs/bron-crypto/pkg/network"
	"github.com/bronlabs/bron-crypto/pkg/proofs/sigma/compiler/fiatshamir"
	"github.com/bronlabs/bron-crypto/pkg/transcripts/hagrid"
	"verif/harness/vlib"
	"verif/harness/vlib/netsim"
	"verif/harness/vlib/policy"
	"verif/harness/vlib/proto"
)

// checkKeyMaterial is the C03 output oracle (copied from harness/c03): all holders hold the
// same public material, every private share lifts to its published public share, exactly the
// qualified sets reconstruct the discrete logarithm of the public key, shards survive storage.
func checkKeyMaterial(t *rapid.T, g proto.Group, p *policy.Policy, ids []uint64, shards map[proto.ID]any, what string) (pk []byte) {
	holders := proto.ToIDs(ids)
	infos := map[proto.ID]*proto.ShardInfo{}
	for _, id := range holders {
		sh, ok := shards[id]
		if !ok {
			t.Fatalf("%s: no shard for holder %d", what, id)
		}
		info, err := g.Info(sh)
		if err != nil {
			t.Fatalf("%s: reading shard of %d: %v", what, id, err)
		}
		if info.Holder != id {
			t.Fatalf("%s: shard of %d carries id %d", what, id, info.Holder)
		}
		infos[id] = info
	}
	ref := infos[holders[0]]
	for _, id := range holders[1:] {
		in := infos[id]
		if !bytes.Equal(in.PK, ref.PK) {
			t.Fatalf("%s: parties %d and %d hold different public keys", what, holders[0], id)
		}
		if fmt.Sprint(in.VV) != fmt.Sprint(ref.VV) {
			t.Fatalf("%s: parties %d and %d hold different verification vectors", what, holders[0], id)
		}
		if fmt.Sprint(in.MSPRows) != fmt.Sprint(ref.MSPRows) || fmt.Sprint(in.RowOwner) != fmt.Sprint(ref.RowOwner) {
			t.Fatalf("%s: parties %d and %d hold different span programmes", what, holders[0], id)
		}
		if fmt.Sprint(in.PKShares) != fmt.Sprint(ref.PKShares) {
			t.Fatalf("%s: parties %d and %d hold different public key shares", what, holders[0], id)
		}
	}
	for _, id := range holders {
		ok, err := g.LiftedShareMatches(shards[id])
		if err != nil || !ok {
			t.Fatalf("%s: private share of %d does not lift to its published public share (err=%v)", what, id, err)
		}
	}
	var secret *big.Int
	for set := uint64(1); set <= p.Full(); set++ {
		var sub []any
		var subIDs []proto.ID
		for _, i := range policy.Members(set) {
			sub = append(sub, shards[holders[i]])
			subIDs = append(subIDs, holders[i])
		}
		s, err := g.Reconstruct(sub)
		pkx, errx := g.ReconstructInExponent(shards[holders[0]], subIDs)
		if p.Qualified(set) {
			if err != nil {
				t.Fatalf("%s: qualified set %v of %s cannot reconstruct: %v", what, subIDs, p, err)
			}
			if secret == nil {
				secret = s
				if !bytes.Equal(g.Lift(s), ref.PK) {
					t.Fatalf("%s: reconstructed secret is not the discrete logarithm of the public key (%s, set %v)", what, p, subIDs)
				}
			} else if s.Cmp(secret) != 0 {
				t.Fatalf("%s: qualified sets reconstruct different secrets (%s, set %v)", what, p, subIDs)
			}
			if errx != nil || !bytes.Equal(pkx, ref.PK) {
				t.Fatalf("%s: reconstruction in the exponent over %v does not give the public key (err=%v)", what, subIDs, errx)
			}
		} else {
			if err == nil {
				t.Fatalf("%s: unqualified set %v of %s reconstructed a value", what, subIDs, p)
			}
			if errx == nil {
				t.Fatalf("%s: unqualified set %v of %s reconstructed in the exponent", what, subIDs, p)
			}
		}
	}
	for _, id := range holders {
		re, err := g.Reload(shards[id])
		if err != nil {
			t.Fatalf("%s: shard of %d does not survive encode/decode: %v", what, id, err)
		}
		in2, err := g.Info(re)
		if err != nil {
			t.Fatalf("%s: reloaded shard of %d unreadable: %v", what, id, err)
		}
		in := infos[id]
		if !bytes.Equal(in2.CBOR, in.CBOR) || fmt.Sprint(in2.Share) != fmt.Sprint(in.Share) || !bytes.Equal(in2.PK, in.PK) {
			t.Fatalf("%s: shard of %d changed by encode/decode", what, id)
		}
	}
	return ref.PK
}

type runCfg struct {
	proto   string
	ids     []uint64
	p       *policy.Policy
	seed    uint64
	shuffle bool
	dupPct  int
	ns      string
}

// runProtocol executes one protocol through its runners over routers on the shared switch,
// with the configured delivery permutation and identical retransmissions, and judges the outputs.
func runProtocol(t *rapid.T, c runCfg) (dups, reorders int) {
	holders := proto.ToIDs(c.ids)
	quorum := proto.SetOf(holders...)
	g := proto.GroupByName("k256")
	what := fmt.Sprintf("%s ids=%v policy=%s seed=%d shuffle=%v dupPct=%d ns=%q", c.proto, c.ids, c.p, c.seed, c.shuffle, c.dupPct, c.ns)
	runners := map[proto.ID]network.Runner[any]{}
	var ctxs map[proto.ID]*session.Context
	var err error
	if c.proto == "gennaro" || c.proto == "canetti" {
		if ctxs, err = proto.Contexts(holders, c.seed, "c11"); err != nil {
			t.Fatalf("contexts: %v", err)
		}
	}
	ac, err := policy.Build(c.p, c.ids)
	if err != nil {
		t.Fatalf("building %s: %v", c.p, err)
	}
	const sampleSize = 32
	for _, id := range holders {
		prng := proto.PartyPRNG(c.seed, c.proto, id)
		var r network.Runner[any]
		switch c.proto {
		case "session":
			r, err = proto.Erase(session.NewSessionRunner(id, quorum, prng))
		case "aor":
			r, err = proto.Erase(aor.NewAgreeOnRandomRunner(id, quorum, sampleSize, hagrid.NewTranscript("c11-aor"), prng))
		case "gennaro":
			r, err = g.GennaroRunner(ctxs[id], ac, fiatshamir.Name, prng)
		case "canetti":
			r, err = g.CanettiRunner(ctxs[id], ac, prng)
		}
		if err != nil {
			t.Fatalf("constructing the runner of %d (%s): %v", id, what, err)
		}
		runners[id] = nsRunner[any]{ns: c.ns, r: r}
	}
	sc := newSched(c.seed, "runners")
	net := netsim.New(holders)
	if c.shuffle {
		net.SetShuffle(sc.shuffle)
	}
	net.SetInterceptor(dupInterceptor(sc, c.dupPct, nil))
	res, oc := netsim.RunAll(net, runners, netsim.Options{Idle: hardBound(60*time.Second, 5*time.Second), Hard: hardBound(2*time.Minute, 20*time.Second)})
	if oc.HardStop {
		hangSeen.Store(true)
		t.Fatalf("did not terminate within the hard bound (%s)", what)
	}
	outs := map[proto.ID]any{}
	for _, id := range holders {
		r := res[id]
		if r.Panic != nil {
			t.Fatalf("party %d panicked: %v\n%s\n(%s)", id, r.Panic, r.Stack, what)
		}
		if r.Err != nil || r.Cancelled {
			hangSeen.Store(r.Cancelled || hangSeen.Load())
			t.Fatalf("party %d did not complete under reordering / identical retransmission (cancelled=%v): %v (%s)", id, r.Cancelled, r.Err, what)
		}
		outs[id] = r.Out
	}
	switch c.proto {
	case "session":
		var ref *session.Context
		for _, id := range holders {
			sctx, ok := outs[id].(*session.Context)
			if !ok || sctx == nil {
				t.Fatalf("party %d returned %T (%s)", id, outs[id], what)
			}
			if sctx.HolderID() != id {
				t.Fatalf("session context of %d carries holder id %d (%s)", id, sctx.HolderID(), what)
			}
			if !sctx.Quorum().Equal(quorum) {
				t.Fatalf("session context of %d has quorum %v (%s)", id, sctx.Quorum().List(), what)
			}
			if ref == nil {
				ref = sctx
			} else if sctx.SessionID() != ref.SessionID() {
				t.Fatalf("parties %d and %d derived different session ids (%s)", holders[0], id, what)
			}
		}
		if ref.SessionID() == (network.SID{}) {
			t.Fatalf("all-zero session id (%s)", what)
		}
	case "aor":
		var ref []byte
		for _, id := range holders {
			b, ok := outs[id].([]byte)
			if !ok || len(b) != sampleSize {
				t.Fatalf("party %d returned %T of length %d, want %d bytes (%s)", id, outs[id], len(b), sampleSize, what)
			}
			if ref == nil {
				ref = b
			} else if !bytes.Equal(ref, b) {
				t.Fatalf("parties %d and %d agreed on different random values (%s)", holders[0], id, what)
			}
		}
	default:
		checkKeyMaterial(t, g, c.p, c.ids, outs, what)
	}
	return sc.counts()
}

func TestRunnersUnderReordering(t *testing.T) {
	const test = "RunnersUnderReordering"
	vlib.Check(t, 40, func(t *rapid.T) {
		c := runCfg{}
		c.proto = rapid.SampledFrom([]string{"session", "aor", "gennaro", "canetti"}).Draw(t, "protocol")
		n := rapid.IntRange(2, 4).Draw(t, "n")
		c.p = &policy.Policy{Family: policy.Threshold, N: n, T: rapid.IntRange(2, n).Draw(t, "t")}
		if rapid.Bool().Draw(t, "sparseIDs") {
			for _, i := range rapid.SliceOfNDistinct(rapid.IntRange(1, 40), n, n, rapid.ID[int]).Draw(t, "ids") {
				c.ids = append(c.ids, uint64(i))
			}
		} else {
			for i := 1; i <= n; i++ {
				c.ids = append(c.ids, uint64(i))
			}
		}
		c.seed = rapid.Uint64().Draw(t, "seed")
		c.shuffle = true
		c.dupPct = rapid.SampledFrom([]int{10, 30, 60}).Draw(t, "dupPct")
		c.ns = rapid.SampledFrom([]string{"", "", "run-1"}).Draw(t, "namespace")
		plain := rapid.IntRange(0, 4).Draw(t, "alsoPlain") == 0
		if plain {
			// the same protocol with in-order delivery and no retransmission: the reference for "as consistent as"
			pc := c
			pc.shuffle, pc.dupPct = false, 0
			runProtocol(t, pc)
			vlib.Class(test, "plain-reference-run")
		}
		dups, reorders := runProtocol(t, c)
		nt := dups > 0 || reorders > 0
		vlib.Case(test, vlib.Desc(c.proto, n, c.p.T, c.dupPct, c.ns != ""), nt, "protocol="+c.proto, fmt.Sprintf("n=%d", n),
			fmt.Sprintf("dupPct=%d", c.dupPct), "ns="+c.ns, fmt.Sprintf("duplicated=%v", dups > 0), fmt.Sprintf("reordered=%v", reorders > 0))
		vlib.Sample("runner:"+c.proto, map[string]any{"protocol": c.proto, "ids": c.ids, "policy": c.p.String(), "duplicates": dups, "reorderedDeliveries": reorders})
	})
}
