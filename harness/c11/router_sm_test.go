package c11

import (
	"bytes"
	"context"
	"errors"
	"flag"
	"fmt"
	"math"
	"runtime"
	"sort"
	"strings"
	"sync"
	"sync/atomic"
	"testing"
	"time"

	"pgregory.net/rapid"

	"github.com/bronlabs/bron-crypto/pkg/base"
	"github.com/bronlabs/bron-crypto/pkg/mpc/sharing"
	"github.com/bronlabs/bron-crypto/pkg/network"
	"verif/harness/vlib"
)

// ---- exchanges: (namespace chain, correlation id) -------------------------------------------
//
// The model identifies an exchange by its COMPONENTS, never by a concatenation, so that it
// is independent of how the router joins namespaces and ids. No honest component contains
// the reserved separator "/". Most entries concatenate to the same string when the separator
// is left out ("abc", "a:b:c"), several are prefixes of each other.

type exch struct {
	chain []string
	cid   string
}

func (e exch) key() string {
	return strings.Join(append(append([]string{}, e.chain...), e.cid), "\x1f") + "\x1e" + fmt.Sprint(len(e.chain))
}

func (e exch) String() string {
	var b strings.Builder
	for _, ns := range e.chain {
		fmt.Fprintf(&b, "ns(%q).", ns)
	}
	fmt.Fprintf(&b, "cid(%q)", e.cid)
	return b.String()
}

var alphabet = []exch{
	{nil, "abc"}, {nil, "ab"}, {nil, "a"}, {nil, ""},
	{[]string{"a"}, "bc"}, {[]string{"ab"}, "c"}, {[]string{"a", "b"}, "c"}, {[]string{"a"}, "b"},
	{[]string{"abc"}, ""}, {[]string{""}, "abc"}, {[]string{"a", "bc"}, ""}, {[]string{"", "a"}, "bc"},
	{[]string{"a"}, ""}, {[]string{"a", ""}, ""}, {[]string{""}, ""},
	{[]string{"a"}, "b:c"}, {[]string{"a:b"}, "c"}, {nil, "a:b:c"}, {[]string{"a:"}, "b:c"}, {[]string{"a", "b"}, ":c"},
}

var idPool = []sharing.ID{1, 2, 3, 4, 5, 6, 7, 8, 1 << 32, 1 << 63, math.MaxUint64}

func viewOf(rt *network.Router, chain []string) *network.Router {
	for _, ns := range chain {
		rt = rt.Namespaced(ns)
	}
	return rt
}

// observedWire returns, for every exchange of the alphabet, the correlation id a router puts
// on the wire for it (observed from a scratch router's transport, not computed).
var (
	obsOnce sync.Once
	obsWire map[string]string
)

func observedWire() map[string]string {
	obsOnce.Do(func() {
		d := &recDelivery{id: 1, quorum: []sharing.ID{1, 2}}
		rt := network.NewRouter(d)
		obsWire = map[string]string{}
		for _, e := range alphabet {
			if err := viewOf(rt, e.chain).SendTo(context.Background(), e.cid, map[sharing.ID][]byte{2: []byte("probe")}); err != nil {
				panic(err)
			}
			s := d.takeSent()
			w, err := decodeWire(s[0].wire)
			if err != nil {
				panic(err)
			}
			obsWire[e.key()] = w.CorrelationID
		}
	})
	return obsWire
}

// TestWireIDsDistinct: every two distinct honest exchanges of the alphabet travel under
// different wire correlation ids (otherwise a receive of one returns payloads of the other).
func TestWireIDsDistinct(t *testing.T) {
	const test = "WireIDsDistinct"
	w := observedWire()
	i := 0
	for a := range alphabet {
		for b := a + 1; b < len(alphabet); b++ {
			i++
			if !vlib.Mine(i) {
				continue
			}
			ea, eb := alphabet[a], alphabet[b]
			if w[ea.key()] == w[eb.key()] {
				t.Fatalf("exchanges %s and %s share the wire correlation id %q: a receive for one returns payloads sent under the other", ea, eb, w[ea.key()])
			}
			vlib.Case(test, vlib.Desc(ea, eb), true, "pair")
		}
	}
	vlib.Exhaustive(fmt.Sprintf("all %d pairs of the %d-exchange alphabet of namespace chains / correlation ids: distinct wire ids", len(alphabet)*(len(alphabet)-1)/2, len(alphabet)))
}

// ---- model ----------------------------------------------------------------------------------

type wmsg struct {
	n       int
	from    sharing.ID
	wire    []byte
	kind    string
	key     string // model mailbox; "" = a correlation id nobody ever receives
	payload []byte
	member  bool
	wirecid string
}

func (m *wmsg) String() string {
	return fmt.Sprintf("#%d[%s from=%d wirecid=%q payload=%q]", m.n, m.kind, m.from, m.wirecid, m.payload)
}

type recvRes struct {
	m   map[sharing.ID][]byte
	err error
}

const (
	rPending = iota
	rCancelled
	rDone
)

type recv struct {
	n      int
	ex     exch
	key    string
	froms  []sharing.ID
	state  int
	cancel context.CancelFunc
	res    chan recvRes
	tries  int
}

func (r *recv) String() string {
	return fmt.Sprintf("recv%d{%s froms=%v try=%d}", r.n, r.ex, r.froms, r.tries)
}

const (
	expNone = iota
	expComplete
	expPoison
)

type sm struct {
	t          *rapid.T
	members    []sharing.ID
	R          sharing.ID
	nonMembers []sharing.ID
	memberSet  map[sharing.ID]bool
	exchs      []exch

	d     *ctlDelivery
	f     *feeder
	root  *network.Router
	peers map[sharing.ID]*peerEnd
	bound time.Duration

	// model of the router's mailboxes
	slots    map[string]map[sharing.ID][]byte
	poison   map[string][]sharing.ID
	doneKeys map[string]bool
	sentBy   map[string]map[sharing.ID]bool
	wireOf   map[string]string
	keyOf    map[string]string

	pool      []*wmsg
	delivered []*wmsg
	queue     []*wmsg // released before the reader goroutine exists
	recvs     []*recv
	seq       int

	readerStarted bool
	closed        bool

	hist                                         []string
	kinds                                        []byte
	maxCids                                      int
	reorder, dup, conflict, cancelled            bool
	nComplete, nPoison, nCancel, nRetryOK, nRace int
}

type peerEnd struct {
	d  *recDelivery
	rt *network.Router
}

func (s *sm) log(kind byte, format string, args ...any) {
	s.hist = append(s.hist, fmt.Sprintf("%02d ", len(s.hist))+fmt.Sprintf(format, args...))
	s.kinds = append(s.kinds, kind)
}

func (s *sm) failf(format string, args ...any) {
	s.t.Helper()
	if strings.HasPrefix(format, "LOST WAKE-UP") || strings.HasPrefix(format, "deadlock") || strings.Contains(format, "%v; message %s") {
		hangSeen.Store(true)
	}
	var box []string
	for k, b := range s.slots {
		for from, p := range b {
			box = append(box, fmt.Sprintf("%q/%d=%q", k, from, p))
		}
	}
	sort.Strings(box)
	s.t.Fatalf("%s\nmembers=%v R=%d non-members=%v exchanges=%v\nmodel mailboxes: %v poison=%v\nhistory (%d actions):\n  %s",
		fmt.Sprintf(format, args...), s.members, s.R, s.nonMembers, s.exchs, box, s.poison, len(s.hist), strings.Join(s.hist, "\n  "))
}

var spinSink atomic.Uint64

func perturb(mode, n int) {
	switch mode {
	case 1:
		runtime.Gosched()
	case 2:
		x := uint64(0)
		for i := 0; i < n; i++ {
			x += uint64(i)
		}
		spinSink.Add(x)
	case 3:
		time.Sleep(time.Duration(n) * time.Microsecond) // schedule perturbation only, never a verdict
	}
}

func drawPerturb(t *rapid.T) (int, int) {
	return rapid.IntRange(0, 3).Draw(t, "perturb"), rapid.IntRange(1, 3000).Draw(t, "perturbN")
}

func (s *sm) noteWire(key, cid string) {
	if k2, ok := s.keyOf[cid]; ok && k2 != key {
		s.failf("cross-talk: two distinct exchanges travel under the same wire correlation id %q", cid)
	}
	s.keyOf[cid] = key
	s.wireOf[key] = cid
}

func (s *sm) cidsInFlight() {
	set := map[string]bool{}
	for _, m := range s.pool {
		if m.key != "" {
			set[m.key] = true
		}
	}
	for _, r := range s.recvs {
		if r.state == rPending {
			set[r.key] = true
		}
	}
	if len(set) > s.maxCids {
		s.maxCids = len(set)
	}
}

// ---- model transitions ------------------------------------------------------------------------

func (s *sm) wouldPoison(m *wmsg) bool {
	if !m.member || m.key == "" || s.doneKeys[m.key] {
		return false
	}
	ex, ok := s.slots[m.key][m.from]
	return ok && !bytes.Equal(ex, m.payload)
}

func (s *sm) modelDeposit(m *wmsg) {
	if !m.member || m.key == "" || s.doneKeys[m.key] {
		return
	}
	box := s.slots[m.key]
	if box == nil {
		box = map[sharing.ID][]byte{}
		s.slots[m.key] = box
	}
	if ex, ok := box[m.from]; ok {
		if !bytes.Equal(ex, m.payload) {
			s.poison[m.key] = append(s.poison[m.key], m.from)
		}
		return
	}
	box[m.from] = m.payload
}

func (s *sm) expect(r *recv) int {
	if len(s.poison[r.key]) > 0 {
		return expPoison
	}
	for _, from := range r.froms {
		if _, ok := s.slots[r.key][from]; !ok {
			return expNone
		}
	}
	return expComplete
}

// ---- physical steps ---------------------------------------------------------------------------

func (s *sm) physDeposit(m *wmsg, mode, n int) {
	perturb(mode, n)
	if err := s.f.deposit(m.from, m.wire); err != nil {
		s.failf("%v; message %s", err, m)
	}
	s.modelDeposit(m)
	s.delivered = append(s.delivered, m)
}

func (s *sm) await(r *recv) (recvRes, bool) {
	select {
	case res := <-r.res:
		return res, true
	default:
	}
	tm := time.NewTimer(s.bound)
	defer tm.Stop()
	select {
	case res := <-r.res:
		return res, true
	case <-tm.C:
		return recvRes{}, false
	}
}

func showRes(res recvRes) string {
	if res.err != nil {
		return fmt.Sprintf("error %v", res.err)
	}
	var parts []string
	for from, p := range res.m {
		parts = append(parts, fmt.Sprintf("%d:%q", from, p))
	}
	sort.Strings(parts)
	return "payloads {" + strings.Join(parts, " ") + "}"
}

// verify judges the result of a receive that the model says is completable and updates the model.
func (s *sm) verify(r *recv, res recvRes, exp int) {
	switch exp {
	case expPoison:
		if res.err == nil {
			s.failf("%s returned %s although sender(s) %v sent conflicting payloads under its correlation id", r, showRes(res), s.poison[r.key])
		}
		if !errors.Is(res.err, network.ErrDuplicateMessage) {
			s.failf("%s failed with %v, which is not ErrDuplicateMessage, although sender(s) %v sent conflicting payloads", r, res.err, s.poison[r.key])
		}
		ids := base.GetMaliciousIdentities[sharing.ID](res.err)
		ok := len(ids) == 1
		if ok {
			ok = false
			for _, p := range s.poison[r.key] {
				if p == ids[0] {
					ok = true
				}
			}
		}
		if !ok {
			s.failf("%s: the conflict error blames %v, the conflicting sender(s) are %v", r, ids, s.poison[r.key])
		}
		if len(res.m) != 0 {
			s.failf("%s failed with a conflict and still returned payloads %s", r, showRes(res))
		}
		s.nPoison++
	case expComplete:
		if res.err != nil {
			s.failf("%s failed with %v although every requested sender's message had been deposited and nobody conflicted", r, res.err)
		}
		if len(res.m) != len(r.froms) {
			s.failf("%s returned %d payloads for %d requested senders: %s", r, len(res.m), len(r.froms), showRes(res))
		}
		for _, from := range r.froms {
			got, ok := res.m[from]
			if !ok {
				s.failf("%s: no payload for requested sender %d: %s", r, from, showRes(res))
			}
			want := s.slots[r.key][from]
			if !bytes.Equal(got, want) {
				s.failf("%s: payload for sender %d is %q, the first payload that sender delivered under this exchange is %q", r, from, got, want)
			}
		}
		for _, from := range r.froms {
			delete(s.slots[r.key], from)
		}
		s.nComplete++
	default:
		panic("verify without expectation")
	}
	s.doneKeys[r.key] = true
	r.state = rDone
}

// settle: every pending receive the model calls completable must complete within the bound
// (no lost wake-up) with the modelled result; every other pending receive must still be pending
// (checked when it is cancelled, closed, completed or at the end of the history).
func (s *sm) settle() {
	for _, r := range s.recvs {
		if r.state != rPending {
			continue
		}
		exp := s.expect(r)
		if exp == expNone {
			// Must still be pending. Not polled here: whether a wrong early return has already
			// arrived would depend on timing and make the failure irreproducible; it is found
			// at the next deterministic point (completion, cancel, close or the final phase),
			// where the stale result is compared with what the model expects then.
			continue
		}
		res, ok := s.await(r)
		if !ok {
			s.failf("LOST WAKE-UP / deadlock: %s is still blocked %v after every message it waits for was deposited by the router (slowest honest receive measured: %v)", r, s.bound, honestMax)
		}
		s.verify(r, res, exp)
	}
}

func (s *sm) launch(r *recv) {
	ctx, cancel := context.WithCancel(context.Background())
	r.cancel = cancel
	r.res = make(chan recvRes, 1)
	r.state = rPending
	r.tries++
	view := viewOf(s.root, r.ex.chain)
	cid, froms, ch := r.ex.cid, append([]sharing.ID(nil), r.froms...), r.res
	go func() {
		m, err := view.ReceiveFrom(ctx, cid, froms...)
		ch <- recvRes{m, err}
	}()
	if !s.readerStarted {
		s.readerStarted = true
		q := s.queue
		s.queue = nil
		for _, m := range q {
			s.physDeposit(m, 0, 0)
			s.settle()
		}
	}
	s.cidsInFlight()
	s.settle()
}

func (s *sm) cleanup() {
	for _, r := range s.recvs {
		if r.cancel != nil {
			r.cancel()
		}
	}
	s.root.Close()
	for _, p := range s.peers {
		p.rt.Close()
	}
}

// ---- actions ------------------------------------------------------------------------------------

func (s *sm) addToPool(m *wmsg) {
	s.seq++
	m.n = s.seq
	s.pool = append(s.pool, m)
	s.cidsInFlight()
}

func (s *sm) actSend(t *rapid.T) {
	type cand struct {
		e      exch
		sender sharing.ID
	}
	var cands []cand
	for _, e := range s.exchs {
		for _, id := range s.members {
			if !s.sentBy[e.key()][id] {
				cands = append(cands, cand{e, id})
			}
		}
	}
	if len(cands) == 0 {
		t.Skip()
	}
	// half of the time prefer a message some started receive is waiting for
	if rapid.Bool().Draw(t, "wanted") {
		var w []cand
		for _, c := range cands {
			for _, r := range s.recvs {
				if r.state != rDone && r.key == c.e.key() {
					for _, f := range r.froms {
						if f == c.sender {
							w = append(w, c)
						}
					}
				}
			}
		}
		if len(w) > 0 {
			cands = w
		}
	}
	c := cands[rapid.IntRange(0, len(cands)-1).Draw(t, "which")]
	key := c.e.key()
	payload := []byte(fmt.Sprintf("%s<-%d#%d", c.e, c.sender, s.seq+1))
	if rapid.IntRange(0, 15).Draw(t, "emptyPayload") == 0 {
		payload = []byte{}
	}
	msgs := map[sharing.ID][]byte{s.R: payload}
	for _, id := range s.members {
		if id != s.R && rapid.IntRange(0, 3).Draw(t, "alsoTo") == 0 {
			msgs[id] = []byte(fmt.Sprintf("for-%d:%s", id, payload))
		}
	}
	var sent []sentMsg
	var err error
	if c.sender == s.R {
		err = viewOf(s.root, c.e.chain).SendTo(context.Background(), c.e.cid, msgs)
		sent = s.d.takeSent()
	} else {
		p := s.peers[c.sender]
		err = viewOf(p.rt, c.e.chain).SendTo(context.Background(), c.e.cid, msgs)
		sent = p.d.takeSent()
	}
	s.log('s', "send %s by %d payload=%q recipients=%d", c.e, c.sender, payload, len(msgs))
	if err != nil {
		s.failf("SendTo failed: %v", err)
	}
	if len(sent) != len(msgs) {
		s.failf("SendTo with %d recipients handed %d messages to the transport", len(msgs), len(sent))
	}
	seen := map[sharing.ID]bool{}
	for _, o := range sent {
		want, ok := msgs[o.to]
		if !ok || seen[o.to] {
			s.failf("SendTo handed the transport a message for %d (unrequested or twice)", o.to)
		}
		seen[o.to] = true
		w, err := decodeWire(o.wire)
		if err != nil {
			s.failf("the router's wire message does not decode: %v", err)
		}
		if !bytes.Equal(w.Payload, want) {
			s.failf("SendTo to %d carries payload %q, given %q", o.to, w.Payload, want)
		}
		s.noteWire(key, w.CorrelationID)
		if o.to == s.R {
			s.addToPool(&wmsg{from: c.sender, wire: o.wire, kind: "send", key: key, payload: payload, member: true, wirecid: w.CorrelationID})
		}
	}
	if s.sentBy[key] == nil {
		s.sentBy[key] = map[sharing.ID]bool{}
	}
	s.sentBy[key][c.sender] = true
}

func (s *sm) wanted(m *wmsg) bool {
	if !m.member || m.key == "" {
		return false
	}
	for _, r := range s.recvs {
		if r.state != rDone && r.key == m.key {
			for _, f := range r.froms {
				if f == m.from {
					return true
				}
			}
		}
	}
	return false
}

func (s *sm) takeFromPool(k int) *wmsg {
	m := s.pool[k]
	s.pool = append(s.pool[:k:k], s.pool[k+1:]...)
	return m
}

func (s *sm) actDeliver(t *rapid.T) {
	if s.closed || len(s.pool) == 0 {
		t.Skip()
	}
	k := rapid.IntRange(0, len(s.pool)-1).Draw(t, "k")
	if rapid.Bool().Draw(t, "wanted") {
		// prefer the k-th message (cyclically) that a started receive is waiting for
		for i := 0; i < len(s.pool); i++ {
			j := (k + i) % len(s.pool)
			if s.wanted(s.pool[j]) {
				k = j
				break
			}
		}
	}
	mode, n := drawPerturb(t)
	m := s.takeFromPool(k)
	kind := byte('d')
	if k != 0 {
		s.reorder = true
		kind = 'D'
	}
	if !s.readerStarted {
		s.log(kind, "deliver %s (held by the transport: the router has not started reading)", m)
		s.queue = append(s.queue, m)
		return
	}
	s.log(kind, "deliver %s", m)
	s.physDeposit(m, mode, n)
	s.settle()
}

func (s *sm) actBurst(t *rapid.T) {
	if s.closed || !s.readerStarted || len(s.pool) < 2 {
		t.Skip()
	}
	want := rapid.IntRange(2, 5).Draw(t, "burst")
	s.log('b', "burst of up to %d back-to-back deliveries", want)
	for i := 0; i < want && len(s.pool) > 0; i++ {
		k := rapid.IntRange(0, len(s.pool)-1).Draw(t, "k")
		if s.wouldPoison(s.pool[k]) {
			break // conflicts are delivered one at a time so that the outcome does not depend on timing
		}
		if k != 0 {
			s.reorder = true
		}
		m := s.takeFromPool(k)
		s.hist[len(s.hist)-1] += fmt.Sprintf("\n       %s", m)
		s.physDeposit(m, rapid.IntRange(0, 2).Draw(t, "perturb"), rapid.IntRange(1, 300).Draw(t, "perturbN"))
	}
	s.settle()
}

func (s *sm) anyMessage(t *rapid.T, pred func(*wmsg) bool) *wmsg {
	var c []*wmsg
	for _, m := range s.pool {
		if pred(m) {
			c = append(c, m)
		}
	}
	for _, m := range s.delivered {
		if pred(m) {
			c = append(c, m)
		}
	}
	for _, m := range s.queue {
		if pred(m) {
			c = append(c, m)
		}
	}
	if len(c) == 0 {
		t.Skip()
	}
	return c[rapid.IntRange(0, len(c)-1).Draw(t, "src")]
}

func (s *sm) actDup(t *rapid.T) {
	src := s.anyMessage(t, func(*wmsg) bool { return true })
	c := *src
	c.wire = append([]byte(nil), src.wire...)
	c.kind = fmt.Sprintf("dup-of-#%d", src.n)
	s.addToPool(&c)
	s.dup = true
	s.log('u', "duplicate %s -> #%d", src, c.n)
}

func (s *sm) actConflict(t *rapid.T) {
	src := s.anyMessage(t, func(m *wmsg) bool { return m.member && m.key != "" })
	var p []byte
	switch rapid.IntRange(0, 2).Draw(t, "style") {
	case 0: // same length
		p = append([]byte(nil), src.payload...)
		if len(p) == 0 {
			p = []byte("x")
		} else {
			p[len(p)-1] ^= 0x01
		}
	case 1:
		p = append(append([]byte(nil), src.payload...), '!')
	default:
		if len(src.payload) == 0 {
			p = []byte("y")
		} else {
			p = append([]byte(nil), src.payload[:len(src.payload)-1]...)
		}
	}
	spoof := uint64(0)
	if rapid.Bool().Draw(t, "spoofFromField") {
		spoof = uint64(s.members[rapid.IntRange(0, len(s.members)-1).Draw(t, "spoof")])
	}
	c := &wmsg{from: src.from, wire: encodeWire(spoof, src.wirecid, p), kind: fmt.Sprintf("conflict-with-#%d", src.n), key: src.key, payload: p, member: true, wirecid: src.wirecid}
	s.addToPool(c)
	s.conflict = true
	s.log('c', "conflict %s -> %s", src, c)
}

func (s *sm) actInject(t *rapid.T) {
	switch rapid.IntRange(0, 2).Draw(t, "variant") {
	case 0, 1: // from a non-member, under an honest correlation id
		src := s.anyMessage(t, func(m *wmsg) bool { return m.key != "" })
		nm := s.nonMembers[rapid.IntRange(0, len(s.nonMembers)-1).Draw(t, "nonMember")]
		c := &wmsg{from: nm, kind: "non-member", key: src.key, member: false, wirecid: src.wirecid}
		if rapid.Bool().Draw(t, "copy") {
			c.wire, c.payload = append([]byte(nil), src.wire...), src.payload
		} else {
			c.payload = []byte(fmt.Sprintf("forged-by-%d", nm))
			c.wire = encodeWire(uint64(src.from), src.wirecid, c.payload)
		}
		s.addToPool(c)
		s.log('i', "inject %s", c)
	default: // from a member, under a correlation id nobody receives
		raw := []string{"zz", "abcd", "a/b/c/d", "A", "abc/", "/abc/", "ab/c/", "a/b/c/"}
		for _, w := range observedWire() {
			raw = append(raw, w+"x")
			if len(w) > 1 {
				raw = append(raw, w[:len(w)-1])
			}
		}
		sort.Strings(raw)
		honest := map[string]bool{}
		for _, w := range observedWire() {
			honest[w] = true
		}
		var ok []string
		for _, c := range raw {
			if !honest[c] {
				ok = append(ok, c)
			}
		}
		cid := ok[rapid.IntRange(0, len(ok)-1).Draw(t, "rawcid")]
		from := s.members[rapid.IntRange(0, len(s.members)-1).Draw(t, "from")]
		c := &wmsg{from: from, kind: "unknown-cid", key: "", member: true, wirecid: cid, payload: []byte("stray")}
		c.wire = encodeWire(0, cid, c.payload)
		s.addToPool(c)
		s.log('i', "inject %s", c)
	}
}

func (s *sm) actReceive(t *rapid.T) {
	if s.closed {
		t.Skip()
	}
	var cands []exch
	for _, e := range s.exchs {
		used := false
		for _, r := range s.recvs {
			if r.key == e.key() {
				used = true
			}
		}
		if !used {
			cands = append(cands, e)
		}
	}
	if len(cands) == 0 {
		t.Skip()
	}
	e := cands[rapid.IntRange(0, len(cands)-1).Draw(t, "exchange")]
	var froms []sharing.ID
	size := rapid.SampledFrom([]int{0, 1, 1, 1, 2, 2, 2, 3, 4, 5}).Draw(t, "size")
	for _, id := range s.members {
		// senders that already sent under this exchange are twice as likely to be asked for
		p := 2
		if s.sentBy[e.key()][id] {
			p = 4
		}
		if len(froms) < size && rapid.IntRange(0, 5).Draw(t, "from") < p {
			froms = append(froms, id)
		}
	}
	if len(froms) == 0 && rapid.IntRange(0, 7).Draw(t, "keepEmpty") != 0 {
		froms = append(froms, s.members[rapid.IntRange(0, len(s.members)-1).Draw(t, "one")])
	}
	if rapid.IntRange(0, 9).Draw(t, "askNonMember") == 0 {
		froms = append(froms, s.nonMembers[rapid.IntRange(0, len(s.nonMembers)-1).Draw(t, "nonMember")])
	}
	r := &recv{n: len(s.recvs), ex: e, key: e.key(), froms: froms}
	s.recvs = append(s.recvs, r)
	s.log('r', "receive %s", r)
	s.launch(r)
}

func (s *sm) pick(t *rapid.T, state int) *recv {
	var c []*recv
	for _, r := range s.recvs {
		if r.state == state {
			c = append(c, r)
		}
	}
	if len(c) == 0 {
		t.Skip()
	}
	return c[rapid.IntRange(0, len(c)-1).Draw(t, "recv")]
}

func (s *sm) expectCancelled(r *recv, res recvRes) {
	if res.err == nil || !errors.Is(res.err, context.Canceled) || len(res.m) != 0 {
		s.failf("%s was cancelled while incomplete and returned %s instead of the context error", r, showRes(res))
	}
	r.state = rCancelled
	s.nCancel++
}

func (s *sm) actCancel(t *rapid.T) {
	if s.closed {
		t.Skip()
	}
	r := s.pick(t, rPending)
	s.log('x', "cancel %s", r)
	s.cancelled = true
	r.cancel()
	res, ok := s.await(r)
	if !ok {
		s.failf("deadlock: cancelled %s did not return within %v", r, s.bound)
	}
	s.expectCancelled(r, res)
}

func (s *sm) actCancelRace(t *rapid.T) {
	if s.closed || !s.readerStarted {
		t.Skip()
	}
	r := s.pick(t, rPending)
	k := -1
	for i, m := range s.pool {
		if m.key == r.key && m.member {
			k = i
			break
		}
	}
	if k < 0 {
		t.Skip()
	}
	order := rapid.IntRange(0, 2).Draw(t, "order")
	mode, n := rapid.IntRange(0, 2).Draw(t, "perturb"), rapid.IntRange(1, 2000).Draw(t, "perturbN")
	m := s.takeFromPool(k)
	s.cancelled = true
	s.log('X', "cancel %s racing with deliver %s (order %d)", r, m, order)
	switch order {
	case 0:
		r.cancel()
		s.physDeposit(m, mode, n)
	case 1:
		s.physDeposit(m, 0, 0)
		perturb(mode, n)
		r.cancel()
	default:
		go func() { perturb(mode, n); r.cancel() }()
		s.physDeposit(m, 0, 0)
	}
	res, ok := s.await(r)
	if !ok {
		s.failf("deadlock: %s neither completed nor honoured its cancellation within %v", r, s.bound)
	}
	exp := s.expect(r)
	s.nRace++
	if res.err != nil && errors.Is(res.err, context.Canceled) {
		s.expectCancelled(r, res)
	} else if exp != expNone {
		s.verify(r, res, exp)
	} else {
		s.failf("%s returned %s although it was cancelled while incomplete", r, showRes(res))
	}
	s.settle()
}

func (s *sm) actRetry(t *rapid.T) {
	if s.closed {
		t.Skip()
	}
	r := s.pick(t, rCancelled)
	s.log('y', "retry %s", r)
	before := s.nComplete
	s.launch(r)
	if s.nComplete > before {
		s.nRetryOK++
	}
}

func (s *sm) actClose(t *rapid.T) {
	if s.closed || len(s.hist) < 6 || rapid.IntRange(0, 5).Draw(t, "really") != 0 {
		t.Skip()
	}
	view := s.root
	if rapid.Bool().Draw(t, "viaView") {
		view = s.root.Namespaced("other")
	}
	s.log('C', "close")
	view.Close()
	s.closed = true
	for _, r := range s.recvs {
		if r.state != rPending {
			continue
		}
		res, ok := s.await(r)
		if !ok {
			s.failf("deadlock: %s still blocked %v after Close", r, s.bound)
		}
		if res.err == nil || !errors.Is(res.err, network.ErrRouterClosed) || len(res.m) != 0 {
			s.failf("%s was pending (incomplete) at Close and returned %s instead of ErrRouterClosed", r, showRes(res))
		}
		r.state = rDone
	}
}

func (s *sm) actPostClose(t *rapid.T) {
	if !s.closed {
		t.Skip()
	}
	e := s.exchs[rapid.IntRange(0, len(s.exchs)-1).Draw(t, "exchange")]
	from := s.members[rapid.IntRange(0, len(s.members)-1).Draw(t, "from")]
	s.log('p', "receive %s from %d on the closed router", e, from)
	ch := make(chan recvRes, 1)
	go func() {
		m, err := viewOf(s.root, e.chain).ReceiveFrom(context.Background(), e.cid, from)
		ch <- recvRes{m, err}
	}()
	r := &recv{ex: e, froms: []sharing.ID{from}, res: ch}
	res, ok := s.await(r)
	if !ok {
		s.failf("deadlock: ReceiveFrom on a closed router blocked for %v", s.bound)
	}
	if res.err == nil || !errors.Is(res.err, network.ErrRouterClosed) {
		s.failf("ReceiveFrom on a closed router returned %s instead of ErrRouterClosed", showRes(res))
	}
}

func (s *sm) check(*rapid.T) {
	if s.closed {
		return
	}
	s.settle()
}

// finish delivers what is still in flight, retries every cancelled receive and cancels the rest:
// whatever was sent for a receive is obtained in the end (nothing lost).
func (s *sm) finish() {
	if s.closed || !s.readerStarted {
		return
	}
	s.log('f', "final: deliver the %d messages still in flight in order, retry cancelled receives, cancel the rest", len(s.pool))
	for len(s.pool) > 0 {
		m := s.takeFromPool(0)
		s.physDeposit(m, 0, 0)
		s.settle()
	}
	for _, r := range s.recvs {
		if r.state == rCancelled {
			before := s.nComplete
			s.launch(r)
			if s.nComplete > before {
				s.nRetryOK++
			}
		}
	}
	for _, r := range s.recvs {
		if r.state != rPending {
			continue
		}
		r.cancel()
		res, ok := s.await(r)
		if !ok {
			s.failf("deadlock: cancelled %s did not return within %v", r, s.bound)
		}
		s.expectCancelled(r, res)
	}
}

func TestRouterStateMachine(t *testing.T) {
	const test = "RouterStateMachine"
	bound()
	if err := flag.Set("rapid.steps", "40"); err != nil {
		t.Fatal(err)
	}
	defer func() { _ = flag.Set("rapid.steps", "30") }()
	vlib.Check(t, 9000, func(t *rapid.T) {
		n := rapid.IntRange(2, 5).Draw(t, "n")
		idx := rapid.SliceOfNDistinct(rapid.IntRange(0, len(idPool)-1), n, n, rapid.ID[int]).Draw(t, "members")
		bd := waitBound()
		s := &sm{t: t, memberSet: map[sharing.ID]bool{}, bound: bd,
			slots: map[string]map[sharing.ID][]byte{}, poison: map[string][]sharing.ID{}, doneKeys: map[string]bool{},
			sentBy: map[string]map[sharing.ID]bool{}, wireOf: map[string]string{}, keyOf: map[string]string{}, peers: map[sharing.ID]*peerEnd{}}
		for _, i := range idx {
			s.members = append(s.members, idPool[i])
			s.memberSet[idPool[i]] = true
		}
		s.R = s.members[rapid.IntRange(0, n-1).Draw(t, "R")]
		s.nonMembers = []sharing.ID{0}
		for _, id := range idPool {
			if !s.memberSet[id] {
				s.nonMembers = append(s.nonMembers, id)
			}
		}
		ne := rapid.IntRange(2, 5).Draw(t, "exchanges")
		for _, i := range rapid.SliceOfNDistinct(rapid.IntRange(0, len(alphabet)-1), ne, ne, rapid.ID[int]).Draw(t, "alphabet") {
			s.exchs = append(s.exchs, alphabet[i])
		}
		s.d = newCtlDelivery(s.R, s.members)
		s.f = &feeder{d: s.d, bound: bd}
		s.root = network.NewRouter(s.d)
		for _, id := range s.members {
			if id != s.R {
				d := &recDelivery{id: id, quorum: s.members}
				s.peers[id] = &peerEnd{d: d, rt: network.NewRouter(d)}
			}
		}
		defer s.cleanup()

		actions := map[string]func(*rapid.T){
			"":           s.check,
			"send":       s.actSend,
			"send2":      s.actSend,
			"send3":      s.actSend,
			"deliver":    s.actDeliver,
			"deliver2":   s.actDeliver,
			"deliver3":   s.actDeliver,
			"burst":      s.actBurst,
			"dup":        s.actDup,
			"conflict":   s.actConflict,
			"inject":     s.actInject,
			"receive":    s.actReceive,
			"receive2":   s.actReceive,
			"cancel":     s.actCancel,
			"cancelrace": s.actCancelRace,
			"retry":      s.actRetry,
			"close":      s.actClose,
			"postclose":  s.actPostClose,
		}
		// rapid draws the length of a Repeat geometrically (often 0-5 actions): repeat until the
		// history is long enough to contain interleavings
		for round := 0; round < 8 && (round == 0 || len(s.hist) < 24); round++ {
			t.Repeat(actions)
		}
		s.finish()

		nt := s.maxCids >= 2 && (s.reorder || s.dup || s.conflict || s.cancelled)
		desc := string(s.kinds)
		if len(desc) > 28 {
			desc = desc[:28]
		}
		classes := []string{fmt.Sprintf("n=%d", n), fmt.Sprintf("exchanges=%d", ne), fmt.Sprintf("maxConcurrentCids=%d", min(s.maxCids, 5)),
			fmt.Sprintf("reorder=%v", s.reorder), fmt.Sprintf("dup=%v", s.dup), fmt.Sprintf("conflict=%v", s.conflict), fmt.Sprintf("cancel=%v", s.cancelled),
			fmt.Sprintf("closed=%v", s.closed), fmt.Sprintf("steps=%d", len(s.hist)/10*10), fmt.Sprintf("completed=%d", min(s.nComplete, 4)), fmt.Sprintf("poisoned=%d", min(s.nPoison, 3)),
			fmt.Sprintf("cancelled=%d", min(s.nCancel, 3)), fmt.Sprintf("retryCompleted=%d", min(s.nRetryOK, 2)), fmt.Sprintf("cancelRaces=%d", min(s.nRace, 2))}
		seenKind := map[byte]bool{}
		for _, k := range s.kinds {
			if !seenKind[k] {
				seenKind[k] = true
				classes = append(classes, "has-action="+string(k))
			}
		}
		vlib.Case(test, desc, nt, classes...)
		if nt {
			vlib.Sample("router-history", map[string]any{"members": fmt.Sprint(s.members), "R": uint64(s.R), "exchanges": fmt.Sprint(s.exchs), "history": s.hist})
		}
	})
}
