package c11

import (
	"bytes"
	"context"
	"fmt"
	"testing"
	"time"

	"pgregory.net/rapid"

	"github.com/bronlabs/bron-crypto/pkg/mpc/sharing"
	"github.com/bronlabs/bron-crypto/pkg/network"
	"verif/harness/vlib"
)

// recvBounded runs one ReceiveFrom and waits for it at most bd.
func recvBounded(rt *network.Router, cid string, bd time.Duration, froms ...sharing.ID) (map[sharing.ID][]byte, error, bool) {
	ch := make(chan recvRes, 1)
	ctx, cancel := context.WithCancel(context.Background())
	defer cancel()
	go func() {
		m, err := rt.ReceiveFrom(ctx, cid, froms...)
		ch <- recvRes{m, err}
	}()
	tm := time.NewTimer(bd)
	defer tm.Stop()
	select {
	case r := <-ch:
		return r.m, r.err, true
	case <-tm.C:
		return nil, nil, false
	}
}

// TestWakeupPairs: two receives (two correlation ids, optionally in different namespaces) wait
// for two senders each; the four messages are deposited back to back, interleaved across the two
// ids, with drawn tiny delays between them, so that deposits fall into the window in which a
// woken receiver re-scans its mailbox. Every receive must complete (no lost wake-up) with the
// right payloads. Repeated several hundred times per case on one router.
func TestWakeupPairs(t *testing.T) {
	const test = "WakeupPairs"
	vlib.Check(t, 240, func(t *rapid.T) {
		bd := waitBound()
		members := []sharing.ID{1, 2, 3}
		d := newCtlDelivery(1, members)
		f := &feeder{d: d, bound: bd}
		root := network.NewRouter(d)
		defer root.Close()
		iters := 250
		lo := rapid.IntRange(0, 400).Draw(t, "spinLo")
		step := rapid.IntRange(0, 37).Draw(t, "spinStep")
		span := rapid.IntRange(1, 600).Draw(t, "spinSpan")
		pattern := rapid.IntRange(0, 3).Draw(t, "pattern")
		nsB := rapid.SampledFrom([]string{"", "a", "w"}).Draw(t, "nsB")
		viewB := root
		if nsB != "" {
			viewB = root.Namespaced(nsB)
		}
		peer := &recDelivery{id: 2, quorum: members}
		prt := network.NewRouter(peer)
		defer prt.Close()
		wire := func(view *network.Router, ns, cid string, payload []byte) []byte {
			v := prt
			if ns != "" {
				v = prt.Namespaced(ns)
			}
			if err := v.SendTo(context.Background(), cid, map[sharing.ID][]byte{1: payload}); err != nil {
				t.Fatalf("SendTo: %v", err)
			}
			return peer.takeSent()[0].wire
		}
		for i := 0; i < iters; i++ {
			cidA, cidB := fmt.Sprintf("w%d", i), fmt.Sprintf("w%d", i)
			if nsB == "" {
				cidB = fmt.Sprintf("w%dx", i) // cidA is a prefix of cidB
			}
			type res struct {
				m   map[sharing.ID][]byte
				err error
			}
			chA, chB := make(chan res, 1), make(chan res, 1)
			go func() { m, err := root.ReceiveFrom(context.Background(), cidA, 2, 3); chA <- res{m, err} }()
			go func() { m, err := viewB.ReceiveFrom(context.Background(), cidB, 2, 3); chB <- res{m, err} }()
			pa2, pa3 := []byte(fmt.Sprintf("A%d-2", i)), []byte(fmt.Sprintf("A%d-3", i))
			pb2, pb3 := []byte(fmt.Sprintf("B%d-2", i)), []byte(fmt.Sprintf("B%d-3", i))
			a2, a3 := wire(root, "", cidA, pa2), wire(root, "", cidA, pa3)
			b2, b3 := wire(viewB, nsB, cidB, pb2), wire(viewB, nsB, cidB, pb3)
			type dep struct {
				from sharing.ID
				w    []byte
			}
			orders := [][]dep{
				{{2, a2}, {3, a3}, {2, b2}, {3, b3}},
				{{2, a2}, {2, b2}, {3, b3}, {3, a3}},
				{{3, b3}, {2, a2}, {2, b2}, {3, a3}},
				{{2, a2}, {2, a2}, {3, a3}, {3, b3}, {3, b3}, {2, b2}},
			}
			perturb(2, lo+(i*step)%span)
			for j, dp := range orders[pattern] {
				if err := f.deposit(dp.from, dp.w); err != nil {
					hangSeen.Store(true)
					t.Fatalf("iteration %d: %v", i, err)
				}
				perturb(2, (lo+(i*step+j*7)%span)/2)
			}
			for name, ch := range map[string]chan res{"A": chA, "B": chB} {
				tm := time.NewTimer(bd)
				select {
				case r := <-ch:
					tm.Stop()
					w2, w3 := pa2, pa3
					if name == "B" {
						w2, w3 = pb2, pb3
					}
					if r.err != nil || len(r.m) != 2 || !bytes.Equal(r.m[2], w2) || !bytes.Equal(r.m[3], w3) {
						t.Fatalf("iteration %d pattern %d nsB=%q: receive %s returned %s, want {2:%q 3:%q}", i, pattern, nsB, name, showRes(recvRes{r.m, r.err}), w2, w3)
					}
				case <-tm.C:
					hangSeen.Store(true)
					t.Fatalf("LOST WAKE-UP: iteration %d pattern %d nsB=%q spin(lo=%d step=%d span=%d): receive %s still blocked %v after both its messages were deposited", i, pattern, nsB, lo, step, span, name, bd)
				}
			}
		}
		vlib.Case(test, vlib.Desc(pattern, nsB, lo/50, step, span/100), true, fmt.Sprintf("pattern=%d", pattern), "nsB="+nsB)
	})
}

// TestBufferAccounting: loads that never have 10 000 undelivered messages outstanding must never
// make the router fail, however many messages pass through in total: dropped non-member
// messages and absorbed identical retransmissions are not outstanding, consumed messages free
// their place.
func TestBufferAccounting(t *testing.T) {
	const test = "BufferAccounting"
	vlib.Check(t, 24, func(t *rapid.T) {
		bd := waitBound()
		members := []sharing.ID{1, 2, 3}
		d := newCtlDelivery(1, members)
		f := &feeder{d: d, bound: bd}
		root := network.NewRouter(d)
		defer root.Close()
		kind := rapid.SampledFrom([]string{"non-member-flood", "duplicate-flood", "fill-drain-cycles"}).Draw(t, "kind")
		ns := rapid.SampledFrom([]string{"", "a"}).Draw(t, "ns")
		view := root
		wcid := func(c string) string { return c }
		if ns != "" {
			view = root.Namespaced(ns)
			probe := &recDelivery{id: 2, quorum: members}
			prt := network.NewRouter(probe)
			wcid = func(c string) string {
				_ = prt.Namespaced(ns).SendTo(context.Background(), c, map[sharing.ID][]byte{1: nil})
				w, _ := decodeWire(probe.takeSent()[0].wire)
				return w.CorrelationID
			}
		}
		// the reader only exists after a first receive
		if m, err, ok := recvBounded(view, "start", bd); !ok || err != nil || len(m) != 0 {
			t.Fatalf("receive from nobody: %v %v %v", m, err, ok)
		}
		feed := func(from sharing.ID, cid string, payload []byte) {
			if err := f.deposit(from, encodeWire(0, cid, payload)); err != nil {
				hangSeen.Store(true)
				_, rerr, _ := recvBounded(view, "probe-after-failure", time.Second, 2)
				t.Fatalf("%s: %v; the router reports: %v", kind, err, rerr)
			}
		}
		total := 0
		var sizes []int
		switch kind {
		case "non-member-flood":
			total = rapid.IntRange(10001, 12000).Draw(t, "total")
			c := wcid("x")
			for i := 0; i < total; i++ {
				feed(sharing.ID(100+i%7), c, []byte{byte(i)})
			}
		case "duplicate-flood":
			total = rapid.IntRange(10001, 12000).Draw(t, "total")
			c := wcid("x")
			for i := 0; i < total; i++ {
				feed(2, c, []byte("same"))
			}
			m, err, ok := recvBounded(view, "x", bd, 2)
			if !ok || err != nil || !bytes.Equal(m[2], []byte("same")) {
				t.Fatalf("after %d identical copies of one message the receive returned %v err=%v completed=%v", total, m, err, ok)
			}
		default:
			cycles := rapid.IntRange(3, 4).Draw(t, "cycles")
			for c := 0; c < cycles; c++ {
				k := rapid.IntRange(2600, 4200).Draw(t, "fill")
				sizes = append(sizes, k)
				rev := rapid.Bool().Draw(t, "reverse")
				for i := 0; i < k; i++ {
					j := i
					if rev {
						j = k - 1 - i
					}
					feed(sharing.ID(2+j%2), wcid(fmt.Sprintf("c%d-%d", c, j)), []byte(fmt.Sprintf("p%d-%d", c, j)))
				}
				for i := 0; i < k; i++ {
					from := sharing.ID(2 + i%2)
					m, err, ok := recvBounded(view, fmt.Sprintf("c%d-%d", c, i), bd, from)
					want := []byte(fmt.Sprintf("p%d-%d", c, i))
					if !ok || err != nil || len(m) != 1 || !bytes.Equal(m[from], want) {
						t.Fatalf("cycle %d (sizes %v, at most %d outstanding): receive %d returned %v err=%v completed=%v, want %q", c, sizes, k, i, m, err, ok, want)
					}
				}
				total += k
			}
		}
		// the router must still work
		feed(3, wcid("after"), []byte("fine"))
		m, err, ok := recvBounded(view, "after", bd, 3)
		if !ok || err != nil || !bytes.Equal(m[3], []byte("fine")) {
			t.Fatalf("%s (%d messages in total, sizes %v, fewer than 10000 outstanding at any time): a later exchange returned %v err=%v completed=%v", kind, total, sizes, m, err, ok)
		}
		vlib.Case(test, vlib.Desc(kind, ns, total/500), true, "kind="+kind, "ns="+ns)
	})
}
