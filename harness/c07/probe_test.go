package c07

import (
	"fmt"
	"testing"

	"github.com/bronlabs/bron-crypto/pkg/base/nt"
	"github.com/bronlabs/bron-crypto/pkg/base/nt/num"
	"github.com/bronlabs/bron-crypto/pkg/commitments/intcom"
	"github.com/bronlabs/bron-crypto/pkg/encryption/paillier"
	"verif/harness/vlib"
)

func TestProbePrimes(t *testing.T) {
	for _, bits := range []uint{64, 256, 512} {
		a := vlib.NewPRNG(1, "p")
		b := vlib.NewPRNG(1, "p")
		p1, e1 := nt.GeneratePrime(num.NPlus(), bits, a)
		p2, e2 := nt.GeneratePrime(num.NPlus(), bits, b)
		fmt.Println("GeneratePrime", bits, e1, e2, p1.Equal(p2), a.Consumed(), b.Consumed())
		s := vlib.NewPRNG(1, "p")
		s.StarveAfter(0)
		_, e3 := nt.GeneratePrime(num.NPlus(), bits, s)
		fmt.Println("  starved:", e3)
	}
	for _, kl := range []uint{512, 1024} {
		for name, f := range map[string]func(uint, *vlib.PRNG) (*paillier.SecretKey, error){
			"SampleSecretKey":     func(k uint, r *vlib.PRNG) (*paillier.SecretKey, error) { return paillier.SampleSecretKey(k, r) },
			"SampleBlumSecretKey": func(k uint, r *vlib.PRNG) (*paillier.SecretKey, error) { return paillier.SampleBlumSecretKey(k, r) },
		} {
			a := vlib.NewPRNG(1, "p")
			b := vlib.NewPRNG(1, "p")
			k1, e1 := f(kl, a)
			k2, e2 := f(kl, b)
			if e1 != nil || e2 != nil {
				fmt.Println(name, kl, e1, e2)
				continue
			}
			fmt.Println(name, kl, "equal:", k1.Public().Equal(k2.Public()), "consumed", a.Consumed(), b.Consumed())
			s := vlib.NewPRNG(1, "p")
			s.StarveAfter(0)
			_, e3 := f(kl, s)
			fmt.Println("  starved err:", e3 != nil)
		}
	}
	{
		a := vlib.NewPRNG(1, "p")
		b := vlib.NewPRNG(1, "p")
		k1, e1 := intcom.SampleTrapdoorKey(256, a)
		k2, e2 := intcom.SampleTrapdoorKey(256, b)
		fmt.Println("intcom", e1, e2, a.Consumed(), b.Consumed())
		if e1 == nil && e2 == nil {
			fmt.Println("  equal:", k1.Equal(k2))
		}
	}
}
